/-
C03 — helper lemmas about the store: denotations (`flat`) under store extension and cell update,
chains that contain themselves, acyclic (ranked) stores.  Core Lean only.
-/
import MenpoModel.Core.C03Compose

namespace MenpoModel.C03

/-- chain members point into a store of `n` cells -/
def WFCell (n : Nat) : Cell → Prop
  | .chain ms => ∀ m ∈ ms, m < n
  | _ => True

/-- no dangling references -/
def WF (st : Store) : Prop := ∀ c ∈ st, WFCell st.length c

theorem WFCell.mono {n m : Nat} (h : n ≤ m) {c : Cell} (hc : WFCell n c) : WFCell m c := by
  cases c <;> simp only [WFCell] at *
  exact fun x hx => Nat.lt_of_lt_of_le (hc x hx) h

theorem flatMembers_congr {g g' : Nat → Option (List Leaf)} {ms : List Nat}
    (h : ∀ m ∈ ms, g m = g' m) : flatMembers g ms = flatMembers g' ms := by
  induction ms with
  | nil => rfl
  | cons m ms ih =>
    simp only [flatMembers]
    rw [h m (by simp), ih (fun x hx => h x (by simp [hx]))]

theorem flatMembers_mono {g g' : Nat → Option (List Leaf)} {ms : List Nat}
    (h : ∀ m ∈ ms, ∀ l, g m = some l → g' m = some l) {l : List Leaf}
    (hl : flatMembers g ms = some l) : flatMembers g' ms = some l := by
  induction ms generalizing l with
  | nil => exact hl
  | cons m ms ih =>
    simp only [flatMembers] at hl ⊢
    cases hg : g m with
    | none => simp [hg] at hl
    | some l1 =>
      cases hf : flatMembers g ms with
      | none => simp [hg, hf] at hl
      | some l2 =>
        rw [h m (by simp) l1 hg, ih (fun x hx => h x (by simp [hx])) hf]
        simpa [hg, hf] using hl

theorem flatMembers_append {g : Nat → Option (List Leaf)} {ms ns : List Nat}
    {l1 l2 : List Leaf} (h1 : flatMembers g ms = some l1) (h2 : flatMembers g ns = some l2) :
    flatMembers g (ms ++ ns) = some (l1 ++ l2) := by
  induction ms generalizing l1 with
  | nil => simp only [flatMembers] at h1; cases h1; simpa using h2
  | cons m ms ih =>
    simp only [flatMembers, List.cons_append] at h1 ⊢
    cases hg : g m with
    | none => simp [hg] at h1
    | some a =>
      cases hf : flatMembers g ms with
      | none => simp [hg, hf] at h1
      | some b =>
        simp only [hg, hf, Option.some.injEq] at h1
        rw [ih hf]; simp [← h1]

theorem flatMembers_single {g : Nat → Option (List Leaf)} {m : Nat} {l : List Leaf}
    (h : g m = some l) : flatMembers g [m] = some l := by
  simp [flatMembers, h]

theorem flatMembers_pair {g : Nat → Option (List Leaf)} {m n : Nat} {l1 l2 : List Leaf}
    (h1 : g m = some l1) (h2 : g n = some l2) : flatMembers g [m, n] = some (l1 ++ l2) := by
  simp [flatMembers, h1, h2]

/-- more fuel never changes a denotation that was already found -/
theorem flat_mono (st : Store) : ∀ (f r : Nat) (l : List Leaf),
    flat st f r = some l → flat st (f + 1) r = some l := by
  intro f
  induction f with
  | zero => intro r l h; simp [flat] at h
  | succ f ih =>
    intro r l h
    rw [flat] at h ⊢
    cases hc : st[r]? with
    | none => simp [hc] at h
    | some c =>
      cases c with
      | fam d t => simpa [hc] using h
      | leaf p => simpa [hc] using h
      | chain ms =>
        simp only [hc] at h ⊢
        exact flatMembers_mono (fun m _ l hl => ih m l hl) h

/-- a store extended by one cell denotes the same at every old reference -/
theorem flat_append (st : Store) (c : Cell) (hwf : WF st) : ∀ (f r : Nat), r < st.length →
    flat (st ++ [c]) f r = flat st f r := by
  intro f
  induction f with
  | zero => intro r _; rfl
  | succ f ih =>
    intro r hr
    rw [flat, flat, List.getElem?_append_left hr]
    cases hc : st[r]? with
    | none => rfl
    | some cell =>
      cases cell with
      | fam d t => rfl
      | leaf p => rfl
      | chain ms =>
        have hmem : Cell.chain ms ∈ st := List.mem_of_getElem? hc
        have := hwf _ hmem
        simp only [WFCell] at this
        exact flatMembers_congr (fun m hm => ih m (this m hm))

theorem reaches_self (st : Store) (f a : Nat) : reaches st (f + 1) a a = true := by
  simp [reaches]

/-- updating a cell that flattening never visits does not change the denotation -/
theorem flat_set (st : Store) (a : Nat) (c : Cell) : ∀ (f r : Nat),
    reaches st f r a = false → flat (st.set a c) f r = flat st f r := by
  intro f
  induction f with
  | zero => intro r _; rfl
  | succ f ih =>
    intro r hr
    simp only [reaches, Bool.or_eq_false_iff] at hr
    obtain ⟨hne, hrest⟩ := hr
    have hne' : a ≠ r := by
      intro h; subst h; simp at hne
    rw [flat, flat, List.getElem?_set_ne hne']
    cases hc : st[r]? with
    | none => rfl
    | some cell =>
      cases cell with
      | fam d t => rfl
      | leaf p => rfl
      | chain ms =>
        simp only [hc, List.any_eq_false] at hrest
        exact flatMembers_congr (fun m hm => ih m (by simpa using hrest m hm))

theorem applyLeaves_append (tbl : ClassTable) (env : Nat → Pt → Option Pt)
    (l1 l2 : List Leaf) (x : Pt) :
    applyLeaves tbl env (l1 ++ l2) x = (applyLeaves tbl env l1 x).bind (applyLeaves tbl env l2) := by
  induction l1 generalizing x with
  | nil => simp [applyLeaves]
  | cons l ls ih =>
    simp only [List.cons_append, applyLeaves]
    cases applyLeaf tbl env l x with
    | none => rfl
    | some y => simpa using ih y

theorem applyLeaves_single (tbl : ClassTable) (env : Nat → Pt → Option Pt)
    (l : Leaf) (x : Pt) : applyLeaves tbl env [l] x = applyLeaf tbl env l x := by
  simp only [applyLeaves]
  cases applyLeaf tbl env l x <;> rfl

/-! ### chains that contain themselves -/

theorem flatMembers_none_of_mem {g : Nat → Option (List Leaf)} {ms : List Nat} {m : Nat}
    (hm : m ∈ ms) (h : g m = none) : flatMembers g ms = none := by
  induction ms with
  | nil => cases hm
  | cons x xs ih =>
    simp only [flatMembers]
    rcases List.mem_cons.mp hm with rfl | hm'
    · rw [h]
    · rw [ih hm']; cases g x <;> rfl

theorem flatMembers_total {g : Nat → Option (List Leaf)} {ms : List Nat}
    (h : ∀ m ∈ ms, ∃ l, g m = some l) : ∃ l, flatMembers g ms = some l := by
  induction ms with
  | nil => exact ⟨[], rfl⟩
  | cons x xs ih =>
    obtain ⟨l1, h1⟩ := h x (by simp)
    obtain ⟨l2, h2⟩ := ih (fun m hm => h m (by simp [hm]))
    exact ⟨l1 ++ l2, by simp [flatMembers, h1, h2]⟩

/-- the cell `a` itself is never looked into when asking whether something reaches `a` -/
theorem reaches_set (st : Store) (a : Nat) (c : Cell) : ∀ (f r : Nat),
    reaches (st.set a c) f r a = reaches st f r a := by
  intro f
  induction f with
  | zero => intro r; rfl
  | succ f ih =>
    intro r
    simp only [reaches]
    by_cases h : r = a
    · subst h; simp
    · rw [List.getElem?_set_ne (Ne.symm h)]
      have : (fun m => reaches (st.set a c) f m a) = fun m => reaches st f m a := funext (ih ·)
      rw [this]

theorem reaches_self' (st : Store) (f a : Nat) : reaches st (f + 1) a a = true := by
  simp [reaches]

/-- one hop: a chain reaches whatever one of its members reaches -/
theorem reaches_step {st : Store} {i a m f : Nat} {ms : List Nat} (hi : st[i]? = some (.chain ms))
    (hm : m ∈ ms) (h : reaches st f m a = true) : reaches st (f + 1) i a = true := by
  simp only [reaches, hi, Bool.or_eq_true, List.any_eq_true]
  exact Or.inr ⟨m, hm, h⟩

/-- what `reaches … = true` means one level down -/
theorem reaches_cases {st : Store} {r a f : Nat} (h : reaches st (f + 1) r a = true) :
    r = a ∨ ∃ ms m, st[r]? = some (.chain ms) ∧ m ∈ ms ∧ reaches st f m a = true := by
  simp only [reaches, Bool.or_eq_true, beq_iff_eq] at h
  rcases h with h | h
  · exact Or.inl h
  · cases hc : st[r]? with
    | none => simp [hc] at h
    | some cell =>
      cases cell with
      | fam d t => simp [hc] at h
      | leaf p => simp [hc] at h
      | chain ms =>
        simp only [hc, List.any_eq_true] at h
        obtain ⟨m, hm, hr⟩ := h
        exact Or.inr ⟨ms, m, rfl, hm, hr⟩

/-- If the chain `a` has a member from which `a` itself is reached, then neither `a` nor anything
that reaches `a` has a denotation, whatever the fuel: `TransformChain._apply` recurses forever. -/
theorem flat_none_of_cycle (st : Store) (a : Nat) (ms : List Nat) (ha : st[a]? = some (.chain ms))
    (hcyc : ∃ m ∈ ms, ∃ f, reaches st f m a = true) :
    ∀ (g r : Nat), (∃ f, reaches st f r a = true) → flat st g r = none := by
  intro g
  induction g with
  | zero => intro r _; rfl
  | succ g ih =>
    intro r ⟨f, hf⟩
    cases f with
    | zero => simp [reaches] at hf
    | succ f =>
      rcases reaches_cases hf with rfl | ⟨ms', m, hr, hm, hreach⟩
      · obtain ⟨m, hm, f', hf'⟩ := hcyc
        rw [flat, ha]
        exact flatMembers_none_of_mem hm (ih m ⟨f', hf'⟩)
      · rw [flat, hr]
        exact flatMembers_none_of_mem hm (ih m ⟨f, hreach⟩)

/-! ### acyclic stores: a rank that strictly decreases from a chain to its members -/

def RankedBy (st : Store) (rk : Nat → Nat) : Prop :=
  ∀ a ms, st[a]? = some (.chain ms) → ∀ m ∈ ms, rk m < rk a

/-- no chain contains itself, directly or through other chains -/
def Ranked (st : Store) : Prop := ∃ rk, RankedBy st rk

theorem ranked_reaches {st : Store} {rk : Nat → Nat} (h : RankedBy st rk) :
    ∀ (f r a : Nat), reaches st f r a = true → r = a ∨ rk a < rk r := by
  intro f
  induction f with
  | zero => intro r a hr; simp [reaches] at hr
  | succ f ih =>
    intro r a hr
    rcases reaches_cases hr with e | ⟨ms, m, hc, hm, hreach⟩
    · exact Or.inl e
    · right
      have := h r ms hc m hm
      rcases ih m a hreach with e | hlt
      · rw [← e]; exact this
      · exact Nat.lt_trans hlt this

/-- in an acyclic store a member of a chain never leads back to the chain -/
theorem ranked_member_not_reaches {st : Store} (hr : Ranked st) {a : Nat} {ms : List Nat}
    (ha : st[a]? = some (.chain ms)) {m : Nat} (hm : m ∈ ms) (f : Nat) : reaches st f m a = false := by
  obtain ⟨rk, hrk⟩ := hr
  cases h : reaches st f m a with
  | false => rfl
  | true =>
    have hlt := hrk a ms ha m hm
    rcases ranked_reaches hrk f m a h with e | h2
    · rw [e] at hlt; exact absurd hlt (Nat.lt_irrefl _)
    · exact absurd (Nat.lt_trans hlt h2) (Nat.lt_irrefl _)

/-- a store in which a chain is reached from one of its own members is not acyclic -/
theorem not_ranked_of_cycle {st : Store} {a m f : Nat} {ms : List Nat}
    (ha : st[a]? = some (.chain ms)) (hm : m ∈ ms) (h : reaches st f m a = true) : ¬ Ranked st := by
  intro hr
  have := ranked_member_not_reaches hr ha hm f
  rw [h] at this; cases this

theorem flat_mono_le (st : Store) {f g : Nat} (hfg : f ≤ g) {r : Nat} {l : List Leaf}
    (h : flat st f r = some l) : flat st g r = some l := by
  induction hfg with
  | refl => exact h
  | step _ ih => exact flat_mono st _ r l ih

/-- every object of an acyclic store without dangling references has a denotation; the rank of
the object bounds the fuel that is needed -/
theorem ranked_flat_total {st : Store} (hwf : WF st) {rk : Nat → Nat} (hrk : RankedBy st rk) :
    ∀ (n r : Nat), rk r ≤ n → r < st.length → ∃ l, flat st (n + 1) r = some l := by
  intro n
  induction n with
  | zero =>
    intro r hr hlt
    rw [flat]
    have hget : st[r]? = some st[r] := by simp [hlt]
    rw [hget]
    cases hc : st[r] with
    | fam d t => exact ⟨_, rfl⟩
    | leaf p => exact ⟨_, rfl⟩
    | chain ms =>
      rw [hc] at hget
      cases ms with
      | nil => exact ⟨[], rfl⟩
      | cons m ms' =>
        have := hrk r _ hget m (by simp)
        omega
  | succ n ih =>
    intro r hr hlt
    rw [flat]
    have hget : st[r]? = some st[r] := by simp [hlt]
    rw [hget]
    cases hc : st[r] with
    | fam d t => exact ⟨_, rfl⟩
    | leaf p => exact ⟨_, rfl⟩
    | chain ms =>
      rw [hc] at hget
      apply flatMembers_total
      intro m hm
      have h1 := hrk r _ hget m hm
      have h2 : m < st.length := by
        have := hwf _ (List.mem_of_getElem? hget); exact this m hm
      exact ih m (by omega) h2

theorem le_sum_of_mem {l : List Nat} {x : Nat} (h : x ∈ l) : x ≤ l.sum := by
  induction l with
  | nil => cases h
  | cons y ys ih =>
    simp only [List.sum_cons]
    rcases List.mem_cons.mp h with rfl | h'
    · omega
    · have := ih h'; omega

/-- a new object at the end of the store refers to older objects only: still acyclic -/
theorem ranked_append {st : Store} (hwf : WF st) (hr : Ranked st) {c : Cell}
    (hc : WFCell st.length c) : Ranked (st ++ [c]) := by
  obtain ⟨rk, hrk⟩ := hr
  let bound : Nat := match c with
    | .chain ms => (ms.map rk).sum + 1
    | _ => 0
  refine ⟨fun x => if x = st.length then bound else rk x, ?_⟩
  intro a ms ha m hm
  by_cases hlt : a < st.length
  · rw [List.getElem?_append_left hlt] at ha
    have hmlt : m < st.length := by
      have := hwf _ (List.mem_of_getElem? ha); exact this m hm
    simp only [Nat.ne_of_lt hlt, Nat.ne_of_lt hmlt, if_false]
    exact hrk a ms ha m hm
  · have hlen : a < (st ++ [c]).length := by
      rcases Nat.lt_or_ge a (st ++ [c]).length with h | h
      · exact h
      · rw [List.getElem?_eq_none h] at ha; cases ha
    have hae : a = st.length := by simp at hlen; omega
    subst hae
    simp at ha
    subst ha
    have hmlt : m < st.length := hc m hm
    simp only [Nat.ne_of_lt hmlt, if_false, if_true, bound]
    have := le_sum_of_mem (List.mem_map.mpr ⟨m, hm, rfl⟩ : rk m ∈ ms.map rk)
    omega

/-- replacing a cell by one that is not a chain keeps the store acyclic -/
theorem ranked_set_nonchain {st : Store} (hr : Ranked st) (a : Nat) {c : Cell}
    (hc : ∀ ms, c ≠ .chain ms) : Ranked (st.set a c) := by
  obtain ⟨rk, hrk⟩ := hr
  refine ⟨rk, ?_⟩
  intro i ms hi m hm
  by_cases h : a = i
  · subst h
    by_cases hlt : a < st.length
    · rw [List.getElem?_set_self hlt] at hi
      exact absurd (Option.some.inj hi) (hc ms)
    · rw [List.getElem?_eq_none (by simp; omega)] at hi; cases hi
  · rw [List.getElem?_set_ne h] at hi
    exact hrk i ms hi m hm

/-- appending / prepending `b` to the chain `a` keeps the store acyclic provided `b` does not
contain `a` -/
theorem ranked_chain_add {st : Store} (hr : Ranked st) {a b : Nat} {ms : List Nat} (dir : Dir)
    (ha : st[a]? = some (.chain ms)) (hnb : ∀ f, reaches st f b a = false) :
    Ranked (st.set a (.chain (chainAdd dir ms b))) := by
  obtain ⟨rk, hrk⟩ := hr
  haveI : DecidablePred fun x => ∃ f, reaches st f x a = true := fun _ => Classical.propDecidable _
  refine ⟨fun x => if ∃ f, reaches st f x a = true then rk x + rk b + 1 else rk x, ?_⟩
  have halt : a < st.length := by
    rcases Nat.lt_or_ge a st.length with h | h
    · exact h
    · rw [List.getElem?_eq_none h] at ha; cases ha
  have hRa : ∃ f, reaches st f a a = true := ⟨1, reaches_self' st 0 a⟩
  have hRb : ¬ ∃ f, reaches st f b a = true := by
    intro ⟨f, hf⟩; rw [hnb f] at hf; cases hf
  intro i ms' hi m hm
  by_cases h : a = i
  · subst h
    rw [List.getElem?_set_self halt] at hi
    have hms' : ms' = chainAdd dir ms b := by cases hi; rfl
    subst hms'
    have hm' : m ∈ ms ∨ m = b := by
      cases dir <;> simp only [chainAdd, List.mem_append, List.mem_cons, List.not_mem_nil, or_false] at hm
      · exact hm
      · exact hm.symm
    simp only [hRa, if_true]
    rcases hm' with hm' | rfl
    · have := hrk a ms ha m hm'
      split <;> omega
    · simp only [hRb, if_false]; omega
  · rw [List.getElem?_set_ne h] at hi
    have hlt := hrk i ms' hi m hm
    by_cases hRm : ∃ f, reaches st f m a = true
    · obtain ⟨f, hf⟩ := hRm
      have hRi : ∃ f, reaches st f i a = true := ⟨f + 1, reaches_step hi hm hf⟩
      simp only [hRi, (⟨f, hf⟩ : ∃ f, reaches st f m a = true), if_true]; omega
    · simp only [hRm, if_false]
      split <;> omega

/-! ### dimension typing -/

theorem pick_length {ds : List Nat} {x y : Pt} (h : pick ds x = some y) : y.length = ds.length := by
  induction ds generalizing y with
  | nil => simp only [pick, Option.some.injEq] at h; subst h; rfl
  | cons i is ih =>
    simp only [pick] at h
    cases hx : x[i]? with
    | none => simp [hx] at h
    | some v =>
      cases hp : pick is x with
      | none => simp [hx, hp] at h
      | some vs =>
        simp only [hx, hp, Option.some.injEq] at h
        rw [← h, List.length_cons, ih hp, List.length_cons]

theorem pick_some_iff {ds : List Nat} {x : Pt} : (∃ y, pick ds x = some y) ↔ ds.all (· < x.length) = true := by
  induction ds with
  | nil => simp [pick]
  | cons i is ih =>
    simp only [pick, List.all_cons, Bool.and_eq_true, decide_eq_true_eq]
    constructor
    · intro ⟨y, hy⟩
      cases hx : x[i]? with
      | none => simp [hx] at hy
      | some v =>
        cases hp : pick is x with
        | none => simp [hx, hp] at hy
        | some vs =>
          refine ⟨?_, ih.mp ⟨vs, hp⟩⟩
          rcases Nat.lt_or_ge i x.length with h | h
          · exact h
          · rw [List.getElem?_eq_none h] at hx; cases hx
    · intro ⟨hi, hrest⟩
      obtain ⟨vs, hvs⟩ := ih.mpr hrest
      exact ⟨x[i] :: vs, by simp [hi, hvs]⟩

theorem maskPick_length : ∀ (bs : List Bool) (x : Pt), bs.length = x.length →
    (maskPick bs x).length = bs.count true
  | [], [], _ => rfl
  | [], _ :: _, h => by simp at h
  | _ :: _, [], h => by simp at h
  | b :: bs, v :: vs, h => by
    have ih := maskPick_length bs vs (by simpa using h)
    cases b <;> simp [maskPick, ih]

/-- the positions at which a mask is true, counted from `k` -/
def maskIdx : List Bool → Nat → List Nat
  | [], _ => []
  | b :: bs, k => if b then k :: maskIdx bs (k + 1) else maskIdx bs (k + 1)

theorem pick_maskIdx : ∀ (bs : List Bool) (pre x : Pt), bs.length = x.length →
    pick (maskIdx bs pre.length) (pre ++ x) = some (maskPick bs x)
  | [], pre, [], _ => rfl
  | [], _, _ :: _, h => by simp at h
  | _ :: _, _, [], h => by simp at h
  | b :: bs, pre, v :: vs, h => by
    have ih := pick_maskIdx bs (pre ++ [v]) vs (by simpa using h)
    simp only [List.length_append, List.length_cons, List.length_nil, List.append_assoc,
      List.cons_append, List.nil_append] at ih
    cases b
    · simpa [maskIdx, maskPick] using ih
    · simp only [maskIdx, maskPick, if_true, pick, ih]
      simp

/-- PROPERTY-level fact about `WithDims`: a Boolean mask slices exactly like the index list of its
true positions (the two spellings the class documents) -/
theorem withMask_eq_withDims (bs : List Bool) (x : Pt) (h : bs.length = x.length) :
    pick (maskIdx bs 0) x = some (maskPick bs x) := by
  simpa using pick_maskIdx bs [] x h

theorem leavesDim_append (envDim : Nat → Nat → Option Nat) (l1 l2 : List Leaf) (n : Nat) :
    leavesDim envDim (l1 ++ l2) n = (leavesDim envDim l1 n).bind (leavesDim envDim l2) := by
  induction l1 generalizing n with
  | nil => simp [leavesDim]
  | cons l ls ih =>
    simp only [List.cons_append, leavesDim]
    cases leafDim envDim l n with
    | none => rfl
    | some k => simpa using ih k

theorem Vec.toList_length {d : Nat} (y : Vec d) : y.toList.length = d := by
  simp [Vec.toList]

theorem Vec.ofList_toList {d : Nat} (y : Vec d) : Vec.ofList d y.toList = y := by
  apply Vec.ext; intro i
  simp [Vec.ofList, Vec.toList]

end MenpoModel.C03
