/-
C16 — helper lemmas for path normalisation, extension parsing and the overwrite guard (core Lean only).
-/
import MenpoModel.Core.C16

namespace MenpoModel.C16

/-! ### normalisation -/

theorem normAbs_append (a b : List Comp) :
    normAbs (a ++ b) = (b.foldl normStep (a.foldl normStep [])).reverse := by
  simp [normAbs, List.foldl_append]

/-- a component that is neither empty, `.` nor `..` -/
def Proper (c : Comp) : Prop := c ≠ [] ∧ c ≠ ['.'] ∧ c ≠ ['.', '.']

theorem normStep_empty (st : List Comp) : normStep st [] = st := by simp [normStep]
theorem normStep_dot (st : List Comp) : normStep st ['.'] = st := by simp [normStep]
theorem normStep_dotdot (st : List Comp) : normStep st ['.', '.'] = st.tail := by
  simp [normStep]
theorem normStep_proper (st : List Comp) (c : Comp) (h : Proper c) : normStep st c = c :: st := by
  obtain ⟨h1, h2, h3⟩ := h
  simp [normStep, h1, h2, h3]

/-- a normalised path is a fixed point -/
theorem normAbs_fixed (p : List Comp) (h : ∀ c ∈ p, Proper c) : normAbs p = p := by
  have key : ∀ (q st : List Comp), (∀ c ∈ q, Proper c) → q.foldl normStep st = q.reverse ++ st := by
    intro q
    induction q with
    | nil => intro st _; rfl
    | cons c t ih =>
      intro st hq
      rw [List.foldl_cons, normStep_proper st c (hq c (by simp)), ih _ (fun x hx => hq x (by simp [hx]))]
      simp
  simp [normAbs, key p [] h]

/-! ### extension parsing -/

theorem candidates_mem_length (l : List (List Char)) (hne : ∀ s ∈ l, s ≠ []) :
    ∀ c ∈ candidates l, c.length ≤ l.flatten.length ∧ c ≠ [] := by
  induction l with
  | nil => intro c hc; simp [candidates] at hc
  | cons s t ih =>
    intro c hc
    simp only [candidates, List.mem_cons] at hc
    have hs : s ≠ [] := hne s (by simp)
    rcases hc with hc | hc
    · subst hc
      constructor
      · rw [List.length_map]; exact Nat.le_refl _
      · cases s with
        | nil => exact absurd rfl hs
        | cons a s' => simp
    · have := ih (fun x hx => hne x (by simp [hx])) c hc
      constructor
      · simp only [List.flatten_cons, List.length_append]; omega
      · exact this.2

/-- candidates come strictly longest first -/
theorem candidates_decreasing (l : List (List Char)) (hne : ∀ s ∈ l, s ≠ []) :
    (candidates l).Pairwise fun a b => b.length < a.length := by
  induction l with
  | nil => simp [candidates]
  | cons s t ih =>
    simp only [candidates, List.pairwise_cons]
    refine ⟨?_, ih (fun x hx => hne x (by simp [hx]))⟩
    intro c hc
    have h1 := (candidates_mem_length t (fun x hx => hne x (by simp [hx])) c hc).1
    have hs : s ≠ [] := hne s (by simp)
    have : 0 < s.length := List.length_pos_iff.2 hs
    simp only [List.length_map, List.flatten_cons, List.length_append]
    omega

theorem suffixes_nonempty (name : List Char) : ∀ s ∈ suffixes name, s ≠ [] := by
  intro s hs
  unfold suffixes at hs
  split at hs
  · simp at hs
  · simp only [List.mem_map] at hs
    obtain ⟨x, _, rfl⟩ := hs
    simp

/-! ### one export -/

theorem exportAt_refused (fs : FS) (p : Path) (k : Kind) (ue : Option (List Char)) (c : Nat)
    (h : (fs p).isSome = true) : exportAt fs p k ue false c = (.overwriteError, fs) := by
  simp [exportAt, exportAtW, h]

theorem exportAt_fs_of_not_written (fs : FS) (p : Path) (k : Kind) (ue : Option (List Char)) (ow : Bool) (c : Nat)
    (h : (exportAt fs p k ue ow c).1 ≠ .written) : (exportAt fs p k ue ow c).2 = fs := by
  unfold exportAt exportAtW at h ⊢
  split
  · rfl
  · split
    · rfl
    · split
      · rfl
      · rename_i h1 _ _ h2 h3
        simp [h1, h2, h3] at h

theorem exportAt_frame (fs : FS) (p q : Path) (k : Kind) (ue : Option (List Char)) (ow : Bool) (c : Nat)
    (hq : q ≠ p) : (exportAt fs p k ue ow c).2 q = fs q := by
  unfold exportAt exportAtW
  split
  · rfl
  · split
    · rfl
    · split
      · rfl
      · simp [FS.write, hq]

theorem exportAt_overwriteError_iff (fs : FS) (p : Path) (k : Kind) (ue : Option (List Char)) (ow : Bool) (c : Nat) :
    (exportAt fs p k ue ow c).1 = .overwriteError ↔ ((fs p).isSome = true ∧ ow = false) := by
  unfold exportAt exportAtW
  split
  · rename_i h; simp [h]
  · rename_i h
    split
    · simp [h]
    · split <;> simp [h]

/-- a refused or failed export keeps an existing file; a file that exists keeps existing in any case -/
theorem exportAt_keeps (fs : FS) (p q : Path) (k : Kind) (ue : Option (List Char)) (ow : Bool) (c v : Nat)
    (hv : fs q = some v) (hno : q = p → ow = false) : (exportAt fs p k ue ow c).2 q = some v := by
  by_cases hq : q = p
  · subst hq
    have : (fs q).isSome = true := by simp [hv]
    rw [hno rfl, exportAt_refused fs q k ue c this]
    exact hv
  · rw [exportAt_frame fs p q k ue ow c hq]; exact hv

end MenpoModel.C16
