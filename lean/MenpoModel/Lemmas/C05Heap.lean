/-
C05 — lemmas about the heap model of `copy()` / attribute rebinding / in-place writes and about programs of
`from_vector` / `from_vector_inplace` calls (`World.run`).  Core Lean only.  The property theorems built from
them are in Props/C05.lean.
-/
import MenpoModel.Core.Vectorize

namespace MenpoModel.C05

theorem bufIndex_lt (b : Buf) : bufIndex b < nBufs := by cases b <;> decide

theorem bufAt_index (b : Buf) : bufAt (bufIndex b) = some b := by cases b <;> rfl

theorem bufIndex_inj (b b' : Buf) (h : bufIndex b = bufIndex b') : b = b' := by
  cases b <;> cases b' <;> first | rfl | (simp [bufIndex] at h)

/-! ### copy -/

@[simp] theorem heapCopy_next (f : Buf → Bool) (H : Heap) (o : Obj) : (heapCopy f H o).1.next = H.next + nBufs := rfl

theorem heapCopy_old (f : Buf → Bool) (H : Heap) (o : Obj) (a : Nat) (h : a < H.next) :
    (heapCopy f H o).1.cell a = H.cell a := by
  simp [heapCopy, h]

theorem heapCopy_ref (f : Buf → Bool) (H : Heap) (o : Obj) (b : Buf) :
    (heapCopy f H o).2 b = if f b then H.next + bufIndex b else o b := rfl

theorem heapCopy_new (f : Buf → Bool) (H : Heap) (o : Obj) (b : Buf) :
    (heapCopy f H o).1.cell (H.next + bufIndex b) = H.cell (o b) := by
  have hge : ¬ (H.next + bufIndex b < H.next) := by omega
  simp only [heapCopy, hge, if_false, Nat.add_sub_cancel_left, bufAt_index]

/-- the copy starts out equal to the original, buffer by buffer -/
theorem heapCopy_val (f : Buf → Bool) (H : Heap) (o : Obj) (hv : ∀ b, o b < H.next) (b : Buf) :
    (heapCopy f H o).1.cell ((heapCopy f H o).2 b) = H.cell (o b) := by
  rw [heapCopy_ref]
  cases hf : f b
  · simp only [Bool.false_eq_true, if_false]; exact heapCopy_old f H o _ (hv b)
  · simp only [if_true]; exact heapCopy_new f H o b

/-! ### rebinding -/

@[simp] theorem heapRebind_next (rb : List Buf) (new : Buf → List Rat) (H : Heap) (o : Obj) :
    (heapRebind rb new H o).1.next = H.next + nBufs := rfl

theorem heapRebind_old (rb : List Buf) (new : Buf → List Rat) (H : Heap) (o : Obj) (a : Nat) (h : a < H.next) :
    (heapRebind rb new H o).1.cell a = H.cell a := by
  simp [heapRebind, h]

theorem heapRebind_ref (rb : List Buf) (new : Buf → List Rat) (H : Heap) (o : Obj) (b : Buf) :
    (heapRebind rb new H o).2 b = if rb.contains b then H.next + bufIndex b else o b := rfl

theorem heapRebind_new (rb : List Buf) (new : Buf → List Rat) (H : Heap) (o : Obj) (b : Buf)
    (hb : rb.contains b = true) : (heapRebind rb new H o).1.cell (H.next + bufIndex b) = new b := by
  have hge : ¬ (H.next + bufIndex b < H.next) := by omega
  simp only [heapRebind, hge, if_false, Nat.add_sub_cancel_left, bufAt_index, hb, if_true]

/-! ### in-place writes -/

@[simp] theorem heapUpdate_next (writes : List Buf) (new : Buf → List Rat) (H : Heap) (c : Obj) :
    (heapUpdate writes new H c).next = H.next := by
  induction writes generalizing H with
  | nil => rfl
  | cons w ws ih =>
    simp only [heapUpdate, List.foldl_cons] at ih ⊢
    rw [ih]; rfl

theorem heapUpdate_other (writes : List Buf) (new : Buf → List Rat) (H' : Heap) (c : Obj) (a : Nat)
    (h : ∀ w ∈ writes, c w ≠ a) : (heapUpdate writes new H' c).cell a = H'.cell a := by
  induction writes generalizing H' with
  | nil => rfl
  | cons w ws ih =>
    have h1 := ih (heapWrite H' (c w) (new w)) (fun x hx => h x (List.mem_cons_of_mem _ hx))
    simp only [heapUpdate, List.foldl_cons] at h1 ⊢
    rw [h1]
    have : a ≠ c w := fun e => h w (by simp) e.symm
    simp [heapWrite, this]

/-- a written buffer holds the new value afterwards, provided no *other* written buffer lives in the same cell -/
theorem heapUpdate_written (writes : List Buf) (new : Buf → List Rat) (H' : Heap) (c : Obj) (b : Buf)
    (hb : b ∈ writes) (hinj : ∀ w ∈ writes, c w = c b → w = b) :
    (heapUpdate writes new H' c).cell (c b) = new b := by
  induction writes generalizing H' with
  | nil => cases hb
  | cons w ws ih =>
    simp only [heapUpdate, List.foldl_cons]
    by_cases hbw : b ∈ ws
    · exact ih (heapWrite H' (c w) (new w)) hbw (fun x hx => hinj x (List.mem_cons_of_mem _ hx))
    · have hwb : w = b := by
        rcases List.mem_cons.mp hb with h | h
        · exact h.symm
        · exact absurd h hbw
      subst hwb
      have := heapUpdate_other ws new (heapWrite H' (c w) (new w)) c (c w)
        (fun x hx hxe => hbw (hinj x (List.mem_cons_of_mem _ hx) hxe ▸ hx))
      simp only [heapUpdate] at this
      rw [this]
      simp [heapWrite]

/-! ### one step -/

def World.Valid (W : World) : Prop := ∀ i, i < W.n → ∀ b, W.objs i b < W.heap.next

/-- a `from_vector` step whose in-place writes only hit buffers that are fresh in the copy or were just rebound -/
def Step.Pure (s : Step) : Prop :=
  s.inplace = false ∧ ∀ b ∈ s.writes, s.fresh b = true ∨ s.rebinds.contains b = true

theorem base_next_ge (s : Step) (W : World) : W.heap.next ≤ (s.base W).1.next := by
  unfold Step.base; split <;> simp

theorem base_old (s : Step) (W : World) (a : Nat) (h : a < W.heap.next) : (s.base W).1.cell a = W.heap.cell a := by
  unfold Step.base; split
  · rfl
  · exact heapCopy_old _ _ _ _ h

theorem base_ref_lt (s : Step) (W : World) (hv : W.Valid) (hr : s.recv < W.n) (b : Buf) :
    (s.base W).2 b < (s.base W).1.next := by
  have := hv s.recv hr b
  have hi := bufIndex_lt b
  unfold Step.base; split
  · exact this
  · simp only [heapCopy_next, heapCopy_ref]; split <;> omega

theorem rebound_next (s : Step) (W : World) : (s.rebound W).1.next = (s.base W).1.next + nBufs := rfl

theorem rebound_old (s : Step) (W : World) (a : Nat) (h : a < W.heap.next) :
    (s.rebound W).1.cell a = W.heap.cell a := by
  unfold Step.rebound
  rw [heapRebind_old _ _ _ _ _ (Nat.lt_of_lt_of_le h (base_next_ge s W)), base_old s W a h]

theorem rebound_ref_lt (s : Step) (W : World) (hv : W.Valid) (hr : s.recv < W.n) (b : Buf) :
    (s.rebound W).2 b < (s.rebound W).1.next := by
  have := base_ref_lt s W hv hr b
  have hi := bufIndex_lt b
  unfold Step.rebound
  simp only [heapRebind_next, heapRebind_ref]
  split <;> omega

/-- references of the updated object that are fresh in the copy or rebound point past the old heap -/
theorem rebound_ref_ge (s : Step) (W : World) (b : Buf)
    (h : (s.inplace = false ∧ s.fresh b = true) ∨ s.rebinds.contains b = true) :
    W.heap.next ≤ (s.rebound W).2 b := by
  have hb := base_next_ge s W
  unfold Step.rebound
  rw [heapRebind_ref]
  by_cases hrb : s.rebinds.contains b = true
  · rw [if_pos hrb]; omega
  · rw [if_neg hrb]
    rcases h with ⟨hi, hf⟩ | h
    · unfold Step.base
      simp only [hi, Bool.false_eq_true, if_false, heapCopy_ref, hf, if_true]
      omega
    · exact absurd h hrb

theorem exec_n_ge (W : World) (s : Step) : W.n ≤ (W.exec s).n := by
  unfold World.exec
  split
  · split <;> simp
  · exact Nat.le_refl _

theorem exec_next_ge (W : World) (s : Step) : W.heap.next ≤ (W.exec s).heap.next := by
  unfold World.exec
  split
  · have := base_next_ge s W
    split <;> simp [rebound_next] <;> omega
  · exact Nat.le_refl _

theorem exec_valid (W : World) (s : Step) (hv : W.Valid) : (W.exec s).Valid := by
  unfold World.exec
  split
  · rename_i hr
    have hb := base_next_ge s W
    split
    · intro i hi b
      simp only [heapUpdate_next, rebound_next] at hi ⊢
      by_cases hk : i = s.recv
      · simp only [hk, if_true]
        have := rebound_ref_lt s W hv hr b
        rw [rebound_next] at this; exact this
      · simp only [hk, if_false]
        have := hv i hi b
        omega
    · intro i hi b
      simp only [heapUpdate_next, rebound_next] at hi ⊢
      by_cases hk : i = W.n
      · simp only [hk, if_true]
        have := rebound_ref_lt s W hv hr b
        rw [rebound_next] at this; exact this
      · simp only [hk, if_false]
        have := hv i (by omega) b
        omega
  · exact hv

/-- a pure `from_vector` step changes no cell that existed before and no object that existed before -/
theorem exec_pure_frame (W : World) (s : Step) (hp : s.Pure) :
    (∀ a, a < W.heap.next → (W.exec s).heap.cell a = W.heap.cell a) ∧
    (∀ i, i < W.n → (W.exec s).objs i = W.objs i) := by
  obtain ⟨hi, hw⟩ := hp
  unfold World.exec
  split
  · simp only [hi, Bool.false_eq_true, if_false]
    refine ⟨fun a ha => ?_, fun i hlt => ?_⟩
    · rw [heapUpdate_other]
      · exact rebound_old s W a ha
      · intro w hwm
        have := rebound_ref_ge s W w (by
          rcases hw w hwm with h | h
          · exact Or.inl ⟨hi, h⟩
          · exact Or.inr h)
        omega
    · have : i ≠ W.n := by omega
      simp [this]
  · exact ⟨fun _ _ => rfl, fun _ _ => rfl⟩

theorem run_valid (W : World) (prog : List Step) (hv : W.Valid) : (W.run prog).Valid := by
  induction prog generalizing W with
  | nil => exact hv
  | cons s ss ih => exact ih (W.exec s) (exec_valid W s hv)

/-- programs of pure `from_vector` steps: nothing that existed before is changed -/
theorem run_pure_frame (W : World) (prog : List Step) (hp : ∀ s ∈ prog, s.Pure) :
    (∀ a, a < W.heap.next → (W.run prog).heap.cell a = W.heap.cell a) ∧
    (∀ i, i < W.n → (W.run prog).objs i = W.objs i) ∧ W.n ≤ (W.run prog).n := by
  induction prog generalizing W with
  | nil => exact ⟨fun _ _ => rfl, fun _ _ => rfl, Nat.le_refl _⟩
  | cons s ss ih =>
    obtain ⟨h1, h2⟩ := exec_pure_frame W s (hp s (by simp))
    obtain ⟨g1, g2, g3⟩ := ih (W.exec s) (fun t ht => hp t (List.mem_cons_of_mem _ ht))
    have hn := exec_next_ge W s
    have hk := exec_n_ge W s
    refine ⟨fun a ha => ?_, fun i hi => ?_, by simp only [World.run]; omega⟩
    · simp only [World.run]; rw [g1 a (by omega), h1 a ha]
    · simp only [World.run]; rw [g2 i (by omega), h2 i hi]

/-! ### ownership of the writable buffers: what makes in-place updates local -/

/-- no cell that some object holds as a writable buffer is referenced from anywhere else -/
def World.Owns (Wr : Buf → Bool) (W : World) : Prop :=
  ∀ i j, i < W.n → j < W.n → ∀ b b', Wr b = true → (i ≠ j ∨ b ≠ b') → W.objs i b ≠ W.objs j b'

/-- the step writes only writable buffers, and (for `from_vector`) its `copy` makes every writable buffer fresh -/
def Step.Adm (Wr : Buf → Bool) (s : Step) : Prop :=
  (∀ b ∈ s.writes, Wr b = true) ∧ (s.inplace = false → ∀ b, Wr b = true → s.fresh b = true)

theorem Step.Adm.pure {Wr : Buf → Bool} {s : Step} (h : s.Adm Wr) (hi : s.inplace = false) : s.Pure :=
  ⟨hi, fun b hb => Or.inl (h.2 hi b (h.1 b hb))⟩

theorem rebound_ref_cases (s : Step) (W : World) (b : Buf) :
    (s.rebinds.contains b = true ∧ (s.rebound W).2 b = (s.base W).1.next + bufIndex b) ∨
    (s.rebinds.contains b = false ∧ s.inplace = false ∧ s.fresh b = true ∧
        (s.rebound W).2 b = W.heap.next + bufIndex b) ∨
    (s.rebinds.contains b = false ∧ (s.inplace = true ∨ s.fresh b = false) ∧
        (s.rebound W).2 b = W.objs s.recv b) := by
  unfold Step.rebound
  rw [heapRebind_ref]
  cases hrb : s.rebinds.contains b
  · right
    simp only [Bool.false_eq_true, if_false]
    unfold Step.base
    cases hi : s.inplace
    · simp only [Bool.false_eq_true, if_false, heapCopy_ref]
      cases hf : s.fresh b
      · right; simp
      · left; simp
    · right; simp
  · left; simp

theorem base_next_eq (s : Step) (W : World) :
    (s.base W).1.next = if s.inplace then W.heap.next else W.heap.next + nBufs := by
  unfold Step.base; split <;> rfl

/-- the updated object owns its writable buffers against every old object, and old objects own theirs against it -/
theorem rebound_owns (Wr : Buf → Bool) (W : World) (s : Step) (hv : W.Valid) (ho : W.Owns Wr)
    (ha : s.Adm Wr) (hr : s.recv < W.n) (j : Nat) (hj : j < W.n) (hne : s.inplace = true → j ≠ s.recv)
    (b b' : Buf) :
    (Wr b = true → (s.rebound W).2 b ≠ W.objs j b') ∧ (Wr b' = true → W.objs j b' ≠ (s.rebound W).2 b) := by
  have hjb := hv j hj b'
  have hbn := base_next_eq s W
  have hib := bufIndex_lt b
  rcases rebound_ref_cases s W b with ⟨_, he⟩ | ⟨_, hi, _, he⟩ | ⟨_, hor, he⟩
  · rw [he, hbn]; constructor <;> intro _ <;> split <;> omega
  · rw [he]; constructor <;> intro _ <;> omega
  · rw [he]
    constructor
    · intro hw
      rcases hor with hi | hf
      · exact ho s.recv j hr hj b b' hw (Or.inl (fun e => hne hi e.symm))
      · cases hi : s.inplace
        · rw [ha.2 hi b hw] at hf; cases hf
        · exact ho s.recv j hr hj b b' hw (Or.inl (fun e => hne hi e.symm))
    · intro hw
      by_cases hjr : j = s.recv
      · by_cases hbb : b' = b
        · subst hbb
          -- the same buffer of the receiver: only possible for a copy, whose writable buffers are fresh
          rcases hor with hi | hf
          · exact absurd hjr (hne hi)
          · cases hi : s.inplace
            · rw [ha.2 hi b' hw] at hf; cases hf
            · exact absurd hjr (hne hi)
        · rw [← hjr]; exact ho j j hj hj b' b hw (Or.inr hbb)
      · exact ho j s.recv hj hr b' b hw (Or.inl hjr)

/-- within the updated object, a writable buffer shares its cell with no other buffer -/
theorem rebound_self_owns (Wr : Buf → Bool) (W : World) (s : Step) (hv : W.Valid) (ho : W.Owns Wr)
    (_ha : s.Adm Wr) (hr : s.recv < W.n) (b b' : Buf) (hw : Wr b = true) (hbb : b ≠ b') :
    (s.rebound W).2 b ≠ (s.rebound W).2 b' := by
  have hbn := base_next_eq s W
  have hib := bufIndex_lt b
  have hib' := bufIndex_lt b'
  have hidx : bufIndex b ≠ bufIndex b' := fun e => hbb (bufIndex_inj b b' e)
  have h1 := hv s.recv hr b
  have h2 := hv s.recv hr b'
  rcases rebound_ref_cases s W b with ⟨_, he⟩ | ⟨_, hi, _, he⟩ | ⟨_, hor, he⟩ <;>
    rcases rebound_ref_cases s W b' with ⟨_, he'⟩ | ⟨_, hi', _, he'⟩ | ⟨_, hor', he'⟩ <;>
    rw [he, he'] <;> (try rw [hbn]) <;> (try split) <;> (try omega)
  exact ho s.recv s.recv hr hr b b' hw (Or.inr hbb)

theorem exec_owns (Wr : Buf → Bool) (W : World) (s : Step) (hv : W.Valid) (ho : W.Owns Wr) (ha : s.Adm Wr) :
    (W.exec s).Owns Wr := by
  unfold World.exec
  split
  · rename_i hr
    cases hi : s.inplace
    · -- from_vector: the new object is number `W.n`
      simp only [Bool.false_eq_true, if_false]
      intro i j hil hjl b b' hw hd
      simp only at hil hjl ⊢
      by_cases hin : i = W.n <;> by_cases hjn : j = W.n
      · simp only [hin, hjn, if_true]
        rcases hd with hd | hd
        · exact absurd (hin.trans hjn.symm) hd
        · exact rebound_self_owns Wr W s hv ho ha hr b b' hw hd
      · simp only [hin, hjn, if_true, if_false]
        exact (rebound_owns Wr W s hv ho ha hr j (by omega) (fun h => by rw [hi] at h; cases h) b b').1 hw
      · simp only [hin, hjn, if_true, if_false]
        exact (rebound_owns Wr W s hv ho ha hr i (by omega) (fun h => by rw [hi] at h; cases h) b' b).2 hw
      · simp only [hin, hjn, if_false]
        exact ho i j (by omega) (by omega) b b' hw hd
    · -- from_vector_inplace: the receiver is replaced
      simp only [if_true]
      intro i j hil hjl b b' hw hd
      simp only at hil hjl ⊢
      by_cases hin : i = s.recv <;> by_cases hjn : j = s.recv
      · simp only [hin, hjn, if_true]
        rcases hd with hd | hd
        · exact absurd (hin.trans hjn.symm) hd
        · exact rebound_self_owns Wr W s hv ho ha hr b b' hw hd
      · simp only [hin, hjn, if_true, if_false]
        exact (rebound_owns Wr W s hv ho ha hr j hjl (fun _ => hjn) b b').1 hw
      · simp only [hin, hjn, if_true, if_false]
        exact (rebound_owns Wr W s hv ho ha hr i hil (fun _ => hin) b' b).2 hw
      · simp only [hin, hjn, if_false]
        exact ho i j hil hjl b b' hw hd
  · exact ho

/-- an in-place update of one object is invisible through every other object -/
theorem exec_inplace_frame (Wr : Buf → Bool) (W : World) (s : Step) (hv : W.Valid) (ho : W.Owns Wr)
    (ha : s.Adm Wr) (hi : s.inplace = true) (j : Nat) (hj : j < W.n) (hne : j ≠ s.recv) (b' : Buf) :
    (W.exec s).objs j = W.objs j ∧ (W.exec s).heap.cell (W.objs j b') = W.heap.cell (W.objs j b') := by
  unfold World.exec
  split
  · rename_i hr
    simp only [hne, if_false, true_and]
    rw [heapUpdate_other]
    · exact rebound_old s W _ (hv j hj b')
    · intro w hwm
      exact (rebound_owns Wr W s hv ho ha hr j hj (fun _ => hne) w b').1 (ha.1 w hwm)
  · exact ⟨rfl, rfl⟩

/-- what an in-place update does to its receiver: written and rebound buffers hold the new value, the
others what they held -/
theorem exec_inplace_effect (Wr : Buf → Bool) (W : World) (s : Step) (hv : W.Valid) (ho : W.Owns Wr)
    (ha : s.Adm Wr) (hi : s.inplace = true) (hr : s.recv < W.n) (b : Buf) :
    (W.exec s).val s.recv b =
      if b ∈ s.writes ∨ s.rebinds.contains b = true then s.new b else W.val s.recv b := by
  unfold World.val World.exec
  simp only [hr, hi, if_true]
  by_cases hbw : b ∈ s.writes
  · simp only [hbw, true_or, if_true]
    apply heapUpdate_written _ _ _ _ _ hbw
    intro w hwm he
    by_cases hwb : w = b
    · exact hwb
    · exact absurd he (rebound_self_owns Wr W s hv ho ha hr w b (ha.1 w hwm) hwb)
  · rw [heapUpdate_other]
    · cases hrb : s.rebinds.contains b
      · simp only [hbw, false_or, Bool.false_eq_true, if_false]
        have hb : (s.rebound W).2 b = W.objs s.recv b := by
          unfold Step.rebound Step.base
          rw [heapRebind_ref, hrb]
          simp [hi]
        rw [hb]
        exact rebound_old s W _ (hv s.recv hr b)
      · simp only [or_true, if_true]
        unfold Step.rebound
        rw [heapRebind_ref, hrb, if_pos rfl]
        exact heapRebind_new _ _ _ _ _ hrb
    · intro w hwm he
      have hwb : w ≠ b := fun e => hbw (e ▸ hwm)
      exact rebound_self_owns Wr W s hv ho ha hr w b (ha.1 w hwm) hwb he

/-- one admissible step, seen from an object that is not the receiver of an in-place update -/
theorem exec_adm_frame (Wr : Buf → Bool) (W : World) (s : Step) (hv : W.Valid) (ho : W.Owns Wr)
    (ha : s.Adm Wr) (j : Nat) (hj : j < W.n) (hne : s.inplace = true → j ≠ s.recv) (b : Buf) :
    (W.exec s).objs j = W.objs j ∧ (W.exec s).val j b = W.val j b := by
  cases hi : s.inplace
  · obtain ⟨h1, h2⟩ := exec_pure_frame W s (ha.pure hi)
    refine ⟨h2 j hj, ?_⟩
    unfold World.val
    rw [h2 j hj, h1 _ (hv j hj b)]
  · obtain ⟨h1, h2⟩ := exec_inplace_frame Wr W s hv ho ha hi j hj (hne hi) b
    refine ⟨h1, ?_⟩
    unfold World.val
    rw [h1, h2]

/-- programs mixing `from_vector` and `from_vector_inplace`: an object that is never the receiver of an
in-place update keeps its value, whatever is done to the others and to its own descendants -/
theorem run_adm_frame (Wr : Buf → Bool) (W : World) (prog : List Step) (hv : W.Valid) (ho : W.Owns Wr)
    (ha : ∀ s ∈ prog, s.Adm Wr) (j : Nat) (hj : j < W.n)
    (hne : ∀ s ∈ prog, s.inplace = true → j ≠ s.recv) (b : Buf) :
    (W.run prog).val j b = W.val j b ∧ (W.run prog).Owns Wr ∧ (W.run prog).Valid := by
  induction prog generalizing W with
  | nil => exact ⟨rfl, ho, hv⟩
  | cons s ss ih =>
    have hs := ha s (by simp)
    obtain ⟨_, h2⟩ := exec_adm_frame Wr W s hv ho hs j hj (hne s (by simp)) b
    obtain ⟨g1, g2, g3⟩ := ih (W.exec s) (exec_valid W s hv) (exec_owns Wr W s hv ho hs)
      (fun t ht => ha t (List.mem_cons_of_mem _ ht)) (Nat.lt_of_lt_of_le hj (exec_n_ge W s))
      (fun t ht => hne t (List.mem_cons_of_mem _ ht))
    exact ⟨by simp only [World.run]; rw [g1, h2], g2, g3⟩

end MenpoModel.C05
