/-
C18 helper lemmas: the binary64 sampling position `posF` of `BooleanImage.resize` is the exact position
`i·(o−1)/(n−1)` up to a relative error of `18·2⁻⁵³`, for all extents `2 ≤ o, n`.
-/
import MenpoModel.Lemmas.C18Rel

namespace MenpoModel.C18

theorem ulp2_small (k : ℚ) (hk : k ≤ 1000) : k * ulp2 ≤ 1 / 2 ^ 40 := by
  have hu := ulp2_pos
  have hu1 := ulp2_lt
  have h1 : k * ulp2 ≤ 1000 * ulp2 := mul_le_mul_of_nonneg_right hk hu.le
  have h2 : (1000 : ℚ) * (1 / 2 ^ 52) ≤ 1 / 2 ^ 40 := by norm_num
  linarith

theorem ulp2_half (k : ℚ) (hk : k ≤ 1000) : k * ulp2 ≤ 1 / 2 := by
  have := ulp2_small k hk
  have h2 : (1 : ℚ) / 2 ^ 40 ≤ 1 / 2 := by norm_num
  linarith

/-- the exact sampling position -/
def posX (o n i : Nat) : ℚ := (i : ℚ) * ((o : ℚ) - 1) / ((n : ℚ) - 1)

theorem posX_nonneg (o n i : Nat) (ho : 1 ≤ o) (hn : 2 ≤ n) : 0 ≤ posX o n i := by
  unfold posX
  have h1 : (1 : ℚ) ≤ (o : ℚ) := by exact_mod_cast ho
  have h2 : (2 : ℚ) ≤ (n : ℚ) := by exact_mod_cast hn
  have hi : (0 : ℚ) ≤ (i : ℚ) := by exact_mod_cast Nat.zero_le i
  apply div_nonneg (mul_nonneg hi (by linarith)) (by linarith)

theorem posX_le (o n i : Nat) (ho : 1 ≤ o) (hn : 2 ≤ n) (hi : i < n) : posX o n i ≤ (o : ℚ) - 1 := by
  unfold posX
  have h1 : (1 : ℚ) ≤ (o : ℚ) := by exact_mod_cast ho
  have h2 : (2 : ℚ) ≤ (n : ℚ) := by exact_mod_cast hn
  have hi' : (i : ℚ) ≤ (n : ℚ) - 1 := by
    have : i + 1 ≤ n := hi
    have : ((i + 1 : Nat) : ℚ) ≤ (n : ℚ) := by exact_mod_cast this
    push_cast at this; linarith
  rw [div_le_iff₀ (by linarith)]
  nlinarith

/-- the scaled extent minus one, against `n − 1` -/
theorem relBd_sub_one (o n : Nat) (ho : 0 < o) (hn : 2 ≤ n) :
    RelBd 6 (scaledExtent o n - 1) ((n : ℚ) - 1) := by
  have hu := ulp2_pos
  have h := scaledExtent_close o n ho
  rw [abs_le] at h
  have h2 : (2 : ℚ) ≤ (n : ℚ) := by exact_mod_cast hn
  have hp : 0 ≤ ulp2 * ((n : ℚ) - 2) := mul_nonneg hu.le (by linarith)
  constructor <;> nlinarith [h.1, h.2]

theorem posF_relBd (o n i : Nat) (ho : 2 ≤ o) (hn : 2 ≤ n) (hi0 : 0 < i) :
    RelBd 18 (posF o n i) (posX o n i) := by
  have hu := ulp2_pos
  have ho' : (2 : ℚ) ≤ (o : ℚ) := by exact_mod_cast ho
  have hn' : (2 : ℚ) ≤ (n : ℚ) := by exact_mod_cast hn
  have hN : (0 : ℚ) < (n : ℚ) - 1 := by linarith
  have hO : (0 : ℚ) < (o : ℚ) - 1 := by linarith
  have hi' : (0 : ℚ) < (i : ℚ) := by exact_mod_cast hi0
  unfold posF fmul fdiv fsub
  simp only []
  -- a = rne (t − 1)
  have ha : RelBd 8 (rne (scaledExtent o n - 1)) ((n : ℚ) - 1) := by
    have := relBd_rne hN (by norm_num) (ulp2_half 6 (by norm_num)) (relBd_sub_one o n (by omega) hn)
    norm_num at this ⊢
    exact this
  -- b = rne (o − 1)
  have hb : RelBd 2 (rne ((o : ℚ) - 1)) ((o : ℚ) - 1) := by
    have := relBd_rne hO (le_refl 0) (by simp) (relBd_refl ((o : ℚ) - 1))
    simpa using this
  -- sf = rne (a / b)
  have hq : RelBd 11 (rne (scaledExtent o n - 1) / rne ((o : ℚ) - 1)) (((n : ℚ) - 1) / ((o : ℚ) - 1)) := by
    have := relBd_div hN hO (by norm_num : (0 : ℚ) ≤ 8) (by norm_num : (0 : ℚ) ≤ 2)
      (by have := ulp2_half (8 + 2 + 1) (by norm_num); linarith)
      (by have := ulp2_half (2 * (8 + 2 + 1)) (by norm_num); linarith) ha hb
    norm_num at this ⊢
    exact this
  have hNO : (0 : ℚ) < ((n : ℚ) - 1) / ((o : ℚ) - 1) := div_pos hN hO
  have hsf : RelBd 13 (rne (rne (scaledExtent o n - 1) / rne ((o : ℚ) - 1))) (((n : ℚ) - 1) / ((o : ℚ) - 1)) := by
    have := relBd_rne hNO (by norm_num) (ulp2_half 11 (by norm_num)) hq
    norm_num at this ⊢
    exact this
  -- inv = rne (1 / sf)
  have hinv0 : RelBd 14 (1 / rne (rne (scaledExtent o n - 1) / rne ((o : ℚ) - 1))) (1 / (((n : ℚ) - 1) / ((o : ℚ) - 1))) := by
    have := relBd_div (zero_lt_one' ℚ) hNO (le_refl 0) (by norm_num : (0 : ℚ) ≤ 13)
      (by have := ulp2_half (0 + 13 + 1) (by norm_num); linarith)
      (by have := ulp2_half (13 * (0 + 13 + 1)) (by norm_num); linarith) (relBd_refl 1) hsf
    norm_num at this ⊢
    exact this
  have hinvpos : (0 : ℚ) < 1 / (((n : ℚ) - 1) / ((o : ℚ) - 1)) := by positivity
  have hinv : RelBd 16 (rne (1 / rne (rne (scaledExtent o n - 1) / rne ((o : ℚ) - 1)))) (1 / (((n : ℚ) - 1) / ((o : ℚ) - 1))) := by
    have := relBd_rne hinvpos (by norm_num) (ulp2_half 14 (by norm_num)) hinv0
    norm_num at this ⊢
    exact this
  -- pos = rne (i * inv)
  have hmul := relBd_mul_left (i : ℚ) hi'.le hinv
  have hy : (i : ℚ) * (1 / (((n : ℚ) - 1) / ((o : ℚ) - 1))) = posX o n i := by
    unfold posX; field_simp
  rw [hy] at hmul
  have hxpos : 0 < posX o n i := by rw [← hy]; positivity
  have := relBd_rne hxpos (by norm_num) (ulp2_half 16 (by norm_num)) hmul
  norm_num at this ⊢
  exact this

theorem posF_zero (o n : Nat) : posF o n 0 = 0 := by
  unfold posF fmul
  simp [rne_zero]

/-- the binary64 position is the exact one up to `18·2⁻⁵³` relative -/
theorem posF_close (o n i : Nat) (ho : 2 ≤ o) (hn : 2 ≤ n) :
    |posF o n i - posX o n i| ≤ 18 * ulp2 * posX o n i := by
  rcases Nat.eq_zero_or_pos i with h0 | h0
  · subst h0; rw [posF_zero]; simp [posX]
  · exact abs_of_relBd (posF_relBd o n i ho hn h0)

end MenpoModel.C18
