/-
C14 — the unbounded correctness of the DFS cycle detector (`Lemmas/C14DfsDir.lean`,
`Lemmas/C14DfsUnd.lean`) lifted from adjacency lists to the graph model: `Graph.hasCycles` against the
closed-walk reference `refCycleD` (directed, every graph) and against "self-loop or simple cycle"
(undirected, every symmetric graph).  Core Lean only.
-/
import MenpoModel.Lemmas.C14DfsDir
import MenpoModel.Lemmas.C14DfsUnd
import MenpoModel.Lemmas.C14Reach

namespace MenpoModel.C14
open Graph Dfs

theorem adjOf_adjacencyList (g : Graph) (u : Nat) :
    adjOf g.adjacencyList u = if u < g.n then g.row u else [] := by
  unfold adjOf
  rw [List.getD_eq_getElem?_getD]
  by_cases hu : u < g.n
  · rw [adjacencyList_get g u hu, if_pos hu]; rfl
  · rw [if_neg hu, List.getElem?_eq_none (by rw [adjacencyList_length]; omega)]; rfl

theorem mem_adjOf_adjacencyList (g : Graph) (u y : Nat) :
    y ∈ adjOf g.adjacencyList u ↔ u < g.n ∧ y < g.n ∧ g.isEdge u y = true := by
  rw [adjOf_adjacencyList]
  by_cases hu : u < g.n
  · simp [hu, mem_row]
  · simp [hu]

theorem adjacencyList_wf (g : Graph) : ∀ u, ∀ y ∈ adjOf g.adjacencyList u, y < g.adjacencyList.length := by
  intro u y hy
  rw [adjacencyList_length]
  exact ((mem_adjOf_adjacencyList g u y).1 hy).2.1

theorem adjacencyList_nodup (g : Graph) : ∀ u, (adjOf g.adjacencyList u).Nodup := by
  intro u
  rw [adjOf_adjacencyList]
  split
  · exact row_nodup g u
  · exact List.nodup_nil

theorem adjacencyList_sym (g : Graph) (hs : g.Symmetric) : Sym (adjOf g.adjacencyList) := by
  intro u v h
  obtain ⟨hu, hv, he⟩ := (mem_adjOf_adjacencyList g u v).1 h
  refine (mem_adjOf_adjacencyList g v u).2 ⟨hv, hu, ?_⟩
  simpa [Graph.isEdge, hs v u hv hu] using he

/-! ### directed -/

theorem walk_iff_reach_row (g : Graph) (c v : Nat) (hc : c < g.n) :
    Walk (adjOf g.adjacencyList) c v ↔ Reach g.row c v := by
  constructor
  · intro h
    induction h with
    | refl => exact Reach.refl _
    | tail _ hy ih => exact Reach.tail ih ((mem_row g _ _).2 ((mem_adjOf_adjacencyList g _ _).1 hy).2)
  · intro h
    have : v < g.n ∧ Walk (adjOf g.adjacencyList) c v := by
      induction h with
      | refl => exact ⟨hc, Walk.refl _⟩
      | tail _ hy ih =>
        have hy' := (mem_row g _ _).1 hy
        exact ⟨hy'.1, Walk.tail ih.2 ((mem_adjOf_adjacencyList g _ _).2 ⟨ih.1, hy'.1, hy'.2⟩)⟩
    exact this.2

/-- the detector on a directed graph of any size finds a cycle iff some edge lies on a closed walk -/
theorem hasCycles_directed_iff (g : Graph) :
    g.hasCycles true = true ↔ ∃ v c, v < g.n ∧ c ∈ g.row v ∧ Reach g.row c v := by
  unfold Graph.hasCycles
  rw [hasCyclesL_directed g.adjacencyList (adjacencyList_wf g)]
  constructor
  · rintro ⟨v, c, hc, hw⟩
    obtain ⟨hv, hc', he⟩ := (mem_adjOf_adjacencyList g v c).1 hc
    exact ⟨v, c, hv, (mem_row g v c).2 ⟨hc', he⟩, (walk_iff_reach_row g c v hc').1 hw⟩
  · rintro ⟨v, c, hv, hc, hr⟩
    have hc' := (mem_row g v c).1 hc
    exact ⟨v, c, (mem_adjOf_adjacencyList g v c).2 ⟨hv, hc'.1, hc'.2⟩, (walk_iff_reach_row g c v hc'.1).2 hr⟩

/-- … which is what the closed-walk reference of the model computes: the two agree on EVERY graph -/
theorem hasCycles_eq_refCycleD (g : Graph) : g.hasCycles true = g.refCycleD := by
  rw [Bool.eq_iff_iff, hasCycles_directed_iff, refCycleD_iff]

/-! ### undirected -/

/-- `C` lists `k ≥ 3` distinct vertices of `g`, each joined to the cyclically next one -/
def Graph.SimpleCycle (g : Graph) (C : List Nat) : Prop :=
  3 ≤ C.length ∧ C.Nodup ∧ (∀ v ∈ C, v < g.n) ∧
    ∀ i, i < C.length → g.isEdge (C.getD i 0) (C.getD ((i + 1) % C.length) 0) = true

/-- the textbook meaning of "has a cycle" for an undirected graph stored as a symmetric matrix -/
def Graph.HasUndCycle (g : Graph) : Prop := (∃ u, u < g.n ∧ g.isEdge u u = true) ∨ ∃ C, g.SimpleCycle C

theorem simpleCycle_iff (g : Graph) (C : List Nat) : Dfs.SimpleCycle (adjOf g.adjacencyList) C ↔ g.SimpleCycle C := by
  constructor
  · rintro ⟨h3, hnd, hadj⟩
    refine ⟨h3, hnd, ?_, fun i hi => ((mem_adjOf_adjacencyList g _ _).1 (hadj i hi)).2.2⟩
    intro v hv
    obtain ⟨i, hi, rfl⟩ := mem_getD C v hv
    exact ((mem_adjOf_adjacencyList g _ _).1 (hadj i hi)).1
  · rintro ⟨h3, hnd, hlt, hadj⟩
    refine ⟨h3, hnd, fun i hi => (mem_adjOf_adjacencyList g _ _).2 ⟨hlt _ (getD_mem C i hi), ?_, hadj i hi⟩⟩
    exact hlt _ (getD_mem C _ (Nat.mod_lt _ (by omega)))

/-- the detector on an undirected (symmetric) graph of any size finds a cycle iff the graph has a
self-loop or a simple cycle -/
theorem hasCycles_undirected_iff (g : Graph) (hs : g.Symmetric) : g.hasCycles false = true ↔ g.HasUndCycle := by
  unfold Graph.hasCycles
  rw [hasCyclesL_undirected g.adjacencyList (adjacencyList_wf g) (adjacencyList_sym g hs) (adjacencyList_nodup g)]
  unfold UndCycle Graph.HasUndCycle
  constructor
  · rintro (⟨u, hu⟩ | ⟨C, hC⟩)
    · have := (mem_adjOf_adjacencyList g u u).1 hu
      exact Or.inl ⟨u, this.1, this.2.2⟩
    · exact Or.inr ⟨C, (simpleCycle_iff g C).1 hC⟩
  · rintro (⟨u, hu, he⟩ | ⟨C, hC⟩)
    · exact Or.inl ⟨u, (mem_adjOf_adjacencyList g u u).2 ⟨hu, hu, he⟩⟩
    · exact Or.inr ⟨C, (simpleCycle_iff g C).2 hC⟩

/-! ### `is_tree`, every size -/

/-- any two vertices are joined in the underlying undirected graph -/
def Graph.Connected (g : Graph) : Prop := ∀ u v, u < g.n → v < g.n → Reach g.und u v

/-- `UndirectedGraph.is_tree()` holds exactly for the connected graphs without cycle that have `n - 1` edges -/
theorem isTree_undirected_iff (g : Graph) (hs : g.Symmetric) :
    g.isTree false = true ↔ g.edgesU.length + 1 = g.n ∧ ¬ g.HasUndCycle ∧ g.Connected := by
  have hcyc : g.hasCycles false = false ↔ ¬ g.HasUndCycle := by
    rw [← hasCycles_undirected_iff g hs]; simp
  simp only [Graph.isTree, Graph.isTreeCoded, Graph.edges, Bool.and_eq_true, beq_iff_eq, Bool.not_eq_true',
    Bool.false_eq_true, if_false, hcyc]
  constructor
  · rintro ⟨⟨h1, h2⟩, h3⟩
    exact ⟨h1, h2, (nComponents_eq_one_iff g (by omega)).1 h3⟩
  · rintro ⟨h1, h2, h3⟩
    exact ⟨⟨h1, h2⟩, (nComponents_eq_one_iff g (by omega)).2 h3⟩

/-- `DirectedGraph.is_tree()` (since `fix: 88f3f30`) holds exactly for the weakly connected graphs with
`n - 1` edges none of which lies on a closed walk -/
theorem isTree_directed_iff (g : Graph) :
    g.isTree true = true ↔
      g.edgesD.length + 1 = g.n ∧ (¬ ∃ v c, v < g.n ∧ c ∈ g.row v ∧ Reach g.row c v) ∧ g.Connected := by
  have hcyc : g.hasCycles true = false ↔ ¬ ∃ v c, v < g.n ∧ c ∈ g.row v ∧ Reach g.row c v := by
    rw [← hasCycles_directed_iff g]; simp
  simp only [Graph.isTree, Graph.isTreeCoded, Graph.edges, Bool.and_eq_true, beq_iff_eq, Bool.not_eq_true',
    if_true, hcyc]
  constructor
  · rintro ⟨⟨h1, h2⟩, h3⟩
    exact ⟨h1, h2, (nComponents_eq_one_iff g (by omega)).1 h3⟩
  · rintro ⟨h1, h2, h3⟩
    exact ⟨⟨h1, h2⟩, (nComponents_eq_one_iff g (by omega)).2 h3⟩

end MenpoModel.C14
