/-
C03 — helper lemmas: the core-only matrix model of `Core/C03Mat.lean` is Mathlib's matrix algebra.
-/
import Mathlib.Data.Matrix.Mul
import Mathlib.Algebra.BigOperators.Fin
import Mathlib.LinearAlgebra.Matrix.Determinant.Basic
import Mathlib.Tactic.Ring
import Mathlib.Tactic.FieldSimp
import Mathlib.Tactic.Linarith
import MenpoModel.Core.C03Compose

namespace MenpoModel.C03

open Matrix

/-- the same function, seen as a Mathlib matrix -/
abbrev toM {n : Nat} (A : Mat n) : Matrix (Fin n) (Fin n) ℚ := Matrix.of A.get

theorem sumFin_eq {n : Nat} (f : Fin n → Rat) : sumFin f = ∑ i, f i := by
  simp [sumFin, Fin.sum_univ_def]

theorem mul_apply' {n : Nat} (A B : Mat n) (i j : Fin n) :
    Mat.mul A B i j = ∑ k, A i k * B k j := by
  simp [Mat.mul, Mat.freeze_eq, sumFin_eq]

theorem toM_mul {n : Nat} (A B : Mat n) : toM (Mat.mul A B) = toM A * toM B := by
  ext i j; simp [mul_apply', Matrix.mul_apply]

theorem toM_inj {n : Nat} {A B : Mat n} (h : toM A = toM B) : A = B := by
  apply Mat.ext; intro i j; exact congrFun (congrFun h i) j

theorem toM_one {n : Nat} : toM (Mat.one n) = 1 := by
  ext i j; simp [Mat.one, Matrix.one_apply]

theorem toM_scalar {d : Nat} (s : ℚ) : toM (scalarMat d s) = s • (1 : Matrix (Fin d) (Fin d) ℚ) := by
  ext i j; simp [scalarMat, Matrix.one_apply]

theorem toM_diag {d : Nat} (s : Vec d) : toM (diagMat s) = Matrix.diagonal s := by
  ext i j; by_cases h : i = j <;> simp [diagMat, Matrix.diagonal, h]

theorem mul_assoc' {n : Nat} (A B C : Mat n) :
    Mat.mul (Mat.mul A B) C = Mat.mul A (Mat.mul B C) := by
  apply toM_inj; simp [toM_mul, Matrix.mul_assoc]

theorem mulVec_apply' {n : Nat} (A : Mat n) (v : Vec n) (i : Fin n) :
    A.mulVec v i = ∑ k, A i k * v k := by
  simp [Mat.mulVec, Vec.freeze_eq, sumFin_eq]

theorem mulVec_eq {n : Nat} (A : Mat n) (v : Vec n) : (A.mulVec v).get = (toM A).mulVec v.get := by
  funext i; simp [mulVec_apply', Matrix.mulVec, dotProduct]

theorem mulVec_mul' {n : Nat} (A B : Mat n) (v : Vec n) :
    (Mat.mul A B).mulVec v = A.mulVec (B.mulVec v) := by
  apply Vec.ext; intro i
  have := congrFun (Matrix.mulVec_mulVec v.get (toM A) (toM B)) i
  rw [← toM_mul, ← mulVec_eq, ← mulVec_eq, ← mulVec_eq] at this
  exact this.symm

/-- determinant of the model matrix -/
noncomputable def det {n : Nat} (A : Mat n) : ℚ := (toM A).det

theorem det_mul' {n : Nat} (A B : Mat n) : det (Mat.mul A B) = det A * det B := by
  simp [det, toM_mul]

/-! ### blocks -/

variable {d : Nat}

/-- bottom row `(0, …, 0, 1)` : what `Affine._set_h_matrix` checks -/
def IsAffine (M : Mat (d + 1)) : Prop :=
  (∀ j : Fin d, M (Fin.last d) j.castSucc = 0) ∧ M (Fin.last d) (Fin.last d) = 1

theorem mkAffine_cc (L : Mat d) (t : Vec d) (i j : Fin d) :
    mkAffine L t i.castSucc j.castSucc = L i j := by
  simp [mkAffine]

theorem mkAffine_cl (L : Mat d) (t : Vec d) (i : Fin d) :
    mkAffine L t i.castSucc (Fin.last d) = t i := by
  simp [mkAffine]

theorem mkAffine_lc (L : Mat d) (t : Vec d) (j : Fin d) :
    mkAffine L t (Fin.last d) j.castSucc = 0 := by
  simp [mkAffine]

theorem mkAffine_ll (L : Mat d) (t : Vec d) :
    mkAffine L t (Fin.last d) (Fin.last d) = 1 := by
  simp [mkAffine]

@[simp] theorem lin_mkAffine (L : Mat d) (t : Vec d) : lin (mkAffine L t) = L := by
  apply Mat.ext; intro i j; simp [lin, mkAffine_cc]

@[simp] theorem trans_mkAffine (L : Mat d) (t : Vec d) : trans (mkAffine L t) = t := by
  apply Vec.ext; intro i; simp [trans, mkAffine_cl]

theorem isAffine_mkAffine (L : Mat d) (t : Vec d) : IsAffine (mkAffine L t) :=
  ⟨fun j => mkAffine_lc L t j, mkAffine_ll L t⟩

/-- two matrices with the same blocks are equal -/
theorem mat_ext_blocks {A B : Mat (d + 1)} (hl : lin A = lin B) (ht : trans A = trans B)
    (hb : ∀ j, A (Fin.last d) j = B (Fin.last d) j) : A = B := by
  apply Mat.ext; intro i j
  induction i using Fin.lastCases with
  | last => exact hb j
  | cast i =>
    induction j using Fin.lastCases with
    | last => have := congrArg (fun v : Vec d => v i) ht; simpa [trans] using this
    | cast j => have := congrArg (fun m : Mat d => m i j) hl; simpa [lin] using this

theorem affine_ext {A B : Mat (d + 1)} (hA : IsAffine A) (hB : IsAffine B)
    (hl : lin A = lin B) (ht : trans A = trans B) : A = B := by
  apply mat_ext_blocks hl ht
  intro j
  induction j using Fin.lastCases with
  | last => rw [hA.2, hB.2]
  | cast j => rw [hA.1 j, hB.1 j]

theorem mkAffine_lin_trans {M : Mat (d + 1)} (h : IsAffine M) : mkAffine (lin M) (trans M) = M :=
  affine_ext (isAffine_mkAffine _ _) h (by simp) (by simp)

theorem lin_mul {A B : Mat (d + 1)} (hB : IsAffine B) :
    lin (Mat.mul A B) = Mat.mul (lin A) (lin B) := by
  apply Mat.ext; intro i j
  simp only [lin, mul_apply', Fin.sum_univ_castSucc, hB.1 j, mul_zero, add_zero]

theorem trans_mul {A B : Mat (d + 1)} (hB : IsAffine B) :
    trans (Mat.mul A B) = ⟨fun i => (∑ k, lin A i k * trans B k) + trans A i⟩ := by
  apply Vec.ext; intro i
  simp only [trans, lin, mul_apply', Fin.sum_univ_castSucc, hB.2, mul_one]

theorem trans_mul_vec {A B : Mat (d + 1)} (hB : IsAffine B) :
    (trans (Mat.mul A B)).get = (toM (lin A)).mulVec (trans B).get + (trans A).get := by
  rw [trans_mul hB]; funext i; simp [Matrix.mulVec, dotProduct]

theorem isAffine_mul {A B : Mat (d + 1)} (hA : IsAffine A) (hB : IsAffine B) :
    IsAffine (Mat.mul A B) := by
  constructor
  · intro j
    simp only [mul_apply', Fin.sum_univ_castSucc, hA.1, hA.2, hB.1 j, zero_mul, mul_zero,
      Finset.sum_const_zero, add_zero]
  · simp only [mul_apply', Fin.sum_univ_castSucc, hA.1, hA.2, hB.2, zero_mul, mul_one,
      Finset.sum_const_zero, zero_add]

/-! ### application -/

theorem homog_c (x : Vec d) (i : Fin d) : homog x i.castSucc = x i := by simp [homog]
theorem homog_l (x : Vec d) : homog x (Fin.last d) = 1 := by simp [homog]

theorem affApply_apply (M : Mat (d + 1)) (x : Vec d) (i : Fin d) :
    affApply M x i = (∑ k, lin M i k * x k) + trans M i := by
  simp [affApply, Vec.freeze_eq, sumFin_eq, lin, trans]

theorem mulVec_homog_c (M : Mat (d + 1)) (x : Vec d) (i : Fin d) :
    M.mulVec (homog x) i.castSucc = (∑ k, lin M i k * x k) + trans M i := by
  simp [mulVec_apply', Fin.sum_univ_castSucc, homog_c, homog_l, lin, trans]

theorem mulVec_homog_l {M : Mat (d + 1)} (h : IsAffine M) (x : Vec d) :
    M.mulVec (homog x) (Fin.last d) = 1 := by
  simp [mulVec_apply', Fin.sum_univ_castSucc, homog_l, h.1, h.2]

/-- on a matrix with an affine bottom row `Homogeneous._apply` and `Affine._apply` agree -/
theorem projApply_affine {M : Mat (d + 1)} (h : IsAffine M) (x : Vec d) :
    projApply M x = some (affApply M x) := by
  unfold projApply
  simp only [mulVec_homog_l h, one_ne_zero, if_false, Vec.freeze_eq, div_one]
  congr 1; apply Vec.ext; intro i; rw [mulVec_homog_c, affApply_apply]

theorem projApply_some {M : Mat (d + 1)} {x y : Vec d} (h : projApply M x = some y) :
    M.mulVec (homog x) (Fin.last d) ≠ 0 ∧
    ∀ i, y i = M.mulVec (homog x) i.castSucc / M.mulVec (homog x) (Fin.last d) := by
  unfold projApply at h
  by_cases hw : M.mulVec (homog x) (Fin.last d) = 0
  · simp [hw] at h
  · simp only [hw, if_false, Option.some.injEq, Vec.freeze_eq] at h
    exact ⟨hw, fun i => by rw [← h]⟩

/-- the homogeneous image is the last coordinate times the homogenised projective image -/
theorem mulVec_homog_eq {M : Mat (d + 1)} {x y : Vec d} (h : projApply M x = some y) :
    M.mulVec (homog x) = ⟨fun j => M.mulVec (homog x) (Fin.last d) * homog y j⟩ := by
  obtain ⟨hw, hy⟩ := projApply_some h
  apply Vec.ext; intro j
  induction j using Fin.lastCases with
  | last => simp [homog_l]
  | cast j => simp only [homog_c, hy j]; field_simp

/-- projective composition: `Homogeneous._apply` of the product is the composition wherever both
denominators are non-zero -/
theorem projApply_mul {A B : Mat (d + 1)} {x y z : Vec d}
    (hB : projApply B x = some y) (hA : projApply A y = some z) :
    projApply (Mat.mul A B) x = some z := by
  obtain ⟨hwB, _⟩ := projApply_some hB
  obtain ⟨hwA, hz⟩ := projApply_some hA
  have key : ∀ i, (Mat.mul A B).mulVec (homog x) i
      = B.mulVec (homog x) (Fin.last d) * A.mulVec (homog y) i := by
    intro i
    have e := mulVec_homog_eq hB
    generalize B.mulVec (homog x) (Fin.last d) = w at e ⊢
    rw [mulVec_mul', mulVec_apply', e, mulVec_apply', Finset.mul_sum]
    apply Finset.sum_congr rfl; intro k _; ring
  unfold projApply
  simp only [key, Vec.freeze_eq]
  have : B.mulVec (homog x) (Fin.last d) * A.mulVec (homog y) (Fin.last d) ≠ 0 :=
    mul_ne_zero hwB hwA
  simp only [this, if_false, Option.some.injEq]
  apply Vec.ext; intro i; rw [hz i]; field_simp

end MenpoModel.C03
