/-
C18 helper lemmas: the binary64 rounding `rne` over ℚ — the standard model `|rne x − x| ≤ 2⁻⁵³·|x|`, proved for the
executable definition (no assumption about floating point is left), and the integer roundings.
-/
import MenpoModel.Core.C18Float
import Mathlib.Algebra.Order.Field.Rat
import Mathlib.Algebra.Order.Field.Power
import Mathlib.Algebra.Order.Ring.Abs
import Mathlib.Tactic.Ring
import Mathlib.Tactic.Linarith
import Mathlib.Tactic.FieldSimp
import Mathlib.Tactic.Positivity
import Mathlib.Tactic.NormNum

namespace MenpoModel.C18

theorem pow2_eq_zpow (k : Int) : pow2 k = (2 : ℚ) ^ k := by
  unfold pow2
  by_cases hk : 0 ≤ k
  · simp only [hk, if_true]
    obtain ⟨n, rfl⟩ := Int.eq_ofNat_of_zero_le hk
    simp
  · simp only [hk, if_false]
    have hk' : 0 ≤ -k := by omega
    obtain ⟨n, hn⟩ := Int.eq_ofNat_of_zero_le hk'
    have : k = -(n : Int) := by omega
    subst this
    simp

theorem pow2_pos (k : Int) : 0 < pow2 k := by
  rw [pow2_eq_zpow]; positivity

theorem pow2_add (a b : Int) : pow2 (a + b) = pow2 a * pow2 b := by
  simp only [pow2_eq_zpow]; exact zpow_add₀ (by norm_num) a b

theorem pow2_zero : pow2 0 = 1 := by simp [pow2_eq_zpow]

theorem pow2_neg_mul (a : Int) : pow2 (-a) * pow2 a = 1 := by
  rw [← pow2_add]; simp [pow2_zero]

theorem pow2_succ (a : Int) : pow2 (a + 1) = 2 * pow2 a := by
  rw [pow2_add]; simp only [pow2_eq_zpow]; norm_num; ring

theorem pow2_natCast (n : Nat) : pow2 (n : Int) = ((2 ^ n : Nat) : ℚ) := by
  rw [pow2_eq_zpow]; simp

/-! ### round half to even -/

theorem rhe_close (r : ℚ) : |((rhe r : Int) : ℚ) - r| ≤ 1 / 2 := by
  have h1 := Rat.floor_le r
  have h2 := Rat.lt_floor_add_one r
  push_cast at h2
  unfold rhe
  simp only []
  split
  · rename_i h; rw [abs_le]; constructor <;> linarith
  · split
    · rename_i _ h; rw [abs_le]; push_cast; constructor <;> linarith
    · rename_i h3 h4
      have hd : r - (r.floor : ℚ) = 1 / 2 := le_antisymm (not_lt.mp h4) (not_lt.mp h3)
      split
      · rw [abs_le]; constructor <;> linarith
      · rw [abs_le]; push_cast; constructor <;> linarith

/-- an integer strictly within half a unit is what `np.round` returns -/
theorem rhe_of_close (r : ℚ) (n : Int) (h : |r - (n : ℚ)| < 1 / 2) : rhe r = n := by
  have hc := rhe_close r
  rw [abs_le] at hc
  rw [abs_lt] at h
  have h1 : ((rhe r : Int) : ℚ) - (n : ℚ) < 1 := by linarith
  have h2 : (-1 : ℚ) < ((rhe r : Int) : ℚ) - (n : ℚ) := by linarith
  have h1' : rhe r - n < 1 := by exact_mod_cast h1
  have h2' : -1 < rhe r - n := by exact_mod_cast h2
  omega

theorem rhe_intCast (n : Int) : rhe (n : ℚ) = n := rhe_of_close _ n (by simp)

/-! ### the binary exponent -/

theorem expo_spec (a : ℚ) (ha : 0 < a) : pow2 (expo a) ≤ a ∧ a < pow2 (expo a + 1) := by
  have hnum : 0 < a.num := Rat.num_pos.mpr ha
  have hp0 : a.num.natAbs ≠ 0 := by omega
  have hq0 : a.den ≠ 0 := a.den_nz
  have hpl := Nat.log2_self_le hp0
  have hpu := @Nat.lt_log2_self a.num.natAbs
  have hql := Nat.log2_self_le hq0
  have hqu := @Nat.lt_log2_self a.den
  have hpc : (a.num.natAbs : ℚ) = (a.num : ℚ) := by
    have h : ((a.num.natAbs : Int)) = a.num := Int.natAbs_of_nonneg hnum.le
    calc (a.num.natAbs : ℚ) = (((a.num.natAbs : Int)) : ℚ) := (Int.cast_natCast _).symm
      _ = (a.num : ℚ) := by rw [h]
  have haeq : a = (a.num.natAbs : ℚ) / (a.den : ℚ) := by rw [hpc]; exact (Rat.num_div_den a).symm
  have hqpos : (0 : ℚ) < (a.den : ℚ) := by exact_mod_cast a.den_pos
  -- the four bounds in ℚ
  have hpl' : ((2 ^ a.num.natAbs.log2 : Nat) : ℚ) ≤ (a.num.natAbs : ℚ) := by exact_mod_cast hpl
  have hpu' : (a.num.natAbs : ℚ) < ((2 ^ (a.num.natAbs.log2 + 1) : Nat) : ℚ) := by exact_mod_cast hpu
  have hql' : ((2 ^ a.den.log2 : Nat) : ℚ) ≤ (a.den : ℚ) := by exact_mod_cast hql
  have hqu' : (a.den : ℚ) < ((2 ^ (a.den.log2 + 1) : Nat) : ℚ) := by exact_mod_cast hqu
  rw [← pow2_natCast] at hpl' hpu' hql' hqu'
  set lp : Int := (a.num.natAbs.log2 : Int) with hlp
  set lq : Int := (a.den.log2 : Int) with hlq
  have hpu'' : (a.num.natAbs : ℚ) < pow2 (lp + 1) := by simpa [hlp] using hpu'
  have hqu'' : (a.den : ℚ) < pow2 (lq + 1) := by simpa [hlq] using hqu'
  have hPq := pow2_pos lq
  have hPp := pow2_pos lp
  unfold expo
  simp only []
  rw [← hlp, ← hlq]
  split
  · rename_i h
    refine ⟨h, ?_⟩
    -- a = p/q < 2^(lp+1) / 2^lq
    have e1 : pow2 (lp - lq + 1) = pow2 (lp + 1) * pow2 (-lq) := by rw [← pow2_add]; congr 1; ring
    have e2 : pow2 (-lq) * pow2 lq = 1 := pow2_neg_mul lq
    have hinv : pow2 (-lq) = 1 / pow2 lq := by field_simp; linarith
    rw [e1, hinv, haeq]
    rw [div_lt_iff₀ hqpos]
    calc (a.num.natAbs : ℚ) < pow2 (lp + 1) := hpu''
      _ = pow2 (lp + 1) * (1 / pow2 lq) * pow2 lq := by field_simp
      _ ≤ pow2 (lp + 1) * (1 / pow2 lq) * (a.den : ℚ) := by
          apply mul_le_mul_of_nonneg_left hql'
          have := pow2_pos (lp + 1); positivity
  · rename_i h
    have h' : a < pow2 (lp - lq) := not_le.mp h
    refine ⟨?_, by simpa using h'⟩
    -- 2^lp / 2^(lq+1) ≤ p/q
    have e1 : pow2 (lp - lq - 1) = pow2 lp * pow2 (-(lq + 1)) := by rw [← pow2_add]; congr 1; ring
    have e2 : pow2 (-(lq + 1)) * pow2 (lq + 1) = 1 := pow2_neg_mul (lq + 1)
    have hP1 := pow2_pos (lq + 1)
    have hinv : pow2 (-(lq + 1)) = 1 / pow2 (lq + 1) := by field_simp; linarith
    rw [e1, hinv, haeq, le_div_iff₀ hqpos]
    calc pow2 lp * (1 / pow2 (lq + 1)) * (a.den : ℚ)
        ≤ pow2 lp * (1 / pow2 (lq + 1)) * pow2 (lq + 1) := by
          apply mul_le_mul_of_nonneg_left hqu''.le; positivity
      _ = pow2 lp := by field_simp
      _ ≤ (a.num.natAbs : ℚ) := hpl'

/-! ### the standard model of binary64 rounding -/

/-- unit roundoff `2⁻⁵³` -/
def ulp2 : ℚ := pow2 (-53)

theorem ulp2_pos : 0 < ulp2 := pow2_pos _

theorem rne_pos_err (a : ℚ) (ha : 0 < a) :
    |((rhe (a * pow2 (52 - expo a)) : Int) : ℚ) * pow2 (expo a - 52) - a| ≤ a * ulp2 := by
  obtain ⟨hlo, _⟩ := expo_spec a ha
  set e := expo a
  have hc := rhe_close (a * pow2 (52 - e))
  have hP := pow2_pos (e - 52)
  have hmul : pow2 (52 - e) * pow2 (e - 52) = 1 := by
    rw [← pow2_add]; have : 52 - e + (e - 52) = 0 := by ring
    rw [this, pow2_zero]
  have hrew : ((rhe (a * pow2 (52 - e)) : Int) : ℚ) * pow2 (e - 52) - a
      = (((rhe (a * pow2 (52 - e)) : Int) : ℚ) - a * pow2 (52 - e)) * pow2 (e - 52) := by
    rw [sub_mul, mul_assoc, hmul, mul_one]
  rw [hrew, abs_mul, abs_of_pos hP]
  have hhalf : (1 / 2 : ℚ) * pow2 (e - 52) = pow2 e * ulp2 := by
    unfold ulp2
    rw [← pow2_add]
    have : e + -53 = (e - 52) + (-1) := by ring
    rw [this, pow2_add]
    have : pow2 (-1) = 1 / 2 := by rw [pow2_eq_zpow]; norm_num
    rw [this]; ring
  calc |((rhe (a * pow2 (52 - e)) : Int) : ℚ) - a * pow2 (52 - e)| * pow2 (e - 52)
      ≤ (1 / 2) * pow2 (e - 52) := mul_le_mul_of_nonneg_right hc hP.le
    _ = pow2 e * ulp2 := hhalf
    _ ≤ a * ulp2 := mul_le_mul_of_nonneg_right hlo ulp2_pos.le

/-- STANDARD MODEL: rounding to binary64 commits a relative error of at most `2⁻⁵³` -/
theorem rne_rel_err (x : ℚ) : |rne x - x| ≤ |x| * ulp2 := by
  unfold rne
  by_cases h0 : x = 0
  · simp [h0]
  · simp only [h0, if_false]
    by_cases hneg : x < 0
    · simp only [hneg, if_true]
      have ha : 0 < -x := by linarith
      have := rne_pos_err (-x) ha
      rw [abs_of_neg hneg]
      have e : -(((rhe (-x * pow2 (52 - expo (-x))) : Int) : ℚ) * pow2 (expo (-x) - 52)) - x
          = -((((rhe (-x * pow2 (52 - expo (-x))) : Int) : ℚ) * pow2 (expo (-x) - 52)) - -x) := by ring
      rw [e, abs_neg]; exact this
    · simp only [hneg, if_false]
      have ha : 0 < x := lt_of_le_of_ne (not_lt.mp hneg) (Ne.symm h0)
      rw [abs_of_pos ha]
      exact rne_pos_err x ha

theorem rne_zero : rne 0 = 0 := by simp [rne]

end MenpoModel.C18
