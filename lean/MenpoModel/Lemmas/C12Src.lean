/-
C12 — the routines of gmrf.py as coded (`Core/C12Src.lean`, proved equal to the translation of the source text in
`GenProps/C12Src.lean`) compute what the executable model of `Core/C12GMRF.lean` computes.

Part 1 (this file): facts about the array vocabulary, the generic loop-with-exit-flag lemma (`flagLoop`), the per-edge
statements (`denseWrite_eq_denseStep`, `sparseWrite_eq`), the covariance of an edge / vertex block.
-/
import MenpoModel.Core.C12Src
import MenpoModel.Lemmas.C12Dense

set_option linter.unusedSimpArgs false
set_option linter.unusedVariables false

namespace MenpoModel.C12.Src
open MenpoModel.C12 MenpoModel.Py

/-! ### tables -/

theorem tab_length (r c : Nat) (f : Nat → Nat → Rat) : (tab r c f).length = r := by simp [tab]

theorem rowLen_tab (r c : Nat) (f : Nat → Nat → Rat) (hr : 0 < r) : rowLen (tab r c f) = c := by
  unfold rowLen tab
  cases r with
  | zero => omega
  | succ r => simp [List.range_succ_eq_map]

theorem tab_congr (r c : Nat) (f g : Nat → Nat → Rat) (h : ∀ i j, i < r → j < c → f i j = g i j) :
    tab r c f = tab r c g := by
  unfold tab
  apply List.map_congr_left
  intro a ha
  apply List.map_congr_left
  intro b hb
  exact h a b (List.mem_range.1 ha) (List.mem_range.1 hb)

theorem tab_zero_rows (c : Nat) (f : Nat → Nat → Rat) : tab 0 c f = [] := by simp [tab]

/-- a table is determined by its entries -/
theorem tab_ent (r c : Nat) (f : Nat → Nat → Rat) : tab r c (ent (tab r c f)) = tab r c f := by
  apply tab_congr
  intro i j hi hj
  rw [ent_tab, if_pos ⟨hi, hj⟩]

/-- `M` is an `r × c` table -/
def IsTab (r c : Nat) (M : Mat) : Prop := M = tab r c (ent M)

theorem isTab_tab (r c : Nat) (f : Nat → Nat → Rat) : IsTab r c (tab r c f) := (tab_ent r c f).symm

theorem IsTab.length {r c : Nat} {M : Mat} (h : IsTab r c M) : M.length = r := by
  rw [h, tab_length]

theorem IsTab.rowLen {r c : Nat} {M : Mat} (h : IsTab r c M) (hr : 0 < r) : rowLen M = c := by
  rw [h, rowLen_tab r c _ hr]

theorem IsTab.ent_out {r c : Nat} {M : Mat} (h : IsTab r c M) (i j : Nat) (hij : ¬ (i < r ∧ j < c)) : ent M i j = 0 := by
  rw [h, ent_tab, if_neg hij]

theorem zerosRC_eq_zeros (n : Nat) : zerosRC n n = zeros n := rfl

theorem isTab_zeros (n : Nat) : IsTab n n (zeros n) := isTab_tab _ _ _

theorem ent_neg (B : Mat) (d : Nat) (hB : IsTab d d B) (a c : Nat) : ent (-B) a c = - ent B a c := by
  show ent (tab B.length (rowLen B) fun i j => - ent B i j) a c = _
  rw [ent_tab]
  by_cases hd : 0 < d
  · rw [hB.length, hB.rowLen hd]
    split
    · rfl
    · rename_i h; rw [hB.ent_out a c h]; simp
  · have : d = 0 := by omega
    subst this
    rw [hB.length, hB.ent_out a c (by simp)]
    simp

/-! ### slices -/

theorem hiBound_some (x L : Nat) : hiBound (some x) L = min x L := rfl
theorem hiBound_none (L : Nat) : hiBound none L = L := rfl

/-- the four parts of a `2k × 2k` inverted covariance are the model's blocks -/
theorem slice2_eq_blkOf (B : Mat) (k : Nat) (hB : IsTab (2 * k) (2 * k) B) :
    slice2 B 0 (some k) 0 (some k) = blkOf B 0 0 k ∧ slice2 B k none k none = blkOf B k k k ∧
    slice2 B 0 (some k) k none = blkOf B 0 k k ∧ slice2 B k none 0 (some k) = blkOf B k 0 k := by
  by_cases hk : 0 < k
  · have h2 : 0 < 2 * k := by omega
    have e1 : min k (2 * k) - 0 = k := by omega
    have e2 : 2 * k - k = k := by omega
    unfold slice2 blkOf
    rw [hiBound_some, hiBound_none, hiBound_some, hiBound_none, hB.length, hB.rowLen h2, e1, e2]
    exact ⟨rfl, rfl, rfl, rfl⟩
  · have : k = 0 := by omega
    subst this
    have hl := hB.length
    have : B = [] := List.eq_nil_of_length_eq_zero hl
    subst this
    unfold slice2 blkOf
    simp [hiBound, tab, rowLen]

/-- a `k × k` inverted covariance is its own block; its negation is the model's negated block -/
theorem self_eq_blkOf (B : Mat) (k : Nat) (hB : IsTab k k B) : B = blkOf B 0 0 k ∧ -B = negBlk B k := by
  constructor
  · unfold blkOf
    conv_lhs => rw [hB]
    apply tab_congr
    intro a b _ _
    simp
  · show (tab B.length (rowLen B) fun i j => - ent B i j) = negBlk B k
    unfold negBlk
    by_cases hk : 0 < k
    · rw [hB.length, hB.rowLen hk]
    · have : k = 0 := by omega
      subst this
      rw [hB.length]
      simp [tab]

/-- `P[v·k:(v+1)·k, w·k:(w+1)·k] += B` on an `n × n` table is the model's `addBlock` -/
theorem addSlice_eq (n : Nat) (P : Mat) (hP : IsTab n n P) (v w k : Nat) (B : Mat) :
    addSlice P (v * k) ((v + 1) * k) (w * k) ((w + 1) * k) B = addBlock n P (v * k) (w * k) k B := by
  unfold addSlice addBlock updBlock
  by_cases hn : 0 < n
  · rw [hP.length, hP.rowLen hn]
    apply tab_congr
    intro i j _ _
    rw [Nat.succ_mul, Nat.succ_mul]
  · have : n = 0 := by omega
    subst this
    rw [hP.length]
    simp [tab]

theorem setSlice_eq (n : Nat) (P : Mat) (hP : IsTab n n P) (v w k : Nat) (B : Mat) :
    setSlice P (v * k) ((v + 1) * k) (w * k) ((w + 1) * k) B = setBlock n P (v * k) (w * k) k B := by
  unfold setSlice setBlock updBlock
  by_cases hn : 0 < n
  · rw [hP.length, hP.rowLen hn]
    apply tab_congr
    intro i j _ _
    rw [Nat.succ_mul, Nat.succ_mul]
  · have : n = 0 := by omega
    subst this
    rw [hP.length]
    simp [tab]

theorem isTab_addBlock (n : Nat) (P : Mat) (r0 c0 k : Nat) (B : Mat) : IsTab n n (addBlock n P r0 c0 k B) :=
  isTab_tab _ _ _

theorem isTab_setBlock (n : Nat) (P : Mat) (r0 c0 k : Nat) (B : Mat) : IsTab n n (setBlock n P r0 c0 k B) :=
  isTab_tab _ _ _

/-- the block statements only read the `k × k` window of their right-hand side -/
theorem addBlock_congr (n : Nat) (P : Mat) (r0 c0 k : Nat) (B B' : Mat)
    (h : ∀ a c, a < k → c < k → ent B a c = ent B' a c) : addBlock n P r0 c0 k B = addBlock n P r0 c0 k B' := by
  unfold addBlock updBlock
  apply tab_congr
  intro i j _ _
  dsimp only
  split
  · rename_i hw; rw [h (i - r0) (j - c0) (by omega) (by omega)]
  · rfl

theorem setBlock_congr (n : Nat) (P : Mat) (r0 c0 k : Nat) (B B' : Mat)
    (h : ∀ a c, a < k → c < k → ent B a c = ent B' a c) : setBlock n P r0 c0 k B = setBlock n P r0 c0 k B' := by
  unfold setBlock updBlock
  apply tab_congr
  intro i j _ _
  dsimp only
  split
  · rename_i hw; rw [h (i - r0) (j - c0) (by omega) (by omega)]
  · rfl

/-! ### modes -/

theorem covDimS_toS (m : Mode) (k : Nat) : covDimS (toS m) k = m.dim k := by
  cases m <;> rfl

theorem modeKnown_toS (m : Mode) : modeKnown (toS m) = true := by
  cases m <;> rfl

/-! ### one edge of the dense scatter -/

theorem isTab_denseStep (m : Mode) (k n : Nat) (P : Mat) (eB : (Nat × Nat) × Mat) : IsTab n n (denseStep m k n P eB) := by
  cases m <;> exact isTab_tab _ _ _

/-- **the four slice statements of `_create_dense_precision` are the model's `denseStep`** (same blocks, same `+=` / `=`,
same order) whenever the accumulator is an `n × n` array and the inverted covariance has the size of the edge block -/
theorem denseWrite_eq_denseStep (m : Mode) (k n : Nat) (P : Mat) (hP : IsTab n n P) (g : GraphS) (e : Nat) (B : Mat)
    (hB : IsTab (m.dim k) (m.dim k) B) :
    denseWrite P g k (toS m) e B = denseStep m k n P (g.edgeAt e, B) := by
  cases m with
  | concat =>
    obtain ⟨s1, s2, s3, s4⟩ := slice2_eq_blkOf B k hB
    show setSlice (setSlice (addSlice (addSlice P _ _ _ _ _) _ _ _ _ _) _ _ _ _ _) _ _ _ _ _ = _
    rw [s1, s2, s3, s4, addSlice_eq n P hP, addSlice_eq n _ (isTab_addBlock _ _ _ _ _ _),
      setSlice_eq n _ (isTab_addBlock _ _ _ _ _ _), setSlice_eq n _ (isTab_setBlock _ _ _ _ _ _)]
    rfl
  | sub =>
    obtain ⟨s1, s2⟩ := self_eq_blkOf B k hB
    show addSlice (addSlice (setSlice (setSlice P _ _ _ _ _) _ _ _ _ _) _ _ _ _ _) _ _ _ _ _ = _
    rw [s2, setSlice_eq n P hP, setSlice_eq n _ (isTab_setBlock _ _ _ _ _ _),
      addSlice_eq n _ (isTab_setBlock _ _ _ _ _ _), addSlice_eq n _ (isTab_addBlock _ _ _ _ _ _)]
    unfold denseStep
    simp only
    have hw : ∀ a c, a < k → c < k → ent B a c = ent (blkOf B 0 0 k) a c := by
      intro a c ha hc
      rw [ent_blkOf, if_pos ⟨ha, hc⟩]; simp
    rw [addBlock_congr n _ _ _ k B (blkOf B 0 0 k) hw]
    congr 1
    exact addBlock_congr n _ _ _ k B (blkOf B 0 0 k) hw

/-! ### loops with an exit flag -/

/-- the loop without the flag: the first failing item ends it -/
def runFlag {σ ε β : Type} (f : Nat → Except ε β) (w : σ → Nat → β → σ) : σ → List Nat → Except ε σ
  | s, [] => .ok s
  | s, e :: es =>
    match f e with
    | .error err => .error err
    | .ok B => runFlag f w (w s e B) es

theorem forLoop_flag_stopped {σ ρ ε : Type} (body : Option (Except ε ρ) × σ → Nat → Option (Except ε ρ) × σ)
    (hstop : ∀ v s e, body (some v, s) e = (some v, s)) (v : Except ε ρ) (s : σ) (xs : List Nat) :
    forLoop (some v, s) xs body = (some v, s) := by
  induction xs with
  | nil => rfl
  | cons x xs ih => rw [forLoop_cons, hstop]; exact ih

/-- **a translated `for` loop whose body may raise**: the fold over (exit flag, loop-carried variables) followed by
`match flag with | some v => v | none => .ok (fin state)` is the plain loop that stops at the first failing item -/
theorem flagLoop {σ ρ ε β : Type} (body : Option (Except ε ρ) × σ → Nat → Option (Except ε ρ) × σ)
    (f : Nat → Except ε β) (w : σ → Nat → β → σ)
    (hstop : ∀ v s e, body (some v, s) e = (some v, s))
    (hok : ∀ s e B, f e = .ok B → body (none, s) e = (none, w s e B))
    (herr : ∀ s e err, f e = .error err → (body (none, s) e).1 = some (.error err))
    (fin : σ → ρ) (s0 : σ) (xs : List Nat) :
    (match (forLoop (none, s0) xs body).1 with
      | some v => v
      | none => .ok (fin (forLoop (none, s0) xs body).2)) =
    (match runFlag f w s0 xs with
      | .error err => .error err
      | .ok s => .ok (fin s)) := by
  induction xs generalizing s0 with
  | nil => rfl
  | cons x xs ih =>
    rw [forLoop_cons]
    unfold runFlag
    cases hf : f x with
    | error err =>
      have h1 := herr s0 x err hf
      have h2 : body (none, s0) x = (some (.error err), (body (none, s0) x).2) := by
        rw [← h1]
      rw [h2, forLoop_flag_stopped body hstop]
    | ok B =>
      rw [hok s0 x B hf]
      exact ih (w s0 x B)

/-- the blocks of all items, or the first error -/
def collectL {ε β : Type} (f : Nat → Except ε β) : List Nat → Except ε (List β)
  | [] => .ok []
  | e :: es =>
    match f e with
    | .error err => .error err
    | .ok B =>
      match collectL f es with
      | .error err => .error err
      | .ok Bs => .ok (B :: Bs)

theorem collectL_length {ε β : Type} (f : Nat → Except ε β) (xs : List Nat) (Bs : List β)
    (h : collectL f xs = .ok Bs) : Bs.length = xs.length := by
  induction xs generalizing Bs with
  | nil => simp [collectL] at h; subst h; rfl
  | cons x xs ih =>
    unfold collectL at h
    split at h
    · exact absurd h (by simp)
    · split at h
      · exact absurd h (by simp)
      · rename_i Bs' hBs
        injection h with h; subst h
        simp [ih Bs' hBs]

theorem collectL_mem {ε β : Type} (f : Nat → Except ε β) (Q : β → Prop) (xs : List Nat)
    (hQ : ∀ e B, e ∈ xs → f e = .ok B → Q B) (Bs : List β) (h : collectL f xs = .ok Bs) : ∀ B ∈ Bs, Q B := by
  induction xs generalizing Bs with
  | nil => simp [collectL] at h; subst h; simp
  | cons x xs ih =>
    unfold collectL at h
    split at h
    · exact absurd h (by simp)
    · rename_i B hB
      split at h
      · exact absurd h (by simp)
      · rename_i Bs' hBs
        injection h with h; subst h
        intro B' hB'
        simp at hB'
        rcases hB' with h' | h'
        · subst h'; exact hQ x _ (by simp) hB
        · exact ih (fun e B he => hQ e B (by simp [he])) Bs' hBs B' h'

/-- the loops only look at the items of their range -/
theorem collectL_mem_range {ε β : Type} (f : Nat → Except ε β) (Q : β → Prop) (n : Nat)
    (hQ : ∀ e, e < n → ∀ B, f e = .ok B → Q B) (Bs : List β) (h : collectL f (List.range n) = .ok Bs) : ∀ B ∈ Bs, Q B :=
  collectL_mem f Q _ (fun e B he hB => hQ e (List.mem_range.1 he) B hB) Bs h

/-- the plain loop is: collect the blocks, then fold the state over (item, block) -/
theorem runFlag_eq {σ ε β : Type} (f : Nat → Except ε β) (w : σ → Nat → β → σ) (s0 : σ) (xs : List Nat) :
    runFlag f w s0 xs =
      (match collectL f xs with
        | .error err => .error err
        | .ok Bs => .ok ((xs.zip Bs).foldl (fun s eB => w s eB.1 eB.2) s0)) := by
  induction xs generalizing s0 with
  | nil => rfl
  | cons x xs ih =>
    unfold runFlag collectL
    cases hf : f x with
    | error err => rfl
    | ok B =>
      simp only
      rw [ih]
      cases collectL f xs with
      | error err => rfl
      | ok Bs => rfl

end MenpoModel.C12.Src
