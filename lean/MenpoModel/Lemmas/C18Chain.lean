/-
C18 helper lemmas: the binary64 chain of `BooleanImage.resize` (Core/C18Float.lean) analysed with the standard model
`rne_rel_err`: the template extent is exactly the requested one for every pair of extents, in binary64.
-/
import MenpoModel.Lemmas.C18Float

namespace MenpoModel.C18

theorem abs_sub_le_of_rel {x y : ℚ} (h : |x - y| ≤ |y| * ulp2) : |x| ≤ |y| * (1 + ulp2) := by
  have := abs_sub_abs_le_abs_sub x y
  linarith

theorem ulp2_lt : ulp2 < 1 / 2 ^ 52 := by
  unfold ulp2; rw [pow2_eq_zpow]; norm_num

/-- `scale * o` for `scale = n / o`, both operations in binary64, is within `3·2⁻⁵³·n` of `n` -/
theorem scaledExtent_close (o n : Nat) (ho : 0 < o) :
    |scaledExtent o n - (n : ℚ)| ≤ 3 * ulp2 * (n : ℚ) := by
  unfold scaledExtent fmul fdiv
  have hoq : (0 : ℚ) < (o : ℚ) := by exact_mod_cast ho
  have hnq : (0 : ℚ) ≤ (n : ℚ) := by exact_mod_cast Nat.zero_le n
  have hu := ulp2_pos
  have hu1 := ulp2_lt
  set s := rne ((n : ℚ) / (o : ℚ)) with hs
  have h1 : |s - (n : ℚ) / (o : ℚ)| ≤ |(n : ℚ) / (o : ℚ)| * ulp2 := rne_rel_err _
  have hdiv : |(n : ℚ) / (o : ℚ)| = (n : ℚ) / (o : ℚ) := abs_of_nonneg (by positivity)
  rw [hdiv] at h1
  -- s·o is within n·u of n
  have h2 : |s * (o : ℚ) - (n : ℚ)| ≤ (n : ℚ) * ulp2 := by
    have e : s * (o : ℚ) - (n : ℚ) = (s - (n : ℚ) / (o : ℚ)) * (o : ℚ) := by field_simp
    rw [e, abs_mul, abs_of_pos hoq]
    calc |s - (n : ℚ) / (o : ℚ)| * (o : ℚ) ≤ ((n : ℚ) / (o : ℚ) * ulp2) * (o : ℚ) :=
          mul_le_mul_of_nonneg_right h1 hoq.le
      _ = (n : ℚ) * ulp2 := by field_simp
  have h3 : |rne (s * (o : ℚ)) - s * (o : ℚ)| ≤ |s * (o : ℚ)| * ulp2 := rne_rel_err _
  have h4 : |s * (o : ℚ)| ≤ (n : ℚ) * (1 + ulp2) := by
    have := abs_sub_abs_le_abs_sub (s * (o : ℚ)) (n : ℚ)
    rw [abs_of_nonneg hnq] at this
    nlinarith
  have h5 : |rne (s * (o : ℚ)) - (n : ℚ)| ≤ |rne (s * (o : ℚ)) - s * (o : ℚ)| + |s * (o : ℚ) - (n : ℚ)| := by
    have := abs_add_le (rne (s * (o : ℚ)) - s * (o : ℚ)) (s * (o : ℚ) - (n : ℚ))
    simpa using this
  have h6 : |s * (o : ℚ)| * ulp2 ≤ (n : ℚ) * (1 + ulp2) * ulp2 := mul_le_mul_of_nonneg_right h4 hu.le
  have h7 : (n : ℚ) * (1 + ulp2) * ulp2 + (n : ℚ) * ulp2 ≤ 3 * ulp2 * (n : ℚ) := by
    have hu2 : (0 : ℚ) ≤ 1 - ulp2 := by
      have : (1 : ℚ) / 2 ^ 52 < 1 := by norm_num
      linarith
    have := mul_nonneg (mul_nonneg hnq hu.le) hu2
    nlinarith
  linarith

/-- PROPERTY (mask resized *to the new shape*, binary64): `resize` rounds the scaled extent with `np.round`, and
for every old extent and every requested extent below `2⁴⁰` that is exactly the requested extent -/
theorem tmplExt_round_exact (o n : Nat) (ho : 0 < o) (hn : n < 2 ^ 40) : tmplExt .round o n = (n : Int) := by
  unfold tmplExt
  simp only []
  apply rhe_of_close
  have h := scaledExtent_close o n ho
  have hu := ulp2_lt
  have hnq : (n : ℚ) < 2 ^ 40 := by exact_mod_cast hn
  have hn0 : (0 : ℚ) ≤ (n : ℚ) := by exact_mod_cast Nat.zero_le n
  have hup := ulp2_pos
  have : 3 * ulp2 * (n : ℚ) < 1 / 2 := by
    have h1 : 3 * ulp2 * (n : ℚ) ≤ 3 * ulp2 * 2 ^ 40 := by
      apply mul_le_mul_of_nonneg_left hnq.le; positivity
    have h2 : 3 * ulp2 * 2 ^ 40 < 3 * (1 / 2 ^ 52) * 2 ^ 40 := by
      have : (0 : ℚ) < 2 ^ 40 := by positivity
      nlinarith
    have h3 : (3 : ℚ) * (1 / 2 ^ 52) * 2 ^ 40 < 1 / 2 := by norm_num
    linarith
  push_cast
  linarith

theorem tmplExt_zipWith (old new : List Nat) (hl : old.length = new.length) (ho : ∀ o ∈ old, 0 < o)
    (hn : ∀ n ∈ new, n < 2 ^ 40) : List.zipWith (tmplExt .round) old new = new.map Int.ofNat := by
  induction old generalizing new with
  | nil => cases new with
    | nil => rfl
    | cons b t => simp at hl
  | cons a s ih =>
    cases new with
    | nil => simp at hl
    | cons b t =>
      simp only [List.zipWith_cons_cons, List.map_cons]
      rw [tmplExt_round_exact a b (ho a (by simp)) (hn b (by simp)),
        ih t (by simpa using hl) (fun o h => ho o (by simp [h])) (fun n h => hn n (by simp [h]))]
      rfl

end MenpoModel.C18
