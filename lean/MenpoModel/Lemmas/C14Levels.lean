/-
C14 — `Tree.maximum_depth`, `vertices_at_depth`, `n_vertices_at_depth` (model: `Core/C14Ext.lean`) for
trees of every size: the levels of an accepted tree partition its vertices, level 0 is the root, level
`d + 1` are the children of level `d`, and exactly the levels `0 … maximum_depth` are inhabited.
Core Lean only.
-/
import MenpoModel.Core.C14Ext
import MenpoModel.Lemmas.C14TreeCtor

namespace MenpoModel.C14
open Graph

theorem mem_verticesAtDepth (g : Graph) (r d v : Nat) :
    v ∈ g.verticesAtDepth r d ↔ v < g.n ∧ g.depth r v = some d := by
  simp [Graph.verticesAtDepth]

theorem foldl_count_eq (p : Nat → Bool) : ∀ (l : List Nat) (k : Nat),
    l.foldl (fun k v => if p v then k + 1 else k) k = k + (l.filter p).length
  | [], k => by simp
  | a :: l, k => by
    simp only [List.foldl_cons, List.filter_cons]
    rw [foldl_count_eq p l]
    cases p a <;> simp <;> omega

/-- the counting loop counts the listed vertices -/
theorem nVerticesAtDepth_eq (g : Graph) (r d : Nat) : g.nVerticesAtDepth r d = (g.verticesAtDepth r d).length := by
  unfold Graph.nVerticesAtDepth Graph.verticesAtDepth
  rw [foldl_count_eq (fun v => g.depth r v == some d)]; simp

def omax : Option Nat → Option Nat → Option Nat
  | some a, some x => some (max a x)
  | _, _ => none

theorem foldl_omax_none (l : List (Option Nat)) : l.foldl omax none = none := by
  induction l with
  | nil => rfl
  | cons a l ih => simpa [omax] using ih

theorem foldl_omax_spec : ∀ (l : List (Option Nat)) (a M : Nat), l.foldl omax (some a) = some M →
    a ≤ M ∧ (∀ d ∈ l, ∃ x, d = some x ∧ x ≤ M) ∧ (M = a ∨ some M ∈ l)
  | [], a, M, h => by
    simp only [List.foldl_nil, Option.some.injEq] at h
    subst h; exact ⟨Nat.le_refl _, fun d hd => by simp at hd, Or.inl rfl⟩
  | none :: l, a, M, h => by
    simp only [List.foldl_cons, omax] at h
    rw [foldl_omax_none] at h; cases h
  | some x :: l, a, M, h => by
    simp only [List.foldl_cons, omax] at h
    obtain ⟨h1, h2, h3⟩ := foldl_omax_spec l (max a x) M h
    refine ⟨by omega, ?_, ?_⟩
    · intro d hd
      simp only [List.mem_cons] at hd
      rcases hd with rfl | hd
      · exact ⟨x, rfl, by omega⟩
      · exact h2 d hd
    · rcases h3 with h3 | h3
      · by_cases hax : x ≤ a
        · exact Or.inl (by omega)
        · exact Or.inr (by simp; exact Or.inl (by omega))
      · exact Or.inr (by simp [h3])

theorem foldl_omax_some : ∀ (l : List (Option Nat)) (a : Nat), (∀ d ∈ l, ∃ x, d = some x) →
    ∃ M, l.foldl omax (some a) = some M
  | [], a, _ => ⟨a, rfl⟩
  | d :: l, a, h => by
    obtain ⟨x, rfl⟩ := h d (by simp)
    simp only [List.foldl_cons, omax]
    exact foldl_omax_some l (max a x) (fun d hd => h d (by simp [hd]))

theorem maximumDepth_eq (g : Graph) (r : Nat) (hn : 0 < g.n) :
    g.maximumDepth r = (g.allDepths r).foldl omax (some 0) := by
  unfold Graph.maximumDepth
  rw [if_neg (by omega)]
  rfl

/-- `maximum_depth` as coded: it returns `M` only if every vertex has a depth `≤ M`, and `M` is attained
(or `0`) -/
theorem maximumDepth_spec (g : Graph) (r M : Nat) (h : g.maximumDepth r = some M) :
    0 < g.n ∧ (∀ v, v < g.n → ∃ d, g.depth r v = some d ∧ d ≤ M) ∧ (M = 0 ∨ ∃ v, v < g.n ∧ g.depth r v = some M) := by
  have hn : 0 < g.n := by
    rcases Nat.eq_zero_or_pos g.n with h0 | h0
    · simp [Graph.maximumDepth, h0] at h
    · exact h0
  rw [maximumDepth_eq g r hn] at h
  obtain ⟨_, h2, h3⟩ := foldl_omax_spec _ 0 M h
  refine ⟨hn, ?_, ?_⟩
  · intro v hv
    obtain ⟨x, hx, hle⟩ := h2 (g.depth r v) (List.mem_map.2 ⟨v, List.mem_range.2 hv, rfl⟩)
    exact ⟨x, hx, hle⟩
  · rcases h3 with h3 | h3
    · exact Or.inl h3
    · obtain ⟨v, hv, hd⟩ := List.mem_map.1 h3
      exact Or.inr ⟨v, List.mem_range.1 hv, hd⟩

/-- PROPERTY (unbounded).  In an accepted tree: `maximum_depth` returns some `M < n`, attained and an
upper bound; `vertices_at_depth(0)` is the root alone; a vertex lies at depth `d + 1` iff its parent lies
at depth `d`; every vertex lies in exactly one level; the levels `0 … M` are inhabited, the others empty;
`n_vertices_at_depth` is the length of `vertices_at_depth`. -/
theorem tree_levels (g : Graph) (r : Nat) (h : g.treeCtor r = .ok ()) :
    ∃ M, g.maximumDepth r = some M ∧ M < g.n ∧
      (∀ v, v < g.n → ∃ d, d ≤ M ∧ v ∈ g.verticesAtDepth r d ∧ ∀ d', v ∈ g.verticesAtDepth r d' → d' = d) ∧
      g.verticesAtDepth r 0 = [r] ∧
      (∀ v d, v < g.n → v ≠ r →
        (v ∈ g.verticesAtDepth r (d + 1) ↔ ∃ p, g.parent v = some p ∧ p ∈ g.verticesAtDepth r d)) ∧
      (∀ d, d ≤ M ↔ g.verticesAtDepth r d ≠ []) ∧
      (∀ d, g.nVerticesAtDepth r d = (g.verticesAtDepth r d).length) := by
  have hA := treeCtor_arborescence g r h
  have hr : r < g.n := hA.1
  have hn : 0 < g.n := by omega
  have htot := treeCtor_depth_total g r h
  obtain ⟨M, hM⟩ := foldl_omax_some (g.allDepths r) 0 (by
    intro d hd
    obtain ⟨v, hv, rfl⟩ := List.mem_map.1 hd
    obtain ⟨x, hx, _⟩ := htot v (List.mem_range.1 hv)
    exact ⟨x, hx⟩)
  rw [← maximumDepth_eq g r hn] at hM
  obtain ⟨_, hbound, hatt⟩ := maximumDepth_spec g r M hM
  have hattained : ∃ v, v < g.n ∧ g.depth r v = some M := by
    rcases hatt with rfl | h'
    · exact ⟨r, hr, depth_root g r⟩
    · exact h'
  -- every smaller level is inhabited: walk up from a deepest vertex
  have hlevels : ∀ k, k ≤ M → ∃ v, v < g.n ∧ g.depth r v = some (M - k) := by
    intro k
    induction k with
    | zero => intro _; simpa using hattained
    | succ k ih =>
      intro hk
      obtain ⟨v, hv, hd⟩ := ih (by omega)
      have hvr : v ≠ r := by
        rintro rfl
        rw [depth_root] at hd
        simp only [Option.some.injEq] at hd
        omega
      rw [show M - k = (M - (k + 1)) + 1 by omega] at hd
      obtain ⟨p, hp, hpd⟩ := (depth_succ_iff g r v _ hvr).1 hd
      exact ⟨p, parent_lt g v p hp, hpd⟩
  refine ⟨M, hM, ?_, ?_, ?_, ?_, ?_, fun d => nVerticesAtDepth_eq g r d⟩
  · obtain ⟨v, hv, hd⟩ := hattained
    exact depth_lt g r v M hd hv
  · intro v hv
    obtain ⟨d, hd, hle⟩ := hbound v hv
    refine ⟨d, hle, (mem_verticesAtDepth g r d v).2 ⟨hv, hd⟩, ?_⟩
    intro d' hd'
    have := ((mem_verticesAtDepth g r d' v).1 hd').2
    rw [hd] at this
    exact (Option.some.inj this).symm
  · -- level 0
    have hsub : ∀ v, v ∈ g.verticesAtDepth r 0 ↔ v ∈ [r] := by
      intro v
      rw [mem_verticesAtDepth]
      constructor
      · rintro ⟨_, hd⟩
        by_cases hvr : v = r
        · simp [hvr]
        · exact absurd hd (depth_ne_zero g r v hvr)
      · intro hv'
        simp only [List.mem_singleton] at hv'
        subst hv'
        exact ⟨hr, depth_root g v⟩
    have hnd : (g.verticesAtDepth r 0).Nodup := List.Nodup.sublist List.filter_sublist List.nodup_range
    have hr0 : r ∈ g.verticesAtDepth r 0 := (hsub r).2 (by simp)
    obtain ⟨s, t, hst⟩ := List.append_of_mem hr0
    have hs : s = [] := by
      cases s with
      | nil => rfl
      | cons a s =>
        have ha : a ∈ g.verticesAtDepth r 0 := by rw [hst]; simp
        have har : a = r := by simpa using (hsub a).1 ha
        rw [hst, har] at hnd
        simp at hnd
    have ht : t = [] := by
      cases t with
      | nil => rfl
      | cons a t =>
        have ha : a ∈ g.verticesAtDepth r 0 := by rw [hst]; simp
        have har : a = r := by simpa using (hsub a).1 ha
        rw [hst, har, hs] at hnd
        simp at hnd
    rw [hst, hs, ht]; rfl
  · intro v d hv hvr
    rw [mem_verticesAtDepth]
    constructor
    · rintro ⟨_, hd⟩
      obtain ⟨p, hp, hpd⟩ := (depth_succ_iff g r v d hvr).1 hd
      exact ⟨p, hp, (mem_verticesAtDepth g r d p).2 ⟨parent_lt g v p hp, hpd⟩⟩
    · rintro ⟨p, hp, hpm⟩
      exact ⟨hv, (depth_succ_iff g r v d hvr).2 ⟨p, hp, ((mem_verticesAtDepth g r d p).1 hpm).2⟩⟩
  · intro d
    constructor
    · intro hd
      obtain ⟨v, hv, hvd⟩ := hlevels (M - d) (by omega)
      rw [show M - (M - d) = d by omega] at hvd
      intro hnil
      have := (mem_verticesAtDepth g r d v).2 ⟨hv, hvd⟩
      rw [hnil] at this; cases this
    · intro hne
      cases hl : g.verticesAtDepth r d with
      | nil => exact absurd hl hne
      | cons v t =>
        have hv : v ∈ g.verticesAtDepth r d := by rw [hl]; simp
        obtain ⟨hvn, hvd⟩ := (mem_verticesAtDepth g r d v).1 hv
        obtain ⟨d', hd', hle⟩ := hbound v hvn
        rw [hvd] at hd'
        cases hd'; exact hle

example : ctorExTree.maximumDepth 3 = some 3 ∧ ctorExTree.verticesAtDepth 3 1 = [0, 1] ∧
    ctorExTree.verticesAtDepth 3 2 = [2, 4, 5] ∧ ctorExTree.nVerticesAtDepth 3 3 = 1 ∧
    ctorExTree.verticesAtDepth 3 4 = [] := by decide

end MenpoModel.C14
