/-
C11 — the bridge from the definitions `Src.*` of the GMRF side (Core/C11Src.lean: what the translated
`_increment_multivariate_gaussian_mean/_cov`, the four `_increment_*_precision` builders and `GMRFVectorModel._increment`
are proved equal to in GenProps/C11Src.lean) to the model of Core/C11.lean: on a data matrix that holds the samples and
a state that holds the model's statistics, the translated code computes `meanUpdate`, `covUpdate`, `gmrfInc` and stores
the model's `precision`.
-/
import MenpoModel.Lemmas.C11Src
import MenpoModel.Lemmas.C11Stats
import Mathlib.Data.List.GetD
import Mathlib.Tactic.Ring
import Mathlib.Tactic.SplitIfs

set_option linter.unusedSimpArgs false

namespace MenpoModel.C11
open NP

/-- the data matrix `X` holds the samples `B` (row `i` = sample `i`); the number of columns is irrelevant -/
def DataRepr (X : M) (B : Data) : Prop := X.r = B.length ∧ ∀ i, i < B.length → ∀ j, X.f i j = (B.getD i zeroVec) j

theorem dataRepr_ofData (d : Nat) (B : Data) : DataRepr (ofData d B) B := ⟨rfl, fun _ _ _ => rfl⟩

theorem rsum_eq_map_sum (B : Data) (g : Nat → Rat) (h : Vec → Rat)
    (hg : ∀ i, i < B.length → g i = h (B.getD i zeroVec)) : rsum B.length g = (B.map h).sum := by
  unfold rsum
  congr 1
  apply List.ext_getElem
  · simp
  · intro i h1 h2
    simp only [List.getElem_map, List.getElem_range]
    rw [hg i (by simpa using h1)]
    congr 1
    simp at h1
    simp [List.getElem?_eq_getElem h1]

theorem rsum_sumC {X : M} {B : Data} (h : DataRepr X B) (j : Nat) : (rsum X.r fun t => X.f t j) = sumC B j := by
  rw [h.1]
  exact rsum_eq_map_sum B _ (fun x => x j) (fun i hi => h.2 i hi j)

theorem rsum_sumCC {X : M} {B : Data} (h : DataRepr X B) (i j : Nat) :
    (rsum X.r fun t => X.f t i * X.f t j) = sumCC B i j := by
  rw [h.1]
  exact rsum_eq_map_sum B _ (fun x => x i * x j) (fun t ht => by rw [h.2 t ht i, h.2 t ht j])

/-- the two bias conventions as the integer the code is given -/
def biasN (b : Bool) : Nat := if b then 1 else 0

/-- PROPERTY (translated `_increment_multivariate_gaussian_mean`): on a data matrix holding the samples `B`, the
translated formula is the model's `meanUpdate`, entry by entry -/
theorem src_incMean_eq {X : M} {B : Data} (h : DataRepr X B) (m : V) (n : Nat) :
    (Src.incMean X m n).f = meanUpdate n m.f B := by
  funext i
  rw [Src.incMean_f, rsum_sumC h, h.1]
  rfl

/-- the covariance `_increment_multivariate_gaussian_cov` returns for a valid bias -/
def Src.covNew (X : M) (m : V) (S : M) (n : Rat) (b : Bool) : M :=
  ⟨max (max S.r m.n) X.c, max (max S.c m.n) X.c, fun i j =>
    ((if b then n else n - 1) * S.f i j + n * (m.f i * m.f j) + (rsum X.r fun t => X.f t i * X.f t j)
      - (n + (X.r : Rat)) * ((Src.incMean X m n).f i * (Src.incMean X m n).f j)) / ((if b then n else n - 1) + (X.r : Rat))⟩

theorem src_incCov_some (X : M) (m : V) (S : M) (n : Rat) (b : Bool) :
    Src.incCov X m S n (biasN b) = some (Src.incMean X m n, Src.covNew X m S n b) := by
  cases b <;> simp [Src.incCov, biasN, Src.covNew]

/-- PROPERTY (translated `_increment_multivariate_gaussian_cov`): for both valid bias values the translated formula is
the model's `covUpdate`, entry by entry -/
theorem src_covNew_eq {X : M} {B : Data} (h : DataRepr X B) (m : V) (S : M) (n : Nat) (b : Bool) :
    (Src.covNew X m S n b).f = covUpdate b n m.f S.f B := by
  funext i j
  simp only [Src.covNew, covUpdate]
  rw [rsum_sumCC h, src_incMean_eq h, h.1]
  cases b <;> simp <;> ring


/-! ### the blocks: which columns of the data / entries of the mean the builders read -/

def modeStr : Mode → String
  | .concatenation => "concatenation"
  | .subtraction => "subtraction"

/-- fancy indexing `x[idx]` on a sample -/
def featIdx (idx : List Nat) (x : Vec) : Vec := fun c => x (idx.getD c 0)

/-- the feature map of block `e` exactly as the translated builders read it (`X[:, list(range(..)) + list(range(..))]`,
`X[:, a:b] - X[:, c:d]`, `X[:, a:b]`): a total function of the sample -/
def srcFeat (g : GSpec) (e : Nat) : Vec → Vec :=
  if g.diagonal then featVertex g.k e else
    match g.mode with
    | .concatenation =>
      featIdx (Idx.range ((g.edges.getD e (0, 0)).1 * g.k) (((g.edges.getD e (0, 0)).1 + 1) * g.k)
        + Idx.range ((g.edges.getD e (0, 0)).2 * g.k) (((g.edges.getD e (0, 0)).2 + 1) * g.k)).l
    | .subtraction => featSub g.k (g.edges.getD e (0, 0)).1 (g.edges.getD e (0, 0)).2

theorem featIdx_mean (idx : List Nat) : FeatMean (featIdx idx) := by
  intro X; funext c
  simp [featIdx, mean, sumC, List.map_map, Function.comp_def]

theorem srcFeat_mean (g : GSpec) (e : Nat) : FeatMean (srcFeat g e) := by
  unfold srcFeat
  split
  · exact featVertex_mean _ _
  · cases g.mode
    · exact featIdx_mean _
    · exact featSub_mean _ _ _

theorem idx_range_getD (a b j : Nat) (h : j < b - a) : (Idx.range a b).l.getD j 0 = a + j := by
  simp [Idx.range, List.getD_eq_getElem?_getD, h]

theorem succ_mul_sub (v k : Nat) : (v + 1) * k - v * k = k := by
  rw [Nat.succ_mul]; omega

/-- on the columns of the block the total feature map is the model's `featConcat` -/
theorem srcFeat_eq_feat (g : GSpec) (e : Nat) (x : Vec) (c : Nat) (hc : c < g.blockDim) :
    srcFeat g e x c = g.feat e x c := by
  unfold srcFeat GSpec.feat
  by_cases hd : g.diagonal = true
  · simp [hd]
  · simp only [hd, if_false, Bool.false_eq_true]
    cases hm : g.mode
    · have hc' : c < 2 * g.k := by simpa [GSpec.blockDim, hd, hm] using hc
      simp only [featIdx, featConcat]
      have hl1 : (Idx.range ((g.edges.getD e (0, 0)).1 * g.k) (((g.edges.getD e (0, 0)).1 + 1) * g.k)).l.length = g.k := by
        simp [Idx.range, succ_mul_sub]
      show x ((List.append _ _).getD c 0) = _
      by_cases h1 : c < g.k
      · simp only [h1, if_true]
        rw [List.append_eq, List.getD_append _ _ _ _ (by rw [hl1]; exact h1), idx_range_getD _ _ _ (by rw [succ_mul_sub]; exact h1)]
      · simp only [h1, if_false]
        rw [List.append_eq, List.getD_append_right _ _ _ _ (by rw [hl1]; omega), hl1,
          idx_range_getD _ _ _ (by rw [succ_mul_sub]; omega)]
    · rfl


theorem dataRepr_map {X : M} {B : Data} (φ : Vec → Vec) (Y : M) (hr : Y.r = X.r) (h : DataRepr X B)
    (hf : ∀ i, i < B.length → ∀ j, Y.f i j = φ (fun c => X.f i c) j) (hφ : ∀ i, i < B.length → φ (fun c => X.f i c) = φ (B.getD i zeroVec)) :
    DataRepr Y (B.map φ) := by
  refine ⟨by rw [hr, h.1, List.length_map], ?_⟩
  intro i hi j
  rw [List.length_map] at hi
  rw [hf i hi j, hφ i hi]
  simp [List.getD_eq_getElem?_getD, List.getElem?_map, List.getElem?_eq_getElem hi]

theorem row_ext {X : M} {B : Data} (h : DataRepr X B) (i : Nat) (hi : i < B.length) :
    (fun c => X.f i c) = B.getD i zeroVec := by
  funext c; exact h.2 i hi c

/-- the block of the data matrix the edge builders compute on holds the samples mapped by `srcFeat` -/
theorem edgeData_repr (g : GSpec) (hd : g.diagonal = false) (e : Nat) {X : M} {B : Data} (h : DataRepr X B) :
    DataRepr (Src.edgeData (modeStr g.mode) g.k X (g.edges.getD e (0, 0)).1 (g.edges.getD e (0, 0)).2)
      (B.map (srcFeat g e)) := by
  unfold Src.edgeData srcFeat
  simp only [hd, Bool.false_eq_true, if_false]
  cases hm : g.mode
  · simp only [modeStr, beq_self_eq_true, if_true]
    refine dataRepr_map _ _ ?_ h ?_ ?_
    · rfl
    · intro i _ j; rfl
    · intro i hi; rw [row_ext h i hi]
  · have : ("subtraction" == "concatenation") = false := by decide
    simp only [modeStr, this, Bool.false_eq_true, if_false]
    refine dataRepr_map _ _ ?_ h ?_ ?_
    · simp [sl]
    · intro i _ j; simp [sl, featSub]
    · intro i hi; rw [row_ext h i hi]

theorem edgeMean_f (g : GSpec) (hd : g.diagonal = false) (e : Nat) (m : V) :
    (Src.edgeMean (modeStr g.mode) g.k m (g.edges.getD e (0, 0)).1 (g.edges.getD e (0, 0)).2).f = srcFeat g e m.f := by
  unfold Src.edgeMean srcFeat
  simp only [hd, Bool.false_eq_true, if_false]
  cases hm : g.mode
  · simp only [modeStr, beq_self_eq_true, if_true]; rfl
  · have : ("subtraction" == "concatenation") = false := by decide
    simp only [modeStr, this, Bool.false_eq_true, if_false]
    funext c; simp [slV, featSub]

theorem vertexData_repr (k v : Nat) {X : M} {B : Data} (h : DataRepr X B) :
    DataRepr (sl X 0 X.r (v * k) ((v + 1) * k)) (B.map (featVertex k v)) := by
  refine dataRepr_map _ _ ?_ h ?_ ?_
  · simp [sl]
  · intro i _ j; simp [sl, featVertex]
  · intro i hi; rw [row_ext h i hi]

theorem vertexMean_f (k v : Nat) (m : V) : (slV m (v * k) ((v + 1) * k)).f = featVertex k v m.f := by
  funext c; simp [slV, featVertex]

/-! ### the loops: `foldlM` over `range n` of a step that rewrites slot `e` of the covariances and stores into the rest -/

theorem foldlM_range_update {β : Type} (F : M → Nat → M) (G : β → Nat → M → β) (c0 : Nat → M) (P0 : β) (n : Nat) :
    (List.range n).foldlM (fun (st : (Nat → M) × β) e =>
        (some (setItem st.1 e (F (st.1 e) e), G st.2 e (F (st.1 e) e)) : Option ((Nat → M) × β))) (c0, P0)
      = some (fun e' => if e' < n then F (c0 e') e' else c0 e',
              (List.range n).foldl (fun P e => G P e (F (c0 e) e)) P0) := by
  induction n with
  | zero => simp
  | succ n ih =>
    rw [List.range_succ, List.foldlM_append, ih]
    simp only [List.foldlM_cons, List.foldlM_nil, Option.bind_eq_bind, Option.bind_some, pure, List.foldl_append,
      List.foldl_cons, List.foldl_nil, Nat.lt_irrefl, if_false, Option.some.injEq, Prod.mk.injEq, and_true]
    funext e'
    simp only [setItem_fn_apply]
    by_cases h : e' = n
    · subst h; simp
    · simp only [h, if_false]
      by_cases h2 : e' < n
      · simp [h2, Nat.lt_succ_of_lt h2]
      · have : ¬ e' < n + 1 := by omega
        simp [h2, this]


/-! ### stores: the dense array as written by the translated builders is the model's `storeEdge` / `setBlock` -/

theorem storeDense_f (mode : Mode) (k : Nat) (P : M) (v1 v2 : Nat) (C : M) :
    (Src.storeDense (modeStr mode) k P v1 v2 C).f = storeEdge mode k P.f v1 v2 C.f := by
  have e1 : (v1 + 1) * k = v1 * k + k := Nat.succ_mul _ _
  have e2 : (v2 + 1) * k = v2 * k + k := Nat.succ_mul _ _
  funext i j
  cases mode
  · simp only [Src.storeDense, modeStr, beq_self_eq_true, if_true, storeEdge, setSlice, addSlice, sl, addBlock, setBlock,
      e1, e2, Nat.zero_add]
    split_ifs <;> simp_all [Nat.add_comm]
  · have h : ("subtraction" == "concatenation") = false := by decide
    simp only [Src.storeDense, modeStr, h, Bool.false_eq_true, if_false, beq_self_eq_true, if_true, storeEdge, setSlice,
      addSlice, addBlock, setBlock, negM, M.neg_f, e1, e2, Nat.add_zero]

theorem storeDiag_f (k : Nat) (P : M) (v : Nat) (C : M) :
    (setSlice P (v * k) ((v + 1) * k) (v * k) ((v + 1) * k) C).f = setBlock P.f (v * k) (v * k) k C.f 0 0 := by
  have e1 : (v + 1) * k = v * k + k := Nat.succ_mul _ _
  funext i j
  simp only [setSlice, setBlock, e1, Nat.add_zero]

theorem foldl_f {α : Type} (G : M → α → M) (G' : Mat → α → Mat) (h : ∀ P a, (G P a).f = G' P.f a) (xs : List α) :
    ∀ P : M, (xs.foldl G P).f = xs.foldl G' P.f := by
  induction xs with
  | nil => intro P; rfl
  | cons x xs ih => intro P; simp only [List.foldl_cons]; rw [ih, h]


theorem foldl_congr_range {β : Type} (f g : β → Nat → β) (n : Nat) (h : ∀ P e, e < n → f P e = g P e) (P0 : β) :
    (List.range n).foldl f P0 = (List.range n).foldl g P0 := by
  induction n with
  | zero => rfl
  | succ n ih =>
    rw [List.range_succ, List.foldl_append, List.foldl_append, ih (fun P e he => h P e (Nat.lt_succ_of_lt he))]
    simp only [List.foldl_cons, List.foldl_nil]
    exact h _ n (Nat.lt_succ_self n)

/-- the translated model state `s` holds the statistics `t` of the model: count, mean vector, and every block covariance
as a `p × p` array (`p = g.blockDim`) -/
structure StateRel (g : GSpec) (s : NP.GState) (t : GState) : Prop where
  n : s.n = t.n
  mean : s.mean.f = t.mean
  cov : ∀ e, e < g.nBlocks → s.covs e = ⟨g.blockDim, g.blockDim, t.cov e⟩

def graphOf (g : GSpec) : NP.Graph := ⟨g.nv, g.edges⟩

theorem nEdges_zero_iff (g : GSpec) : ((graphOf g).nEdges == 0) = g.diagonal := by
  simp only [graphOf, NP.Graph.nEdges, GSpec.diagonal]
  cases g.edges <;> rfl

/-- the block inverse as the model's `Mat → Mat` -/
def invF (inv : M → Option Nat → M) (nc : Option Nat) (p : Nat) (C : Mat) : Mat := (inv ⟨p, p, C⟩ nc).f

theorem edgeMean_n (g : GSpec) (hd : g.diagonal = false) (e : Nat) (m : V) :
    (Src.edgeMean (modeStr g.mode) g.k m (g.edges.getD e (0, 0)).1 (g.edges.getD e (0, 0)).2).n = g.blockDim := by
  unfold Src.edgeMean GSpec.blockDim
  simp only [hd, Bool.false_eq_true, if_false]
  cases hm : g.mode
  · simp only [modeStr, beq_self_eq_true, if_true]
    show (List.append _ _).length = _
    simp [Idx.range, succ_mul_sub]; omega
  · have : ("subtraction" == "concatenation") = false := by decide
    simp [modeStr, this, slV, succ_mul_sub]

theorem edgeData_c (g : GSpec) (hd : g.diagonal = false) (e : Nat) (X : M) :
    (Src.edgeData (modeStr g.mode) g.k X (g.edges.getD e (0, 0)).1 (g.edges.getD e (0, 0)).2).c = g.blockDim := by
  unfold Src.edgeData GSpec.blockDim
  simp only [hd, Bool.false_eq_true, if_false]
  cases hm : g.mode
  · simp only [modeStr, beq_self_eq_true, if_true, cols]
    show (List.append _ _).length = _
    simp [Idx.range, succ_mul_sub]; omega
  · have : ("subtraction" == "concatenation") = false := by decide
    simp [modeStr, this, sl, succ_mul_sub]

/-- the new covariance of block `e` as the translated builders compute it is the model's `gmrfInc` -/
theorem covNew_block (g : GSpec) (b : Bool) (e : Nat) (he : e < g.nBlocks) {X : M} {B : Data} (hX : DataRepr X B)
    (s : NP.GState) (t : GState) (hs : StateRel g s t) :
    (if g.diagonal then
        Src.covNew (sl X 0 X.r (e * g.k) ((e + 1) * g.k)) (slV s.mean (e * g.k) ((e + 1) * g.k)) (s.covs e) s.n b
      else
        Src.covNew (Src.edgeData (modeStr g.mode) g.k X (g.edges.getD e (0, 0)).1 (g.edges.getD e (0, 0)).2)
          (Src.edgeMean (modeStr g.mode) g.k s.mean (g.edges.getD e (0, 0)).1 (g.edges.getD e (0, 0)).2) (s.covs e) s.n b)
      = ⟨g.blockDim, g.blockDim, (gmrfInc b (srcFeat g) t B).cov e⟩ := by
  by_cases hd : g.diagonal = true
  · simp only [hd, if_true]
    apply M.ext'
    · simp [Src.covNew, hs.cov e he, slV, sl, succ_mul_sub, GSpec.blockDim, hd]
    · simp [Src.covNew, hs.cov e he, slV, sl, succ_mul_sub, GSpec.blockDim, hd]
    · rw [src_covNew_eq (vertexData_repr g.k e hX), vertexMean_f, hs.cov e he, hs.mean, hs.n]
      simp [gmrfInc, srcFeat, hd]
  · have hd' : g.diagonal = false := by simpa using hd
    simp only [hd', Bool.false_eq_true, if_false]
    apply M.ext'
    · simp only [Src.covNew, hs.cov e he]; rw [edgeMean_n g hd', edgeData_c g hd']; simp
    · simp only [Src.covNew, hs.cov e he]; rw [edgeMean_n g hd', edgeData_c g hd']; simp
    · rw [src_covNew_eq (edgeData_repr g hd' e hX), edgeMean_f g hd', hs.cov e he, hs.mean, hs.n]
      simp [gmrfInc]


/-- PROPERTY (translated `GMRFVectorModel._increment`, dense storage): on a state holding the model's statistics the
translated code (dispatch on `graph.n_edges == 0`, the loop over the vertices / edges with the update formula of every
block, the stores into the dense array, then the mean and count updates) returns the state holding the statistics of
`gmrfInc`, and the array it stores is the model's `precision` of the updated covariances, for any block-inverse routine -/
theorem src_incrementInner_dense (inv : M → Option Nat → M) (g : GSpec) (b : Bool) (nf : Nat) (nc : Option Nat)
    (s : NP.GState) (t : GState) {X : M} {B : Data} (hX : DataRepr X B) (hs : StateRel g s t) :
    ∃ s', Src.incrementInner inv (graphOf g) false (modeStr g.mode) nf g.k nc (biasN b) s X = some s' ∧
      StateRel g s' (gmrfInc b (srcFeat g) t B) ∧
      s'.precision.f = precision g (invF inv nc g.blockDim) (gmrfInc b (srcFeat g) t B).cov := by
  unfold Src.incrementInner Src.builder
  rw [nEdges_zero_iff]
  by_cases hd : g.diagonal = true
  · simp only [hd, if_true, Bool.false_eq_true, if_false, Src.incDenseDiag]
    have hstep : Src.denseDiagStep inv X s.mean (s.n : Rat) g.k nc (biasN b) = fun st v =>
        some (setItem st.1 v (Src.covNew (sl X 0 X.r (v * g.k) ((v + 1) * g.k)) (slV s.mean (v * g.k) ((v + 1) * g.k)) (st.1 v) s.n b),
          setSlice st.2 (v * g.k) ((v + 1) * g.k) (v * g.k) ((v + 1) * g.k)
            (inv (Src.covNew (sl X 0 X.r (v * g.k) ((v + 1) * g.k)) (slV s.mean (v * g.k) ((v + 1) * g.k)) (st.1 v) s.n b) nc)) := by
      funext st v; simp [Src.denseDiagStep, src_incCov_some]
    rw [hstep, foldlM_range_update (fun S v => Src.covNew (sl X 0 X.r (v * g.k) ((v + 1) * g.k))
      (slV s.mean (v * g.k) ((v + 1) * g.k)) S s.n b)
      (fun P v C => setSlice P (v * g.k) ((v + 1) * g.k) (v * g.k) ((v + 1) * g.k) (inv C nc))]
    have hnb : g.nBlocks = g.nv := by simp [GSpec.nBlocks, hd]
    have hcov : ∀ e, e < g.nv → Src.covNew (sl X 0 X.r (e * g.k) ((e + 1) * g.k)) (slV s.mean (e * g.k) ((e + 1) * g.k))
        (s.covs e) s.n b = ⟨g.blockDim, g.blockDim, (gmrfInc b (srcFeat g) t B).cov e⟩ := by
      intro e he
      have := covNew_block g b e (by rw [hnb]; exact he) hX s t hs
      simpa [hd] using this
    refine ⟨_, rfl, ⟨?_, ?_, ?_⟩, ?_⟩
    · simp [gmrfInc, hs.n, hX.1]
    · simp only [gmrfInc]; rw [src_incMean_eq hX, hs.mean, hs.n]
    · intro e he
      rw [hnb] at he
      simp only [graphOf, NP.Graph.nVertices, he, if_true]
      exact hcov e he
    · simp only [graphOf, NP.Graph.nVertices]
      rw [foldl_f _ (fun P v => setBlock P (v * g.k) (v * g.k) g.k
        (inv (Src.covNew (sl X 0 X.r (v * g.k) ((v + 1) * g.k)) (slV s.mean (v * g.k) ((v + 1) * g.k)) (s.covs v) s.n b) nc).f 0 0)
        (fun P v => storeDiag_f g.k P v _)]
      simp only [precision, precisionOf, hd, if_true]
      apply foldl_congr_range
      intro P e he
      rw [hcov e he]; rfl
  · have hd' : g.diagonal = false := by simpa using hd
    have hmode : (modeStr g.mode == "concatenation" || modeStr g.mode == "subtraction") = true := by
      cases g.mode <;> decide
    simp only [hd', Bool.false_eq_true, if_false, Src.incDense, hmode, if_true]
    have hstep : Src.denseStep (modeStr g.mode) inv X s.mean (s.n : Rat) (graphOf g) g.k nc (biasN b) = fun st e =>
        some (setItem st.1 e (Src.covNew (Src.edgeData (modeStr g.mode) g.k X (g.edges.getD e (0, 0)).1 (g.edges.getD e (0, 0)).2)
            (Src.edgeMean (modeStr g.mode) g.k s.mean (g.edges.getD e (0, 0)).1 (g.edges.getD e (0, 0)).2) (st.1 e) s.n b),
          Src.storeDense (modeStr g.mode) g.k st.2 (g.edges.getD e (0, 0)).1 (g.edges.getD e (0, 0)).2
            (inv (Src.covNew (Src.edgeData (modeStr g.mode) g.k X (g.edges.getD e (0, 0)).1 (g.edges.getD e (0, 0)).2)
              (Src.edgeMean (modeStr g.mode) g.k s.mean (g.edges.getD e (0, 0)).1 (g.edges.getD e (0, 0)).2) (st.1 e) s.n b) nc)) := by
      funext st e; simp [Src.denseStep, src_incCov_some, graphOf, NP.Graph.edge]
    rw [hstep, foldlM_range_update (fun S e => Src.covNew
        (Src.edgeData (modeStr g.mode) g.k X (g.edges.getD e (0, 0)).1 (g.edges.getD e (0, 0)).2)
        (Src.edgeMean (modeStr g.mode) g.k s.mean (g.edges.getD e (0, 0)).1 (g.edges.getD e (0, 0)).2) S s.n b)
      (fun P e C => Src.storeDense (modeStr g.mode) g.k P (g.edges.getD e (0, 0)).1 (g.edges.getD e (0, 0)).2 (inv C nc))]
    have hnb : g.nBlocks = g.edges.length := by simp [GSpec.nBlocks, hd']
    have hcov : ∀ e, e < g.edges.length → Src.covNew
        (Src.edgeData (modeStr g.mode) g.k X (g.edges.getD e (0, 0)).1 (g.edges.getD e (0, 0)).2)
        (Src.edgeMean (modeStr g.mode) g.k s.mean (g.edges.getD e (0, 0)).1 (g.edges.getD e (0, 0)).2) (s.covs e) s.n b
          = ⟨g.blockDim, g.blockDim, (gmrfInc b (srcFeat g) t B).cov e⟩ := by
      intro e he
      have := covNew_block g b e (by rw [hnb]; exact he) hX s t hs
      simpa [hd'] using this
    refine ⟨_, rfl, ⟨?_, ?_, ?_⟩, ?_⟩
    · simp [gmrfInc, hs.n, hX.1]
    · simp only [gmrfInc]; rw [src_incMean_eq hX, hs.mean, hs.n]
    · intro e he
      rw [hnb] at he
      simp only [graphOf, NP.Graph.nEdges, he, if_true]
      exact hcov e he
    · simp only [graphOf, NP.Graph.nEdges]
      rw [foldl_f _ (fun P e => storeEdge g.mode g.k P (g.edges.getD e (0, 0)).1 (g.edges.getD e (0, 0)).2
        (inv (Src.covNew (Src.edgeData (modeStr g.mode) g.k X (g.edges.getD e (0, 0)).1 (g.edges.getD e (0, 0)).2)
          (Src.edgeMean (modeStr g.mode) g.k s.mean (g.edges.getD e (0, 0)).1 (g.edges.getD e (0, 0)).2) (s.covs e) s.n b) nc).f)
        (fun P e => storeDense_f g.mode g.k P _ _ _)]
      simp only [precision, precisionOf, hd', Bool.false_eq_true, if_false]
      apply foldl_congr_range
      intro P e he
      rw [hcov e he]; rfl


/-- PROPERTY (translated `GMRFVectorModel._increment`, block-sparse storage): the same statistics; the stored matrix is
`bsr_matrix` of the triplets the loop emitted, sorted by block row (`Src.assemble`) -/
theorem src_incrementInner_sparse (inv : M → Option Nat → M) (g : GSpec) (b : Bool) (nf : Nat) (nc : Option Nat)
    (s : NP.GState) (t : GState) {X : M} {B : Data} (hX : DataRepr X B) (hs : StateRel g s t) :
    ∃ s', Src.incrementInner inv (graphOf g) true (modeStr g.mode) nf g.k nc (biasN b) s X = some s' ∧
      StateRel g s' (gmrfInc b (srcFeat g) t B) := by
  unfold Src.incrementInner Src.builder
  rw [nEdges_zero_iff]
  by_cases hd : g.diagonal = true
  · simp only [hd, if_true, Src.incSparseDiag]
    have hstep : Src.sparseDiagStep inv X s.mean (s.n : Rat) g.k nc (biasN b) = fun st v =>
        some (setItem st.1 v (Src.covNew (sl X 0 X.r (v * g.k) ((v + 1) * g.k)) (slV s.mean (v * g.k) ((v + 1) * g.k)) (st.1 v) s.n b),
          (fun (tr : B3 × V × V) (v : Nat) (C : M) => ((setItem tr.1 v (inv C nc), setItem tr.2.1 v v, setItem tr.2.2 v v) : B3 × V × V))
            st.2 v (Src.covNew (sl X 0 X.r (v * g.k) ((v + 1) * g.k)) (slV s.mean (v * g.k) ((v + 1) * g.k)) (st.1 v) s.n b)) := by
      funext st v; simp [Src.sparseDiagStep, src_incCov_some]
    rw [hstep, foldlM_range_update (fun S v => Src.covNew (sl X 0 X.r (v * g.k) ((v + 1) * g.k))
      (slV s.mean (v * g.k) ((v + 1) * g.k)) S s.n b)
      (fun (tr : B3 × V × V) (v : Nat) (C : M) => ((setItem tr.1 v (inv C nc), setItem tr.2.1 v v, setItem tr.2.2 v v) : B3 × V × V))]
    have hnb : g.nBlocks = g.nv := by simp [GSpec.nBlocks, hd]
    refine ⟨_, rfl, ⟨?_, ?_, ?_⟩⟩
    · simp [gmrfInc, hs.n, hX.1]
    · simp only [gmrfInc]; rw [src_incMean_eq hX, hs.mean, hs.n]
    · intro e he
      rw [hnb] at he
      simp only [graphOf, NP.Graph.nVertices, he, if_true]
      have := covNew_block g b e (by rw [hnb]; exact he) hX s t hs
      simpa [hd] using this
  · have hd' : g.diagonal = false := by simpa using hd
    have hmode : (modeStr g.mode == "concatenation" || modeStr g.mode == "subtraction") = true := by
      cases g.mode <;> decide
    simp only [hd', Bool.false_eq_true, if_false, if_true, Src.incSparse, hmode]
    have hstep : Src.sparseStep (modeStr g.mode) inv X s.mean (s.n : Rat) (graphOf g) g.k nc (biasN b) = fun st e =>
        some (setItem st.1 e (Src.covNew (Src.edgeData (modeStr g.mode) g.k X (g.edges.getD e (0, 0)).1 (g.edges.getD e (0, 0)).2)
            (Src.edgeMean (modeStr g.mode) g.k s.mean (g.edges.getD e (0, 0)).1 (g.edges.getD e (0, 0)).2) (st.1 e) s.n b),
          Src.storeSparse (modeStr g.mode) g.k st.2 (g.edges.getD e (0, 0)).1 (g.edges.getD e (0, 0)).2
            (inv (Src.covNew (Src.edgeData (modeStr g.mode) g.k X (g.edges.getD e (0, 0)).1 (g.edges.getD e (0, 0)).2)
              (Src.edgeMean (modeStr g.mode) g.k s.mean (g.edges.getD e (0, 0)).1 (g.edges.getD e (0, 0)).2) (st.1 e) s.n b) nc)) := by
      funext st e; simp [Src.sparseStep, src_incCov_some, graphOf, NP.Graph.edge]
    rw [hstep, foldlM_range_update (fun S e => Src.covNew
        (Src.edgeData (modeStr g.mode) g.k X (g.edges.getD e (0, 0)).1 (g.edges.getD e (0, 0)).2)
        (Src.edgeMean (modeStr g.mode) g.k s.mean (g.edges.getD e (0, 0)).1 (g.edges.getD e (0, 0)).2) S s.n b)
      (fun tr e C => Src.storeSparse (modeStr g.mode) g.k tr (g.edges.getD e (0, 0)).1 (g.edges.getD e (0, 0)).2 (inv C nc))]
    have hnb : g.nBlocks = g.edges.length := by simp [GSpec.nBlocks, hd']
    refine ⟨_, rfl, ⟨?_, ?_, ?_⟩⟩
    · simp [gmrfInc, hs.n, hX.1]
    · simp only [gmrfInc]; rw [src_incMean_eq hX, hs.mean, hs.n]
    · intro e he
      rw [hnb] at he
      simp only [graphOf, NP.Graph.nEdges, he, if_true]
      have := covNew_block g b e (by rw [hnb]; exact he) hX s t hs
      simpa [hd'] using this

end MenpoModel.C11
