/-
C17 — lemmas on edge multiplicities, the toggle dictionary of the original
`boundary_tri_index`, the repaired counting version and `unique_edge_indices` (core Lean only).
-/
import MenpoModel.Lemmas.C17Mask

namespace MenpoModel.C17

/-! ### unique edges -/

theorem mem_dedup (l : List Edge) (e : Edge) : e ∈ dedup l ↔ e ∈ l := by
  induction l with
  | nil => simp [dedup]
  | cons x xs ih =>
    simp only [dedup]
    split
    · rename_i h
      have hx : x ∈ xs := by simpa using h
      rw [ih, List.mem_cons]
      constructor
      · exact Or.inr
      · rintro (h | h)
        · subst h; exact hx
        · exact h
    · simp [ih]

theorem nodup_dedup (l : List Edge) : (dedup l).Nodup := by
  induction l with
  | nil => simp [dedup]
  | cons x xs ih =>
    simp only [dedup]
    split
    · exact ih
    · rename_i h
      have hx : x ∉ xs := by simpa using h
      exact List.nodup_cons.2 ⟨fun hm => hx ((mem_dedup xs x).1 hm), ih⟩

theorem sortEdge_le (e : Edge) : (sortEdge e).1 ≤ (sortEdge e).2 := by
  unfold sortEdge
  split
  · assumption
  · show e.2 ≤ e.1; omega

theorem sortEdge_idem (e : Edge) : sortEdge (sortEdge e) = sortEdge e := by
  have h := sortEdge_le e
  generalize sortEdge e = f at h ⊢
  simp [sortEdge, h]

theorem sortEdge_swap (a b : Nat) : sortEdge (a, b) = sortEdge (b, a) := by
  unfold sortEdge
  by_cases h1 : a ≤ b <;> by_cases h2 : b ≤ a <;> simp [h1, h2] <;> omega

/-! ### slots -/

theorem edgeSlots_map_fst (ts : List Tri) : (edgeSlots ts).map Prod.fst = sortedEdges ts := by
  have key : ∀ k, (ts.zipIdx k).flatMap (fun p => p.1.edges.map sortEdge)
      = ts.flatMap (fun t => t.edges.map sortEdge) := by
    induction ts with
    | nil => intro k; rfl
    | cons t ts ih => intro k; simp only [List.zipIdx_cons, List.flatMap_cons, ih (k+1)]
  unfold edgeSlots sortedEdges edgeIndices
  rw [List.map_flatMap, List.map_flatMap]
  simp only [List.map_map, Function.comp_def]
  exact key 0

/-- number of slots carrying key `e` -/
def cnt (e : Edge) (l : List (Edge × Nat)) : Nat := l.countP (fun y => y.1 == e)

theorem cnt_slots (ts : List Tri) (e : Edge) : cnt (sortEdge e) (edgeSlots ts) = mult ts e := by
  unfold cnt mult
  rw [← edgeSlots_map_fst, List.count_eq_countP, List.countP_map]
  rfl

theorem mem_edgeSlots (ts : List Tri) (e : Edge) (k : Nat) :
    (e, k) ∈ edgeSlots ts ↔ ∃ t, ts[k]? = some t ∧ ∃ e' ∈ t.edges, sortEdge e' = e := by
  unfold edgeSlots
  simp only [List.mem_flatMap, List.mem_map, Prod.mk.injEq]
  constructor
  · rintro ⟨⟨t, k'⟩, hp, e', he', h1, h2⟩
    simp only at h2 he' h1
    subst h2
    exact ⟨t, List.mem_zipIdx_iff_getElem?.1 hp, e', he', h1⟩
  · rintro ⟨t, ht, e', he', h1⟩
    exact ⟨(t, k), List.mem_zipIdx_iff_getElem?.2 ht, e', he', h1, rfl⟩

/-! ### the toggle dictionary -/

theorem toggle_key_iff (d : List (Edge × Nat)) (e : Edge) :
    d.any (fun y => y.1 == e) = true ↔ ∃ t, (e, t) ∈ d := by
  simp only [List.any_eq_true, beq_iff_eq]
  constructor
  · rintro ⟨⟨e', t⟩, hm, rfl⟩; exact ⟨t, hm⟩
  · rintro ⟨t, hm⟩; exact ⟨(e, t), hm, rfl⟩

theorem find_some_of_cnt_pos (e : Edge) (l : List (Edge × Nat)) (h : 0 < cnt e l) :
    ∃ t, l.find? (fun y => y.1 == e) = some (e, t) := by
  induction l with
  | nil => simp [cnt] at h
  | cons x xs ih =>
    by_cases hx : x.1 = e
    · obtain ⟨e', t'⟩ := x
      simp only at hx
      subst hx
      exact ⟨t', by simp⟩
    · have hb : (x.1 == e) = false := by simpa using hx
      have : 0 < cnt e xs := by simpa [cnt, List.countP_cons, hb] using h
      obtain ⟨t, ht⟩ := ih this
      exact ⟨t, by simp [hb, ht]⟩

/-- CHARACTERISATION of the dictionary kept by the original loop (slots newest first): key `e`
is present iff it was seen an odd number of times, and then it holds the triangle of its most
recent slot. -/
theorem toggle_char (l : List (Edge × Nat)) (e : Edge) (t : Nat) :
    (e, t) ∈ toggleAll l ↔ cnt e l % 2 = 1 ∧ l.find? (fun y => y.1 == e) = some (e, t) := by
  induction l generalizing e t with
  | nil => simp [toggleAll, cnt]
  | cons x older ih =>
    obtain ⟨e0, t0⟩ := x
    have hkey : (toggleAll older).any (fun y => y.1 == e0) = true ↔ cnt e0 older % 2 = 1 := by
      rw [toggle_key_iff]
      constructor
      · rintro ⟨t', ht'⟩; exact ((ih e0 t').1 ht').1
      · intro hodd
        obtain ⟨t', ht'⟩ := find_some_of_cnt_pos e0 older (by omega)
        exact ⟨t', (ih e0 t').2 ⟨hodd, ht'⟩⟩
    simp only [toggleAll, toggleStep]
    by_cases he : e0 = e
    · subst he
      have hb : ((e0, t0).1 == e0) = true := by simp
      simp only [cnt, List.countP_cons, hb, if_true, List.find?_cons]
      split
      · rename_i hin
        have hodd := hkey.1 hin
        simp only [cnt] at hodd
        simp only [List.mem_filter]
        constructor
        · rintro ⟨_, h2⟩; simp at h2
        · rintro ⟨h1, _⟩; omega
      · rename_i hin
        have heven : ¬ cnt e0 older % 2 = 1 := fun h => hin (hkey.2 h)
        simp only [cnt] at heven
        simp only [List.mem_append, List.mem_singleton, Prod.mk.injEq, true_and, Option.some.injEq]
        constructor
        · rintro (h | h)
          · exact absurd ((ih e0 t).1 h).1 (by simpa [cnt] using heven)
          · exact ⟨by omega, h.symm⟩
        · rintro ⟨_, h⟩; exact Or.inr h.symm
    · have hb : ((e0, t0).1 == e) = false := by simpa using he
      have hne : ¬ e = e0 := fun h => he h.symm
      simp only [cnt, List.countP_cons, hb, List.find?_cons, Bool.false_eq_true, if_false, Nat.add_zero]
      split
      · simp only [List.mem_filter]
        rw [ih e t]
        simp [cnt, hne]
      · simp only [List.mem_append, List.mem_singleton, Prod.mk.injEq]
        rw [ih e t]
        simp [cnt, hne]

/-- a key seen exactly once: every slot carrying it is the one found -/
theorem unique_of_cnt_one (e : Edge) (l : List (Edge × Nat)) (h : cnt e l = 1)
    (t t' : Nat) (hm : (e, t) ∈ l) (hf : l.find? (fun y => y.1 == e) = some (e, t')) : t = t' := by
  induction l with
  | nil => cases hm
  | cons x xs ih =>
    by_cases hx : x.1 = e
    · have hb : (x.1 == e) = true := by simpa using hx
      simp only [List.find?_cons, hb, Option.some.injEq] at hf
      have h0 : cnt e xs = 0 := by simpa [cnt, List.countP_cons, hb] using h
      rcases List.mem_cons.1 hm with h1 | h1
      · rw [← h1] at hf; simpa using hf
      · exfalso
        have : 0 < cnt e xs := by
          unfold cnt
          exact List.countP_pos_iff.2 ⟨(e, t), h1, by simp⟩
        omega
    · have hb : (x.1 == e) = false := by simpa using hx
      simp only [List.find?_cons, hb] at hf
      have h1 : cnt e xs = 1 := by simpa [cnt, List.countP_cons, hb] using h
      rcases List.mem_cons.1 hm with h2 | h2
      · exact absurd (by rw [← h2]) hx
      · exact ih h1 h2 hf

/-! ### the original `boundary_tri_index` -/

theorem codedDict_mem (ts : List Tri) (e : Edge) (k : Nat) :
    (e, k) ∈ codedDict ts ↔ cnt e (edgeSlots ts) % 2 = 1 ∧
      (edgeSlots ts).reverse.find? (fun y => y.1 == e) = some (e, k) := by
  unfold codedDict
  rw [toggle_char]
  simp [cnt, List.countP_reverse]

theorem cnt_pos_sorted (ts : List Tri) (e : Edge) (h : 0 < cnt e (edgeSlots ts)) : sortEdge e = e := by
  unfold cnt at h
  obtain ⟨⟨e', k⟩, hm, he⟩ := List.countP_pos_iff.1 h
  have he' : e' = e := by simpa using he
  subst he'
  obtain ⟨t, _, e'', _, hs⟩ := (mem_edgeSlots ts e' k).1 hm
  rw [← hs, sortEdge_idem]

/-- the original code raises exactly when no edge is carried an odd number of times -/
theorem boundaryCoded_error_iff (ts : List Tri) :
    boundaryCoded ts = .error .index ↔ ∀ e, mult ts e % 2 = 0 := by
  unfold boundaryCoded
  constructor
  · intro h e
    cases hd : codedDict ts with
    | cons x xs => simp [hd] at h
    | nil =>
      rw [← cnt_slots]
      rcases Nat.mod_two_eq_zero_or_one (cnt (sortEdge e) (edgeSlots ts)) with h0 | h1
      · exact h0
      · exfalso
        have hpos : 0 < cnt (sortEdge e) (edgeSlots ts).reverse := by
          simp only [cnt, List.countP_reverse] at h1 ⊢; omega
        obtain ⟨t, ht⟩ := find_some_of_cnt_pos _ _ hpos
        have := (codedDict_mem ts (sortEdge e) t).2 ⟨h1, ht⟩
        rw [hd] at this; cases this
  · intro h
    cases hd : codedDict ts with
    | nil => simp
    | cons x xs =>
      exfalso
      obtain ⟨e, k⟩ := x
      have hm : (e, k) ∈ codedDict ts := by rw [hd]; exact List.mem_cons_self
      have hodd := ((codedDict_mem ts e k).1 hm).1
      have hs := cnt_pos_sorted ts e (by omega)
      have := h e
      rw [← cnt_slots, hs] at this
      omega

/-- on a mesh whose edges are shared by at most two triangles: which triangles the original
dictionary ends up holding -/
theorem codedDict_manifold (ts : List Tri) (h2 : ∀ e, mult ts e ≤ 2) (k : Nat) :
    (∃ e, (e, k) ∈ codedDict ts) ↔ ∃ t, ts[k]? = some t ∧ ∃ e' ∈ t.edges, mult ts e' = 1 := by
  constructor
  · rintro ⟨e, hm⟩
    obtain ⟨hodd, hf⟩ := (codedDict_mem ts e k).1 hm
    have hmem : (e, k) ∈ edgeSlots ts := List.mem_reverse.1 (List.mem_of_find?_eq_some hf)
    obtain ⟨t, ht, e', he', hs⟩ := (mem_edgeSlots ts e k).1 hmem
    refine ⟨t, ht, e', he', ?_⟩
    have := h2 e'
    rw [← cnt_slots, hs] at this ⊢
    omega
  · rintro ⟨t, ht, e', he', h1⟩
    refine ⟨sortEdge e', ?_⟩
    rw [← cnt_slots] at h1
    have hmem : (sortEdge e', k) ∈ (edgeSlots ts).reverse :=
      List.mem_reverse.2 ((mem_edgeSlots ts _ k).2 ⟨t, ht, e', he', rfl⟩)
    have h1r : cnt (sortEdge e') (edgeSlots ts).reverse = 1 := by
      simpa [cnt, List.countP_reverse] using h1
    obtain ⟨k', hk'⟩ := find_some_of_cnt_pos (sortEdge e') (edgeSlots ts).reverse (by omega)
    have := unique_of_cnt_one _ _ h1r k k' hmem hk'
    subst this
    exact (codedDict_mem ts _ k).2 ⟨by omega, hk'⟩

theorem any_snd_iff (d : List (Edge × Nat)) (k : Nat) :
    d.any (fun y => y.2 == k) = true ↔ ∃ e, (e, k) ∈ d := by
  simp only [List.any_eq_true, beq_iff_eq]
  constructor
  · rintro ⟨⟨e, k'⟩, hm, rfl⟩; exact ⟨e, hm⟩
  · rintro ⟨e, hm⟩; exact ⟨(e, k), hm, rfl⟩

theorem spec_get (ts : List Tri) (k : Nat) (t : Tri) (ht : ts[k]? = some t) :
    (t.edges.any (fun e => mult ts e == 1)) = true ↔ ∃ t', ts[k]? = some t' ∧ ∃ e' ∈ t'.edges, mult ts e' = 1 := by
  simp only [List.any_eq_true, beq_iff_eq]
  constructor
  · rintro ⟨e, he, h1⟩; exact ⟨t, ht, e, he, h1⟩
  · rintro ⟨t', ht', e, he, h1⟩
    rw [ht] at ht'; cases ht'
    exact ⟨e, he, h1⟩

/-- AGREEMENT on manifold meshes with a boundary: original code = specification -/
theorem boundaryCoded_manifold (ts : List Tri) (h2 : ∀ e, mult ts e ≤ 2)
    (h1 : ∃ e ∈ edgeIndices ts, mult ts e = 1) : boundaryCoded ts = .ok (boundarySpec ts) := by
  have hne : (codedDict ts).isEmpty = false := by
    obtain ⟨e, he, hm⟩ := h1
    unfold edgeIndices at he
    obtain ⟨t, ht, het⟩ := List.mem_flatMap.1 he
    obtain ⟨k, hk, hkt⟩ := List.mem_iff_getElem.1 ht
    have hk' : ts[k]? = some t := by rw [List.getElem?_eq_getElem hk, hkt]
    obtain ⟨e0, hmem⟩ := (codedDict_manifold ts h2 k).2 ⟨t, hk', e, het, hm⟩
    cases hd : codedDict ts with
    | nil => rw [hd] at hmem; cases hmem
    | cons _ _ => rfl
  unfold boundaryCoded
  simp only [hne, Bool.false_eq_true, if_false]
  congr 1
  apply List.ext_getElem
  · simp [boundarySpec]
  · intro i h1 h2'
    have hi : i < ts.length := by simpa using h1
    simp only [List.getElem_map, List.getElem_range, boundarySpec]
    rw [Bool.eq_iff_iff, any_snd_iff, codedDict_manifold ts h2 i,
      spec_get ts i ts[i] (List.getElem?_eq_getElem hi)]

/-! ### the repaired `boundary_tri_index` -/

theorem key_inj (n : Nat) (a b c d : Nat) (hb : b < n) (hd : d < n) (h : a * n + b = c * n + d) :
    a = c ∧ b = d := by
  rcases Nat.lt_trichotomy a c with hac | hac | hac
  · exfalso
    have : (a + 1) * n ≤ c * n := Nat.mul_le_mul_right n hac
    rw [Nat.add_mul] at this
    omega
  · subst hac; omega
  · exfalso
    have : (c + 1) * n ≤ a * n := Nat.mul_le_mul_right n hac
    rw [Nat.add_mul] at this
    omega

theorem count_map_inj_on {α β} [BEq α] [LawfulBEq α] [BEq β] [LawfulBEq β] (f : α → β) (a : α)
    (l : List α) (h : ∀ b ∈ l, f b = f a → b = a) : (l.map f).count (f a) = l.count a := by
  induction l with
  | nil => simp
  | cons x xs ih =>
    have ih' := ih (fun b hb => h b (List.mem_cons_of_mem _ hb))
    by_cases hx : x = a
    · subst hx; simp [ih']
    · have : ¬ f x = f a := fun hf => hx (h x List.mem_cons_self hf)
      simp [ih', hx, this]

theorem sortedEdges_lt (n : Nat) (ts : List Tri) (hwf : WF n ts) (e : Edge) (he : e ∈ sortedEdges ts) :
    e.1 < n ∧ e.2 < n := by
  unfold sortedEdges edgeIndices at he
  obtain ⟨e', he', rfl⟩ := List.mem_map.1 he
  obtain ⟨t, ht, het⟩ := List.mem_flatMap.1 he'
  have hv := hwf t ht
  simp only [Tri.verts, List.mem_cons, List.not_mem_nil, or_false] at hv
  simp only [Tri.edges, List.mem_cons, List.not_mem_nil, or_false] at het
  have h1 := hv t.1 (Or.inl rfl)
  have h2 := hv t.2.1 (Or.inr (Or.inl rfl))
  have h3 := hv t.2.2 (Or.inr (Or.inr rfl))
  unfold sortEdge
  rcases het with h | h | h <;> subst h <;> split <;> simp <;> omega

/-- REPAIRED code = specification on every well-formed mesh (closed and non-manifold included) -/
theorem boundaryCount_eq_spec (n : Nat) (ts : List Tri) (hwf : WF n ts) :
    boundaryCount n ts = boundarySpec ts := by
  unfold boundaryCount boundarySpec
  apply List.map_congr_left
  intro t ht
  have hkeys : (edgeIndices ts).map (edgeKey n)
      = (sortedEdges ts).map (fun e => e.1 * n + e.2) := by
    simp [sortedEdges, List.map_map, Function.comp_def, edgeKey]
  rw [hkeys]
  have hcnt : ∀ e ∈ t.edges, ((sortedEdges ts).map (fun e => e.1 * n + e.2)).count (edgeKey n e)
      = mult ts e := by
    intro e he
    unfold mult
    have hmem : sortEdge e ∈ sortedEdges ts := by
      unfold sortedEdges edgeIndices
      exact List.mem_map.2 ⟨e, List.mem_flatMap.2 ⟨t, ht, he⟩, rfl⟩
    have hlt := sortedEdges_lt n ts hwf _ hmem
    show ((sortedEdges ts).map (fun e => e.1 * n + e.2)).count
        ((fun e : Edge => e.1 * n + e.2) (sortEdge e)) = _
    refine count_map_inj_on (fun e : Edge => e.1 * n + e.2) (sortEdge e) (sortedEdges ts) ?_
    intro b hb hf
    have hbl := sortedEdges_lt n ts hwf b hb
    obtain ⟨h1, h2⟩ := key_inj n b.1 b.2 (sortEdge e).1 (sortEdge e).2 hbl.2 hlt.2 hf
    exact Prod.ext h1 h2
  rw [Bool.eq_iff_iff]
  simp only [List.any_eq_true, beq_iff_eq]
  constructor
  · rintro ⟨e, he, h⟩; exact ⟨e, he, by rw [← hcnt e he]; exact h⟩
  · rintro ⟨e, he, h⟩; exact ⟨e, he, by rw [hcnt e he]; exact h⟩

end MenpoModel.C17
