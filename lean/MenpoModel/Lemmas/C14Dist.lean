/-
C14 — the reference distances (`Graph.dist`, Bellman–Ford with `n` rounds) are sound and optimal.
Core Lean only.
-/
import MenpoModel.Lemmas.C14Basic

namespace MenpoModel.C14
open Graph

/-- `a ≤ b` on distances, `none` = unreachable = +∞ -/
def ole (a b : Option Nat) : Prop := ∀ y, b = some y → ∃ x, a = some x ∧ x ≤ y

theorem ole_refl (a : Option Nat) : ole a a := fun y h => ⟨y, h, Nat.le_refl _⟩

theorem ole_trans {a b c : Option Nat} (h1 : ole a b) (h2 : ole b c) : ole a c := by
  intro z hz
  obtain ⟨y, hy, hyz⟩ := h2 z hz
  obtain ⟨x, hx, hxy⟩ := h1 y hy
  exact ⟨x, hx, Nat.le_trans hxy hyz⟩

theorem omin_le_left (a b : Option Nat) : ole (omin a b) a := by
  intro y hy; subst hy
  cases b with
  | none => exact ⟨y, rfl, Nat.le_refl _⟩
  | some b => exact ⟨min y b, rfl, Nat.min_le_left _ _⟩

theorem omin_le_right (a b : Option Nat) : ole (omin a b) b := by
  intro y hy; subst hy
  cases a with
  | none => exact ⟨y, rfl, Nat.le_refl _⟩
  | some a => exact ⟨min a y, rfl, Nat.min_le_right _ _⟩

theorem omin_eq (a b : Option Nat) : omin a b = a ∨ omin a b = b := by
  cases a with
  | none => right; rfl
  | some a =>
    cases b with
    | none => left; rfl
    | some b =>
      simp only [omin]
      rcases Nat.le_total a b with h | h
      · left; simp [Nat.min_eq_left h]
      · right; simp [Nat.min_eq_right h]

theorem foldl_omin_le_init {α} (c : α → Option Nat) (l : List α) (a : Option Nat) :
    ole (l.foldl (fun acc u => omin acc (c u)) a) a := by
  induction l generalizing a with
  | nil => exact ole_refl a
  | cons u t ih => exact ole_trans (ih (omin a (c u))) (omin_le_left _ _)

theorem foldl_omin_le_mem {α} (c : α → Option Nat) (l : List α) (a : Option Nat) (u : α) (hu : u ∈ l) :
    ole (l.foldl (fun acc u => omin acc (c u)) a) (c u) := by
  induction l generalizing a with
  | nil => cases hu
  | cons w t ih =>
    rcases List.mem_cons.1 hu with h | h
    · subst h
      exact ole_trans (foldl_omin_le_init c t _) (omin_le_right _ _)
    · exact ih _ h

theorem foldl_omin_achieved {α} (c : α → Option Nat) (l : List α) (a : Option Nat) :
    l.foldl (fun acc u => omin acc (c u)) a = a ∨ ∃ u, u ∈ l ∧ l.foldl (fun acc u => omin acc (c u)) a = c u := by
  induction l generalizing a with
  | nil => left; rfl
  | cons w t ih =>
    rcases ih (omin a (c w)) with h | ⟨u, hu, h⟩
    · rcases omin_eq a (c w) with h' | h'
      · left; simp only [List.foldl_cons]; rw [h, h']
      · right; exact ⟨w, by simp, by simp only [List.foldl_cons]; rw [h, h']⟩
    · right; exact ⟨u, by simp [hu], by simpa using h⟩

/-! ### routes -/

theorem routeWeight_concat (g : Graph) (r : List Nat) (u v : Nat) (h : r.getLast? = some u) :
    g.routeWeight (r ++ [v]) = if g.w u v != 0 then (g.routeWeight r).map (· + g.w u v) else none := by
  induction r with
  | nil => simp at h
  | cons a t ih =>
    cases t with
    | nil =>
      simp only [List.getLast?_singleton, Option.some.injEq] at h
      subst h
      simp [Graph.routeWeight]
    | cons b rest =>
      have ih' := ih (by simpa [List.getLast?_cons_cons] using h)
      simp only [List.cons_append, Graph.routeWeight] at ih' ⊢
      rw [ih']
      by_cases hab : g.w a b != 0 <;> by_cases huv : g.w u v != 0 <;> simp [hab, huv]
      cases g.routeWeight (b :: rest) <;> simp
      omega

theorem getD_range_map (n : Nat) (f : Nat → Option Nat) (v : Nat) :
    ((List.range n).map f).getD v none = if v < n then f v else none := by
  rw [List.getD_eq_getElem?_getD]
  by_cases h : v < n <;> simp [h]

theorem relax_getD (g : Graph) (d : List (Option Nat)) (v : Nat) :
    (relax g d).getD v none = if v < g.n then relaxAt g d v else none :=
  getD_range_map _ _ _

theorem bfInit_getD (n s v : Nat) : (bfInit n s).getD v none = if v < n then (if v = s then some 0 else none) else none :=
  getD_range_map _ _ _

/-! ### soundness -/

def RouteTo (g : Graph) (s v x : Nat) : Prop :=
  ∃ route, route.head? = some s ∧ route.getLast? = some v ∧ g.routeWeight route = some x

def Sound (g : Graph) (s : Nat) (d : List (Option Nat)) : Prop :=
  ∀ v x, d.getD v none = some x → RouteTo g s v x

theorem cand_some (g : Graph) (d : List (Option Nat)) (v u x : Nat) (h : cand g d v u = some x) :
    ∃ du, d.getD u none = some du ∧ g.w u v ≠ 0 ∧ x = du + g.w u v := by
  unfold cand at h
  cases hd : d.getD u none with
  | none => rw [hd] at h; cases h
  | some du =>
    rw [hd] at h
    by_cases hw : g.w u v != 0
    · simp only [hw, if_true, Option.some.injEq] at h
      exact ⟨du, rfl, by simpa using hw, h.symm⟩
    · simp [hw] at h

theorem sound_relax (g : Graph) (s : Nat) (d : List (Option Nat)) (h : Sound g s d) : Sound g s (relax g d) := by
  intro v x hx
  rw [relax_getD] at hx
  by_cases hv : v < g.n
  · simp only [hv, if_true] at hx
    rcases foldl_omin_achieved (cand g d v) (List.range g.n) (d.getD v none) with h0 | ⟨u, _, hu⟩
    · exact h v x (by rw [← h0]; exact hx)
    · have hc : cand g d v u = some x := by rw [← hu]; exact hx
      obtain ⟨du, hdu, hw, rfl⟩ := cand_some g d v u x hc
      obtain ⟨route, h1, h2, h3⟩ := h u du hdu
      refine ⟨route ++ [v], ?_, by simp, ?_⟩
      · cases route with
        | nil => simp at h1
        | cons a t => simpa using h1
      · rw [routeWeight_concat g route u v h2, h3]
        simp [hw]
  · simp [hv] at hx

theorem sound_init (g : Graph) (s : Nat) : Sound g s (bfInit g.n s) := by
  intro v x hx
  rw [bfInit_getD] at hx
  by_cases hv : v < g.n
  · by_cases hvs : v = s
    · subst hvs
      simp only [hv, if_true, Option.some.injEq] at hx
      subst hx
      exact ⟨[v], rfl, rfl, rfl⟩
    · simp [hv, hvs] at hx
  · simp [hv] at hx

theorem sound_iter (g : Graph) (s k : Nat) (d : List (Option Nat)) (h : Sound g s d) : Sound g s (bfIter g k d) := by
  induction k generalizing d with
  | zero => exact h
  | succ k ih => exact ih _ (sound_relax g s d h)

theorem dist_sound (g : Graph) (s : Nat) (_hs : s < g.n) (v x : Nat) (h : (g.dist s).getD v none = some x) :
    ∃ route, route.head? = some s ∧ route.getLast? = some v ∧ g.routeWeight route = some x :=
  sound_iter g s g.n _ (sound_init g s) v x h

/-! ### optimality -/

/-- `d` is at least as good as every route with at most `k` edges -/
def OptUpTo (g : Graph) (s k : Nat) (d : List (Option Nat)) : Prop :=
  ∀ route v x, route.head? = some s → route.getLast? = some v → (∀ y ∈ route, y < g.n) →
    route.length ≤ k + 1 → g.routeWeight route = some x → ole (d.getD v none) (some x)

theorem relax_le (g : Graph) (d : List (Option Nat)) (v : Nat) (hv : v < g.n) :
    ole ((relax g d).getD v none) (d.getD v none) := by
  rw [relax_getD]; simp only [hv, if_true]
  exact foldl_omin_le_init _ _ _

theorem opt_init (g : Graph) (s : Nat) (hs : s < g.n) : OptUpTo g s 0 (bfInit g.n s) := by
  intro route v x h1 h2 _ hlen hw
  cases route with
  | nil => simp at h1
  | cons a t =>
    cases t with
    | cons b t' => simp at hlen
    | nil =>
      simp only [List.head?_cons, Option.some.injEq] at h1
      simp only [List.getLast?_singleton, Option.some.injEq] at h2
      subst h1; subst h2
      simp only [Graph.routeWeight, Option.some.injEq] at hw
      subst hw
      rw [bfInit_getD]; simp [hs]
      exact ole_refl _

theorem opt_relax (g : Graph) (s k : Nat) (d : List (Option Nat)) (h : OptUpTo g s k d) :
    OptUpTo g s (k + 1) (relax g d) := by
  intro route v x h1 h2 hin hlen hw
  have hvn : v < g.n := hin v (List.mem_of_getLast? h2)
  by_cases hshort : route.length ≤ k + 1
  · exact ole_trans (relax_le g d v hvn) (h route v x h1 h2 hin hshort hw)
  · -- split off the last edge
    have hne : route ≠ [] := by intro h0; subst h0; simp at h1
    have hlast : route.getLast hne = v := by
      have := List.getLast?_eq_some_getLast hne
      rw [this] at h2; simpa using h2
    have hsplit : route.dropLast ++ [v] = route := by
      rw [← hlast]; exact List.dropLast_concat_getLast hne
    have hdl : route.dropLast.length = route.length - 1 := List.length_dropLast
    have hne' : route.dropLast ≠ [] := by
      intro h0
      have : route.dropLast.length = 0 := by rw [h0]; rfl
      omega
    let u := route.dropLast.getLast hne'
    have hu : route.dropLast.getLast? = some u := List.getLast?_eq_some_getLast hne'
    have hun : u < g.n := hin u (List.dropLast_subset _ (List.getLast_mem hne'))
    rw [← hsplit, routeWeight_concat g route.dropLast u v hu] at hw
    by_cases hwuv : g.w u v != 0
    · simp only [hwuv, if_true] at hw
      cases hrw : g.routeWeight route.dropLast with
      | none => rw [hrw] at hw; cases hw
      | some x' =>
        rw [hrw] at hw
        simp only [Option.map_some, Option.some.injEq] at hw
        have hhead : route.dropLast.head? = some s := by
          cases hr : route with
          | nil => exact absurd hr hne
          | cons a t =>
            rw [hr] at h1 hne'
            cases t with
            | nil => simp at hne'
            | cons b t' => simpa using h1
        have hopt := h route.dropLast u x' hhead hu
          (fun y hy => hin y (List.dropLast_subset _ hy)) (by omega) hrw
        obtain ⟨du, hdu, hdule⟩ := hopt x' rfl
        have hc : cand g d v u = some (du + g.w u v) := by
          unfold cand; rw [hdu]; simp [hwuv]
        have hle := foldl_omin_le_mem (cand g d v) (List.range g.n) (d.getD v none) u (List.mem_range.2 hun)
        rw [hc] at hle
        rw [relax_getD]; simp only [hvn, if_true]
        refine ole_trans hle ?_
        intro y hy
        simp only [Option.some.injEq] at hy
        exact ⟨du + g.w u v, rfl, by omega⟩
    · simp [hwuv] at hw

theorem opt_iter (g : Graph) (s k j : Nat) (d : List (Option Nat)) (h : OptUpTo g s j d) :
    OptUpTo g s (j + k) (bfIter g k d) := by
  induction k generalizing d j with
  | zero => exact h
  | succ k ih =>
    have := ih (j + 1) (relax g d) (opt_relax g s j d h)
    simpa [bfIter, Nat.add_assoc, Nat.add_comm 1 k] using this

theorem dist_optimal (g : Graph) (s : Nat) (route : List Nat) (v x : Nat)
    (h1 : route.head? = some s) (h2 : route.getLast? = some v) (hin : ∀ y ∈ route, y < g.n)
    (hnd : route.Nodup) (hw : g.routeWeight route = some x) :
    ∃ y, (g.dist s).getD v none = some y ∧ y ≤ x := by
  have hs : s < g.n := hin s (by
    cases route with
    | nil => simp at h1
    | cons a t => simp at h1; subst h1; simp)
  have hlen : route.length ≤ g.n := by
    have hsub : route ⊆ List.range g.n := fun y hy => List.mem_range.2 (hin y hy)
    simpa using List.Nodup.length_le_of_subset hnd hsub
  have := opt_iter g s g.n 0 _ (opt_init g s hs) route v x h1 h2 hin (by omega) hw
  exact this x rfl

theorem dist_self (g : Graph) (s : Nat) (hs : s < g.n) : (g.dist s).getD s none = some 0 := by
  obtain ⟨y, hy, hle⟩ := dist_optimal g s [s] s 0 rfl rfl (by simpa using hs) (by simp) rfl
  rw [hy]; congr; omega

end MenpoModel.C14
