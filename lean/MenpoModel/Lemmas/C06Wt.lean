/-
C06: `copy()` preserves conformance to the attribute-kind table.  Every object cell that a copy
allocates is the copy of an object cell of the source heap, with the same class, the same
attribute names and, attribute by attribute, the same runtime kind; so a heap that conforms to the
table (`wtHeap`) still conforms after any number of copies (copies of copies included) and the
hypothesis of `copy_independent` never has to be re-established.  Core Lean only.
-/
import MenpoModel.Lemmas.C06Copy

namespace MenpoModel.C06

/-! ### runtime kinds are a function of the unfolding to depth 2 -/

def elemOfTree : Tree → Elem
  | .imm _ => .imm
  | .buf _ => .buf
  | .node (.obj _) _ => .obj
  | _ => .other

def kindOfTree : Tree → Kind
  | .imm _ => .elem .imm
  | .buf _ => .elem .buf
  | .node (.obj _) _ => .elem .obj
  | .node .dict fs => .dictOf (joinElems (fs.map fun p => elemOfTree p.2))
  | .node .list fs => .listOf (joinElems (fs.map fun p => elemOfTree p.2))
  | _ => .elem .other

theorem elemOf_absF (h : Heap) (v : Val) (m : Nat) : elemOfTree (absF (m + 1) h v) = elemOf h v := by
  cases v with
  | imm t => simp [absF, elemOfTree, elemOf]
  | ref a =>
    simp only [absF, elemOf]
    cases hc : h[a]? with
    | none => rfl
    | some c =>
      cases c with
      | buf d => rfl
      | node k fs => cases k <;> rfl

theorem kindOf_absF (h : Heap) (v : Val) (m : Nat) : kindOfTree (absF (m + 2) h v) = kindOf h v := by
  cases v with
  | imm t => simp [absF, kindOfTree, kindOf]
  | ref a =>
    simp only [absF, kindOf]
    cases hc : h[a]? with
    | none => rfl
    | some c =>
      cases c with
      | buf d => rfl
      | node k fs =>
        cases k with
        | obj C => rfl
        | frozen => rfl
        | dict =>
          simp only [kindOfTree, List.map_map]
          congr 2
          apply List.map_congr_left
          intro p _
          exact elemOf_absF h p.2 m
        | list =>
          simp only [kindOfTree, List.map_map]
          congr 2
          apply List.map_congr_left
          intro p _
          exact elemOf_absF h p.2 m

theorem kindOf_ext {h h' : Heap} (hc : Closed h) (e : Ext h h') {v : Val} (hv : Valid h v) :
    kindOf h' v = kindOf h v := by
  rw [← kindOf_absF h' v 0, ← kindOf_absF h v 0, absF_ext hc e 2 v hv]

/-! ### the table check of an object cell depends only on (name, kind) of its slots -/

def kinded (h : Heap) (fs : Slots) : List (String × Kind) := fs.map fun p => (p.1, kindOf h p.2)

def wtSlots (tbl : AttrTable) (sup : SupplierTable) (C : String) (ks : List (String × Kind)) : Bool :=
  decide (ks.map (·.1)).Nodup &&
  (match specialSlot (resOf sup C) with
    | some x => (ks.lookup x).isSome
    | none => true) &&
  match tbl.lookup C with
  | none => false
  | some attrs => ks.all fun q =>
      match attrs.lookup q.1 with
      | none => false
      | some l => l.contains q.2

theorem kinded_lookup_isSome (h : Heap) (fs : Slots) (x : String) :
    ((kinded h fs).lookup x).isSome = (fs.lookup x).isSome := by
  induction fs with
  | nil => rfl
  | cons p t ih =>
    obtain ⟨y, w⟩ := p
    simp only [kinded, List.map_cons, List.lookup]
    split
    · rfl
    · exact ih

theorem wtCell_eq (tbl : AttrTable) (sup : SupplierTable) (h : Heap) (C : String) (fs : Slots) :
    wtCell tbl sup h (.node (.obj C) fs) = wtSlots tbl sup C (kinded h fs) := by
  simp only [wtCell, wtSlots]
  have hn : (kinded h fs).map (·.1) = slotNames fs := by
    simp [kinded, slotNames, List.map_map, Function.comp_def]
  rw [hn]
  congr 1
  · congr 1
    cases specialSlot (resOf sup C) with
    | none => rfl
    | some x => simp only [kinded_lookup_isSome]
  · cases tbl.lookup C with
    | none => rfl
    | some attrs =>
      simp only [kinded, List.all_map]
      rfl

theorem kinded_ext {h h' : Heap} (hc : Closed h) (e : Ext h h') {fs : Slots}
    (hv : ∀ x v, (x, v) ∈ fs → Valid h v) : kinded h' fs = kinded h fs := by
  simp only [kinded]
  apply List.map_congr_left
  intro p hp
  rw [kindOf_ext hc e (hv p.1 p.2 hp)]

/-! ### every new object cell is the copy of an old one, kind for kind -/

def NewOK (h0 h h' : Heap) : Prop :=
  ∀ (a' : Nat) (C : String) (fs' : Slots), h.length ≤ a' → h'[a']? = some (Cell.node (.obj C) fs') →
    ∃ (a : Nat) (fs : Slots), h0[a]? = some (Cell.node (.obj C) fs) ∧ kinded h' fs' = kinded h0 fs

theorem NewOK.refl (h0 h : Heap) : NewOK h0 h h := by
  intro a' C fs' hge hc
  exact absurd (get_lt hc) (by omega)

theorem NewOK.trans {h0 h h1 h2 : Heap} (c1 : Closed h1) (e12 : Ext h1 h2)
    (n1 : NewOK h0 h h1) (n2 : NewOK h0 h1 h2) : NewOK h0 h h2 := by
  intro a' C fs' hge hc
  rcases Nat.lt_or_ge a' h1.length with hlt | hge1
  · rw [e12.get hlt] at hc
    obtain ⟨a, fs, h0c, hk⟩ := n1 a' C fs' hge hc
    refine ⟨a, fs, h0c, ?_⟩
    rw [kinded_ext c1 e12 (fun x v m => c1.slot_valid hc m)]
    exact hk
  · exact n2 a' C fs' hge1 hc

/-- appending a cell that is not an object -/
theorem NewOK.snoc_other {h0 h hN : Heap} (cN : Closed hN) (n : NewOK h0 h hN) (c : Cell)
    (hno : ∀ C fs, c ≠ .node (.obj C) fs) : NewOK h0 h (hN ++ [c]) := by
  apply NewOK.trans cN (Ext.append _ _) n
  intro a' C fs' hge hc
  have hl := get_lt hc
  simp only [List.length_append, List.length_cons, List.length_nil] at hl
  have : a' = hN.length := by omega
  subst this
  rw [get_last] at hc
  cases hc
  exact absurd rfl (hno C fs')

/-- appending the new object itself: its kinds are read off the unfolding, which equals the source's -/
theorem NewOK.snoc_root {h0 h hN : Heap} (cN : Closed hN) (n : NewOK h0 h hN) {a : Nat} {cell : Cell}
    (b : Basic h0 h (.ref a) (hN ++ [cell]) (.ref hN.length)) {C : String} {fs : Slots}
    (hsrc : h0[a]? = some (.node (.obj C) fs)) : NewOK h0 h (hN ++ [cell]) := by
  apply NewOK.trans cN (Ext.append _ _) n
  intro a' C' fs' hge hc
  have hl := get_lt hc
  simp only [List.length_append, List.length_cons, List.length_nil] at hl
  have : a' = hN.length := by omega
  subst this
  have hs := b.same 3
  simp only [absF, hc, hsrc, Tree.node.injEq, NodeKind.obj.injEq] at hs
  obtain ⟨rfl, hmap⟩ := hs
  refine ⟨a, fs, hsrc, ?_⟩
  have := congrArg (List.map fun (q : String × Tree) => (q.1, kindOfTree q.2)) hmap
  simp only [List.map_map, Function.comp_def] at this
  simp only [kinded]
  have e1 : ∀ (hh : Heap) (l : Slots), l.map (fun p => (p.1, kindOfTree (absF 2 hh p.2))) =
      l.map (fun p => (p.1, kindOf hh p.2)) := by
    intro hh l
    apply List.map_congr_left
    intro p _
    rw [kindOf_absF hh p.2 0]
  rw [e1, e1] at this
  exact this

theorem slots_newok {rec : Heap → Val → Except Err (Heap × Val)} {h0 : Heap}
    (Hb : ∀ hs v he v1, Ctx h0 hs → Valid h0 v → rec hs v = .ok (he, v1) → Basic h0 hs v he v1)
    (Hn : ∀ hs v he v1, Ctx h0 hs → Valid h0 v → rec hs v = .ok (he, v1) → NewOK h0 hs he)
    {h : Heap} {fs : Slots} {h1 : Heap} {fs1 : Slots} (r : SlotsRel rec h fs h1 fs1) :
    Ctx h0 h → (∀ x v, (x, v) ∈ fs → Valid h0 v) → NewOK h0 h h1 := by
  induction r with
  | nil h => intro _ _; exact NewOK.refl h0 h
  | @copied h x v hA vA t h2 t2 hr rt ih =>
    intro c hv
    have bA := Hb h v hA vA c (hv x v List.mem_cons_self) hr
    have nA := Hn h v hA vA c (hv x v List.mem_cons_self) hr
    have hvt : ∀ y w, (y, w) ∈ t → Valid h0 w := fun y w m => hv y w (List.mem_cons_of_mem _ m)
    have sb := slots_basic Hb rt (bA.ctx c) hvt
    exact NewOK.trans bA.closed sb.ext nA (ih (bA.ctx c) hvt)
  | @shared h x v t h2 t2 hr _ ih =>
    intro c hv
    exact ih c (fun y w m => hv y w (List.mem_cons_of_mem _ m))

theorem copy_newok (res : String → CopyImpl) (h0 : Heap) :
    ∀ (n : Nat) (h : Heap) (v : Val) (h' : Heap) (v' : Val), Ctx h0 h → Valid h0 v →
      copyCall res n h v = .ok (h', v') → NewOK h0 h h' := by
  intro n
  induction n with
  | zero => intro h v h' v' _ _ e; simp [copyCall] at e
  | succ n ih =>
    intro h v h' v' c hv e
    have ihb := copy_basic res h0 n
    cases v with
    | imm t => simp [copyCall] at e
    | ref a =>
      have B := copy_basic res h0 (n + 1) h (.ref a) h' v' c hv e
      have halt := hv a rfl
      have hget : h[a]? = h0[a]? := c.ext.get halt
      have hslots : ∀ {k fs}, h0[a]? = some (.node k fs) → ∀ x v, (x, v) ∈ fs → Valid h0 v :=
        fun hc x v m => c.c0.slot_valid hc m
      simp only [copyCall] at e
      split at e
      · cases e
      · rename_i d hcell
        simp only [Except.ok.injEq, Prod.mk.injEq] at e
        obtain ⟨rfl, rfl⟩ := e
        exact NewOK.snoc_other c.ch (NewOK.refl h0 h) _ (by intro C fs hh; cases hh)
      · rename_i fs hcell
        simp only [Except.ok.injEq, Prod.mk.injEq] at e
        obtain ⟨rfl, rfl⟩ := e
        exact NewOK.snoc_other c.ch (NewOK.refl h0 h) _ (by intro C fs hh; cases hh)
      · rename_i fs hcell
        simp only [Except.ok.injEq, Prod.mk.injEq] at e
        obtain ⟨rfl, rfl⟩ := e
        exact NewOK.snoc_other c.ch (NewOK.refl h0 h) _ (by intro C fs hh; cases hh)
      · cases e
      · rename_i C fs hcell
        rw [hget] at hcell
        have hvfs := hslots hcell
        split at e
        · -- Copyable.copy
          split at e
          · rename_i h1 fs1 hcs
            simp only [Except.ok.injEq, Prod.mk.injEq] at e
            obtain ⟨rfl, rfl⟩ := e
            have r := copySlots_rel _ _ _ _ hcs
            have sb := slots_basic ihb r c hvfs
            exact NewOK.snoc_root sb.closed (slots_newok ihb ih r c hvfs) B hcell
          · cases e
        · -- LandmarkManager.copy
          split at e
          · rename_i h1 fs1 hcs
            split at e
            · rename_i h2 d2 hde
              simp only [Except.ok.injEq, Prod.mk.injEq] at e
              obtain ⟨rfl, rfl⟩ := e
              have r := copySlots_rel _ _ _ _ hcs
              have sb := slots_basic ihb r c hvfs
              have c1 : Ctx h0 h1 := ⟨c.c0, c.ext.trans sb.ext, sb.closed⟩
              obtain ⟨d, gs, hv2, gs2, hlx, hd0, rv, rfl, rfl⟩ := deepen_inv res ihb c hvfs r hde
              obtain ⟨vx, _, bw⟩ := deepen_basic res ihb c hvfs r hde
              have hvgs : ∀ y u, (y, u) ∈ gs → Valid h0 u := fun y u m => c.c0.slot_valid hd0 m
              have sv := slots_basic ihb rv c1 hvgs
              have n1 := NewOK.trans sb.closed sv.ext (slots_newok ihb ih r c hvfs) (slots_newok ihb ih rv c1 hvgs)
              have n2 := NewOK.snoc_other sv.closed n1 (.node .dict gs2) (by intro C fs hh; cases hh)
              exact NewOK.snoc_root bw.closed n2 B hcell
            · cases e
          · cases e
        · -- LabelledPointUndirectedGraph.copy
          split at e
          · rename_i h1 fs1 hcs
            split at e
            · rename_i h2 d2 hde
              simp only [Except.ok.injEq, Prod.mk.injEq] at e
              obtain ⟨rfl, rfl⟩ := e
              have r := copySlots_rel _ _ _ _ hcs
              have sb := slots_basic ihb r c hvfs
              have c1 : Ctx h0 h1 := ⟨c.c0, c.ext.trans sb.ext, sb.closed⟩
              obtain ⟨d, gs, hv2, gs2, hlx, hd0, rv, rfl, rfl⟩ := deepen_inv res ihb c hvfs r hde
              obtain ⟨vx, _, bw⟩ := deepen_basic res ihb c hvfs r hde
              have hvgs : ∀ y u, (y, u) ∈ gs → Valid h0 u := fun y u m => c.c0.slot_valid hd0 m
              have sv := slots_basic ihb rv c1 hvgs
              have n1 := NewOK.trans sb.closed sv.ext (slots_newok ihb ih r c hvfs) (slots_newok ihb ih rv c1 hvgs)
              have n2 := NewOK.snoc_other sv.closed n1 (.node .dict gs2) (by intro C fs hh; cases hh)
              exact NewOK.snoc_root bw.closed n2 B hcell
            · cases e
          · cases e
        · -- LazyList.copy
          split at e
          · rename_i h1 fs1 hcs
            split at e
            · rename_i l hll
              split at e
              · rename_i items hitems
                simp only [Except.ok.injEq, Prod.mk.injEq] at e
                obtain ⟨rfl, rfl⟩ := e
                have r := copySlots_rel _ _ _ _ hcs
                have sb := slots_basic ihb r c hvfs
                have c1 : Ctx h0 h1 := ⟨c.c0, c.ext.trans sb.ext, sb.closed⟩
                have hvl : Valid h0 (.ref l) := hvfs _ _ (lookup_mem hll)
                have hl0 : h0[l]? = some (.node .list items) := by
                  rw [← c.ext.get (hvl l rfl)]; exact hitems
                have cl : Closed (h1 ++ [.node .list items]) := by
                  apply Closed.alloc sb.closed
                  intro k fs' ee x v m
                  cases ee
                  exact (c.c0.slot_valid hl0 m).mono c1.ext
                have n2 := NewOK.snoc_other sb.closed (slots_newok ihb ih r c hvfs) (.node .list items)
                  (by intro C fs hh; cases hh)
                have B' : Basic h0 h (.ref a)
                    ((h1 ++ [.node .list items]) ++ [.node (.obj C) (setSlot fs1 "_callables" (.ref h1.length))])
                    (.ref (h1 ++ [Cell.node .list items]).length) := by
                  simpa using B
                exact NewOK.snoc_root cl n2 B' hcell
              · cases e
            · cases e
          · cases e
        · -- HomogFamilyAlignment.copy
          split at e
          · rename_i m hlm
            split at e
            · rename_i h1 m1 hcm
              simp only [Except.ok.injEq, Prod.mk.injEq] at e
              obtain ⟨rfl, rfl⟩ := e
              have hvm : Valid h0 m := hvfs _ _ (lookup_mem hlm)
              have bm := ihb h m h1 m1 c hvm hcm
              exact NewOK.snoc_root bm.closed (ih h m h1 m1 c hvm hcm) B hcell
            · cases e
          · cases e
        · cases e

/-- PROPERTY support: a heap that conforms to the attribute-kind table still conforms after `copy()` -/
theorem copy_preserves_wt (tbl : AttrTable) (sup : SupplierTable) {h : Heap} (hc : Closed h)
    (hwt : wtHeap tbl sup h = true) {v : Val} (hv : Valid h v) {n : Nat} {h' : Heap} {v' : Val}
    (e : copyCall (resOf sup) n h v = .ok (h', v')) : wtHeap tbl sup h' = true := by
  have b := copy_basic (resOf sup) h n h v h' v' (Ctx.refl hc) hv e
  have nk := copy_newok (resOf sup) h n h v h' v' (Ctx.refl hc) hv e
  simp only [wtHeap, List.all_eq_true]
  intro cell hmem
  obtain ⟨a', hlt, hget⟩ := List.getElem_of_mem hmem
  have hget? : h'[a']? = some cell := by rw [List.getElem?_eq_getElem hlt, hget]
  cases cell with
  | buf d => rfl
  | node k fs' =>
    cases k with
    | dict => rfl
    | list => rfl
    | frozen => rfl
    | obj C =>
      rw [wtCell_eq]
      rcases Nat.lt_or_ge a' h.length with hold | hnew
      · have hget0 : h[a']? = some (.node (.obj C) fs') := by rw [← b.ext.get hold]; exact hget?
        rw [kinded_ext hc b.ext (fun x v m => hc.slot_valid hget0 m), ← wtCell_eq]
        exact List.all_eq_true.mp hwt _ (List.mem_of_getElem? hget0)
      · obtain ⟨a, fs, hsrc, hk⟩ := nk a' C fs' hnew hget?
        rw [hk, ← wtCell_eq]
        exact List.all_eq_true.mp hwt _ (List.mem_of_getElem? hsrc)

end MenpoModel.C06
