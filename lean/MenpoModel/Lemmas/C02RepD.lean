/-
C02 helper lemmas for the deep representation predicates: they survive allocation and writes elsewhere.
Core Lean only.
-/
import MenpoModel.Core.C02Deep
import MenpoModel.Lemmas.C02DeepCopy

namespace MenpoModel.C02

/-! ### the other attributes -/

theorem DeepX.mono {h : Heap} {fs : Slots} {ex : Extra} {Z Z' : Nat → Prop} (hz : ∀ b, Z b → Z' b)
    (r : DeepX h fs ex Z) : DeepX h fs ex Z' := by
  obtain ⟨j, h1, h2⟩ := r
  exact ⟨j, h1, fun b hb => hz b (h2 b hb)⟩

theorem DeepX.ext {h h' : Heap} {fs : Slots} {ex : Extra} {Z : Nat → Prop} (e : Ext h h')
    (r : DeepX h fs ex Z) : DeepX h' fs ex Z := by
  obtain ⟨j, h1, h2⟩ := r
  obtain ⟨k1, k2⟩ := digestSlots_ext e h1
  exact ⟨j, k1, fun b hb => h2 b (k2 ▸ hb)⟩

/-- the digest reaches existing cells only -/
theorem DeepX.top {h : Heap} {fs : Slots} {ex : Extra} {Z : Nat → Prop} (r : DeepX h fs ex Z) :
    DeepX h fs ex (fun b => Z b ∧ b < h.length) := by
  obtain ⟨j, h1, h2⟩ := r
  exact ⟨j, h1, fun b hb => ⟨h2 b hb, digestSlots_reads_lt h1 b hb⟩⟩

theorem DeepX.frame {lo hi : Nat} {h h' : Heap} {fs : Slots} {ex : Extra} {Z : Nat → Prop}
    (fr : Frame lo hi h h') (hz : ∀ b, Z b → b < lo ∨ hi ≤ b) (r : DeepX h fs ex Z) : DeepX h' fs ex Z := by
  obtain ⟨j, h1, h2⟩ := r
  have hl : ∀ b, b ∈ readsSlots (reads j h) (filterX fs) → h'[b]? = h[b]? := fun b hb => by
    rcases fr.same b (digestSlots_reads_lt h1 b hb) with e | ⟨l1, l2, _⟩
    · exact e
    · have := hz b (h2 b hb); omega
  obtain ⟨k1, k2⟩ := digestSlots_local (h' := h') (filterX fs) hl
  exact ⟨j, k1.trans h1, fun b hb => h2 b (k2 ▸ hb)⟩

theorem filter_setSlot_out (q : String → Bool) {x : String} (hq : q x = false) (w : Val) :
    ∀ (fs : Slots), (setSlot fs x w).filter (fun p => q p.1) = fs.filter (fun p => q p.1)
  | [] => rfl
  | (z, u) :: t => by
    simp only [setSlot]
    by_cases hz : z == x
    · have hzx : z = x := by simpa using hz
      subst hzx
      simp only [hz, if_true, List.filter_cons, hq, Bool.false_eq_true, if_false]
    · simp only [hz, Bool.false_eq_true, if_false, List.filter_cons, filter_setSlot_out q hq w t]

theorem filterX_setSlot_points (fs : Slots) (w : Val) : filterX (setSlot fs "points" w) = filterX fs :=
  filter_setSlot_out (fun n => n != "points" && n != "_landmarks") (by decide) w fs

theorem DeepX.setPoints {h : Heap} {fs : Slots} {ex : Extra} {Z : Nat → Prop} (w : Val)
    (r : DeepX h fs ex Z) : DeepX h (setSlot fs "points" w) ex Z := by
  unfold DeepX at r ⊢
  rw [filterX_setSlot_points]; exact r

/-! ### allocation does not disturb what an address represents; a larger bound is a weaker claim -/
mutual
theorem RepD.ext {base : Nat} {h h' : Heap} (e : Ext h h') : ∀ (s : Shape) (v : Val), RepD base h s v → RepD base h' s v
  | .mk c x gs ex, v, r => by
    unfold RepD at r ⊢
    obtain ⟨a, fs, p, hv, ha, hp, hpx, hx, hl, hg⟩ := r
    refine ⟨a, fs, p, hv, e.get ha, hp, e.get hpx, hx.ext e, hl.ext e, ?_⟩
    rcases hg with hg | ⟨l, ls, g, gvs, h1, h2, h3, h4, h5⟩
    · exact .inl hg
    · exact .inr ⟨l, ls, g, gvs, h1, e.get h2, h3, e.get h4, RepGD.ext e gs gvs h5⟩
theorem RepGD.ext {base : Nat} {h h' : Heap} (e : Ext h h') :
    ∀ (gs : Groups) (gvs : Slots), RepGD base h gs gvs → RepGD base h' gs gvs
  | .nil, gvs, r => by unfold RepGD at r ⊢; exact r
  | .cons n g rest, gvs, r => by
    unfold RepGD at r ⊢
    obtain ⟨v, t, h1, h2, h3⟩ := r
    exact ⟨v, t, h1, RepD.ext e g v h2, RepGD.ext e rest t h3⟩
end

mutual
theorem RepD.mono {base base' : Nat} {h : Heap} (hb : base ≤ base') :
    ∀ (s : Shape) (v : Val), RepD base h s v → RepD base' h s v
  | .mk c x gs ex, v, r => by
    unfold RepD at r ⊢
    obtain ⟨a, fs, p, hv, ha, hp, hpx, hx, hl, hg⟩ := r
    refine ⟨a, fs, p, hv, ha, hp, hpx, hx.mono (fun b hb' => Nat.lt_of_lt_of_le hb' hb), hl, ?_⟩
    rcases hg with hg | ⟨l, ls, g, gvs, h1, h2, h3, h4, h5⟩
    · exact .inl hg
    · exact .inr ⟨l, ls, g, gvs, h1, h2, h3, h4, RepGD.mono hb gs gvs h5⟩
theorem RepGD.mono {base base' : Nat} {h : Heap} (hb : base ≤ base') :
    ∀ (gs : Groups) (gvs : Slots), RepGD base h gs gvs → RepGD base' h gs gvs
  | .nil, gvs, r => by unfold RepGD at r ⊢; exact r
  | .cons n g rest, gvs, r => by
    unfold RepGD at r ⊢
    obtain ⟨v, t, h1, h2, h3⟩ := r
    exact ⟨v, t, h1, RepD.mono hb g v h2, RepGD.mono hb rest t h3⟩
end

/- any bound can be replaced by the heap top: a digest that exists reaches existing cells only -/
mutual
theorem RepD.top {base : Nat} {h : Heap} : ∀ (s : Shape) (v : Val), RepD base h s v → RepD h.length h s v
  | .mk c x gs ex, v, r => by
    unfold RepD at r ⊢
    obtain ⟨a, fs, p, hv, ha, hp, hpx, hx, hl, hg⟩ := r
    refine ⟨a, fs, p, hv, ha, hp, hpx, hx.top.mono (fun b hb' => hb'.2), hl, ?_⟩
    rcases hg with hg | ⟨l, ls, g, gvs, h1, h2, h3, h4, h5⟩
    · exact .inl hg
    · exact .inr ⟨l, ls, g, gvs, h1, h2, h3, h4, RepGD.top gs gvs h5⟩
theorem RepGD.top {base : Nat} {h : Heap} :
    ∀ (gs : Groups) (gvs : Slots), RepGD base h gs gvs → RepGD h.length h gs gvs
  | .nil, gvs, r => by unfold RepGD at r ⊢; exact r
  | .cons n g rest, gvs, r => by
    unfold RepGD at r ⊢
    obtain ⟨v, t, h1, h2, h3⟩ := r
    exact ⟨v, t, h1, RepD.top g v h2, RepGD.top rest t h3⟩
end

/-! ### laid-out trees -/

theorem repInD_iff (base : Nat) (h : Heap) (c : SCls) (x : Arr) (gs : Groups) (ex : Extra) (lo hi : Nat) (v : Val) :
    RepInD base h (.mk c x gs ex) lo hi v ↔
    ∃ a fs p m0 m, v = .ref a ∧ lo ≤ m0 ∧ m0 ≤ m ∧ m ≤ a ∧ a < hi ∧ h[a]? = some (.obj (.shape c) fs) ∧
      fs.lookup "points" = some (.ref p) ∧ h[p]? = some (.arr x) ∧
      DeepX h fs ex (Zone base lo m0 m a) ∧ LabelOK h c fs ∧ LmInD base h fs gs m0 m := by
  unfold RepInD LmInD; exact Iff.rfl

theorem RepInD.le {base : Nat} {h : Heap} : ∀ (s : Shape) (lo hi : Nat) (v : Val), RepInD base h s lo hi v → lo < hi
  | .mk c x gs ex, lo, hi, v, r => by
    rw [repInD_iff] at r
    obtain ⟨a, fs, p, m0, m, _, q1, q2, q3, q4, _⟩ := r
    omega

theorem RepGInD.le {base : Nat} {h : Heap} :
    ∀ (gs : Groups) (lo hi : Nat) (gvs : Slots), RepGInD base h gs lo hi gvs → lo ≤ hi
  | .nil, lo, hi, gvs, r => by unfold RepGInD at r; exact r.2
  | .cons n g rest, lo, hi, gvs, r => by
    unfold RepGInD at r
    obtain ⟨v, t, m, _, h2, h3⟩ := r
    have := RepGInD.le rest m hi t h3
    have := RepInD.le g lo m v h2
    omega

theorem Zone.out {base lo m0 m a hi flo fhi : Nat} (hb : base ≤ flo) (q1 : lo ≤ m0) (q3 : m ≤ a) (q4 : a < hi) (q2 : m0 ≤ m)
    (hd : fhi ≤ lo ∨ hi ≤ flo) {b : Nat} (z : Zone base lo m0 m a b) : b < flo ∨ fhi ≤ b := by
  unfold Zone at z; omega

/- writes confined to `[lo, hi)` (above `base`) do not disturb a tree that lives in a disjoint interval -/
mutual
theorem RepInD.frame {base lo hi : Nat} {h h' : Heap} (fr : Frame lo hi h h') (hb : base ≤ lo) :
    ∀ (s : Shape) (lo2 hi2 : Nat) (v : Val), (hi ≤ lo2 ∨ hi2 ≤ lo) →
      RepInD base h s lo2 hi2 v → RepInD base h' s lo2 hi2 v
  | .mk c x gs ex, lo2, hi2, v, hd, r => by
    unfold RepInD at r ⊢
    obtain ⟨a, fs, p, m0, m, hv, q1, q2, q3, q4, ha, hp, hpx, hx, hl, hg⟩ := r
    refine ⟨a, fs, p, m0, m, hv, q1, q2, q3, q4, fr.keep_out ha (by omega), hp,
      fr.keep hpx (fun _ _ hh => by cases hh), hx.frame fr (fun b z => Zone.out hb q1 q3 q4 q2 hd z),
      hl.frame fr, ?_⟩
    rcases hg with hg | ⟨l, ls, g, gvs, h1, h2, h3, h4, h5⟩
    · exact .inl hg
    · exact .inr ⟨l, ls, g, gvs, h1, fr.keep h2 (fun _ _ hh => by cases hh), h3,
        fr.keep h4 (fun _ _ hh => by cases hh), RepGInD.frame fr hb gs m0 m gvs (by omega) h5⟩
theorem RepGInD.frame {base lo hi : Nat} {h h' : Heap} (fr : Frame lo hi h h') (hb : base ≤ lo) :
    ∀ (gs : Groups) (lo2 hi2 : Nat) (gvs : Slots), (hi ≤ lo2 ∨ hi2 ≤ lo) →
      RepGInD base h gs lo2 hi2 gvs → RepGInD base h' gs lo2 hi2 gvs
  | .nil, lo2, hi2, gvs, _, r => by unfold RepGInD at r ⊢; exact r
  | .cons n g rest, lo2, hi2, gvs, hd, r => by
    unfold RepGInD at r ⊢
    obtain ⟨v, t, m, h1, h2, h3⟩ := r
    have hle := RepGInD.le rest m hi2 t h3
    have hle2 := RepInD.le g lo2 m v h2
    exact ⟨v, t, m, h1, RepInD.frame fr hb g lo2 m v (by omega) h2,
      RepGInD.frame fr hb rest m hi2 t (by omega) h3⟩
end

mutual
theorem RepInD.ext {base : Nat} {h h' : Heap} (e : Ext h h') :
    ∀ (s : Shape) (lo hi : Nat) (v : Val), RepInD base h s lo hi v → RepInD base h' s lo hi v
  | .mk c x gs ex, lo, hi, v, r => by
    unfold RepInD at r ⊢
    obtain ⟨a, fs, p, m0, m, hv, q1, q2, q3, q4, ha, hp, hpx, hx, hl, hg⟩ := r
    refine ⟨a, fs, p, m0, m, hv, q1, q2, q3, q4, e.get ha, hp, e.get hpx, hx.ext e, hl.ext e, ?_⟩
    rcases hg with hg | ⟨l, ls, g, gvs, h1, h2, h3, h4, h5⟩
    · exact .inl hg
    · exact .inr ⟨l, ls, g, gvs, h1, e.get h2, h3, e.get h4, RepGInD.ext e gs m0 m gvs h5⟩
theorem RepGInD.ext {base : Nat} {h h' : Heap} (e : Ext h h') :
    ∀ (gs : Groups) (lo hi : Nat) (gvs : Slots), RepGInD base h gs lo hi gvs → RepGInD base h' gs lo hi gvs
  | .nil, lo, hi, gvs, r => by unfold RepGInD at r ⊢; exact r
  | .cons n g rest, lo, hi, gvs, r => by
    unfold RepGInD at r ⊢
    obtain ⟨v, t, m, h1, h2, h3⟩ := r
    exact ⟨v, t, m, h1, RepInD.ext e g lo m v h2, RepGInD.ext e rest m hi t h3⟩
end

/-- widening the interval -/
theorem RepInD.widen {base : Nat} {h : Heap} : ∀ (s : Shape) {lo hi lo' hi' : Nat} (v : Val), lo' ≤ lo → hi ≤ hi' →
    RepInD base h s lo hi v → RepInD base h s lo' hi' v
  | .mk c x gs ex, lo, hi, lo', hi', v, h1, h2, r => by
    unfold RepInD at r ⊢
    obtain ⟨a, fs, p, m0, m, hv, q1, q2, q3, q4, ha, hp, hpx, hx, rest⟩ := r
    exact ⟨a, fs, p, m0, m, hv, by omega, q2, q3, by omega, ha, hp, hpx,
      hx.mono (fun b z => by unfold Zone at z ⊢; omega), rest⟩

/- forgetting where the cells live -/
mutual
theorem RepInD.repD {base : Nat} {h : Heap} {B : Nat} (hB : base ≤ B) : ∀ (s : Shape) (lo hi : Nat) (v : Val),
    hi ≤ B → RepInD base h s lo hi v → RepD B h s v
  | .mk c x gs ex, lo, hi, v, hh, r => by
    unfold RepInD at r; unfold RepD
    obtain ⟨a, fs, p, m0, m, hv, _, _, _, _, ha, hp, hpx, hx, hl, hg⟩ := r
    refine ⟨a, fs, p, hv, ha, hp, hpx, hx.mono (fun b z => by unfold Zone at z; omega), hl, ?_⟩
    rcases hg with hg | ⟨l, ls, g, gvs, h1, h2, h3, h4, h5⟩
    · exact .inl hg
    · exact .inr ⟨l, ls, g, gvs, h1, h2, h3, h4, RepGInD.repD hB gs m0 m gvs (by omega) h5⟩
theorem RepGInD.repD {base : Nat} {h : Heap} {B : Nat} (hB : base ≤ B) : ∀ (gs : Groups) (lo hi : Nat) (gvs : Slots),
    hi ≤ B → RepGInD base h gs lo hi gvs → RepGD B h gs gvs
  | .nil, lo, hi, gvs, _, r => by unfold RepGInD at r; unfold RepGD; exact r.1
  | .cons n g rest, lo, hi, gvs, hh, r => by
    unfold RepGInD at r; unfold RepGD
    obtain ⟨v, t, m, h1, h2, h3⟩ := r
    have := RepGInD.le rest m hi t h3
    exact ⟨v, t, h1, RepInD.repD hB g lo m v (by omega) h2, RepGInD.repD hB rest m hi t hh h3⟩
end

/- the deep predicate implies the shallow one is not needed: the theorems about `RepD` are proved directly -/

end MenpoModel.C02
