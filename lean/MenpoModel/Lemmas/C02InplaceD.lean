/-
C02: the in-place pass on a laid-out tree rebinds `points` of exactly the shape objects of that tree, and the
result represents the mapped value — deep version: every other attribute of every object of the tree keeps its
deep digest (the pass writes inside `[m0, m)` and at the object itself; the other attributes reach neither).
Core Lean only.
-/
import MenpoModel.Lemmas.C02RepD
import MenpoModel.Lemmas.C02Inplace

namespace MenpoModel.C02

/-- what a correct `_transform_inplace` does to a laid-out tree (all of it above `base`) -/
def InplaceSpecD (f : Arr → Arr) (rec : Heap → Val → Except Err Heap) : Prop :=
  ∀ (base : Nat) (s : Shape) (h : Heap) (lo hi : Nat) (v : Val) (h' : Heap), base ≤ lo →
    RepInD base h s lo hi v → rec h v = .ok h' → Frame lo hi h h' ∧ RepInD base h' (mapShape f s) lo hi v

theorem inplaceGroups_specD (f : Arr → Arr) (rec : Heap → Val → Except Err Heap) (hrec : InplaceSpecD f rec)
    (base : Nat) :
    ∀ (gs : Groups) (gvs : Slots) (lo hi : Nat) (h h' : Heap), base ≤ lo →
      RepGInD base h gs lo hi gvs → inplaceGroups rec h gvs = .ok h' →
      Frame lo hi h h' ∧ RepGInD base h' (mapGroups f gs) lo hi gvs
  | .nil, gvs, lo, hi, h, h', _, r, hrun => by
    unfold RepGInD at r
    obtain ⟨rfl, hle⟩ := r
    simp only [inplaceGroups, Except.ok.injEq] at hrun
    subst hrun
    refine ⟨Frame.refl _ _ _, ?_⟩
    rw [mapGroups_nil]; unfold RepGInD; exact ⟨rfl, hle⟩
  | .cons n g rest, gvs, lo, hi, h, h', hb, r, hrun => by
    unfold RepGInD at r
    obtain ⟨v, t, m, rfl, h2, h3⟩ := r
    simp only [inplaceGroups] at hrun
    cases hr : rec h v with
    | error e => rw [hr] at hrun; cases hrun
    | ok h1 =>
      rw [hr] at hrun
      simp only at hrun
      have hlo : lo < m := RepInD.le g lo m v h2
      have hhi : m ≤ hi := RepGInD.le rest m hi t h3
      obtain ⟨f1, r1⟩ := hrec base g h lo m v h1 hb h2 hr
      have h3' : RepGInD base h1 rest m hi t := RepGInD.frame f1 hb rest m hi t (.inl (Nat.le_refl _)) h3
      obtain ⟨f2, r2⟩ := inplaceGroups_specD f rec hrec base rest t m hi h1 h' (by omega) h3' hrun
      refine ⟨(f1.mono (Nat.le_refl _) hhi).trans (f2.mono (Nat.le_of_lt hlo) (Nat.le_refl _)), ?_⟩
      rw [mapGroups_cons]; unfold RepGInD
      exact ⟨v, t, m, rfl, RepInD.frame f2 (by omega) _ lo m v (.inr (Nat.le_refl _)) r1, r2⟩

theorem landmarksInplace_specD (f : Arr → Arr) (rec : Heap → Val → Except Err Heap) (hrec : InplaceSpecD f rec)
    {base : Nat} {h h1 : Heap} {fs : Slots} {gs : Groups} {m0 m : Nat} (hb : base ≤ m0)
    (hl : LmInD base h fs gs m0 m)
    (hrun : landmarksInplace expectedDispatch rec h fs = .ok h1) :
    Frame m0 m h h1 ∧ LmInD base h1 fs (mapGroups f gs) m0 m := by
  unfold landmarksInplace at hrun
  rcases hl with ⟨hl, rfl⟩ | ⟨l, ls, g, gvs, q1, q2, q3, q4, q5⟩
  · simp only [hasLandmarks, hl, Except.ok.injEq] at hrun
    subst hrun
    exact ⟨Frame.refl _ _ _, .inl ⟨hl, mapGroups_nil f⟩⟩
  · simp only [hasLandmarks, q1, q2, q3, q4] at hrun
    cases gvs with
    | nil =>
      simp only [List.isEmpty_nil, if_true, Except.ok.injEq] at hrun
      subst hrun
      have : gs = .nil := by
        cases gs with
        | nil => rfl
        | cons n g' r => unfold RepGInD at q5; obtain ⟨_, _, _, hh, _⟩ := q5; cases hh
      subst this
      refine ⟨Frame.refl _ _ _, .inr ⟨l, ls, g, [], q1, q2, q3, q4, ?_⟩⟩
      rw [mapGroups_nil]; exact q5
    | cons gv gt =>
      simp only [List.isEmpty_cons, Bool.false_eq_true, if_false, supInplace_lm] at hrun
      obtain ⟨fr, r⟩ := inplaceGroups_specD f rec hrec base gs (gv :: gt) m0 m h h1 hb q5 hrun
      exact ⟨fr, .inr ⟨l, ls, g, gv :: gt, q1, fr.keep q2 (fun _ _ hh => by cases hh), q3,
        fr.keep q4 (fun _ _ hh => by cases hh), r⟩⟩

theorem inplace_specD (f : Arr → Arr) : ∀ k, InplaceSpecD f (inplace expectedDispatch f k) := by
  intro k
  induction k with
  | zero => intro base s h lo hi v h' _ _ hrun; simp [inplace] at hrun
  | succ k ih =>
    intro base s h lo hi v h' hb r hrun
    cases s with
    | mk c x gs ex =>
      rw [repInD_iff] at r
      obtain ⟨a, fs, p, m0, m, rfl, q1, q2, q3, q4, ha, hp, hpx, hx, hlab, hl⟩ := r
      simp only [inplace, ha, supInplace_shape] at hrun
      cases hlm : landmarksInplace expectedDispatch (inplace expectedDispatch f k) h fs with
      | error e => rw [hlm] at hrun; cases hrun
      | ok h1 =>
        rw [hlm] at hrun
        simp only at hrun
        obtain ⟨f1, l1⟩ := landmarksInplace_specD f _ ih (by omega) hl hlm
        have ha1 : h1[a]? = some (.obj (.shape c) fs) := f1.keep_out ha (.inr q3)
        have hpx1 : h1[p]? = some (.arr x) := f1.keep hpx (fun _ _ hh => by cases hh)
        obtain ⟨h2, e2, f2, ha2, hn2⟩ := selfInplace_spec f ha1 hp hpx1
        simp only [selfStage, ha1, supSelf_shape] at hrun
        rw [e2] at hrun
        injection hrun with hrun
        subst hrun
        refine ⟨(f1.mono q1 (by omega)).trans (f2.mono (by omega) (by omega)), ?_⟩
        rw [mapShape_mk, repInD_iff]
        refine ⟨a, _, h1.length, m0, m, rfl, q1, q2, q3, q4, ha2, lookup_setSlot_self fs _ hp, hn2, ?_, ?_, ?_⟩
        · -- the other attributes reach neither the landmark trees nor the object itself
          have d1 := hx.frame f1 (fun b z => by unfold Zone at z; omega)
          have d2 := d1.frame f2 (fun b z => by unfold Zone at z; omega)
          exact d2.setPoints _
        · intro hc
          obtain ⟨mm, ms, e1, e2', e3⟩ := (hlab.frame f1).frame f2 hc
          exact ⟨mm, ms, by rw [lookup_setSlot_ne fs _ (by decide)]; exact e1, e2', e3⟩
        · rcases l1 with ⟨e1, e2'⟩ | ⟨l, ls, g, gvs, e1, e2', e3, e4, e5⟩
          · exact .inl ⟨by rw [lookup_setSlot_ne fs _ (by decide)]; exact e1, e2'⟩
          · exact .inr ⟨l, ls, g, gvs, by rw [lookup_setSlot_ne fs _ (by decide)]; exact e1,
              f2.keep e2' (fun _ _ hh => by cases hh), e3, f2.keep e4 (fun _ _ hh => by cases hh),
              RepGInD.frame f2 (by omega) _ m0 m gvs (.inr q3) e5⟩

end MenpoModel.C02
