/-
C13 — histories: an image that is itself the result of earlier crops.

`crop_sequence_exact` states pixel exactness and landmark registration for an arbitrary sequence of
crops (each applied to the result of the previous one) as an invariant proved by induction over the
sequence: the final pixel `(c, p)` is the original pixel `(c, p + Σ minima)` and a landmark sitting on
that original pixel ends up on `p`.  The harness reaches such histories through `pre = crop` cases
(images born from the crop of a larger image).  Core Lean only.
-/
import MenpoModel.Lemmas.C13Base
namespace MenpoModel.C13

/-- crop after crop after …: every entry is the per-axis bounds of one `Image.crop` call, applied to the
result of the previous one -/
def cropSeq {α : Type} (zero : α) : NDArr α → List (List Axis) → NDArr α
  | pix, [] => pix
  | pix, A :: rest => cropSeq zero (cropPixels pix A zero) rest

/-- landmarks through the same sequence of crops -/
def lmSeq : List (List Rat) → List (List Axis) → List (List Rat)
  | lms, [] => lms
  | lms, A :: rest => lmSeq (cropLandmarks A lms) rest

/-- the original multi-index the final index `p` is read from -/
def shiftSeq (p : List Nat) : List (List Axis) → List Nat
  | [] => p
  | A :: rest => shiftIdx (shiftSeq p rest) A

/-- every crop of the sequence is stated for the spatial shape the previous one produced -/
def ChainOK : List Nat → List (List Axis) → Prop
  | _, [] => True
  | s, A :: rest => A.map Axis.n = s ∧ ChainOK (A.map Axis.len) rest

def finalShape : List Nat → List (List Axis) → List Nat
  | s, [] => s
  | _, A :: rest => finalShape (A.map Axis.len) rest

theorem inRange_of_get?_isSome {α : Type} (a : NDArr α) (idx : List Nat) (h : (a.get? idx).isSome = true) :
    inRange a.shape idx = true := by
  unfold NDArr.get? at h
  split at h
  · assumption
  · simp at h

theorem shiftIdx_length : ∀ (p : List Nat) (A : List Axis), p.length = A.length → (shiftIdx p A).length = p.length := by
  intro p
  induction p with
  | nil => intro A h; cases A <;> simp_all [shiftIdx]
  | cons i p ih =>
    intro A h
    cases A with
    | nil => simp at h
    | cons a A => simp [shiftIdx, ih A (by simpa using h)]

theorem shiftSeq_length (p : List Nat) (seq : List (List Axis)) (h : ∀ A ∈ seq, A.length = p.length) :
    (shiftSeq p seq).length = p.length := by
  induction seq with
  | nil => rfl
  | cons A rest ih =>
    have h1 := ih (fun B hB => h B (by simp [hB]))
    simp only [shiftSeq]
    rw [shiftIdx_length _ _ (by rw [h1, h A (by simp)]), h1]

/-- PROPERTY (pixel exactness and registration along a history of crops): after any sequence of crops,
each taken from the result of the previous one, the image has the shape the last crop requested, its
pixel `(c, p)` is the pixel `(c, shiftSeq p seq)` of the *original* image (the sum of all clamped minima
added to `p`), and it exists for every channel and every in-range `p`. -/
theorem crop_sequence_exact {α : Type} (zero : α) (C : Nat) (seq : List (List Axis)) :
    ∀ (pix : NDArr α) (s : List Nat), pix.shape = C :: s → pix.WF → ChainOK s seq →
      (cropSeq zero pix seq).shape = C :: finalShape s seq ∧
      ∀ (c : Nat) (p : List Nat), c < C → inRange (finalShape s seq) p = true →
        (cropSeq zero pix seq).get? (c :: p) = pix.get? (c :: shiftSeq p seq) ∧
        ((cropSeq zero pix seq).get? (c :: p)).isSome = true := by
  induction seq with
  | nil =>
    intro pix s hs hwf _
    refine ⟨hs, ?_⟩
    intro c p hc hp
    simp only [finalShape] at hp
    obtain ⟨v, hv⟩ := get?_some_of_WF pix hwf (c :: p) (by simp [hs, inRange, hc, hp])
    simp [cropSeq, shiftSeq, hv]
  | cons A rest ih =>
    intro pix s hs hwf hchain
    obtain ⟨hA, hrest⟩ := hchain
    obtain ⟨e1, e2⟩ := crop_exact pix C A zero (by rw [hs, hA]) hwf
    obtain ⟨i1, i2⟩ := ih (cropPixels pix A zero) (A.map Axis.len) e1 (ofFn_WF _ _) hrest
    refine ⟨i1, ?_⟩
    intro c p hc hp
    obtain ⟨j1, j2⟩ := i2 c p hc hp
    simp only [cropSeq, shiftSeq, finalShape] at *
    rw [j1] at j2 ⊢
    have hin := inRange_of_get?_isSome _ _ j2
    rw [e1] at hin
    simp only [inRange, Bool.and_eq_true, decide_eq_true_eq] at hin
    exact e2 c _ hc hin.2

/-- landmarks along the same history: a landmark on the original pixel `shiftSeq p seq` ends on pixel `p` -/
theorem crop_sequence_landmarks (p : List Nat) (seq : List (List Axis)) (h : ∀ A ∈ seq, A.length = p.length) :
    lmSeq [(shiftSeq p seq).map fun (i : Nat) => (i : Rat)] seq = [p.map fun (i : Nat) => (i : Rat)] := by
  induction seq with
  | nil => rfl
  | cons A rest ih =>
    have h1 := ih (fun B hB => h B (by simp [hB]))
    simp only [shiftSeq, lmSeq]
    rw [crop_landmarks_registered A (shiftSeq p rest)
      (by rw [shiftSeq_length p rest (fun B hB => h B (by simp [hB])), h A (by simp)])]
    exact h1

/-! non-vacuity: two crops of the 6 × 7 example image -/
example : ChainOK [6, 7] [[⟨6, 1, 5⟩, ⟨7, 2, 7⟩], [⟨4, 1, 3⟩, ⟨5, 0, 4⟩]] := by
  simp only [ChainOK, List.map_cons, List.map_nil, Axis.len, Axis.hiB, Axis.loB]
  decide
example : shiftSeq [1, 2] [[⟨6, 1, 5⟩, ⟨7, 2, 7⟩], [⟨4, 1, 3⟩, ⟨5, 0, 4⟩]] = [3, 4] := by decide +kernel
example : ((cropSeq 0 exImg [[⟨6, 1, 5⟩, ⟨7, 2, 7⟩], [⟨4, 1, 3⟩, ⟨5, 0, 4⟩]]).shape,
    (cropSeq 0 exImg [[⟨6, 1, 5⟩, ⟨7, 2, 7⟩], [⟨4, 1, 3⟩, ⟨5, 0, 4⟩]]).get? [1, 1, 2], exImg.get? [1, 3, 4]) =
    ([2, 2, 4], some 67, some 67) := by decide +kernel

end MenpoModel.C13
