/-
C12 — lemmas about tables, the sum of embedded triplets and the dense scatter.
Main results: `tripsEnt_edge`, `denseStep_ent`, `dense_fold`.
-/
import MenpoModel.Core.C12GMRF
import Mathlib.Algebra.BigOperators.Group.List.Basic
import Mathlib.Algebra.Order.Field.Rat
import Mathlib.Tactic.Ring

set_option linter.unusedSimpArgs false
set_option linter.unusedVariables false

namespace MenpoModel.C12

theorem ent_tab (r c : Nat) (f : Nat → Nat → Rat) (i j : Nat) :
    ent (tab r c f) i j = if i < r ∧ j < c then f i j else 0 := by
  unfold ent tab
  by_cases hi : i < r
  · by_cases hj : j < c
    · simp [List.getD_eq_getElem?_getD, hi, hj]
    · simp [List.getD_eq_getElem?_getD, hi, hj]
  · simp [List.getD_eq_getElem?_getD, hi]

theorem ent_blkOf (B : Mat) (r0 c0 k a c : Nat) :
    ent (blkOf B r0 c0 k) a c = if a < k ∧ c < k then ent B (r0 + a) (c0 + c) else 0 := by
  unfold blkOf; rw [ent_tab]

theorem ent_negBlk (B : Mat) (k a c : Nat) :
    ent (negBlk B k) a c = if a < k ∧ c < k then - ent B a c else 0 := by
  unfold negBlk; rw [ent_tab]

/-- a slice bound `[v·k, v·k+k)` is the block test `i / k = v` -/
theorem block_iff (k v i : Nat) (hk : 0 < k) : (v * k ≤ i ∧ i < v * k + k) ↔ i / k = v := by
  rw [Nat.div_eq_iff hk]; omega

theorem block_off (k v i : Nat) (h : i / k = v) : i - v * k = i % k := by
  rw [Nat.mod_eq_sub_div_mul, h]

theorem ent_updBlock (n : Nat) (P : Mat) (u w k : Nat) (g : Nat → Nat → Rat → Rat) (hk : 0 < k)
    (I J : Nat) (hI : I < n) (hJ : J < n) :
    ent (updBlock n P (u * k) (w * k) k g) I J =
      if I / k = u ∧ J / k = w then g (I % k) (J % k) (ent P I J) else ent P I J := by
  unfold updBlock
  rw [ent_tab]
  simp only [hI, hJ, and_self, if_true]
  by_cases h1 : I / k = u
  · by_cases h2 : J / k = w
    · have a1 := (block_iff k u I hk).2 h1
      have a2 := (block_iff k w J hk).2 h2
      have c : u * k ≤ I ∧ I < u * k + k ∧ w * k ≤ J ∧ J < w * k + k := ⟨a1.1, a1.2, a2.1, a2.2⟩
      rw [if_pos c, if_pos ⟨h1, h2⟩, block_off k u I h1, block_off k w J h2]
    · have c : ¬ (u * k ≤ I ∧ I < u * k + k ∧ w * k ≤ J ∧ J < w * k + k) := by
        intro c; exact h2 ((block_iff k w J hk).1 ⟨c.2.2.1, c.2.2.2⟩)
      rw [if_neg c, if_neg (fun h => h2 h.2)]
  · have c : ¬ (u * k ≤ I ∧ I < u * k + k ∧ w * k ≤ J ∧ J < w * k + k) := by
      intro c; exact h1 ((block_iff k u I hk).1 ⟨c.1, c.2.1⟩)
    rw [if_neg c, if_neg (fun h => h1 h.1)]

theorem ent_addBlock (n : Nat) (P : Mat) (u w k : Nat) (B : Mat) (hk : 0 < k)
    (I J : Nat) (hI : I < n) (hJ : J < n) :
    ent (addBlock n P (u * k) (w * k) k B) I J =
      if I / k = u ∧ J / k = w then ent P I J + ent B (I % k) (J % k) else ent P I J := by
  unfold addBlock; rw [ent_updBlock n P u w k _ hk I J hI hJ]

theorem ent_setBlock (n : Nat) (P : Mat) (u w k : Nat) (B : Mat) (hk : 0 < k)
    (I J : Nat) (hI : I < n) (hJ : J < n) :
    ent (setBlock n P (u * k) (w * k) k B) I J =
      if I / k = u ∧ J / k = w then ent B (I % k) (J % k) else ent P I J := by
  unfold setBlock; rw [ent_updBlock n P u w k _ hk I J hI hJ]

/-! ### the sum of embedded triplets -/

theorem tripsEnt_nil (bi bj a c : Nat) : tripsEnt [] bi bj a c = 0 := by simp [tripsEnt]

theorem tripsEnt_cons (t : Trip) (ts : List Trip) (bi bj a c : Nat) :
    tripsEnt (t :: ts) bi bj a c =
      (if t.row = bi ∧ t.col = bj then ent t.blk a c else 0) + tripsEnt ts bi bj a c := by
  simp [tripsEnt]

theorem tripsEnt_append (s t : List Trip) (bi bj a c : Nat) :
    tripsEnt (s ++ t) bi bj a c = tripsEnt s bi bj a c + tripsEnt t bi bj a c := by
  simp [tripsEnt]

/-- no stored block at block position `(u, w)` -/
def NoBlock (ts : List Trip) (u w : Nat) : Prop := ∀ t ∈ ts, ¬ (t.row = u ∧ t.col = w)

theorem tripsEnt_noBlock (ts : List Trip) (u w a c : Nat) (h : NoBlock ts u w) : tripsEnt ts u w a c = 0 := by
  induction ts with
  | nil => exact tripsEnt_nil _ _ _ _
  | cons t ts ih =>
    rw [tripsEnt_cons, if_neg (h t (by simp)), ih (fun t ht => h t (by simp [ht]))]; simp

theorem allTrips_nil_left (m : Mode) (k : Nat) (Bs : List Mat) : allTrips m k [] Bs = [] := by
  simp [allTrips]
theorem allTrips_nil_right (m : Mode) (k : Nat) (es : List (Nat × Nat)) : allTrips m k es [] = [] := by
  cases es <;> simp [allTrips]
theorem allTrips_cons (m : Mode) (k : Nat) (e : Nat × Nat) (es : List (Nat × Nat)) (B : Mat) (Bs : List Mat) :
    allTrips m k (e :: es) (B :: Bs) = edgeTrips m k e B ++ allTrips m k es Bs := by
  simp [allTrips]

/-- the four triplets of one edge, summed -/
theorem tripsEnt_edge (m : Mode) (k : Nat) (e : Nat × Nat) (B : Mat) (bi bj a c : Nat) :
    tripsEnt (edgeTrips m k e B) bi bj a c =
      match m with
      | .concat =>
        (if e.1 = bi ∧ e.1 = bj then ent (blkOf B 0 0 k) a c else 0) +
        ((if e.2 = bi ∧ e.2 = bj then ent (blkOf B k k k) a c else 0) +
        ((if e.1 = bi ∧ e.2 = bj then ent (blkOf B 0 k k) a c else 0) +
        (if e.2 = bi ∧ e.1 = bj then ent (blkOf B k 0 k) a c else 0)))
      | .sub =>
        (if e.1 = bi ∧ e.1 = bj then ent (blkOf B 0 0 k) a c else 0) +
        ((if e.2 = bi ∧ e.2 = bj then ent (blkOf B 0 0 k) a c else 0) +
        ((if e.1 = bi ∧ e.2 = bj then ent (negBlk B k) a c else 0) +
        (if e.2 = bi ∧ e.1 = bj then ent (negBlk B k) a c else 0))) := by
  cases m <;> simp [edgeTrips, tripsEnt]

/-- an edge's triplets sit at `(v1,v1), (v2,v2), (v1,v2), (v2,v1)` only -/
theorem edgeTrips_pos (m : Mode) (k : Nat) (e : Nat × Nat) (B : Mat) (t : Trip)
    (ht : t ∈ edgeTrips m k e B) :
    (t.row = e.1 ∧ t.col = e.1) ∨ (t.row = e.2 ∧ t.col = e.2) ∨
    (t.row = e.1 ∧ t.col = e.2) ∨ (t.row = e.2 ∧ t.col = e.1) := by
  cases m <;> simp [edgeTrips] at ht <;> rcases ht with h | h | h | h <;> subst h <;> simp

theorem allTrips_pos (m : Mode) (k : Nat) (es : List (Nat × Nat)) (Bs : List Mat) (t : Trip)
    (ht : t ∈ allTrips m k es Bs) :
    ∃ e ∈ es, (t.row = e.1 ∧ t.col = e.1) ∨ (t.row = e.2 ∧ t.col = e.2) ∨
      (t.row = e.1 ∧ t.col = e.2) ∨ (t.row = e.2 ∧ t.col = e.1) := by
  induction es generalizing Bs with
  | nil => simp [allTrips_nil_left] at ht
  | cons e es ih =>
    cases Bs with
    | nil => simp [allTrips_nil_right] at ht
    | cons B Bs =>
      rw [allTrips_cons, List.mem_append] at ht
      rcases ht with h | h
      · exact ⟨e, by simp, edgeTrips_pos m k e B t h⟩
      · obtain ⟨e', he', h'⟩ := ih Bs h
        exact ⟨e', by simp [he'], h'⟩

/-! ### dense scatter -/

theorem scatter_concat (bi bj v1 v2 : Nat) (p x11 x22 x12 x21 : Rat) (hne : v1 ≠ v2)
    (z12 : bi = v1 → bj = v2 → p = 0) (z21 : bi = v2 → bj = v1 → p = 0) :
    (if bi = v2 ∧ bj = v1 then x21 else if bi = v1 ∧ bj = v2 then x12 else
      if bi = v2 ∧ bj = v2 then (if bi = v1 ∧ bj = v1 then p + x11 else p) + x22
      else (if bi = v1 ∧ bj = v1 then p + x11 else p)) =
    p + ((if v1 = bi ∧ v1 = bj then x11 else 0) + ((if v2 = bi ∧ v2 = bj then x22 else 0) +
      ((if v1 = bi ∧ v2 = bj then x12 else 0) + (if v2 = bi ∧ v1 = bj then x21 else 0)))) := by
  have hne' : v2 ≠ v1 := Ne.symm hne
  by_cases a1 : bi = v1
  · subst a1
    by_cases b1 : bj = bi
    · subst b1; simp [hne, hne']
    · by_cases b2 : bj = v2
      · subst b2; have := z12 rfl rfl; subst this; simp [hne, hne', b1, Ne.symm b1]
      · simp [hne, hne', b1, Ne.symm b1, b2, Ne.symm b2]
  · by_cases a2 : bi = v2
    · subst a2
      by_cases b2 : bj = bi
      · subst b2; simp [hne, hne']
      · by_cases b1 : bj = v1
        · subst b1; have := z21 rfl rfl; subst this; simp [hne, hne', b2, Ne.symm b2]
        · simp [hne, hne', b1, Ne.symm b1, b2, Ne.symm b2]
    · simp [a1, a2, Ne.symm a1, Ne.symm a2]

theorem scatter_sub (bi bj v1 v2 : Nat) (p x11 x22 x12 x21 : Rat) (hne : v1 ≠ v2)
    (z12 : bi = v1 → bj = v2 → p = 0) (z21 : bi = v2 → bj = v1 → p = 0) :
    (if bi = v2 ∧ bj = v2 then
        (if bi = v1 ∧ bj = v1 then (if bi = v2 ∧ bj = v1 then x21 else if bi = v1 ∧ bj = v2 then x12 else p) + x11
          else (if bi = v2 ∧ bj = v1 then x21 else if bi = v1 ∧ bj = v2 then x12 else p)) + x22
      else (if bi = v1 ∧ bj = v1 then (if bi = v2 ∧ bj = v1 then x21 else if bi = v1 ∧ bj = v2 then x12 else p) + x11
          else (if bi = v2 ∧ bj = v1 then x21 else if bi = v1 ∧ bj = v2 then x12 else p))) =
    p + ((if v1 = bi ∧ v1 = bj then x11 else 0) + ((if v2 = bi ∧ v2 = bj then x22 else 0) +
      ((if v1 = bi ∧ v2 = bj then x12 else 0) + (if v2 = bi ∧ v1 = bj then x21 else 0)))) := by
  have hne' : v2 ≠ v1 := Ne.symm hne
  by_cases a1 : bi = v1
  · subst a1
    by_cases b1 : bj = bi
    · subst b1; simp [hne, hne']
    · by_cases b2 : bj = v2
      · subst b2; have := z12 rfl rfl; subst this; simp [hne, hne', b1, Ne.symm b1]
      · simp [hne, hne', b1, Ne.symm b1, b2, Ne.symm b2]
  · by_cases a2 : bi = v2
    · subst a2
      by_cases b2 : bj = bi
      · subst b2; simp [hne, hne']
      · by_cases b1 : bj = v1
        · subst b1; have := z21 rfl rfl; subst this; simp [hne, hne', b2, Ne.symm b2]
        · simp [hne, hne', b1, Ne.symm b1, b2, Ne.symm b2]
    · simp [a1, a2, Ne.symm a1, Ne.symm a2]

/-- one pass of the loop body adds exactly the edge's four embedded triplets, provided the two
off-diagonal target blocks are still empty (that is where the code writes with `=`) -/
theorem denseStep_ent (m : Mode) (k n : Nat) (P : Mat) (v1 v2 : Nat) (B : Mat) (hk : 0 < k)
    (hne : v1 ≠ v2)
    (h12 : ∀ I J, I / k = v1 → J / k = v2 → ent P I J = 0)
    (h21 : ∀ I J, I / k = v2 → J / k = v1 → ent P I J = 0)
    (I J : Nat) (hI : I < n) (hJ : J < n) :
    ent (denseStep m k n P ((v1, v2), B)) I J =
      ent P I J + tripsEntFlat k (edgeTrips m k (v1, v2) B) I J := by
  unfold tripsEntFlat
  rw [tripsEnt_edge]
  cases m with
  | concat =>
    simp only [denseStep]
    rw [ent_setBlock _ _ _ _ _ _ hk I J hI hJ, ent_setBlock _ _ _ _ _ _ hk I J hI hJ,
      ent_addBlock _ _ _ _ _ _ hk I J hI hJ, ent_addBlock _ _ _ _ _ _ hk I J hI hJ]
    exact scatter_concat (I / k) (J / k) v1 v2 (ent P I J) _ _ _ _ hne (h12 I J) (h21 I J)
  | sub =>
    simp only [denseStep]
    rw [ent_addBlock _ _ _ _ _ _ hk I J hI hJ, ent_addBlock _ _ _ _ _ _ hk I J hI hJ,
      ent_setBlock _ _ _ _ _ _ hk I J hI hJ, ent_setBlock _ _ _ _ _ _ hk I J hI hJ]
    exact scatter_sub (I / k) (J / k) v1 v2 (ent P I J) _ _ _ _ hne (h12 I J) (h21 I J)

/-- the graph is simple: vertices in range, no self loop, no repeated and no antiparallel edge -/
def SimpleEdges (V : Nat) (es : List (Nat × Nat)) : Prop :=
  (∀ e ∈ es, e.1 < V ∧ e.2 < V ∧ e.1 ≠ e.2) ∧
  es.Pairwise (fun e e' => ¬ (e.1 = e'.1 ∧ e.2 = e'.2) ∧ ¬ (e.1 = e'.2 ∧ e.2 = e'.1))

theorem div_lt_of_block (k V I v : Nat) (hk : 0 < k) (h : I / k = v) (hv : v < V) : I < V * k := by
  have := (Nat.div_lt_iff_lt_mul hk).1 (h ▸ hv : I / k < V)
  exact this

theorem dense_fold (m : Mode) (k V : Nat) (hk : 0 < k) (es : List (Nat × Nat)) :
    ∀ (Bs : List Mat) (P0 : Mat) (ts0 : List Trip), SimpleEdges V es →
      (∀ I J, I < V * k → J < V * k → ent P0 I J = tripsEntFlat k ts0 I J) →
      (∀ e ∈ es, NoBlock ts0 e.1 e.2 ∧ NoBlock ts0 e.2 e.1) →
      ∀ I J, I < V * k → J < V * k →
        ent ((es.zip Bs).foldl (denseStep m k (V * k)) P0) I J =
          tripsEntFlat k (ts0 ++ allTrips m k es Bs) I J := by
  induction es with
  | nil =>
    intro Bs P0 ts0 _ h0 _ I J hI hJ
    simp [allTrips_nil_left, h0 I J hI hJ]
  | cons e es ih =>
    intro Bs P0 ts0 hs h0 hno I J hI hJ
    cases Bs with
    | nil => simp [allTrips_nil_right, h0 I J hI hJ]
    | cons B Bs =>
      obtain ⟨hv, hp⟩ := hs
      rw [List.pairwise_cons] at hp
      obtain ⟨he1, he2, hne⟩ : e.1 < V ∧ e.2 < V ∧ e.1 ≠ e.2 := hv e (by simp)
      simp only [List.zip_cons_cons, List.foldl_cons]
      rw [allTrips_cons, ← List.append_assoc]
      have e_eq : e = (e.1, e.2) := rfl
      refine ih Bs _ (ts0 ++ edgeTrips m k e B) ⟨fun e' h' => hv e' (by simp [h']), hp.2⟩ ?_ ?_ I J hI hJ
      · intro I' J' hI' hJ'
        rw [e_eq, denseStep_ent m k (V * k) P0 e.1 e.2 B hk hne ?_ ?_ I' J' hI' hJ']
        · unfold tripsEntFlat; rw [tripsEnt_append, h0 I' J' hI' hJ']; rfl
        · intro I2 J2 h1 h2
          rw [h0 I2 J2 (div_lt_of_block k V I2 _ hk h1 he1) (div_lt_of_block k V J2 _ hk h2 he2)]
          unfold tripsEntFlat
          rw [h1, h2]; exact tripsEnt_noBlock _ _ _ _ _ (hno e (by simp)).1
        · intro I2 J2 h1 h2
          rw [h0 I2 J2 (div_lt_of_block k V I2 _ hk h1 he2) (div_lt_of_block k V J2 _ hk h2 he1)]
          unfold tripsEntFlat
          rw [h1, h2]; exact tripsEnt_noBlock _ _ _ _ _ (hno e (by simp)).2
      · intro e' he'
        have hq := hp.1 e' he'
        obtain ⟨_, _, hne'⟩ := hv e' (by simp [he'])
        have hn := hno e' (by simp [he'])
        constructor
        · intro t ht
          rw [List.mem_append] at ht
          rcases ht with h | h
          · exact hn.1 t h
          · have := edgeTrips_pos m k e B t h
            intro hc; omega
        · intro t ht
          rw [List.mem_append] at ht
          rcases ht with h | h
          · exact hn.2 t h
          · have := edgeTrips_pos m k e B t h
            intro hc; omega

end MenpoModel.C12
