/-
C11 — the exact rank the driver reports (`rankExact`: Gaussian elimination over ℚ on the list of rows, Core/C11.lean) IS
Mathlib's `Matrix.rank`: the elimination step keeps the span of the rows and splits off one dimension per pivot.
-/
import MenpoModel.Core.C11
import Mathlib.LinearAlgebra.Matrix.Rank
import Mathlib.LinearAlgebra.FiniteDimensional.Lemmas
import Mathlib.Algebra.Order.Field.Rat
import Mathlib.Tactic.FieldSimp
import Mathlib.Tactic.Ring
import Mathlib.Tactic.Abel

namespace MenpoModel.C11
open Module

variable (p : Nat)

/-- a row of the elimination read as a vector of `ℚ^p` -/
def vecOf (r : List Rat) : Fin p → ℚ := fun j => r.getD j 0

/-- the space spanned by a list of rows -/
def rowSpan (rows : List (List Rat)) : Submodule ℚ (Fin p → ℚ) :=
  Submodule.span ℚ {v | ∃ r ∈ rows, v = vecOf p r}

theorem vecOf_mem (rows : List (List Rat)) (r : List Rat) (h : r ∈ rows) : vecOf p r ∈ rowSpan p rows :=
  Submodule.subset_span ⟨r, h, rfl⟩

theorem rowSpan_le (rows : List (List Rat)) (S : Submodule ℚ (Fin p → ℚ)) (h : ∀ r ∈ rows, vecOf p r ∈ S) :
    rowSpan p rows ≤ S := by
  apply Submodule.span_le.mpr
  rintro v ⟨r, hr, rfl⟩
  exact h r hr

theorem vecOf_rowSub (r s : List Rat) (f : Rat) (hr : r.length = p) (hs : s.length = p) :
    vecOf p (rowSub r s f) = vecOf p r - f • vecOf p s := by
  funext j
  have hj1 : (j : Nat) < r.length := by rw [hr]; exact j.isLt
  have hj2 : (j : Nat) < s.length := by rw [hs]; exact j.isLt
  simp [vecOf, rowSub, List.getD_eq_getElem?_getD, List.getElem?_zipWith, List.getElem?_eq_getElem hj1,
    List.getElem?_eq_getElem hj2]

theorem rowSub_length (r s : List Rat) (f : Rat) (hr : r.length = p) (hs : s.length = p) :
    (rowSub r s f).length = p := by
  simp [rowSub, hr, hs]

/-- the `c`-th coordinate vanishes on the span of rows that vanish there -/
theorem coord_zero_of_mem (rows : List (List Rat)) (c : Fin p) (h : ∀ r ∈ rows, r.getD c 0 = 0)
    (v : Fin p → ℚ) (hv : v ∈ rowSpan p rows) : v c = 0 := by
  have : rowSpan p rows ≤ LinearMap.ker (LinearMap.proj (R := ℚ) (φ := fun _ : Fin p => ℚ) c) := by
    apply rowSpan_le
    intro r hr
    have := h r hr
    simpa [vecOf, List.getD_eq_getElem?_getD] using this
  exact this hv


/-- adding a vector whose `c`-th coordinate is non-zero to rows that all vanish there adds one dimension -/
theorem finrank_insert (rows : List (List Rat)) (pr : List Rat) (c : Fin p) (hpr : pr.getD c 0 ≠ 0)
    (h : ∀ r ∈ rows, r.getD c 0 = 0) :
    finrank ℚ (rowSpan p (pr :: rows)) = finrank ℚ (rowSpan p rows) + 1 := by
  have hv : vecOf p pr ∉ rowSpan p rows := by
    intro hin
    have := coord_zero_of_mem p rows c h _ hin
    exact hpr (by simpa [vecOf] using this)
  have hne : vecOf p pr ≠ 0 := by
    intro h0; exact hv (h0 ▸ Submodule.zero_mem _)
  have hsplit : rowSpan p (pr :: rows) = rowSpan p rows ⊔ Submodule.span ℚ {vecOf p pr} := by
    apply le_antisymm
    · apply rowSpan_le
      intro r hr
      rcases List.mem_cons.mp hr with h1 | h1
      · subst h1; exact Submodule.mem_sup_right (Submodule.mem_span_singleton_self _)
      · exact Submodule.mem_sup_left (vecOf_mem p rows r h1)
    · apply sup_le
      · apply rowSpan_le; intro r hr; exact vecOf_mem p _ r (List.mem_cons_of_mem _ hr)
      · rw [Submodule.span_singleton_le_iff_mem]; exact vecOf_mem p _ pr (List.mem_cons_self ..)
  have hdisj : Disjoint (rowSpan p rows) (Submodule.span ℚ {vecOf p pr}) :=
    (Submodule.disjoint_span_singleton' hne).mpr hv
  have := Submodule.finrank_sup_add_finrank_inf_eq (rowSpan p rows) (Submodule.span ℚ {vecOf p pr})
  rw [hdisj.eq_bot, finrank_bot, add_zero, finrank_span_singleton hne] at this
  rw [hsplit, this]


theorem rowSpan_congr (A B : List (List Rat)) (h1 : ∀ r ∈ A, vecOf p r ∈ rowSpan p B) (h2 : ∀ r ∈ B, vecOf p r ∈ rowSpan p A) :
    rowSpan p A = rowSpan p B :=
  le_antisymm (rowSpan_le p A _ h1) (rowSpan_le p B _ h2)

/-- the elimination of `rankAux` computes the dimension of the span of the rows, provided all rows have length `p` and
vanish outside the columns still to be processed -/
theorem rankAux_eq (cols : List Nat) : ∀ (rows : List (List Rat)), (∀ r ∈ rows, r.length = p) → (∀ c ∈ cols, c < p) →
    (∀ r ∈ rows, ∀ j : Fin p, (j : Nat) ∉ cols → r.getD j 0 = 0) →
    rankAux cols rows = finrank ℚ (rowSpan p rows) := by
  induction cols with
  | nil =>
    intro rows _ _ hsup
    have : rowSpan p rows = ⊥ := by
      rw [eq_bot_iff]
      apply rowSpan_le
      intro r hr
      have : vecOf p r = 0 := by funext j; exact hsup r hr j (by simp)
      rw [this]; exact Submodule.zero_mem _
    rw [this, finrank_bot]; rfl
  | cons c cs ih =>
    intro rows hlen hcols hsup
    have hc : c < p := hcols c (by simp)
    have hcs : ∀ c' ∈ cs, c' < p := fun c' h => hcols c' (List.mem_cons_of_mem _ h)
    unfold rankAux
    cases hfind : rows.find? (fun r => r.getD c 0 != 0) with
    | none =>
      simp only []
      have hz : ∀ r ∈ rows, r.getD c 0 = 0 := by
        intro r hr
        have := (List.find?_eq_none.mp hfind) r hr
        simpa using this
      apply ih rows hlen hcs
      intro r hr j hj
      by_cases hjc : (j : Nat) = c
      · rw [hjc]; exact hz r hr
      · exact hsup r hr j (by simp [hjc, hj])
    | some pr =>
      simp only []
      have hprmem : pr ∈ rows := List.mem_of_find?_eq_some hfind
      have hprc : pr.getD c 0 ≠ 0 := by simpa using List.find?_some hfind
      set z := rows.filter (fun r => r.getD c 0 == 0) with hz
      set nz := rows.filter (fun r => r.getD c 0 != 0) with hnz
      have hhead : nz.head? = some pr := by rw [hnz, List.head?_filter]; exact hfind
      obtain ⟨tl, htl⟩ : ∃ tl, nz = pr :: tl := by
        cases hn : nz with
        | nil => rw [hn] at hhead; simp at hhead
        | cons a tl => rw [hn] at hhead; simp at hhead; exact ⟨tl, by rw [hhead]⟩
      have hdrop : nz.drop 1 = tl := by rw [htl]; rfl
      set elim := fun r : List Rat => rowSub r pr (r.getD c 0 / pr.getD c 0) with helim
      have hprlen : pr.length = p := hlen pr hprmem
      have htlmem : ∀ r ∈ tl, r ∈ rows ∧ r.getD c 0 ≠ 0 := by
        intro r hr
        have : r ∈ nz := by rw [htl]; exact List.mem_cons_of_mem _ hr
        rw [hnz, List.mem_filter] at this
        exact ⟨this.1, by simpa using this.2⟩
      have hzmem : ∀ r ∈ z, r ∈ rows ∧ r.getD c 0 = 0 := by
        intro r hr
        rw [hz, List.mem_filter] at hr
        exact ⟨hr.1, by simpa using hr.2⟩
      -- the rows handed to the recursive call
      have hrest_len : ∀ r ∈ z ++ tl.map elim, r.length = p := by
        intro r hr
        rcases List.mem_append.mp hr with h | h
        · exact hlen r (hzmem r h).1
        · obtain ⟨r', hr', rfl⟩ := List.mem_map.mp h
          exact rowSub_length p _ _ _ (hlen r' (htlmem r' hr').1) hprlen
      have hrest_c : ∀ r ∈ z ++ tl.map elim, r.getD c 0 = 0 := by
        intro r hr
        rcases List.mem_append.mp hr with h | h
        · exact (hzmem r h).2
        · obtain ⟨r', hr', rfl⟩ := List.mem_map.mp h
          have := congrFun (vecOf_rowSub p r' pr (r'.getD c 0 / pr.getD c 0) (hlen r' (htlmem r' hr').1) hprlen) ⟨c, hc⟩
          simp only [vecOf, Pi.sub_apply, Pi.smul_apply, smul_eq_mul] at this
          rw [this]; field_simp; ring
      have hrest_sup : ∀ r ∈ z ++ tl.map elim, ∀ j : Fin p, (j : Nat) ∉ cs → r.getD j 0 = 0 := by
        intro r hr j hj
        by_cases hjc : (j : Nat) = c
        · rw [hjc]; exact hrest_c r hr
        · have hjn : (j : Nat) ∉ c :: cs := by simp [hjc, hj]
          rcases List.mem_append.mp hr with h | h
          · exact hsup r (hzmem r h).1 j hjn
          · obtain ⟨r', hr', rfl⟩ := List.mem_map.mp h
            have := congrFun (vecOf_rowSub p r' pr (r'.getD c 0 / pr.getD c 0) (hlen r' (htlmem r' hr').1) hprlen) j
            simp only [vecOf, Pi.sub_apply, Pi.smul_apply, smul_eq_mul] at this
            rw [this, hsup r' (htlmem r' hr').1 j hjn, hsup pr hprmem j hjn]; ring
      suffices hspan : rowSpan p (pr :: (z ++ tl.map elim)) = rowSpan p rows by
        rw [hdrop, ih (z ++ tl.map elim) hrest_len hcs hrest_sup, ← hspan,
          finrank_insert p (z ++ tl.map elim) pr ⟨c, hc⟩ hprc hrest_c]
      apply rowSpan_congr
      · -- pr and the eliminated rows lie in the span of the original rows
        intro r hr
        rcases List.mem_cons.mp hr with h | h
        · subst h; exact vecOf_mem p rows _ hprmem
        · rcases List.mem_append.mp h with h | h
          · exact vecOf_mem p rows r (hzmem r h).1
          · obtain ⟨r', hr', rfl⟩ := List.mem_map.mp h
            rw [vecOf_rowSub p r' pr _ (hlen r' (htlmem r' hr').1) hprlen]
            exact Submodule.sub_mem _ (vecOf_mem p rows r' (htlmem r' hr').1)
              (Submodule.smul_mem _ _ (vecOf_mem p rows pr hprmem))
      · -- every original row lies in the span of pr and the rows handed on
        intro r hr
        by_cases hrc : r.getD c 0 = 0
        · apply vecOf_mem
          apply List.mem_cons_of_mem
          apply List.mem_append_left
          rw [hz, List.mem_filter]; exact ⟨hr, by simpa using hrc⟩
        · have hrnz : r ∈ nz := by rw [hnz, List.mem_filter]; exact ⟨hr, by simpa using hrc⟩
          rw [htl] at hrnz
          rcases List.mem_cons.mp hrnz with h | h
          · subst h; exact vecOf_mem p _ _ (List.mem_cons_self ..)
          · have h1 : vecOf p (elim r) ∈ rowSpan p (pr :: (z ++ tl.map elim)) :=
              vecOf_mem p _ _ (List.mem_cons_of_mem _ (List.mem_append_right _ (List.mem_map_of_mem h)))
            have h2 : vecOf p pr ∈ rowSpan p (pr :: (z ++ tl.map elim)) := vecOf_mem p _ _ (List.mem_cons_self ..)
            have : vecOf p r = vecOf p (elim r) + (r.getD c 0 / pr.getD c 0) • vecOf p pr := by
              rw [helim, vecOf_rowSub p r pr _ (hlen r hr) hprlen]; abel
            rw [this]
            exact Submodule.add_mem _ h1 (Submodule.smul_mem _ _ h2)


/-- the leading `p × p` part of a model matrix as a Mathlib matrix -/
def matOfMat (m : Mat) : Matrix (Fin p) (Fin p) ℚ := fun i j => m i j

/-- PROPERTY (`INFO["partial"]` entry 1, now a theorem): the exact rank the driver reports (Gaussian elimination on the
rows, `rankExact`) is Mathlib's `Matrix.rank` of the leading `p × p` part — the number the theorems
`RepM.card_eq_rank` / `ipca_reach_card_eq_rank` equate with the number of components -/
theorem rankExact_eq_rank (m : Mat) : rankExact p m = (matOfMat p m).rank := by
  unfold rankExact
  rw [rankAux_eq p (List.range p) (toRows p m)]
  · rw [Matrix.rank_eq_finrank_span_row]
    have hset : {v | ∃ r ∈ toRows p m, v = vecOf p r} = Set.range (matOfMat p m).row := by
      ext v
      simp only [Set.mem_range, toRows, List.mem_map, List.mem_range]
      constructor
      · rintro ⟨r, ⟨i, hi, rfl⟩, rfl⟩
        refine ⟨⟨i, hi⟩, ?_⟩
        funext j
        simp [Matrix.row, matOfMat, vecOf, List.getD_eq_getElem?_getD]
      · rintro ⟨i, rfl⟩
        refine ⟨_, ⟨i, i.isLt, rfl⟩, ?_⟩
        funext j
        simp [Matrix.row, matOfMat, vecOf, List.getD_eq_getElem?_getD]
    unfold rowSpan
    rw [hset]
  · intro r hr
    simp only [toRows, List.mem_map, List.mem_range] at hr
    obtain ⟨i, _, rfl⟩ := hr
    simp
  · intro c hc; exact List.mem_range.mp hc
  · intro r _ j hj
    exact absurd (List.mem_range.mpr j.isLt) hj

end MenpoModel.C11
