/-
C10 — ratio accessors on reachable states, the repaired float form, and the bookkeeping of
`orthonormalize_against_inplace`.
-/
import MenpoModel.Lemmas.C10Obs

namespace MenpoModel.C10
open St

theorem reach_sum_pos {eig0 : List Rat} {s : St} (hr : Reach eig0 s) (hp : ∀ x ∈ eig0, 0 < x) : 0 < eig0.sum := by
  have hne : eig0 ≠ [] := by
    intro h; have := hr.rows_le; have := hr.rows_pos; simp [h] at *; omega
  exact sum_pos_of_pos hne hp

/-- kept ratio + noise ratio × number of discarded eigenvalues = 1 -/
theorem ratio_accounting {eig0 : List Rat} {s : St} (hr : Reach eig0 s) (hp : ∀ x ∈ eig0, 0 < x) :
    s.varianceRatio + s.noiseVarianceRatio * (s.discarded.length : Rat) = 1 := by
  have hO := reach_sum_pos hr hp
  have h1 := variance_add_discarded s
  have h2 := noiseVariance_mul_length hr
  have h3 := hr.originalVariance_eq
  have hne : eig0.sum ≠ 0 := ne_of_gt hO
  rw [h3] at h1
  rw [St.varianceRatio, St.noiseVarianceRatio, h3]
  have : s.variance / eig0.sum + s.noiseVariance / eig0.sum * (s.discarded.length : Rat)
      = (s.variance + s.noiseVariance * (s.discarded.length : Rat)) / eig0.sum := by ring
  rw [this, h2, h1, div_self hne]

theorem le_last_of_sorted {l : List Rat} (hs : l.Pairwise (· < ·)) {v : Rat} (hl : l.getLast? = some v) :
    ∀ c ∈ l, c ≤ v := by
  induction l with
  | nil => intro c hc; cases hc
  | cons a t ih =>
    rw [List.pairwise_cons] at hs
    by_cases ht : t = []
    · subst ht
      simp at hl
      intro c hc
      simp at hc
      rw [hc, hl]
    · rw [List.getLast?_cons_of_ne_nil ht] at hl
      intro c hc
      rcases List.mem_cons.mp hc with rfl | hc
      · exact le_of_lt (hs.1 v (List.mem_of_getLast? hl))
      · exact ih hs.2 hl c hc

theorem eigenvaluesRatio_pos {eig0 : List Rat} {s : St} (hr : Reach eig0 s) (hp : ∀ x ∈ eig0, 0 < x) :
    ∀ x ∈ s.eigenvaluesRatio, 0 < x := by
  intro x hx
  have hO := reach_sum_pos hr hp
  simp only [St.eigenvaluesRatio, List.mem_map] at hx
  obtain ⟨y, hy, rfl⟩ := hx
  rw [hr.originalVariance_eq]
  apply div_pos _ hO
  have : y ∈ eig0 := by
    have h1 : y ∈ s.eig := (List.take_sublist _ _).subset hy
    rw [hr.eig_eq] at h1
    exact (List.take_sublist _ _).subset h1
  exact hp y this

/-- the cumulative ratios of the active components: strictly increasing, positive, the last one is the
kept ratio, none exceeds 1 -/
theorem cumulativeRatio_spec {eig0 : List Rat} {s : St} (hr : Reach eig0 s) (hp : ∀ x ∈ eig0, 0 < x) :
    s.eigenvaluesCumulativeRatio.length = s.nActive ∧
    s.eigenvaluesCumulativeRatio.Pairwise (· < ·) ∧
    (∀ c ∈ s.eigenvaluesCumulativeRatio, 0 < c ∧ c ≤ s.varianceRatio) ∧
    s.eigenvaluesCumulativeRatio.getLast? = some s.varianceRatio ∧
    s.varianceRatio ≤ 1 := by
  have hpos := eigenvaluesRatio_pos hr hp
  have hlen : s.eigenvaluesRatio.length = s.nActive := by
    simp only [St.eigenvaluesRatio, St.eigenvalues, List.length_map, List.length_take, hr.eig_length]
    exact Nat.min_eq_left hr.act_le
  have hsorted := cumsumFrom_sorted hpos 0
  have hne : s.eigenvaluesRatio ≠ [] := by
    intro h; rw [h] at hlen; have := hr.act_pos; simp at hlen; omega
  obtain ⟨l, x, hlx⟩ : ∃ l x, s.eigenvaluesRatio = l ++ [x] :=
    ⟨_, _, (List.dropLast_append_getLast hne).symm⟩
  have hlast : s.eigenvaluesCumulativeRatio.getLast? = some s.varianceRatio := by
    rw [St.eigenvaluesCumulativeRatio, cumsum, hlx, cumsumFrom_getLast, ← hlx, eigenvaluesRatio_sum, zero_add]
  refine ⟨by rw [St.eigenvaluesCumulativeRatio, cumsum, cumsumFrom_length, hlen], hsorted, ?_, hlast, ?_⟩
  · intro c hc
    refine ⟨cumsumFrom_gt hpos 0 c hc, ?_⟩
    exact le_last_of_sorted hsorted hlast c hc
  · have hO := reach_sum_pos hr hp
    rw [St.varianceRatio, hr.originalVariance_eq, St.variance, St.eigenvalues]
    have hpe : ∀ x ∈ s.eig, 0 < x := by
      intro x hx; rw [hr.eig_eq] at hx; exact hp x ((List.take_sublist _ _).subset hx)
    have h1 := sum_take_le hpe s.nActive
    have h2 : s.eig.sum ≤ eig0.sum := by rw [hr.eig_eq]; exact sum_take_le hp _
    have h3 := div_le_div_of_nonneg_right (le_trans h1 h2) (le_of_lt hO)
    rwa [div_self (ne_of_gt hO)] at h3

/-! ### the repaired float form (notes/fixes/C10-float-fraction-rounding.diff): the count is clamped to
`n_components` -/

def St.setActiveFloatRepaired (s : St) (r tvr : Rat) (cum : List Rat) : Except Err St :=
  s.setActive (.floatObsClamped r tvr cum)

/-- the repaired form never raises for a fraction inside the accepted range, whatever the rounding, and
agrees with the coded form whenever the coded form does not raise -/
theorem repaired_float_spec {eig0 : List Rat} {s : St} (hr : Reach eig0 s) {r tvr : Rat} (cum : List Rat)
    (h0 : 0 < r) (h1 : r ≤ tvr) :
    (∃ s', s.setActiveFloatRepaired r tvr cum = .ok s' ∧ Reach eig0 s') ∧
    (∀ s', s.setActive (.floatObs r tvr cum) = .ok s' → s.setActiveFloatRepaired r tvr cum = .ok s') := by
  have hcond : 0 < r ∧ r ≤ tvr := ⟨h0, h1⟩
  have hrows := hr.rows_pos
  constructor
  · have hfin : (0 : Int) < min (((cum.filter (fun c => decide (c < r))).length : Int) + 1) (s.rows : Int) ∧
        min (((cum.filter (fun c => decide (c < r))).length : Int) + 1) (s.rows : Int) ≤ (s.rows : Int) := by
      constructor
      · apply lt_min <;> omega
      · exact min_le_right _ _
    refine ⟨{ s with nActive :=
      (min (((cum.filter (fun c => decide (c < r))).length : Int) + 1) (s.rows : Int)).toNat },
      by simp only [St.setActiveFloatRepaired, St.setActive, hcond, and_self, if_true, St.finalSet, hfin], ?_⟩
    refine ⟨hr.rows_pos, hr.rows_le, hr.eig_eq, hr.trimmed_perm, ?_, ?_⟩
    · show 1 ≤ (min (((cum.filter (fun c => decide (c < r))).length : Int) + 1) (s.rows : Int)).toNat
      omega
    · show (min (((cum.filter (fun c => decide (c < r))).length : Int) + 1) (s.rows : Int)).toNat ≤ s.rows
      omega
  · intro s' h
    simp only [St.setActive, hcond, and_self, if_true] at h
    obtain ⟨_, _, _, _, f5, _⟩ := finalSet_fields h
    simp only [St.setActiveFloatRepaired, St.setActive, hcond, and_self, if_true]
    rw [min_eq_left f5]; exact h

/-! ### `orthonormalize_against_inplace`, bookkeeping part -/

/-- enough features for both models: nothing changes -/
theorem ortho_roomy {s : St} {d k1 : Nat} (h : k1 + s.rows ≤ d) : s.orthoAgainst d k1 = .ok s := by
  have h1 : orthoQRows d k1 s.rows = k1 + s.rows := by unfold orthoQRows; omega
  have h2 : orthoAvail d k1 s.rows = s.rows := by unfold orthoAvail; omega
  simp [St.orthoAgainst, h1, h2]

/-- too few features: the model is trimmed to the `d - k1` rows that are left, and the active count is the
old one capped at that number -/
theorem ortho_tight {eig0 : List Rat} {s : St} (hr : Reach eig0 s) {d k1 : Nat} (h1 : d < k1 + s.rows)
    (h2 : k1 < d) :
    ∃ s', s.orthoAgainst d k1 = .ok s' ∧ Reach eig0 s' ∧ s'.rows = d - k1 ∧
      s'.nActive = min s.nActive (d - k1) ∧ s'.eig = eig0.take (d - k1) ∧
      s'.trimmed = s.trimmed ++ s.eig.drop (d - k1) := by
  have hq : orthoQRows d k1 s.rows = d := by unfold orthoQRows; omega
  have ha : orthoAvail d k1 s.rows = d - k1 := by unfold orthoAvail; rw [hq]
  have hlt : d - k1 < s.rows := by omega
  have hpos : 1 ≤ d - k1 := by omega
  obtain ⟨s1, t1, t2, t3, t4, _, t6⟩ := trim_int_of_reach hr hpos (le_of_lt hlt)
  have r1 : Reach eig0 s1 := reach_trim hr t1
  have hq' : ¬ (d < k1) := by omega
  simp only [hlt, if_true] at t6
  by_cases hact : s.nActive < d - k1
  · -- the saved active count is restored through the integer form of the setter
    have hsaved : orthoSavedActive s (d - k1) = s.nActive := by simp [orthoSavedActive, hact]
    have hap := hr.act_pos
    have c1 : ¬ ((s.nActive : Int) < 1) := by omega
    have c2 : ¬ ((s.nActive : Int) ≥ (s1.rows : Int)) := by rw [t2]; omega
    have c3 : (0 : Int) < (s.nActive : Int) ∧ (s.nActive : Int) ≤ (s1.rows : Int) := by rw [t2]; omega
    refine ⟨{ s1 with nActive := s.nActive }, ?_, ?_, t2, ?_, t4, t6⟩
    · simp only [St.orthoAgainst, hq, ha, hq', hlt, if_true, if_false, t1, hsaved, hact, St.setActive, c1, c2,
        St.finalSet, c3, and_self, Int.toNat_natCast]
    · exact ⟨r1.rows_pos, r1.rows_le, r1.eig_eq, r1.trimmed_perm, hr.act_pos, by show s.nActive ≤ s1.rows; omega⟩
    · show s.nActive = min s.nActive (d - k1); omega
  · have hsaved : orthoSavedActive s (d - k1) = d - k1 := by simp [orthoSavedActive, hact]
    have hnl : ¬ (d - k1 < d - k1) := Nat.lt_irrefl _
    refine ⟨s1, ?_, r1, t2, ?_, t4, t6⟩
    · simp only [St.orthoAgainst, hq, ha, hq', hlt, if_true, if_false, t1, hsaved, hnl]
    · rw [t3]; omega

/-- no feature left for this model (`d ≤ k1`): the call raises and the bookkeeping is unchanged
(`St.step` semantics) -/
theorem ortho_degenerate {s : St} {d k1 : Nat} (hrows : 1 ≤ s.rows) (h : d ≤ k1) :
    s.orthoAgainst d k1 = .error .value := by
  by_cases hlt : d < k1
  · have hq : orthoQRows d k1 s.rows = d := by unfold orthoQRows; omega
    simp [St.orthoAgainst, hq, hlt]
  · have hd : d = k1 := by omega
    subst hd
    have hq : orthoQRows d d s.rows = d := by unfold orthoQRows; omega
    have ha : orthoAvail d d s.rows = 0 := by unfold orthoAvail; rw [hq]; omega
    have h0 : (0 : Nat) < s.rows := hrows
    simp [St.orthoAgainst, hq, ha, h0, St.trim, St.setActive]

end MenpoModel.C10
