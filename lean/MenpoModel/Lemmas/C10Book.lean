/-
C10 — lemmas about the bookkeeping state machine (`Core/C10Book.lean`).
-/
import MenpoModel.Core.C10Book
import Mathlib.Algebra.Order.Field.Rat
import Mathlib.Algebra.BigOperators.Group.List.Basic
import Mathlib.Tactic.Ring
import Mathlib.Tactic.Linarith
import Mathlib.Tactic.FieldSimp

namespace MenpoModel.C10
open St

/-! ### what one operation can change -/

theorem finalSet_fields {s s' : St} {v : Int} (h : s.finalSet v = .ok s') :
    s'.rows = s.rows ∧ s'.eig = s.eig ∧ s'.trimmed = s.trimmed ∧ 0 < v ∧ v ≤ s.rows ∧
      (s'.nActive : Int) = v := by
  unfold St.finalSet at h
  split at h
  · rename_i hv
    cases h
    refine ⟨rfl, rfl, rfl, hv.1, hv.2, ?_⟩
    simp only [Int.ofNat_toNat]; omega
  · cases h

/-- the setter writes `_n_active_components` only, and only a value in `1..n_components` -/
theorem setActive_fields {s s' : St} {v : Val} (h : s.setActive v = .ok s') :
    s'.rows = s.rows ∧ s'.eig = s.eig ∧ s'.trimmed = s.trimmed ∧
      (s' = s ∨ (1 ≤ s'.nActive ∧ s'.nActive ≤ s.rows)) := by
  have key : ∀ w : Int, s.finalSet w = .ok s' →
      s'.rows = s.rows ∧ s'.eig = s.eig ∧ s'.trimmed = s.trimmed ∧
        (s' = s ∨ (1 ≤ s'.nActive ∧ s'.nActive ≤ s.rows)) := by
    intro w hw
    obtain ⟨h1, h2, h3, h4, h5, h6⟩ := finalSet_fields hw
    exact ⟨h1, h2, h3, Or.inr (by omega)⟩
  cases v with
  | float r =>
    simp only [St.setActive] at h
    split at h
    · exact key _ h
    · cases h
  | int k =>
    simp only [St.setActive] at h
    split at h
    · cases h
    · split at h
      · split at h
        · exact key _ h
        · cases h; exact ⟨rfl, rfl, rfl, Or.inl rfl⟩
      · exact key _ h
  | npint k =>
    simp only [St.setActive] at h
    exact key _ h
  | floatObs r tvr cum =>
    simp only [St.setActive] at h
    split at h
    · exact key _ h
    · cases h
  | floatObsClamped r tvr cum =>
    simp only [St.setActive] at h
    split at h
    · exact key _ h
    · cases h

theorem sum_take_drop (l : List Rat) (k : Nat) : (l.take k).sum + (l.drop k).sum = l.sum :=
  List.sum_take_add_sum_drop l k

theorem setActive_originalVariance {s s' : St} {v : Val} (h : s.setActive v = .ok s') :
    s'.originalVariance = s.originalVariance := by
  obtain ⟨_, h2, h3, _⟩ := setActive_fields h
  simp [St.originalVariance, h2, h3]

/-- the two shapes of a successful `trim_components` -/
theorem trim_cases {s s' : St} {v : Option Val} (h : s.trim v = .ok s') :
    ∃ s1, s.setActive (match v with | none => Val.int s.nActive | some v => v) = .ok s1 ∧
      ((s1.nActive < s1.rows ∧
          s' = { rows := min s1.nActive s1.rows, eig := s1.eig.take s1.nActive,
                 trimmed := s1.trimmed ++ s1.eig.drop s1.nActive, nActive := s1.nActive }) ∨
        (¬ s1.nActive < s1.rows ∧ s' = s1)) := by
  unfold St.trim at h
  split at h
  · cases h
  · rename_i s1 hs1
    refine ⟨s1, hs1, ?_⟩
    split at h
    · rename_i hlt; cases h; exact Or.inl ⟨hlt, rfl⟩
    · rename_i hlt; cases h; exact Or.inr ⟨hlt, rfl⟩

theorem trim_originalVariance {s s' : St} {v : Option Val} (h : s.trim v = .ok s') :
    s'.originalVariance = s.originalVariance := by
  obtain ⟨s1, hs1, hc⟩ := trim_cases h
  have h1 := setActive_originalVariance hs1
  rcases hc with ⟨_, rfl⟩ | ⟨_, rfl⟩
  · rw [← h1]
    simp only [St.originalVariance, List.sum_append]
    have := sum_take_drop s1.eig s1.nActive
    linarith
  · exact h1

/-- the shapes of a successful `orthonormalize_against_inplace` (bookkeeping part): nothing, a trim,
or a trim followed by the integer form of the setter -/
theorem ortho_cases {s s' : St} {d k1 : Nat} (h : s.orthoAgainst d k1 = .ok s') :
    s' = s ∨ ∃ s1, s.trim (some (.int (orthoAvail d k1 s.rows))) = .ok s1 ∧
      (s' = s1 ∨ s1.setActive (.int (orthoSavedActive s (orthoAvail d k1 s.rows))) = .ok s') := by
  unfold St.orthoAgainst at h
  split at h
  · cases h
  · split at h
    · split at h
      · cases h
      · rename_i s1 hs1
        refine Or.inr ⟨s1, hs1, ?_⟩
        split at h
        · exact Or.inr h
        · cases h; exact Or.inl rfl
    · cases h; exact Or.inl rfl

theorem ortho_originalVariance {s s' : St} {d k1 : Nat} (h : s.orthoAgainst d k1 = .ok s') :
    s'.originalVariance = s.originalVariance := by
  rcases ortho_cases h with rfl | ⟨s1, h1, rfl | h2⟩
  · rfl
  · exact trim_originalVariance h1
  · rw [setActive_originalVariance h2, trim_originalVariance h1]

theorem step_originalVariance (s : St) (o : Op) : (s.step o).originalVariance = s.originalVariance := by
  unfold St.step
  split
  · rename_i s' h
    cases o with
    | set v => exact setActive_originalVariance h
    | trim v => exact trim_originalVariance h
    | ortho d k1 => exact ortho_originalVariance h
  · rfl

theorem run_originalVariance (s : St) (ops : List Op) :
    (s.run ops).originalVariance = s.originalVariance := by
  induction ops generalizing s with
  | nil => rfl
  | cons o t ih =>
    show ((s.step o).run t).originalVariance = _
    rw [ih, step_originalVariance]

/-! ### the reachable states -/

/-- every state reachable from a model built on the spectrum `eig0` : the eigenvalues are a prefix
of `eig0` with as many entries as there are component rows, the trimmed pool holds exactly the
rest (in the order the trims happened), and `1 ≤ n_active ≤ n_components` -/
structure Reach (eig0 : List Rat) (s : St) : Prop where
  rows_pos : 1 ≤ s.rows
  rows_le : s.rows ≤ eig0.length
  eig_eq : s.eig = eig0.take s.rows
  trimmed_perm : s.trimmed.Perm (eig0.drop s.rows)
  act_pos : 1 ≤ s.nActive
  act_le : s.nActive ≤ s.rows

theorem Reach.eig_length {eig0 : List Rat} {s : St} (h : Reach eig0 s) : s.eig.length = s.rows := by
  rw [h.eig_eq, List.length_take]; exact Nat.min_eq_left h.rows_le

theorem reach_init {eig0 : List Rat} (h : eig0 ≠ []) : Reach eig0 (init eig0.length eig0) := by
  have hl : 1 ≤ eig0.length := by
    cases eig0 with
    | nil => exact absurd rfl h
    | cons a t => simp
  exact ⟨hl, le_refl _, by simp [init], by simp [init], hl, le_refl _⟩

theorem reach_setActive {eig0 : List Rat} {s s' : St} {v : Val} (hr : Reach eig0 s)
    (h : s.setActive v = .ok s') : Reach eig0 s' := by
  obtain ⟨h1, h2, h3, h4⟩ := setActive_fields h
  rcases h4 with rfl | ⟨h5, h6⟩
  · exact hr
  · exact ⟨by rw [h1]; exact hr.rows_pos, by rw [h1]; exact hr.rows_le, by rw [h1, h2]; exact hr.eig_eq,
      by rw [h1, h3]; exact hr.trimmed_perm, h5, by rw [h1]; exact h6⟩

theorem drop_take_append_drop (l : List Rat) {k m : Nat} (hkm : k ≤ m) (hm : m ≤ l.length) :
    (l.take m).drop k ++ l.drop m = l.drop k := by
  have h : l.drop k = (l.take m ++ l.drop m).drop k := by rw [List.take_append_drop]
  rw [h, List.drop_append_of_le_length]
  rw [List.length_take]; omega

theorem reach_trim {eig0 : List Rat} {s s' : St} {v : Option Val} (hr : Reach eig0 s)
    (h : s.trim v = .ok s') : Reach eig0 s' := by
  obtain ⟨s1, hs1, hc⟩ := trim_cases h
  have r1 := reach_setActive hr hs1
  rcases hc with ⟨hlt, rfl⟩ | ⟨_, rfl⟩
  · have hmin : min s1.nActive s1.rows = s1.nActive := Nat.min_eq_left (Nat.le_of_lt hlt)
    refine ⟨?_, ?_, ?_, ?_, ?_, ?_⟩
    · show 1 ≤ min s1.nActive s1.rows
      rw [hmin]; exact r1.act_pos
    · show min s1.nActive s1.rows ≤ eig0.length
      rw [hmin]; exact le_trans r1.act_le r1.rows_le
    · show s1.eig.take s1.nActive = eig0.take (min s1.nActive s1.rows)
      rw [r1.eig_eq, List.take_take, hmin]
    · show (s1.trimmed ++ s1.eig.drop s1.nActive).Perm (eig0.drop (min s1.nActive s1.rows))
      rw [hmin, ← drop_take_append_drop eig0 r1.act_le r1.rows_le, r1.eig_eq]
      exact (List.perm_append_comm).trans (List.Perm.append_left _ r1.trimmed_perm)
    · exact r1.act_pos
    · show s1.nActive ≤ min s1.nActive s1.rows
      rw [hmin]
  · exact r1

theorem reach_ortho {eig0 : List Rat} {s s' : St} {d k1 : Nat} (hr : Reach eig0 s)
    (h : s.orthoAgainst d k1 = .ok s') : Reach eig0 s' := by
  rcases ortho_cases h with rfl | ⟨s1, h1, rfl | h2⟩
  · exact hr
  · exact reach_trim hr h1
  · exact reach_setActive (reach_trim hr h1) h2

theorem reach_apply {eig0 : List Rat} {s s' : St} (hr : Reach eig0 s) {o : Op} (h : s.apply o = .ok s') :
    Reach eig0 s' := by
  cases o with
  | set v => exact reach_setActive hr h
  | trim v => exact reach_trim hr h
  | ortho d k1 => exact reach_ortho hr h

theorem reach_step {eig0 : List Rat} {s : St} (hr : Reach eig0 s) (o : Op) : Reach eig0 (s.step o) := by
  unfold St.step
  split
  · rename_i s' h
    exact reach_apply hr h
  · exact hr

theorem reach_run {eig0 : List Rat} {s : St} (hr : Reach eig0 s) (ops : List Op) :
    Reach eig0 (s.run ops) := by
  induction ops generalizing s with
  | nil => exact hr
  | cons o t ih => exact ih (reach_step hr o)

/-! ### accessors -/

theorem variance_add_discarded (s : St) : s.variance + s.discarded.sum = s.originalVariance := by
  simp only [St.variance, St.eigenvalues, St.discarded, St.originalVariance, List.sum_append]
  have := sum_take_drop s.eig s.nActive
  linarith

theorem lmean_mul_length (l : List Rat) : lmean l * (l.length : Rat) = l.sum := by
  unfold lmean
  by_cases h : l.length = 0
  · have : l = [] := List.eq_nil_of_length_eq_zero h
    subst this; simp
  · have : (l.length : Rat) ≠ 0 := by exact_mod_cast h
    field_simp

theorem noiseVariance_mul_length {eig0 : List Rat} {s : St} (hr : Reach eig0 s) :
    s.noiseVariance * (s.discarded.length : Rat) = s.discarded.sum := by
  unfold St.noiseVariance
  split
  · rename_i hact
    have hdrop : s.eig.drop s.nActive = [] := by
      apply List.drop_eq_nil_of_le; rw [hr.eig_length, hact]
    simp only [St.discarded, hdrop, List.nil_append]
    split
    · exact lmean_mul_length _
    · rename_i h0
      have : s.trimmed = [] := List.eq_nil_of_length_eq_zero (by simpa using h0)
      simp [this]
  · exact lmean_mul_length _

theorem discarded_length {eig0 : List Rat} {s : St} (hr : Reach eig0 s) :
    s.discarded.length = eig0.length - s.nActive := by
  have h1 := hr.trimmed_perm.length_eq
  have h2 := hr.eig_length
  have h3 := hr.act_le
  have h4 := hr.rows_le
  simp only [St.discarded, List.length_append, List.length_drop, h1, h2]
  omega

/-! ### order and positivity of the spectrum survive every history -/

theorem reach_sorted_pos {eig0 : List Rat} {s : St} (hr : Reach eig0 s)
    (hs : eig0.Pairwise (· ≥ ·)) (hp : ∀ x ∈ eig0, 0 < x) :
    s.eig.Pairwise (· ≥ ·) ∧ (∀ x ∈ s.eig, 0 < x) ∧ (∀ x ∈ s.trimmed, 0 < x) ∧
      s.eigenvalues.Pairwise (· ≥ ·) ∧ (∀ x ∈ s.eigenvalues, 0 < x) := by
  have e1 : s.eig.Sublist eig0 := by rw [hr.eig_eq]; exact List.take_sublist _ _
  have e2 : s.eigenvalues.Sublist eig0 := (List.take_sublist _ _).trans e1
  refine ⟨hs.sublist e1, fun x hx => hp x (e1.subset hx), ?_, hs.sublist e2, fun x hx => hp x (e2.subset hx)⟩
  intro x hx
  exact hp x ((List.drop_sublist _ _).subset (hr.trimmed_perm.subset hx))

/-! ### trimming versus building with `max_n_components` -/

theorem build_int {eig0 : List Rat} {k : Nat} (hk1 : 1 ≤ k) (hk2 : k ≤ eig0.length) :
    build eig0.length eig0 (some (.int k)) =
      .ok { rows := k, eig := eig0.take k, trimmed := eig0.drop k, nActive := k } := by
  rcases Nat.lt_or_eq_of_le hk2 with hlt | heq
  · have h1 : ¬ ((k : Int) < 1) := by omega
    have h2 : ¬ ((k : Int) ≥ (eig0.length : Int)) := by omega
    have h3 : (0 : Int) < k ∧ (k : Int) ≤ (eig0.length : Int) := by omega
    have hk0 : 0 < k := hk1
    simp [build, init, St.trim, St.setActive, St.finalSet, h1, h2, h3, hk0, hlt, Nat.min_eq_left (Nat.le_of_lt hlt)]
  · subst heq
    have h1 : ¬ ((eig0.length : Int) < 1) := by omega
    simp [build, init, St.trim, St.setActive, h1]

theorem trim_int_of_reach {eig0 : List Rat} {s : St} (hr : Reach eig0 s) {k : Nat} (hk1 : 1 ≤ k)
    (hk2 : k ≤ s.rows) :
    ∃ s', s.trim (some (.int k)) = .ok s' ∧ s'.rows = k ∧ s'.nActive = k ∧ s'.eig = eig0.take k ∧
      s'.trimmed.Perm (eig0.drop k) ∧
      s'.trimmed = (if k < s.rows then s.trimmed ++ s.eig.drop k else s.trimmed) := by
  have hfin : ∀ s' : St, s.trim (some (.int k)) = .ok s' → s'.rows = k → s'.nActive = k →
      s'.trimmed = (if k < s.rows then s.trimmed ++ s.eig.drop k else s.trimmed) →
      ∃ s', s.trim (some (.int k)) = .ok s' ∧ s'.rows = k ∧ s'.nActive = k ∧ s'.eig = eig0.take k ∧
      s'.trimmed.Perm (eig0.drop k) ∧
      s'.trimmed = (if k < s.rows then s.trimmed ++ s.eig.drop k else s.trimmed) := by
    intro s' h hrow hact htr
    have r' := reach_trim hr h
    exact ⟨s', h, hrow, hact, by rw [r'.eig_eq, hrow], by simpa [hrow] using r'.trimmed_perm, htr⟩
  have h1 : ¬ ((k : Int) < 1) := by omega
  rcases Nat.lt_or_eq_of_le hk2 with hlt | heq
  · have h2 : ¬ ((k : Int) ≥ (s.rows : Int)) := by omega
    have h3 : (0 : Int) < k ∧ (k : Int) ≤ (s.rows : Int) := by omega
    apply hfin { rows := min k s.rows, eig := s.eig.take k, trimmed := s.trimmed ++ s.eig.drop k, nActive := k }
    · have hk0 : 0 < k := hk1
      simp [St.trim, St.setActive, St.finalSet, h1, h2, h3, hk0, hlt]
    · exact Nat.min_eq_left hk2
    · rfl
    · simp [hlt]
  · subst heq
    have hnl : ¬ (s.rows < s.rows) := Nat.lt_irrefl _
    by_cases ha : s.nActive < s.rows
    · have h3 : (0 : Int) < s.rows ∧ (s.rows : Int) ≤ (s.rows : Int) := by omega
      apply hfin { s with nActive := s.rows }
      · have hk0 : 0 < s.rows := hk1
        simp [St.trim, St.setActive, St.finalSet, h1, hk0, ha]
      · rfl
      · rfl
      · simp
    · have : s.nActive = s.rows := by have := hr.act_le; omega
      apply hfin s
      · simp [St.trim, St.setActive, h1, ha]
      · rfl
      · exact this
      · simp
/-- histories made of setter calls only -/
def Op.isSet : Op → Bool
  | .set _ => true
  | .trim _ => false
  | .ortho _ _ => false

theorem run_sets {rows : Nat} {eig0 : List Rat} (ops : List Op) (h : ∀ o ∈ ops, o.isSet = true)
    (s : St) (hs : s.rows = rows ∧ s.eig = eig0 ∧ s.trimmed = []) :
    (s.run ops).rows = rows ∧ (s.run ops).eig = eig0 ∧ (s.run ops).trimmed = [] := by
  induction ops generalizing s with
  | nil => exact hs
  | cons o t ih =>
    apply ih (fun o ho => h o (List.mem_cons_of_mem _ ho))
    have ho := h o List.mem_cons_self
    cases o with
    | trim v => simp [Op.isSet] at ho
    | ortho d k1 => simp [Op.isSet] at ho
    | set v =>
      unfold St.step
      split
      · rename_i s' hs'
        obtain ⟨h1, h2, h3, _⟩ := setActive_fields (show s.setActive v = .ok s' from hs')
        exact ⟨h1.trans hs.1, h2.trans hs.2.1, h3.trans hs.2.2⟩
      · exact hs

/-! ### eigen-witness post-processing -/

theorem insertDesc_perm {α} (x : Rat × α) (l : List (Rat × α)) : (insertDesc x l).Perm (x :: l) := by
  induction l with
  | nil => simp [insertDesc]
  | cons y ys ih =>
    unfold insertDesc
    split
    · exact List.Perm.refl _
    · exact (List.Perm.cons y ih).trans (List.Perm.swap x y ys)

theorem sortDesc_perm {α} (ev : List (Rat × α)) : (sortDesc ev).Perm ev := by
  induction ev with
  | nil => simp [sortDesc]
  | cons x xs ih => exact (insertDesc_perm x _).trans (List.Perm.cons x ih)

theorem insertDesc_pairwise {α} (x : Rat × α) {l : List (Rat × α)}
    (h : l.Pairwise (fun a b => b.1 ≤ a.1)) : (insertDesc x l).Pairwise (fun a b => b.1 ≤ a.1) := by
  induction l with
  | nil => simp [insertDesc]
  | cons y ys ih =>
    rw [List.pairwise_cons] at h
    unfold insertDesc
    split
    · rename_i hyx
      refine List.pairwise_cons.mpr ⟨?_, List.pairwise_cons.mpr h⟩
      intro z hz
      rcases List.mem_cons.mp hz with rfl | hz'
      · exact hyx
      · exact le_trans (h.1 z hz') hyx
    · rename_i hyx
      refine List.pairwise_cons.mpr ⟨?_, ih h.2⟩
      intro z hz
      rcases List.mem_cons.mp ((insertDesc_perm x ys).subset hz) with rfl | hz'
      · exact le_of_lt (not_le.mp hyx)
      · exact h.1 z hz'

theorem sortDesc_pairwise {α} (ev : List (Rat × α)) :
    (sortDesc ev).Pairwise (fun a b => b.1 ≤ a.1) := by
  induction ev with
  | nil => simp [sortDesc]
  | cons x xs ih => exact insertDesc_pairwise x ih

theorem le_maxAbs {l : List Rat} {x : Rat} (h : x ∈ l) : x ≤ maxAbs l := by
  induction l with
  | nil => cases h
  | cons a t ih =>
    rcases List.mem_cons.mp h with rfl | h'
    · unfold maxAbs
      refine le_trans ?_ (le_max_left _ _)
      split <;> linarith
    · exact le_trans (ih h') (le_max_right _ _)

/-- the kept eigenpairs without the precision-matrix option: a sublist of the descending sort of the
witness (so: in descending order, nothing invented, order of the witness irrelevant), all positive
and above `eps * max|λ|`, and nothing that passes both tests is dropped -/
theorem postprocess_spec {α} (eps : Rat) (ev : List (Rat × α)) :
    (postprocess eps false ev).Sublist (sortDesc ev) ∧
    (postprocess eps false ev).Pairwise (fun a b => b.1 ≤ a.1) ∧
    (∀ p ∈ postprocess eps false ev, 0 < p.1 ∧ maxAbs ((sortDesc ev).map Prod.fst) * eps < p.1) ∧
    (∀ p ∈ ev, 0 < p.1 → maxAbs ((sortDesc ev).map Prod.fst) * eps < p.1 → p ∈ postprocess eps false ev) := by
  have hsub : (postprocess eps false ev).Sublist (sortDesc ev) := by
    simp only [postprocess, Bool.false_eq_true, if_false]
    exact List.filter_sublist.trans List.filter_sublist
  refine ⟨hsub, (sortDesc_pairwise ev).sublist hsub, ?_, ?_⟩
  · intro p hp
    simp only [postprocess, Bool.false_eq_true, if_false, List.mem_filter, decide_eq_true_eq] at hp
    exact ⟨hp.1.2, hp.2⟩
  · intro p hp h0 hl
    simp only [postprocess, Bool.false_eq_true, if_false, List.mem_filter, decide_eq_true_eq]
    exact ⟨⟨(sortDesc_perm ev).mem_iff.mpr hp, h0⟩, hl⟩

theorem postprocess_inverse_spec {α} (eps : Rat) (ev : List (Rat × α)) :
    (postprocess eps true ev).Pairwise (fun a b => b.1 ≤ a.1) ∧
    (∀ p ∈ postprocess eps true ev, 0 < p.1) ∧
    (postprocess eps true ev).length = (postprocess eps false ev).length := by
  have hk := postprocess_spec eps ev
  simp only [postprocess, Bool.false_eq_true, if_false, if_true] at hk ⊢
  generalize List.filter (fun p => decide (maxAbs (List.map Prod.fst (sortDesc ev)) * eps < p.1))
    (List.filter (fun p => decide (0 < p.1)) (sortDesc ev)) = kept at hk ⊢
  obtain ⟨_, hpw, hpos, _⟩ := hk
  refine ⟨?_, ?_, by simp⟩
  · rw [List.pairwise_map, List.pairwise_reverse]
    refine hpw.imp_of_mem ?_
    intro a b ha hb hab
    exact (inv_le_inv₀ (hpos a ha).1 (hpos b hb).1).mpr hab
  · intro p hp
    simp only [List.mem_map, List.mem_reverse] at hp
    obtain ⟨q, hq, rfl⟩ := hp
    exact inv_pos.mpr (hpos q hq).1

end MenpoModel.C10
