/-
C04 helper lemmas: the executable matrix operations of `Core/C04Homog.lean` are Mathlib's
(`Matrix.det`, `Matrix.adjugate`, `⁻¹`, `*`, `*ᵥ`) in every dimension.  `toM` is `Matrix.of`
(the identity function: `Matrix m n α` is by definition `m → n → α`).
-/
import Mathlib.LinearAlgebra.Matrix.NonsingularInverse
import Mathlib.Algebra.Order.Field.Rat
import MenpoModel.Core.C04Homog

namespace MenpoModel.C04
open Matrix

/-- view an executable matrix as a Mathlib matrix -/
def toM {n : ℕ} (A : Mat n) : Matrix (Fin n) (Fin n) ℚ := Matrix.of A
/-- and back -/
def ofM {n : ℕ} (A : Matrix (Fin n) (Fin n) ℚ) : Mat n := fun i j => A i j

@[simp] theorem toM_apply {n : ℕ} (A : Mat n) (i j : Fin n) : toM A i j = A i j := rfl
@[simp] theorem ofM_apply {n : ℕ} (A : Matrix (Fin n) (Fin n) ℚ) (i j : Fin n) : ofM A i j = A i j := rfl
@[simp] theorem toM_ofM {n : ℕ} (A : Matrix (Fin n) (Fin n) ℚ) : toM (ofM A) = A := rfl
@[simp] theorem ofM_toM {n : ℕ} (A : Mat n) : ofM (toM A) = A := rfl
theorem toM_injective {n : ℕ} {A B : Mat n} (h : toM A = toM B) : A = B := by
  have := congrArg ofM h; simpa using this

theorem sumFin_eq {n : ℕ} (f : Fin n → ℚ) : sumFin f = ∑ i, f i := (Fin.sum_univ_def f).symm

theorem sgn_eq (k : ℕ) : sgn k = (-1 : ℚ) ^ k := by
  unfold sgn
  rcases Nat.even_or_odd k with h | h
  · have : k % 2 = 0 := Nat.even_iff.mp h
    simp [this, h.neg_one_pow]
  · have : k % 2 = 1 := Nat.odd_iff.mp h
    simp [this, h.neg_one_pow]

theorem skip_eq {n : ℕ} (p : Fin (n + 1)) (i : Fin n) : skip p i = p.succAbove i := by
  simp [skip, Fin.succAbove]

theorem det_eq : ∀ (n : ℕ) (A : Mat n), det n A = Matrix.det (toM A)
  | 0, A => by simp [det]
  | n + 1, A => by
    rw [Matrix.det_succ_row_zero]
    simp only [det, sumFin_eq, sgn_eq]
    refine Finset.sum_congr rfl fun j _ => ?_
    rw [det_eq n]
    congr 1

theorem adj_eq {n : ℕ} (A : Mat n) : toM (adj A) = Matrix.adjugate (toM A) := by
  cases n with
  | zero => ext i; exact i.elim0
  | succ n =>
    ext i j
    rw [Matrix.adjugate_fin_succ_eq_det_submatrix]
    simp only [toM_apply, adj, sgn_eq, det_eq]
    congr 1

theorem mul_eq {n : ℕ} (A B : Mat n) : toM (Mat.mul A B) = toM A * toM B := by
  ext i j; simp [Mat.mul, sumFin_eq, Matrix.mul_apply]

theorem one_eq {n : ℕ} : toM (Mat.one : Mat n) = 1 := by
  ext i j; simp [Mat.one, Matrix.one_apply]

theorem mulVec_eq {n : ℕ} (A : Mat n) (v : Vec n) : Mat.mulVec A v = toM A *ᵥ v := by
  funext i; simp [Mat.mulVec, sumFin_eq, Matrix.mulVec, dotProduct]

theorem transpose_eq {n : ℕ} (A : Mat n) : toM (Mat.transpose A) = (toM A)ᵀ := rfl

theorem inv_eq_some {n : ℕ} (A : Mat n) (h : Matrix.det (toM A) ≠ 0) :
    inv A = some (ofM (toM A)⁻¹) := by
  unfold inv
  rw [det_eq, if_neg h]
  congr 1
  funext i j
  have := congrFun (congrFun (adj_eq A) i) j
  simp only [toM_apply] at this
  rw [this, ofM_apply, Matrix.inv_def, Ring.inverse_eq_inv']
  simp [Matrix.smul_apply, div_eq_inv_mul]

theorem inv_eq_none {n : ℕ} (A : Mat n) (h : Matrix.det (toM A) = 0) : inv A = none := by
  unfold inv; rw [det_eq, if_pos h]

end MenpoModel.C04
