/-
C08 — the heap lemmas: sharing, in-place writes, copies, the caller's own writes.  Core Lean only.
-/
import MenpoModel.Core.C08Heap
import MenpoModel.Lemmas.C08Edits

namespace MenpoModel.C08

variable {Pts A : Type}

def cellOf (o : HObj A) : Option Nat :=
  match o.state with
  | .hom c => some c
  | _ => none

/-- every object's matrix cell is allocated and no two objects share one; every reference points to an
allocated `PointCloud`, every `PointCloud` to an allocated array (what constructors, `copy` and the
parameter edits establish) -/
structure WF (hp : Heap Pts) (os : List (HObj A)) : Prop where
  bound : ∀ (i : Nat) (o : HObj A) (c : Nat), os[i]? = some o → cellOf o = some c → c < hp.next
  distinct : ∀ (i j : Nat) (oi oj : HObj A) (c : Nat), os[i]? = some oi → os[j]? = some oj →
    cellOf oi = some c → cellOf oj = some c → i = j
  refs : ∀ (i : Nat) (o : HObj A), os[i]? = some o → o.source < hp.nextPc ∧ o.target < hp.nextPc
  pcs : ∀ r, r < hp.nextPc → hp.pc r < hp.nextArr

/-- nothing that existed is written: no array of coordinates, no `PointCloud`'s reference to its array -/
structure Frame (hp hp' : Heap Pts) : Prop where
  arr : ∀ k, k < hp.nextArr → hp'.arr k = hp.arr k
  pc : ∀ r, r < hp.nextPc → hp'.pc r = hp.pc r
  monoArr : hp.nextArr ≤ hp'.nextArr
  monoPc : hp.nextPc ≤ hp'.nextPc

theorem Frame.refl (hp : Heap Pts) : Frame hp hp := ⟨fun _ _ => rfl, fun _ _ => rfl, Nat.le_refl _, Nat.le_refl _⟩

theorem Frame.of_eq {hp hp' : Heap Pts} (h1 : hp'.arr = hp.arr) (h2 : hp'.pc = hp.pc)
    (h3 : hp'.nextArr = hp.nextArr) (h4 : hp'.nextPc = hp.nextPc) : Frame hp hp' :=
  ⟨fun _ _ => by rw [h1], fun _ _ => by rw [h2], by rw [h3]; exact Nat.le_refl _, by rw [h4]; exact Nat.le_refl _⟩

theorem Frame.trans {a b c : Heap Pts} (h1 : Frame a b) (h2 : Frame b c) : Frame a c :=
  ⟨fun k hk => (h2.arr k (Nat.lt_of_lt_of_le hk h1.monoArr)).trans (h1.arr k hk),
   fun r hr => (h2.pc r (Nat.lt_of_lt_of_le hr h1.monoPc)).trans (h1.pc r hr),
   Nat.le_trans h1.monoArr h2.monoArr, Nat.le_trans h1.monoPc h2.monoPc⟩

/-- the coordinates seen through an existing `PointCloud` are unchanged -/
theorem Frame.pts {hp hp' : Heap Pts} (h : Frame hp hp') (r : Nat) (hr : r < hp.nextPc)
    (hpc : hp.pc r < hp.nextArr) : hp'.pts r = hp.pts r := by
  unfold Heap.pts
  rw [h.pc r hr, h.arr _ hpc]

/-- what one operation on one object may do to the heap: `touched` is the only existing matrix cell it may
write; the resulting object's cell is that one or a fresh one -/
structure Local (hp hp' : Heap Pts) (touched : Option Nat) (o' : HObj A) : Prop where
  frame : Frame hp hp'
  pcs : ∀ r, r < hp'.nextPc → hp'.pc r < hp'.nextArr
  mono : hp.next ≤ hp'.next
  mats : ∀ k, k < hp.next → touched ≠ some k → hp'.mats k = hp.mats k
  cell : ∀ c', cellOf o' = some c' → c' < hp'.next ∧ (touched = some c' ∨ hp.next ≤ c')
  refs : o'.source < hp'.nextPc ∧ o'.target < hp'.nextPc

theorem Local.trans {a b c : Heap Pts} {t : Option Nat} {o1 o2 : HObj A}
    (h1 : Local a b t o1) (h2 : Local b c (cellOf o1) o2) : Local a c t o2 := by
  refine ⟨h1.frame.trans h2.frame, h2.pcs, Nat.le_trans h1.mono h2.mono, ?_, ?_, h2.refs⟩
  · intro k hk ht
    rw [h2.mats k (Nat.lt_of_lt_of_le hk h1.mono) ?_, h1.mats k hk ht]
    intro hc
    rcases (h1.cell k hc).2 with h | h
    · exact ht h
    · omega
  · intro c' hc'
    obtain ⟨hlt, hor⟩ := h2.cell c' hc'
    refine ⟨hlt, ?_⟩
    rcases hor with h | h
    · exact (h1.cell c' h).2
    · exact Or.inr (Nat.le_trans h1.mono h)

theorem updMat_same (m : Nat → Mat) (c : Nat) (v : Mat) : updMat m c v c = v := by simp [updMat]
theorem updMat_other (m : Nat → Mat) (c k : Nat) (v : Mat) (h : k ≠ c) : updMat m c v k = m k := by
  simp [updMat, h]

theorem absObj_congr (hp hp' : Heap Pts) (o : HObj A) (hs : hp'.pts o.source = hp.pts o.source)
    (ht : hp'.pts o.target = hp.pts o.target)
    (hm : ∀ c, cellOf o = some c → hp'.mats c = hp.mats c) : absObj hp' o = absObj hp o := by
  unfold absObj
  rw [hs, ht]
  cases hst : o.state with
  | hom c => simp [hm c (by simp [cellOf, hst])]
  | tps l k => rfl
  | pwa tv => rfl

/-- an object other than the one operated on is seen unchanged -/
theorem Local.other {hp hp' : Heap Pts} {t : Option Nat} {o' : HObj A} (h : Local hp hp' t o')
    (hpcs : ∀ r, r < hp.nextPc → hp.pc r < hp.nextArr) (x : HObj A)
    (hr : x.source < hp.nextPc ∧ x.target < hp.nextPc)
    (hc : ∀ c, cellOf x = some c → c < hp.next ∧ t ≠ some c) : absObj hp' x = absObj hp x :=
  absObj_congr hp hp' x (h.frame.pts _ hr.1 (hpcs _ hr.1)) (h.frame.pts _ hr.2 (hpcs _ hr.2))
    (fun c hcx => h.mats c (hc c hcx).1 (hc c hcx).2)

/-! ### the primitives -/

theorem hSync_spec (e : Ext Pts A) (hp : Heap Pts) (o : HObj A)
    (hpcs : ∀ r, r < hp.nextPc → hp.pc r < hp.nextArr)
    (hr : o.source < hp.nextPc ∧ o.target < hp.nextPc)
    (hb : ∀ c, cellOf o = some c → c < hp.next) :
    absObj (hSync e hp o).1 (hSync e hp o).2 = sync e (absObj hp o) ∧
    Local hp (hSync e hp o).1 (cellOf o) (hSync e hp o).2 := by
  cases hc : o.cls <;> cases hst : o.state <;>
    simp only [hSync, sync, absObj, hc, hst] <;>
    refine ⟨?_, ⟨⟨fun _ _ => rfl, fun _ _ => rfl, Nat.le_refl _, Nat.le_refl _⟩, hpcs, ?_, ?_, ?_, hr⟩⟩ <;>
    simp_all [cellOf, updMat, Heap.pts]
  all_goals (intro k h1 h2 h3; first | omega | exact absurd h3.symm h2)

theorem hSetTarget_spec (e : Ext Pts A) (hp : Heap Pts) (o : HObj A) (r : Nat)
    (hpcs : ∀ r, r < hp.nextPc → hp.pc r < hp.nextArr)
    (hr : o.source < hp.nextPc ∧ o.target < hp.nextPc) (hrr : r < hp.nextPc)
    (hb : ∀ c, cellOf o = some c → c < hp.next) :
    absObj (hSetTarget e hp o r).1 (hSetTarget e hp o r).2 = step e (absObj hp o) (hp.pts r) ∧
    Local hp (hSetTarget e hp o r).1 (cellOf o) (hSetTarget e hp o r).2 := by
  unfold hSetTarget step setTarget
  cases hv : verifyTarget e (absObj hp o) (hp.pts r) with
  | error err =>
    refine ⟨rfl, ⟨Frame.refl hp, hpcs, Nat.le_refl _, fun _ _ _ => rfl, ?_, hr⟩⟩
    intro c' hc'
    exact ⟨hb c' hc', Or.inl hc'⟩
  | ok u =>
    cases u
    have h := hSync_spec e hp { o with target := r } hpcs ⟨hr.1, hrr⟩ hb
    exact ⟨h.1.trans rfl, h.2⟩

theorem allocPc_spec (hp : Heap Pts) (v : Pts) (hpcs : ∀ r, r < hp.nextPc → hp.pc r < hp.nextArr) :
    Frame hp (allocPc hp v).1 ∧ (allocPc hp v).2 = hp.nextPc ∧ (allocPc hp v).1.nextPc = hp.nextPc + 1 ∧
    (allocPc hp v).1.pts hp.nextPc = v ∧ (allocPc hp v).1.mats = hp.mats ∧ (allocPc hp v).1.next = hp.next ∧
    (∀ r, r < (allocPc hp v).1.nextPc → (allocPc hp v).1.pc r < (allocPc hp v).1.nextArr) := by
  refine ⟨⟨?_, ?_, by simp [allocPc], by simp [allocPc]⟩, rfl, rfl, by simp [allocPc, Heap.pts, updArr, updPc],
    rfl, rfl, ?_⟩
  · intro k hk; have : k ≠ hp.nextArr := by omega
    simp [allocPc, updArr, this]
  · intro r hr; have : r ≠ hp.nextPc := by omega
    simp [allocPc, updPc, this]
  · intro r hr
    simp only [allocPc, updPc] at hr ⊢
    by_cases h : r = hp.nextPc
    · simp [h]
    · simp only [h, if_false]; have := hpcs r (by omega); omega

theorem hCopy_spec (hp : Heap Pts) (o : HObj A)
    (hpcs : ∀ r, r < hp.nextPc → hp.pc r < hp.nextArr)
    (hr : o.source < hp.nextPc ∧ o.target < hp.nextPc)
    (_hb : ∀ c, cellOf o = some c → c < hp.next) :
    absObj (hCopy hp o).1 (hCopy hp o).2 = absObj hp o ∧ Local hp (hCopy hp o).1 none (hCopy hp o).2 := by
  cases hst : o.state with
  | hom c =>
    have hcp : hCopy hp o = ({ hp with mats := updMat hp.mats hp.next (hp.mats c), next := hp.next + 1 },
               { o with state := .hom hp.next }) := by simp [hCopy, hst]
    rw [hcp]
    refine ⟨by simp [absObj, hst, updMat, Heap.pts], ⟨Frame.of_eq rfl rfl rfl rfl, hpcs, by simp, ?_, ?_, hr⟩⟩
    · intro k hk _; have : k ≠ hp.next := by omega
      simp [updMat, this]
    · intro c' hc'; simp [cellOf] at hc'; subst hc'; simp
  | tps l k =>
    obtain ⟨f1, e1, n1, p1, m1, x1, q1⟩ := allocPc_spec hp (hp.pts o.source) hpcs
    obtain ⟨f2, e2, n2, p2, m2, x2, q2⟩ := allocPc_spec (allocPc hp (hp.pts o.source)).1 (hp.pts o.target) q1
    have hcp : hCopy hp o = ((allocPc (allocPc hp (hp.pts o.source)).1 (hp.pts o.target)).1,
        { o with source := hp.nextPc, target := hp.nextPc + 1 }) := by
      simp [hCopy, hst, e1, e2, n1]
    rw [hcp]
    refine ⟨?_, ⟨f1.trans f2, q2, by rw [x2, x1]; exact Nat.le_refl _, ?_, ?_, ?_⟩⟩
    · have hs : (allocPc (allocPc hp (hp.pts o.source)).1 (hp.pts o.target)).1.pts hp.nextPc = hp.pts o.source := by
        rw [f2.pts hp.nextPc (by rw [n1]; omega) (by have := q1 hp.nextPc (by rw [n1]; omega); exact this), p1]
      have ht : (allocPc (allocPc hp (hp.pts o.source)).1 (hp.pts o.target)).1.pts (hp.nextPc + 1) = hp.pts o.target := by
        rw [← n1]; exact p2
      simp [absObj, hst, hs, ht]
    · intro k _ _; rw [m2, m1]
    · intro c' hc'; simp [cellOf, hst] at hc'
    · rw [n2, n1]; exact ⟨by simp; omega, by simp⟩
  | pwa tv =>
    obtain ⟨f1, e1, n1, p1, m1, x1, q1⟩ := allocPc_spec hp (hp.pts o.source) hpcs
    obtain ⟨f2, e2, n2, p2, m2, x2, q2⟩ := allocPc_spec (allocPc hp (hp.pts o.source)).1 (hp.pts o.target) q1
    have hcp : hCopy hp o = ((allocPc (allocPc hp (hp.pts o.source)).1 (hp.pts o.target)).1,
        { o with source := hp.nextPc, target := hp.nextPc + 1 }) := by
      simp [hCopy, hst, e1, e2, n1]
    rw [hcp]
    refine ⟨?_, ⟨f1.trans f2, q2, by rw [x2, x1]; exact Nat.le_refl _, ?_, ?_, ?_⟩⟩
    · have hs : (allocPc (allocPc hp (hp.pts o.source)).1 (hp.pts o.target)).1.pts hp.nextPc = hp.pts o.source := by
        rw [f2.pts hp.nextPc (by rw [n1]; omega) (by have := q1 hp.nextPc (by rw [n1]; omega); exact this), p1]
      have ht : (allocPc (allocPc hp (hp.pts o.source)).1 (hp.pts o.target)).1.pts (hp.nextPc + 1) = hp.pts o.target := by
        rw [← n1]; exact p2
      simp [absObj, hst, hs, ht]
    · intro k _ _; rw [m2, m1]
    · intro c' hc'; simp [cellOf, hst] at hc'
    · rw [n2, n1]; exact ⟨by simp; omega, by simp⟩

theorem hSyncTarget_err (e : Ext Pts A) (hp : Heap Pts) (o : HObj A) (err : Err)
    (hv : verifyTarget e (absObj hp o) (alignedSource e (absObj hp o)) = .error err) :
    hSyncTarget e hp o = (hp, o) := by simp [hSyncTarget, hv]

theorem hSyncTarget_ok (e : Ext Pts A) (hp : Heap Pts) (o : HObj A)
    (hv : verifyTarget e (absObj hp o) (alignedSource e (absObj hp o)) = .ok ()) :
    hSyncTarget e hp o = ((allocPc hp (alignedSource e (absObj hp o))).1,
      { o with target := (allocPc hp (alignedSource e (absObj hp o))).2 }) := by simp [hSyncTarget, hv]

theorem hSyncTarget_spec (e : Ext Pts A) (hp : Heap Pts) (o : HObj A)
    (hpcs : ∀ r, r < hp.nextPc → hp.pc r < hp.nextArr)
    (hr : o.source < hp.nextPc ∧ o.target < hp.nextPc)
    (hb : ∀ c, cellOf o = some c → c < hp.next) :
    absObj (hSyncTarget e hp o).1 (hSyncTarget e hp o).2 = syncTarget e (absObj hp o) ∧
    Local hp (hSyncTarget e hp o).1 (cellOf o) (hSyncTarget e hp o).2 := by
  rw [syncTarget_eq]
  have hsync_ok := hSyncTarget_ok e hp o
  have hsync_err := hSyncTarget_err e hp o
  generalize alignedSource e (absObj hp o) = t at hsync_ok hsync_err ⊢
  cases hv : verifyTarget e (absObj hp o) t with
  | error err =>
    rw [hsync_err err hv]
    refine ⟨rfl, ⟨Frame.refl hp, hpcs, Nat.le_refl _, fun _ _ _ => rfl, ?_, hr⟩⟩
    intro c' hc'; exact ⟨hb c' hc', Or.inl hc'⟩
  | ok u =>
    cases u
    rw [hsync_ok hv]
    obtain ⟨f1, e1, n1, p1, m1, x1, q1⟩ := allocPc_spec hp t hpcs
    refine ⟨?_, ⟨f1, q1, by rw [x1]; exact Nat.le_refl _, fun k _ _ => by rw [m1], ?_, ?_⟩⟩
    · have hs := f1.pts o.source hr.1 (hpcs _ hr.1)
      have ht : (allocPc hp t).1.pts (allocPc hp t).2 = t := by rw [e1]; exact p1
      simp only [absObj, ht, hs, m1]
    · intro c' hc'
      have : cellOf ({ o with target := (allocPc hp t).2 } : HObj A) = cellOf o := rfl
      rw [this] at hc'
      rw [x1]; exact ⟨hb c' hc', Or.inl hc'⟩
    · show o.source < _ ∧ (allocPc hp t).2 < _
      rw [n1, e1]; exact ⟨by omega, by omega⟩

theorem hRebind_spec (hp : Heap Pts) (o : HObj A) (m : Mat)
    (hpcs : ∀ r, r < hp.nextPc → hp.pc r < hp.nextArr)
    (hr : o.source < hp.nextPc ∧ o.target < hp.nextPc) :
    absObj (hRebind hp o m).1 (hRebind hp o m).2 = { absObj hp o with state := .hom m } ∧
    Local hp (hRebind hp o m).1 (cellOf o) (hRebind hp o m).2 := by
  refine ⟨by simp [hRebind, absObj, updMat, Heap.pts], ⟨Frame.of_eq rfl rfl rfl rfl, hpcs, by simp [hRebind], ?_, ?_, hr⟩⟩
  · intro k hk _; have : k ≠ hp.next := by omega
    simp [hRebind, updMat, this]
  · intro c' hc'; simp [hRebind, cellOf] at hc'; subst hc'; simp [hRebind]

/-- an in-place write into the object's own matrix cell -/
theorem hPoke_spec (hp : Heap Pts) (o : HObj A) (c : Nat) (x : Mat) (hst : o.state = .hom c)
    (hpcs : ∀ r, r < hp.nextPc → hp.pc r < hp.nextArr)
    (hr : o.source < hp.nextPc ∧ o.target < hp.nextPc) (hb : c < hp.next) :
    absObj { hp with mats := updMat hp.mats c x } o = { absObj hp o with state := .hom x } ∧
    Local hp { hp with mats := updMat hp.mats c x } (cellOf o) o := by
  refine ⟨by simp [absObj, hst, updMat, Heap.pts], ⟨Frame.of_eq rfl rfl rfl rfl, hpcs, Nat.le_refl _, ?_, ?_, hr⟩⟩
  · intro k _ hk
    have : k ≠ c := fun h => hk (by simp [cellOf, hst, h])
    simp [updMat, this]
  · intro c' hc'
    simp [cellOf, hst] at hc'; subst hc'
    exact ⟨hb, Or.inl (by simp [cellOf, hst])⟩

theorem hEdit_spec (e : Ext Pts A) (hp : Heap Pts) (o : HObj A) (k : EditKind) (m : Mat)
    (hpcs : ∀ r, r < hp.nextPc → hp.pc r < hp.nextArr)
    (hr : o.source < hp.nextPc ∧ o.target < hp.nextPc)
    (hb : ∀ c, cellOf o = some c → c < hp.next) :
    absObj (hEdit e hp o k m).1 (hEdit e hp o k m).2 = vEdit e (absObj hp o) k m ∧
    Local hp (hEdit e hp o k m).1 (cellOf o) (hEdit e hp o k m).2 := by
  have hid : Local hp hp (cellOf o) o :=
    ⟨Frame.refl hp, hpcs, Nat.le_refl _, fun _ _ _ => rfl, fun c' hc' => ⟨hb c' hc', Or.inl hc'⟩, hr⟩
  -- the three shapes an edit can take
  have rebindSync : ∀ x : Mat,
      absObj (hSyncTarget e (hRebind hp o x).1 (hRebind hp o x).2).1 (hSyncTarget e (hRebind hp o x).1 (hRebind hp o x).2).2
        = syncTarget e { absObj hp o with state := .hom x } ∧
      Local hp (hSyncTarget e (hRebind hp o x).1 (hRebind hp o x).2).1 (cellOf o)
        (hSyncTarget e (hRebind hp o x).1 (hRebind hp o x).2).2 := by
    intro x
    obtain ⟨a1, l1⟩ := hRebind_spec hp o x hpcs hr
    obtain ⟨a2, l2⟩ := hSyncTarget_spec e (hRebind hp o x).1 (hRebind hp o x).2 l1.pcs l1.refs
      (fun c' hc' => (l1.cell c' hc').1)
    exact ⟨by rw [a2, a1], l1.trans l2⟩
  have pokeSync : ∀ (c : Nat) (x : Mat), o.state = .hom c →
      absObj (hSyncTarget e { hp with mats := updMat hp.mats c x } o).1 (hSyncTarget e { hp with mats := updMat hp.mats c x } o).2
        = syncTarget e { absObj hp o with state := .hom x } ∧
      Local hp (hSyncTarget e { hp with mats := updMat hp.mats c x } o).1 (cellOf o)
        (hSyncTarget e { hp with mats := updMat hp.mats c x } o).2 := by
    intro c x hst
    have hc : c < hp.next := hb c (by simp [cellOf, hst])
    obtain ⟨a1, l1⟩ := hPoke_spec hp o c x hst hpcs hr hc
    obtain ⟨a2, l2⟩ := hSyncTarget_spec e { hp with mats := updMat hp.mats c x } o l1.pcs l1.refs
      (fun c' hc' => (l1.cell c' hc').1)
    exact ⟨by rw [a2, a1], l1.trans l2⟩
  have rebind := fun x => hRebind_spec hp o x hpcs hr
  obtain ⟨cls, rot, mir, ker, sv, src, tgt, st⟩ := o
  cases st with
  | tps l k' => exact ⟨rfl, hid⟩
  | pwa tv => exact ⟨rfl, hid⟩
  | hom c =>
    cases cls <;> cases k <;>
      first
        | exact rebindSync _
        | exact pokeSync c _ rfl
        | exact rebind _
        | exact ⟨rfl, hid⟩

/-! ### lists of objects -/

theorem set_map_congr {α β} (l : List α) (i : Nat) (v : β) (f g : α → β)
    (h : ∀ (k : Nat) (x : α), k ≠ i → l[k]? = some x → f x = g x) :
    (l.map f).set i v = (l.map g).set i v := by
  apply List.ext_getElem?
  intro k
  simp only [List.getElem?_set, List.getElem?_map, List.length_map]
  by_cases hik : i = k
  · simp [hik]
  · simp only [hik, if_false]
    cases hx : l[k]? with
    | none => rfl
    | some x => simp [h k x (fun hh => hik hh.symm) hx]

/-- an operation on object `i` that is `Local` to its cell: the invariant survives, every other object is
seen unchanged -/
theorem replace_spec (hp hp' : Heap Pts) (os : List (HObj A)) (i : Nat) (o o' : HObj A)
    (hwf : WF hp os) (hget : os[i]? = some o) (hloc : Local hp hp' (cellOf o) o') :
    WF hp' (os.set i o') ∧
    (os.set i o').map (absObj hp') = ((os.map (absObj hp)).set i (absObj hp' o')) := by
  have hilt : i < os.length := (List.getElem?_eq_some_iff.mp hget).1
  refine ⟨⟨?_, ?_, ?_, hloc.pcs⟩, ?_⟩
  · intro k ok c hk hc
    rw [List.getElem?_set] at hk
    by_cases hik : i = k
    · simp only [hik, if_true] at hk
      split at hk
      · simp only [Option.some.injEq] at hk; subst hk; exact (hloc.cell c hc).1
      · simp at hk
    · simp only [hik, if_false] at hk
      exact Nat.lt_of_lt_of_le (hwf.bound k ok c hk hc) hloc.mono
  · intro k1 k2 o1 o2 c h1 h2 hc1 hc2
    rw [List.getElem?_set] at h1 h2
    by_cases hi1 : i = k1
    · by_cases hi2 : i = k2
      · exact hi1.symm.trans hi2
      · simp only [hi1, if_true] at h1
        simp only [hi2, if_false] at h2
        split at h1
        · simp only [Option.some.injEq] at h1; subst h1
          rcases (hloc.cell c hc1).2 with hold | hnew
          · exact absurd (hwf.distinct i k2 o o2 c hget h2 hold hc2) hi2
          · have hlt : c < hp.next := hwf.bound k2 o2 c h2 hc2; omega
        · simp at h1
    · by_cases hi2 : i = k2
      · simp only [hi1, if_false] at h1
        simp only [hi2, if_true] at h2
        split at h2
        · simp only [Option.some.injEq] at h2; subst h2
          rcases (hloc.cell c hc2).2 with hold | hnew
          · exact absurd (hwf.distinct i k1 o o1 c hget h1 hold hc1) hi1
          · have hlt : c < hp.next := hwf.bound k1 o1 c h1 hc1; omega
        · simp at h2
      · simp only [hi1, if_false] at h1
        simp only [hi2, if_false] at h2
        exact hwf.distinct k1 k2 o1 o2 c h1 h2 hc1 hc2
  · intro k ok hk
    rw [List.getElem?_set] at hk
    by_cases hik : i = k
    · simp only [hik, if_true] at hk
      split at hk
      · simp only [Option.some.injEq] at hk; subst hk; exact hloc.refs
      · simp at hk
    · simp only [hik, if_false] at hk
      have := hwf.refs k ok hk
      exact ⟨Nat.lt_of_lt_of_le this.1 hloc.frame.monoPc, Nat.lt_of_lt_of_le this.2 hloc.frame.monoPc⟩
  · rw [List.map_set]
    apply set_map_congr
    intro k x hki hx
    apply hloc.other hwf.pcs x (hwf.refs k x hx)
    intro c hc
    refine ⟨hwf.bound k x c hx hc, ?_⟩
    intro hoc
    exact hki (hwf.distinct k i x o c hx hget hc hoc)

/-- a new object whose cell (if any) is fresh is appended: same -/
theorem append_spec (hp hp' : Heap Pts) (os : List (HObj A)) (o' : HObj A)
    (hwf : WF hp os) (hloc : Local hp hp' none o') :
    WF hp' (os ++ [o']) ∧ (os ++ [o']).map (absObj hp') = os.map (absObj hp) ++ [absObj hp' o'] := by
  have hz : ∀ k (x : HObj A), ¬ k < os.length → [o'][k - os.length]? = some x → k = os.length ∧ x = o' := by
    intro k x hlt hx
    cases hkk : k - os.length with
    | zero => rw [hkk] at hx; simp at hx; exact ⟨by omega, hx.symm⟩
    | succ n => rw [hkk] at hx; simp at hx
  have hfresh : ∀ c, cellOf o' = some c → c < hp'.next ∧ hp.next ≤ c := by
    intro c hc
    obtain ⟨h1, h2⟩ := hloc.cell c hc
    rcases h2 with h | h
    · cases h
    · exact ⟨h1, h⟩
  refine ⟨⟨?_, ?_, ?_, hloc.pcs⟩, ?_⟩
  · intro k ok c hk hc
    rw [List.getElem?_append] at hk
    split at hk
    · exact Nat.lt_of_lt_of_le (hwf.bound k ok c hk hc) hloc.mono
    · rename_i hlen
      obtain ⟨_, rfl⟩ := hz k ok hlen hk
      exact (hfresh c hc).1
  · intro k1 k2 o1 o2 c h1 h2 hc1 hc2
    rw [List.getElem?_append] at h1 h2
    split at h1
    · split at h2
      · exact hwf.distinct k1 k2 o1 o2 c h1 h2 hc1 hc2
      · rename_i hlt2
        obtain ⟨_, rfl⟩ := hz k2 o2 hlt2 h2
        have hlt : c < hp.next := hwf.bound k1 o1 c h1 hc1
        have := (hfresh c hc2).2; omega
    · rename_i hlt1
      obtain ⟨hk1, rfl⟩ := hz k1 o1 hlt1 h1
      split at h2
      · have hlt : c < hp.next := hwf.bound k2 o2 c h2 hc2
        have := (hfresh c hc1).2; omega
      · rename_i hlt2
        obtain ⟨hk2, _⟩ := hz k2 o2 hlt2 h2
        omega
  · intro k ok hk
    rw [List.getElem?_append] at hk
    split at hk
    · have := hwf.refs k ok hk
      exact ⟨Nat.lt_of_lt_of_le this.1 hloc.frame.monoPc, Nat.lt_of_lt_of_le this.2 hloc.frame.monoPc⟩
    · rename_i hlen
      obtain ⟨_, rfl⟩ := hz k ok hlen hk
      exact hloc.refs
  · rw [List.map_append, List.map_cons, List.map_nil]
    congr 1
    apply List.map_congr_left
    intro x hx
    obtain ⟨k, hk, rfl⟩ := List.mem_iff_getElem.mp hx
    have hget : os[k]? = some os[k] := List.getElem?_eq_getElem hk
    apply hloc.other hwf.pcs _ (hwf.refs k _ hget)
    intro c hc
    exact ⟨hwf.bound k _ c hget hc, by simp⟩

/-- an operation names only `PointCloud`s that exist -/
def OpOK (hp : Heap Pts) : Op → Prop
  | .setTarget _ r => r < hp.nextPc
  | _ => True

theorem hStep_spec (e : Ext Pts A) (st : Heap Pts × List (HObj A)) (op : Op) (hwf : WF st.1 st.2)
    (hok : OpOK st.1 op) :
    WF (hStep e st op).1 (hStep e st op).2 ∧ Frame st.1 (hStep e st op).1 ∧
    (hStep e st op).2.map (absObj (hStep e st op).1) = vStep e st.1.pts (st.2.map (absObj st.1)) op := by
  obtain ⟨hp, os⟩ := st
  cases op with
  | setTarget i r =>
    simp only [hStep, vStep, List.getElem?_map]
    cases hget : os[i]? with
    | none => exact ⟨hwf, Frame.refl hp, rfl⟩
    | some o =>
      simp only [Option.map_some]
      obtain ⟨habs, hloc⟩ := hSetTarget_spec e hp o r hwf.pcs (hwf.refs i o hget) hok
        (fun c hc => hwf.bound i o c hget hc)
      generalize hres : hSetTarget e hp o r = res at habs hloc ⊢
      obtain ⟨hp', o'⟩ := res
      obtain ⟨h1, h2⟩ := replace_spec hp hp' os i o o' hwf hget hloc
      exact ⟨h1, hloc.frame, by rw [h2, habs]⟩
  | copy i =>
    simp only [hStep, vStep, List.getElem?_map]
    cases hget : os[i]? with
    | none => exact ⟨hwf, Frame.refl hp, rfl⟩
    | some o =>
      simp only [Option.map_some]
      obtain ⟨habs, hloc⟩ := hCopy_spec hp o hwf.pcs (hwf.refs i o hget) (fun c hc => hwf.bound i o c hget hc)
      generalize hres : hCopy hp o = res at habs hloc ⊢
      obtain ⟨hp', o'⟩ := res
      obtain ⟨h1, h2⟩ := append_spec hp hp' os o' hwf hloc
      exact ⟨h1, hloc.frame, by rw [h2, habs]⟩
  | edit i k m =>
    simp only [hStep, vStep, List.getElem?_map]
    cases hget : os[i]? with
    | none => exact ⟨hwf, Frame.refl hp, rfl⟩
    | some o =>
      simp only [Option.map_some]
      obtain ⟨habs, hloc⟩ := hEdit_spec e hp o k m hwf.pcs (hwf.refs i o hget)
        (fun c hc => hwf.bound i o c hget hc)
      generalize hres : hEdit e hp o k m = res at habs hloc ⊢
      obtain ⟨hp', o'⟩ := res
      obtain ⟨h1, h2⟩ := replace_spec hp hp' os i o o' hwf hget hloc
      exact ⟨h1, hloc.frame, by rw [h2, habs]⟩

theorem OpOK_mono {hp hp' : Heap Pts} (h : Frame hp hp') (op : Op) (hok : OpOK hp op) : OpOK hp' op := by
  cases op <;> simp only [OpOK] at hok ⊢
  exact Nat.lt_of_lt_of_le hok h.monoPc

/-- the heap lemma: a program of `set_target`s, `copy`s and parameter edits over objects that share point
sets and write their matrices in place computes exactly what the same program computes on independent
values, and never writes an existing array of coordinates nor re-points an existing `PointCloud`. -/
theorem hRun_refines (e : Ext Pts A) (ops : List Op) :
    ∀ st : Heap Pts × List (HObj A), WF st.1 st.2 → (∀ op ∈ ops, OpOK st.1 op) →
      WF (hRun e st ops).1 (hRun e st ops).2 ∧ Frame st.1 (hRun e st ops).1 ∧
      (hRun e st ops).2.map (absObj (hRun e st ops).1) = vRun e st.1.pts (st.2.map (absObj st.1)) ops := by
  induction ops with
  | nil => intro st h _; exact ⟨h, Frame.refl _, rfl⟩
  | cons op ops ih =>
    intro st h hok
    obtain ⟨h1, h2, h3⟩ := hStep_spec e st op h (hok op (by simp))
    obtain ⟨i1, i2, i3⟩ := ih (hStep e st op) h1 (fun o ho => OpOK_mono h2 o (hok o (by simp [ho])))
    refine ⟨i1, h2.trans i2, ?_⟩
    simp only [hRun, vRun, List.foldl_cons] at i3 ⊢
    rw [i3, h3]
    -- the later operations name only PointClouds that already existed: they see the same coordinates
    clear i3 ih i1 i2 h3
    have hpts : ∀ r, r < st.1.nextPc → (hStep e st op).1.pts r = st.1.pts r :=
      fun r hr => h2.pts r hr (h.pcs r hr)
    generalize vStep e st.1.pts (st.2.map (absObj st.1)) op = vs
    have hok' : ∀ o ∈ ops, OpOK st.1 o := fun o ho => hok o (by simp [ho])
    clear hok
    induction ops generalizing vs with
    | nil => rfl
    | cons o ops ih2 =>
      simp only [List.foldl_cons]
      have : vStep e (hStep e st op).1.pts vs o = vStep e st.1.pts vs o := by
        cases o with
        | setTarget i r =>
          have hr : r < st.1.nextPc := hok' (.setTarget i r) (by simp)
          simp only [vStep, hpts r hr]
        | copy i => rfl
        | edit i k m => rfl
      rw [this]
      exact ih2 _ (fun o' ho' => hok' o' (by simp [ho']))

/-! ### the caller's own in-place writes, and everything together -/

/-- every object still has the construction-time part of some fresh alignment -/
def AllBase (e : Ext Pts A) (hp : Heap Pts) (os : List (HObj A)) : Prop :=
  ∀ o ∈ os, ∃ c op s, Base e c op s (absObj hp o)

/-- what the model allows to happen: operations name existing `PointCloud`s; an in-place composition on
a class that owns only part of its matrix is with an operand of that class; the caller does not overwrite
the coordinates of a point set some alignment uses as its *source* -/
def LegalAct (e : Ext Pts A) (st : Heap Pts × List (HObj A)) : Act Pts → Prop
  | .op (.setTarget _ r) => r < st.1.nextPc
  | .op (.copy _) => True
  | .op (.edit i k m) => ∀ o, st.2[i]? = some o → LegalEdit o.cls (e.nDims (st.1.pts o.source)) k m
  | .write r _ => r < st.1.nextPc ∧ ∀ o ∈ st.2, st.1.pc o.source ≠ st.1.pc r

def LegalRun (e : Ext Pts A) : Heap Pts × List (HObj A) → List (Act Pts) → Prop
  | _, [] => True
  | st, a :: as => LegalAct e st a ∧ LegalRun e (aStep e st a) as

theorem hWrite_pts (e : Ext Pts A) (hp : Heap Pts) (r : Nat) (v : Pts) (r' : Nat) :
    (hWrite e hp r v).pts r' =
      if hp.pc r' = hp.pc r ∧ (e.nDims v = e.nDims (hp.pts r) ∧ e.nPoints v = e.nPoints (hp.pts r))
      then v else hp.pts r' := by
  unfold hWrite
  by_cases hs : e.nDims v = e.nDims (hp.pts r) ∧ e.nPoints v = e.nPoints (hp.pts r)
  · simp only [hs, if_true, and_true]
    by_cases hc : hp.pc r' = hp.pc r
    · simp [Heap.pts, updArr, hc]
    · simp [Heap.pts, updArr, hc]
  · simp [hs]

/-- the caller's write, seen through an alignment that does not use the written array as its source: if
the alignment *holds* the written point set as its target it now shows the new coordinates — with its old
fit; otherwise nothing changes -/
theorem hWrite_absObj (e : Ext Pts A) (hp : Heap Pts) (r : Nat) (v : Pts) (o : HObj A)
    (hsrc : hp.pc o.source ≠ hp.pc r) :
    absObj (hWrite e hp r v) o =
      if hp.pc o.target = hp.pc r then moveTarget e (absObj hp o) v else absObj hp o := by
  have hm : (hWrite e hp r v).mats = hp.mats := by unfold hWrite; split <;> rfl
  have hs : (hWrite e hp r v).pts o.source = hp.pts o.source := by rw [hWrite_pts]; simp [hsrc]
  by_cases ht : hp.pc o.target = hp.pc r
  · simp only [ht, if_true]
    have hval : hp.pts o.target = hp.pts r := by unfold Heap.pts; rw [ht]
    unfold moveTarget
    by_cases hsh : e.nDims v = e.nDims (hp.pts r) ∧ e.nPoints v = e.nPoints (hp.pts r)
    · have h2 : e.nDims v = e.nDims (absObj hp o).target ∧ e.nPoints v = e.nPoints (absObj hp o).target := by
        show e.nDims v = e.nDims (hp.pts o.target) ∧ e.nPoints v = e.nPoints (hp.pts o.target)
        rw [hval]; exact hsh
      simp only [h2, and_self, if_true]
      have htt : (hWrite e hp r v).pts o.target = v := by rw [hWrite_pts]; simp [ht, hsh]
      simp only [absObj, hs, htt, hm]
    · have h2 : ¬ (e.nDims v = e.nDims (absObj hp o).target ∧ e.nPoints v = e.nPoints (absObj hp o).target) := by
        show ¬ (e.nDims v = e.nDims (hp.pts o.target) ∧ e.nPoints v = e.nPoints (hp.pts o.target))
        rw [hval]; exact hsh
      simp only [h2, if_false]
      have htt : (hWrite e hp r v).pts o.target = hp.pts o.target := by rw [hWrite_pts]; simp [hsh]
      simp only [absObj, hs, htt, hm]
  · simp only [ht, if_false]
    have htt : (hWrite e hp r v).pts o.target = hp.pts o.target := by rw [hWrite_pts]; simp [ht]
    simp only [absObj, hs, htt, hm]

theorem hWrite_wf (e : Ext Pts A) (hp : Heap Pts) (r : Nat) (v : Pts) (os : List (HObj A)) (h : WF hp os) :
    WF (hWrite e hp r v) os := by
  unfold hWrite; split
  · exact ⟨h.bound, h.distinct, h.refs, h.pcs⟩
  · exact h

theorem vStep_base (e : Ext Pts A) (pts : Nat → Pts) (vs : List (Obj Pts A)) (op : Op)
    (h : ∀ x ∈ vs, ∃ c o s, Base e c o s x)
    (hl : ∀ i k m, op = .edit i k m → ∀ x, vs[i]? = some x → LegalEdit x.cls (e.nDims x.source) k m) :
    ∀ x ∈ vStep e pts vs op, ∃ c o s, Base e c o s x := by
  cases op with
  | setTarget i r =>
    simp only [vStep]
    cases hget : vs[i]? with
    | none => exact h
    | some o =>
      intro x hx
      rcases List.mem_or_eq_of_mem_set hx with hx | hx
      · exact h x hx
      · obtain ⟨c, op, s, hb⟩ := h o (List.mem_of_getElem? hget)
        rw [hx]; exact ⟨c, op, s, base_step e c op s _ o hb⟩
  | copy i =>
    simp only [vStep]
    cases hget : vs[i]? with
    | none => exact h
    | some o =>
      intro x hx
      rcases List.mem_append.mp hx with hx | hx
      · exact h x hx
      · simp only [List.mem_singleton] at hx; rw [hx]; exact h o (List.mem_of_getElem? hget)
  | edit i k m =>
    simp only [vStep]
    cases hget : vs[i]? with
    | none => exact h
    | some o =>
      intro x hx
      rcases List.mem_or_eq_of_mem_set hx with hx | hx
      · exact h x hx
      · obtain ⟨c, op, s, hb⟩ := h o (List.mem_of_getElem? hget)
        have hleg := hl i k m rfl o hget
        have hcls : o.cls = c := by
          obtain ⟨t0, o0, hbb, _, hc, _⟩ := hb
          rw [hc]; exact (build_target fixed e c op s t0 o0 (fixed_sound c op) hbb).2.2
        have hsrc : o.source = s := by
          obtain ⟨t0, o0, hbb, _, _, _, _, _, _, hs, _⟩ := hb
          rw [hs]; exact (build_target fixed e c op s t0 o0 (fixed_sound c op) hbb).2.1
        rw [hcls, hsrc] at hleg
        rw [hx]; exact ⟨c, op, s, base_vEdit e c op s o k m hb hleg⟩

theorem allBase_iff (e : Ext Pts A) (hp : Heap Pts) (os : List (HObj A)) :
    AllBase e hp os ↔ ∀ x ∈ os.map (absObj hp), ∃ c o s, Base e c o s x := by
  constructor
  · intro h x hx
    obtain ⟨y, hy, rfl⟩ := List.mem_map.mp hx
    exact h y hy
  · intro h o ho
    exact h _ (List.mem_map_of_mem ho)

theorem aStep_inv (e : Ext Pts A) (st : Heap Pts × List (HObj A)) (a : Act Pts)
    (hwf : WF st.1 st.2) (hb : AllBase e st.1 st.2) (hl : LegalAct e st a) :
    WF (aStep e st a).1 (aStep e st a).2 ∧ AllBase e (aStep e st a).1 (aStep e st a).2 := by
  cases a with
  | op o =>
    have hok : OpOK st.1 o := by
      cases o <;> simp only [OpOK]
      exact hl
    obtain ⟨h1, _, h3⟩ := hStep_spec e st o hwf hok
    refine ⟨h1, ?_⟩
    show AllBase e (hStep e st o).1 (hStep e st o).2
    rw [allBase_iff, h3]
    apply vStep_base e _ _ o ((allBase_iff e _ _).mp hb)
    intro i k m ho x hx
    subst ho
    rw [List.getElem?_map] at hx
    cases hget : st.2[i]? with
    | none => simp [hget] at hx
    | some y =>
      simp only [hget, Option.map_some, Option.some.injEq] at hx
      subst hx
      exact hl y hget
  | write r v =>
    refine ⟨hWrite_wf e st.1 r v st.2 hwf, ?_⟩
    intro o ho
    show ∃ c op s, Base e c op s (absObj (hWrite e st.1 r v) o)
    obtain ⟨c, op, s, hbo⟩ := hb o ho
    rw [hWrite_absObj e st.1 r v o (hl.2 o ho)]
    split
    · exact ⟨c, op, s, base_moveTarget e c op s v _ hbo⟩
    · exact ⟨c, op, s, hbo⟩

theorem aRun_inv (e : Ext Pts A) (acts : List (Act Pts)) :
    ∀ st : Heap Pts × List (HObj A), WF st.1 st.2 → AllBase e st.1 st.2 → LegalRun e st acts →
      WF (aRun e st acts).1 (aRun e st acts).2 ∧ AllBase e (aRun e st acts).1 (aRun e st acts).2 := by
  induction acts with
  | nil => intro st h1 h2 _; exact ⟨h1, h2⟩
  | cons a as ih =>
    intro st h1 h2 hl
    obtain ⟨w, b⟩ := aStep_inv e st a h1 h2 hl.1
    exact ih _ w b hl.2

/-- **`set_target(t)` after anything, on the heap** (the alignment holds a *reference* to the caller's
`PointCloud`; `t` may be the very object it already holds, whose coordinates the caller has overwritten in
the meantime; other alignments and copies may share it): whatever interleaving of `set_target`s, copies,
parameter edits and in-place writes of the caller came before, right after an accepted
`objs[i].set_target(pcs[r])` object `i` **is** the fresh alignment of its class, options and source to the
coordinates `pcs[r]` has *now*, and the call wrote no array of coordinates. -/
theorem set_target_after_anything (e : Ext Pts A) (st : Heap Pts × List (HObj A)) (acts : List (Act Pts))
    (hwf : WF st.1 st.2) (hb : AllBase e st.1 st.2) (hl : LegalRun e st acts) (i r : Nat) (o : HObj A)
    (hget : (aRun e st acts).2[i]? = some o) (hr : r < (aRun e st acts).1.nextPc)
    (hsh : SameShape e ((aRun e st acts).1.pts r) (absObj (aRun e st acts).1 o).target) :
    ∃ o', (hStep e (aRun e st acts) (.setTarget i r)).2[i]? = some o' ∧
      IsFresh e (absObj (hStep e (aRun e st acts) (.setTarget i r)).1 o') ∧
      (absObj (hStep e (aRun e st acts) (.setTarget i r)).1 o').target = (aRun e st acts).1.pts r ∧
      Frame (aRun e st acts).1 (hStep e (aRun e st acts) (.setTarget i r)).1 := by
  obtain ⟨w, b⟩ := aRun_inv e acts st hwf hb hl
  generalize aRun e st acts = cur at *
  obtain ⟨h1, h2, h3⟩ := hStep_spec e cur (.setTarget i r) w hr
  obtain ⟨c, op, s, hbase⟩ := b o (List.mem_of_getElem? hget)
  have hts : SameShape e (cur.1.pts r) s := by
    have := base_shape e c op s _ hbase
    exact ⟨hsh.1.trans this.1, hsh.2.trans this.2⟩
  have hfresh := (step_of_base e c op s (cur.1.pts r) _ hbase).1 hts
  have hnew : ((hStep e cur (.setTarget i r)).2.map (absObj (hStep e cur (.setTarget i r)).1))[i]? =
      some (step e (absObj cur.1 o) (cur.1.pts r)) := by
    rw [h3]
    have hi : (cur.2.map (absObj cur.1))[i]? = some (absObj cur.1 o) := by
      rw [List.getElem?_map, hget]; rfl
    simp only [vStep, hi]
    obtain ⟨hlt, _⟩ := List.getElem?_eq_some_iff.mp hi
    rw [List.getElem?_set_self hlt]
  rw [List.getElem?_map] at hnew
  cases hg : (hStep e cur (.setTarget i r)).2[i]? with
  | none => simp [hg] at hnew
  | some o' =>
    simp only [hg, Option.map_some, Option.some.injEq] at hnew
    have htgt := (build_target fixed e c op s _ _ (fixed_sound c op) hfresh).1
    refine ⟨o', rfl, ⟨c, op, s, ?_⟩, ?_, h2⟩
    · rw [hnew, htgt]; exact hfresh
    · rw [hnew]; exact htgt

/-- … and a rejected call (wrong number of points or dimensions) leaves the whole heap as it was: the
object, every other object, every array -/
theorem rejected_set_target_changes_nothing (e : Ext Pts A) (st : Heap Pts × List (HObj A)) (i r : Nat)
    (o : HObj A) (hget : st.2[i]? = some o) (hsh : ¬ SameShape e (st.1.pts r) (absObj st.1 o).target) :
    hStep e st (.setTarget i r) = st := by
  obtain ⟨err, hv⟩ : ∃ err, verifyTarget e (absObj st.1 o) (st.1.pts r) = .error err := by
    cases hv : verifyTarget e (absObj st.1 o) (st.1.pts r) with
    | error err => exact ⟨err, rfl⟩
    | ok u => cases u; exact absurd ((verifyTarget_ok_iff e _ _).mp hv) hsh
  obtain ⟨hp, os⟩ := st
  simp only [hStep, hget, hSetTarget, hv]
  congr 1
  apply List.ext_getElem?
  intro k
  rw [List.getElem?_set]
  by_cases hik : i = k
  · subst hik
    obtain ⟨hlt, hval⟩ := List.getElem?_eq_some_iff.mp hget
    simp only [hlt, if_true]
    exact hget.symm
  · simp [hik]

/-- PROPERTY clause 2a, with a caller that writes too: an array of coordinates changes only when the caller
itself writes it — no `set_target`, `copy` or parameter edit ever does — and no `PointCloud` is re-pointed -/
theorem arrays_change_only_by_caller (e : Ext Pts A) (acts : List (Act Pts)) :
    ∀ st : Heap Pts × List (HObj A), WF st.1 st.2 → AllBase e st.1 st.2 → LegalRun e st acts →
      (∀ r, r < st.1.nextPc → (aRun e st acts).1.pc r = st.1.pc r) ∧
      st.1.nextPc ≤ (aRun e st acts).1.nextPc ∧ st.1.nextArr ≤ (aRun e st acts).1.nextArr ∧
      ∀ k, k < st.1.nextArr → (∀ r v, Act.write r v ∈ acts → r < st.1.nextPc ∧ st.1.pc r ≠ k) →
        (aRun e st acts).1.arr k = st.1.arr k := by
  induction acts with
  | nil => intro st _ _ _; exact ⟨fun _ _ => rfl, Nat.le_refl _, Nat.le_refl _, fun _ _ _ => rfl⟩
  | cons a as ih =>
    intro st hwf hb hl
    obtain ⟨w, b⟩ := aStep_inv e st a hwf hb hl.1
    obtain ⟨i1, i2, i3, i4⟩ := ih (aStep e st a) w b hl.2
    -- one step
    have hstep : (∀ r, r < st.1.nextPc → (aStep e st a).1.pc r = st.1.pc r) ∧
        st.1.nextPc ≤ (aStep e st a).1.nextPc ∧ st.1.nextArr ≤ (aStep e st a).1.nextArr ∧
        ∀ k, k < st.1.nextArr → (∀ r v, a = Act.write r v → st.1.pc r ≠ k) →
          (aStep e st a).1.arr k = st.1.arr k := by
      cases a with
      | op o =>
        have hok : OpOK st.1 o := by
          cases o <;> simp only [OpOK]
          exact hl.1
        obtain ⟨_, f, _⟩ := hStep_spec e st o hwf hok
        exact ⟨f.pc, f.monoPc, f.monoArr, fun k hk _ => f.arr k hk⟩
      | write r v =>
        refine ⟨?_, ?_, ?_, ?_⟩
        · intro r' _; simp only [aStep, hWrite]; split <;> rfl
        · simp only [aStep, hWrite]; split <;> exact Nat.le_refl _
        · simp only [aStep, hWrite]; split <;> exact Nat.le_refl _
        · intro k _ hne
          have := hne r v rfl
          simp only [aStep, hWrite]; split
          · simp [updArr, this.symm]
          · rfl
    obtain ⟨s1, s2, s3, s4⟩ := hstep
    refine ⟨?_, Nat.le_trans s2 i2, Nat.le_trans s3 i3, ?_⟩
    · intro r hr
      show (aRun e (aStep e st a) as).1.pc r = _
      rw [i1 r (Nat.lt_of_lt_of_le hr s2), s1 r hr]
    · intro k hk hw
      show (aRun e (aStep e st a) as).1.arr k = _
      rw [i4 k (Nat.lt_of_lt_of_le hk s3) ?_, s4 k hk (fun r v ha => (hw r v (by simp [ha])).2)]
      intro r v hmem
      obtain ⟨h1, h2⟩ := hw r v (by simp [hmem])
      exact ⟨Nat.lt_of_lt_of_le h1 s2, by rw [s1 r h1]; exact h2⟩

end MenpoModel.C08
