/-
C06, part 3: ownership under mutation.  Frame lemmas for `Own` under a slot update of one owned
cell, and preservation of the separation invariant `Sep` by every operation of `stepH`.
Core Lean only.
-/
import MenpoModel.Core.C06Ops
import MenpoModel.Lemmas.C06Wt

namespace MenpoModel.C06

/-! ### slots -/

theorem mem_putSlot {fs : Slots} {x : String} {v : Val} {y : String} {w : Val}
    (m : (y, w) ∈ putSlot fs x v) : (y, w) ∈ fs ∨ (y = x ∧ w = v) := by
  induction fs with
  | nil =>
    simp only [putSlot, List.mem_singleton, Prod.mk.injEq] at m
    exact .inr m
  | cons p t ih =>
    obtain ⟨z, u⟩ := p
    simp only [putSlot] at m
    split at m
    · rename_i hz
      have hz' : z = x := by simpa using hz
      simp only [List.mem_cons, Prod.mk.injEq] at m
      rcases m with ⟨rfl, rfl⟩ | m
      · exact .inr ⟨hz', rfl⟩
      · exact .inl (List.mem_cons_of_mem _ m)
    · simp only [List.mem_cons, Prod.mk.injEq] at m
      rcases m with ⟨rfl, rfl⟩ | m
      · exact .inl List.mem_cons_self
      · rcases ih m with l | r
        · exact .inl (List.mem_cons_of_mem _ l)
        · exact .inr r

theorem mem_dropSlot {fs : Slots} {x y : String} {w : Val} (m : (y, w) ∈ dropSlot fs x) : (y, w) ∈ fs :=
  (List.mem_filter.mp m).1

/-! ### paths lead to owned cells -/

theorem resolve_own (res : String → CopyImpl) (h : Heap) :
    ∀ (p : Path) (lim : Lim) (a b : Nat) (l : Lim), resolve res h lim a p = some (b, l) →
      Own res h lim (.ref a) b ∧ l ≠ .stop ∧ (l = .full → ∀ c, Own res h .full (.ref b) c → Own res h lim (.ref a) c) := by
  intro p
  induction p with
  | nil =>
    intro lim a b l e
    cases lim with
    | stop => simp [resolve] at e
    | full =>
      simp only [resolve, Option.some.injEq, Prod.mk.injEq] at e
      obtain ⟨rfl, rfl⟩ := e
      exact ⟨.hereFull, by simp, fun _ c o => o⟩
    | shallow =>
      simp only [resolve, Option.some.injEq, Prod.mk.injEq] at e
      obtain ⟨rfl, rfl⟩ := e
      exact ⟨.hereShallow, by simp, fun hl => by cases hl⟩
  | cons x t ih =>
    intro lim a b l e
    cases lim with
    | stop => simp [resolve] at e
    | shallow => simp [resolve] at e
    | full =>
      simp only [resolve] at e
      split at e
      · rename_i k fs hcell
        split at e
        · rename_i b0 hl
          obtain ⟨o, hne, hsub⟩ := ih _ _ _ _ e
          have hm := lookup_mem hl
          exact ⟨.step hcell hm o, hne, fun hf c oc => .step hcell hm (hsub hf c oc)⟩
        · cases e
      · cases e

/-! ### `Own` under an update of one cell -/

/-- replacing the slots of cell `a`: what is owned afterwards was owned before, or is owned by one
of the slots that are not old ones -/
theorem own_update {res : String → CopyImpl} {h1 : Heap} {a : Nat} {k : NodeKind} {fs fs' : Slots}
    (hcell : h1[a]? = some (.node k fs)) (P : Nat → Prop)
    (hfs : ∀ y w, (y, w) ∈ fs' → (y, w) ∈ fs ∨ ∀ b, Own res h1 (childLim res k y) w b → P b)
    {lim : Lim} {v : Val} {b : Nat} (o : Own res (h1.set a (.node k fs')) lim v b) :
    Own res h1 lim v b ∨ P b := by
  induction o with
  | hereFull => exact .inl .hereFull
  | hereShallow => exact .inl .hereShallow
  | step hc hm o' ih =>
    rename_i a0 k0 fs0 x w b0
    by_cases ha : a0 = a
    · subst ha
      rw [List.getElem?_set_self (get_lt hcell)] at hc
      simp only [Option.some.injEq, Cell.node.injEq] at hc
      obtain ⟨rfl, rfl⟩ := hc
      rcases hfs x w hm with hold | hnew
      · rcases ih with l | r
        · exact .inl (.step hcell hold l)
        · exact .inr r
      · rcases ih with l | r
        · exact .inr (hnew _ l)
        · exact .inr r
    · rw [List.getElem?_set_ne (Ne.symm ha)] at hc
      rcases ih with l | r
      · exact .inl (.step hc hm l)
      · exact .inr r

/-- what a value owns depends only on the cells it owns -/
theorem own_frame {res : String → CopyImpl} {h h2 : Heap} {lim : Lim} {v : Val} {b : Nat}
    (o : Own res h2 lim v b) : (∀ c, Own res h lim v c → h2[c]? = h[c]?) → Own res h lim v b := by
  induction o with
  | hereFull => intro _; exact .hereFull
  | hereShallow => intro _; exact .hereShallow
  | step hc hm _ ih =>
    intro hag
    rw [hag _ .hereFull] at hc
    exact .step hc hm (ih (fun c oc => hag c (.step hc hm oc)))

theorem own_valid {res : String → CopyImpl} {h : Heap} (hc : Closed h) {lim : Lim} {v : Val} {b : Nat}
    (o : Own res h lim v b) (hv : Valid h v) : b < h.length :=
  reach_old hc (Ext.refl h) (own_reach res o) hv

/-- everything owned from inside a self-contained fragment lies inside the fragment -/
theorem own_frag {res : String → CopyImpl} {h : Heap} {frag : List Cell} (hf : fragOK h.length frag = true)
    {lim : Lim} {v : Val} {b : Nat} (o : Own res (h ++ frag) lim v b) :
    (∀ a, v = .ref a → h.length ≤ a) → h.length ≤ b := by
  induction o with
  | hereFull => intro hv; exact hv _ rfl
  | hereShallow => intro hv; exact hv _ rfl
  | step hc hm o' ih =>
    rename_i a0 k0 fs0 x w b0
    intro hv
    have ha := hv _ rfl
    apply ih
    intro c hw
    subst hw
    have hlt := get_lt hc
    simp only [List.length_append] at hlt
    simp only [fragOK, Bool.and_eq_true] at hf
    have ht := List.all_eq_true.mp hf.2 (a0 - h.length) (List.mem_range.mpr (by omega))
    have hget : frag[a0 - h.length]? = some (.node k0 fs0) := by
      rw [← hc, List.getElem?_append_right ha]
    simp only [hget] at ht
    have := List.all_eq_true.mp ht (x, .ref c) hm
    simp only [Bool.and_eq_true, decide_eq_true_eq] at this
    exact this.1

/-! ### closedness under writes -/

theorem closed_set_node {h1 : Heap} (c1 : Closed h1) {a : Nat} {k : NodeKind} {fs' : Slots}
    (hv : ∀ y v, (y, v) ∈ fs' → Valid h1 v) : Closed (h1.set a (.node k fs')) := by
  intro a0 k0 fs0 hc x b m
  simp only [List.length_set]
  by_cases ha : a0 = a
  · subst ha
    have hlt : a0 < h1.length := by have := get_lt hc; simpa using this
    rw [List.getElem?_set_self hlt] at hc
    simp only [Option.some.injEq, Cell.node.injEq] at hc
    obtain ⟨rfl, rfl⟩ := hc
    exact hv x _ m b rfl
  · rw [List.getElem?_set_ne (Ne.symm ha)] at hc
    exact c1 a0 k0 fs0 hc x b m

theorem closed_set_buf {h : Heap} (c : Closed h) (b : Nat) (d : List Int) : Closed (h.set b (.buf d)) := by
  intro a0 k0 fs0 hc x b0 m
  simp only [List.length_set]
  by_cases ha : a0 = b
  · subst ha
    have hlt : a0 < h.length := by have := get_lt hc; simpa using this
    rw [List.getElem?_set_self hlt] at hc
    cases hc
  · rw [List.getElem?_set_ne (Ne.symm ha)] at hc
    exact c a0 k0 fs0 hc x b0 m

/-- overwriting an array does not change who owns what -/
theorem own_set_buf {res : String → CopyImpl} {h : Heap} {b : Nat} {d0 d : List Int}
    (hb : h[b]? = some (.buf d0)) {lim : Lim} {v : Val} {c : Nat}
    (o : Own res (h.set b (.buf d)) lim v c) : Own res h lim v c := by
  induction o with
  | hereFull => exact .hereFull
  | hereShallow => exact .hereShallow
  | step hc hm o' ih =>
    rename_i a0 k0 fs0 x w b0
    by_cases ha : a0 = b
    · subst ha
      rw [List.getElem?_set_self (get_lt hb)] at hc
      cases hc
    · rw [List.getElem?_set_ne (Ne.symm ha)] at hc
      exact .step hc hm ih

/-! ### the separation invariant -/

theorem Sep.rootValid {res : String → CopyImpl} {w : HW} (S : Sep res w) {i r : Nat} (hi : w.roots[i]? = some r) :
    Valid w.heap (.ref r) := by
  intro b e
  cases e
  exact S.valid i r hi

theorem Sep.own_lt {res : String → CopyImpl} {w : HW} (S : Sep res w) {i r : Nat} (hi : w.roots[i]? = some r)
    {b : Nat} (o : Own res w.heap .full (.ref r) b) : b < w.heap.length :=
  own_valid S.closed o (S.rootValid hi)

/-- one root, closed heap: separated -/
theorem sep_single (res : String → CopyImpl) {h : Heap} (hc : Closed h) {r : Nat} (hr : r < h.length) :
    Sep res ⟨h, [r]⟩ := by
  refine ⟨hc, ?_, ?_⟩
  · intro i r' hi
    cases i with
    | zero => simp at hi; subst hi; exact hr
    | succ i => simp at hi
  · intro i j ri rj hne hi hj
    cases i with
    | zero =>
      cases j with
      | zero => exact absurd rfl hne
      | succ j => simp at hj
    | succ i => simp at hi

/-- the general mutation step: the slots of a cell owned by root `i` are replaced; every slot is an
old one or refers to something that owns only cells allocated since.  Separation is preserved and
every other root's own state is untouched. -/
theorem sep_update {res : String → CopyImpl} {w : HW} (S : Sep res w) {h1 : Heap} (e : Ext w.heap h1)
    (c1 : Closed h1) {i ri a : Nat} {k : NodeKind} {fs fs' : Slots} (hi : w.roots[i]? = some ri)
    (ho : Own res w.heap .full (.ref ri) a) (hcell : w.heap[a]? = some (.node k fs))
    (hfs : ∀ y v, (y, v) ∈ fs' → (y, v) ∈ fs ∨
      (Valid h1 v ∧ ∀ b, Own res h1 (childLim res k y) v b → w.heap.length ≤ b)) :
    Sep res ⟨h1.set a (.node k fs'), w.roots⟩ ∧
    ∀ j rj, j ≠ i → w.roots[j]? = some rj → ∀ m,
      absO res m .full (h1.set a (.node k fs')) (.ref rj) = absO res m .full w.heap (.ref rj) := by
  have halt : a < w.heap.length := get_lt hcell
  have hcell1 : h1[a]? = some (.node k fs) := by rw [e.get halt]; exact hcell
  -- the other roots see the same cells
  have agree : ∀ j rj, j ≠ i → w.roots[j]? = some rj → ∀ c, Own res w.heap .full (.ref rj) c →
      (h1.set a (.node k fs'))[c]? = w.heap[c]? := by
    intro j rj hne hj c oc
    have hclt := S.own_lt hj oc
    have hca : c ≠ a := by
      intro hca
      subst hca
      exact S.disj i j ri rj (Ne.symm hne) hi hj c ho oc
    rw [List.getElem?_set_ne (Ne.symm hca), e.get hclt]
  have other : ∀ j rj, j ≠ i → w.roots[j]? = some rj → ∀ b,
      Own res (h1.set a (.node k fs')) .full (.ref rj) b → Own res w.heap .full (.ref rj) b :=
    fun j rj hne hj b o => own_frame o (agree j rj hne hj)
  have self : ∀ b, Own res (h1.set a (.node k fs')) .full (.ref ri) b →
      Own res w.heap .full (.ref ri) b ∨ w.heap.length ≤ b := by
    intro b o
    rcases own_update hcell1 (fun b => w.heap.length ≤ b)
        (fun y v m => (hfs y v m).imp id (fun r => r.2)) o with l | r
    · exact .inl (own_restrict res S.closed e l (S.rootValid hi))
    · exact .inr r
  refine ⟨⟨?_, ?_, ?_⟩, ?_⟩
  · apply closed_set_node c1
    intro y v m
    rcases hfs y v m with hold | hnew
    · exact (S.closed.slot_valid hcell hold).mono e
    · exact hnew.1
  · intro j r hj
    simp only [List.length_set]
    exact Nat.lt_of_lt_of_le (S.valid j r hj) e.len
  · intro j1 j2 r1 r2 hne h1' h2' b o1 o2
    by_cases e1 : j1 = i
    · subst e1
      rw [hi] at h1'
      cases h1'
      have o2' := other j2 r2 (Ne.symm hne) h2' b o2
      rcases self b o1 with l | r
      · exact S.disj j1 j2 ri r2 hne hi h2' b l o2'
      · exact absurd (S.own_lt h2' o2') (by omega)
    · have o1' := other j1 r1 e1 h1' b o1
      by_cases e2 : j2 = i
      · subst e2
        rw [hi] at h2'
        cases h2'
        rcases self b o2 with l | r
        · exact S.disj j1 j2 r1 ri hne h1' hi b o1' l
        · exact absurd (S.own_lt h1' o1') (by omega)
      · exact S.disj j1 j2 r1 r2 hne h1' h2' b o1' (other j2 r2 e2 h2' b o2)
  · intro j rj hne hj m
    exact absO_frame res _ _ m .full (.ref rj) (agree j rj hne hj)

/-! ### the operations -/

theorem getElem?_append_one {α : Type} {l : List α} {x y : α} {i : Nat} (h : (l ++ [x])[i]? = some y) :
    l[i]? = some y ∨ (i = l.length ∧ y = x) := by
  rcases Nat.lt_or_ge i l.length with hlt | hge
  · rw [List.getElem?_append_left hlt] at h
    exact .inl h
  · rw [List.getElem?_append_right hge] at h
    have : i - l.length = 0 := by
      rcases Nat.eq_zero_or_pos (i - l.length) with h0 | hp
      · exact h0
      · rw [List.getElem?_eq_none (by simp only [List.length_cons, List.length_nil]; omega)] at h
        cases h
    rw [this] at h
    simp only [List.getElem?_cons_zero, Option.some.injEq] at h
    exact .inr ⟨by omega, h.symm⟩

/-- what `copyAt` did when it succeeded -/
structure CopyFacts (res : String → CopyImpl) (h : Heap) (s : Nat) (h1 : Heap) (c : Nat) : Prop where
  ext : Ext h h1
  closed : Closed h1
  new : h.length ≤ c
  lt : c < h1.length
  same : ∀ m, absF m h1 (.ref c) = absF m h (.ref s)
  fresh : ∀ lim b, Own res h1 lim (.ref c) b → h.length ≤ b

theorem copyAt_facts {tbl : AttrTable} {sup : SupplierTable} (hwf : copyWF tbl sup = true) {h : Heap}
    (hc : Closed h) {s : Nat} (hs : s < h.length) {h1 : Heap} {c : Nat}
    (e : copyAt tbl sup h s = .ok (h1, c)) : CopyFacts (resOf sup) h s h1 c := by
  simp only [copyAt] at e
  split at e
  · rename_i hchk
    simp only [Bool.and_eq_true] at hchk
    obtain ⟨hwt, hk⟩ := hchk
    split at e
    · rename_i h1' c' hcp
      simp only [Except.ok.injEq, Prod.mk.injEq] at e
      obtain ⟨rfl, rfl⟩ := e
      have hv : Valid h (.ref s) := by intro b eb; cases eb; exact hs
      have b := copy_basic (resOf sup) h _ h (.ref s) _ _ (Ctx.refl hc) hv hcp
      have dh : DeepHeap (resOf sup) h := by
        -- `deepHeap_of_tables`, inlined (Props/C06 imports this file)
        intro a C fs hcell
        have hmem : Cell.node (.obj C) fs ∈ h := List.mem_of_getElem? hcell
        have hcw := List.all_eq_true.mp hwt _ hmem
        simp only [wtCell, Bool.and_eq_true, decide_eq_true_eq] at hcw
        obtain ⟨⟨hnd, hsp⟩, hrows⟩ := hcw
        refine ⟨hnd, ?_, ?_⟩
        · intro x hx
          rw [hx] at hsp
          exact hsp
        · intro x v m
          cases hl : tbl.lookup C with
          | none => simp [hl] at hrows
          | some attrs =>
            simp only [hl] at hrows
            have hp := List.all_eq_true.mp hrows (x, v) m
            simp only at hp
            cases hla : attrs.lookup x with
            | none => simp [hla] at hp
            | some ks =>
              simp only [hla] at hp
              have hk' : kindOf h v ∈ ks := List.contains_iff_mem.mp hp
              have look : ∀ {β : Type} {l : List (String × β)} {x : String} {v : β}, l.lookup x = some v → (x, v) ∈ l := by
                intro β l
                induction l with
                | nil => intro x v e; simp [List.lookup] at e
                | cons p t ih =>
                  intro x v e
                  obtain ⟨y, w⟩ := p
                  simp only [List.lookup] at e
                  split at e
                  · rename_i hxy
                    have : x = y := by simpa using hxy
                    cases e
                    subst this
                    exact List.mem_cons_self
                  · exact List.mem_cons_of_mem _ (ih e)
              have hrow := List.all_eq_true.mp hwf (C, attrs) (look hl)
              have hatt := List.all_eq_true.mp hrow (x, ks) (look hla)
              exact List.all_eq_true.mp hatt _ hk'
      obtain ⟨a', ha', hge, hlt⟩ := b.root
      cases ha'
      have fr := copy_fresh (resOf sup) h dh _ h (.ref s) _ _ (Ctx.refl hc) hv hk hcp
      refine ⟨b.ext, b.closed, hge, hlt, b.same, ?_⟩
      intro lim b' o
      cases lim with
      | full => exact fr b' o
      | shallow => rw [own_shallow_eq o]; exact hge
      | stop => exact (own_stop_absurd o).elim
    · cases e
    · cases e
  · cases e

theorem sep_copy {tbl : AttrTable} {sup : SupplierTable} (hwf : copyWF tbl sup = true) {w : HW}
    (S : Sep (resOf sup) w) {i ri : Nat} (hi : w.roots[i]? = some ri) {h1 : Heap} {c : Nat}
    (e : copyAt tbl sup w.heap ri = .ok (h1, c)) :
    Sep (resOf sup) ⟨h1, w.roots ++ [c]⟩ ∧
    (∀ (j rj : Nat), w.roots[j]? = some rj → ∀ m,
      absO (resOf sup) m .full h1 (.ref rj) = absO (resOf sup) m .full w.heap (.ref rj)) ∧
    (∀ m, absF m h1 (.ref c) = absF m w.heap (.ref ri)) := by
  have F := copyAt_facts hwf S.closed (S.valid i ri hi) e
  have old : ∀ j rj, w.roots[j]? = some rj → ∀ b, Own (resOf sup) h1 .full (.ref rj) b →
      Own (resOf sup) w.heap .full (.ref rj) b :=
    fun j rj hj b o => own_restrict _ S.closed F.ext o (S.rootValid hj)
  refine ⟨⟨F.closed, ?_, ?_⟩, ?_, F.same⟩
  · intro j r hj
    rcases getElem?_append_one hj with hj | ⟨_, rfl⟩
    · exact Nat.lt_of_lt_of_le (S.valid j r hj) F.ext.len
    · exact F.lt
  · intro j1 j2 r1 r2 hne g1 g2 b o1 o2
    rcases getElem?_append_one g1 with k1 | ⟨e1, q1⟩
    · rcases getElem?_append_one g2 with k2 | ⟨e2, q2⟩
      · exact S.disj j1 j2 r1 r2 hne k1 k2 b (old j1 r1 k1 b o1) (old j2 r2 k2 b o2)
      · subst q2
        have := S.own_lt k1 (old j1 r1 k1 b o1)
        have := F.fresh .full b o2
        omega
    · rcases getElem?_append_one g2 with k2 | ⟨e2, q2⟩
      · subst q1
        have := S.own_lt k2 (old j2 r2 k2 b o2)
        have := F.fresh .full b o1
        omega
      · exact hne (e1.trans e2.symm)
  · intro j rj hj m
    apply absO_frame
    intro b o
    exact F.ext.get (S.own_lt hj o)

theorem sep_write {res : String → CopyImpl} {w : HW} (S : Sep res w) {i ri b : Nat} {d0 d : List Int}
    (hi : w.roots[i]? = some ri) (ho : Own res w.heap .full (.ref ri) b) (hb : w.heap[b]? = some (.buf d0)) :
    Sep res ⟨w.heap.set b (.buf d), w.roots⟩ ∧
    ∀ (j rj : Nat), j ≠ i → w.roots[j]? = some rj → ∀ m,
      absO res m .full (w.heap.set b (.buf d)) (.ref rj) = absO res m .full w.heap (.ref rj) := by
  refine ⟨⟨closed_set_buf S.closed b d, ?_, ?_⟩, ?_⟩
  · intro j r hj
    simp only [List.length_set]
    exact S.valid j r hj
  · intro j1 j2 r1 r2 hne h1' h2' c o1 o2
    exact S.disj j1 j2 r1 r2 hne h1' h2' c (own_set_buf hb o1) (own_set_buf hb o2)
  · intro j rj hne hj m
    apply absO_frame
    intro c oc
    have hcb : c ≠ b := by
      intro hcb
      subst hcb
      exact S.disj i j ri rj (Ne.symm hne) hi hj c ho oc
    exact List.getElem?_set_ne (Ne.symm hcb)

theorem fragOK_ne {n : Nat} {frag : List Cell} (hf : fragOK n frag = true) : 0 < frag.length := by
  simp only [fragOK, Bool.and_eq_true] at hf
  cases frag with
  | nil => simp at hf
  | cons c t => simp

theorem closed_append_frag {h : Heap} (hc : Closed h) {frag : List Cell} (hf : fragOK h.length frag = true) :
    Closed (h ++ frag) := by
  intro a0 k0 fs0 hcell x b m
  simp only [List.length_append]
  rcases Nat.lt_or_ge a0 h.length with hlt | hge
  · rw [List.getElem?_append_left hlt] at hcell
    have := hc a0 k0 fs0 hcell x b m
    omega
  · have hl := get_lt hcell
    simp only [List.length_append] at hl
    have hf' := hf
    simp only [fragOK, Bool.and_eq_true] at hf'
    have ht := List.all_eq_true.mp hf'.2 (a0 - h.length) (List.mem_range.mpr (by omega))
    have hget : frag[a0 - h.length]? = some (.node k0 fs0) := by
      rw [← hcell, List.getElem?_append_right hge]
    simp only [hget] at ht
    have := List.all_eq_true.mp ht (x, .ref b) m
    simp only [Bool.and_eq_true, decide_eq_true_eq] at this
    omega

theorem nodeAt_ok {res : String → CopyImpl} {w : HW} {i : Nat} {p : Path} {a : Nat} {k : NodeKind} {fs : Slots}
    (e : nodeAt res w i p = .ok (a, k, fs)) :
    ∃ ri, w.roots[i]? = some ri ∧ Own res w.heap .full (.ref ri) a ∧ w.heap[a]? = some (.node k fs) := by
  simp only [nodeAt] at e
  split at e
  · cases e
  · rename_i ri hi
    split at e
    · rename_i a' hr
      split at e
      · rename_i k' fs' hcell
        simp only [Except.ok.injEq, Prod.mk.injEq] at e
        obtain ⟨rfl, rfl, rfl⟩ := e
        exact ⟨ri, hi, (resolve_own res w.heap p .full ri _ _ hr).1, hcell⟩
      · cases e
    · cases e

/-- PROPERTY support: one accepted operation keeps the roots separated, keeps every root the
caller holds, and leaves the own state of every root it does not act through unchanged -/
theorem step_sep {tbl : AttrTable} {sup : SupplierTable} (hwf : copyWF tbl sup = true) {w w' : HW}
    (S : Sep (resOf sup) w) (op : HOp) (e : stepH tbl sup w op = .ok w') :
    Sep (resOf sup) w' ∧
    (∀ (j rj : Nat), w.roots[j]? = some rj → w'.roots[j]? = some rj) ∧
    (∀ (j rj : Nat), op.actor ≠ some j → w.roots[j]? = some rj → ∀ m,
      absO (resOf sup) m .full w'.heap (.ref rj) = absO (resOf sup) m .full w.heap (.ref rj)) := by
  cases op with
  | copy i =>
    simp only [stepH] at e
    split at e
    · cases e
    · rename_i ri hi
      split at e
      · rename_i h1 c hcp
        cases e
        obtain ⟨S', fr, _⟩ := sep_copy hwf S hi hcp
        refine ⟨S', ?_, fun j rj _ hj m => fr j rj hj m⟩
        intro j rj hj
        have hlt : j < w.roots.length := by
          rcases Nat.lt_or_ge j w.roots.length with hlt | hge
          · exact hlt
          · rw [List.getElem?_eq_none hge] at hj; cases hj
        simp only [List.getElem?_append_left hlt]
        exact hj
      · cases e
  | write i p d =>
    simp only [stepH] at e
    split at e
    · cases e
    · rename_i ri hi
      split at e
      · cases e
      · rename_i b l hr
        split at e
        · rename_i d0 hb
          cases e
          obtain ⟨S', fr⟩ := sep_write (d := d) S hi (resolve_own _ w.heap p .full ri _ _ hr).1 hb
          refine ⟨S', fun j rj hj => hj, ?_⟩
          intro j rj hne hj m
          exact fr j rj (fun ej => hne (by simp [HOp.actor, ej])) hj m
        · cases e
  | putFresh i p x frag =>
    simp only [stepH] at e
    split at e
    · cases e
    · rename_i a k fs hn
      obtain ⟨ri, hi, ho, hcell⟩ := nodeAt_ok hn
      split at e
      · split at e
        · rename_i hf
          cases e
          have hpos := fragOK_ne hf
          obtain ⟨S', fr⟩ := sep_update (fs' := putSlot fs x (.ref (w.heap.length + frag.length - 1))) S
            (Ext.append w.heap frag) (closed_append_frag S.closed hf) hi ho hcell (by
              intro y v m
              rcases mem_putSlot m with hold | ⟨_, rfl⟩
              · exact .inl hold
              · right
                refine ⟨?_, ?_⟩
                · intro b eb
                  cases eb
                  simp only [List.length_append]
                  omega
                · intro b o
                  exact own_frag hf o (by intro a' ea; cases ea; omega))
          refine ⟨S', fun j rj hj => hj, ?_⟩
          intro j rj hne hj m
          exact fr j rj (fun ej => hne (by simp [HOp.actor, ej])) hj m
        · cases e
      · cases e
  | putImm i p x =>
    simp only [stepH] at e
    split at e
    · cases e
    · rename_i a k fs hn
      obtain ⟨ri, hi, ho, hcell⟩ := nodeAt_ok hn
      split at e
      · cases e
        obtain ⟨S', fr⟩ := sep_update (fs' := putSlot fs x (.imm 0)) S (Ext.refl w.heap) S.closed hi ho hcell (by
          intro y v m
          rcases mem_putSlot m with hold | ⟨_, rfl⟩
          · exact .inl hold
          · exact .inr ⟨Valid.imm _ _, fun b o => (own_imm_absurd o).elim⟩)
        refine ⟨S', fun j rj hj => hj, ?_⟩
        intro j rj hne hj m
        exact fr j rj (fun ej => hne (by simp [HOp.actor, ej])) hj m
      · cases e
  | putCopy i p x j q =>
    simp only [stepH] at e
    split at e
    · cases e
    · rename_i a k fs hn
      obtain ⟨ri, hi, ho, hcell⟩ := nodeAt_ok hn
      split at e
      · split at e
        · cases e
        · rename_i rj hj
          split at e
          · cases e
          · rename_i s l hr
            split at e
            · rename_i h1 c hcp
              cases e
              have hs : s < w.heap.length := S.own_lt hj (resolve_own _ w.heap q .full rj _ _ hr).1
              have F := copyAt_facts hwf S.closed hs hcp
              obtain ⟨S', fr⟩ := sep_update (fs' := putSlot fs x (.ref c)) S F.ext F.closed hi ho hcell (by
                intro y v m
                rcases mem_putSlot m with hold | ⟨_, rfl⟩
                · exact .inl hold
                · right
                  refine ⟨?_, fun b o => F.fresh _ b o⟩
                  intro b eb
                  cases eb
                  exact F.lt)
              refine ⟨S', fun j' rj' hj' => hj', ?_⟩
              intro j' rj' hne hj' m
              exact fr j' rj' (fun ej => hne (by simp [HOp.actor, ej])) hj' m
            · cases e
      · cases e
  | del i p x =>
    simp only [stepH] at e
    split at e
    · cases e
    · rename_i a k fs hn
      obtain ⟨ri, hi, ho, hcell⟩ := nodeAt_ok hn
      split at e
      · split at e
        · cases e
          obtain ⟨S', fr⟩ := sep_update (fs' := dropSlot fs x) S (Ext.refl w.heap) S.closed hi ho hcell
            (fun y v m => .inl (mem_dropSlot m))
          refine ⟨S', fun j rj hj => hj, ?_⟩
          intro j rj hne hj m
          exact fr j rj (fun ej => hne (by simp [HOp.actor, ej])) hj m
        · cases e
      · cases e

/-! ### conformance to the table along histories of copies and array writes -/

theorem elemOf_set_buf {h : Heap} {b : Nat} {d0 : List Int} (hb : h[b]? = some (.buf d0)) (d : List Int) (v : Val) :
    elemOf (h.set b (.buf d)) v = elemOf h v := by
  cases v with
  | imm t => rfl
  | ref a =>
    simp only [elemOf]
    by_cases ha : a = b
    · subst ha
      rw [List.getElem?_set_self (get_lt hb), hb]
    · rw [List.getElem?_set_ne (Ne.symm ha)]

theorem kindOf_set_buf {h : Heap} {b : Nat} {d0 : List Int} (hb : h[b]? = some (.buf d0)) (d : List Int) (v : Val) :
    kindOf (h.set b (.buf d)) v = kindOf h v := by
  cases v with
  | imm t => rfl
  | ref a =>
    simp only [kindOf]
    by_cases ha : a = b
    · subst ha
      rw [List.getElem?_set_self (get_lt hb), hb]
    · rw [List.getElem?_set_ne (Ne.symm ha)]
      cases hc : h[a]? with
      | none => rfl
      | some c =>
        cases c with
        | buf _ => rfl
        | node k fs =>
          cases k with
          | obj C => rfl
          | frozen => rfl
          | dict =>
            simp only
            congr 2
            apply List.map_congr_left
            intro p _
            exact elemOf_set_buf hb d p.2
          | list =>
            simp only
            congr 2
            apply List.map_congr_left
            intro p _
            exact elemOf_set_buf hb d p.2

theorem wt_set_buf {tbl : AttrTable} {sup : SupplierTable} {h : Heap} (hwt : wtHeap tbl sup h = true) {b : Nat}
    {d0 : List Int} (hb : h[b]? = some (.buf d0)) (d : List Int) : wtHeap tbl sup (h.set b (.buf d)) = true := by
  simp only [wtHeap, List.all_eq_true]
  intro cell hmem
  rcases List.mem_or_eq_of_mem_set hmem with hold | rfl
  · cases cell with
    | buf _ => rfl
    | node k fs =>
      cases k with
      | dict => rfl
      | list => rfl
      | frozen => rfl
      | obj C =>
        rw [wtCell_eq]
        have : kinded (h.set b (.buf d)) fs = kinded h fs := by
          simp only [kinded]
          apply List.map_congr_left
          intro p _
          rw [kindOf_set_buf hb d p.2]
        rw [this, ← wtCell_eq]
        exact List.all_eq_true.mp hwt _ hold
  · rfl

def HOp.copyOrWrite : HOp → Bool
  | .copy _ => true
  | .write _ _ _ => true
  | _ => false

/-- PROPERTY support: copies and array writes keep the heap conforming to the table -/
theorem step_preserves_wt {tbl : AttrTable} {sup : SupplierTable} {w w' : HW} (S : Sep (resOf sup) w)
    (hwt : wtHeap tbl sup w.heap = true) (op : HOp) (hop : op.copyOrWrite = true)
    (e : stepH tbl sup w op = .ok w') : wtHeap tbl sup w'.heap = true := by
  cases op with
  | copy i =>
    simp only [stepH] at e
    split at e
    · cases e
    · rename_i ri hi
      split at e
      · rename_i h1 c hcp
        cases e
        simp only [copyAt] at hcp
        split at hcp
        · split at hcp
          · rename_i h1' c' hcc
            simp only [Except.ok.injEq, Prod.mk.injEq] at hcp
            obtain ⟨rfl, rfl⟩ := hcp
            exact copy_preserves_wt tbl sup S.closed hwt (S.rootValid hi) hcc
          · cases hcp
          · cases hcp
        · cases hcp
      · cases e
  | write i p d =>
    simp only [stepH] at e
    split at e
    · cases e
    · split at e
      · cases e
      · split at e
        · rename_i d0 hb
          cases e
          exact wt_set_buf hwt hb d
        · cases e
  | putFresh i p x frag => simp [HOp.copyOrWrite] at hop
  | putImm i p x => simp [HOp.copyOrWrite] at hop
  | putCopy i p x j q => simp [HOp.copyOrWrite] at hop
  | del i p x => simp [HOp.copyOrWrite] at hop

end MenpoModel.C06
