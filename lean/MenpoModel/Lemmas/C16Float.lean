/-
C16 — the eight-bit round trip on IEEE binary64, decided by the kernel over all 256 values
(`decide +kernel`; Lean's `Float` operations `ofNat * / + - < toUInt64` reduce in the kernel).
Kept in a file of its own: ≈ 40 s of kernel evaluation, rebuilt only when `norm8`/`denorm*` change.
These are proofs of the finite claim (the property's own quantifier: all 8-bit values).
-/
import MenpoModel.Core.C16Pix

namespace MenpoModel.C16

/-- the eight-bit values the coded (truncating) conversion does not return -/
def truncFailures : List Nat :=
  [33, 37, 41, 45, 49, 53, 57, 61, 66, 74, 82, 90, 98, 106, 114, 122, 132, 148, 164, 180, 196, 212, 228, 244]

/-- REPAIRED conversion: every eight-bit value survives normalise → denormalise -/
theorem u8_roundtrip_round : ∀ k : Fin 256, (denormRound (norm8 k.val)).toNat = k.val := by
  decide +kernel

/-- CODED conversion (truncating cast): exactly these 24 values come back one lower … -/
theorem u8_trunc_failures :
    (List.range 256).filter (fun k => (denormTrunc (norm8 k)).toNat != k) = truncFailures := by
  decide +kernel

/-- … each of them by exactly one level -/
theorem u8_trunc_off_by_one : ∀ k ∈ truncFailures, (denormTrunc (norm8 k)).toNat + 1 = k := by
  decide +kernel

/-- refutation by witness of the round trip for the coded conversion -/
theorem u8_trunc_refuted : ¬ ∀ k : Fin 256, (denormTrunc (norm8 k.val)).toNat = k.val := by
  intro h
  exact absurd (h ⟨33, by decide⟩) (by decide +kernel)

end MenpoModel.C16
