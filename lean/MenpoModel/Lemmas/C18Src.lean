/-
C18 helper lemmas: from the binary64 sampling position to the sampled index (`srcF`): clamping, the order-0
rounding `⌊c + 0.5⌋` in binary64, and the comparison with the exact-arithmetic specification `srcAxis`.
-/
import MenpoModel.Lemmas.C18Pos
import MenpoModel.Core.C18Feature

namespace MenpoModel.C18

/-- absolute error budget of the whole chain for old extents below `2²⁰` -/
def eta : ℚ := 1 / 2 ^ 28

theorem ulp2_eq : ulp2 = 1 / 2 ^ 53 := by
  unfold ulp2; rw [pow2_eq_zpow]; norm_num

theorem cast_pred (o : Nat) (ho : 1 ≤ o) : ((o - 1 : Nat) : ℚ) = (o : ℚ) - 1 := by
  have := Nat.cast_sub (R := ℚ) ho
  simpa using this

/-- what `nearestIdx` rounds: the clamped position plus one half, in binary64 -/
def roundArg (o : Nat) (c : ℚ) : ℚ :=
  fadd (if c < 0 then 0 else if ((o - 1 : Nat) : ℚ) < c then ((o - 1 : Nat) : ℚ) else c) (1 / 2)

theorem nearestIdx_eq (o : Nat) (c : ℚ) : nearestIdx o c = (roundArg o c).floor.toNat := rfl

/-- the rounded argument is within `eta` of `x + 1/2` whenever the position is within `18·2⁻⁵³·x` of an `x ∈ [0, o−1]` -/
theorem roundArg_close (o : Nat) (c x : ℚ) (ho : 2 ≤ o) (hob : o < 2 ^ 20) (hx0 : 0 ≤ x) (hx1 : x ≤ (o : ℚ) - 1)
    (hc : |c - x| ≤ 18 * ulp2 * x) :
    |roundArg o c - (x + 1 / 2)| ≤ eta ∧ 0 < roundArg o c ∧ roundArg o c < (o : ℚ) := by
  have hu := ulp2_pos
  have hu1 := ulp2_lt
  have ho' : (2 : ℚ) ≤ (o : ℚ) := by exact_mod_cast ho
  have hob' : (o : ℚ) < 2 ^ 20 := by exact_mod_cast hob
  rw [abs_le] at hc
  unfold roundArg fadd
  rw [cast_pred o (by omega)]
  -- the clamped position c'
  set c' : ℚ := if c < 0 then 0 else if (o : ℚ) - 1 < c then (o : ℚ) - 1 else c with hc'
  have hc'0 : 0 ≤ c' := by
    rw [hc']; split
    · exact le_refl 0
    · split
      · linarith
      · linarith
  have hc'1 : c' ≤ (o : ℚ) - 1 := by
    rw [hc']; split
    · linarith
    · split
      · exact le_refl _
      · linarith
  have hc'x : |c' - x| ≤ 18 * ulp2 * x := by
    rw [abs_le, hc']
    split
    · constructor <;> nlinarith [hc.1, hc.2]
    · split
      · constructor <;> nlinarith [hc.1, hc.2]
      · exact hc
  rw [abs_le] at hc'x
  have hr := rne_rel_err (c' + 1 / 2)
  have hpos : 0 < c' + 1 / 2 := by linarith
  rw [abs_of_pos hpos, abs_le] at hr
  -- numeric budget: 18·u·x + u·(c' + 1/2) ≤ 19·u·o ≤ eta
  have hbud : 18 * ulp2 * x + (c' + 1 / 2) * ulp2 ≤ eta := by
    have h1 : 18 * ulp2 * x + (c' + 1 / 2) * ulp2 ≤ 19 * ulp2 * (o : ℚ) := by nlinarith
    have h2 : 19 * ulp2 * (o : ℚ) ≤ 19 * ulp2 * 2 ^ 20 := by
      apply mul_le_mul_of_nonneg_left hob'.le; positivity
    have h3 : 19 * ulp2 * (2 : ℚ) ^ 20 ≤ 1 / 2 ^ 28 := by rw [ulp2_eq]; norm_num
    unfold eta; linarith
  refine ⟨?_, ?_, ?_⟩
  · rw [abs_le]; constructor <;> linarith [hr.1, hr.2, hc'x.1, hc'x.2]
  · have : (c' + 1 / 2) * (1 - ulp2) ≤ rne (c' + 1 / 2) := by nlinarith [hr.1]
    have h2 : 0 < (c' + 1 / 2) * (1 - ulp2) := by
      apply mul_pos hpos
      have : (1 : ℚ) / 2 ^ 52 < 1 := by norm_num
      linarith
    linarith
  · have h1 : rne (c' + 1 / 2) ≤ (c' + 1 / 2) + (c' + 1 / 2) * ulp2 := by linarith [hr.2]
    have h2 : (c' + 1 / 2) * ulp2 ≤ eta := by nlinarith
    have h3 : eta < 1 / 2 := by unfold eta; norm_num
    linarith

theorem floor_toNat_cast (y : ℚ) (hy : 0 ≤ y) : ((y.floor.toNat : Nat) : ℚ) = ((y.floor : Int) : ℚ) := by
  have h0 : (0 : Int) ≤ y.floor := Rat.le_floor_iff.mpr (by simpa using hy)
  have : ((y.floor.toNat : Nat) : Int) = y.floor := Int.toNat_of_nonneg h0
  calc ((y.floor.toNat : Nat) : ℚ) = (((y.floor.toNat : Nat) : Int) : ℚ) := (Int.cast_natCast _).symm
    _ = ((y.floor : Int) : ℚ) := by rw [this]

/-- PROPERTY (mask resized with the shape, binary64): the source index is a valid index, and within half a pixel
(plus `2⁻²⁸`) of the exact position `i·(o−1)/(n−1)` -/
theorem srcF_near (o n i : Nat) (ho : 2 ≤ o) (hn : 2 ≤ n) (hob : o < 2 ^ 20) (hi : i < n) :
    srcF o n i < o ∧ |((srcF o n i : Nat) : ℚ) - posX o n i| ≤ 1 / 2 + eta := by
  have hx0 := posX_nonneg o n i (by omega) hn
  have hx1 := posX_le o n i (by omega) hn hi
  obtain ⟨h1, h2, h3⟩ := roundArg_close o (posF o n i) (posX o n i) ho hob hx0 hx1 (posF_close o n i ho hn)
  unfold srcF
  rw [nearestIdx_eq]
  set y := roundArg o (posF o n i) with hy
  have hcast := floor_toNat_cast y h2.le
  have hfl := Rat.floor_le y
  have hfl2 := Rat.lt_floor_add_one y
  push_cast at hfl2
  rw [abs_le] at h1
  constructor
  · have : ((y.floor.toNat : Nat) : ℚ) < (o : ℚ) := by rw [hcast]; linarith
    exact_mod_cast this
  · rw [hcast, abs_le]
    constructor <;> linarith [h1.1, h1.2]

/-- the integer facts behind `srcAxis`: `pos + 1/2 = num / den` with `num = 2·i·(o−1) + (n−1)`, `den = 2·(n−1)` -/
theorem posX_half (o n i : Nat) (ho : 1 ≤ o) (hn : 2 ≤ n) :
    posX o n i + 1 / 2 = ((2 * i * (o - 1) + (n - 1) : Nat) : ℚ) / ((2 * (n - 1) : Nat) : ℚ) := by
  unfold posX
  have hn' : (2 : ℚ) ≤ (n : ℚ) := by exact_mod_cast hn
  have hne : (n : ℚ) - 1 ≠ 0 := by linarith
  push_cast
  rw [cast_pred o ho, cast_pred n (by omega)]
  field_simp

/-- PROPERTY (the code samples the nearest source pixel): wherever the exact position is not exactly half-way between
two pixels, the binary64 chain returns the index the exact-arithmetic specification returns — for all extents
`2 ≤ o, n < 2²⁰` -/
theorem srcF_eq_spec (o n i k : Nat) (ho : 2 ≤ o) (hn : 2 ≤ n) (hob : o < 2 ^ 20) (hnb : n < 2 ^ 20) (hi : i < n)
    (hs : srcAxis o n i = .at k) : srcF o n i = k := by
  have hx0 := posX_nonneg o n i (by omega) hn
  have hx1 := posX_le o n i (by omega) hn hi
  obtain ⟨h1, h2, h3⟩ := roundArg_close o (posF o n i) (posX o n i) ho hob hx0 hx1 (posF_close o n i ho hn)
  have hhalf := posX_half o n i (by omega) hn
  -- unpack the specification
  unfold srcAxis at hs
  have hdeg : ¬ (n ≤ 1 ∨ o ≤ 1) := by omega
  simp only [hdeg, if_false] at hs
  set num := 2 * i * (o - 1) + (n - 1) with hnum
  set den := 2 * (n - 1) with hden
  have hden0 : 0 < den := by omega
  split at hs
  · cases hs
  · rename_i hr
    injection hs with hk
    have hdm := Nat.div_add_mod num den
    set q := num / den with hq
    set r := num % den with hr'
    have hrlt : r < den := Nat.mod_lt num hden0
    have hrpos : 0 < r := Nat.pos_of_ne_zero hr
    have hdenq : (0 : ℚ) < (den : ℚ) := by exact_mod_cast hden0
    -- num/den = q + r/den in ℚ
    have hsplit : (num : ℚ) / (den : ℚ) = (q : ℚ) + (r : ℚ) / (den : ℚ) := by
      have : (num : ℚ) = (den : ℚ) * (q : ℚ) + (r : ℚ) := by exact_mod_cast hdm.symm
      rw [this]; field_simp
    have hr1 : (1 : ℚ) ≤ (r : ℚ) := by exact_mod_cast hrpos
    have hr2 : (r : ℚ) + 1 ≤ (den : ℚ) := by exact_mod_cast hrlt
    have hdenb : (den : ℚ) < 2 ^ 21 := by
      have : den < 2 ^ 21 := by omega
      exact_mod_cast this
    have hinv : eta < 1 / (den : ℚ) := by
      unfold eta
      rw [div_lt_div_iff₀ (by positivity) hdenq]
      have : (2 : ℚ) ^ 21 < 2 ^ 28 := by norm_num
      linarith
    have hlo : 1 / (den : ℚ) ≤ (r : ℚ) / (den : ℚ) := by
      apply div_le_div_of_nonneg_right hr1 hdenq.le
    have hhi : (r : ℚ) / (den : ℚ) ≤ 1 - 1 / (den : ℚ) := by
      rw [div_le_iff₀ hdenq]; field_simp; linarith
    -- y ∈ (q, q+1)
    set y := roundArg o (posF o n i) with hy
    rw [abs_le] at h1
    have hyq : (q : ℚ) < y ∧ y < (q : ℚ) + 1 := by
      rw [hhalf, hsplit] at h1
      constructor <;> linarith [h1.1, h1.2]
    have hfloor : y.floor = (q : Int) := by
      have a : ((q : Int) : ℚ) ≤ y := by push_cast; exact hyq.1.le
      have b : y < (((q : Int) + 1 : Int) : ℚ) := by push_cast; exact hyq.2
      have h1' : (q : Int) ≤ y.floor := Rat.le_floor_iff.mpr a
      have h2' : y.floor < (q : Int) + 1 := Rat.floor_lt_iff.mpr b
      omega
    have hsrc : srcF o n i = q := by
      unfold srcF; rw [nearestIdx_eq, ← hy, hfloor]; simp
    -- q ≤ o − 1, so the clamp of the specification is vacuous
    have hqo : q ≤ o - 1 := by
      have : ((srcF o n i : Nat)) < o := (srcF_near o n i ho hn hob hi).1
      omega
    rw [hsrc, ← hk]
    exact (Nat.min_eq_right hqo).symm

/-- … and at an exact half-way position it returns one of the two equally near pixels -/
theorem srcF_tie (o n i k : Nat) (ho : 2 ≤ o) (hn : 2 ≤ n) (hob : o < 2 ^ 20) (hi : i < n)
    (hs : srcAxis o n i = .tie k) : srcF o n i = k ∨ srcF o n i + 1 = k := by
  have hx0 := posX_nonneg o n i (by omega) hn
  have hx1 := posX_le o n i (by omega) hn hi
  obtain ⟨h1, h2, h3⟩ := roundArg_close o (posF o n i) (posX o n i) ho hob hx0 hx1 (posF_close o n i ho hn)
  have hhalf := posX_half o n i (by omega) hn
  unfold srcAxis at hs
  have hdeg : ¬ (n ≤ 1 ∨ o ≤ 1) := by omega
  simp only [hdeg, if_false] at hs
  set num := 2 * i * (o - 1) + (n - 1) with hnum
  set den := 2 * (n - 1) with hden
  have hden0 : 0 < den := by omega
  split at hs
  · rename_i hr
    injection hs with hk
    have hdm := Nat.div_add_mod num den
    rw [hr, Nat.add_zero] at hdm
    set q := num / den with hq
    have hdenq : (0 : ℚ) < (den : ℚ) := by exact_mod_cast hden0
    have hsplit : (num : ℚ) / (den : ℚ) = (q : ℚ) := by
      have : (num : ℚ) = (den : ℚ) * (q : ℚ) := by exact_mod_cast hdm.symm
      rw [this]; field_simp
    set y := roundArg o (posF o n i) with hy
    rw [abs_le, hhalf, hsplit] at h1
    have heta : eta < 1 := by unfold eta; norm_num
    -- q ≤ o − 1: the exact position plus one half is at most o − 1/2
    have hqo : q ≤ o - 1 := by
      have : (q : ℚ) ≤ (o : ℚ) - 1 / 2 := by rw [← hsplit, ← hhalf]; linarith
      have h2' : (q : ℚ) < (o : ℚ) := by linarith
      have : q < o := by exact_mod_cast h2'
      omega
    have hkq : k = q := by rw [← hk]; exact Nat.min_eq_right hqo
    have hfl : y.floor = (q : Int) ∨ y.floor = (q : Int) - 1 := by
      have a : (((q : Int) - 1 : Int) : ℚ) ≤ y := by push_cast; linarith [h1.1]
      have b : y < (((q : Int) + 1 : Int) : ℚ) := by push_cast; linarith [h1.2]
      have h1' : (q : Int) - 1 ≤ y.floor := Rat.le_floor_iff.mpr a
      have h2' : y.floor < (q : Int) + 1 := Rat.floor_lt_iff.mpr b
      omega
    have h0 : (0 : Int) ≤ y.floor := Rat.le_floor_iff.mpr (by simpa using h2.le)
    unfold srcF
    rw [nearestIdx_eq, ← hy, hkq]
    rcases hfl with hfl | hfl
    · left; rw [hfl]; simp
    · right; rw [hfl] at h0 ⊢; omega
  · cases hs

end MenpoModel.C18
