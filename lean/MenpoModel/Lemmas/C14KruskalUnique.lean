/-
C14 — the minimum spanning forest is UNIQUE when the candidate weights are pairwise different.

Same counting argument as the minimality proof of `Lemmas/C14Kruskal.lean` (for every threshold `t` an edge-ordered
forest has at most as many edges of weight `≤ t` as Kruskal's choice, because Kruskal's light edges connect every light
candidate): if a spanning forest `F` of candidates weighs no more than Kruskal's choice, the layer-cake sums force
`#{e ∈ F | e.1 ≤ t} = #{e ∈ K | e.1 ≤ t}` for every `t`, hence `F` and `K` have an edge of exactly the same weights,
hence — weights being injective on the candidates — the same edges.  Core Lean only.
-/
import MenpoModel.Lemmas.C14Kruskal

namespace MenpoModel.C14
open Graph

theorem above_zero_of_le (T t : Nat) (K : List Nat) (hK : ∀ x ∈ K, x ≤ T) (ht : T ≤ t) : above t K = 0 := by
  simp only [above, List.countP_eq_zero, decide_eq_true_eq]
  intro x hx; have := hK x hx; omega

theorem pos_sum_of_above_pos (t : Nat) (F : List Nat) (h : 0 < above t F) : 0 < F.sum := by
  simp only [above, List.countP_pos_iff, decide_eq_true_eq] at h
  obtain ⟨x, hx, hlt⟩ := h
  have := le_sum_of_mem F x hx
  omega

/-- strict layer cake: one threshold with strictly more entries above it makes the sum strictly larger -/
theorem sum_lt_of_above_lt : ∀ (T : Nat) (K F : List Nat), (∀ x ∈ K, x ≤ T) →
    (∀ t, above t K ≤ above t F) → (∃ t, above t K < above t F) → K.sum < F.sum
  | 0, K, F, hK, _, ⟨t, ht⟩ => by
    rw [sum_eq_zero_of_le_zero K hK]
    exact pos_sum_of_above_pos t F (by omega)
  | T + 1, K, F, hK, h, ⟨t, ht⟩ => by
    have hKl : ∀ x ∈ lower K, x ≤ T := fun x hx => by
      simp only [lower, List.mem_map, List.mem_filter, decide_eq_true_eq] at hx
      obtain ⟨y, ⟨hy, _⟩, rfl⟩ := hx
      have := hK y hy
      omega
    have hl : ∀ t, above t (lower K) ≤ above t (lower F) := fun t => by
      rw [above_lower, above_lower]; exact h (t + 1)
    rw [sum_eq_lower K, sum_eq_lower F]
    have h0 := h 0
    cases t with
    | zero =>
      have := sum_le_of_above_le T (lower K) (lower F) hKl hl
      omega
    | succ s =>
      have := sum_lt_of_above_lt T (lower K) (lower F) hKl hl ⟨s, by rw [above_lower, above_lower]; exact ht⟩
      omega

/-- the number of edges of weight `≤ t` in a list -/
def lightCount (t : Nat) (L : List WEdge) : Nat := (L.filter fun c => decide (c.1 ≤ t)).length

theorem lightCount_step (t : Nat) (L : List WEdge) :
    lightCount (t + 1) L = lightCount t L + (L.filter fun c => c.1 == t + 1).length := by
  induction L with
  | nil => rfl
  | cons a s ih =>
    simp only [lightCount] at ih
    simp only [lightCount, List.filter_cons]
    rcases Nat.lt_trichotomy a.1 (t + 1) with h | h | h
    · have h1 : a.1 ≤ t := by omega
      have h2 : a.1 ≤ t + 1 := by omega
      have h3 : ¬ a.1 = t + 1 := by omega
      simp only [h1, h2, h3, decide_true, if_true, beq_iff_eq, if_false, List.length_cons, ih]
      omega
    · have h1 : ¬ t + 1 ≤ t := by omega
      simp only [h, h1, Nat.le_refl, decide_true, decide_false, if_true, beq_self_eq_true, List.length_cons, ih,
        Bool.false_eq_true, if_false]
      omega
    · have h1 : ¬ a.1 ≤ t := by omega
      have h2 : ¬ a.1 ≤ t + 1 := by omega
      have h3 : ¬ a.1 = t + 1 := by omega
      simp only [h1, h2, h3, decide_false, beq_iff_eq, Bool.false_eq_true, if_false, ih]

theorem lightCount_zero_of_pos (L : List WEdge) (hpos : ∀ e ∈ L, 0 < e.1) : lightCount 0 L = 0 := by
  simp only [lightCount, List.length_eq_zero_iff, List.filter_eq_nil_iff, decide_eq_true_eq]
  intro e he; have := hpos e he; omega

/-- MINIMUM SPANNING FORESTS ARE UNIQUE FOR PAIRWISE DIFFERENT WEIGHTS.  Let the candidate edges of `g` have pairwise
different weights.  Every edge-ordered forest `F` of candidates that connects what the graph connects and weighs no
more than Kruskal's choice consists of exactly the edges Kruskal chooses. -/
theorem kruskal_unique_forestR (g : Graph) (hdist : ∀ e ∈ g.wEdges, ∀ e' ∈ g.wEdges, e.1 = e'.1 → e = e')
    (F : List WEdge) (hsub : ∀ e ∈ F, e ∈ g.wEdges) (hF : ForestR F)
    (hspan : ∀ u v, u < g.n → v < g.n → Conn g.wEdges u v → Conn F u v)
    (hmin : (F.map (·.1)).sum ≤ (g.kruskalState.2.map (·.1)).sum) :
    ∀ e, e ∈ F ↔ e ∈ g.kruskalEdges := by
  have hKsub : ∀ e ∈ g.kruskalState.2, e ∈ g.wEdges :=
    fun e he => kruskalEdges_subset g e ((mem_kruskalState g e).1 he)
  have hKf : ForestR g.kruskalState.2 := (kruskalState_spec g).2.1
  have hKb : ∀ e ∈ g.kruskalState.2, e.2.1 < g.n ∧ e.2.2 < g.n := fun e he => wEdges_bounds' g e (hKsub e he)
  have hFb : ∀ e ∈ F, e.2.1 < g.n ∧ e.2.2 < g.n := fun e he => wEdges_bounds' g e (hsub e he)
  -- same number of edges: both are spanning forests
  have hlen1 : g.kruskalState.2.length ≤ F.length :=
    forest_length_le g.n _ _ hKb hFb hKf hF fun u v hu hv hc => hspan u v hu hv (Conn.mono hKsub hc)
  have hlen2 : F.length ≤ g.kruskalState.2.length :=
    forest_length_le g.n _ _ hFb hKb hF hKf fun u v _ _ hc => by
      have := (kruskal_spanning g u v).1 (Conn.mono hsub hc)
      exact Conn.mono (fun x hx => (mem_kruskalState g x).2 hx) this
  -- light edges: F never has more than K
  have hlight : ∀ t, lightCount t F ≤ lightCount t g.kruskalState.2 := by
    intro t
    apply forest_length_le g.n
    · exact fun e he => hFb e (List.mem_filter.1 he).1
    · exact fun e he => hKb e (List.mem_filter.1 he).1
    · exact hF.filter _
    · exact hKf.filter _
    · intro u v _ _ hc
      refine Conn.of_edges (fun e he => ?_) hc
      obtain ⟨heF, het⟩ := List.mem_filter.1 he
      have het : e.1 ≤ t := by simpa using het
      refine Conn.mono (fun c hc => ?_) (kruskal_light g e (hsub e heF))
      obtain ⟨hc1, hc2⟩ := List.mem_filter.1 hc
      have hc2 : c.1 ≤ e.1 := by simpa using hc2
      exact List.mem_filter.2 ⟨hc1, by simpa using Nat.le_trans hc2 het⟩
  have habove : ∀ t, above t (g.kruskalState.2.map (·.1)) ≤ above t (F.map (·.1)) := by
    intro t
    have h1 := above_weights t g.kruskalState.2
    have h2 := above_weights t F
    have := hlight t
    simp only [lightCount] at this
    omega
  -- equal sums force equality at every threshold
  have heq : ∀ t, lightCount t F = lightCount t g.kruskalState.2 := by
    intro t
    apply Classical.byContradiction
    intro hne
    have hlt : above t (g.kruskalState.2.map (·.1)) < above t (F.map (·.1)) := by
      have h1 := above_weights t g.kruskalState.2
      have h2 := above_weights t F
      have := hlight t
      simp only [lightCount] at this hne
      omega
    have := sum_lt_of_above_lt ((g.kruskalState.2.map (·.1)).sum) _ _ (fun x hx => le_sum_of_mem _ x hx) habove ⟨t, hlt⟩
    omega
  -- hence the same number of edges of every exact weight
  have hpos : ∀ e ∈ g.wEdges, 0 < e.1 := by
    intro e he
    obtain ⟨w, i, j⟩ := e
    obtain ⟨hij, hj, hne, rfl⟩ := (mem_wEdges g w i j).1 he
    simp only [Graph.uw]
    rcases hne with h | h <;> (repeat' split) <;> omega
  have hexact : ∀ w, 0 < w → (F.filter fun c => c.1 == w).length = (g.kruskalState.2.filter fun c => c.1 == w).length := by
    intro w hw
    obtain ⟨t, rfl⟩ : ∃ t, w = t + 1 := ⟨w - 1, by omega⟩
    have h1 := lightCount_step t F
    have h2 := lightCount_step t g.kruskalState.2
    have := heq t
    have := heq (t + 1)
    omega
  have hmemw : ∀ (A B : List WEdge), (∀ e ∈ A, e ∈ g.wEdges) → (∀ e ∈ B, e ∈ g.wEdges) →
      (∀ w, 0 < w → (A.filter fun c => c.1 == w).length = (B.filter fun c => c.1 == w).length) →
      ∀ e, e ∈ A → e ∈ B := by
    intro A B hA hB hcnt e he
    have hw := hpos e (hA e he)
    have h1 : 0 < (A.filter fun c => c.1 == e.1).length :=
      List.length_pos_of_mem (List.mem_filter.2 ⟨he, by simp⟩)
    rw [hcnt e.1 hw] at h1
    obtain ⟨e', he'⟩ := List.exists_mem_of_length_pos h1
    obtain ⟨he'B, hw'⟩ := List.mem_filter.1 he'
    have : e' = e := hdist e' (hB e' he'B) e (hA e he) (by simpa using hw')
    exact this ▸ he'B
  intro e
  rw [← mem_kruskalState]
  exact ⟨hmemw F _ hsub hKsub hexact e, hmemw _ F hKsub hsub (fun w hw => (hexact w hw).symm) e⟩

end MenpoModel.C14
