/-
C16 — lemmas behind the obligations over the translated landmark writers / readers (`GenProps/C16SrcFmt.lean`): the
exporter's re-tupling of the flattened coordinates, dictionaries as association lists, loops with an exit component,
the two loops of `pts_importer`.  The loop lemmas are stated for an ARBITRARY body / test that satisfies the
equations the translated body satisfies, so they do not mention the translated text.  Core Lean only.
-/
import MenpoModel.Core.C16SrcFmt
import MenpoModel.Lemmas.C16Src

namespace MenpoModel.C16
open PyX

/-! ### `list(zip(f[::2], f[1::2]))` -/

theorem zipRows2_takeEvery {α : Type} : ∀ f : List α, zipRows2 (takeEvery2 f) (takeEvery2 (f.drop 1)) = regroup2 f
  | [] => rfl
  | [a] => rfl
  | a :: b :: t => by
    have ih := zipRows2_takeEvery t
    cases t with
    | nil => rfl
    | cons c u =>
      simp only [takeEvery2, List.drop_succ_cons, List.drop_zero, zipRows2, List.zipWith_cons_cons, regroup2] at ih ⊢
      cases u with
      | nil => simp [takeEvery2, regroup2]
      | cons d v =>
        simp only [takeEvery2, regroup2, List.zipWith_cons_cons, List.drop_succ_cons, List.drop_zero] at ih ⊢
        rw [ih]

theorem zipRows3_takeEvery {α : Type} : ∀ f : List α,
    zipRows3 (takeEvery3 f) (takeEvery3 (f.drop 1)) (takeEvery3 (f.drop 2)) = regroup3 f
  | [] => rfl
  | [a] => rfl
  | [a, b] => rfl
  | a :: b :: c :: t => by
    have ih := zipRows3_takeEvery t
    match t, ih with
    | [], _ => rfl
    | [d], _ => rfl
    | [d, e], _ => rfl
    | d :: e :: g :: u, ih =>
      simp only [takeEvery3, List.drop_succ_cons, List.drop_zero, zipRows3, regroup3] at ih ⊢
      rw [ih]

/-! ### the same re-tupling written as `list(zip(*[f[axis::ndim] for axis in range(ndim)]))` -/

theorem everyNth_nil {α : Type} (n fuel : Nat) : everyNth n fuel ([] : List α) = [] := by
  cases fuel <;> rfl

theorem everyNth2 {α : Type} : ∀ (fuel : Nat) (l : List α), l.length ≤ fuel → everyNth 2 fuel l = takeEvery2 l
  | 0, [], _ => rfl
  | 0, _ :: _, h => by simp at h
  | _ + 1, [], _ => rfl
  | _ + 1, [a], _ => by simp [everyNth, takeEvery2, everyNth_nil]
  | n + 1, a :: b :: t, h => by
    simp only [everyNth, takeEvery2, Nat.add_one_sub_one, List.drop_succ_cons, List.drop_zero]
    rw [everyNth2 n t (by simp at h; omega)]

theorem everyNth3 {α : Type} : ∀ (fuel : Nat) (l : List α), l.length ≤ fuel → everyNth 3 fuel l = takeEvery3 l
  | 0, [], _ => rfl
  | 0, _ :: _, h => by simp at h
  | _ + 1, [], _ => rfl
  | _ + 1, [a], _ => by simp [everyNth, takeEvery3, everyNth_nil]
  | _ + 1, [a, b], _ => by simp [everyNth, takeEvery3, everyNth_nil]
  | n + 1, a :: b :: c :: t, h => by
    simp only [everyNth, takeEvery3, List.drop_succ_cons, List.drop_zero]
    rw [everyNth3 n t (by simp at h; omega)]

theorem transposeF2 {α : Type} : ∀ (n : Nat) (a b : List α), a.length ≤ n → transposeF n [a, b] = zipRows2 a b
  | 0, [], b, _ => by simp [transposeF, zipRows2]
  | 0, _ :: _, _, h => by simp at h
  | _ + 1, [], b, _ => by simp [transposeF, splitHeads, zipRows2]
  | _ + 1, x :: a, [], _ => by simp [transposeF, splitHeads, zipRows2]
  | n + 1, x :: a, y :: b, h => by
    simp only [transposeF, splitHeads, zipRows2, List.zipWith_cons_cons]
    rw [transposeF2 n a b (by simp at h; omega)]
    rfl

theorem transposeF3 {α : Type} : ∀ (n : Nat) (a b c : List α), a.length ≤ n → transposeF n [a, b, c] = zipRows3 a b c
  | 0, [], b, c, _ => by simp [transposeF, zipRows3]
  | 0, _ :: _, _, _, h => by simp at h
  | _ + 1, [], b, c, _ => by simp [transposeF, splitHeads, zipRows3]
  | _ + 1, x :: a, [], c, _ => by simp [transposeF, splitHeads, zipRows3]
  | _ + 1, x :: a, y :: b, [], _ => by simp [transposeF, splitHeads, zipRows3]
  | n + 1, x :: a, y :: b, z :: c, h => by
    simp only [transposeF, splitHeads, zipRows3]
    rw [transposeF3 n a b c (by simp at h; omega)]

/-- `list(zip(f[::2], f[1::2]))` -/
theorem transpose_pair {α : Type} (f : List α) : transposeRows [strideFrom f 0 2, strideFrom f 1 2] = regroup2 f := by
  simp only [transposeRows, strideFrom, List.drop_zero]
  rw [transposeF2 _ _ _ (Nat.le_refl _), everyNth2 _ _ (by omega), everyNth2 _ _ (by simp; omega)]
  exact zipRows2_takeEvery f

/-- `list(zip(f[::3], f[1::3], f[2::3]))` -/
theorem transpose_triple {α : Type} (f : List α) :
    transposeRows [strideFrom f 0 3, strideFrom f 1 3, strideFrom f 2 3] = regroup3 f := by
  simp only [transposeRows, strideFrom, List.drop_zero]
  rw [transposeF3 _ _ _ _ (Nat.le_refl _), everyNth3 _ _ (by omega), everyNth3 _ _ (by simp; omega),
    everyNth3 _ _ (by simp; omega)]
  exact zipRows3_takeEvery f

/-- `list(zip(*[f[axis::2] for axis in range(2)]))` -/
theorem transpose_stride2 {α : Type} (f : List α) :
    transposeRows (List.map (fun a => strideFrom f a 2) (List.range 2)) = regroup2 f := by
  have hr : List.range 2 = [0, 1] := rfl
  rw [hr]
  exact transpose_pair f

theorem transpose_stride3 {α : Type} (f : List α) :
    transposeRows (List.map (fun a => strideFrom f a 3) (List.range 3)) = regroup3 f := by
  have hr : List.range 3 = [0, 1, 2] := rfl
  rw [hr]
  exact transpose_triple f

theorem map_nan_filter (l : List (Option Rat)) :
    List.map (fun it1 => let x0 := it1; (if x0.isNone then none else x0)) l = l := by
  induction l with
  | nil => rfl
  | cons a t ih => cases a <;> simp_all

/-! ### dictionaries as association lists -/

theorem dictSet_map {β γ : Type} (f : β → γ) (d : List (String × β)) (k : String) (v : β) :
    dictSet (d.map fun p => (p.1, f p.2)) k (f v) = (dictSet d k v).map fun p => (p.1, f p.2) := by
  unfold dictSet
  have : (d.map fun p => (p.1, f p.2)).any (fun p => p.1 == k) = d.any (fun p => p.1 == k) := by
    simp [List.any_map, Function.comp_def]
  rw [this]
  split
  · simp only [List.map_map]
    apply List.map_congr_left
    intro p _
    simp only [Function.comp_apply]
    split <;> rfl
  · simp

theorem foldl_dictSet_map {β γ : Type} (f : β → γ) (l : List (String × β)) : ∀ d : List (String × β),
    l.foldl (fun g it => dictSet g it.1 (f it.2)) (d.map fun p => (p.1, f p.2)) =
      (l.foldl (fun g it => dictSet g it.1 it.2) d).map fun p => (p.1, f p.2) := by
  induction l with
  | nil => intro d; rfl
  | cons a t ih =>
    intro d
    simp only [List.foldl_cons]
    rw [dictSet_map, ih]

/-! ### a `for` loop whose state carries an exit component that the body never sets -/

theorem forLoop_no_exit {ρ σ α : Type} (B : Option ρ × σ → α → Option ρ × σ) (step : σ → α → σ)
    (h : ∀ g it, B (none, g) it = (none, step g it)) :
    ∀ (items : List α) (g : σ), MenpoModel.Py.forLoop (none, g) items B = (none, items.foldl step g) := by
  intro items
  induction items with
  | nil => intro g; rfl
  | cons a t ih => intro g; simp only [MenpoModel.Py.forLoop_cons, List.foldl_cons, h, ih]

theorem forLoop_append {α : Type} (L : List α) : ∀ l : List α,
    MenpoModel.Py.forLoop l L (fun acc it => acc ++ [it]) = l ++ L := by
  induction L with
  | nil => intro l; simp [MenpoModel.Py.forLoop_nil]
  | cons a t ih => intro l; rw [MenpoModel.Py.forLoop_cons, ih]; simp

/-! ### a `for` loop whose body may raise: the translated fold with an exit component = `foldX` -/

theorem forLoop_foldX {ρ σ α : Type} (B : Option (Except Exc ρ) × σ → α → Option (Except Exc ρ) × σ)
    (step : σ → α → Except Exc σ)
    (hstop : ∀ v s a, B (some v, s) a = (some v, s))
    (hB : ∀ s a, B (none, s) a = match step s a with
      | .ok s' => (none, s')
      | .error e => (some (.error e), s)) :
    ∀ (L : List α) (s : σ), match foldX step s L with
      | .ok s' => MenpoModel.Py.forLoop (none, s) L B = (none, s')
      | .error e => (MenpoModel.Py.forLoop (none, s) L B).1 = some (.error e) := by
  have hstuck : ∀ (L : List α) v s, MenpoModel.Py.forLoop (some v, s) L B = (some v, s) := by
    intro L
    induction L with
    | nil => intros; rfl
    | cons a t ih => intro v s; rw [MenpoModel.Py.forLoop_cons, hstop, ih]
  intro L
  induction L with
  | nil => intro s; simp [foldX, MenpoModel.Py.forLoop_nil]
  | cons a t ih =>
    intro s
    rw [MenpoModel.Py.forLoop_cons, hB]
    unfold foldX
    cases hs : step s a with
    | error e => simp only; rw [hstuck]
    | ok s' => simp only; exact ih s'

theorem forLoop_foldX_of {ρ σ α : Type} (B : Option (Except Exc ρ) × σ → α → Option (Except Exc ρ) × σ)
    (step : σ → α → Except Exc σ) (L : List α) (s : σ) (res : Option (Except Exc ρ) × σ)
    (h : MenpoModel.Py.forLoop (none, s) L B = res)
    (hstop : ∀ v s a, B (some v, s) a = (some v, s))
    (hB : ∀ s a, B (none, s) a = match step s a with
      | .ok s' => (none, s')
      | .error e => (some (.error e), s)) :
    match foldX step s L with
    | .ok s' => res = (none, s')
    | .error e => res.1 = some (.error e) := by
  rw [← h]
  exact forLoop_foldX B step hstop hB L s

theorem maskSet_replicate (n : Nat) (idx : List Nat) :
    maskSet (List.replicate n false) idx = if idx.all (· < n) then .ok (maskOf n idx) else .error .indexError := by
  unfold maskSet maskOf
  simp only [List.length_replicate]
  split
  · congr 1
    apply List.map_congr_left
    intro i hi
    simp only [List.mem_range] at hi
    simp [List.getD_eq_getElem?_getD, hi]
  · rfl

/-! ### the two loops of `pts_importer` -/

/-- the `while` loop: `line` is the line last looked at, `ls` the lines not popped yet -/
def ptsWhile : PLine → List PLine → Except Exc (List PLine)
  | l, ls => if l.isOpen then .ok ls else
    match ls with
    | [] => .error .indexError
    | b :: t => ptsWhile b t

theorem afterOpen_eq (L : List PLine) :
    afterOpen L = match L with
      | [] => .error .indexError
      | a :: t => ptsWhile a (a :: t) := by
  cases L with
  | nil => rfl
  | cons a t =>
    have key : ∀ (ls : List PLine) (l : PLine), l.isOpen = false → ptsWhile l ls = afterOpen.dropToOpen ls := by
      intro ls
      induction ls with
      | nil => intro l hl; unfold ptsWhile afterOpen.dropToOpen; simp [hl]
      | cons b u ih =>
        intro l hl
        unfold ptsWhile afterOpen.dropToOpen
        simp only [hl, Bool.false_eq_true, ↓reduceIte]
        by_cases hb : b.isOpen = true
        · unfold ptsWhile; simp [hb]
        · rw [ih b (by simpa using hb)]; simp [hb]
    simp only [afterOpen]
    by_cases ha : a.isOpen = true
    · unfold ptsWhile; simp [ha]
    · rw [key _ a (by simpa using ha)]; simp [ha]

theorem ptsWhile_loop {ρ : Type} (C : Option (Except Exc ρ) × PLine × List PLine → Bool)
    (B : Option (Except Exc ρ) × PLine × List PLine → Option (Except Exc ρ) × PLine × List PLine)
    (hC : ∀ r l ls, C (r, l, ls) = (!r.isSome && !l.isOpen))
    (hB : ∀ l ls, B (none, l, ls) = match pop0 ls with
      | .error e => (some (.error e), l, ls)
      | .ok p => (none, p.1, p.2)) :
    ∀ (ls : List PLine) (l : PLine) (fuel : Nat), ls.length < fuel →
      ∃ r, whileLoop fuel (none, l, ls) C B = some r ∧
        ((r.1 = none ∧ ptsWhile l ls = .ok r.2.2) ∨ (∃ e, r.1 = some (.error e) ∧ ptsWhile l ls = .error e)) := by
  intro ls
  induction ls with
  | nil =>
    intro l fuel hf
    cases fuel with
    | zero => omega
    | succ n =>
      unfold whileLoop ptsWhile
      rw [hC]
      by_cases hl : l.isOpen = true
      · simp [hl]
      · simp only [Option.isSome_none, Bool.not_false, hl, Bool.true_and, ↓reduceIte, Bool.false_eq_true, hB, pop0]
        cases n with
        | zero => unfold whileLoop; rw [hC]; simp
        | succ m => unfold whileLoop; rw [hC]; simp
  | cons b t ih =>
    intro l fuel hf
    cases fuel with
    | zero => omega
    | succ n =>
      unfold whileLoop ptsWhile
      rw [hC]
      by_cases hl : l.isOpen = true
      · simp [hl]
      · simp only [Option.isSome_none, Bool.not_false, hl, Bool.true_and, ↓reduceIte, Bool.false_eq_true, hB, pop0]
        exact ih b n (by simp at hf; omega)

/-- the `for` loop over the remaining lines: state = (exit, xs, ys) -/
theorem ptsFor_loop {ρ : Type}
    (f : Option (Except Exc ρ) × List (Option Rat) × List (Option Rat) → PLine →
      Option (Except Exc ρ) × List (Option Rat) × List (Option Rat))
    (hstop : ∀ v xs ys ln, f (some v, xs, ys) ln = (some v, xs, ys))
    (hf : ∀ xs ys ln, f (none, xs, ys) ln =
      if ln.isClose then (none, xs, ys) else
        match ln.first2 with
        | .error e => (some (.error e), xs, ys)
        | .ok p => (none, xs ++ [p.1], ys ++ [p.2])) :
    ∀ (L : List PLine) (xs ys : List (Option Rat)),
      (∃ rows, bodyRows L = .ok rows ∧
        MenpoModel.Py.forLoop (none, xs, ys) L f = (none, xs ++ rows.map (·.1), ys ++ rows.map (·.2))) ∨
      (∃ e, bodyRows L = .error e ∧ (MenpoModel.Py.forLoop (none, xs, ys) L f).1 = some (.error e)) := by
  have hstuck : ∀ (L : List PLine) v xs ys, MenpoModel.Py.forLoop (some v, xs, ys) L f = (some v, xs, ys) := by
    intro L
    induction L with
    | nil => intros; rfl
    | cons a t ih => intro v xs ys; rw [MenpoModel.Py.forLoop_cons, hstop, ih]
  intro L
  induction L with
  | nil => intro xs ys; left; exact ⟨[], rfl, by simp [MenpoModel.Py.forLoop_nil]⟩
  | cons a t ih =>
    intro xs ys
    rw [MenpoModel.Py.forLoop_cons, hf]
    unfold bodyRows
    by_cases hc : a.isClose = true
    · simp only [hc, ↓reduceIte]
      exact ih xs ys
    · simp only [hc, Bool.false_eq_true, ↓reduceIte]
      cases hp : a.first2 with
      | error e =>
        right
        exact ⟨e, rfl, by rw [hstuck]⟩
      | ok p =>
        simp only
        rcases ih (xs ++ [p.1]) (ys ++ [p.2]) with ⟨rows, hr, hl⟩ | ⟨e, hr, hl⟩
        · left
          refine ⟨p :: rows, by rw [hr], ?_⟩
          rw [hl]
          simp
        · right
          exact ⟨e, by rw [hr], hl⟩

/-- the same, for a loop result that has been given a name (`generalize h : PyX.whileLoop _ _ _ _ = o`) -/
theorem ptsWhile_loop_of {ρ : Type} (C : Option (Except Exc ρ) × PLine × List PLine → Bool)
    (B : Option (Except Exc ρ) × PLine × List PLine → Option (Except Exc ρ) × PLine × List PLine)
    (ls : List PLine) (l : PLine) (fuel : Nat) (o : Option (Option (Except Exc ρ) × PLine × List PLine))
    (h : whileLoop fuel (none, l, ls) C B = o)
    (hC : ∀ r l ls, C (r, l, ls) = (!r.isSome && !l.isOpen))
    (hB : ∀ l ls, B (none, l, ls) = match pop0 ls with
      | .error e => (some (.error e), l, ls)
      | .ok p => (none, p.1, p.2))
    (hf : ls.length < fuel) :
    ∃ r, o = some r ∧
      ((r.1 = none ∧ ptsWhile l ls = .ok r.2.2) ∨ (∃ e, r.1 = some (.error e) ∧ ptsWhile l ls = .error e)) := by
  obtain ⟨r, hr, hc⟩ := ptsWhile_loop C B hC hB ls l fuel hf
  exact ⟨r, by rw [← h, hr], hc⟩

theorem ptsFor_loop_of {ρ : Type}
    (f : Option (Except Exc ρ) × List (Option Rat) × List (Option Rat) → PLine →
      Option (Except Exc ρ) × List (Option Rat) × List (Option Rat))
    (L : List PLine) (xs ys : List (Option Rat)) (res : Option (Except Exc ρ) × List (Option Rat) × List (Option Rat))
    (h : MenpoModel.Py.forLoop (none, xs, ys) L f = res)
    (hstop : ∀ v xs ys ln, f (some v, xs, ys) ln = (some v, xs, ys))
    (hf : ∀ xs ys ln, f (none, xs, ys) ln =
      if ln.isClose then (none, xs, ys) else
        match ln.first2 with
        | .error e => (some (.error e), xs, ys)
        | .ok p => (none, xs ++ [p.1], ys ++ [p.2])) :
    (∃ rows, bodyRows L = .ok rows ∧ res = (none, xs ++ rows.map (·.1), ys ++ rows.map (·.2))) ∨
    (∃ e, bodyRows L = .error e ∧ res.1 = some (.error e)) := by
  rw [← h]
  exact ptsFor_loop f hstop hf L xs ys

theorem swapAdd1_rows (pts : List (List (Option Rat))) :
    match mapX swapRow pts, allSome (pts.map ptsExportRow) with
    | .error e, none => e = .indexError
    | .ok rows, some rs =>
      rows.map (fun r => PLine.row [r.1.map fmt3, r.2.map fmt3]) = rs.map fun r => PLine.row [r.1, r.2]
    | _, _ => False := by
  induction pts with
  | nil => simp [mapX, allSome]
  | cons r t ih =>
    simp only [mapX, List.map_cons, allSome]
    match r with
    | [] => simp [swapRow, ptsExportRow, allSome]
    | [y] => simp [swapRow, ptsExportRow, allSome]
    | y :: x :: u =>
      simp only [swapRow, ptsExportRow]
      cases hA : mapX swapRow t <;> cases hB : allSome (List.map ptsExportRow t) <;>
        simp only [hA, hB] at ih ⊢ <;> simp_all [allSome, fmt3O, Option.map_map, Function.comp_def]

theorem swapAdd1_spec (pts : List (List (Option Rat))) :
    (match swapAdd1 pts with
      | .error e => (.error e : Except Exc (List PLine))
      | .ok rows => .ok (savetxt3 (ptsHeader rows.length) rows)) = ptsExporterSpec pts := by
  have := swapAdd1_rows pts
  unfold swapAdd1 ptsExporterSpec
  cases hA : mapX swapRow pts <;> cases hB : allSome (List.map ptsExportRow pts) <;>
    simp only [hA, hB] at this ⊢ <;> simp_all [savetxt3, ptsHeader]

end MenpoModel.C16
