/-
C13 — `set_patches` against extraction: where the write-back lands, for every centre.

`extract_patches_with_slice` reads the window whose low corner is `round(c + o) − ⌊ph/2⌋`
(`np.round`, half to even); `set_patches` writes the window whose low corner is
`int(c + o) − ⌊ph/2⌋` (truncation toward zero).  The theorems below say exactly when the two
coincide (`truncZ_eq_round_iff`), that the round trip restores the image in that case
(`set_extract_roundtrip_centres`, which contains the integer-centre theorem
`set_extract_roundtrip`), that otherwise the written block is the image shifted by the
difference (`set_extract_shifted`, `set_extract_not_restored`), and that with the placement of
notes/fixes/C13-set-patches-rounding.diff (`np.round` in `set_patches`) the round trip holds at
every centre away from rounding ties (`set_extract_roundtrip_repaired`).
Core Lean only.
-/
import MenpoModel.Lemmas.C13Base
namespace MenpoModel.C13
open MenpoModel.PyData

/-! ### rounding vs truncation -/

theorem frac_range (x : Rat) : 0 ≤ x - (x.floor : Rat) ∧ x - (x.floor : Rat) < 1 := by
  have h1 := Rat.floor_le x
  have h2 := Rat.lt_floor_add_one x
  rw [Rat.intCast_add] at h2
  constructor <;> grind

theorem ceil_eq_floor_add_one (x : Rat) (h : (x.floor : Rat) ≠ x) : x.ceil = x.floor + 1 := by
  have h1 := Rat.floor_le x
  have h2 := Rat.lt_floor_add_one x
  apply Int.le_antisymm
  · rw [Rat.ceil_le_iff]; exact Rat.le_of_lt h2
  · have : x.floor < x.ceil := by
      rw [Rat.lt_ceil_iff]
      exact Rat.lt_of_le_of_ne h1 h
    omega

theorem ceil_eq_floor (x : Rat) (h : (x.floor : Rat) = x) : x.ceil = x.floor := by
  rw [← h, Rat.ceil_intCast, Rat.floor_intCast]

theorem floor_nonneg (x : Rat) (h : 0 ≤ x) : 0 ≤ x.floor := by
  rw [Rat.le_floor_iff]; simpa using h

/-- `np.round(x) − int(x)` for every `x` away from rounding ties: `0` or `1` for `x ≥ 0`
(`1` exactly when the fractional part exceeds one half), `0` or `−1` for `x < 0`
(`−1` exactly when `x` is not whole and its fractional part is below one half). -/
theorem round_sub_trunc (x : Rat) (h : NoTie x) :
    roundHalfEven x - truncZ x =
      if 0 ≤ x then (if x - (x.floor : Rat) < 1/2 then 0 else 1)
      else (if (x.floor : Rat) = x then 0 else if x - (x.floor : Rat) < 1/2 then -1 else 0) := by
  have hr := frac_range x
  unfold NoTie at h
  by_cases h0 : 0 ≤ x
  · simp only [roundHalfEven, truncZ, if_pos h0]
    by_cases h1 : x - (x.floor : Rat) < 1/2
    · simp only [if_pos h1]; omega
    · have h2 : 1/2 < x - (x.floor : Rat) := by grind
      simp only [if_neg h1, if_pos h2]; omega
  · simp only [roundHalfEven, truncZ, if_neg h0]
    by_cases hi : (x.floor : Rat) = x
    · have hz : x - (x.floor : Rat) = 0 := by grind
      rw [ceil_eq_floor x hi, if_pos hi, hz, if_pos zero_lt_half]; omega
    · rw [ceil_eq_floor_add_one x hi, if_neg hi]
      by_cases h1 : x - (x.floor : Rat) < 1/2
      · simp only [if_pos h1]; omega
      · have h2 : 1/2 < x - (x.floor : Rat) := by grind
        simp only [if_neg h1, if_pos h2]; omega

/-- PROPERTY (round trip, for which centres): away from rounding ties, `int(x)` and `np.round(x)`
pick the same pixel exactly when `x ≥ 0` has fractional part below one half, or `x < 0` is whole or
has fractional part above one half. -/
theorem truncZ_eq_round_iff (x : Rat) (h : NoTie x) :
    truncZ x = roundHalfEven x ↔
      (0 ≤ x ∧ x - (x.floor : Rat) < 1/2) ∨ (x < 0 ∧ ((x.floor : Rat) = x ∨ 1/2 < x - (x.floor : Rat))) := by
  have hd := round_sub_trunc x h
  unfold NoTie at h
  by_cases h0 : 0 ≤ x
  · rw [if_pos h0] at hd
    by_cases h1 : x - (x.floor : Rat) < 1/2
    · rw [if_pos h1] at hd
      exact ⟨fun _ => Or.inl ⟨h0, h1⟩, fun _ => by omega⟩
    · rw [if_neg h1] at hd
      constructor
      · intro e; omega
      · intro e
        rcases e with e | e
        · exact absurd e.2 h1
        · exact absurd h0 (by grind)
  · rw [if_neg h0] at hd
    have hneg : x < 0 := by grind
    by_cases hi : (x.floor : Rat) = x
    · rw [if_pos hi] at hd
      exact ⟨fun _ => Or.inr ⟨hneg, Or.inl hi⟩, fun _ => by omega⟩
    · rw [if_neg hi] at hd
      by_cases h1 : x - (x.floor : Rat) < 1/2
      · rw [if_pos h1] at hd
        constructor
        · intro e; omega
        · intro e
          rcases e with e | e
          · exact absurd e.1 h0
          · rcases e.2 with e2 | e2
            · exact absurd e2 hi
            · exact absurd h1 (by grind)
      · rw [if_neg h1] at hd
        have h2 : 1/2 < x - (x.floor : Rat) := by grind
        exact ⟨fun _ => Or.inr ⟨hneg, Or.inr h2⟩, fun _ => by omega⟩

theorem placeZ_intCast (v : Variant) (k : Int) : placeZ v (k : Rat) = k := by
  cases v <;> simp only [placeZ, truncZ_intCast, roundHalfEven_intCast]

theorem noTie_intCast (k : Int) : NoTie (k : Rat) := by
  unfold NoTie
  rw [Rat.floor_intCast]
  have : (k : Rat) - (k : Rat) = 0 := by grind
  rw [this]
  decide +kernel

theorem noTie_add_int (x : Rat) (n : Int) (h : NoTie x) : NoTie (x + (n : Rat)) := by
  unfold NoTie at *
  rw [Rat.floor_add_intCast, Rat.intCast_add]
  have : x + (n : Rat) - ((x.floor : Rat) + (n : Rat)) = x - (x.floor : Rat) := by grind
  rw [this]; exact h

/-- the argument of the low-corner rounding is the centre plus offset minus `⌊ph/2⌋` -/
theorem lo_arg_rat (ph : Nat) (c o : Rat) :
    c + halfPixel ph + o + -halfExt ph = (c + o) + (((-((ph / 2 : Nat) : Int) : Int)) : Rat) := by
  have h := natCast_div_mod ph
  simp only [halfPixel, halfExt, Rat.intCast_neg, Rat.intCast_natCast]
  grind

/-- away from rounding ties of `c + o`, the slicing path reads the window whose low corner is
`round(c + o) − ⌊ph/2⌋` and whose high corner is `ph` further -/
theorem sliceBounds_round (ph : Nat) (c o : Rat) (h : NoTie (c + o)) :
    sliceBounds ph c o = (roundHalfEven (c + o) - ((ph / 2 : Nat) : Int),
                          roundHalfEven (c + o) - ((ph / 2 : Nat) : Int) + (ph : Int)) := by
  have hn : NoTie (c + halfPixel ph + o + -halfExt ph) := by
    rw [lo_arg_rat]; exact noTie_add_int _ _ h
  have h2 := sliceBounds_consistent ph c o
  have h1 : (sliceBounds ph c o).1 = roundHalfEven (c + o) - ((ph / 2 : Nat) : Int) := by
    simp only [sliceBounds]
    rw [lo_arg_rat, roundHalfEven_add_int _ _ h]; omega
  rw [← h1, ← h2]

/-! ### one iteration of `set_patches` -/

/-- exact effect of one iteration of the loop of `set_patches` whose target window
`[S, S + ph) × [T, T + pw)` lies inside the image: inside the window the pixel is the patch pixel
`(r − S, q − T)`, elsewhere it is unchanged. -/
theorem setOne_window {α : Type} (v : Variant) (patches cur : NDArr α) (C H W n k ph pw : Nat)
    (hcur : cur.shape = [C, H, W]) (hps : patches.shape = [n, k, C, ph, pw]) (i oi : Nat) (hoi : oi < k)
    (ctr : Pt) (o : Int × Int) (dflt : α) (S T : Int)
    (hS : placeZ v (ctr.1 + (o.1 : Rat)) - ((ph / 2 : Nat) : Int) = S)
    (hT : placeZ v (ctr.2 + (o.2 : Rat)) - ((pw / 2 : Nat) : Int) = T)
    (h0 : 0 ≤ S) (h1 : S + (ph : Int) ≤ H) (h2 : 0 ≤ T) (h3 : T + (pw : Int) ≤ W) :
    ∃ out, setOne v patches cur i ctr o oi dflt = .ok out ∧ out.shape = [C, H, W] ∧
      ∀ c r q, c < C → r < H → q < W →
        out.get? [c, r, q] = some (
          if S ≤ (r : Int) ∧ (r : Int) < S + ph ∧ T ≤ (q : Int) ∧ (q : Int) < T + pw then
            patches.getD [i, oi, c, ((r : Int) - S).toNat, ((q : Int) - T).toNat] dflt
          else cur.getD [c, r, q] dflt) := by
  subst hS hT
  simp only [setOne, hps, hcur]
  rw [if_neg (by omega)]
  rw [pySliceN_window H ph _ h0 h1, pySliceN_window W pw _ h2 h3]
  simp only [Nat.add_sub_cancel_left, beq_self_eq_true, Bool.true_or, Bool.and_self, if_true]
  refine ⟨_, rfl, rfl, ?_⟩
  intro c r q hc hr hq
  rw [get_ofFn _ _ _ (by simp [inRange]; omega)]
  simp only [setElem]
  generalize hSS : placeZ v (ctr.1 + (o.1 : Rat)) - ((ph / 2 : Nat) : Int) = S at *
  generalize hTT : placeZ v (ctr.2 + (o.2 : Rat)) - ((pw / 2 : Nat) : Int) = T at *
  by_cases hw : S ≤ (r : Int) ∧ (r : Int) < S + ph ∧ T ≤ (q : Int) ∧ (q : Int) < T + pw
  · rw [if_pos hw, if_pos (by simp only [Bool.and_eq_true, decide_eq_true_eq]; omega)]
    have ech : (if (C == 1) = true then 0 else c) = c := by
      by_cases h : C = 1
      · simp [h]; omega
      · simp [h]
    have er : (if (ph == 1) = true then 0 else r - S.toNat) = ((r : Int) - S).toNat := by
      by_cases h : ph = 1
      · simp [h]; omega
      · simp [h]; omega
    have eq : (if (pw == 1) = true then 0 else q - T.toNat) = ((q : Int) - T).toNat := by
      by_cases h : pw = 1
      · simp [h]; omega
      · simp [h]; omega
    rw [ech, er, eq]
  · rw [if_neg hw, if_neg (by simp only [Bool.and_eq_true, decide_eq_true_eq]; omega)]

/-- the windows of centre `ctr`, offset `o`: `L` is the low corner extraction reads (`np.round`),
`S` the low corner `set_patches` writes (variant `v`) -/
def readLo (ph pw : Nat) (ctr : Pt) (o : Int × Int) : Int × Int :=
  (roundHalfEven (ctr.1 + (o.1 : Rat)) - ((ph / 2 : Nat) : Int),
   roundHalfEven (ctr.2 + (o.2 : Rat)) - ((pw / 2 : Nat) : Int))

def writeLo (v : Variant) (ph pw : Nat) (ctr : Pt) (o : Int × Int) : Int × Int :=
  (placeZ v (ctr.1 + (o.1 : Rat)) - ((ph / 2 : Nat) : Int),
   placeZ v (ctr.2 + (o.2 : Rat)) - ((pw / 2 : Nat) : Int))

/-- a window with low corner `w` lies inside the image -/
def Inside (H W ph pw : Nat) (w : Int × Int) : Prop :=
  0 ≤ w.1 ∧ w.1 + (ph : Int) ≤ H ∧ 0 ≤ w.2 ∧ w.2 + (pw : Int) ≤ W

/-- one iteration of `set_patches` on an array that agrees with `pix`, with a patch whose pixels were
read from the window with low corner `L` of `pix`: inside the written window (low corner `S`) the
result is `pix` shifted by `L − S`, elsewhere it still agrees with `pix`. -/
theorem setOne_shift {α : Type} (v : Variant) (pix cur patches : NDArr α) (C H W n k ph pw : Nat)
    (hshape : pix.shape = [C, H, W]) (hwf : pix.WF) (hcur : cur.shape = [C, H, W])
    (hagree : ∀ idx, inRange [C, H, W] idx = true → cur.get? idx = pix.get? idx)
    (hps : patches.shape = [n, k, C, ph, pw]) (i oi : Nat) (hoi : oi < k) (ctr : Pt) (o : Int × Int) (cval : α)
    (L : Int × Int) (hin : Inside H W ph pw (writeLo v ph pw ctr o))
    (hpatch : ∀ ch r q, ch < C → r < ph → q < pw →
      patches.get? [i, oi, ch, r, q] = some (pixAt pix ch (L.1 + r) (L.2 + q) cval)) :
    ∃ out, setOne v patches cur i ctr o oi cval = .ok out ∧ out.shape = [C, H, W] ∧
      ∀ c r q, c < C → r < H → q < W →
        out.get? [c, r, q] =
          if (writeLo v ph pw ctr o).1 ≤ (r : Int) ∧ (r : Int) < (writeLo v ph pw ctr o).1 + ph ∧
             (writeLo v ph pw ctr o).2 ≤ (q : Int) ∧ (q : Int) < (writeLo v ph pw ctr o).2 + pw then
            some (pixAt pix c ((r : Int) + (L.1 - (writeLo v ph pw ctr o).1))
                              ((q : Int) + (L.2 - (writeLo v ph pw ctr o).2)) cval)
          else pix.get? [c, r, q] := by
  obtain ⟨h0, h1, h2, h3⟩ := hin
  obtain ⟨out, e1, e2, e3⟩ := setOne_window v patches cur C H W n k ph pw hcur hps i oi hoi ctr o cval
    (writeLo v ph pw ctr o).1 (writeLo v ph pw ctr o).2 rfl rfl h0 h1 h2 h3
  refine ⟨out, e1, e2, ?_⟩
  intro c r q hc hr hq
  rw [e3 c r q hc hr hq]
  generalize writeLo v ph pw ctr o = S at *
  by_cases hw : S.1 ≤ (r : Int) ∧ (r : Int) < S.1 + ph ∧ S.2 ≤ (q : Int) ∧ (q : Int) < S.2 + pw
  · rw [if_pos hw, if_pos hw]
    have hp := hpatch c ((r : Int) - S.1).toNat ((q : Int) - S.2).toNat hc (by omega) (by omega)
    have x1 : L.1 + ((((r : Int) - S.1).toNat : Nat) : Int) = (r : Int) + (L.1 - S.1) := by omega
    have x2 : L.2 + ((((q : Int) - S.2).toNat : Nat) : Int) = (q : Int) + (L.2 - S.2) := by omega
    rw [x1, x2] at hp
    simp only [NDArr.getD, hp, Option.getD_some]
  · rw [if_neg hw, if_neg hw]
    have ha := hagree [c, r, q] (by simp [inRange]; omega)
    obtain ⟨x, hx⟩ := get?_some_of_WF pix hwf [c, r, q] (by simp [hshape, inRange]; omega)
    simp only [NDArr.getD, ha, hx, Option.getD_some]

/-- when the read and the written window coincide, the iteration keeps the agreement with `pix` -/
theorem setOne_inv {α : Type} (v : Variant) (pix cur patches : NDArr α) (C H W n k ph pw : Nat)
    (hshape : pix.shape = [C, H, W]) (hwf : pix.WF) (hcur : cur.shape = [C, H, W])
    (hagree : ∀ idx, inRange [C, H, W] idx = true → cur.get? idx = pix.get? idx)
    (hps : patches.shape = [n, k, C, ph, pw]) (i oi : Nat) (hoi : oi < k) (ctr : Pt) (o : Int × Int) (cval : α)
    (hin : Inside H W ph pw (writeLo v ph pw ctr o))
    (hpatch : ∀ ch r q, ch < C → r < ph → q < pw →
      patches.get? [i, oi, ch, r, q] =
        some (pixAt pix ch ((writeLo v ph pw ctr o).1 + r) ((writeLo v ph pw ctr o).2 + q) cval)) :
    ∃ out, setOne v patches cur i ctr o oi cval = .ok out ∧ out.shape = [C, H, W] ∧
      ∀ idx, inRange [C, H, W] idx = true → out.get? idx = pix.get? idx := by
  obtain ⟨out, e1, e2, e3⟩ := setOne_shift v pix cur patches C H W n k ph pw hshape hwf hcur hagree hps i oi hoi
    ctr o cval (writeLo v ph pw ctr o) hin hpatch
  refine ⟨out, e1, e2, ?_⟩
  intro idx hidx
  match idx, hidx with
  | [c, r, q], hidx =>
    simp only [inRange, Bool.and_eq_true, decide_eq_true_eq, Bool.and_true] at hidx
    rw [e3 c r q hidx.1 hidx.2.1 hidx.2.2]
    split
    · have hpin := pixAt_inside pix C H W hshape hwf c hidx.1 (r : Int) (q : Int) cval (by omega)
      simp only [Int.toNat_natCast] at hpin
      rw [hpin]
      simp only [Int.sub_self, Int.add_zero]
    · rfl
  | [], hidx => simp [inRange] at hidx
  | [_], hidx => simp [inRange] at hidx
  | [_, _], hidx => simp [inRange] at hidx
  | _ :: _ :: _ :: _ :: _, hidx => simp [inRange] at hidx

theorem setLoop_inv {α : Type} (v : Variant) (pix patches : NDArr α) (C H W n k ph pw : Nat)
    (hshape : pix.shape = [C, H, W]) (hwf : pix.WF)
    (hps : patches.shape = [n, k, C, ph, pw]) (oi : Nat) (hoi : oi < k) (centres : List Pt) (o : Int × Int) (cval : α)
    (hpatch : ∀ i ch r q, i < centres.length → ch < C → r < ph → q < pw →
      patches.get? [i, oi, ch, r, q] = some (pixAt pix ch ((writeLo v ph pw (getPt centres i) o).1 + r)
        ((writeLo v ph pw (getPt centres i) o).2 + q) cval))
    (hint : ∀ i, i < centres.length → Inside H W ph pw (writeLo v ph pw (getPt centres i) o)) :
    ∀ (l : List (Nat × Pt)) (cur : NDArr α),
      (∀ x ∈ l, x.1 < centres.length ∧ x.2 = getPt centres x.1) →
      cur.shape = [C, H, W] →
      (∀ idx, inRange [C, H, W] idx = true → cur.get? idx = pix.get? idx) →
      ∃ out, setLoop v patches o oi cval l cur = .ok out ∧ out.shape = [C, H, W] ∧
        ∀ idx, inRange [C, H, W] idx = true → out.get? idx = pix.get? idx := by
  intro l
  induction l with
  | nil => intro cur _ hc ha; exact ⟨cur, rfl, hc, ha⟩
  | cons x rest ih =>
    intro cur hl hc ha
    obtain ⟨i, ctr⟩ := x
    obtain ⟨hi, hctr⟩ := hl (i, ctr) (by simp)
    simp only at hi hctr
    subst hctr
    obtain ⟨nxt, h1, h2, h3⟩ := setOne_inv v pix cur patches C H W n k ph pw hshape hwf hc ha hps i oi hoi
      (getPt centres i) o cval (hint i hi) (fun ch r q a b c => hpatch i ch r q hi a b c)
    obtain ⟨out, g1, g2, g3⟩ := ih nxt (fun y hy => hl y (by simp [hy])) h2 h3
    refine ⟨out, ?_, g2, g3⟩
    simp only [setLoop, h1, g1]

theorem zip_range_getPt (centres : List Pt) (x : Nat × Pt) (hx : x ∈ (List.range centres.length).zip centres) :
    x.1 < centres.length ∧ x.2 = getPt centres x.1 := by
  obtain ⟨a, b⟩ := mem_range_zip _ _ x hx
  refine ⟨a, ?_⟩
  simp only [getPt, List.getD_eq_getElem?_getD, b, Option.getD_some]

/-! ### the round trip -/

def toPtO (o : Option (List (Int × Int))) : Option (List Pt) := o.map (List.map toPt)

/-- every window extraction reads is well defined: no centre plus offset is a rounding tie -/
def NoTies (centres : List Pt) (oz : List (Int × Int)) : Prop :=
  ∀ i j, i < centres.length → j < oz.length →
    NoTie ((getPt centres i).1 + ((oz.getD j (0, 0)).1 : Rat)) ∧
    NoTie ((getPt centres i).2 + ((oz.getD j (0, 0)).2 : Rat))

theorem getPt_toPt (oz : List (Int × Int)) (j : Nat) : getPt (oz.map toPt) j = toPt (oz.getD j (0, 0)) :=
  getPt_map oz j

/-- slicing path at arbitrary centres away from ties, integer offsets: patch pixel `(r, q)` is the
source pixel at `round(c + o) − ⌊(ph, pw)/2⌋ + (r, q)` (fill value outside) -/
theorem extractSlice_readLo {α : Type} (pix : NDArr α) (C H W : Nat) (hshape : pix.shape = [C, H, W])
    (centres : List Pt) (ph pw : Nat) (oz : List (Int × Int)) (cval : α) (hnt : NoTies centres oz) :
    ∃ out, extractSlice pix centres ph pw (some (oz.map toPt)) cval = .ok out ∧
      out.shape = [centres.length, oz.length, C, ph, pw] ∧
      ∀ i j c r q, inRange [centres.length, oz.length, C, ph, pw] [i, j, c, r, q] = true →
        out.get? [i, j, c, r, q] =
          some (pixAt pix c ((readLo ph pw (getPt centres i) (oz.getD j (0, 0))).1 + r)
                            ((readLo ph pw (getPt centres i) (oz.getD j (0, 0))).2 + q) cval) := by
  have hb : ∀ i j, i < centres.length → j < oz.length →
      sliceBounds ph (getPt centres i).1 (getPt (oz.map toPt) j).1 =
        ((readLo ph pw (getPt centres i) (oz.getD j (0, 0))).1, (readLo ph pw (getPt centres i) (oz.getD j (0, 0))).1 + ph) ∧
      sliceBounds pw (getPt centres i).2 (getPt (oz.map toPt) j).2 =
        ((readLo ph pw (getPt centres i) (oz.getD j (0, 0))).2, (readLo ph pw (getPt centres i) (oz.getD j (0, 0))).2 + pw) := by
    intro i j hi hj
    rw [getPt_toPt]
    exact ⟨sliceBounds_round ph _ _ (hnt i j hi hj).1, sliceBounds_round pw _ _ (hnt i j hi hj).2⟩
  obtain ⟨out, h1, h2, h3⟩ := extractSlice_spec pix C H W hshape centres ph pw (some (oz.map toPt)) cval
    (by
      intro i j hi hj
      simp only [Option.getD_some, List.length_map] at hj ⊢
      obtain ⟨b1, b2⟩ := hb i j hi hj
      simp only [Consistent, b1, b2, and_self])
  simp only [Option.getD_some, List.length_map] at h2 h3
  refine ⟨out, h1, h2, ?_⟩
  intro i j c r q hin
  rw [h3 i j c r q hin]
  simp only [inRange, Bool.and_eq_true, decide_eq_true_eq, Bool.and_true] at hin
  obtain ⟨b1, b2⟩ := hb i j hin.1 hin.2.1
  simp only [sliceLo, b1, b2]

/-- PROPERTY (round trip, every centre): patches extracted by the slicing path at centres away from
rounding ties and written back by `set_patches` (variant `v`) at the same centres with the same
offset restore the image, provided `set_patches` places each patch on the pixel extraction rounded to
(`placeZ v x = round x` on both axes) and the windows lie inside the image. -/
theorem set_extract_roundtrip_centres {α : Type} (v : Variant) (pix : NDArr α) (C H W : Nat)
    (hshape : pix.shape = [C, H, W]) (hwf : pix.WF) (centres : List Pt) (ph pw : Nat) (oz : List (Int × Int))
    (oi : Nat) (hoi : oi < oz.length) (cval : α) (hnt : NoTies centres oz)
    (hagree : ∀ i, i < centres.length →
      writeLo v ph pw (getPt centres i) (oz.getD oi (0, 0)) = readLo ph pw (getPt centres i) (oz.getD oi (0, 0)))
    (hint : ∀ i, i < centres.length → Inside H W ph pw (readLo ph pw (getPt centres i) (oz.getD oi (0, 0)))) :
    ∃ patches, extractSlice pix centres ph pw (some (oz.map toPt)) cval = .ok patches ∧
      ∃ out, setPatches v patches pix centres (oz.getD oi (0, 0)) oi cval = .ok out ∧
        out.shape = pix.shape ∧ ∀ idx, inRange pix.shape idx = true → out.get? idx = pix.get? idx := by
  obtain ⟨patches, hp1, hp2, hp3⟩ := extractSlice_readLo pix C H W hshape centres ph pw oz cval hnt
  refine ⟨patches, hp1, ?_⟩
  simp only [setPatches, hp2, hshape]
  obtain ⟨out, h1, h2, h3⟩ := setLoop_inv v pix patches C H W centres.length oz.length ph pw hshape hwf hp2 oi hoi
    centres (oz.getD oi (0, 0)) cval
    (fun i ch r q hi hch hr hq => by
      rw [hagree i hi]; exact hp3 i oi ch r q (by simp [inRange]; omega))
    (fun i hi => by rw [hagree i hi]; exact hint i hi)
    ((List.range centres.length).zip centres) pix (zip_range_getPt centres) hshape (fun _ _ => rfl)
  exact ⟨out, h1, h2, h3⟩

/-- with `np.round` in `set_patches` the placement always agrees with extraction -/
theorem writeLo_repaired (ph pw : Nat) (ctr : Pt) (o : Int × Int) :
    writeLo .repaired ph pw ctr o = readLo ph pw ctr o := rfl

/-- PROPERTY (round trip, repaired placement): with `np.round` in `set_patches`
(notes/fixes/C13-set-patches-rounding.diff) the round trip restores the image at *every* centre away
from rounding ties whose window lies inside the image — fractional centres included. -/
theorem set_extract_roundtrip_repaired {α : Type} (pix : NDArr α) (C H W : Nat)
    (hshape : pix.shape = [C, H, W]) (hwf : pix.WF) (centres : List Pt) (ph pw : Nat) (oz : List (Int × Int))
    (oi : Nat) (hoi : oi < oz.length) (cval : α) (hnt : NoTies centres oz)
    (hint : ∀ i, i < centres.length → Inside H W ph pw (readLo ph pw (getPt centres i) (oz.getD oi (0, 0)))) :
    ∃ patches, extractSlice pix centres ph pw (some (oz.map toPt)) cval = .ok patches ∧
      ∃ out, setPatches .repaired patches pix centres (oz.getD oi (0, 0)) oi cval = .ok out ∧
        out.shape = pix.shape ∧ ∀ idx, inRange pix.shape idx = true → out.get? idx = pix.get? idx :=
  set_extract_roundtrip_centres .repaired pix C H W hshape hwf centres ph pw oz oi hoi cval hnt
    (fun _ _ => writeLo_repaired _ _ _ _) hint

/-- the coded placement (`int()`) agrees with extraction at a centre exactly when, on both axes,
`x = c + o` satisfies the condition of `truncZ_eq_round_iff` -/
def TruncAgrees (x : Rat) : Prop :=
  (0 ≤ x ∧ x - (x.floor : Rat) < 1/2) ∨ (x < 0 ∧ ((x.floor : Rat) = x ∨ 1/2 < x - (x.floor : Rat)))

theorem writeLo_coded_eq_iff (ph pw : Nat) (ctr : Pt) (o : Int × Int)
    (h1 : NoTie (ctr.1 + (o.1 : Rat))) (h2 : NoTie (ctr.2 + (o.2 : Rat))) :
    writeLo .coded ph pw ctr o = readLo ph pw ctr o ↔
      TruncAgrees (ctr.1 + (o.1 : Rat)) ∧ TruncAgrees (ctr.2 + (o.2 : Rat)) := by
  have e1 := truncZ_eq_round_iff _ h1
  have e2 := truncZ_eq_round_iff _ h2
  unfold TruncAgrees
  rw [← e1, ← e2]
  simp only [writeLo, readLo, placeZ, Prod.mk.injEq]
  constructor
  · intro h; exact ⟨by omega, by omega⟩
  · intro h; exact ⟨by omega, by omega⟩

/-- PROPERTY (round trip, coded `int()` placement, precisely for which centres): the round trip
restores the image at all centres whose coordinates (plus offset) are non-negative with fractional
part below one half, or negative and whole or with fractional part above one half. -/
theorem set_extract_roundtrip_coded {α : Type} (pix : NDArr α) (C H W : Nat)
    (hshape : pix.shape = [C, H, W]) (hwf : pix.WF) (centres : List Pt) (ph pw : Nat) (oz : List (Int × Int))
    (oi : Nat) (hoi : oi < oz.length) (cval : α) (hnt : NoTies centres oz)
    (hagree : ∀ i, i < centres.length →
      TruncAgrees ((getPt centres i).1 + ((oz.getD oi (0, 0)).1 : Rat)) ∧
      TruncAgrees ((getPt centres i).2 + ((oz.getD oi (0, 0)).2 : Rat)))
    (hint : ∀ i, i < centres.length → Inside H W ph pw (readLo ph pw (getPt centres i) (oz.getD oi (0, 0)))) :
    ∃ patches, extractSlice pix centres ph pw (some (oz.map toPt)) cval = .ok patches ∧
      ∃ out, setPatches .coded patches pix centres (oz.getD oi (0, 0)) oi cval = .ok out ∧
        out.shape = pix.shape ∧ ∀ idx, inRange pix.shape idx = true → out.get? idx = pix.get? idx :=
  set_extract_roundtrip_centres .coded pix C H W hshape hwf centres ph pw oz oi hoi cval hnt
    (fun i hi => (writeLo_coded_eq_iff ph pw _ _ (hnt i oi hi hoi).1 (hnt i oi hi hoi).2).2 (hagree i hi)) hint

theorem truncAgrees_intCast (k : Int) : TruncAgrees (k : Rat) := by
  unfold TruncAgrees
  rw [Rat.floor_intCast]
  have hz : (k : Rat) - (k : Rat) = 0 := by grind
  rw [hz]
  by_cases h : 0 ≤ k
  · left; exact ⟨by simpa using (Rat.intCast_le_intCast (a := 0) (b := k)).2 h, zero_lt_half⟩
  · right; exact ⟨(intCast_lt_zero_iff k).2 (by omega), Or.inl rfl⟩

theorem getPt_toPt_centres (cz : List (Int × Int)) (i : Nat) : getPt (cz.map toPt) i = toPt (cz.getD i (0, 0)) :=
  getPt_map cz i

theorem intCast_add_intCast (a b : Int) : (a : Rat) + (b : Rat) = ((a + b : Int) : Rat) :=
  (Rat.intCast_add a b).symm

theorem readLo_int (ph pw : Nat) (c o : Int × Int) : readLo ph pw (toPt c) o = winLo ph pw c o := by
  simp only [readLo, toPt, intCast_add_intCast, roundHalfEven_intCast, winLo]

/-- PROPERTY (round trip, the clause of the property text): patches extracted (slicing path) at
integer centres whose windows lie inside the image, written back with `set_patches` at the same
centres with the same offset, restore the image: every pixel of the result equals the original
pixel — whichever placement (`int()` or `np.round`) `set_patches` uses. -/
theorem set_extract_roundtrip {α : Type} (v : Variant) (pix : NDArr α) (C H W : Nat) (hshape : pix.shape = [C, H, W])
    (hwf : pix.WF) (cz : List (Int × Int)) (ph pw : Nat) (oz : List (Int × Int)) (oi : Nat) (hoi : oi < oz.length)
    (cval : α) (hint : ∀ c ∈ cz, Interior H W ph pw c (oz.getD oi (0, 0))) :
    ∃ patches, extractSlice pix (cz.map toPt) ph pw (some (oz.map toPt)) cval = .ok patches ∧
      ∃ out, setPatches v patches pix (cz.map toPt) (oz.getD oi (0, 0)) oi cval = .ok out ∧
        out.shape = pix.shape ∧ ∀ idx, inRange pix.shape idx = true → out.get? idx = pix.get? idx := by
  apply set_extract_roundtrip_centres v pix C H W hshape hwf (cz.map toPt) ph pw oz oi hoi cval
  · intro i j _ _
    rw [getPt_toPt_centres]
    simp only [toPt, intCast_add_intCast]
    exact ⟨noTie_intCast _, noTie_intCast _⟩
  · intro i _
    rw [getPt_toPt_centres]
    simp only [writeLo, readLo, toPt, intCast_add_intCast, placeZ_intCast, roundHalfEven_intCast]
  · intro i hi
    simp only [List.length_map] at hi
    rw [getPt_toPt_centres, readLo_int]
    have hmem : cz.getD i (0, 0) ∈ cz := by
      rw [List.getD_eq_getElem?_getD, List.getElem?_eq_getElem hi]; simp
    exact hint _ hmem

/-! ### the counterexample class of the coded placement -/

/-- PROPERTY (write-back lands shifted): one centre, coded or repaired placement.  Whenever both the
window extraction read (low corner `L = round(c+o) − ⌊·/2⌋`) and the window `set_patches` writes (low
corner `S = place(c+o) − ⌊·/2⌋`) lie inside the image, the result is: inside the written window the
source image shifted by `L − S`, elsewhere the source image. -/
theorem set_extract_shifted {α : Type} (v : Variant) (pix : NDArr α) (C H W : Nat) (hshape : pix.shape = [C, H, W])
    (hwf : pix.WF) (ctr : Pt) (ph pw : Nat) (o : Int × Int) (cval : α)
    (hnt : NoTie (ctr.1 + (o.1 : Rat)) ∧ NoTie (ctr.2 + (o.2 : Rat)))
    (hS : Inside H W ph pw (writeLo v ph pw ctr o)) :
    ∃ patches, extractSlice pix [ctr] ph pw (some [toPt o]) cval = .ok patches ∧
      ∃ out, setPatches v patches pix [ctr] o 0 cval = .ok out ∧ out.shape = pix.shape ∧
        ∀ c r q, c < C → r < H → q < W →
          out.get? [c, r, q] =
            if (writeLo v ph pw ctr o).1 ≤ (r : Int) ∧ (r : Int) < (writeLo v ph pw ctr o).1 + ph ∧
               (writeLo v ph pw ctr o).2 ≤ (q : Int) ∧ (q : Int) < (writeLo v ph pw ctr o).2 + pw then
              some (pixAt pix c ((r : Int) + ((readLo ph pw ctr o).1 - (writeLo v ph pw ctr o).1))
                                ((q : Int) + ((readLo ph pw ctr o).2 - (writeLo v ph pw ctr o).2)) cval)
            else pix.get? [c, r, q] := by
  obtain ⟨patches, hp1, hp2, hp3⟩ := extractSlice_readLo pix C H W hshape [ctr] ph pw [o] cval
    (by
      intro i j hi hj
      simp only [List.length_cons, List.length_nil, Nat.zero_add, Nat.lt_one_iff] at hi hj
      subst hi hj
      simpa [getPt] using hnt)
  refine ⟨patches, hp1, ?_⟩
  simp only [List.length_cons, List.length_nil, Nat.zero_add] at hp2 hp3
  simp only [setPatches, hp2, hshape, List.range_one, List.zip_cons_cons, List.zip_nil_right, setLoop]
  obtain ⟨out, e1, e2, e3⟩ := setOne_shift v pix pix patches C H W 1 1 ph pw hshape hwf hshape (fun _ _ => rfl) hp2
    0 0 (by omega) ctr o cval (readLo ph pw ctr o) hS
    (fun ch r q hch hr hq => by
      have := hp3 0 0 ch r q (by simp [inRange]; omega)
      simpa [getPt] using this)
  rw [e1]
  exact ⟨out, rfl, e2, e3⟩

/-- PROPERTY (counterexample class of the coded `int()` placement): for a centre with a non-negative
row coordinate whose fractional part exceeds one half (column coordinate rounding like truncation),
the written block is the source image moved up by one row: every pixel of the written window that
differs from the pixel below it is not restored. -/
theorem set_extract_not_restored {α : Type} (pix : NDArr α) (C H W : Nat) (hshape : pix.shape = [C, H, W])
    (hwf : pix.WF) (ctr : Pt) (ph pw : Nat) (o : Int × Int) (cval : α)
    (hnt : NoTie (ctr.1 + (o.1 : Rat)) ∧ NoTie (ctr.2 + (o.2 : Rat)))
    (hx : 0 ≤ ctr.1 + (o.1 : Rat) ∧ 1/2 < ctr.1 + (o.1 : Rat) - ((ctr.1 + (o.1 : Rat)).floor : Rat))
    (hy : TruncAgrees (ctr.2 + (o.2 : Rat)))
    (hS : Inside H W ph pw (writeLo .coded ph pw ctr o)) (hL : Inside H W ph pw (readLo ph pw ctr o)) :
    ∃ patches, extractSlice pix [ctr] ph pw (some [toPt o]) cval = .ok patches ∧
      ∃ out, setPatches .coded patches pix [ctr] o 0 cval = .ok out ∧
        ∀ (c r q : Nat), c < C → q < W → (writeLo .coded ph pw ctr o).1 ≤ (r : Int) →
          (r : Int) < (writeLo .coded ph pw ctr o).1 + ph →
          (writeLo .coded ph pw ctr o).2 ≤ (q : Int) → (q : Int) < (writeLo .coded ph pw ctr o).2 + pw →
          out.get? [c, r, q] = pix.get? [c, r + 1, q] ∧
          (pix.get? [c, r + 1, q] ≠ pix.get? [c, r, q] → out.get? [c, r, q] ≠ pix.get? [c, r, q]) := by
  obtain ⟨patches, hp1, out, ho1, _, ho3⟩ := set_extract_shifted .coded pix C H W hshape hwf ctr ph pw o cval hnt hS
  refine ⟨patches, hp1, out, ho1, ?_⟩
  intro c r q hc hq w1 w2 w3 w4
  have d1 := round_sub_trunc _ hnt.1
  rw [if_pos hx.1, if_neg (by grind)] at d1
  have d2 := (truncZ_eq_round_iff _ hnt.2).2 hy
  obtain ⟨s0, s1, s2, s3⟩ := hS
  obtain ⟨l0, l1, l2, l3⟩ := hL
  have e1 : (readLo ph pw ctr o).1 - (writeLo .coded ph pw ctr o).1 = 1 := by
    simp only [readLo, writeLo, placeZ]; omega
  have e2 : (readLo ph pw ctr o).2 - (writeLo .coded ph pw ctr o).2 = 0 := by
    simp only [readLo, writeLo, placeZ]; omega
  have hr : r < H := by omega
  have := ho3 c r q hc hr hq
  rw [if_pos ⟨w1, w2, w3, w4⟩, e1, e2] at this
  have hr1 : r + 1 < H := by
    simp only [readLo, writeLo, placeZ] at *; omega
  have hpin := pixAt_inside pix C H W hshape hwf c hc ((r : Int) + 1) ((q : Int) + 0) cval (by omega)
  have t1 : ((r : Int) + 1).toNat = r + 1 := by omega
  have t2 : ((q : Int) + 0).toNat = q := by omega
  rw [t1, t2] at hpin
  rw [this, ← hpin]
  exact ⟨rfl, fun h => h⟩

/-! ### non-vacuity -/

example : Interior 6 7 3 2 (2, 3) (0, 0) := by unfold Interior winLo; decide
example : Interior 6 7 3 2 (3, 4) (1, -1) := by unfold Interior winLo; decide
-- round trip on the example (two overlapping interior windows, second offset of two)
example : ((extractSlice exImg [(2, 3), (3, 4)] 3 2 (some [(0, 0), (1, -1)]) (-1)).toOption.bind fun p =>
    (setPatches .coded p exImg [(2, 3), (3, 4)] (1, -1) 1 0).toOption) = some exImg := by decide +kernel
-- a fractional centre on which `int()` and `np.round` agree (9/4): restored by the coded placement
example : TruncAgrees (9/4 + ((0 : Int) : Rat)) ∧ TruncAgrees (3 + ((0 : Int) : Rat)) := by
  unfold TruncAgrees; decide +kernel
example : NoTies [(9/4, 3)] [(0, 0)] := by
  intro i j hi hj
  simp only [List.length_cons, List.length_nil, Nat.zero_add, Nat.lt_one_iff] at hi hj
  subst hi hj
  unfold NoTie; decide +kernel
example : Inside 6 7 3 2 (readLo 3 2 (9/4, 3) (0, 0)) := by unfold Inside readLo; decide +kernel
example : ((extractSlice exImg [(9/4, 3)] 3 2 none (-1)).toOption.bind fun p =>
    (setPatches .coded p exImg [(9/4, 3)] (0, 0) 0 0).toOption) = some exImg := by decide +kernel
-- a fractional centre on which they differ (27/10 rounds to 3, truncates to 2): the write-back lands one
-- row off under the coded placement and is exact under the repaired one
example : 0 ≤ (27/10 : Rat) + ((0 : Int) : Rat) ∧
    1/2 < (27/10 : Rat) + ((0 : Int) : Rat) - ((((27/10 : Rat) + ((0 : Int) : Rat)).floor : Int) : Rat) := by
  decide +kernel
example : Inside 6 7 3 2 (writeLo .coded 3 2 (27/10, 3) (0, 0)) ∧ Inside 6 7 3 2 (readLo 3 2 (27/10, 3) (0, 0)) := by
  unfold Inside writeLo readLo; decide +kernel
example : ((extractSlice exImg [(27/10, 3)] 3 2 none (-1)).toOption.bind fun p =>
    (setPatches .coded p exImg [(27/10, 3)] (0, 0) 0 0).toOption) ≠ some exImg := by decide +kernel
example : ((extractSlice exImg [(27/10, 3)] 3 2 none (-1)).toOption.bind fun p =>
    (setPatches .repaired p exImg [(27/10, 3)] (0, 0) 0 0).toOption) = some exImg := by decide +kernel

/-! ### the round trip on a damaged image (a `set_patches` that writes nothing does not satisfy it) -/

/-- pixel `(r, q)` lies in the window with low corner `w` -/
def inWin (ph pw : Nat) (w : Int × Int) (r q : Nat) : Bool :=
  decide (w.1 ≤ (r : Int)) && decide ((r : Int) < w.1 + ph) && decide (w.2 ≤ (q : Int)) && decide ((q : Int) < w.2 + pw)

/-- the loop of `set_patches` started on ANY image `cur` of the right shape (e.g. one whose windows were damaged):
when every patch holds the pixels of `pix` at the window it is written to, the result is `pix` on the union of the
written windows and `cur` everywhere else -/
theorem setLoop_restores {α : Type} (v : Variant) (pix patches : NDArr α) (C H W n k ph pw : Nat)
    (hshape : pix.shape = [C, H, W]) (hwf : pix.WF)
    (hps : patches.shape = [n, k, C, ph, pw]) (oi : Nat) (hoi : oi < k) (centres : List Pt) (o : Int × Int) (cval : α)
    (hpatch : ∀ i ch r q, i < centres.length → ch < C → r < ph → q < pw →
      patches.get? [i, oi, ch, r, q] = some (pixAt pix ch ((writeLo v ph pw (getPt centres i) o).1 + r)
        ((writeLo v ph pw (getPt centres i) o).2 + q) cval))
    (hint : ∀ i, i < centres.length → Inside H W ph pw (writeLo v ph pw (getPt centres i) o)) :
    ∀ (l : List (Nat × Pt)) (cur : NDArr α),
      (∀ x ∈ l, x.1 < centres.length ∧ x.2 = getPt centres x.1) →
      cur.shape = [C, H, W] → cur.WF →
      ∃ out, setLoop v patches o oi cval l cur = .ok out ∧ out.shape = [C, H, W] ∧ out.WF ∧
        ∀ c r q, c < C → r < H → q < W →
          out.get? [c, r, q] =
            if l.any (fun x => inWin ph pw (writeLo v ph pw x.2 o) r q) then pix.get? [c, r, q] else cur.get? [c, r, q] := by
  intro l
  induction l with
  | nil => intro cur _ hc hw; exact ⟨cur, rfl, hc, hw, fun c r q _ _ _ => by simp⟩
  | cons x rest ih =>
    intro cur hl hc hcw
    obtain ⟨i, ctr⟩ := x
    obtain ⟨hi, hctr⟩ := hl (i, ctr) (by simp)
    simp only at hi hctr
    subst hctr
    obtain ⟨h0, h1, h2, h3⟩ := hint i hi
    obtain ⟨nxt, e1, e2, e3⟩ := setOne_window v patches cur C H W n k ph pw hc hps i oi hoi (getPt centres i) o cval
      (writeLo v ph pw (getPt centres i) o).1 (writeLo v ph pw (getPt centres i) o).2 rfl rfl h0 h1 h2 h3
    have hnw : nxt.WF := by
      unfold setOne at e1
      simp only [hps, hc] at e1
      split at e1
      · cases e1
      · try dsimp only at e1
        split at e1
        · injection e1 with e1; subst e1; exact ofFn_WF _ _
        · cases e1
    obtain ⟨out, g1, g2, g3, g4⟩ := ih nxt (fun y hy => hl y (by simp [hy])) e2 hnw
    refine ⟨out, by simp only [setLoop, e1, g1], g2, g3, ?_⟩
    intro c r q hcC hr hq
    rw [g4 c r q hcC hr hq, e3 c r q hcC hr hq]
    simp only [List.any_cons]
    by_cases hrest : (rest.any fun x => inWin ph pw (writeLo v ph pw x.2 o) r q) = true
    · simp [hrest]
    · simp only [Bool.not_eq_true] at hrest
      simp only [hrest, Bool.or_false, Bool.false_eq_true, if_false]
      by_cases hw : (writeLo v ph pw (getPt centres i) o).1 ≤ (r : Int) ∧ (r : Int) < (writeLo v ph pw (getPt centres i) o).1 + ph ∧ (writeLo v ph pw (getPt centres i) o).2 ≤ (q : Int) ∧ (q : Int) < (writeLo v ph pw (getPt centres i) o).2 + pw
      · have hin : inWin ph pw (writeLo v ph pw (getPt centres i) o) r q = true := by simp [inWin, hw.1, hw.2.1, hw.2.2.1, hw.2.2.2]
        rw [if_pos hw, hin, if_pos rfl]
        have hp := hpatch i c ((r : Int) - (writeLo v ph pw (getPt centres i) o).1).toNat ((q : Int) - (writeLo v ph pw (getPt centres i) o).2).toNat hi hcC (by omega) (by omega)
        have x1 : (writeLo v ph pw (getPt centres i) o).1 + ((((r : Int) - (writeLo v ph pw (getPt centres i) o).1).toNat : Nat) : Int) = (r : Int) := by omega
        have x2 : (writeLo v ph pw (getPt centres i) o).2 + ((((q : Int) - (writeLo v ph pw (getPt centres i) o).2).toNat : Nat) : Int) = (q : Int) := by omega
        rw [x1, x2] at hp
        have hpin := pixAt_inside pix C H W hshape hwf c hcC (r : Int) (q : Int) cval (by omega)
        simp only [Int.toNat_natCast] at hpin
        simp only [NDArr.getD, hp, Option.getD_some, hpin]
      · have hin : inWin ph pw (writeLo v ph pw (getPt centres i) o) r q = false := by
          cases h : inWin ph pw (writeLo v ph pw (getPt centres i) o) r q
          · rfl
          · simp only [inWin, Bool.and_eq_true, decide_eq_true_eq] at h; exact absurd ⟨h.1.1.1, h.1.1.2, h.1.2, h.2⟩ hw
        rw [if_neg hw, hin]
        obtain ⟨x, hx⟩ := get?_some_of_WF cur hcw [c, r, q] (by simp [hc, inRange]; omega)
        simp only [NDArr.getD, hx, Option.getD_some, Bool.false_eq_true, if_false]

/-- PROPERTY (round trip, the clause of the property text, on a DAMAGED image): patches extracted (slicing path) at
integer centres whose windows lie inside the image and written by `set_patches` - same centres, same offset - into
any image `cur` of the same shape (for instance `pix` with those windows overwritten) give an image that equals `pix`
on every written window and `cur` everywhere else.  A `set_patches` that wrote nothing, or elsewhere, would not
satisfy this. -/
theorem set_extract_restores_damaged {α : Type} (v : Variant) (pix cur : NDArr α) (C H W : Nat)
    (hshape : pix.shape = [C, H, W]) (hwf : pix.WF) (hcs : cur.shape = [C, H, W]) (hcw : cur.WF)
    (cz : List (Int × Int)) (ph pw : Nat) (oz : List (Int × Int)) (oi : Nat) (hoi : oi < oz.length)
    (cval : α) (hint : ∀ c ∈ cz, Interior H W ph pw c (oz.getD oi (0, 0))) :
    ∃ patches, extractSlice pix (cz.map toPt) ph pw (some (oz.map toPt)) cval = .ok patches ∧
      ∃ out, setPatches v patches cur (cz.map toPt) (oz.getD oi (0, 0)) oi cval = .ok out ∧
        out.shape = [C, H, W] ∧
        ∀ c r q, c < C → r < H → q < W →
          out.get? [c, r, q] =
            if cz.any (fun z => inWin ph pw (winLo ph pw z (oz.getD oi (0, 0))) r q) then pix.get? [c, r, q]
            else cur.get? [c, r, q] := by
  have hnt : NoTies (cz.map toPt) oz := by
    intro i j _ _
    rw [getPt_toPt_centres]
    simp only [toPt, intCast_add_intCast]
    exact ⟨noTie_intCast _, noTie_intCast _⟩
  obtain ⟨patches, hp1, hp2, hp3⟩ := extractSlice_readLo pix C H W hshape (cz.map toPt) ph pw oz cval hnt
  have hag : ∀ i, i < (cz.map toPt).length →
      writeLo v ph pw (getPt (cz.map toPt) i) (oz.getD oi (0, 0)) = winLo ph pw (cz.getD i (0, 0)) (oz.getD oi (0, 0)) := by
    intro i _
    rw [getPt_toPt_centres]
    simp only [writeLo, toPt, intCast_add_intCast, placeZ_intCast, winLo]
  have hrl : ∀ i, readLo ph pw (getPt (cz.map toPt) i) (oz.getD oi (0, 0)) = winLo ph pw (cz.getD i (0, 0)) (oz.getD oi (0, 0)) := by
    intro i; rw [getPt_toPt_centres, readLo_int]
  refine ⟨patches, hp1, ?_⟩
  simp only [setPatches, hp2, hcs]
  obtain ⟨out, h1, h2, _, h4⟩ := setLoop_restores v pix patches C H W (cz.map toPt).length oz.length ph pw hshape hwf hp2
    oi hoi (cz.map toPt) (oz.getD oi (0, 0)) cval
    (fun i ch r q hi hch hr hq => by
      rw [hag i hi, ← hrl i]; exact hp3 i oi ch r q (by simp only [List.length_map] at hi; simp [inRange]; omega))
    (fun i hi => by
      rw [hag i hi]
      simp only [List.length_map] at hi
      have hmem : cz.getD i (0, 0) ∈ cz := by
        rw [List.getD_eq_getElem?_getD, List.getElem?_eq_getElem hi]; simp
      exact hint _ hmem)
    ((List.range (cz.map toPt).length).zip (cz.map toPt)) cur (zip_range_getPt (cz.map toPt)) hcs hcw
  refine ⟨out, h1, h2, ?_⟩
  intro c r q hc hr hq
  rw [h4 c r q hc hr hq]
  have hany : (((List.range (cz.map toPt).length).zip (cz.map toPt)).any
        fun x => inWin ph pw (writeLo v ph pw x.2 (oz.getD oi (0, 0))) r q) =
      cz.any (fun z => inWin ph pw (winLo ph pw z (oz.getD oi (0, 0))) r q) := by
    have hz : ((List.range (cz.map toPt).length).zip (cz.map toPt)).map Prod.snd = cz.map toPt := by
      rw [List.map_snd_zip]; simp
    rw [show (((List.range (cz.map toPt).length).zip (cz.map toPt)).any
          fun x => inWin ph pw (writeLo v ph pw x.2 (oz.getD oi (0, 0))) r q) =
        ((((List.range (cz.map toPt).length).zip (cz.map toPt)).map Prod.snd).any
          fun p => inWin ph pw (writeLo v ph pw p (oz.getD oi (0, 0))) r q) by rw [List.any_map]; rfl]
    rw [hz, List.any_map]
    congr 1
    funext z
    simp only [Function.comp, writeLo, toPt, intCast_add_intCast, placeZ_intCast, winLo]
  rw [hany]

end MenpoModel.C13
