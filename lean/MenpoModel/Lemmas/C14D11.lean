/-
C14 — kernel-decided table, chunk D11 (generated once by hand-run script; see Lemmas/C14Small.lean).
-/
import MenpoModel.Lemmas.C14Small

namespace MenpoModel.C14

theorem smallD_4_11 : ∀ c : Fin 256, smallOkD 4 (c.val + 256 * 11) = true := by decide +kernel

end MenpoModel.C14
