/-
C10 — the variance-fraction form of the setter *as the float code evaluates it*, exact ties, fraction 1.0,
and the ratio accessors.

The code compares the requested fraction with `np.cumsum(eig / original_variance)` computed in float64.
`Val.floatObs r tvr cum` carries what that evaluation returned (`tvr`, `cum`: arbitrary rationals — nothing is
assumed about how they were rounded).  Facts:
* the bookkeeping invariants do not depend on `tvr`, `cum` at all (`Reach` is preserved for every value of
  them: `reach_setActive`), so rounding can never touch the clause "never changes … consistent";
* the *count* selected agrees with exact arithmetic whenever the observed values decide the comparisons
  `c < r`, `r ≤ tvr` like the exact ones — in particular whenever the rounding error is below the distance of
  `r` from every exact cumulative ratio;
* at an exact tie `r = ratio(j components)` exact arithmetic selects `j` (so fraction `1.0` on an untrimmed
  model keeps everything and never raises); the float code may see the tied cumulative ratio a rounding error
  below `r` and then selects `j + 1` — and raises `ValueError`, leaving the model unchanged, when `j` was
  already all components (witness below; proposed repair notes/fixes/C10-float-fraction-rounding.diff).
-/
import MenpoModel.Lemmas.C10Pool

namespace MenpoModel.C10
open St

theorem float_is_exact_obs (s : St) (r : Rat) :
    s.setActive (.float r) = s.setActive (.floatObs r s.totalVarianceRatio s.totalCumRatio) := rfl

theorem count_lt_congr {r : Rat} {cum cum' : List Rat}
    (h : List.Forall₂ (fun c c' => (c < r ↔ c' < r)) cum cum') :
    (cum.filter (fun c => decide (c < r))).length = (cum'.filter (fun c => decide (c < r))).length := by
  induction h with
  | nil => rfl
  | @cons a b l l' hab _ ih =>
    by_cases ha : a < r
    · have hb : b < r := hab.mp ha
      simp [ha, hb, ih]
    · have hb : ¬ b < r := fun hb => ha (hab.mpr hb)
      simp [ha, hb, ih]

/-- the selected count depends on the observed values only through the comparisons the code makes -/
theorem floatObs_congr (s : St) {r tvr tvr' : Rat} {cum cum' : List Rat}
    (ht : r ≤ tvr ↔ r ≤ tvr')
    (hc : List.Forall₂ (fun c c' => (c < r ↔ c' < r)) cum cum') :
    s.setActive (.floatObs r tvr cum) = s.setActive (.floatObs r tvr' cum') := by
  simp only [St.setActive, count_lt_congr hc]
  by_cases h : r ≤ tvr
  · simp [h, ht.mp h]
  · have h' : ¬ r ≤ tvr' := fun h' => h (ht.mpr h')
    simp [h, h']

theorem lt_iff_of_close {c c' r ε : Rat} (h1 : |c - c'| ≤ ε) (h2 : ε < |c' - r|) : (c < r ↔ c' < r) := by
  rw [abs_le] at h1
  rcases lt_abs.mp h2 with h | h
  · constructor <;> intro hh <;> linarith
  · constructor <;> intro hh <;> linarith

theorem le_iff_of_close {c c' r ε : Rat} (h1 : |c - c'| ≤ ε) (h2 : ε < |c' - r|) : (r ≤ c ↔ r ≤ c') := by
  have := lt_iff_of_close h1 h2
  constructor
  · intro h; exact not_lt.mp (fun h' => absurd (this.mpr h') (not_lt.mpr h))
  · intro h; exact not_lt.mp (fun h' => absurd (this.mp h') (not_lt.mpr h))

/-- rounding errors of at most `ε` in the code's ratios cannot change the selected count (nor the
accept / raise decision) when the requested fraction is more than `ε` away from every exact cumulative
ratio and from the exact kept ratio — the generator's tie exclusion, justified -/
theorem floatObs_agrees_away_from_ties (s : St) {r tvr ε : Rat} {cum : List Rat}
    (ht : |tvr - s.totalVarianceRatio| ≤ ε) (ht' : ε < |s.totalVarianceRatio - r|)
    (hc : List.Forall₂ (fun c c' => |c - c'| ≤ ε) cum s.totalCumRatio)
    (hc' : ∀ c' ∈ s.totalCumRatio, ε < |c' - r|) :
    s.setActive (.floatObs r tvr cum) = s.setActive (.float r) := by
  rw [float_is_exact_obs]
  apply floatObs_congr s (le_iff_of_close ht ht')
  generalize s.totalCumRatio = cum' at hc hc'
  induction hc with
  | nil => exact List.Forall₂.nil
  | cons hab _ ih =>
    exact List.Forall₂.cons (lt_iff_of_close hab (hc' _ List.mem_cons_self))
      (ih (fun c hc => hc' c (List.mem_cons_of_mem _ hc)))

/-- whatever the float evaluation returned: the call either raises or only moves `n_active_components`
inside `1 .. n_components`; the invariant of the reachable states survives -/
theorem floatObs_keeps_reach {eig0 : List Rat} {s : St} (hr : Reach eig0 s) (r tvr : Rat) (cum : List Rat) :
    s.setActive (.floatObs r tvr cum) = .error .value ∨
    ∃ s', s.setActive (.floatObs r tvr cum) = .ok s' ∧ Reach eig0 s' ∧ s'.rows = s.rows ∧
      s'.eig = s.eig ∧ s'.trimmed = s.trimmed := by
  cases h : s.setActive (.floatObs r tvr cum) with
  | error e => cases e; exact Or.inl rfl
  | ok s' =>
    obtain ⟨h1, h2, h3, _⟩ := setActive_fields h
    exact Or.inr ⟨s', rfl, reach_setActive hr h, h1, h2, h3⟩

/-! ### a non-decreasing observed list (float `cumsum` of non-negative terms is monotone) -/

theorem filter_lt_sorted {l : List Rat} (hs : l.Pairwise (· ≤ ·)) (r : Rat) :
    l.filter (fun c => decide (c < r)) = l.take (l.filter (fun c => decide (c < r))).length ∧
    ∀ c ∈ l.drop (l.filter (fun c => decide (c < r))).length, r ≤ c := by
  induction l with
  | nil => simp
  | cons a t ih =>
    rw [List.pairwise_cons] at hs
    obtain ⟨i1, i2⟩ := ih hs.2
    by_cases ha : a < r
    · simp only [List.filter_cons, ha, decide_true, if_true, List.length_cons, List.take_succ_cons,
        List.drop_succ_cons]
      exact ⟨by rw [← i1], i2⟩
    · have hnil : t.filter (fun c => decide (c < r)) = [] := by
        rw [List.filter_eq_nil_iff]
        intro c hc
        have := hs.1 c hc
        simp only [decide_eq_true_eq, not_lt]
        linarith [not_lt.mp ha]
      simp only [List.filter_cons, ha, decide_false, hnil]
      refine ⟨by simp, ?_⟩
      intro c hc
      rcases List.mem_cons.mp hc with rfl | hc
      · exact not_lt.mp ha
      · exact le_trans (not_lt.mp ha) (hs.1 c hc)

/-- on a non-decreasing observed list the code selects the smallest count whose *observed* cumulative ratio
reaches the fraction -/
theorem floatObs_selects {s s' : St} {r tvr : Rat} {cum : List Rat} (hs : cum.Pairwise (· ≤ ·))
    (h : s.setActive (.floatObs r tvr cum) = .ok s') :
    0 < r ∧ r ≤ tvr ∧ 1 ≤ s'.nActive ∧ s'.nActive ≤ s.rows ∧
    (∀ c ∈ cum.take (s'.nActive - 1), c < r) ∧ (∀ c ∈ cum.drop (s'.nActive - 1), r ≤ c) := by
  simp only [St.setActive] at h
  split at h
  · rename_i hcond
    obtain ⟨_, _, _, f4, f5, f6⟩ := finalSet_fields h
    obtain ⟨i1, i2⟩ := filter_lt_sorted hs r
    have hk : s'.nActive - 1 = (cum.filter (fun c => decide (c < r))).length := by omega
    refine ⟨hcond.1, hcond.2, by omega, by omega, ?_, ?_⟩
    · intro c hc
      rw [hk, ← i1] at hc
      simpa using (List.mem_filter.mp hc).2
    · rw [hk]; exact i2
  · cases h

/-! ### exact ties -/

theorem sum_take_lt_succ {l : List Rat} (hpos : ∀ x ∈ l, 0 < x) {j : Nat} (h1 : 1 ≤ j) (h2 : j ≤ l.length) :
    (l.take (j - 1)).sum < (l.take j).sum := by
  obtain ⟨i, rfl⟩ : ∃ i, j = i + 1 := ⟨j - 1, by omega⟩
  have hi : i < l.length := by omega
  rw [Nat.add_sub_cancel, List.take_succ_eq_append_getElem hi, List.sum_append]
  have : 0 < l[i] := hpos _ (List.getElem_mem hi)
  simp only [List.sum_cons, List.sum_nil, add_zero]
  linarith

/-- exact arithmetic at an exact tie: the fraction equal to the kept ratio of `j` components selects `j` -/
theorem setActive_float_tie {eig0 : List Rat} {s : St} (hr : Reach eig0 s) (hp : ∀ x ∈ eig0, 0 < x)
    {j : Nat} (h1 : 1 ≤ j) (h2 : j ≤ s.rows) :
    s.setActive (.float ((s.eig.take j).sum / eig0.sum)) = .ok { s with nActive := j } := by
  have hne : eig0 ≠ [] := by
    intro h; have := hr.rows_le; have := hr.rows_pos; simp [h] at *; omega
  have hO : 0 < eig0.sum := sum_pos_of_pos hne hp
  have hpe : ∀ x ∈ s.eig, 0 < x := by
    intro x hx; rw [hr.eig_eq] at hx; exact hp x ((List.take_sublist _ _).subset hx)
  have hj : j ≤ s.eig.length := by rw [hr.eig_length]; exact h2
  have hr0 : 0 < (s.eig.take j).sum / eig0.sum := by
    apply div_pos _ hO
    have hne' : s.eig.take j ≠ [] := by
      intro h
      have := congrArg List.length h
      rw [List.length_take, Nat.min_eq_left hj, List.length_nil] at this
      omega
    exact sum_pos_of_pos hne' (fun x hx => hpe x ((List.take_sublist _ _).subset hx))
  have hr1 : (s.eig.take j).sum / eig0.sum ≤ s.totalVarianceRatio := by
    rw [St.totalVarianceRatio, hr.originalVariance_eq, St.totalVariance]
    exact div_le_div_of_nonneg_right (sum_take_le hpe j) (le_of_lt hO)
  obtain ⟨k, hsel, hk⟩ := setActive_float_sel hr hp hr0 hr1
  have hsel' : Sel s.eig eig0.sum ((s.eig.take j).sum / eig0.sum) j :=
    ⟨h1, hj, div_lt_div_of_pos_right (sum_take_lt_succ hpe h1 hj) hO, le_refl _⟩
  rw [hk, sel_unique hpe hO hsel hsel']

/-- fraction equal to the whole kept ratio (on an untrimmed model: `1.0`) keeps every component, in exact
arithmetic -/
theorem setActive_float_top {eig0 : List Rat} {s : St} (hr : Reach eig0 s) (hp : ∀ x ∈ eig0, 0 < x) :
    s.setActive (.float s.totalVarianceRatio) = .ok { s with nActive := s.rows } := by
  have := setActive_float_tie hr hp hr.rows_pos (le_refl _)
  rwa [← hr.eig_length, List.take_length, hr.eig_length, ← hr.originalVariance_eq] at this

theorem totalVarianceRatio_untrimmed {eig0 : List Rat} {s : St} (hr : Reach eig0 s) (hp : ∀ x ∈ eig0, 0 < x)
    (ht : s.trimmed = []) : s.totalVarianceRatio = 1 := by
  have hne : eig0 ≠ [] := by
    intro h; have := hr.rows_le; have := hr.rows_pos; simp [h] at *; omega
  have hO : 0 < eig0.sum := sum_pos_of_pos hne hp
  have h1 := hr.originalVariance_eq
  rw [St.totalVarianceRatio, St.totalVariance]
  have : s.eig.sum = s.originalVariance := by simp [St.originalVariance, ht]
  rw [this, h1]
  exact div_self (ne_of_gt hO)

/-! ### ratio accessors -/

theorem cumsumFrom_take (a : Rat) (l : List Rat) (i : Nat) :
    cumsumFrom a (l.take i) = (cumsumFrom a l).take i := by
  induction l generalizing a i with
  | nil => simp [cumsumFrom]
  | cons x t ih =>
    cases i with
    | zero => simp [cumsumFrom]
    | succ i => simp [cumsumFrom, ih]

theorem cumsumFrom_length (a : Rat) (l : List Rat) : (cumsumFrom a l).length = l.length := by
  induction l generalizing a with
  | nil => rfl
  | cons x t ih => simp [cumsumFrom, ih]

theorem cumsumFrom_getLast (a : Rat) (l : List Rat) (x : Rat) :
    (cumsumFrom a (l ++ [x])).getLast? = some (a + (l ++ [x]).sum) := by
  induction l generalizing a with
  | nil => simp [cumsumFrom]
  | cons y t ih =>
    have hne : cumsumFrom (a + y) (t ++ [x]) ≠ [] := by
      intro h; have := congrArg List.length h; rw [cumsumFrom_length] at this; simp at this
    simp only [List.cons_append, cumsumFrom, List.getLast?_cons_of_ne_nil hne]
    rw [ih]; simp [add_assoc]

theorem cumsumFrom_sorted {l : List Rat} (hpos : ∀ x ∈ l, 0 < x) (a : Rat) :
    (cumsumFrom a l).Pairwise (· < ·) := by
  induction l generalizing a with
  | nil => simp [cumsumFrom]
  | cons x t ih =>
    have hpt : ∀ y ∈ t, 0 < y := fun y hy => hpos y (List.mem_cons_of_mem _ hy)
    simp only [cumsumFrom, List.pairwise_cons]
    exact ⟨fun c hc => cumsumFrom_gt hpt (a + x) c hc, ih hpt (a + x)⟩

/-- the active cumulative ratios are the first `n_active` of the ones the setter compares with -/
theorem eigenvaluesCumulativeRatio_eq_take (s : St) :
    s.eigenvaluesCumulativeRatio = s.totalCumRatio.take s.nActive := by
  simp only [St.eigenvaluesCumulativeRatio, St.totalCumRatio, cumsum, St.eigenvaluesRatio, St.eigenvalues,
    St.totalEigenvaluesRatio, ← cumsumFrom_take, List.map_take]

theorem eigenvaluesRatio_sum (s : St) : s.eigenvaluesRatio.sum = s.varianceRatio := by
  simp only [St.eigenvaluesRatio, sum_map_div, St.varianceRatio, St.variance]

end MenpoModel.C10
