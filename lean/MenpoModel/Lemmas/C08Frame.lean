/-
C08 — the frame of `_sync_state_from_target`, and what follows from it alone.  Value level, core Lean only.

`sync_reads_only`: the re-fit reads nothing but the fields `readsOf` lists (of `_h_matrix` only the part it
does not overwrite).  `sync_writes_only`: it writes nothing but the fitted state.  From these two facts —
no constructor, no `Sound`, either tree, an object born in any way — `retarget_state_function`: the fitted
state after any history is a function of (class, remembered options, source, kept matrix part, TPS system
matrix) and the last accepted target; nothing else survives.  `GenProps/C08.lean` checks on every run that
the attribute reads / writes measured on the live classes are `readsOf` / `writesOf`.
-/
import MenpoModel.Lemmas.C08Edits

namespace MenpoModel.C08

variable {Pts A : Type}

/-- agreement of two matrices on the part the class's re-fit keeps -/
def KeptEq (c : Cls) (d : Nat) (h h' : Mat) : Prop :=
  match c with
  | .rotation => ∀ i j, ¬ (i < d ∧ j < d) → h i j = h' i j
  | .translation => ∀ i j, ¬ (j = d ∧ i < d) → h i j = h' i j
  | .uniformScale => ∀ i j, ¬ ((i = j ∧ i ≤ d) ∨ (i = d ∧ j = d)) → h i j = h' i j
  | _ => True

/-- two objects agree on a field, as far as a re-fit can see it -/
def fldAgree (e : Ext Pts A) (f : Fld) (o o' : Obj Pts A) : Prop :=
  match f with
  | .target => o.target = o'.target
  | .source => o.source = o'.source
  | .rotation => o.rotation = o'.rotation
  | .allowMirror => o.allowMirror = o'.allowMirror
  | .kernel => o.kernel = o'.kernel
  | .minSV => o.minSV = o'.minSV
  | .hmat => match o.state, o'.state with
    | .hom h, .hom h' => KeptEq o.cls (e.nDims o.source) h h'
    | _, _ => False
  | .tpsL => match o.state, o'.state with
    | .tps l _, .tps l' _ => l = l'
    | _, _ => False
  | _ => True

def AgreeOn (e : Ext Pts A) (L : List Fld) (o o' : Obj Pts A) : Prop := ∀ f ∈ L, fldAgree e f o o'

/-- the kind of the kept arrays matches the class (what every constructor establishes) -/
def Kinded (o : Obj Pts A) : Prop :=
  match o.cls, o.state with
  | .tps, .tps _ _ => True
  | .pwa, .pwa _ => True
  | .tps, _ => False
  | .pwa, _ => False
  | _, .hom _ => True
  | _, _ => False

theorem setBlock_kept (d : Nat) (r h h' : Mat) (hk : KeptEq .rotation d h h') :
    setBlock d r h = setBlock d r h' := by
  funext i j; simp only [setBlock]; split
  · rfl
  · rename_i hn; exact hk i j hn

theorem setLastCol_kept (d : Nat) (t : Nat → Rat) (h h' : Mat) (hk : KeptEq .translation d h h') :
    setLastCol d t h = setLastCol d t h' := by
  funext i j; simp only [setLastCol]; split
  · rfl
  · rename_i hn; exact hk i j hn

theorem scale_kept (d : Nat) (s : Rat) (h h' : Mat) (hk : KeptEq .uniformScale d h h') :
    setCorner d (fillDiag d s h) = setCorner d (fillDiag d s h') := by
  funext i j; simp only [setCorner, fillDiag]
  by_cases h1 : i = d ∧ j = d
  · simp [h1]
  · simp only [h1, if_false]
    by_cases h2 : i = j ∧ i ≤ d
    · obtain ⟨rfl, hle⟩ := h2; simp [hle]
    · simp only [h2, if_false]
      exact hk i j (fun hh => hh.elim h2 h1)

/-- (a) **reads**: the re-fit is a function of the fields `readsOf` lists — two objects of one class that
agree on them (on `_h_matrix`: on the part that is not overwritten) get the same fitted state -/
theorem sync_reads_only (e : Ext Pts A) (o o' : Obj Pts A) (hc : o.cls = o'.cls)
    (hk : Kinded o) (hk' : Kinded o') (h : AgreeOn e (readsOf o.cls) o o') :
    (sync e o).state = (sync e o').state := by
  obtain ⟨cls, rot, mir, ker, sv, src, tgt, st⟩ := o
  obtain ⟨cls', rot', mir', ker', sv', src', tgt', st'⟩ := o'
  simp only at hc; subst hc
  cases cls <;> cases st <;> cases st' <;> simp only [Kinded] at hk hk' <;>
    simp only [AgreeOn, readsOf, List.mem_cons, List.not_mem_nil, or_false, forall_eq_or_imp, forall_eq,
      fldAgree] at h <;> simp only [sync]
  · obtain ⟨rfl, rfl⟩ := h; rfl
  · obtain ⟨rfl, rfl, rfl, rfl⟩ := h; rfl
  · obtain ⟨rfl, rfl, rfl, hm⟩ := h; simp only [setBlock_kept _ _ _ _ hm]
  · obtain ⟨rfl, rfl, hm⟩ := h; simp only [setLastCol_kept _ _ _ _ hm]
  · obtain ⟨rfl, rfl, hm⟩ := h; simp only [scale_kept _ _ _ _ hm]
  · obtain ⟨rfl, rfl, rfl⟩ := h; rfl
  · obtain ⟨rfl, rfl⟩ := h; rfl

/-- (a) **writes**: the re-fit leaves class, options, source and target alone, keeps the kind, and what it
keeps of the state is what `readsOf` says it may read again next time -/
theorem sync_writes_only (e : Ext Pts A) (o : Obj Pts A) :
    (sync e o).cls = o.cls ∧ (sync e o).rotation = o.rotation ∧ (sync e o).allowMirror = o.allowMirror ∧
    (sync e o).kernel = o.kernel ∧ (sync e o).minSV = o.minSV ∧ (sync e o).source = o.source ∧
    (sync e o).target = o.target ∧ (Kinded o → Kinded (sync e o)) ∧
    (Kinded o → AgreeOn e (readsOf o.cls) (sync e o) o) := by
  obtain ⟨cls, rot, mir, ker, sv, src, tgt, st⟩ := o
  cases cls <;> cases st <;>
    simp [sync, Kinded, AgreeOn, readsOf, fldAgree, KeptEq, setBlock, setLastCol, setCorner, fillDiag]
  · intro i j h1 h2 h3; exact absurd h3 (Nat.not_lt.mpr (h1 h2))
  · intro i j h1 h2 h3; exact absurd h3 (Nat.not_lt.mpr (h1 h2))
  · intro i j h1 h2
    have hn1 : ¬ (i = e.nDims src ∧ j = e.nDims src) := fun hh => h2 hh.1 hh.2
    have hn2 : ¬ (i = j ∧ i ≤ e.nDims src) := fun hh => absurd hh.2 (Nat.not_le.mpr (h1 hh.1))
    simp only [hn1, hn2, if_false]

/-! ### from the frame alone: the state after any history is a function of the construction-time part and
the last accepted target -/

/-- the two objects have the same construction-time part: everything a re-fit reads other than the target -/
def CtorAgree (e : Ext Pts A) (o o' : Obj Pts A) : Prop :=
  o.cls = o'.cls ∧ Kinded o ∧ Kinded o' ∧ AgreeOn e ((readsOf o.cls).erase .target) o o' ∧
  SameShape e o.target o'.target

theorem agreeOn_with_target (e : Ext Pts A) (o o' : Obj Pts A) (t : Pts) (_hc : o.cls = o'.cls)
    (h : AgreeOn e ((readsOf o.cls).erase .target) o o') :
    AgreeOn e (readsOf o.cls) { o with target := t } { o' with target := t } := by
  intro f hf
  by_cases hft : f = .target
  · subst hft; rfl
  · have hmem : f ∈ (readsOf o.cls).erase .target := (List.mem_erase_of_ne hft).mpr hf
    have := h f hmem
    cases f <;> first | exact this | trivial

/-- one `set_target(t)` on two objects with the same construction-time part: both accept or both reject
(with the same error), and accepted calls leave the same fitted state and the target `t` -/
theorem setTarget_determined (e : Ext Pts A) (o o' : Obj Pts A) (t : Pts) (h : CtorAgree e o o') :
    (∃ a b, setTarget e o t = .ok a ∧ setTarget e o' t = .ok b ∧ a.state = b.state ∧ a.target = t ∧ b.target = t ∧
       SameShape e t o.target) ∨
    (∃ err, setTarget e o t = .error err ∧ setTarget e o' t = .error err ∧ ¬ SameShape e t o.target) := by
  obtain ⟨hc, hk, hk', hag, hsh⟩ := h
  by_cases hs : SameShape e t o.target
  · left
    have hs' : SameShape e t o'.target := ⟨hs.1.trans hsh.1, hs.2.trans hsh.2⟩
    have hv := verifyTarget_ok e o t hs
    have hv' := verifyTarget_ok e o' t hs'
    refine ⟨sync e { o with target := t }, sync e { o' with target := t }, by simp [setTarget, hv],
      by simp [setTarget, hv'], ?_, ?_, ?_, hs⟩
    · exact sync_reads_only e _ _ hc hk hk' (agreeOn_with_target e o o' t hc hag)
    · exact (sync_writes_only e { o with target := t }).2.2.2.2.2.2.1
    · exact (sync_writes_only e { o' with target := t }).2.2.2.2.2.2.1
  · right
    have hs' : ¬ SameShape e t o'.target := fun h => hs ⟨h.1.trans hsh.1.symm, h.2.trans hsh.2.symm⟩
    by_cases hd : e.nDims t = e.nDims o.target
    · have hp : e.nPoints t ≠ e.nPoints o.target := fun hp => hs ⟨hd, hp⟩
      have hd' : e.nDims t = e.nDims o'.target := hd.trans hsh.1
      have hp' : e.nPoints t ≠ e.nPoints o'.target := fun hp' => hs' ⟨hd', hp'⟩
      exact ⟨.points, retarget_rejects_points e o t hd hp, retarget_rejects_points e o' t hd' hp', hs⟩
    · have hd' : e.nDims t ≠ e.nDims o'.target := fun h => hd (h.trans hsh.1.symm)
      exact ⟨.dims, retarget_rejects_dims e o t hd, retarget_rejects_dims e o' t hd', hs⟩

/-- the frame along one call: `set_target` does not disturb the construction-time part -/
theorem ctorAgree_step_self (e : Ext Pts A) (o : Obj Pts A) (t : Pts) (hk : Kinded o) :
    CtorAgree e (step e o t) o := by
  unfold step setTarget
  cases hv : verifyTarget e o t with
  | error err =>
    refine ⟨rfl, hk, hk, ?_, ⟨rfl, rfl⟩⟩
    intro f hf
    have hk0 := hk
    obtain ⟨cls, rot, mir, ker, sv, src, tgt, st⟩ := o
    cases cls <;> cases st <;> simp only [Kinded] at hk0 <;>
      simp [readsOf] at hf <;> (try rcases hf with rfl | rfl | rfl | rfl) <;>
      simp [fldAgree, KeptEq]
  | ok u =>
    cases u
    have hsh := (verifyTarget_ok_iff e o t).mp hv
    obtain ⟨h1, _, _, _, _, _, h7, h8, h9⟩ := sync_writes_only e { o with target := t }
    have hk1 : Kinded { o with target := t } := hk
    refine ⟨h1, h8 hk1, hk, ?_, ?_⟩
    · intro f hf
      have hcls : (sync e { o with target := t }).cls = o.cls := h1
      rw [hcls] at hf
      have hmem : f ∈ readsOf o.cls := List.mem_of_mem_erase hf
      have hne : f ≠ .target := by
        intro h; subst h
        have : (readsOf o.cls).Nodup := by cases o.cls <;> decide
        exact (List.Nodup.mem_erase_iff this).mp hf |>.1 rfl
      have := h9 hk1 f hmem
      cases f <;> first | exact absurd rfl hne | exact this
    · show SameShape e (sync e { o with target := t }).target o.target
      rw [h7]; exact hsh

theorem ctorAgree_symm (e : Ext Pts A) (o o' : Obj Pts A) (h : CtorAgree e o o') : CtorAgree e o' o := by
  obtain ⟨hc, hk, hk', hag, hsh⟩ := h
  refine ⟨hc.symm, hk', hk, ?_, ⟨hsh.1.symm, hsh.2.symm⟩⟩
  intro f hf
  rw [← hc] at hf
  have hf' := hag f hf
  obtain ⟨cls, rot, mir, ker, sv, src, tgt, st⟩ := o
  obtain ⟨cls', rot', mir', ker', sv', src', tgt', st'⟩ := o'
  simp only at hc; subst hc
  have hsrc : cls = .tps ∨ src = src' := by
    cases cls
    case tps => exact Or.inl rfl
    all_goals (right; exact hag .source (by simp [readsOf]))
  cases f <;> simp only [fldAgree] at hf' ⊢ <;> try exact hf'.symm
  · -- hmat
    cases st <;> cases st' <;> simp only at hf' ⊢ <;> try exact hf'
    rcases hsrc with rfl | rfl
    · simp [readsOf] at hf
    · cases cls <;> simp only [KeptEq] at hf' ⊢ <;> first | trivial | (intro i j hn; exact (hf' i j hn).symm)
  · -- tpsL
    cases st <;> cases st' <;> simp only at hf' ⊢ <;> first | exact hf'.symm | exact hf'

theorem ctorAgree_trans (e : Ext Pts A) (a b c : Obj Pts A) (h1 : CtorAgree e a b) (h2 : CtorAgree e b c) :
    CtorAgree e a c := by
  obtain ⟨hc1, hk1, _, hag1, hsh1⟩ := h1
  obtain ⟨hc2, _, hk2, hag2, hsh2⟩ := h2
  refine ⟨hc1.trans hc2, hk1, hk2, ?_, ⟨hsh1.1.trans hsh2.1, hsh1.2.trans hsh2.2⟩⟩
  intro f hf
  have hf1 := hag1 f hf
  have hf2 := hag2 f (by rw [← hc1]; exact hf)
  obtain ⟨cls, rot, mir, ker, sv, src, tgt, st⟩ := a
  obtain ⟨cls', rot', mir', ker', sv', src', tgt', st'⟩ := b
  obtain ⟨cls'', rot'', mir'', ker'', sv'', src'', tgt'', st''⟩ := c
  simp only at hc1 hc2; subst hc1; subst hc2
  have hsrc : cls = .tps ∨ src = src' := by
    cases cls
    case tps => exact Or.inl rfl
    all_goals (right; exact hag1 .source (by simp [readsOf]))
  cases f <;> simp only [fldAgree] at hf1 hf2 ⊢ <;> try exact hf1.trans hf2
  · cases st <;> cases st' <;> cases st'' <;> simp only at hf1 hf2 ⊢ <;> try contradiction
    rcases hsrc with rfl | rfl
    · simp [readsOf] at hf
    · cases cls <;> simp only [KeptEq] at hf1 hf2 ⊢ <;>
        first | trivial | (intro i j hn; exact (hf1 i j hn).trans (hf2 i j hn))
  · cases st <;> cases st' <;> cases st'' <;> simp only at hf1 hf2 ⊢ <;>
      first | exact hf1.trans hf2 | contradiction

theorem ctorAgree_refl (e : Ext Pts A) (o : Obj Pts A) (hk : Kinded o) : CtorAgree e o o := by
  have h := ctorAgree_step_self e o o.target hk
  exact ctorAgree_trans e _ _ _ (ctorAgree_symm e _ _ h) h

theorem ctorAgree_history (e : Ext Pts A) (ts : List Pts) :
    ∀ o : Obj Pts A, Kinded o → CtorAgree e (history e o ts) o := by
  induction ts with
  | nil => intro o hk; exact ctorAgree_refl e o hk
  | cons t ts ih =>
    intro o hk
    have h1 := ctorAgree_step_self e o t hk
    have h2 := ih (step e o t) h1.2.1
    exact ctorAgree_trans e _ _ _ h2 h1

/-- (a) **the state after any history is a function of (options, source, last target)**.  Two objects with the
same construction-time part — same class, same remembered options, same source, same kept matrix part /
TPS system matrix; *whatever* their fitted states and targets are and however they were obtained — after
*any* two histories of accepted and rejected `set_target` calls that end with the same accepted target `t`
have the same fitted state and the target `t`.  Derived from `sync_reads_only` / `sync_writes_only` alone. -/
theorem retarget_state_function (e : Ext Pts A) (o o' : Obj Pts A) (h : CtorAgree e o o')
    (ts ts' : List Pts) (t : Pts) (hsh : SameShape e t o.target) :
    (history e o (ts ++ [t])).state = (history e o' (ts' ++ [t])).state ∧
    (history e o (ts ++ [t])).target = t ∧ (history e o' (ts' ++ [t])).target = t := by
  have h1 := ctorAgree_history e ts o h.2.1
  have h2 := ctorAgree_history e ts' o' h.2.2.1
  have h12 : CtorAgree e (history e o ts) (history e o' ts') :=
    ctorAgree_trans e _ _ _ h1 (ctorAgree_trans e _ _ _ h (ctorAgree_symm e _ _ h2))
  have hsh' : SameShape e t (history e o ts).target := ⟨hsh.1.trans h1.2.2.2.2.1.symm, hsh.2.trans h1.2.2.2.2.2.symm⟩
  rcases setTarget_determined e _ _ t h12 with ⟨a, b, ha, hb, hst, hta, htb, _⟩ | ⟨err, _, _, hn⟩
  · simp only [history, List.foldl_append, List.foldl_cons, List.foldl_nil, step]
    simp only [history] at ha hb
    rw [ha, hb]
    exact ⟨hst, hta, htb⟩
  · exact absurd hsh' hn

/-- every constructor establishes `Kinded` -/
theorem build_kinded (tr : Tree) (e : Ext Pts A) (c : Cls) (op : Opts) (s t : Pts) (o : Obj Pts A)
    (hb : build tr e c op s t = .ok o) : Kinded o := by
  unfold build at hb
  split at hb
  · simp at hb
  · unfold buildCore at hb
    cases c
    case affine => simp only [Except.ok.injEq] at hb; subst hb; split <;> simp [Kinded]
    case similarity => simp only [Except.ok.injEq] at hb; subst hb; simp [Kinded]
    case rotation => simp only [Except.ok.injEq] at hb; subst hb; split <;> simp [Kinded]
    case translation => simp only at hb; split at hb <;> simp at hb; subst hb; simp [Kinded]
    case uniformScale => simp only at hb; split at hb <;> simp at hb; subst hb; simp [Kinded]
    case tps => simp only at hb; split at hb <;> simp at hb; subst hb; simp [Kinded]
    case pwa => simp only at hb; split at hb <;> simp at hb; subst hb; simp [Kinded]


end MenpoModel.C08
