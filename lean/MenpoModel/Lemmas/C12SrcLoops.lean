/-
C12 — the loops of the assembly routines as coded (`Core/C12Src.lean`) against the executable model
(`Core/C12GMRF.lean`): `denseCoded_eq` (`_create_dense_precision` is the model's `dense` fold over `graph.edges`),
`denseDiagCoded_eq`, `sparseCoded_eq` / `sparseDiagCoded_eq` (the stored triplets are the model's `allTrips` /
`diagTrips`, the finishing steps the model's `assembleSorted` of the permuted triplets), and the
`return_covariances=True` variants (same matrix, plus the covariances).
-/
import MenpoModel.Lemmas.C12Src

set_option linter.unusedSimpArgs false
set_option linter.unusedVariables false

namespace MenpoModel.C12.Src
open MenpoModel.C12 MenpoModel.Py

theorem map_getD_range {α : Type} (l : List α) (d : α) : (List.range l.length).map (fun i => l.getD i d) = l := by
  apply List.ext_getElem
  · simp
  · intro i h1 h2
    simp [List.getD_eq_getElem?_getD] at h1 ⊢
    rw [List.getElem?_eq_getElem h2]; rfl

theorem map_edgeAt (g : GraphS) : (List.range g.nEdges).map g.edgeAt = g.edges := by
  unfold GraphS.nEdges
  have := map_getD_range g.edges (0, 0)
  exact this

/-! ### `_create_dense_precision` -/

theorem dense_fold_write (m : Mode) (k n : Nat) (g : GraphS) (l : List (Nat × Mat))
    (hl : ∀ eB ∈ l, IsTab (m.dim k) (m.dim k) eB.2) (P : Mat) (hP : IsTab n n P) :
    l.foldl (fun P eB => denseWrite P g k (toS m) eB.1 eB.2) P =
      (l.map fun eB => (g.edgeAt eB.1, eB.2)).foldl (denseStep m k n) P := by
  induction l generalizing P with
  | nil => rfl
  | cons eB l ih =>
    simp only [List.foldl_cons, List.map_cons]
    rw [denseWrite_eq_denseStep m k n P hP g eB.1 eB.2 (hl eB (by simp))]
    exact ih (fun x hx => hl x (by simp [hx])) _ (isTab_denseStep m k n P _)

theorem zip_map_edgeAt (g : GraphS) (Bs : List Mat) :
    ((List.range g.nEdges).zip Bs).map (fun eB => (g.edgeAt eB.1, eB.2)) = g.edges.zip Bs := by
  conv_rhs => rw [← map_edgeAt g]
  rw [List.zip_map_left]
  rfl

/-- **`_create_dense_precision` is the model's `dense`**: it raises what the first failing inversion raises, and
otherwise returns the fold of `denseStep` over `graph.edges` paired with the inverted covariances -/
theorem denseCoded_eq (m : Mode) (cinv : Arr → Option Nat → Except PyErr Mat) (X : Mat) (g : GraphS) (n k : Nat)
    (dtype : DType) (nc : Option Nat) (bias : Bool) (hc : ∀ e, e < g.nEdges → ∀ B, cinv (edgeCov X g k (toS m) bias e) nc = .ok B → IsTab (m.dim k) (m.dim k) B) :
    denseCoded cinv X g n k (toS m) dtype nc bias =
      (match collectL (fun e => cinv (edgeCov X g k (toS m) bias e) nc) (List.range g.nEdges) with
        | .error err => .error err
        | .ok Bs => .ok (dense m k n g.edges Bs)) := by
  unfold denseCoded
  simp only [asDtype]
  rw [modeKnown_toS]
  simp only [Bool.not_true, Bool.false_eq_true, if_false]
  have h := flagLoop (ρ := Mat) (fun acc e => denseBody cinv X g k (toS m) nc bias acc e)
    (fun e => cinv (edgeCov X g k (toS m) bias e) nc) (fun P e B => denseWrite P g k (toS m) e B)
    (by intro v s e; simp [denseBody])
    (by intro s e B hB; simp [denseBody, hB])
    (by intro s e err he; simp [denseBody, he])
    id (zerosRC n n) (List.range g.nEdges)
  simp only [id] at h
  generalize forLoop (none, zerosRC n n) (List.range g.nEdges)
    (fun acc e => denseBody cinv X g k (toS m) nc bias acc e) = r at h ⊢
  obtain ⟨r1, r2⟩ := r
  cases r1 <;> simp only at h ⊢ <;> rw [h] <;> clear h
  all_goals rw [runFlag_eq]
  all_goals cases hcol : collectL (fun e => cinv (edgeCov X g k (toS m) bias e) nc) (List.range g.nEdges) with
  | error err => rfl
  | ok Bs =>
    simp only
    have hBs : ∀ B ∈ Bs, IsTab (m.dim k) (m.dim k) B :=
      collectL_mem_range _ _ _ hc Bs hcol
    rw [zerosRC_eq_zeros, dense_fold_write m k n g _ (fun eB heB => hBs eB.2 (List.of_mem_zip heB).2) _ (isTab_zeros n),
      zip_map_edgeAt]
    rfl

/-- any other mode string is refused before anything is computed -/
theorem denseCoded_other (cinv : Arr → Option Nat → Except PyErr Mat) (X : Mat) (g : GraphS) (n k : Nat)
    (dtype : DType) (nc : Option Nat) (bias : Bool) :
    denseCoded cinv X g n k .other dtype nc bias = .error .valueError := rfl

/-! ### `_create_sparse_precision`: the stored triplets -/

instance : Inhabited Trip := ⟨⟨0, 0, []⟩⟩

/-- the state (all_blocks, columns, rows, count) once the triplets `ts` are stored and `r` slots are still empty -/
def padded (k : Nat) (ts : List Trip) (r : Nat) : List Mat × List Nat × List Nat × Int :=
  (ts.map (·.blk) ++ List.replicate r (zerosRC k k), ts.map (·.col) ++ List.replicate r 0,
    ts.map (·.row) ++ List.replicate r 0, (ts.length : Int) - 1)

theorem set_at_length {α : Type} (pre : List α) (z v : α) (r : Nat) :
    (pre ++ List.replicate (r + 1) z).set pre.length v = (pre ++ [v]) ++ List.replicate r z := by
  rw [List.set_append_right _ _ (Nat.le_refl _), Nat.sub_self, List.replicate_succ, List.set_cons_zero]
  simp

theorem pySet_int_at_length {α : Type} (pre : List α) (z v : α) (r : Nat) (p : Int) (hp : p = (pre.length : Int)) :
    pySet (pre ++ List.replicate (r + 1) z) p v = (pre ++ [v]) ++ List.replicate r z := by
  subst hp
  show (pre ++ List.replicate (r + 1) z).set (natIdx _ (pre.length : Int)) v = _
  have : natIdx (pre ++ List.replicate (r + 1) z).length (pre.length : Int) = pre.length := by
    unfold natIdx
    rw [if_pos (Int.natCast_nonneg _)]
    simp
  rw [this, set_at_length]

/-- `count += 1; all_blocks[count] = B; rows[count] = rr; columns[count] = cc` appends one triplet -/
theorem store_padded (k : Nat) (ts : List Trip) (r : Nat) (B : Mat) (rr cc : Nat) :
    store (padded k ts (r + 1)) B rr cc = padded k (ts ++ [⟨rr, cc, B⟩]) r := by
  unfold store padded
  simp only
  have hp : ((ts.length : Int) - 1 + 1) = (ts.length : Int) := by omega
  rw [hp]
  rw [pySet_int_at_length (ts.map (·.blk)) _ B r _ (by simp),
    pySet_int_at_length (ts.map (·.col)) _ cc r _ (by simp),
    pySet_int_at_length (ts.map (·.row)) _ rr r _ (by simp)]
  simp

/-- **the four stores of `_create_sparse_precision` for one edge are the model's `edgeTrips`** -/
theorem sparseWrite_padded (m : Mode) (k : Nat) (ts : List Trip) (r : Nat) (g : GraphS) (e : Nat) (B : Mat)
    (hB : IsTab (m.dim k) (m.dim k) B) :
    sparseWrite (padded k ts (r + 4)) g k (toS m) e B = padded k (ts ++ edgeTrips m k (g.edgeAt e) B) r := by
  cases m with
  | concat =>
    obtain ⟨s1, s2, s3, s4⟩ := slice2_eq_blkOf B k hB
    show store (store (store (store (padded k ts (r + 3 + 1)) _ _ _) _ _ _) _ _ _) _ _ _ = _
    rw [store_padded, store_padded, store_padded, store_padded, s1, s2, s3, s4]
    simp [edgeTrips]
  | sub =>
    obtain ⟨s1, s2⟩ := self_eq_blkOf B k hB
    show store (store (store (store (padded k ts (r + 3 + 1)) _ _ _) _ _ _) _ _ _) _ _ _ = _
    rw [store_padded, store_padded, store_padded, store_padded, s2]
    conv_lhs => rw [s1]
    simp [edgeTrips]
    rw [← s1]

theorem sparse_fold_write (m : Mode) (k : Nat) (g : GraphS) (l : List (Nat × Mat))
    (hl : ∀ eB ∈ l, IsTab (m.dim k) (m.dim k) eB.2) (ts : List Trip) (r : Nat) :
    l.foldl (fun st eB => sparseWrite st g k (toS m) eB.1 eB.2) (padded k ts (4 * l.length + r)) =
      padded k (ts ++ (l.map fun eB => edgeTrips m k (g.edgeAt eB.1) eB.2).flatten) r := by
  induction l generalizing ts with
  | nil => simp
  | cons eB l ih =>
    simp only [List.foldl_cons, List.map_cons, List.flatten_cons, List.length_cons]
    have e1 : 4 * (l.length + 1) + r = (4 * l.length + r) + 4 := by omega
    rw [e1, sparseWrite_padded m k ts _ g eB.1 eB.2 (hl eB (by simp)), ih (fun x hx => hl x (by simp [hx]))]
    simp

theorem flatten_edgeTrips (m : Mode) (k : Nat) (g : GraphS) (Bs : List Mat) :
    (((List.range g.nEdges).zip Bs).map fun eB => edgeTrips m k (g.edgeAt eB.1) eB.2).flatten =
      allTrips m k g.edges Bs := by
  unfold allTrips
  congr 1
  conv_rhs => rw [← map_edgeAt g]
  rw [List.zipWith_map_left]
  rw [List.zip_eq_zipWith, List.map_zipWith]

/-! ### `_create_sparse_precision`: argsort, the `indptr` loop, `bsr_matrix` -/

/-- the triplets re-ordered by an index array -/
def permT (ts : List Trip) (p : List Nat) : List Trip := p.map fun i => ts.getD i default

theorem getD_map' {α β : Type} (f : α → β) (l : List α) (i : Nat) (d : α) : (l.map f).getD i (f d) = f (l.getD i d) := by
  simp only [List.getD_eq_getElem?_getD, List.getElem?_map]
  cases l[i]? <;> rfl

theorem getD_last (p : Nat) (ps : List Nat) : (p :: ps).getD ps.length 0 = (p :: ps).getLast?.getD 0 := by
  rw [List.getLast?_eq_getElem?]
  simp [List.getD_eq_getElem?_getD]

/-- the body of the `indptr` loop as coded is the model's `indptrStep` -/
theorem indptrBody_eq (rows ip : List Nat) (i : Nat) : indptrBody rows ip i = indptrStep rows ip i := by
  unfold indptrBody indptrStep npWhereEq
  cases h : whereEq i rows 0 with
  | nil => rfl
  | cons p ps =>
    simp only [List.length_cons]
    rw [if_neg (by simp)]
    show (ip.set i ((p :: ps).getD 0 0)).set (i + 1) ((p :: ps).getD (natIdx (ps.length + 1) (-1)) 0 + 1) = _
    have hn : natIdx (ps.length + 1) (-1) = ps.length := by
      unfold natIdx
      rw [if_neg (by omega)]
      omega
    rw [hn, getD_last]
    rfl

theorem finishBsr_eq (argsort : List Nat → List Nat) (V n : Nat) (dtype : DType) (ts : List Trip) :
    finishBsr argsort V n dtype (ts.map (·.blk)) (ts.map (·.col)) (ts.map (·.row)) =
      assembleSorted V (permT ts (argsort (ts.map (·.row)))) := by
  unfold finishBsr assembleSorted mkBsr permT withShape asDtype
  have h1 : ∀ p : List Nat, (pyIdx (ts.map (·.blk)) p : List Mat) = (p.map fun i => ts.getD i default).map (·.blk) := by
    intro p
    show p.map (fun i => (ts.map (·.blk)).getD i default) = _
    rw [List.map_map]
    apply List.map_congr_left
    intro i _
    exact getD_map' (·.blk) ts i default
  have h2 : ∀ p : List Nat, (pyIdx (ts.map (·.col)) p : List Nat) = (p.map fun i => ts.getD i default).map (·.col) := by
    intro p
    show p.map (fun i => (ts.map (·.col)).getD i default) = _
    rw [List.map_map]
    apply List.map_congr_left
    intro i _
    exact getD_map' (·.col) ts i default
  have h3 : ∀ p : List Nat, (pyIdx (ts.map (·.row)) p : List Nat) = (p.map fun i => ts.getD i default).map (·.row) := by
    intro p
    show p.map (fun i => (ts.map (·.row)).getD i default) = _
    rw [List.map_map]
    apply List.map_congr_left
    intro i _
    exact getD_map' (·.row) ts i default
  rw [h1, h2, h3]
  congr 1
  unfold indptrLoop
  rw [forLoop_eq_foldl]
  congr 1
  funext ip i
  exact indptrBody_eq _ ip i

/-- **`_create_sparse_precision` stores the model's triplets and assembles them as the model does**: it raises what
the first failing inversion raises, and otherwise returns `assembleSorted` of `allTrips` re-ordered by `rows.argsort()` -/
theorem sparseCoded_eq (m : Mode) (cinv : Arr → Option Nat → Except PyErr Mat) (argsort : List Nat → List Nat) (X : Mat)
    (g : GraphS) (n k : Nat) (dtype : DType) (nc : Option Nat) (bias : Bool) (hc : ∀ e, e < g.nEdges → ∀ B, cinv (edgeCov X g k (toS m) bias e) nc = .ok B → IsTab (m.dim k) (m.dim k) B) :
    sparseCoded cinv argsort X g n k (toS m) dtype nc bias =
      (match collectL (fun e => cinv (edgeCov X g k (toS m) bias e) nc) (List.range g.nEdges) with
        | .error err => .error err
        | .ok Bs => .ok (assembleSorted g.nVertices
            (permT (allTrips m k g.edges Bs) (argsort ((allTrips m k g.edges Bs).map (·.row)))))) := by
  unfold sparseCoded
  simp only [asDtype]
  rw [modeKnown_toS]
  simp only [Bool.not_true, Bool.false_eq_true, if_false]
  have h := flagLoop (ρ := BSR) (fun acc e => sparseBody cinv X g k (toS m) nc bias acc e)
    (fun e => cinv (edgeCov X g k (toS m) bias e) nc) (fun st e B => sparseWrite st g k (toS m) e B)
    (by intro v s e; simp [sparseBody])
    (by intro s e B hB; simp [sparseBody, hB])
    (by intro s e err he; simp [sparseBody, he])
    (fun st => finishBsr argsort g.nVertices n dtype st.1 st.2.1 st.2.2.1)
    (zerosN (g.nEdges * 4) k k, List.replicate (g.nEdges * 4) (0 : Nat), List.replicate (g.nEdges * 4) (0 : Nat), (-(1) : Int))
    (List.range g.nEdges)
  generalize forLoop (none, zerosN (g.nEdges * 4) k k, List.replicate (g.nEdges * 4) (0 : Nat),
    List.replicate (g.nEdges * 4) (0 : Nat), (-(1) : Int)) (List.range g.nEdges)
    (fun acc e => sparseBody cinv X g k (toS m) nc bias acc e) = r at h ⊢
  obtain ⟨r1, r2⟩ := r
  cases r1 <;> simp only at h ⊢ <;> rw [h] <;> clear h
  all_goals rw [runFlag_eq]
  all_goals cases hcol : collectL (fun e => cinv (edgeCov X g k (toS m) bias e) nc) (List.range g.nEdges) with
  | error err => rfl
  | ok Bs =>
    simp only
    have hBs : ∀ B ∈ Bs, IsTab (m.dim k) (m.dim k) B :=
      collectL_mem_range _ _ _ hc Bs hcol
    have hlen : ((List.range g.nEdges).zip Bs).length = g.nEdges := by
      rw [List.length_zip, collectL_length _ _ Bs hcol]; simp
    have hinit : (zerosN (g.nEdges * 4) k k, List.replicate (g.nEdges * 4) (0 : Nat),
        List.replicate (g.nEdges * 4) (0 : Nat), (-(1) : Int)) =
        padded k [] (4 * ((List.range g.nEdges).zip Bs).length + 0) := by
      rw [hlen, Nat.add_zero, Nat.mul_comm 4 g.nEdges]
      rfl
    rw [hinit, sparse_fold_write m k g _ (fun eB heB => hBs eB.2 (List.of_mem_zip heB).2) [] 0, flatten_edgeTrips]
    unfold padded
    simp only [List.nil_append, List.replicate_zero, List.append_nil]
    rw [finishBsr_eq]

/-! ### the edgeless constructors -/

theorem denseDiag_fold_write (k n : Nat) (Bs : List Mat) (hBs : ∀ B ∈ Bs, IsTab k k B) (v0 : Nat) (P : Mat)
    (hP : IsTab n n P) :
    ((List.range' v0 Bs.length).zip Bs).foldl
        (fun P vB => setSlice P (vB.1 * k) ((vB.1 + 1) * k) (vB.1 * k) ((vB.1 + 1) * k) vB.2) P =
      denseDiagFrom k n v0 Bs P := by
  induction Bs generalizing v0 P with
  | nil => rfl
  | cons B Bs ih =>
    simp only [List.length_cons, List.range'_succ, List.zip_cons_cons, List.foldl_cons, denseDiagFrom]
    rw [setSlice_eq n P hP v0 v0 k B, ← (self_eq_blkOf B k (hBs B (by simp))).1]
    exact ih (fun x hx => hBs x (by simp [hx])) (v0 + 1) _ (isTab_setBlock _ _ _ _ _ _)

/-- **`_create_dense_diagonal_precision` is the model's `denseDiag`** -/
theorem denseDiagCoded_eq (cinv : Arr → Option Nat → Except PyErr Mat) (X : Mat) (g : GraphS) (n k : Nat)
    (dtype : DType) (nc : Option Nat) (bias : Bool) (hc : ∀ v, v < g.nVertices → ∀ B, cinv (vertexCov X k bias v) nc = .ok B → IsTab k k B) :
    denseDiagCoded cinv X g n k dtype nc bias =
      (match collectL (fun v => cinv (vertexCov X k bias v) nc) (List.range g.nVertices) with
        | .error err => .error err
        | .ok Bs => .ok (denseDiag k n Bs)) := by
  unfold denseDiagCoded
  simp only [asDtype]
  have h := flagLoop (ρ := Mat) (fun acc v => denseDiagBody cinv X k nc bias acc v)
    (fun v => cinv (vertexCov X k bias v) nc)
    (fun P v B => setSlice P (v * k) ((v + 1) * k) (v * k) ((v + 1) * k) B)
    (by intro v s e; simp [denseDiagBody])
    (by intro s e B hB; simp [denseDiagBody, hB])
    (by intro s e err he; simp [denseDiagBody, he])
    id (zerosRC n n) (List.range g.nVertices)
  simp only [id] at h
  generalize forLoop (none, zerosRC n n) (List.range g.nVertices)
    (fun acc v => denseDiagBody cinv X k nc bias acc v) = r at h ⊢
  obtain ⟨r1, r2⟩ := r
  cases r1 <;> simp only at h ⊢ <;> rw [h] <;> clear h
  all_goals rw [runFlag_eq]
  all_goals cases hcol : collectL (fun v => cinv (vertexCov X k bias v) nc) (List.range g.nVertices) with
  | error err => rfl
  | ok Bs =>
    simp only
    have hBs : ∀ B ∈ Bs, IsTab k k B := collectL_mem_range _ _ _ hc Bs hcol
    have hlen : Bs.length = g.nVertices := by rw [collectL_length _ _ Bs hcol]; simp
    rw [List.range_eq_range', ← hlen, zerosRC_eq_zeros]
    have := denseDiag_fold_write k n Bs hBs 0 (zeros n) (isTab_zeros n)
    rw [this]
    rfl

/-- the state (all_blocks, columns, rows) of the edgeless sparse constructor after the vertices below `Bs.length` -/
theorem sparseDiag_fold_write (k : Nat) (Bs done : List Mat) (r : Nat) :
    ((List.range' done.length Bs.length).zip Bs).foldl
        (fun (st : List Mat × List Nat × List Nat) vB => (pySet st.1 vB.1 vB.2, pySet st.2.1 vB.1 vB.1, pySet st.2.2 vB.1 vB.1))
        (done ++ List.replicate (Bs.length + r) (zerosRC k k), List.range done.length ++ List.replicate (Bs.length + r) 0,
          List.range done.length ++ List.replicate (Bs.length + r) 0) =
      ((done ++ Bs) ++ List.replicate r (zerosRC k k), List.range (done.length + Bs.length) ++ List.replicate r 0,
        List.range (done.length + Bs.length) ++ List.replicate r 0) := by
  induction Bs generalizing done with
  | nil => simp
  | cons B Bs ih =>
    simp only [List.length_cons, List.range'_succ, List.zip_cons_cons, List.foldl_cons]
    have e1 : Bs.length + 1 + r = (Bs.length + r) + 1 := by omega
    rw [e1]
    have s1 : pySet (done ++ List.replicate (Bs.length + r + 1) (zerosRC k k)) done.length B =
        (done ++ [B]) ++ List.replicate (Bs.length + r) (zerosRC k k) := set_at_length done _ B _
    have s2 : pySet (List.range done.length ++ List.replicate (Bs.length + r + 1) 0) done.length done.length =
        (List.range done.length ++ [done.length]) ++ List.replicate (Bs.length + r) 0 := by
      have := set_at_length (List.range done.length) 0 done.length (Bs.length + r)
      rw [List.length_range] at this
      exact this
    rw [s1, s2]
    have hl : (done ++ [B]).length = done.length + 1 := by simp
    have hr : List.range done.length ++ [done.length] = List.range (done ++ [B]).length := by
      rw [hl, List.range_succ]
    rw [hr]
    have := ih (done ++ [B])
    rw [hl] at this ⊢
    rw [this]
    simp [Nat.add_assoc, Nat.add_comm 1]

theorem diagTrips_maps (k : Nat) (Bs : List Mat) (hBs : ∀ B ∈ Bs, IsTab k k B) (v0 : Nat) :
    (diagTrips k v0 Bs).map (·.blk) = Bs ∧ (diagTrips k v0 Bs).map (·.col) = List.range' v0 Bs.length ∧
    (diagTrips k v0 Bs).map (·.row) = List.range' v0 Bs.length := by
  induction Bs generalizing v0 with
  | nil => simp [diagTrips]
  | cons B Bs ih =>
    obtain ⟨i1, i2, i3⟩ := ih (fun x hx => hBs x (by simp [hx])) (v0 + 1)
    simp only [diagTrips, List.map_cons, List.length_cons, List.range'_succ, i1, i2, i3]
    rw [← (self_eq_blkOf B k (hBs B (by simp))).1]
    simp

/-- **`_create_sparse_diagonal_precision` stores the model's `diagTrips` and assembles them as the model does** -/
theorem sparseDiagCoded_eq (cinv : Arr → Option Nat → Except PyErr Mat) (argsort : List Nat → List Nat) (X : Mat)
    (g : GraphS) (n k : Nat) (dtype : DType) (nc : Option Nat) (bias : Bool) (hc : ∀ v, v < g.nVertices → ∀ B, cinv (vertexCov X k bias v) nc = .ok B → IsTab k k B) :
    sparseDiagCoded cinv argsort X g n k dtype nc bias =
      (match collectL (fun v => cinv (vertexCov X k bias v) nc) (List.range g.nVertices) with
        | .error err => .error err
        | .ok Bs => .ok (assembleSorted g.nVertices
            (permT (diagTrips k 0 Bs) (argsort ((diagTrips k 0 Bs).map (·.row)))))) := by
  unfold sparseDiagCoded
  simp only [asDtype]
  have h := flagLoop (ρ := BSR) (fun acc v => sparseDiagBody cinv X k nc bias acc v)
    (fun v => cinv (vertexCov X k bias v) nc)
    (fun (st : List Mat × List Nat × List Nat) v B => (pySet st.1 v B, pySet st.2.1 v v, pySet st.2.2 v v))
    (by intro v s e; simp [sparseDiagBody])
    (by intro s e B hB; simp [sparseDiagBody, hB])
    (by intro s e err he; simp [sparseDiagBody, he])
    (fun st => finishBsr argsort g.nVertices n dtype st.1 st.2.1 st.2.2)
    (zerosN g.nVertices k k, List.replicate g.nVertices (0 : Nat), List.replicate g.nVertices (0 : Nat))
    (List.range g.nVertices)
  generalize forLoop (none, zerosN g.nVertices k k, List.replicate g.nVertices (0 : Nat),
    List.replicate g.nVertices (0 : Nat)) (List.range g.nVertices)
    (fun acc v => sparseDiagBody cinv X k nc bias acc v) = r at h ⊢
  obtain ⟨r1, r2⟩ := r
  cases r1 <;> simp only at h ⊢ <;> rw [h] <;> clear h
  all_goals rw [runFlag_eq]
  all_goals cases hcol : collectL (fun v => cinv (vertexCov X k bias v) nc) (List.range g.nVertices) with
  | error err => rfl
  | ok Bs =>
    simp only
    have hBs : ∀ B ∈ Bs, IsTab k k B := collectL_mem_range _ _ _ hc Bs hcol
    have hlen : Bs.length = g.nVertices := by rw [collectL_length _ _ Bs hcol]; simp
    have hf := sparseDiag_fold_write k Bs [] 0
    simp only [List.length_nil, List.nil_append, Nat.add_zero, List.range_zero, List.replicate_zero, List.append_nil,
      Nat.zero_add] at hf
    rw [List.range_eq_range', ← hlen]
    have hinit : (zerosN Bs.length k k, List.replicate Bs.length (0 : Nat), List.replicate Bs.length (0 : Nat)) =
        (List.replicate Bs.length (zerosRC k k), List.replicate Bs.length 0, List.replicate Bs.length 0) := rfl
    rw [hinit, hf]
    obtain ⟨d1, d2, d3⟩ := diagTrips_maps k Bs hBs 0
    simp only
    rw [← List.range_eq_range'] at d2 d3
    have := finishBsr_eq argsort Bs.length n dtype (diagTrips k 0 Bs)
    rw [d1, d2, d3] at this
    rw [this, d3]

/-! ### `return_covariances=True`: the same matrix, plus the covariances -/

theorem forLoop_sim {σ τ : Type} (R : σ → τ → Prop) (f : σ → Nat → σ) (g : τ → Nat → τ)
    (h : ∀ s t x, R s t → R (f s x) (g t x)) (s0 : σ) (t0 : τ) (xs : List Nat) (h0 : R s0 t0) :
    R (forLoop s0 xs f) (forLoop t0 xs g) := by
  induction xs generalizing s0 t0 with
  | nil => exact h0
  | cons x xs ih => rw [forLoop_cons, forLoop_cons]; exact ih _ _ (h _ _ x h0)

/-- the exit flags of the two variants of a loop agree (same error or none) -/
def FlagRel {ρ ρ' : Type} (a : Option (Except PyErr ρ)) (b : Option (Except PyErr ρ')) : Prop :=
  (a = none ∧ b = none) ∨ ∃ err, a = some (.error err) ∧ b = some (.error err)

/-- `_create_dense_precision(…, return_covariances=True)` returns the matrix of the plain call (or raises the same
error), paired with the covariances -/
theorem denseCodedRC_eq (cinv : Arr → Option Nat → Except PyErr Mat) (X : Mat) (g : GraphS) (n k : Nat) (mode : ModeS)
    (dtype : DType) (nc : Option Nat) (bias : Bool) :
    ∃ covs, denseCodedRC cinv X g n k mode dtype nc bias =
      (denseCoded cinv X g n k mode dtype nc bias).map fun P => (P, covs) := by
  unfold denseCodedRC denseCoded
  simp only [asDtype]
  cases modeKnown mode with
  | false => exact ⟨[], rfl⟩
  | true =>
    simp only [Bool.not_true, Bool.false_eq_true, if_false]
    have hs := forLoop_sim
      (fun (a : Option (Except PyErr (Mat × List Arr)) × Mat × List Arr) (b : Option (Except PyErr Mat) × Mat) =>
        a.2.1 = b.2 ∧ FlagRel a.1 b.1)
      (fun acc e => denseBodyRC cinv X g k mode nc bias acc e) (fun acc e => denseBody cinv X g k mode nc bias acc e)
      (by
        intro a b e ⟨h1, h2⟩
        obtain ⟨a1, a2, a3⟩ := a
        obtain ⟨b1, b2⟩ := b
        simp only at h1; subst h1
        rcases h2 with ⟨ha, hb⟩ | ⟨err, ha, hb⟩
        · simp only at ha hb; subst ha; subst hb
          unfold denseBodyRC denseBody
          simp only [Option.isSome_none, Bool.false_eq_true, if_false]
          cases cinv (edgeCov X g k mode bias e) nc with
          | error err => simp [FlagRel]
          | ok B => simp [FlagRel]
        · simp only at ha hb; subst ha; subst hb
          unfold denseBodyRC denseBody
          simp [FlagRel])
      (none, zerosRC n n, zeros3 (g.nEdges, covDimS mode k, covDimS mode k)) (none, zerosRC n n) (List.range g.nEdges)
      ⟨rfl, Or.inl ⟨rfl, rfl⟩⟩
    generalize forLoop (none, zerosRC n n, zeros3 (g.nEdges, covDimS mode k, covDimS mode k)) (List.range g.nEdges)
      (fun acc e => denseBodyRC cinv X g k mode nc bias acc e) = a at hs ⊢
    generalize forLoop (none, zerosRC n n) (List.range g.nEdges)
      (fun acc e => denseBody cinv X g k mode nc bias acc e) = b at hs ⊢
    obtain ⟨a1, a2, a3⟩ := a
    obtain ⟨b1, b2⟩ := b
    obtain ⟨h1, h2⟩ := hs
    simp only at h1 h2; subst h1
    refine ⟨a3, ?_⟩
    rcases h2 with ⟨ha, hb⟩ | ⟨err, ha, hb⟩
    · subst ha; subst hb; rfl
    · subst ha; subst hb; rfl

theorem sparseCodedRC_eq (cinv : Arr → Option Nat → Except PyErr Mat) (argsort : List Nat → List Nat) (X : Mat)
    (g : GraphS) (n k : Nat) (mode : ModeS) (dtype : DType) (nc : Option Nat) (bias : Bool) :
    ∃ covs, sparseCodedRC cinv argsort X g n k mode dtype nc bias =
      (sparseCoded cinv argsort X g n k mode dtype nc bias).map fun S => (S, covs) := by
  unfold sparseCodedRC sparseCoded
  simp only [asDtype]
  cases modeKnown mode with
  | false => exact ⟨[], rfl⟩
  | true =>
    simp only [Bool.not_true, Bool.false_eq_true, if_false]
    have hs := forLoop_sim
      (fun (a : Option (Except PyErr (BSR × List Arr)) × List Mat × List Arr × List Nat × List Nat × Int)
          (b : Option (Except PyErr BSR) × List Mat × List Nat × List Nat × Int) =>
        a.2.1 = b.2.1 ∧ a.2.2.2 = b.2.2 ∧ FlagRel a.1 b.1)
      (fun acc e => sparseBodyRC cinv X g k mode nc bias acc e) (fun acc e => sparseBody cinv X g k mode nc bias acc e)
      (by
        intro a b e ⟨h1, h2, h3⟩
        obtain ⟨a1, a2, a3, a4⟩ := a
        obtain ⟨b1, b2, b4⟩ := b
        simp only at h1 h2; subst h1; subst h2
        rcases h3 with ⟨ha, hb⟩ | ⟨err, ha, hb⟩
        · simp only at ha hb; subst ha; subst hb
          unfold sparseBodyRC sparseBody
          simp only [Option.isSome_none, Bool.false_eq_true, if_false]
          cases cinv (edgeCov X g k mode bias e) nc with
          | error err => simp [FlagRel]
          | ok B => simp [FlagRel]
        · simp only at ha hb; subst ha; subst hb
          unfold sparseBodyRC sparseBody
          simp [FlagRel])
      (none, zerosN (g.nEdges * 4) k k, zeros3 (g.nEdges, covDimS mode k, covDimS mode k),
        List.replicate (g.nEdges * 4) (0 : Nat), List.replicate (g.nEdges * 4) (0 : Nat), (-(1) : Int))
      (none, zerosN (g.nEdges * 4) k k, List.replicate (g.nEdges * 4) (0 : Nat), List.replicate (g.nEdges * 4) (0 : Nat),
        (-(1) : Int)) (List.range g.nEdges)
      ⟨rfl, rfl, Or.inl ⟨rfl, rfl⟩⟩
    generalize forLoop (none, zerosN (g.nEdges * 4) k k, zeros3 (g.nEdges, covDimS mode k, covDimS mode k),
      List.replicate (g.nEdges * 4) (0 : Nat), List.replicate (g.nEdges * 4) (0 : Nat), (-(1) : Int)) (List.range g.nEdges)
      (fun acc e => sparseBodyRC cinv X g k mode nc bias acc e) = a at hs ⊢
    generalize forLoop (none, zerosN (g.nEdges * 4) k k, List.replicate (g.nEdges * 4) (0 : Nat),
      List.replicate (g.nEdges * 4) (0 : Nat), (-(1) : Int)) (List.range g.nEdges)
      (fun acc e => sparseBody cinv X g k mode nc bias acc e) = b at hs ⊢
    obtain ⟨a1, a2, a3, a4⟩ := a
    obtain ⟨b1, b2, b4⟩ := b
    obtain ⟨h1, h2, h3⟩ := hs
    simp only at h1 h2 h3; subst h1; subst h2
    refine ⟨a3, ?_⟩
    rcases h3 with ⟨ha, hb⟩ | ⟨err, ha, hb⟩
    · subst ha; subst hb; rfl
    · subst ha; subst hb; rfl

theorem denseDiagCodedRC_eq (cinv : Arr → Option Nat → Except PyErr Mat) (X : Mat) (g : GraphS) (n k : Nat)
    (dtype : DType) (nc : Option Nat) (bias : Bool) :
    ∃ covs, denseDiagCodedRC cinv X g n k dtype nc bias =
      (denseDiagCoded cinv X g n k dtype nc bias).map fun P => (P, covs) := by
  unfold denseDiagCodedRC denseDiagCoded
  simp only [asDtype]
  have hs := forLoop_sim
    (fun (a : Option (Except PyErr (Mat × List Arr)) × Mat × List Arr) (b : Option (Except PyErr Mat) × Mat) =>
      a.2.1 = b.2 ∧ FlagRel a.1 b.1)
    (fun acc v => denseDiagBodyRC cinv X k nc bias acc v) (fun acc v => denseDiagBody cinv X k nc bias acc v)
    (by
      intro a b e ⟨h1, h2⟩
      obtain ⟨a1, a2, a3⟩ := a
      obtain ⟨b1, b2⟩ := b
      simp only at h1; subst h1
      rcases h2 with ⟨ha, hb⟩ | ⟨err, ha, hb⟩
      · simp only at ha hb; subst ha; subst hb
        unfold denseDiagBodyRC denseDiagBody
        simp only [Option.isSome_none, Bool.false_eq_true, if_false]
        cases cinv (vertexCov X k bias e) nc with
        | error err => simp [FlagRel]
        | ok B => simp [FlagRel]
      · simp only at ha hb; subst ha; subst hb
        unfold denseDiagBodyRC denseDiagBody
        simp [FlagRel])
    (none, zerosRC n n, zerosN g.nVertices k k) (none, zerosRC n n) (List.range g.nVertices)
    ⟨rfl, Or.inl ⟨rfl, rfl⟩⟩
  generalize forLoop (none, zerosRC n n, zerosN g.nVertices k k) (List.range g.nVertices)
    (fun acc v => denseDiagBodyRC cinv X k nc bias acc v) = a at hs ⊢
  generalize forLoop (none, zerosRC n n) (List.range g.nVertices)
    (fun acc v => denseDiagBody cinv X k nc bias acc v) = b at hs ⊢
  obtain ⟨a1, a2, a3⟩ := a
  obtain ⟨b1, b2⟩ := b
  obtain ⟨h1, h2⟩ := hs
  simp only at h1 h2; subst h1
  refine ⟨a3, ?_⟩
  rcases h2 with ⟨ha, hb⟩ | ⟨err, ha, hb⟩
  · subst ha; subst hb; rfl
  · subst ha; subst hb; rfl

theorem sparseDiagCodedRC_eq (cinv : Arr → Option Nat → Except PyErr Mat) (argsort : List Nat → List Nat) (X : Mat)
    (g : GraphS) (n k : Nat) (dtype : DType) (nc : Option Nat) (bias : Bool) :
    ∃ covs, sparseDiagCodedRC cinv argsort X g n k dtype nc bias =
      (sparseDiagCoded cinv argsort X g n k dtype nc bias).map fun S => (S, covs) := by
  unfold sparseDiagCodedRC sparseDiagCoded
  simp only [asDtype]
  have hs := forLoop_sim
    (fun (a : Option (Except PyErr (BSR × List Arr)) × List Mat × List Arr × List Nat × List Nat)
        (b : Option (Except PyErr BSR) × List Mat × List Nat × List Nat) =>
      a.2.1 = b.2.1 ∧ a.2.2.2 = b.2.2 ∧ FlagRel a.1 b.1)
    (fun acc v => sparseDiagBodyRC cinv X k nc bias acc v) (fun acc v => sparseDiagBody cinv X k nc bias acc v)
    (by
      intro a b e ⟨h1, h2, h3⟩
      obtain ⟨a1, a2, a3, a4⟩ := a
      obtain ⟨b1, b2, b4⟩ := b
      simp only at h1 h2; subst h1; subst h2
      rcases h3 with ⟨ha, hb⟩ | ⟨err, ha, hb⟩
      · simp only at ha hb; subst ha; subst hb
        unfold sparseDiagBodyRC sparseDiagBody
        simp only [Option.isSome_none, Bool.false_eq_true, if_false]
        cases cinv (vertexCov X k bias e) nc with
        | error err => simp [FlagRel]
        | ok B => simp [FlagRel]
      · simp only at ha hb; subst ha; subst hb
        unfold sparseDiagBodyRC sparseDiagBody
        simp [FlagRel])
    (none, zerosN g.nVertices k k, zerosN g.nVertices k k, List.replicate g.nVertices (0 : Nat),
      List.replicate g.nVertices (0 : Nat))
    (none, zerosN g.nVertices k k, List.replicate g.nVertices (0 : Nat), List.replicate g.nVertices (0 : Nat))
    (List.range g.nVertices) ⟨rfl, rfl, Or.inl ⟨rfl, rfl⟩⟩
  generalize forLoop (none, zerosN g.nVertices k k, zerosN g.nVertices k k, List.replicate g.nVertices (0 : Nat),
    List.replicate g.nVertices (0 : Nat)) (List.range g.nVertices)
    (fun acc v => sparseDiagBodyRC cinv X k nc bias acc v) = a at hs ⊢
  generalize forLoop (none, zerosN g.nVertices k k, List.replicate g.nVertices (0 : Nat),
    List.replicate g.nVertices (0 : Nat)) (List.range g.nVertices)
    (fun acc v => sparseDiagBody cinv X k nc bias acc v) = b at hs ⊢
  obtain ⟨a1, a2, a3, a4⟩ := a
  obtain ⟨b1, b2, b4⟩ := b
  obtain ⟨h1, h2, h3⟩ := hs
  simp only at h1 h2 h3; subst h1; subst h2
  refine ⟨a3, ?_⟩
  rcases h3 with ⟨ha, hb⟩ | ⟨err, ha, hb⟩
  · subst ha; subst hb; rfl
  · subst ha; subst hb; rfl

end MenpoModel.C12.Src
