/-
C12 — rank truncation (`n_components`).

* matrix level (Mathlib matrices over `Fin d`): `sandwich_mul`, `complete_of_orth`, and the theorem that
  the coded truncated-SVD formula `U_r · diag(1/s_r) · Vh_r` under numpy's SVD contract equals the
  truncated pseudo-inverse built from *any* orthogonal eigen-decomposition of the same symmetric matrix
  (`svd_eq_spec_matrix`) — the spectral projector on the leading eigenvalues is unique;
* list level (the executable model): `IsSpec`, `Cut`, `IsSVD`, `IsProd`, bridges `toM_gram`,
  `toM_svdTrunc`, soundness of the model's certificate check `checkSpec_sound`, the Moore–Penrose style
  identities of `specTrunc`, monotonicity in the rank, full rank = inverse.
-/
import MenpoModel.Lemmas.C12Inv

set_option linter.unusedSimpArgs false
set_option linter.unusedVariables false

namespace MenpoModel.C12
open Finset Matrix

/-! ### matrix level -/

section MatrixLevel
variable {d : Nat}

theorem sandwich_mul (W : Matrix (Fin d) (Fin d) ℚ) (n D1 D2 : Fin d → ℚ) (hW : W * Wᵀ = diagonal n) :
    (Wᵀ * diagonal D1 * W) * (Wᵀ * diagonal D2 * W) =
      Wᵀ * diagonal (fun i => D1 i * n i * D2 i) * W := by
  have h3 : diagonal D1 * diagonal n * diagonal D2 = diagonal (fun i => D1 i * n i * D2 i) := by
    rw [diagonal_mul_diagonal, diagonal_mul_diagonal]
  calc (Wᵀ * diagonal D1 * W) * (Wᵀ * diagonal D2 * W)
      = Wᵀ * (diagonal D1 * (W * Wᵀ) * diagonal D2) * W := by simp only [Matrix.mul_assoc]
    _ = Wᵀ * diagonal (fun i => D1 i * n i * D2 i) * W := by rw [hW, h3]

/-- `d` pairwise orthogonal non-zero vectors of `ℚ^d` are complete: `Σ w_i w_iᵀ/‖w_i‖² = 1` -/
theorem complete_of_orth (W : Matrix (Fin d) (Fin d) ℚ) (n : Fin d → ℚ) (hW : W * Wᵀ = diagonal n)
    (hn : ∀ i, n i ≠ 0) : Wᵀ * diagonal (fun i => 1 / n i) * W = 1 := by
  have h1 : (diagonal (fun i => 1 / n i) * W) * Wᵀ = 1 := by
    rw [Matrix.mul_assoc, hW, diagonal_mul_diagonal]
    have : (fun i => 1 / n i * n i) = fun _ => (1 : ℚ) := by
      funext i; field_simp [hn i]
    rw [this, diagonal_one]
  have h2 := mul_eq_one_comm.1 h1
  rw [Matrix.mul_assoc]; exact h2

theorem diag_congr (a b : Fin d → ℚ) (h : ∀ i, a i = b i) : (diagonal a : Matrix (Fin d) (Fin d) ℚ) = diagonal b := by
  rw [funext h]

/-- if `A·C² = S²·A` and `C·Wᵀ = Wᵀ·Σ`, the cross Gram matrix `A·Wᵀ` cannot mix the part above the cut
with the part below it -/
theorem cross_commute (C A W : Matrix (Fin d) (Fin d) ℚ) (s σ : Fin d → ℚ) (r : Nat) (τ : ℚ)
    (hA : A * (C * C) = diagonal (fun i => s i * s i) * A)
    (hCW : C * Wᵀ = Wᵀ * diagonal σ)
    (hs0 : ∀ i, 0 ≤ s i) (hσ0 : ∀ i, 0 ≤ σ i) (hτ : 0 ≤ τ)
    (hcs : ∀ i : Fin d, (i.val < r → τ < s i) ∧ (r ≤ i.val → s i ≤ τ))
    (hcσ : ∀ i : Fin d, (i.val < r → τ < σ i) ∧ (r ≤ i.val → σ i ≤ τ)) :
    diagonal (fun i : Fin d => if i.val < r then (1 : ℚ) else 0) * (A * Wᵀ) =
      (A * Wᵀ) * diagonal (fun i : Fin d => if i.val < r then (1 : ℚ) else 0) := by
  have hCCW : C * C * Wᵀ = Wᵀ * diagonal (fun i => σ i * σ i) := by
    rw [Matrix.mul_assoc, hCW, ← Matrix.mul_assoc, hCW, Matrix.mul_assoc, diagonal_mul_diagonal]
  have key : diagonal (fun i => s i * s i) * (A * Wᵀ) = (A * Wᵀ) * diagonal (fun i => σ i * σ i) := by
    rw [← Matrix.mul_assoc, ← hA, Matrix.mul_assoc, hCCW, ← Matrix.mul_assoc]
  ext i j
  have kij := congrFun (congrFun key i) j
  rw [diagonal_mul, mul_diagonal] at kij
  rw [diagonal_mul, mul_diagonal]
  by_cases hi : i.val < r
  · by_cases hj : j.val < r
    · simp [hi, hj]
    · have h1 := (hcs i).1 hi
      have h2 := (hcσ j).2 (by omega)
      have h3 := hσ0 j
      have hlt : σ j * σ j < s i * s i := by nlinarith
      have : (A * Wᵀ) i j = 0 := by
        by_contra hne
        have : (s i * s i - σ j * σ j) * (A * Wᵀ) i j = 0 := by linarith
        rcases mul_eq_zero.1 this with h | h
        · linarith
        · exact hne h
      simp [hi, hj, this]
  · by_cases hj : j.val < r
    · have h1 := (hcs i).2 (by omega)
      have h2 := (hcσ j).1 hj
      have h3 := hs0 i
      have hlt : s i * s i < σ j * σ j := by nlinarith
      have : (A * Wᵀ) i j = 0 := by
        by_contra hne
        have : (s i * s i - σ j * σ j) * (A * Wᵀ) i j = 0 := by linarith
        rcases mul_eq_zero.1 this with h | h
        · linarith
        · exact hne h
      simp [hi, hj, this]
    · simp [hi, hj]

/-- the projector on the leading part of an orthonormal frame `A` equals the spectral projector -/
theorem proj_unique (A W : Matrix (Fin d) (Fin d) ℚ) (n E : Fin d → ℚ)
    (hAA : Aᵀ * A = 1) (hcomp : Wᵀ * diagonal (fun i => 1 / n i) * W = 1)
    (hcomm : diagonal E * (A * Wᵀ) = (A * Wᵀ) * diagonal E) :
    Aᵀ * diagonal E * A = Wᵀ * diagonal (fun i => E i * (1 / n i)) * W := by
  calc Aᵀ * diagonal E * A
      = Aᵀ * diagonal E * A * (Wᵀ * diagonal (fun i => 1 / n i) * W) := by rw [hcomp, Matrix.mul_one]
    _ = Aᵀ * (diagonal E * (A * Wᵀ)) * diagonal (fun i => 1 / n i) * W := by simp only [Matrix.mul_assoc]
    _ = Aᵀ * ((A * Wᵀ) * diagonal E) * diagonal (fun i => 1 / n i) * W := by rw [hcomm]
    _ = (Aᵀ * A) * Wᵀ * (diagonal E * diagonal (fun i => 1 / n i)) * W := by simp only [Matrix.mul_assoc]
    _ = Wᵀ * diagonal (fun i => E i * (1 / n i)) * W := by
        rw [hAA, Matrix.one_mul, diagonal_mul_diagonal]

/-- **the coded truncated-SVD inverse is the truncated pseudo-inverse.**  `C` symmetric; numpy's contract
`C = U·diag(s)·Vh` with orthogonal `U`, `Vh` and `s ≥ 0`; any orthogonal eigen-decomposition
`C = Σ σ_i w_i w_iᵀ/n_i` (rows of `W`, `n_i = ‖w_i‖²`); a threshold `τ` that separates the first `r`
values of both `s` and `σ` from the rest.  Then `U[:, :r]·diag(1/s[:r])·Vh[:r, :]` equals
`Σ_{i<r} w_i w_iᵀ/(σ_i n_i)`. -/
theorem svd_eq_spec_matrix (C U Vh W : Matrix (Fin d) (Fin d) ℚ) (s σ n : Fin d → ℚ) (r : Nat) (τ : ℚ)
    (hC : Cᵀ = C) (hU : Uᵀ * U = 1) (hV : Vh * Vhᵀ = 1) (hsvd : C = U * diagonal s * Vh)
    (hW : W * Wᵀ = diagonal n) (hn : ∀ i, n i ≠ 0)
    (hspec : C = Wᵀ * diagonal (fun i => σ i / n i) * W)
    (hs0 : ∀ i, 0 ≤ s i) (hσ0 : ∀ i, 0 ≤ σ i) (hτ : 0 ≤ τ)
    (hcs : ∀ i : Fin d, (i.val < r → τ < s i) ∧ (r ≤ i.val → s i ≤ τ))
    (hcσ : ∀ i : Fin d, (i.val < r → τ < σ i) ∧ (r ≤ i.val → σ i ≤ τ)) :
    U * diagonal (fun i => if i.val < r then 1 / s i else 0) * Vh =
      Wᵀ * diagonal (fun i => if i.val < r then 1 / (σ i * n i) else 0) * W := by
  set E : Fin d → ℚ := fun i => if i.val < r then (1 : ℚ) else 0 with hE
  have hU' : U * Uᵀ = 1 := mul_eq_one_comm.1 hU
  have hV' : Vhᵀ * Vh = 1 := mul_eq_one_comm.1 hV
  have hcomp := complete_of_orth W n hW hn
  have hCW : C * Wᵀ = Wᵀ * diagonal σ := by
    rw [hspec, Matrix.mul_assoc, hW, Matrix.mul_assoc, diagonal_mul_diagonal]
    congr 1
    apply diag_congr; intro i; field_simp [hn i]
  have hCt : C = Vhᵀ * diagonal s * Uᵀ := by
    calc C = Cᵀ := hC.symm
      _ = (U * diagonal s * Vh)ᵀ := by rw [← hsvd]
      _ = Vhᵀ * diagonal s * Uᵀ := by
          rw [transpose_mul, transpose_mul, diagonal_transpose, Matrix.mul_assoc]
  have hVC : Vh * (C * C) = diagonal (fun i => s i * s i) * Vh := by
    calc Vh * (C * C) = Vh * ((Vhᵀ * diagonal s * Uᵀ) * (U * diagonal s * Vh)) := by rw [← hCt, ← hsvd]
      _ = (Vh * Vhᵀ) * diagonal s * (Uᵀ * U) * diagonal s * Vh := by simp only [Matrix.mul_assoc]
      _ = diagonal (fun i => s i * s i) * Vh := by
          rw [hV, hU, Matrix.one_mul, Matrix.mul_one, diagonal_mul_diagonal]
  have hUC : Uᵀ * (C * C) = diagonal (fun i => s i * s i) * Uᵀ := by
    calc Uᵀ * (C * C) = Uᵀ * ((U * diagonal s * Vh) * (Vhᵀ * diagonal s * Uᵀ)) := by rw [← hCt, ← hsvd]
      _ = (Uᵀ * U) * diagonal s * (Vh * Vhᵀ) * diagonal s * Uᵀ := by simp only [Matrix.mul_assoc]
      _ = diagonal (fun i => s i * s i) * Uᵀ := by
          rw [hV, hU, Matrix.one_mul, Matrix.mul_one, diagonal_mul_diagonal]
  have hPV : Vhᵀ * diagonal E * Vh = Wᵀ * diagonal (fun i => E i * (1 / n i)) * W :=
    proj_unique Vh W n E hV' hcomp (cross_commute C Vh W s σ r τ hVC hCW hs0 hσ0 hτ hcs hcσ)
  have hPU : U * diagonal E * Uᵀ = Wᵀ * diagonal (fun i => E i * (1 / n i)) * W := by
    have := proj_unique Uᵀ W n E (by rw [transpose_transpose]; exact hU') hcomp
      (cross_commute C Uᵀ W s σ r τ hUC hCW hs0 hσ0 hτ hcs hcσ)
    rw [transpose_transpose] at this
    exact this
  set Bc := U * diagonal (fun i => if i.val < r then 1 / s i else 0) * Vh with hBc
  set Bs := Wᵀ * diagonal (fun i => if i.val < r then 1 / (σ i * n i) else 0) * W with hBs
  -- Bc = Bc · P_V
  have step1 : Bc = Bc * (Vhᵀ * diagonal E * Vh) := by
    calc Bc = U * (diagonal (fun i => if i.val < r then 1 / s i else 0) * diagonal E) * Vh := by
            rw [diagonal_mul_diagonal, hBc]
            congr 2
            apply diag_congr; intro i
            by_cases hi : i.val < r <;> simp [hE, hi]
      _ = U * diagonal (fun i => if i.val < r then 1 / s i else 0) * (Vh * Vhᵀ) * diagonal E * Vh := by
            rw [hV, Matrix.mul_one]; simp only [Matrix.mul_assoc]
      _ = Bc * (Vhᵀ * diagonal E * Vh) := by rw [hBc]; simp only [Matrix.mul_assoc]
  -- Π = C · Bs
  have step2 : Wᵀ * diagonal (fun i => E i * (1 / n i)) * W = C * Bs := by
    rw [hBs]
    conv_rhs => rw [hspec]
    rw [sandwich_mul W n _ _ hW]
    congr 2
    apply diag_congr; intro i
    by_cases hi : i.val < r
    · have hσi : σ i ≠ 0 := by have := (hcσ i).1 hi; intro h; rw [h] at this; linarith
      simp only [hE, hi, if_true]
      field_simp [hn i, hσi]
    · simp [hE, hi]
  -- Bc · C = P_U
  have step3 : Bc * C = U * diagonal E * Uᵀ := by
    calc Bc * C = U * diagonal (fun i => if i.val < r then 1 / s i else 0) * Vh * (Vhᵀ * diagonal s * Uᵀ) := by
            rw [← hCt]
      _ = U * (diagonal (fun i => if i.val < r then 1 / s i else 0) * diagonal s) * Uᵀ := by
            have : U * diagonal (fun i => if i.val < r then 1 / s i else 0) * Vh * (Vhᵀ * diagonal s * Uᵀ) =
                U * diagonal (fun i => if i.val < r then 1 / s i else 0) * (Vh * Vhᵀ) * diagonal s * Uᵀ := by
              simp only [Matrix.mul_assoc]
            rw [this, hV, Matrix.mul_one]; simp only [Matrix.mul_assoc]
      _ = U * diagonal E * Uᵀ := by
            rw [diagonal_mul_diagonal]
            congr 2
            apply diag_congr; intro i
            by_cases hi : i.val < r
            · have hsi : s i ≠ 0 := by have := (hcs i).1 hi; intro h; rw [h] at this; linarith
              simp only [hE, hi, if_true]
              field_simp [hsi]
            · simp [hE, hi]
  -- Π · Bs = Bs
  have step4 : (Wᵀ * diagonal (fun i => E i * (1 / n i)) * W) * Bs = Bs := by
    rw [hBs, sandwich_mul W n _ _ hW]
    congr 2
    apply diag_congr; intro i
    by_cases hi : i.val < r
    · simp only [hE, hi, if_true]
      field_simp [hn i]
    · simp [hE, hi]
  calc Bc = Bc * (Vhᵀ * diagonal E * Vh) := step1
    _ = Bc * (C * Bs) := by rw [hPV, step2]
    _ = (Bc * C) * Bs := (Matrix.mul_assoc Bc C Bs).symm
    _ = (Wᵀ * diagonal (fun i => E i * (1 / n i)) * W) * Bs := by rw [step3, hPU]
    _ = Bs := step4

/-- full rank: the coded formula `U·diag(1/s)·Vh` inverts a symmetric matrix (for a non-symmetric one it
would give the transposed inverse) -/
theorem svd_full_inv_matrix (C U Vh : Matrix (Fin d) (Fin d) ℚ) (s : Fin d → ℚ)
    (hC : Cᵀ = C) (hU : Uᵀ * U = 1) (hV : Vh * Vhᵀ = 1) (hsvd : C = U * diagonal s * Vh)
    (hs : ∀ i, s i ≠ 0) : C * (U * diagonal (fun i => 1 / s i) * Vh) = 1 := by
  have hV' : Vhᵀ * Vh = 1 := mul_eq_one_comm.1 hV
  have hCt : C = Vhᵀ * diagonal s * Uᵀ := by
    calc C = Cᵀ := hC.symm
      _ = (U * diagonal s * Vh)ᵀ := by rw [← hsvd]
      _ = Vhᵀ * diagonal s * Uᵀ := by
          rw [transpose_mul, transpose_mul, diagonal_transpose, Matrix.mul_assoc]
  calc C * (U * diagonal (fun i => 1 / s i) * Vh)
      = Vhᵀ * diagonal s * Uᵀ * (U * diagonal (fun i => 1 / s i) * Vh) := by rw [← hCt]
    _ = Vhᵀ * (diagonal s * (Uᵀ * U) * diagonal (fun i => 1 / s i)) * Vh := by simp only [Matrix.mul_assoc]
    _ = 1 := by
        rw [hU, Matrix.mul_one, diagonal_mul_diagonal]
        have : (fun i => s i * (1 / s i)) = fun _ => (1 : ℚ) := by
          funext i; field_simp [hs i]
        rw [this, diagonal_one, Matrix.mul_one, hV']

end MatrixLevel

/-! ### list level: contracts -/

/-- rational eigen-decomposition of the leading `d × d` part of `C`: the rows of `W` are pairwise
orthogonal and non-zero, `C = Σ σ_i w_i w_iᵀ/‖w_i‖²`, `σ ≥ 0` -/
structure IsSpec (d : Nat) (C : Mat) (sig : List Rat) (W : Mat) : Prop where
  orth : ∀ i j, i < d → j < d → i ≠ j → rowDot d W i j = 0
  nz : ∀ i, i < d → rowDot d W i i ≠ 0
  recon : ∀ p q, p < d → q < d → ent C p q = ent (specCov d sig W) p q
  nonneg : ∀ i, i < d → 0 ≤ sig.getD i 0

/-- `τ ≥ 0` separates the first `r` values from the rest -/
def Cut (d r : Nat) (sig : List Rat) (τ : Rat) : Prop :=
  0 ≤ τ ∧ (∀ i, i < r → i < d → τ < sig.getD i 0) ∧ (∀ i, r ≤ i → i < d → sig.getD i 0 ≤ τ)

/-- numpy's contract for `U, s, Vh = np.linalg.svd(C)` on the leading `d × d` parts -/
structure IsSVD (d : Nat) (C U : Mat) (s : List Rat) (Vh : Mat) : Prop where
  orthU : ∀ a b, a < d → b < d → sumTo d (fun l => ent U l a * ent U l b) = if a = b then 1 else 0
  orthV : ∀ a b, a < d → b < d → sumTo d (fun l => ent Vh a l * ent Vh b l) = if a = b then 1 else 0
  recon : ∀ i j, i < d → j < d → ent C i j = sumTo d (fun l => ent U i l * s.getD l 0 * ent Vh l j)
  nonneg : ∀ i, i < d → 0 ≤ s.getD i 0

/-- `A · B = P` on the leading `d × d` parts -/
def IsProd (d : Nat) (A B P : Mat) : Prop :=
  ∀ i j, i < d → j < d → sumTo d (fun l => ent A i l * ent B l j) = ent P i j

/-! ### bridges -/

theorem toM_mul_apply (d : Nat) (A B : Mat) (i j : Fin d) :
    (toM d A * toM d B) i j = sumTo d (fun l => ent A i.val l * ent B l j.val) := by
  rw [Matrix.mul_apply, sumTo_eq]
  unfold toM
  simp only [Matrix.of_apply]
  rw [Fin.sum_univ_eq_sum_range (fun l => ent A i.val l * ent B l j.val) d]

theorem isProd_iff (d : Nat) (A B P : Mat) : IsProd d A B P ↔ toM d A * toM d B = toM d P := by
  constructor
  · intro h; ext i j
    rw [toM_mul_apply, h i.val j.val i.isLt j.isLt]; rfl
  · intro h i j hi hj
    have := congrFun (congrFun h ⟨i, hi⟩) ⟨j, hj⟩
    rw [toM_mul_apply] at this
    exact this

theorem toM_ext (d : Nat) (A B : Mat) (h : toM d A = toM d B) (i j : Nat) (hi : i < d) (hj : j < d) :
    ent A i j = ent B i j := by
  have := congrFun (congrFun h ⟨i, hi⟩) ⟨j, hj⟩
  exact this

theorem sum_range_indicator (R d : Nat) (h : R ≤ d) (f : Nat → Rat) :
    ∑ i ∈ range d, (if i < R then f i else 0) = ∑ i ∈ range R, f i := by
  rw [← Finset.sum_filter]
  apply Finset.sum_congr
  · ext i; simp only [Finset.mem_filter, Finset.mem_range]; omega
  · intro _ _; rfl

/-- a Gram form over the first `R ≤ d` rows of `W` as a matrix product -/
theorem toM_gram (d R : Nat) (hR : R ≤ d) (w : Nat → Rat) (W : Mat) :
    toM d (gram d R w (ent W)) =
      (toM d W)ᵀ * diagonal (fun i : Fin d => if i.val < R then w i.val else 0) * toM d W := by
  ext p q
  rw [Matrix.mul_apply]
  simp only [mul_diagonal, transpose_apply]
  unfold toM gram
  simp only [Matrix.of_apply]
  rw [ent_tab, if_pos ⟨p.isLt, q.isLt⟩, sumTo_eq,
    Fin.sum_univ_eq_sum_range (fun i => ent W i p.val * (if i < R then w i else 0) * ent W i q.val) d,
    ← sum_range_indicator R d hR]
  apply Finset.sum_congr rfl; intro i _
  by_cases hi : i < R
  · simp only [hi, if_true]; ring
  · simp [hi]

theorem toM_svdTrunc (d nc : Nat) (U : Mat) (s : List Rat) (Vh : Mat) :
    toM d (svdTrunc d nc U s Vh) =
      toM d U * diagonal (fun i : Fin d => if i.val < min nc d then 1 / s.getD i.val 0 else 0) * toM d Vh := by
  ext p q
  rw [Matrix.mul_apply]
  simp only [mul_diagonal]
  unfold toM svdTrunc
  simp only [Matrix.of_apply]
  rw [ent_tab, if_pos ⟨p.isLt, q.isLt⟩, sumTo_eq,
    Fin.sum_univ_eq_sum_range
      (fun i => ent U p.val i * (if i < min nc d then 1 / s.getD i 0 else 0) * ent Vh i q.val) d,
    ← sum_range_indicator (min nc d) d (Nat.min_le_right _ _)]
  apply Finset.sum_congr rfl; intro i _
  by_cases hi : i < min nc d
  · simp only [hi, if_true]
  · simp [hi]

theorem toM_transpose_of_symm (d : Nat) (C : Mat) (hC : Symm d C) : (toM d C)ᵀ = toM d C := by
  ext i j
  simp only [transpose_apply, toM, Matrix.of_apply]
  exact hC j.val i.val j.isLt i.isLt

/-- `W·Wᵀ = diag(‖w_i‖²)` -/
theorem isSpec_orth_toM (d : Nat) (C : Mat) (sig : List Rat) (W : Mat) (h : IsSpec d C sig W) :
    toM d W * (toM d W)ᵀ = diagonal (fun i : Fin d => rowDot d W i.val i.val) := by
  ext i j
  rw [Matrix.mul_apply]
  simp only [transpose_apply, toM, Matrix.of_apply]
  rw [Fin.sum_univ_eq_sum_range (fun l => ent W i.val l * ent W j.val l) d, ← sumTo_eq]
  by_cases hij : i = j
  · subst hij; simp [rowDot]
  · rw [diagonal_apply_ne _ hij]
    have : i.val ≠ j.val := fun h' => hij (Fin.ext h')
    exact h.orth i.val j.val i.isLt j.isLt this

theorem isSpec_recon_toM (d : Nat) (C : Mat) (sig : List Rat) (W : Mat) (h : IsSpec d C sig W) :
    toM d C = (toM d W)ᵀ * diagonal (fun i : Fin d => sig.getD i.val 0 / rowDot d W i.val i.val) * toM d W := by
  have e := toM_gram d d (Nat.le_refl d) (fun i => sig.getD i 0 / rowDot d W i i) W
  have e2 : (fun i : Fin d => if i.val < d then sig.getD i.val 0 / rowDot d W i.val i.val else 0) =
      fun i : Fin d => sig.getD i.val 0 / rowDot d W i.val i.val := by
    funext i; simp [i.isLt]
  rw [e2] at e
  rw [← e]
  ext i j
  exact h.recon i.val j.val i.isLt j.isLt

theorem isSVD_U_toM (d : Nat) (C U : Mat) (s : List Rat) (Vh : Mat) (h : IsSVD d C U s Vh) :
    (toM d U)ᵀ * toM d U = 1 := by
  ext a b
  rw [Matrix.mul_apply, Matrix.one_apply]
  simp only [transpose_apply, toM, Matrix.of_apply]
  rw [Fin.sum_univ_eq_sum_range (fun l => ent U l a.val * ent U l b.val) d, ← sumTo_eq,
    h.orthU a.val b.val a.isLt b.isLt]
  simp [Fin.ext_iff]

theorem isSVD_V_toM (d : Nat) (C U : Mat) (s : List Rat) (Vh : Mat) (h : IsSVD d C U s Vh) :
    toM d Vh * (toM d Vh)ᵀ = 1 := by
  ext a b
  rw [Matrix.mul_apply, Matrix.one_apply]
  simp only [transpose_apply, toM, Matrix.of_apply]
  rw [Fin.sum_univ_eq_sum_range (fun l => ent Vh a.val l * ent Vh b.val l) d, ← sumTo_eq,
    h.orthV a.val b.val a.isLt b.isLt]
  simp [Fin.ext_iff]

theorem isSVD_recon_toM (d : Nat) (C U : Mat) (s : List Rat) (Vh : Mat) (h : IsSVD d C U s Vh) :
    toM d C = toM d U * diagonal (fun i : Fin d => s.getD i.val 0) * toM d Vh := by
  ext i j
  rw [Matrix.mul_apply]
  simp only [mul_diagonal, toM, Matrix.of_apply]
  rw [Fin.sum_univ_eq_sum_range (fun l => ent U i.val l * s.getD l 0 * ent Vh l j.val) d, ← sumTo_eq]
  exact h.recon i.val j.val i.isLt j.isLt

/-! ### the model's certificate check is sound -/

theorem allLt_true (n : Nat) (p : Nat → Bool) (h : allLt n p = true) (i : Nat) (hi : i < n) : p i = true := by
  unfold allLt at h
  rw [List.all_eq_true] at h
  exact h i (List.mem_range.2 hi)

theorem sorted_le (d : Nat) (sig : List Rat) (hs : ∀ i, i + 1 < d → sig.getD (i + 1) 0 ≤ sig.getD i 0) :
    ∀ j i, i ≤ j → j < d → sig.getD j 0 ≤ sig.getD i 0 := by
  intro j
  induction j with
  | zero => intro i hi _; have : i = 0 := by omega
            subst this; exact le_refl _
  | succ j ih =>
    intro i hi hj
    by_cases h : i = j + 1
    · subst h; exact le_refl _
    · exact le_trans (hs j hj) (ih i (by omega) (by omega))

theorem checkSpec_sound (C : Mat) (d nc : Nat) (sig : List Rat) (W : Mat) (h : checkSpec C d nc sig W = true) :
    IsSpec d C sig W ∧ ∃ τ, Cut d (min nc d) sig τ := by
  unfold checkSpec at h
  simp only [Bool.and_eq_true, decide_eq_true_eq] at h
  obtain ⟨⟨⟨⟨⟨⟨h1, h2⟩, h3⟩, h4⟩, h5⟩, h6⟩, h7⟩ := h
  have nonneg : ∀ i, i < d → 0 ≤ sig.getD i 0 := by
    intro i hi; simpa using allLt_true d _ h4 i hi
  have sorted : ∀ i, i + 1 < d → sig.getD (i + 1) 0 ≤ sig.getD i 0 := by
    intro i hi
    have := allLt_true d _ h5 i (by omega)
    simp only [decide_eq_true_eq] at this
    exact this hi
  refine ⟨⟨?_, ?_, ?_, nonneg⟩, ?_⟩
  · intro i j hi hj hij
    have := allLt_true d _ (allLt_true d _ h1 i hi) j hj
    simp only [decide_eq_true_eq] at this
    rcases this with h | h
    · exact absurd h hij
    · exact h
  · intro i hi; simpa using allLt_true d _ h2 i hi
  · intro p q hp hq
    have := allLt_true d _ (allLt_true d _ h3 p hp) q hq
    simpa using this
  · have sl := sorted_le d sig sorted
    by_cases hr : min nc d < d
    · refine ⟨sig.getD (min nc d) 0, nonneg _ hr, ?_, ?_⟩
      · intro i hi _
        have h0 : 0 < min nc d := by omega
        exact lt_of_lt_of_le (h7 h0 hr) (sl (min nc d - 1) i (by omega) (by omega))
      · intro i hi hid
        exact sl i (min nc d) hi hid
    · have hrd : min nc d = d := by have := Nat.min_le_right nc d; omega
      refine ⟨0, le_refl _, ?_, ?_⟩
      · intro i hi hid
        have h0 : 0 < min nc d := by omega
        exact lt_of_lt_of_le (h6 h0) (sl (min nc d - 1) i (by omega) (by omega))
      · intro i hi hid; omega

/-! ### the truncated pseudo-inverse of a verified eigen-decomposition -/

theorem rowDot_nonneg (d : Nat) (W : Mat) (i : Nat) : 0 ≤ rowDot d W i i := by
  unfold rowDot
  rw [sumTo_eq]
  apply Finset.sum_nonneg; intro p _; exact mul_self_nonneg _

/-- symmetric and positive semi-definite -/
theorem specTrunc_symm_psd (d nc : Nat) (C : Mat) (sig : List Rat) (W : Mat) (h : IsSpec d C sig W) :
    Symm d (specTrunc d nc sig W) ∧ PSD d (specTrunc d nc sig W) := by
  unfold specTrunc
  refine ⟨gram_symm _ _ _ _, gram_psd _ _ _ _ ?_⟩
  intro r hr
  have hrd : r < d := lt_of_lt_of_le hr (Nat.min_le_right _ _)
  exact div_nonneg (by norm_num) (mul_nonneg (h.nonneg r hrd) (rowDot_nonneg d W r))

theorem specProj_symm (d nc : Nat) (W : Mat) : Symm d (specProj d nc W) := by
  unfold specProj; exact gram_symm _ _ _ _

/-- `C·B = B·C = Π`, `Π·B = B` (hence `B·C·B = B`), `Π·Π = Π`, `C·Π = Π·C`:
`B` inverts `C` on the span of the kept eigenvectors and vanishes on its complement -/
theorem specTrunc_identities (d nc : Nat) (C : Mat) (sig : List Rat) (W : Mat) (h : IsSpec d C sig W)
    (hpos : ∀ i, i < min nc d → sig.getD i 0 ≠ 0) :
    IsProd d C (specTrunc d nc sig W) (specProj d nc W) ∧
    IsProd d (specTrunc d nc sig W) C (specProj d nc W) ∧
    IsProd d (specProj d nc W) (specTrunc d nc sig W) (specTrunc d nc sig W) ∧
    IsProd d (specTrunc d nc sig W) (specProj d nc W) (specTrunc d nc sig W) ∧
    IsProd d (specProj d nc W) (specProj d nc W) (specProj d nc W) := by
  have hW := isSpec_orth_toM d C sig W h
  have hCm := isSpec_recon_toM d C sig W h
  have hR := Nat.min_le_right nc d
  have hB : toM d (specTrunc d nc sig W) = _ := toM_gram d (min nc d) hR _ W
  have hP : toM d (specProj d nc W) = _ := toM_gram d (min nc d) hR _ W
  have hn : ∀ i : Fin d, rowDot d W i.val i.val ≠ 0 := fun i => h.nz i.val i.isLt
  refine ⟨?_, ?_, ?_, ?_, ?_⟩ <;> rw [isProd_iff]
  · rw [hCm, hB, hP, sandwich_mul _ _ _ _ hW]
    congr 2; apply diag_congr; intro i
    by_cases hi : i.val < min nc d
    · have hs' : sig.getD i.val 0 ≠ 0 := hpos i.val hi
      have hn' := hn i
      simp only [hi, if_true]; field_simp
    · simp [hi]
  · rw [hCm, hB, hP, sandwich_mul _ _ _ _ hW]
    congr 2; apply diag_congr; intro i
    by_cases hi : i.val < min nc d
    · have hs' : sig.getD i.val 0 ≠ 0 := hpos i.val hi
      have hn' := hn i
      simp only [hi, if_true]; field_simp
    · simp [hi]
  · rw [hB, hP, sandwich_mul _ _ _ _ hW]
    congr 2; apply diag_congr; intro i
    by_cases hi : i.val < min nc d
    · simp only [hi, if_true]; field_simp [hn i]
    · simp [hi]
  · rw [hB, hP, sandwich_mul _ _ _ _ hW]
    congr 2; apply diag_congr; intro i
    by_cases hi : i.val < min nc d
    · simp only [hi, if_true]; field_simp [hn i]
    · simp [hi]
  · rw [hP, sandwich_mul _ _ _ _ hW]
    congr 2; apply diag_congr; intro i
    by_cases hi : i.val < min nc d
    · simp only [hi, if_true]; field_simp [hn i]
    · simp [hi]

/-- full rank (`n_components ≥ d`, all eigenvalues positive): the truncated inverse is the inverse -/
theorem specTrunc_full_isInv (d nc : Nat) (hnc : d ≤ nc) (C : Mat) (sig : List Rat) (W : Mat)
    (h : IsSpec d C sig W) (hpos : ∀ i, i < d → sig.getD i 0 ≠ 0) :
    IsInv d C (specTrunc d nc sig W) := by
  have hmin : min nc d = d := Nat.min_eq_right hnc
  have hid := (specTrunc_identities d nc C sig W h (by rw [hmin]; exact hpos)).1
  rw [isProd_iff] at hid
  have hP : toM d (specProj d nc W) = 1 := by
    unfold specProj
    rw [toM_gram d (min nc d) (Nat.min_le_right _ _), hmin]
    have e2 : (fun i : Fin d => if i.val < d then 1 / rowDot d W i.val i.val else 0) =
        fun i : Fin d => 1 / rowDot d W i.val i.val := by
      funext i; simp [i.isLt]
    rw [e2]
    exact complete_of_orth _ _ (isSpec_orth_toM d C sig W h) (fun i => h.nz i.val i.isLt)
  rw [hP] at hid
  intro i j hi hj
  have := congrFun (congrFun hid ⟨i, hi⟩) ⟨j, hj⟩
  rw [toM_mul_apply, Matrix.one_apply] at this
  rw [this]
  simp [Fin.ext_iff]

/-- an inverse is unique -/
theorem isInv_unique (d : Nat) (C B B' : Mat) (h : IsInv d C B) (h' : IsInv d C B') (i j : Nat)
    (hi : i < d) (hj : j < d) : ent B i j = ent B' i j := by
  have h1 := toM_mul_of_isInv d C B h
  have h2 := toM_mul_of_isInv d C B' h'
  have h3 : toM d B * toM d C = 1 := mul_eq_one_comm.1 h1
  have : toM d B = toM d B' := by
    calc toM d B = toM d B * (toM d C * toM d B') := by rw [h2, Matrix.mul_one]
      _ = (toM d B * toM d C) * toM d B' := by rw [Matrix.mul_assoc]
      _ = toM d B' := by rw [h3, Matrix.one_mul]
  exact toM_ext d B B' this i j hi hj

/-- keeping more components never lowers the quadratic form: the Mahalanobis distance under rank
truncation is a lower bound of the untruncated one -/
theorem specTrunc_mono (d nc nc' : Nat) (hle : nc ≤ nc') (C : Mat) (sig : List Rat) (W : Mat)
    (h : IsSpec d C sig W) (y : Nat → Rat) :
    qf d (ent (specTrunc d nc sig W)) y ≤ qf d (ent (specTrunc d nc' sig W)) y := by
  unfold specTrunc
  rw [gram_qf, gram_qf]
  have hmm : min nc d ≤ min nc' d := by omega
  rw [← Finset.sum_range_add_sum_Ico _ hmm]
  have : 0 ≤ ∑ r ∈ Finset.Ico (min nc d) (min nc' d),
      1 / (sig.getD r 0 * rowDot d W r r) * (∑ p ∈ range d, y p * ent W r p) ^ 2 := by
    apply Finset.sum_nonneg
    intro r hr
    have hrd : r < d := by
      have := (Finset.mem_Ico.1 hr).2
      exact lt_of_lt_of_le this (Nat.min_le_right _ _)
    exact mul_nonneg (div_nonneg (by norm_num) (mul_nonneg (h.nonneg r hrd) (rowDot_nonneg d W r))) (sq_nonneg _)
  linarith

/-! ### the coded formula equals the model's truncated inverse -/

/-- **`_covariance_matrix_inverse(C, n_components)` is the truncated pseudo-inverse**: under numpy's SVD
contract, for a symmetric `C` with a verified rational eigen-decomposition and a common threshold at
the cut, the coded `s[:, :n]·diag(1/v[:n])·d[:n, :]` and the model's `specTrunc` agree entry by entry -/
theorem svdTrunc_eq_specTrunc (d nc : Nat) (C U Vh W : Mat) (s sig : List Rat) (τ : Rat)
    (hC : Symm d C) (hsvd : IsSVD d C U s Vh) (hspec : IsSpec d C sig W)
    (hcs : Cut d (min nc d) s τ) (hcσ : Cut d (min nc d) sig τ)
    (i j : Nat) (hi : i < d) (hj : j < d) :
    ent (svdTrunc d nc U s Vh) i j = ent (specTrunc d nc sig W) i j := by
  apply toM_ext d _ _ _ i j hi hj
  rw [toM_svdTrunc]
  unfold specTrunc
  rw [toM_gram d (min nc d) (Nat.min_le_right _ _)]
  have key := svd_eq_spec_matrix (toM d C) (toM d U) (toM d Vh) (toM d W)
    (fun i : Fin d => s.getD i.val 0) (fun i : Fin d => sig.getD i.val 0)
    (fun i : Fin d => rowDot d W i.val i.val) (min nc d) τ
    (toM_transpose_of_symm d C hC) (isSVD_U_toM d C U s Vh hsvd) (isSVD_V_toM d C U s Vh hsvd)
    (isSVD_recon_toM d C U s Vh hsvd) (isSpec_orth_toM d C sig W hspec) (fun i => hspec.nz i.val i.isLt)
    (isSpec_recon_toM d C sig W hspec) (fun i => hsvd.nonneg i.val i.isLt) (fun i => hspec.nonneg i.val i.isLt)
    hcs.1 (fun i => ⟨fun h => hcs.2.1 i.val h i.isLt, fun h => hcs.2.2 i.val h i.isLt⟩)
    (fun i => ⟨fun h => hcσ.2.1 i.val h i.isLt, fun h => hcσ.2.2 i.val h i.isLt⟩)
  exact key

/-- full rank under the SVD contract alone: `n_components ≥ d` gives the exact inverse of a symmetric
matrix with positive singular values (so the model may use its exact inverse there) -/
theorem svdTrunc_full_rank_isInv (d nc : Nat) (hnc : d ≤ nc) (C U Vh : Mat) (s : List Rat)
    (hC : Symm d C) (hsvd : IsSVD d C U s Vh) (hpos : ∀ i, i < d → s.getD i 0 ≠ 0) :
    IsInv d C (svdTrunc d nc U s Vh) := by
  have hmin : min nc d = d := Nat.min_eq_right hnc
  have hm := svd_full_inv_matrix (toM d C) (toM d U) (toM d Vh) (fun i : Fin d => s.getD i.val 0)
    (toM_transpose_of_symm d C hC) (isSVD_U_toM d C U s Vh hsvd) (isSVD_V_toM d C U s Vh hsvd)
    (isSVD_recon_toM d C U s Vh hsvd) (fun i => hpos i.val i.isLt)
  have e : toM d (svdTrunc d nc U s Vh) =
      toM d U * diagonal (fun i : Fin d => 1 / s.getD i.val 0) * toM d Vh := by
    rw [toM_svdTrunc, hmin]
    congr 2; apply diag_congr; intro i; simp [i.isLt]
  rw [← e] at hm
  intro i j hi hj
  have := congrFun (congrFun hm ⟨i, hi⟩) ⟨j, hj⟩
  rw [toM_mul_apply, Matrix.one_apply] at this
  rw [this]
  simp [Fin.ext_iff]

end MenpoModel.C12
