/-
C13 — index lemmas for flat C-order arrays (helper lemmas; core Lean only).
Main facts: `get_ofFn` (`(ofFn s f)[p] = f p` for every in-range multi-index),
`mem_indices` (the index grid enumerates exactly the in-range multi-indices),
`ofFn_congr`.
-/
import MenpoModel.Core.C13NDArr
namespace MenpoModel.C13

theorem flatMap_range_block {β : Type} (g : Nat → List β) (m : Nat) (hg : ∀ i, (g i).length = m) :
    ∀ n, ((List.range n).flatMap g).length = n * m := by
  intro n
  induction n with
  | zero => simp
  | succ n ih => simp [List.range_succ, List.flatMap_append, ih, hg, Nat.succ_mul]

theorem flatMap_range_get {β : Type} (g : Nat → List β) (m : Nat) (hg : ∀ i, (g i).length = m) :
    ∀ n i k, i < n → k < m → ((List.range n).flatMap g)[i * m + k]? = (g i)[k]? := by
  intro n
  induction n with
  | zero => intro i k hi; omega
  | succ n ih =>
    intro i k hi hk
    simp only [List.range_succ, List.flatMap_append, List.flatMap_cons, List.flatMap_nil, List.append_nil]
    have hlen := flatMap_range_block g m hg n
    by_cases h : i < n
    · have : i * m + k < n * m := by
        have : (i + 1) * m ≤ n * m := Nat.mul_le_mul_right m h
        rw [Nat.succ_mul] at this; omega
      rw [List.getElem?_append_left (by omega)]
      exact ih i k h hk
    · have hin : i = n := by omega
      subst hin
      rw [List.getElem?_append_right (by omega)]
      simp [hlen]

theorem length_indices (s : List Nat) : (indices s).length = sz s := by
  induction s with
  | nil => rfl
  | cons n s ih =>
    simp only [indices, sz]
    rw [flatMap_range_block _ (sz s)]
    intro i; simp [ih]

theorem offset_lt : ∀ (s p : List Nat), inRange s p = true → offset s p < sz s := by
  intro s
  induction s with
  | nil => intro p h; cases p <;> simp_all [inRange, offset, sz]
  | cons n s ih =>
    intro p h
    cases p with
    | nil => simp [inRange] at h
    | cons i p =>
      simp only [inRange, Bool.and_eq_true, decide_eq_true_eq] at h
      have := ih p h.2
      simp only [offset, sz]
      have : (i + 1) * sz s ≤ n * sz s := Nat.mul_le_mul_right _ h.1
      rw [Nat.succ_mul] at this; omega

theorem getElem?_indices : ∀ (s p : List Nat), inRange s p = true → (indices s)[offset s p]? = some p := by
  intro s
  induction s with
  | nil => intro p h; cases p <;> simp_all [inRange, offset, indices]
  | cons n s ih =>
    intro p h
    cases p with
    | nil => simp [inRange] at h
    | cons i p =>
      simp only [inRange, Bool.and_eq_true, decide_eq_true_eq] at h
      simp only [indices, offset]
      rw [flatMap_range_get _ (sz s) (by intro i; simp [length_indices]) n i _ h.1 (offset_lt s p h.2)]
      simp [ih p h.2]

theorem mem_indices : ∀ (s p : List Nat), p ∈ indices s ↔ inRange s p = true := by
  intro s
  induction s with
  | nil => intro p; cases p <;> simp [indices, inRange]
  | cons n s ih =>
    intro p
    cases p with
    | nil => simp [indices, inRange]
    | cons i p => simp [indices, inRange, ih]

theorem get_ofFn {α : Type} (s : List Nat) (f : List Nat → α) (p : List Nat) (h : inRange s p = true) :
    (ofFn s f).get? p = some (f p) := by
  simp [ofFn, NDArr.get?, h, getElem?_indices s p h]

theorem get_ofFn_none {α : Type} (s : List Nat) (f : List Nat → α) (p : List Nat) (h : inRange s p = false) :
    (ofFn s f).get? p = none := by
  simp [ofFn, NDArr.get?, h]

theorem ofFn_WF {α : Type} (s : List Nat) (f : List Nat → α) : (ofFn s f).WF := by
  simp [ofFn, NDArr.WF, length_indices]

theorem ofFn_congr {α : Type} (s : List Nat) (f g : List Nat → α) (h : ∀ p, inRange s p = true → f p = g p) :
    ofFn s f = ofFn s g := by
  simp only [ofFn, NDArr.mk.injEq, true_and]
  apply List.map_congr_left
  intro p hp
  exact h p ((mem_indices s p).1 hp)

/-- every flat position is the offset of an in-range multi-index (`np.unravel_index`) -/
theorem unravel : ∀ (s : List Nat) (i : Nat), i < sz s → ∃ p, inRange s p = true ∧ offset s p = i := by
  intro s
  induction s with
  | nil => intro i h; exact ⟨[], rfl, by simp [sz] at h; simp [offset, h]⟩
  | cons n s ih =>
    intro i h
    simp only [sz] at h
    have hm : 0 < sz s := by
      cases hz : sz s with
      | zero => rw [hz] at h; simp at h
      | succ m => omega
    obtain ⟨p, hp1, hp2⟩ := ih (i % sz s) (Nat.mod_lt _ hm)
    refine ⟨(i / sz s) :: p, ?_, ?_⟩
    · simp only [inRange, Bool.and_eq_true, decide_eq_true_eq]
      exact ⟨(Nat.div_lt_iff_lt_mul hm).2 h, hp1⟩
    · simp only [offset, hp2]
      rw [Nat.mul_comm]; exact Nat.div_add_mod i (sz s)

/-- two well-formed arrays of the same shape with the same element at every in-range multi-index are equal -/
theorem NDArr.ext_get {α : Type} (a b : NDArr α) (ha : a.WF) (hb : b.WF) (hs : a.shape = b.shape)
    (h : ∀ idx, inRange a.shape idx = true → a.get? idx = b.get? idx) : a = b := by
  obtain ⟨sa, da⟩ := a
  obtain ⟨sb, db⟩ := b
  simp only at hs
  subst hs
  simp only [NDArr.WF] at ha hb
  simp only [NDArr.mk.injEq, true_and]
  apply List.ext_getElem?
  intro i
  by_cases hi : i < sz sa
  · obtain ⟨p, hp1, hp2⟩ := unravel sa i hi
    have := h p hp1
    simpa [NDArr.get?, hp1, hp2] using this
  · rw [List.getElem?_eq_none (by omega), List.getElem?_eq_none (by omega)]

end MenpoModel.C13
