/-
C12 — lemmas about the quadratic form `xᵀ P x` of a sum of embedded blocks.
Main results: `qf_trips` (general), `edge_form` (one edge), `qf_allTrips`, `qf_diagTrips`.
-/
import MenpoModel.Lemmas.C12Dense
import Mathlib.Algebra.BigOperators.Group.Finset.Basic
import Mathlib.Algebra.BigOperators.Group.Finset.Sigma
import Mathlib.Algebra.BigOperators.Ring.Finset
import Mathlib.Algebra.Order.BigOperators.Group.Finset
import Mathlib.Tactic.Linarith

set_option linter.unusedSimpArgs false
set_option linter.unusedVariables false

namespace MenpoModel.C12
open Finset

theorem sumTo_eq (n : Nat) (f : Nat → Rat) : sumTo n f = ∑ i ∈ range n, f i := by
  induction n with
  | zero => simp [sumTo]
  | succ n ih => simp [sumTo, ih, Finset.sum_range_succ]

theorem qf_eq (n : Nat) (P : Nat → Nat → Rat) (x : Nat → Rat) :
    qf n P x = ∑ I ∈ range n, ∑ J ∈ range n, x I * P I J * x J := by
  simp only [qf, sumTo_eq]

/-- summing over the coordinates of block `u` only -/
theorem sum_block (k u : Nat) (hk : 0 < k) (h : Nat → Rat) :
    ∀ V, u < V → ∑ I ∈ range (V * k), (if I / k = u then h I else 0) = ∑ a ∈ range k, h (u * k + a) := by
  intro V
  induction V with
  | zero => intro hu; omega
  | succ V ih =>
    intro hu
    rw [Nat.succ_mul, Finset.sum_range_add]
    by_cases huV : u < V
    · rw [ih huV]
      have : ∑ a ∈ range k, (if (V * k + a) / k = u then h (V * k + a) else 0) = 0 := by
        apply Finset.sum_eq_zero
        intro a ha
        have ha' : a < k := Finset.mem_range.1 ha
        have : (V * k + a) / k = V := by
          rw [Nat.mul_comm, Nat.mul_add_div hk, Nat.div_eq_of_lt ha']; simp
        rw [this, if_neg (by omega)]
      rw [this, add_zero]
    · have huV' : u = V := by omega
      subst huV'
      have h0 : ∑ I ∈ range (u * k), (if I / k = u then h I else 0) = 0 := by
        apply Finset.sum_eq_zero
        intro I hI
        have hI' : I < u * k := Finset.mem_range.1 hI
        have : I / k < u := (Nat.div_lt_iff_lt_mul hk).2 hI'
        rw [if_neg (by omega)]
      rw [h0, zero_add]
      apply Finset.sum_congr rfl
      intro a ha
      have ha' : a < k := Finset.mem_range.1 ha
      have : (u * k + a) / k = u := by
        rw [Nat.mul_comm, Nat.mul_add_div hk, Nat.div_eq_of_lt ha']; simp
      rw [if_pos this]

theorem block_mod (k u a : Nat) (ha : a < k) : (u * k + a) % k = a := by
  rw [Nat.mul_comm, Nat.mul_add_mod, Nat.mod_eq_of_lt ha]

/-- the quadratic form of one embedded block -/
def blockForm (k : Nat) (t : Trip) (x : Nat → Rat) : Rat :=
  ∑ a ∈ range k, ∑ c ∈ range k, x (t.row * k + a) * ent t.blk a c * x (t.col * k + c)

theorem qf_one (k V : Nat) (hk : 0 < k) (t : Trip) (hr : t.row < V) (hc : t.col < V) (x : Nat → Rat) :
    qf (V * k) (tripsEntFlat k [t]) x = blockForm k t x := by
  rw [qf_eq]
  unfold tripsEntFlat blockForm
  simp only [tripsEnt_cons, tripsEnt_nil, add_zero]
  have e1 : ∀ I ∈ range (V * k), (∑ J ∈ range (V * k),
      x I * (if t.row = I / k ∧ t.col = J / k then ent t.blk (I % k) (J % k) else 0) * x J) =
      if I / k = t.row then (∑ c ∈ range k, x I * ent t.blk (I % k) c * x (t.col * k + c)) else 0 := by
    intro I _
    by_cases hI : I / k = t.row
    · rw [if_pos hI]
      have sb := sum_block k t.col hk (fun J => x I * ent t.blk (I % k) (J % k) * x J) V hc
      calc ∑ J ∈ range (V * k),
            x I * (if t.row = I / k ∧ t.col = J / k then ent t.blk (I % k) (J % k) else 0) * x J
          = ∑ J ∈ range (V * k), (if J / k = t.col then x I * ent t.blk (I % k) (J % k) * x J else 0) := by
            apply Finset.sum_congr rfl
            intro J _
            by_cases hJ : J / k = t.col
            · simp [hI, hJ]
            · have : ¬ t.col = J / k := fun h => hJ h.symm
              simp [hJ, this]
        _ = ∑ c ∈ range k, x I * ent t.blk (I % k) ((t.col * k + c) % k) * x (t.col * k + c) := sb
        _ = ∑ c ∈ range k, x I * ent t.blk (I % k) c * x (t.col * k + c) := by
            apply Finset.sum_congr rfl
            intro c hc'
            rw [block_mod k t.col c (Finset.mem_range.1 hc')]
    · rw [if_neg hI]
      apply Finset.sum_eq_zero
      intro J _
      have : ¬ t.row = I / k := fun h => hI h.symm
      simp [this]
  rw [Finset.sum_congr rfl e1, sum_block k t.row hk _ V hr]
  apply Finset.sum_congr rfl
  intro a ha
  rw [block_mod k t.row a (Finset.mem_range.1 ha)]

theorem qf_add (n : Nat) (P Q : Nat → Nat → Rat) (x : Nat → Rat) :
    qf n (fun I J => P I J + Q I J) x = qf n P x + qf n Q x := by
  simp only [qf_eq, ← Finset.sum_add_distrib]
  apply Finset.sum_congr rfl; intro I _
  apply Finset.sum_congr rfl; intro J _
  ring

theorem qf_zero (n : Nat) (x : Nat → Rat) : qf n (fun _ _ => 0) x = 0 := by
  simp [qf_eq]

/-- **quadratic form of any list of embedded blocks** -/
theorem qf_trips (k V : Nat) (hk : 0 < k) (x : Nat → Rat) (ts : List Trip)
    (h : ∀ t ∈ ts, t.row < V ∧ t.col < V) :
    qf (V * k) (tripsEntFlat k ts) x = (ts.map fun t => blockForm k t x).sum := by
  induction ts with
  | nil =>
    have : tripsEntFlat k [] = fun _ _ => 0 := by
      funext I J; simp [tripsEntFlat, tripsEnt_nil]
    rw [this, qf_zero]; simp
  | cons t ts ih =>
    have e : tripsEntFlat k (t :: ts) = fun I J => tripsEntFlat k [t] I J + tripsEntFlat k ts I J := by
      funext I J
      simp only [tripsEntFlat, tripsEnt_cons, tripsEnt_nil, add_zero]
    rw [e, qf_add, qf_one k V hk t (h t (by simp)).1 (h t (by simp)).2 x,
      ih (fun t ht => h t (by simp [ht]))]
    simp

/-! ### one edge: the four blocks make the form of the edge's inverse covariance -/

theorem sum_two_block (k : Nat) (F : Nat → Nat → Rat) :
    ∑ p ∈ range (k + k), ∑ q ∈ range (k + k), F p q =
    ∑ a ∈ range k, ∑ c ∈ range k, (F a c + F a (k + c) + F (k + a) c + F (k + a) (k + c)) := by
  rw [Finset.sum_range_add]
  simp only [Finset.sum_range_add, ← Finset.sum_add_distrib]
  apply Finset.sum_congr rfl; intro a _
  apply Finset.sum_congr rfl; intro c _
  ring

theorem edge_form (m : Mode) (k : Nat) (e : Nat × Nat) (B : Mat) (x : Nat → Rat) :
    ((edgeTrips m k e B).map fun t => blockForm k t x).sum = qf (m.dim k) (ent B) (edgeVec m k e x) := by
  cases m with
  | concat =>
    simp only [edgeTrips, List.map_cons, List.map_nil, List.sum_cons, List.sum_nil, add_zero, blockForm,
      Mode.dim, edgeVec]
    rw [qf_eq, two_mul, sum_two_block]
    simp only [← Finset.sum_add_distrib]
    apply Finset.sum_congr rfl; intro a ha
    apply Finset.sum_congr rfl; intro c hc
    have ha' := Finset.mem_range.1 ha
    have hc' := Finset.mem_range.1 hc
    have h2 : ∀ a, ¬ (k + a < k) := by intro a; omega
    simp only [ent_blkOf, ha', hc', and_self, if_true, h2, if_false, Nat.add_sub_cancel_left, Nat.zero_add]
    ring
  | sub =>
    simp only [edgeTrips, List.map_cons, List.map_nil, List.sum_cons, List.sum_nil, add_zero, blockForm,
      Mode.dim, edgeVec]
    rw [qf_eq]
    simp only [← Finset.sum_add_distrib]
    apply Finset.sum_congr rfl; intro a ha
    apply Finset.sum_congr rfl; intro c hc
    have ha' := Finset.mem_range.1 ha
    have hc' := Finset.mem_range.1 hc
    simp only [ent_blkOf, ent_negBlk, ha', hc', and_self, if_true, Nat.zero_add]
    ring

/-- per-edge quadratic forms -/
def edgeForms (m : Mode) (k : Nat) (es : List (Nat × Nat)) (Bs : List Mat) (x : Nat → Rat) : List Rat :=
  List.zipWith (fun e B => qf (m.dim k) (ent B) (edgeVec m k e x)) es Bs

theorem qf_allTrips (m : Mode) (k V : Nat) (hk : 0 < k) (es : List (Nat × Nat)) (Bs : List Mat)
    (hv : ∀ e ∈ es, e.1 < V ∧ e.2 < V) (x : Nat → Rat) :
    qf (V * k) (tripsEntFlat k (allTrips m k es Bs)) x = (edgeForms m k es Bs x).sum := by
  rw [qf_trips k V hk x]
  · induction es generalizing Bs with
    | nil => simp [allTrips_nil_left, edgeForms]
    | cons e es ih =>
      cases Bs with
      | nil => simp [allTrips_nil_right, edgeForms]
      | cons B Bs =>
        rw [allTrips_cons, List.map_append, List.sum_append, edge_form,
          ih Bs (fun e' h' => hv e' (by simp [h']))]
        simp [edgeForms]
  · intro t ht
    obtain ⟨e, he, h⟩ := allTrips_pos m k es Bs t ht
    have := hv e he
    rcases h with h | h | h | h <;> omega

/-! ### edgeless graph: one block per vertex -/

theorem diagTrips_pos (k : Nat) (Bs : List Mat) : ∀ v0 t, t ∈ diagTrips k v0 Bs →
    t.row = t.col ∧ v0 ≤ t.row ∧ t.row < v0 + Bs.length := by
  induction Bs with
  | nil => intro v0 t ht; simp [diagTrips] at ht
  | cons B Bs ih =>
    intro v0 t ht
    simp only [diagTrips, List.mem_cons] at ht
    rcases ht with h | h
    · subst h; simp
    · have := ih (v0 + 1) t h
      simp only [List.length_cons]; omega

/-- per-vertex quadratic forms -/
def vertexForms (k : Nat) : Nat → List Mat → (Nat → Rat) → List Rat
  | _, [], _ => []
  | v, B :: Bs, x => qf k (ent B) (fun a => x (v * k + a)) :: vertexForms k (v + 1) Bs x

theorem qf_diagTrips (k V : Nat) (hk : 0 < k) (Bs : List Mat) (hV : Bs.length = V) (x : Nat → Rat) :
    qf (V * k) (tripsEntFlat k (diagTrips k 0 Bs)) x = (vertexForms k 0 Bs x).sum := by
  rw [qf_trips k V hk x]
  · have gen : ∀ v0, ((diagTrips k v0 Bs).map fun t => blockForm k t x).sum = (vertexForms k v0 Bs x).sum := by
      clear hV
      induction Bs with
      | nil => intro v0; simp [diagTrips, vertexForms]
      | cons B Bs ih =>
        intro v0
        simp only [diagTrips, vertexForms, List.map_cons, List.sum_cons, ih (v0 + 1)]
        congr 1
        rw [qf_eq]; unfold blockForm
        apply Finset.sum_congr rfl; intro a ha
        apply Finset.sum_congr rfl; intro c hc
        simp only [ent_blkOf, Finset.mem_range.1 ha, Finset.mem_range.1 hc, and_self, if_true, Nat.zero_add]
    exact gen 0
  · intro t ht
    have := diagTrips_pos k Bs 0 t ht
    omega

end MenpoModel.C12
