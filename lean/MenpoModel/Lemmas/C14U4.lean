/-
C14 — kernel-decided table, chunk U4 (generated once by hand-run script; see Lemmas/C14Small.lean).
-/
import MenpoModel.Lemmas.C14Small

namespace MenpoModel.C14

theorem smallU_5_4 : ∀ c : Fin 128, smallOkU 5 (c.val + 128 * 4) = true := by decide +kernel

end MenpoModel.C14
