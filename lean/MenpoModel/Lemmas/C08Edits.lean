/-
C08 — "whatever happened before": objects that are *not* fresh when `set_target` is called.
Value level, core Lean only.

`Base e c op s o` says that `o` still has the construction-time part of the fresh alignment of class `c`,
options `op`, source `s` — class, remembered options, source, TPS system matrix, and, for the classes that
overwrite only their part of the homogeneous matrix, the identity pattern in the rest — while its fitted
state may be anything (stale because the caller moved the held target in place, overwritten by
`from_vector_inplace`, replaced by a composition …) and its `.target` may be any point set of the right
shape.  `setTarget_of_base`: one accepted `set_target(t)` turns every such object into *the* fresh
alignment to `t`.
-/
import MenpoModel.Lemmas.C08Value
import MenpoModel.Core.C08Frame

namespace MenpoModel.C08

variable {Pts A : Type}

/-! ### the object is the fresh alignment to its own current target -/

def IsFresh (e : Ext Pts A) (o : Obj Pts A) : Prop :=
  ∃ c op s, build fixed e c op s o.target = .ok o

theorem step_fresh (e : Ext Pts A) (o : Obj Pts A) (t : Pts) (h : IsFresh e o) : IsFresh e (step e o t) := by
  obtain ⟨c, op, s, hb⟩ := h
  have hs := step_build fixed e c op s o.target t o (fixed_sound c op) hb
  by_cases hsh : SameShape e t o.target
  · have h1 := hs.1 hsh
    have ht := (build_target fixed e c op s t _ (fixed_sound c op) h1).1
    exact ⟨c, op, s, by rw [ht]; exact h1⟩
  · rw [hs.2 hsh]; exact ⟨c, op, s, hb⟩

/-! ### class-shaped matrices -/

/-- the part of the matrix the class's re-fit never overwrites is the identity's -/
def ClassShaped (c : Cls) (d : Nat) (m : Mat) : Prop :=
  match c with
  | .rotation => ∀ i j, ¬ (i < d ∧ j < d) → m i j = eye i j
  | .translation => ∀ i j, ¬ (j = d ∧ i < d) → m i j = eye i j
  | .uniformScale => ∀ i j, ¬ (i = j ∧ i < d) → m i j = eye i j
  | _ => True

theorem setBlock_of_shaped (d : Nat) (r h : Mat) (hs : ClassShaped .rotation d h) :
    setBlock d r h = setBlock d r eye := by
  funext i j; simp only [setBlock]; split
  · rfl
  · rename_i hn; exact hs i j hn

theorem setLastCol_of_shaped (d : Nat) (t : Nat → Rat) (h : Mat) (hs : ClassShaped .translation d h) :
    setLastCol d t h = setLastCol d t eye := by
  funext i j; simp only [setLastCol]; split
  · rfl
  · rename_i hn; exact hs i j hn

theorem scale_of_shaped (d : Nat) (s : Rat) (h : Mat) (hs : ClassShaped .uniformScale d h) :
    setCorner d (fillDiag d s h) = setCorner d (fillDiag d s eye) := by
  funext i j; simp only [setCorner, fillDiag]
  by_cases h1 : i = d ∧ j = d
  · simp [h1]
  · simp only [h1, if_false]
    by_cases h2 : i = j ∧ i ≤ d
    · obtain ⟨rfl, hle⟩ := h2
      simp [hle]
    · simp only [h2, if_false]
      exact hs i j (fun hh => h2 ⟨hh.1, Nat.le_of_lt hh.2⟩)

theorem shaped_setBlock (d : Nat) (r h : Mat) (hs : ClassShaped .rotation d h) :
    ClassShaped .rotation d (setBlock d r h) := by
  intro i j hn; simp only [setBlock, hn, if_false]; exact hs i j hn

theorem shaped_setLastCol (d : Nat) (t : Nat → Rat) (h : Mat) (hs : ClassShaped .translation d h) :
    ClassShaped .translation d (setLastCol d t h) := by
  intro i j hn; simp only [setLastCol, hn, if_false]; exact hs i j hn

theorem shaped_scale (d : Nat) (s : Rat) (h : Mat) (hs : ClassShaped .uniformScale d h) :
    ClassShaped .uniformScale d (setCorner d (fillDiag d s h)) := by
  intro i j hn
  simp only [setCorner, fillDiag]
  by_cases h1 : i = d ∧ j = d
  · obtain ⟨rfl, rfl⟩ := h1; simp [eye]
  · simp only [h1, if_false]
    by_cases h2 : i = j ∧ i ≤ d
    · obtain ⟨rfl, hle⟩ := h2
      have : i = d := by
        rcases Nat.lt_or_ge i d with hlt | hge
        · exact absurd ⟨rfl, hlt⟩ hn
        · omega
      exact absurd ⟨this, this⟩ h1
    · simp only [h2, if_false]; exact hs i j hn

theorem shaped_eye (c : Cls) (d : Nat) : ClassShaped c d eye := by
  cases c <;> simp [ClassShaped]

/-! ### products of class-shaped matrices are class-shaped (`np.dot` in `compose_*_inplace`) -/

theorem sum_single (f : Nat → Rat) (i : Nat) : ∀ n, i < n → (∀ k, k < n → k ≠ i → f k = 0) →
    ((List.range n).map f).sum = f i := by
  intro n
  induction n with
  | zero => intro h; omega
  | succ n ih =>
    intro hi hz
    rw [List.range_succ, List.map_append, List.sum_append]
    simp only [List.map_cons, List.map_nil, List.sum_cons, List.sum_nil, Rat.add_zero]
    by_cases hin : i = n
    · subst hin
      have : ((List.range i).map f).sum = 0 := by
        have hall : ∀ x ∈ (List.range i).map f, x = 0 := by
          intro x hx
          obtain ⟨k, hk, rfl⟩ := List.mem_map.mp hx
          have hk' : k < i := List.mem_range.mp hk
          exact hz k (by omega) (by omega)
        clear ih hz hi
        generalize (List.range i).map f = l at hall
        induction l with
        | nil => rfl
        | cons a l ihl =>
          rw [List.sum_cons, hall a (by simp), ihl (fun x hx => hall x (by simp [hx]))]
          exact Rat.add_zero 0
      rw [this]; exact Rat.zero_add _
    · have h1 : i < n := by omega
      rw [ih h1 (fun k hk hne => hz k (by omega) hne), hz n (by omega) (fun h => hin h.symm)]
      exact Rat.add_zero _

theorem eye_self (i : Nat) : eye i i = 1 := by simp [eye]
theorem eye_ne (i j : Nat) (h : i ≠ j) : eye i j = 0 := by simp [eye, h]

theorem shaped_mul (c : Cls) (d : Nat) (a b : Mat) (ha : ClassShaped c d a) (hb : ClassShaped c d b) :
    ClassShaped c d (mulMat d a b) := by
  cases c
  case rotation =>
    intro i j hn
    simp only [mulMat]
    split
    · rename_i hij
      by_cases hi : i < d
      · -- then j = d: only k = d contributes, and a i d = 0
        have hj : j = d := by
          rcases Nat.lt_or_ge j d with hlt | hge
          · exact absurd ⟨hi, hlt⟩ hn
          · omega
        rw [sum_single (fun k => a i k * b k j) d (d + 1) (by omega)]
        · show a i d * b d j = eye i j
          rw [ha i d (by omega), eye_ne i d (by omega), eye_ne i j (by omega)]; exact Rat.zero_mul _
        · intro k hk hne
          show a i k * b k j = 0
          rw [hb k j (by omega), eye_ne k j (by omega)]; exact Rat.mul_zero _
      · -- i = d: row d of a is the identity's
        have hid : i = d := by omega
        rw [sum_single (fun k => a i k * b k j) i (d + 1) (by omega)]
        · show a i i * b i j = eye i j
          rw [ha i i (by omega), eye_self, hb i j (by omega)]; exact Rat.one_mul _
        · intro k hk hne
          show a i k * b k j = 0
          rw [ha i k (by omega), eye_ne i k (fun h => hne h.symm)]; exact Rat.zero_mul _
    · rfl
  case translation =>
    intro i j hn
    simp only [mulMat]
    split
    · rename_i hij
      by_cases hj : j = d
      · -- then i = d
        have hid : i = d := by
          rcases Nat.lt_or_ge i d with hlt | hge
          · exact absurd ⟨hj, hlt⟩ hn
          · omega
        rw [sum_single (fun k => a i k * b k j) i (d + 1) (by omega)]
        · show a i i * b i j = eye i j
          rw [ha i i (by omega), hb i j (by omega), eye_self]; exact Rat.one_mul _
        · intro k hk hne
          show a i k * b k j = 0
          rw [ha i k (by omega), eye_ne i k (fun h => hne h.symm)]; exact Rat.zero_mul _
      · -- column j ≠ d of b is the identity's
        rw [sum_single (fun k => a i k * b k j) j (d + 1) (by omega)]
        · show a i j * b j j = eye i j
          rw [hb j j (by omega), eye_self, ha i j (by omega)]; exact Rat.mul_one _
        · intro k hk hne
          show a i k * b k j = 0
          rw [hb k j (by omega), eye_ne k j hne]; exact Rat.mul_zero _
    · rfl
  case uniformScale =>
    intro i j hn
    simp only [mulMat]
    split
    · rename_i hij
      rw [sum_single (fun k => a i k * b k j) i (d + 1) (by omega)]
      · show a i i * b i j = eye i j
        by_cases hije : i = j
        · have hid : ¬ i < d := fun h => hn ⟨hije, h⟩
          rw [ha i i (by omega), hb i j (by omega), eye_self]; exact Rat.one_mul _
        · rw [hb i j (by omega), eye_ne i j hije]; exact Rat.mul_zero _
      · intro k hk hne
        show a i k * b k j = 0
        rw [ha i k (by omega), eye_ne i k (fun h => hne h.symm)]; exact Rat.zero_mul _
    · rfl
  all_goals trivial

/-! ### `Base`: the construction-time part is intact -/

def StateOK (c : Cls) (d : Nat) : State A → State A → Prop
  | .hom h, .hom _ => ClassShaped c d h
  | .tps l _, .tps l0 _ => l = l0
  | .pwa _, .pwa _ => True
  | _, _ => False

/-- `o` has the construction-time part of the fresh alignment `c(s, ·, **op)`; its fitted state and the
coordinates its `.target` shows are arbitrary (of the right shape) -/
def Base (e : Ext Pts A) (c : Cls) (op : Opts) (s : Pts) (o : Obj Pts A) : Prop :=
  ∃ t0 o0, build fixed e c op s t0 = .ok o0 ∧ SameShape e o.target t0 ∧
    o.cls = o0.cls ∧ o.rotation = o0.rotation ∧ o.allowMirror = o0.allowMirror ∧ o.kernel = o0.kernel ∧
    o.minSV = o0.minSV ∧ o.source = o0.source ∧ StateOK c (e.nDims s) o.state o0.state

theorem build_stateOK (e : Ext Pts A) (c : Cls) (op : Opts) (s t : Pts) (o : Obj Pts A)
    (hb : build fixed e c op s t = .ok o) : StateOK c (e.nDims s) o.state o.state := by
  unfold build at hb
  split at hb
  · simp at hb
  · unfold buildCore at hb
    cases c
    case affine => simp only [fixed, if_true, Except.ok.injEq] at hb; subst hb; simp [StateOK, ClassShaped]
    case similarity => simp only [Except.ok.injEq] at hb; subst hb; simp [StateOK, ClassShaped]
    case rotation =>
      simp only [fixed, if_true, Except.ok.injEq] at hb; subst hb
      exact shaped_setBlock _ _ _ (shaped_eye _ _)
    case translation =>
      simp only at hb; split at hb
      · simp at hb
      · simp only [Except.ok.injEq] at hb; subst hb
        exact shaped_setLastCol _ _ _ (shaped_eye _ _)
    case uniformScale =>
      simp only at hb; split at hb
      · simp at hb
      · simp only [Except.ok.injEq] at hb; subst hb
        exact shaped_scale _ _ _ (shaped_eye _ _)
    case tps =>
      simp only at hb; split at hb
      · simp at hb
      · simp only [Except.ok.injEq] at hb; subst hb; simp [StateOK]
    case pwa =>
      simp only at hb; split at hb
      · simp at hb
      · simp only [Except.ok.injEq] at hb; subst hb; simp [StateOK]

/-- a fresh alignment has its own base -/
theorem base_of_build (e : Ext Pts A) (c : Cls) (op : Opts) (s t : Pts) (o : Obj Pts A)
    (hb : build fixed e c op s t = .ok o) : Base e c op s o := by
  have ht := (build_target fixed e c op s t o (fixed_sound c op) hb).1
  exact ⟨t, o, hb, by rw [ht]; exact ⟨rfl, rfl⟩, rfl, rfl, rfl, rfl, rfl, rfl, build_stateOK e c op s t o hb⟩

theorem base_of_fresh (e : Ext Pts A) (o : Obj Pts A) (h : IsFresh e o) : ∃ c op s, Base e c op s o := by
  obtain ⟨c, op, s, hb⟩ := h
  exact ⟨c, op, s, base_of_build e c op s _ o hb⟩

theorem build_shape (tr : Tree) (e : Ext Pts A) (c : Cls) (op : Opts) (s t : Pts) (o : Obj Pts A)
    (hb : build tr e c op s t = .ok o) : SameShape e s t := by
  unfold build at hb
  split at hb
  · simp at hb
  · rename_i h; exact (verifySourceTarget_ok_iff e s t).mp h

/-- the target a `Base` object shows has the shape of the source -/
theorem base_shape (e : Ext Pts A) (c : Cls) (op : Opts) (s : Pts) (o : Obj Pts A) (h : Base e c op s o) :
    SameShape e o.target s := by
  obtain ⟨t0, o0, hb, hsh, _⟩ := h
  have := build_shape fixed e c op s t0 o0 hb
  exact ⟨hsh.1.trans this.1.symm, hsh.2.trans this.2.symm⟩

/-- **one accepted `set_target` rebuilds the alignment, whatever state it was in**: stale (the held target
object was moved in place), overwritten by a parameter edit, replaced by a composition, never retargeted
or retargeted a thousand times -/
theorem setTarget_of_base (e : Ext Pts A) (c : Cls) (op : Opts) (s t : Pts) (o : Obj Pts A)
    (hbase : Base e c op s o) (hsh : SameShape e t o.target) :
    ∃ o', setTarget e o t = .ok o' ∧ build fixed e c op s t = .ok o' := by
  obtain ⟨t0, o0, hb, hsh0, hcls, hrot, hmir, hker, hsv, hsrc, hst⟩ := hbase
  have hv : verifyTarget e o t = .ok () := verifyTarget_ok e o t hsh
  refine ⟨sync e { o with target := t }, by simp [setTarget, hv], ?_⟩
  have hst0 := build_shape fixed e c op s t0 o0 hb
  have hst' : verifySourceTarget e s t = .ok () := by
    rw [verifySourceTarget_ok_iff]
    exact ⟨hst0.1.trans (hsh0.1.symm.trans hsh.1.symm), hst0.2.trans (hsh0.2.symm.trans hsh.2.symm)⟩
  obtain ⟨ocls, orot, omir, oker, osv, osrc, otgt, ost⟩ := o
  simp only at hcls hrot hmir hker hsv hsrc hst
  unfold build at hb ⊢
  split at hb
  · simp at hb
  · simp only [hst']
    unfold buildCore at hb ⊢
    cases c
    case affine =>
      simp only [fixed, if_true, Except.ok.injEq] at hb ⊢; subst hb
      simp only at hcls hrot hmir hker hsv hsrc
      subst hcls hrot hmir hker hsv hsrc
      cases ost <;> simp [StateOK] at hst
      simp [sync]
    case similarity =>
      simp only [fixed, if_true, Except.ok.injEq] at hb ⊢; subst hb
      simp only at hcls hrot hmir hker hsv hsrc
      subst hcls hrot hmir hker hsv hsrc
      cases ost <;> simp [StateOK] at hst
      simp [sync]
    case rotation =>
      simp only [fixed, if_true, Except.ok.injEq] at hb ⊢; subst hb
      simp only at hcls hrot hmir hker hsv hsrc
      subst hcls hrot hmir hker hsv hsrc
      cases ost <;> simp only [StateOK] at hst
      simp [sync, setBlock_of_shaped _ _ _ hst]
    case translation =>
      simp only at hb ⊢; split at hb
      · simp at hb
      · rename_i hd; simp only [hd, if_false, Except.ok.injEq] at hb ⊢; subst hb
        simp only at hcls hrot hmir hker hsv hsrc
        subst hcls hrot hmir hker hsv hsrc
        cases ost <;> simp only [StateOK] at hst
        simp [sync, setLastCol_of_shaped _ _ _ hst]
    case uniformScale =>
      simp only at hb ⊢; split at hb
      · simp at hb
      · rename_i hd; simp only [hd, if_false, Except.ok.injEq] at hb ⊢; subst hb
        simp only at hcls hrot hmir hker hsv hsrc
        subst hcls hrot hmir hker hsv hsrc
        cases ost <;> simp only [StateOK] at hst
        simp [sync, scale_of_shaped _ _ _ hst]
    case tps =>
      simp only at hb ⊢; split at hb
      · simp at hb
      · rename_i hd; simp only [hd, if_false, Except.ok.injEq] at hb ⊢; subst hb
        simp only at hcls hrot hmir hker hsv hsrc
        subst hcls hrot hmir hker hsv hsrc
        cases ost <;> simp only [StateOK] at hst
        subst hst
        simp [sync]
    case pwa =>
      simp only at hb ⊢; split at hb
      · simp at hb
      · rename_i hd; simp only [hd, if_false, Except.ok.injEq] at hb ⊢; subst hb
        simp only at hcls hrot hmir hker hsv hsrc
        subst hcls hrot hmir hker hsv hsrc
        cases ost <;> simp only [StateOK] at hst
        simp [sync]

/-- … as the caller sees it -/
theorem step_of_base (e : Ext Pts A) (c : Cls) (op : Opts) (s t : Pts) (o : Obj Pts A)
    (hbase : Base e c op s o) :
    (SameShape e t s → build fixed e c op s t = .ok (step e o t)) ∧
    (¬ SameShape e t s → step e o t = o) := by
  have hos := base_shape e c op s o hbase
  constructor
  · intro hsh
    have hsh' : SameShape e t o.target := ⟨hsh.1.trans hos.1.symm, hsh.2.trans hos.2.symm⟩
    obtain ⟨o', h1, h2⟩ := setTarget_of_base e c op s t o hbase hsh'
    simp [step, h1, h2]
  · intro hsh
    have hsh' : ¬ SameShape e t o.target := fun h => hsh ⟨h.1.trans hos.1, h.2.trans hos.2⟩
    exact (retarget_rejects_mismatch e o t hsh').2

theorem base_step (e : Ext Pts A) (c : Cls) (op : Opts) (s t : Pts) (o : Obj Pts A)
    (hbase : Base e c op s o) : Base e c op s (step e o t) := by
  have h := step_of_base e c op s t o hbase
  by_cases hsh : SameShape e t s
  · exact base_of_build e c op s t _ (h.1 hsh)
  · rw [h.2 hsh]; exact hbase

/-- the caller moving the held target in place keeps the base (and usually makes the fit stale) -/
theorem base_moveTarget (e : Ext Pts A) (c : Cls) (op : Opts) (s v : Pts) (o : Obj Pts A)
    (hbase : Base e c op s o) : Base e c op s (moveTarget e o v) := by
  unfold moveTarget
  split
  · rename_i hv
    obtain ⟨t0, o0, hb, hsh0, rest⟩ := hbase
    exact ⟨t0, o0, hb, ⟨hv.1.trans hsh0.1, hv.2.trans hsh0.2⟩, rest⟩
  · exact hbase

theorem syncTarget_eq (e : Ext Pts A) (o : Obj Pts A) :
    syncTarget e o = match verifyTarget e o (alignedSource e o) with
      | .ok () => { o with target := alignedSource e o }
      | .error _ => o := rfl

theorem base_syncTarget (e : Ext Pts A) (c : Cls) (op : Opts) (s : Pts) (o : Obj Pts A)
    (hbase : Base e c op s o) : Base e c op s (syncTarget e o) := by
  rw [syncTarget_eq]
  split
  · rename_i hv
    have hsh := (verifyTarget_ok_iff e o _).mp hv
    obtain ⟨t0, o0, hb, hsh0, rest⟩ := hbase
    exact ⟨t0, o0, hb, ⟨hsh.1.trans hsh0.1, hsh.2.trans hsh0.2⟩, rest⟩
  · exact hbase

/-- replacing the fitted matrix keeps the base when the new matrix is class-shaped -/
theorem base_setHom (e : Ext Pts A) (c : Cls) (op : Opts) (s : Pts) (o : Obj Pts A) (h x : Mat)
    (hbase : Base e c op s o) (hst : o.state = .hom h) (hx : ClassShaped c (e.nDims s) x) :
    Base e c op s { o with state := .hom x } := by
  obtain ⟨t0, o0, hb, hsh0, hcls, hrot, hmir, hker, hsv, hsrc, hok⟩ := hbase
  refine ⟨t0, o0, hb, hsh0, hcls, hrot, hmir, hker, hsv, hsrc, ?_⟩
  rw [hst] at hok
  cases hs0 : o0.state <;> simp [hs0, StateOK] at hok ⊢
  exact hx

/-- which parameter edits keep the base: a composition on a class that overwrites only its own part of
the matrix must be with an operand of that class (what `composes_inplace_with` enforces) -/
def LegalEdit (c : Cls) (d : Nat) (k : EditKind) (m : Mat) : Prop :=
  k = .fromVector ∨ ClassShaped c d m

theorem base_vEdit (e : Ext Pts A) (c : Cls) (op : Opts) (s : Pts) (o : Obj Pts A) (k : EditKind) (m : Mat)
    (hbase : Base e c op s o) (hl : LegalEdit c (e.nDims s) k m) : Base e c op s (vEdit e o k m) := by
  have hsrc : o.source = s := by
    obtain ⟨t0, o0, hb, _, _, _, _, _, _, hs, _⟩ := hbase
    rw [hs]; exact (build_target fixed e c op s t0 o0 (fixed_sound c op) hb).2.1
  have hcls : o.cls = c := by
    obtain ⟨t0, o0, hb, _, hc, _⟩ := hbase
    rw [hc]; exact (build_target fixed e c op s t0 o0 (fixed_sound c op) hb).2.2
  have hshaped : ∀ h, o.state = .hom h → ClassShaped c (e.nDims s) h := by
    intro h hst
    obtain ⟨t0, o0, _, _, _, _, _, _, _, _, hok⟩ := hbase
    rw [hst] at hok
    cases hs0 : o0.state <;> simp [hs0, StateOK] at hok
    exact hok
  subst hsrc
  cases hst : o.state with
  | tps l k' => have : vEdit e o k m = o := by simp [vEdit, hst]
                rw [this]; exact hbase
  | pwa tv => have : vEdit e o k m = o := by simp [vEdit, hst]
              rw [this]; exact hbase
  | hom h =>
    have hh := hshaped h hst
    have hprod : k ≠ .fromVector → ClassShaped c (e.nDims o.source)
        (match k with
          | .composeBefore => mulMat (e.nDims o.source) m h
          | .composeAfter => mulMat (e.nDims o.source) h m
          | .fromVector => m) := by
      intro hk
      rcases hl with hk' | hm
      · exact absurd hk' hk
      · cases k
        · exact absurd rfl hk
        · exact shaped_mul c _ m h hm hh
        · exact shaped_mul c _ h m hh hm
    have hset := fun x hx => base_setHom e c op o.source o h x hbase hst hx
    cases c
    case affine =>
      have hE : vEdit e o k m = syncTarget e { o with state := .hom (match k with
          | .composeBefore => mulMat (e.nDims o.source) m h
          | .composeAfter => mulMat (e.nDims o.source) h m
          | .fromVector => m) } := by
        cases k <;> simp [vEdit, hst, hcls]
      rw [hE]; exact base_syncTarget e _ op _ _ (hset _ (by simp [ClassShaped]))
    case similarity =>
      cases k
      · have hE : vEdit e o .fromVector m = syncTarget e { o with state := .hom m } := by
          simp [vEdit, hst, hcls]
        rw [hE]; exact base_syncTarget e _ op _ _ (hset _ (by simp [ClassShaped]))
      · have hE : vEdit e o .composeBefore m = { o with state := .hom (mulMat (e.nDims o.source) m h) } := by
          simp [vEdit, hst, hcls]
        rw [hE]; exact hset _ (by simp [ClassShaped])
      · have hE : vEdit e o .composeAfter m = { o with state := .hom (mulMat (e.nDims o.source) h m) } := by
          simp [vEdit, hst, hcls]
        rw [hE]; exact hset _ (by simp [ClassShaped])
    case rotation =>
      cases k
      · have hE : vEdit e o .fromVector m = syncTarget e { o with state := .hom (setBlock (e.nDims o.source) m h) } := by
          simp [vEdit, hst, hcls]
        rw [hE]; exact base_syncTarget e _ op _ _ (hset _ (shaped_setBlock _ _ _ hh))
      · have hE : vEdit e o .composeBefore m = { o with state := .hom (mulMat (e.nDims o.source) m h) } := by
          simp [vEdit, hst, hcls]
        rw [hE]; exact hset _ (hprod (by simp))
      · have hE : vEdit e o .composeAfter m = { o with state := .hom (mulMat (e.nDims o.source) h m) } := by
          simp [vEdit, hst, hcls]
        rw [hE]; exact hset _ (hprod (by simp))
    case translation =>
      cases k
      · have hE : vEdit e o .fromVector m = syncTarget e { o with
            state := State.hom (setLastCol (e.nDims o.source) (fun i => m i (e.nDims o.source)) h) } := by
          simp [vEdit, hst, hcls]
        rw [hE]; exact base_syncTarget e _ op _ _ (hset _ (shaped_setLastCol _ _ _ hh))
      · have hE : vEdit e o .composeBefore m = { o with state := .hom (mulMat (e.nDims o.source) m h) } := by
          simp [vEdit, hst, hcls]
        rw [hE]; exact hset _ (hprod (by simp))
      · have hE : vEdit e o .composeAfter m = { o with state := .hom (mulMat (e.nDims o.source) h m) } := by
          simp [vEdit, hst, hcls]
        rw [hE]; exact hset _ (hprod (by simp))
    case uniformScale =>
      cases k
      · have hE : vEdit e o .fromVector m = syncTarget e { o with
            state := State.hom (setCorner (e.nDims o.source) (fillDiag (e.nDims o.source) (m 0 0) h)) } := by
          simp [vEdit, hst, hcls]
        rw [hE]; exact base_syncTarget e _ op _ _ (hset _ (shaped_scale _ _ _ hh))
      · have hE : vEdit e o .composeBefore m = { o with state := .hom (mulMat (e.nDims o.source) m h) } := by
          simp [vEdit, hst, hcls]
        rw [hE]; exact hset _ (hprod (by simp))
      · have hE : vEdit e o .composeAfter m = { o with state := .hom (mulMat (e.nDims o.source) h m) } := by
          simp [vEdit, hst, hcls]
        rw [hE]; exact hset _ (hprod (by simp))
    case tps => have : vEdit e o k m = o := by cases k <;> simp [vEdit, hst, hcls]
                rw [this]; exact hbase
    case pwa => have : vEdit e o k m = o := by cases k <;> simp [vEdit, hst, hcls]
                rw [this]; exact hbase

/-! ### histories that interleave `set_target` with parameter edits and with the caller moving the held target -/

def LegalV (c : Cls) (d : Nat) : VOp Pts → Prop
  | .edit k m => LegalEdit c d k m
  | _ => True

theorem base_vApply (e : Ext Pts A) (c : Cls) (op : Opts) (s : Pts) (o : Obj Pts A) (a : VOp Pts)
    (hbase : Base e c op s o) (hl : LegalV c (e.nDims s) a) : Base e c op s (vApply e o a) := by
  cases a with
  | set t => exact base_step e c op s t o hbase
  | edit k m => exact base_vEdit e c op s o k m hbase hl
  | targetMoved v => exact base_moveTarget e c op s v o hbase

theorem base_vHistory (e : Ext Pts A) (c : Cls) (op : Opts) (s : Pts) (ops : List (VOp Pts)) :
    ∀ o : Obj Pts A, Base e c op s o → (∀ a ∈ ops, LegalV c (e.nDims s) a) →
      Base e c op s (vHistory e o ops) := by
  induction ops with
  | nil => intro o h _; exact h
  | cons a ops ih =>
    intro o h hl
    exact ih _ (base_vApply e c op s o a h (hl a (by simp))) (fun b hb => hl b (by simp [hb]))

/-- PROPERTY clause 1, "whatever happened before" at full width: take the fresh alignment, let **anything**
happen to it — accepted and rejected `set_target`s, `from_vector_inplace`, `set_rotation_matrix`,
in-place compositions, the caller overwriting the coordinates of the held target object — and then call
`set_target(t)` with a target of the source's shape: the object **is** the freshly constructed alignment
of the same class, with the same options, from the same source to `t`.  A later `set_target` erases the
effect of every earlier parameter edit. -/
theorem set_target_erases_history (e : Ext Pts A) (c : Cls) (op : Opts) (s t0 t : Pts) (o0 : Obj Pts A)
    (hb : build fixed e c op s t0 = .ok o0) (ops : List (VOp Pts))
    (hl : ∀ a ∈ ops, LegalV c (e.nDims s) a) (hsh : SameShape e t s) :
    build fixed e c op s t = .ok (vHistory e o0 (ops ++ [.set t])) := by
  have hbase := base_vHistory e c op s ops o0 (base_of_build e c op s t0 o0 hb) hl
  have := (step_of_base e c op s t _ hbase).1 hsh
  simpa [vHistory, List.foldl_append, vApply] using this

/-- … and a rejected `set_target` after such a history changes nothing -/
theorem rejected_after_history (e : Ext Pts A) (c : Cls) (op : Opts) (s t0 t : Pts) (o0 : Obj Pts A)
    (hb : build fixed e c op s t0 = .ok o0) (ops : List (VOp Pts))
    (hl : ∀ a ∈ ops, LegalV c (e.nDims s) a) (hsh : ¬ SameShape e t s) :
    vHistory e o0 (ops ++ [.set t]) = vHistory e o0 ops := by
  have hbase := base_vHistory e c op s ops o0 (base_of_build e c op s t0 o0 hb) hl
  have := (step_of_base e c op s t _ hbase).2 hsh
  simpa [vHistory, List.foldl_append, vApply] using this

/-! ### objects born from `pseudoinverse()` -/

/-- a fresh alignment can also be built in the other direction, from any point set of the same shape -/
theorem build_swap (e : Ext Pts A) (c : Cls) (op : Opts) (s t0 t' : Pts) (o0 : Obj Pts A)
    (hb : build fixed e c op s t0 = .ok o0) (hsh : SameShape e t' s) :
    ∃ o1, build fixed e c op t' s = .ok o1 ∧ o1.cls = o0.cls ∧ o1.rotation = o0.rotation ∧
      o1.allowMirror = o0.allowMirror ∧ o1.kernel = o0.kernel ∧ o1.minSV = o0.minSV ∧
      (∀ l k, o1.state = .tps l k → l = e.tpsL op.kernel t') ∧ o0.kernel = (if c = .tps then some op.kernel else none) ∧
      o0.minSV = (if c = .tps then some op.minSV else none) := by
  have hv : verifySourceTarget e t' s = .ok () := (verifySourceTarget_ok_iff e t' s).mpr hsh
  unfold build at hb ⊢
  split at hb
  · simp at hb
  · simp only [hv]
    unfold buildCore at hb ⊢
    cases c
    case affine => simp only [fixed, if_true, Except.ok.injEq] at hb ⊢; subst hb; exact ⟨_, rfl, by simp⟩
    case similarity => simp only [fixed, if_true, Except.ok.injEq] at hb ⊢; subst hb; exact ⟨_, rfl, by simp⟩
    case rotation => simp only [fixed, if_true, Except.ok.injEq] at hb ⊢; subst hb; exact ⟨_, rfl, by simp⟩
    case translation =>
      simp only at hb ⊢; split at hb
      · simp at hb
      · rename_i hd; rw [← hsh.1] at hd
        simp only [hd, if_false, Except.ok.injEq] at hb ⊢; subst hb; exact ⟨_, rfl, by simp⟩
    case uniformScale =>
      simp only at hb ⊢; split at hb
      · simp at hb
      · rename_i hd; rw [← hsh.1] at hd
        simp only [hd, if_false, Except.ok.injEq] at hb ⊢; subst hb; exact ⟨_, rfl, by simp⟩
    case tps =>
      simp only at hb ⊢; split at hb
      · simp at hb
      · rename_i hd; rw [← hsh.1] at hd
        simp only [hd, if_false, Except.ok.injEq] at hb ⊢; subst hb
        refine ⟨_, rfl, by simp⟩
    case pwa =>
      simp only at hb ⊢; split at hb
      · simp at hb
      · rename_i hd; rw [← hsh.1] at hd
        simp only [hd, if_false, Except.ok.injEq] at hb ⊢; subst hb; exact ⟨_, rfl, by simp⟩

/-- the pseudoinverse of an object with an intact base has the base of the alignments *from its own source*
(the old target): for the classes that own only part of their matrix the inverse must be class-shaped (the
inverse of a rotation / translation / uniform scale is one) -/
theorem base_pinv (e : Ext Pts A) (inv : Mat → Mat) (c : Cls) (op : Opts) (s : Pts) (o : Obj Pts A)
    (hbase : Base e c op s o) (hc : c ≠ .pwa)
    (hinv : ∀ h, o.state = .hom h → ClassShaped c (e.nDims s) (inv h)) :
    Base e c op o.target (pinv e inv o) := by
  have hsh := base_shape e c op s o hbase
  obtain ⟨t0, o0, hb, hsh0, hcls, hrot, hmir, hker, hsv, hsrc, hst⟩ := hbase
  obtain ⟨o1, hb1, c1, r1, m1, k1, v1, l1, hk0, hv0⟩ := build_swap e c op s t0 o.target o0 hb hsh
  have hcc := (build_target fixed e c op s t0 o0 (fixed_sound c op) hb).2.2
  have hss := (build_target fixed e c op s t0 o0 (fixed_sound c op) hb).2.1
  have ht1 := build_target fixed e c op o.target s o1 (fixed_sound c op) hb1
  have hd : e.nDims o.target = e.nDims s := hsh.1
  obtain ⟨ocls, orot, omir, oker, osv, osrc, otgt, ost⟩ := o
  simp only at hcls hrot hmir hker hsv hsrc hst hsh hd hinv hb1 ht1 l1
  subst hcls
  cases hs0 : o0.state with
  | hom h0 =>
    cases ost <;> simp only [hs0, StateOK] at hst
    rename_i h
    have hnt : o0.cls ≠ .tps := by
      intro hh; rw [hcc] at hh; subst hh
      unfold build at hb; split at hb
      · simp at hb
      · unfold buildCore at hb; simp only at hb; split at hb <;> simp at hb; subst hb; simp at hs0
    have hp : pinv e inv ⟨o0.cls, orot, omir, oker, osv, osrc, otgt, .hom h⟩ =
        ⟨o0.cls, orot, omir, oker, osv, otgt, osrc, .hom (inv h)⟩ := by
      rw [hcc] at hnt ⊢
      cases c <;> simp_all [pinv]
    rw [hp]
    refine ⟨s, o1, hb1, ?_, c1.symm, hrot.trans r1.symm, hmir.trans m1.symm, hker.trans k1.symm,
      hsv.trans v1.symm, ht1.2.1.symm, ?_⟩
    · rw [hsrc, hss]; exact ⟨rfl, rfl⟩
    · cases hs1 : o1.state with
      | hom h1 => simp only [StateOK]; rw [hd]; exact hinv h rfl
      | tps l k =>
        exfalso
        rw [← hcc] at hb1
        unfold build at hb1; split at hb1
        · simp at hb1
        · unfold buildCore at hb1
          cases hc0 : o0.cls <;> simp only [hc0] at hb1 hnt <;>
            first
              | contradiction
              | (simp only [fixed, if_true, Except.ok.injEq] at hb1; subst hb1; simp at hs1)
              | (split at hb1 <;> simp at hb1; subst hb1; simp at hs1)
      | pwa tv =>
        exfalso
        rw [← hcc] at hb1 hc
        unfold build at hb1; split at hb1
        · simp at hb1
        · unfold buildCore at hb1
          cases hc0 : o0.cls <;> simp only [hc0] at hb1 hc <;>
            first
              | contradiction
              | (simp only [fixed, if_true, Except.ok.injEq] at hb1; subst hb1; simp at hs1)
              | (split at hb1 <;> simp at hb1; subst hb1; simp at hs1)
  | tps l0 k0 =>
    cases ost <;> simp only [hs0, StateOK] at hst
    rename_i l k
    have hct : c = .tps := by
      unfold build at hb; split at hb
      · simp at hb
      · unfold buildCore at hb
        cases c <;> simp only at hb <;>
          first
            | rfl
            | (simp only [fixed, if_true, Except.ok.injEq] at hb; subst hb; simp at hs0)
            | (split at hb <;> simp at hb; subst hb; simp at hs0)
    subst hct
    have hk' : oker = some op.kernel := by rw [hker, hk0]; simp
    have hv' : osv = some op.minSV := by rw [hsv, hv0]; simp
    have hp : pinv e inv ⟨o0.cls, orot, omir, oker, osv, osrc, otgt, .tps l k⟩ =
        ⟨o0.cls, orot, omir, oker, osv, otgt, osrc,
          .tps (e.tpsL op.kernel otgt) (e.tpsCoef (e.tpsL op.kernel otgt) op.minSV osrc)⟩ := by
      rw [hcc]; simp [pinv, hk', hv']
    rw [hp]
    refine ⟨s, o1, hb1, ?_, c1.symm, hrot.trans r1.symm, hmir.trans m1.symm, hker.trans k1.symm,
      hsv.trans v1.symm, ht1.2.1.symm, ?_⟩
    · rw [hsrc, hss]; exact ⟨rfl, rfl⟩
    · cases hs1 : o1.state with
      | tps l1' k1' => simp only [StateOK]; exact (l1 l1' k1' hs1).symm
      | hom h1 =>
        exfalso
        unfold build at hb1; split at hb1
        · simp at hb1
        · unfold buildCore at hb1; simp only at hb1; split at hb1 <;> simp at hb1; subst hb1; simp at hs1
      | pwa tv =>
        exfalso
        unfold build at hb1; split at hb1
        · simp at hb1
        · unfold buildCore at hb1; simp only at hb1; split at hb1 <;> simp at hb1; subst hb1; simp at hs1
  | pwa tv0 =>
    exfalso
    unfold build at hb; split at hb
    · simp at hb
    · unfold buildCore at hb
      cases c <;> simp only at hb hc <;>
        first
          | contradiction
          | (simp only [fixed, if_true, Except.ok.injEq] at hb; subst hb; simp at hs0)
          | (split at hb <;> simp at hb; subst hb; simp at hs0)


theorem base_state_shaped (e : Ext Pts A) (c : Cls) (op : Opts) (s : Pts) (o : Obj Pts A) (h : Mat)
    (hbase : Base e c op s o) (hst : o.state = .hom h) : ClassShaped c (e.nDims s) h := by
  obtain ⟨t0, o0, _, _, _, _, _, _, _, _, hok⟩ := hbase
  rw [hst] at hok
  cases hs0 : o0.state <;> simp [hs0, StateOK] at hok
  exact hok

/-- "whatever happened before" includes being born from `pseudoinverse()`: take the fresh alignment, let
anything legal happen to it, invert it, and call `set_target(t)` on the inverse: the result **is** the fresh
alignment of the same class and options from the inverse's own source (the point set the inverted
alignment showed as its target at that moment) to `t`.  For the classes that own only part of their matrix
the inverse of a class-shaped matrix must be class-shaped (the inverse of a rotation is a rotation …). -/
theorem pinv_then_set_target (e : Ext Pts A) (inv : Mat → Mat) (c : Cls) (op : Opts) (s t0 t : Pts)
    (o0 : Obj Pts A) (hb : build fixed e c op s t0 = .ok o0) (ops : List (VOp Pts))
    (hl : ∀ a ∈ ops, LegalV c (e.nDims s) a) (hc : c ≠ .pwa)
    (hinv : ∀ h, ClassShaped c (e.nDims s) h → ClassShaped c (e.nDims s) (inv h))
    (hsh : SameShape e t s) :
    build fixed e c op (vHistory e o0 ops).target t = .ok (step e (pinv e inv (vHistory e o0 ops)) t) := by
  have hbase := base_vHistory e c op s ops o0 (base_of_build e c op s t0 o0 hb) hl
  have hos := base_shape e c op s _ hbase
  have hp := base_pinv e inv c op s _ hbase hc
    (fun h hst => hinv h (base_state_shaped e c op s _ h hbase hst))
  exact (step_of_base e c op _ t _ hp).1 ⟨hsh.1.trans hos.1.symm, hsh.2.trans hos.2.symm⟩


end MenpoModel.C08
