/-
C14 — what `Graph.kruskal` (the model's reference for the minimum-spanning-tree weight) computes,
for graphs of every size.  Core Lean only.
-/
import MenpoModel.Core.C14Kruskal
import MenpoModel.Lemmas.C14Basic

namespace MenpoModel.C14
open Graph

/-! ### `sortBy` is a sorted permutation -/

theorem insertBy_perm {α} (le : α → α → Bool) (x : α) (l : List α) :
    (insertBy le x l).Perm (x :: l) := by
  induction l with
  | nil => exact List.Perm.refl _
  | cons y ys ih =>
    simp only [insertBy]
    split
    · exact List.Perm.refl _
    · exact (List.Perm.cons y ih).trans (List.Perm.swap x y ys)

theorem sortBy_cons {α} (le : α → α → Bool) (a : α) (l : List α) :
    sortBy le (a :: l) = insertBy le a (sortBy le l) := rfl

theorem sortBy_perm {α} (le : α → α → Bool) (l : List α) : (sortBy le l).Perm l := by
  induction l with
  | nil => exact List.Perm.refl _
  | cons a t ih =>
    rw [sortBy_cons]
    exact (insertBy_perm le a _).trans (List.Perm.cons a ih)

theorem mem_sortBy {α} (le : α → α → Bool) (l : List α) (x : α) : x ∈ sortBy le l ↔ x ∈ l :=
  (sortBy_perm le l).mem_iff

theorem insertBy_sorted {α} (le : α → α → Bool)
    (total : ∀ a b, le a b = true ∨ le b a = true)
    (trans : ∀ a b c, le a b = true → le b c = true → le a c = true)
    (x : α) (l : List α) (h : l.Pairwise (fun a b => le a b = true)) :
    (insertBy le x l).Pairwise (fun a b => le a b = true) := by
  induction l with
  | nil => simp [insertBy]
  | cons y ys ih =>
    rw [List.pairwise_cons] at h
    simp only [insertBy]
    split
    · rename_i hxy
      refine List.pairwise_cons.2 ⟨?_, List.pairwise_cons.2 h⟩
      intro z hz
      rcases List.mem_cons.1 hz with rfl | hz
      · exact hxy
      · exact trans _ _ _ hxy (h.1 z hz)
    · rename_i hxy
      refine List.pairwise_cons.2 ⟨?_, ih h.2⟩
      intro z hz
      rcases List.mem_cons.1 ((insertBy_perm le x ys).mem_iff.1 hz) with rfl | hz
      · rcases total z y with h' | h'
        · exact absurd h' hxy
        · exact h'
      · exact h.1 z hz

/-- `sortBy` sorts, for every total transitive order -/
theorem sortBy_sorted {α} (le : α → α → Bool)
    (total : ∀ a b, le a b = true ∨ le b a = true)
    (trans : ∀ a b c, le a b = true → le b c = true → le a c = true)
    (l : List α) : (sortBy le l).Pairwise (fun a b => le a b = true) := by
  induction l with
  | nil => exact List.Pairwise.nil
  | cons a t ih => rw [sortBy_cons]; exact insertBy_sorted le total trans a _ ih

theorem wle_total (a b : WEdge) : wle a b = true ∨ wle b a = true := by
  simp only [wle, decide_eq_true_eq]; omega

theorem wle_trans (a b c : WEdge) (h1 : wle a b = true) (h2 : wle b c = true) : wle a c = true := by
  simp only [wle, decide_eq_true_eq] at *; omega

/-- the candidate list of Kruskal is sorted by weight -/
theorem sorted_candidates (g : Graph) :
    (sortBy wle g.wEdges).Pairwise (fun a b => a.1 ≤ b.1) := by
  have := sortBy_sorted wle wle_total wle_trans g.wEdges
  simpa [wle] using this

/-! ### the candidates -/

/-- the weight `wEdges` attaches to the pair `i, j` -/
def Graph.uw (g : Graph) (i j : Nat) : Nat :=
  if g.w i j = 0 then g.w j i else if g.w j i = 0 then g.w i j else min (g.w i j) (g.w j i)

theorem mem_wEdges (g : Graph) (w i j : Nat) :
    (w, i, j) ∈ g.wEdges ↔ i < j ∧ j < g.n ∧ (g.w i j ≠ 0 ∨ g.w j i ≠ 0) ∧ w = g.uw i j := by
  simp only [Graph.wEdges, Graph.uw, List.mem_flatMap, List.mem_range, List.mem_map, List.mem_filter,
    Bool.and_eq_true, Bool.or_eq_true, decide_eq_true_eq, bne_iff_ne, ne_eq, Prod.mk.injEq]
  constructor
  · rintro ⟨a, ha, b, ⟨hb, hab, he⟩, rfl, rfl, rfl⟩
    exact ⟨hab, hb, he, rfl⟩
  · rintro ⟨hij, hj, he, rfl⟩
    exact ⟨i, by omega, j, ⟨hj, hij, he⟩, rfl, rfl, rfl⟩

theorem wEdges_bounds (g : Graph) (e : WEdge) (h : e ∈ g.wEdges) : e.2.1 < e.2.2 ∧ e.2.2 < g.n := by
  obtain ⟨w, i, j⟩ := e
  exact ⟨((mem_wEdges g w i j).1 h).1, ((mem_wEdges g w i j).1 h).2.1⟩

/-- no candidate is listed twice -/
theorem wEdges_nodup (g : Graph) : g.wEdges.Nodup := by
  have h : (g.wEdges.map fun e => (e.2.1, e.2.2)).Nodup := by
    have : g.wEdges.map (fun e => (e.2.1, e.2.2)) = (List.range g.n).flatMap fun i =>
        ((List.range g.n).filter fun j => decide (i < j) && (g.w i j != 0 || g.w j i != 0)).map
          fun j => (i, j) := by
      simp [Graph.wEdges, List.map_flatMap, Function.comp_def]
    rw [this]
    exact nodup_flatMap_pairs _ List.nodup_range _ (fun i => nodup_range_filter _ _)
  exact List.Pairwise.of_map _ (fun a b hab h' => hab (by rw [h'])) h

theorem candidates_nodup (g : Graph) : (sortBy wle g.wEdges).Nodup :=
  (sortBy_perm wle g.wEdges).nodup_iff.2 (wEdges_nodup g)

/-! ### connectivity through an edge list -/

/-- `u` and `v` are joined by a walk along edges of `es` (in either direction) -/
inductive Conn (es : List WEdge) : Nat → Nat → Prop
  | refl (u : Nat) : Conn es u u
  | step {u v x w : Nat} : Conn es u v → ((w, v, x) ∈ es ∨ (w, x, v) ∈ es) → Conn es u x

theorem Conn.edge {es : List WEdge} {w i j : Nat} (h : (w, i, j) ∈ es) : Conn es i j :=
  .step (.refl i) (.inl h)

theorem Conn.edge' {es : List WEdge} (e : WEdge) (h : e ∈ es) : Conn es e.2.1 e.2.2 :=
  Conn.edge (w := e.1) h

theorem Conn.trans {es : List WEdge} {u v x : Nat} (h1 : Conn es u v) (h2 : Conn es v x) : Conn es u x := by
  induction h2 with
  | refl => exact h1
  | step _ he ih => exact .step ih he

theorem Conn.symm {es : List WEdge} {u v : Nat} (h : Conn es u v) : Conn es v u := by
  induction h with
  | refl => exact .refl _
  | step _ he ih => exact Conn.trans (.step (.refl _) he.symm) ih

theorem Conn.mono {es es' : List WEdge} (hs : ∀ e ∈ es, e ∈ es') {u v : Nat} (h : Conn es u v) : Conn es' u v := by
  induction h with
  | refl => exact .refl _
  | step _ he ih => exact .step ih (he.imp (hs _) (hs _))

/-- connectivity is inherited along any map of edges into connected pairs -/
theorem Conn.of_edges {es es' : List WEdge} (hs : ∀ e ∈ es, Conn es' e.2.1 e.2.2) {u v : Nat}
    (h : Conn es u v) : Conn es' u v := by
  induction h with
  | refl => exact .refl _
  | step _ he ih =>
    rcases he with he | he
    · exact ih.trans (hs _ he)
    · exact ih.trans (hs _ he).symm

theorem Conn.nil {u v : Nat} (h : Conn [] u v) : u = v := by
  induction h with
  | refl => rfl
  | step _ he _ => simp at he

/-- vertices outside the range of the edges are connected to themselves only -/
theorem Conn.lt {es : List WEdge} {n : Nat} (hes : ∀ e ∈ es, e.2.1 < n ∧ e.2.2 < n) {u v : Nat}
    (h : Conn es u v) (hu : u < n) : v < n := by
  induction h with
  | refl => exact hu
  | step _ he _ =>
    rcases he with he | he
    · exact (hes _ he).2
    · exact (hes _ he).1

/-- the key lemma: what one more edge connects -/
theorem conn_cons (e : WEdge) (es : List WEdge) (u v : Nat) :
    Conn (e :: es) u v ↔
      Conn es u v ∨ (Conn es u e.2.1 ∧ Conn es e.2.2 v) ∨ (Conn es u e.2.2 ∧ Conn es e.2.1 v) := by
  constructor
  · intro h
    induction h with
    | refl => exact .inl (.refl _)
    | @step v x w _ he ih =>
      have key : (w, v, x) ∈ es ∨ (w, x, v) ∈ es ∨ (v = e.2.1 ∧ x = e.2.2) ∨ (v = e.2.2 ∧ x = e.2.1) := by
        rcases he with he | he
        · rcases List.mem_cons.1 he with rfl | he
          · exact .inr (.inr (.inl ⟨rfl, rfl⟩))
          · exact .inl he
        · rcases List.mem_cons.1 he with rfl | he
          · exact .inr (.inr (.inr ⟨rfl, rfl⟩))
          · exact .inr (.inl he)
      have ext : ∀ a, Conn es a v → ((w, v, x) ∈ es ∨ (w, x, v) ∈ es) → Conn es a x :=
        fun a ha hh => .step ha hh
      rcases key with he | he | ⟨rfl, rfl⟩ | ⟨rfl, rfl⟩
      · rcases ih with h | ⟨h1, h2⟩ | ⟨h1, h2⟩
        · exact .inl (ext _ h (.inl he))
        · exact .inr (.inl ⟨h1, ext _ h2 (.inl he)⟩)
        · exact .inr (.inr ⟨h1, ext _ h2 (.inl he)⟩)
      · rcases ih with h | ⟨h1, h2⟩ | ⟨h1, h2⟩
        · exact .inl (ext _ h (.inr he))
        · exact .inr (.inl ⟨h1, ext _ h2 (.inr he)⟩)
        · exact .inr (.inr ⟨h1, ext _ h2 (.inr he)⟩)
      · rcases ih with h | ⟨h1, _⟩ | ⟨h1, _⟩
        · exact .inr (.inl ⟨h, .refl _⟩)
        · exact .inr (.inl ⟨h1, .refl _⟩)
        · exact .inl h1
      · rcases ih with h | ⟨h1, _⟩ | ⟨h1, _⟩
        · exact .inr (.inr ⟨h, .refl _⟩)
        · exact .inl h1
        · exact .inr (.inr ⟨h1, .refl _⟩)
  · have m : ∀ {a b}, Conn es a b → Conn (e :: es) a b :=
      fun h => Conn.mono (fun _ hx => List.mem_cons_of_mem _ hx) h
    have he : Conn (e :: es) e.2.1 e.2.2 := Conn.edge' e (List.mem_cons_self)
    rintro (h | ⟨h1, h2⟩ | ⟨h1, h2⟩)
    · exact m h
    · exact ((m h1).trans he).trans (m h2)
    · exact ((m h1).trans he.symm).trans (m h2)

/-! ### forests, in the order the edges are added -/

/-- (newest edge first) no edge joins two vertices that the edges after it in the list connect -/
def ForestR : List WEdge → Prop
  | [] => True
  | e :: es => ¬ Conn es e.2.1 e.2.2 ∧ ForestR es

/-- edge-ordered forest: no edge of the list closes a path made of the edges before it -/
def ForestOrd (es : List WEdge) : Prop :=
  ∀ pre e post, es = pre ++ e :: post → ¬ Conn pre e.2.1 e.2.2

theorem forestR_iff (l : List WEdge) :
    ForestR l ↔ ∀ pre e post, l = pre ++ e :: post → ¬ Conn post e.2.1 e.2.2 := by
  induction l with
  | nil => simp [ForestR]
  | cons a t ih =>
    simp only [ForestR]
    constructor
    · rintro ⟨h1, h2⟩ pre e post heq
      cases pre with
      | nil =>
        simp only [List.nil_append, List.cons.injEq] at heq
        obtain ⟨rfl, rfl⟩ := heq
        exact h1
      | cons b pre' =>
        simp only [List.cons_append, List.cons.injEq] at heq
        exact ih.1 h2 pre' e post heq.2
    · intro h
      exact ⟨h [] a t rfl, ih.2 fun pre e post heq => h (a :: pre) e post (by simp [heq])⟩

theorem forestOrd_iff_reverse (es : List WEdge) : ForestOrd es ↔ ForestR es.reverse := by
  rw [forestR_iff]
  constructor
  · intro h pre e post heq
    have : es = post.reverse ++ e :: pre.reverse := by
      have := congrArg List.reverse heq
      simpa using this
    exact fun hc => h _ _ _ this (Conn.mono (fun x hx => by simpa using hx) hc)
  · intro h pre e post heq
    have : es.reverse = post.reverse ++ e :: pre.reverse := by simp [heq]
    exact fun hc => h _ _ _ this (Conn.mono (fun x hx => by simpa using hx) hc)

theorem forestR_reverse_iff (es : List WEdge) : ForestR es ↔ ForestOrd es.reverse := by
  rw [forestOrd_iff_reverse, List.reverse_reverse]

theorem ForestR.filter (p : WEdge → Bool) : ∀ {l : List WEdge}, ForestR l → ForestR (l.filter p)
  | [], _ => by simp [ForestR]
  | e :: _, h => by
    have ih := ForestR.filter p h.2
    simp only [List.filter_cons]
    split
    · exact ⟨fun hc => h.1 (Conn.mono (fun x hx => (List.mem_filter.1 hx).1) hc), ih⟩
    · exact ih

theorem ForestR.nodup : ∀ {l : List WEdge}, ForestR l → l.Nodup
  | [], _ => List.nodup_nil
  | e :: _, h => List.nodup_cons.2 ⟨fun hm => h.1 (Conn.edge' e hm), ForestR.nodup h.2⟩

theorem nodup_reverse_iff {α} {l : List α} : l.reverse.Nodup ↔ l.Nodup := by
  simp only [List.Nodup, List.pairwise_reverse, ne_comm]

theorem ForestOrd.nodup {l : List WEdge} (h : ForestOrd l) : l.Nodup :=
  nodup_reverse_iff.1 (ForestR.nodup ((forestOrd_iff_reverse l).1 h))

theorem ForestOrd.filter (p : WEdge → Bool) {l : List WEdge} (h : ForestOrd l) : ForestOrd (l.filter p) := by
  rw [forestOrd_iff_reverse] at h ⊢
  rw [← List.filter_reverse]
  exact ForestR.filter p h

/-! ### the label invariant of Kruskal's fold -/

/-- `lab` is a union-find labelling of `0 … n-1` for the components of the chosen edges `ch` -/
structure LabInv (n : Nat) (lab : List Nat) (ch : List WEdge) : Prop where
  len : lab.length = n
  lt : ∀ u, u < n → lab.getD u 0 < n
  idem : ∀ u, u < n → lab.getD (lab.getD u 0) 0 = lab.getD u 0
  conn : ∀ u v, u < n → v < n → (lab.getD u 0 = lab.getD v 0 ↔ Conn ch u v)
  roots : ((List.range n).filter fun r => lab.getD r 0 == r).length + ch.length = n

theorem getD_range (n u : Nat) (h : u < n) : (List.range n).getD u 0 = u := by
  simp [List.getD_eq_getElem?_getD, List.getElem?_range h]

theorem labInv_init (n : Nat) : LabInv n (List.range n) [] where
  len := List.length_range
  lt u hu := by rw [getD_range n u hu]; exact hu
  idem u hu := by rw [getD_range n u hu, getD_range n u hu]
  conn u v hu hv := by
    rw [getD_range n u hu, getD_range n v hv]
    exact ⟨fun h => h ▸ .refl _, Conn.nil⟩
  roots := by
    have : (List.range n).filter (fun r => (List.range n).getD r 0 == r) = List.range n := by
      apply List.filter_eq_self.2
      intro a ha
      rw [getD_range n a (List.mem_range.1 ha)]; simp
    rw [this]; simp

theorem getD_relabel (lab : List Nat) (la lb u : Nat) (h : u < lab.length) :
    (relabel lab la lb).getD u 0 = if lab.getD u 0 = lb then la else lab.getD u 0 := by
  simp [relabel, List.getD_eq_getElem?_getD, List.getElem?_map, List.getElem?_eq_getElem h]

/-- removing one element that satisfies `p` from the filter of a range -/
theorem length_filter_range_remove (p p' : Nat → Bool) (a : Nat) (hp : p a = true)
    (N : Nat) (hp' : ∀ l, l < N → p' l = (p l && l != a)) (n : Nat) (hn : n ≤ N) :
    ((List.range n).filter p').length + (if a < n then 1 else 0) = ((List.range n).filter p).length := by
  induction n with
  | zero => simp
  | succ n ih =>
    have ih := ih (by omega)
    rw [List.range_succ, List.filter_append, List.filter_append, List.length_append, List.length_append]
    by_cases han : a = n
    · subst han
      have h1 : p' a = false := by rw [hp' a (by omega)]; simp
      simp [h1, hp] at ih ⊢
      omega
    · have h1 : p' n = p n := by
        rw [hp' n (by omega)]
        have : (n != a) = true := by simp; omega
        simp [this]
      have h2 : (if a < n + 1 then 1 else 0) = (if a < n then 1 else 0) := by
        by_cases h : a < n
        · simp [h]; omega
        · simp [h]; omega
      simp only [List.filter_cons, List.filter_nil, h1, h2]
      omega

theorem labInv_step {n : Nat} {lab : List Nat} {ch : List WEdge} (inv : LabInv n lab ch) (e : WEdge)
    (hi : e.2.1 < n) (hj : e.2.2 < n) (hne : lab.getD e.2.1 0 ≠ lab.getD e.2.2 0) :
    LabInv n (relabel lab (lab.getD e.2.1 0) (lab.getD e.2.2 0)) (e :: ch) := by
  have hg : ∀ u, u < n → (relabel lab (lab.getD e.2.1 0) (lab.getD e.2.2 0)).getD u 0
      = if lab.getD u 0 = lab.getD e.2.2 0 then lab.getD e.2.1 0 else lab.getD u 0 :=
    fun u hu => getD_relabel lab _ _ u (inv.len ▸ hu)
  refine ⟨by simp [relabel, inv.len], ?_, ?_, ?_, ?_⟩
  · intro u hu
    rw [hg u hu]
    split
    · exact inv.lt _ hi
    · exact inv.lt _ hu
  · intro u hu
    rw [hg u hu]
    split
    · rw [hg _ (inv.lt _ hi), inv.idem _ hi, if_neg hne]
    · rename_i h
      rw [hg _ (inv.lt _ hu), inv.idem _ hu, if_neg h]
  · intro u v hu hv
    rw [hg u hu, hg v hv, conn_cons, ← inv.conn u v hu hv, ← inv.conn u _ hu hi, ← inv.conn _ v hj hv,
      ← inv.conn u _ hu hj, ← inv.conn _ v hi hv]
    split <;> split <;> constructor <;> intro h <;> omega
  · have hcount := length_filter_range_remove
      (fun r => lab.getD r 0 == r)
      (fun r => (relabel lab (lab.getD e.2.1 0) (lab.getD e.2.2 0)).getD r 0 == r)
      (lab.getD e.2.2 0)
      (by show (lab.getD (lab.getD e.2.2 0) 0 == lab.getD e.2.2 0) = true
          rw [inv.idem _ hj]; exact beq_self_eq_true _) n ?_ n (Nat.le_refl n)
    · have hroots := inv.roots
      rw [if_pos (inv.lt _ hj)] at hcount
      simp only [List.length_cons]
      omega
    · intro l hl
      show ((relabel lab (lab.getD e.2.1 0) (lab.getD e.2.2 0)).getD l 0 == l)
        = ((lab.getD l 0 == l) && l != lab.getD e.2.2 0)
      rw [hg l hl]
      have h1 := inv.idem _ hi
      rw [Bool.eq_iff_iff]
      simp only [Bool.and_eq_true, beq_iff_eq, bne_iff_ne, ne_eq]
      split
      · rename_i h
        constructor
        · intro h2
          rw [← h2, h1] at h; exact absurd h hne
        · rintro ⟨h2, h3⟩; exact absurd (h2.symm.trans h) h3
      · rename_i h
        constructor
        · intro h2; exact ⟨h2, fun h3 => h (h2.trans h3)⟩
        · exact fun h2 => h2.1

/-! ### the fold -/

theorem kruskalFold_cons (e : WEdge) (es : List WEdge) (st : List Nat × List WEdge) :
    kruskalFold (e :: es) st = kruskalFold es (kruskalStep st e) := rfl

theorem kruskalStep_eq (lab : List Nat) (ch : List WEdge) (e : WEdge) :
    kruskalStep (lab, ch) e =
      if lab.getD e.2.1 0 = lab.getD e.2.2 0 then (lab, ch)
      else (relabel lab (lab.getD e.2.1 0) (lab.getD e.2.2 0), e :: ch) := rfl

/-- the edges taken are a sublist of the candidates, put in front of those taken before -/
theorem kruskalFold_chosen (es : List WEdge) : ∀ (lab : List Nat) (ch : List WEdge),
    ∃ s : List WEdge, s.Sublist es ∧ (kruskalFold es (lab, ch)).2 = s.reverse ++ ch := by
  induction es with
  | nil => intro lab ch; exact ⟨[], List.Sublist.refl _, rfl⟩
  | cons e es ih =>
    intro lab ch
    rw [kruskalFold_cons, kruskalStep_eq]
    split
    · obtain ⟨s, hs, h⟩ := ih lab ch
      exact ⟨s, hs.cons e, h⟩
    · obtain ⟨s, hs, h⟩ := ih (relabel lab (lab.getD e.2.1 0) (lab.getD e.2.2 0)) (e :: ch)
      exact ⟨e :: s, hs.cons_cons e, by rw [h]; simp⟩

theorem kruskalFold_keeps (es : List WEdge) (lab : List Nat) (ch : List WEdge) (c : WEdge) (hc : c ∈ ch) :
    c ∈ (kruskalFold es (lab, ch)).2 := by
  obtain ⟨s, _, hs⟩ := kruskalFold_chosen es lab ch
  rw [hs]; exact List.mem_append_right _ hc

theorem kruskalFold_spec (n : Nat) (es : List WEdge) (hes : ∀ e ∈ es, e.2.1 < n ∧ e.2.2 < n) :
    ∀ (lab : List Nat) (ch : List WEdge), LabInv n lab ch → ForestR ch →
      LabInv n (kruskalFold es (lab, ch)).1 (kruskalFold es (lab, ch)).2 ∧
      ForestR (kruskalFold es (lab, ch)).2 ∧
      ∀ e ∈ es, Conn (kruskalFold es (lab, ch)).2 e.2.1 e.2.2 := by
  induction es with
  | nil => intro lab ch inv hf; exact ⟨inv, hf, by simp⟩
  | cons e es ih =>
    intro lab ch inv hf
    have hb := hes e (List.mem_cons_self)
    have hes' : ∀ x ∈ es, x.2.1 < n ∧ x.2.2 < n := fun x hx => hes x (List.mem_cons_of_mem _ hx)
    rw [kruskalFold_cons, kruskalStep_eq]
    split
    · rename_i heq
      obtain ⟨h1, h2, h3⟩ := ih hes' lab ch inv hf
      refine ⟨h1, h2, ?_⟩
      intro x hx
      rcases List.mem_cons.1 hx with rfl | hx
      · exact Conn.mono (fun y hy => kruskalFold_keeps es lab ch y hy) ((inv.conn _ _ hb.1 hb.2).1 heq)
      · exact h3 x hx
    · rename_i hne
      have inv' := labInv_step inv e hb.1 hb.2 hne
      have hf' : ForestR (e :: ch) := ⟨fun hc => hne ((inv.conn _ _ hb.1 hb.2).2 hc), hf⟩
      obtain ⟨h1, h2, h3⟩ := ih hes' _ _ inv' hf'
      refine ⟨h1, h2, ?_⟩
      intro x hx
      rcases List.mem_cons.1 hx with rfl | hx
      · exact Conn.mono (fun y hy => kruskalFold_keeps es _ _ y hy) (Conn.edge' x List.mem_cons_self)
      · exact h3 x hx

/-- on a weight-sorted candidate list every candidate is connected by chosen edges that are not heavier -/
theorem kruskalFold_light (n : Nat) (es : List WEdge) (hes : ∀ e ∈ es, e.2.1 < n ∧ e.2.2 < n)
    (hsorted : es.Pairwise (fun a b => a.1 ≤ b.1)) :
    ∀ (lab : List Nat) (ch : List WEdge), LabInv n lab ch → (∀ c ∈ ch, ∀ e ∈ es, c.1 ≤ e.1) →
      ∀ e ∈ es, Conn ((kruskalFold es (lab, ch)).2.filter fun c => decide (c.1 ≤ e.1)) e.2.1 e.2.2 := by
  induction es with
  | nil => intro lab ch _ _; simp
  | cons e es ih =>
    intro lab ch inv hle
    have hb := hes e (List.mem_cons_self)
    have hes' : ∀ x ∈ es, x.2.1 < n ∧ x.2.2 < n := fun x hx => hes x (List.mem_cons_of_mem _ hx)
    rw [List.pairwise_cons] at hsorted
    rw [kruskalFold_cons, kruskalStep_eq]
    split
    · rename_i heq
      intro x hx
      rcases List.mem_cons.1 hx with rfl | hx
      · refine Conn.mono (fun y hy => ?_) ((inv.conn _ _ hb.1 hb.2).1 heq)
        exact List.mem_filter.2 ⟨kruskalFold_keeps es lab ch y hy, by simpa using hle y hy x List.mem_cons_self⟩
      · exact ih hes' hsorted.2 lab ch inv (fun c hc y hy => hle c hc y (List.mem_cons_of_mem _ hy)) x hx
    · rename_i hne
      have inv' := labInv_step inv e hb.1 hb.2 hne
      intro x hx
      rcases List.mem_cons.1 hx with rfl | hx
      · refine Conn.edge' x (List.mem_filter.2 ⟨kruskalFold_keeps es _ _ x List.mem_cons_self, by simp⟩)
      · refine ih hes' hsorted.2 _ _ inv' (fun c hc y hy => ?_) x hx
        rcases List.mem_cons.1 hc with rfl | hc
        · exact hsorted.1 y hy
        · exact hle c hc y (List.mem_cons_of_mem _ hy)

theorem conn_reverse (es : List WEdge) (u v : Nat) : Conn es.reverse u v ↔ Conn es u v :=
  ⟨Conn.mono (fun x hx => by simpa using hx), Conn.mono (fun x hx => by simpa using hx)⟩

/-! ### (a) the numbers of `Graph.kruskal` are the weight and the size of the collected edge set -/

/-- the step of `Graph.kruskal` itself -/
def kruskalStep0 (st : List Nat × Nat × Nat) (e : WEdge) : List Nat × Nat × Nat :=
  let (lab, tot, cnt) := st
  let la := lab.getD e.2.1 0
  let lb := lab.getD e.2.2 0
  if la = lb then st else (lab.map fun l => if l = lb then la else l, tot + e.1, cnt + 1)

theorem kruskal_def (g : Graph) :
    g.kruskal = (((sortBy wle g.wEdges).foldl kruskalStep0 (List.range g.n, 0, 0)).2.1,
                 ((sortBy wle g.wEdges).foldl kruskalStep0 (List.range g.n, 0, 0)).2.2) := rfl

theorem kruskalStep0_eq (lab : List Nat) (tot cnt : Nat) (e : WEdge) :
    kruskalStep0 (lab, tot, cnt) e =
      if lab.getD e.2.1 0 = lab.getD e.2.2 0 then (lab, tot, cnt)
      else (relabel lab (lab.getD e.2.1 0) (lab.getD e.2.2 0), tot + e.1, cnt + 1) := rfl

theorem foldl_kruskalStep0 (es : List WEdge) : ∀ (lab : List Nat) (ch : List WEdge),
    es.foldl kruskalStep0 (lab, (ch.map (·.1)).sum, ch.length) =
      ((kruskalFold es (lab, ch)).1, ((kruskalFold es (lab, ch)).2.map (·.1)).sum,
        (kruskalFold es (lab, ch)).2.length) := by
  induction es with
  | nil => intro lab ch; rfl
  | cons e es ih =>
    intro lab ch
    rw [List.foldl_cons, kruskalFold_cons, kruskalStep0_eq, kruskalStep_eq]
    split
    · exact ih lab ch
    · have := ih (relabel lab (lab.getD e.2.1 0) (lab.getD e.2.2 0)) (e :: ch)
      simp only [List.map_cons, List.sum_cons, List.length_cons] at this
      rw [← this, Nat.add_comm e.1]

/-- (a) the driver's two numbers are the total weight and the number of the edges Kruskal takes -/
theorem kruskal_eq_edges (g : Graph) :
    g.kruskal = ((g.kruskalEdges.map (·.1)).sum, g.kruskalEdges.length) := by
  have := foldl_kruskalStep0 (sortBy wle g.wEdges) (List.range g.n) []
  simp only [List.map_nil, List.sum_nil, List.length_nil] at this
  rw [kruskal_def, this]
  simp [Graph.kruskalEdges, Graph.kruskalState]

/-! ### (b) the chosen edges are candidates -/

theorem candidates_bounds (g : Graph) : ∀ e ∈ sortBy wle g.wEdges, e.2.1 < g.n ∧ e.2.2 < g.n := by
  intro e he
  have := wEdges_bounds g e ((mem_sortBy _ _ _).1 he)
  omega

/-- (b) the chosen list is a sublist (order kept) of the weight-sorted candidate list -/
theorem kruskalEdges_sublist (g : Graph) : g.kruskalEdges.Sublist (sortBy wle g.wEdges) := by
  obtain ⟨s, hs, h⟩ := kruskalFold_chosen (sortBy wle g.wEdges) (List.range g.n) []
  have : g.kruskalEdges = s := by
    simp only [Graph.kruskalEdges, Graph.kruskalState, h, List.append_nil, List.reverse_reverse]
  rw [this]; exact hs

/-- (b) every chosen edge is a candidate -/
theorem kruskalEdges_subset (g : Graph) (e : WEdge) (h : e ∈ g.kruskalEdges) : e ∈ g.wEdges :=
  (mem_sortBy _ _ _).1 ((kruskalEdges_sublist g).subset h)

/-- (b) a chosen edge `(w, i, j)` has `i < j < n`, is stored in at least one orientation, and `w`
is the stored weight (the smaller one when both orientations are stored) -/
theorem kruskalEdges_mem (g : Graph) (w i j : Nat) (h : (w, i, j) ∈ g.kruskalEdges) :
    i < j ∧ j < g.n ∧ (g.w i j ≠ 0 ∨ g.w j i ≠ 0) ∧ w = g.uw i j :=
  (mem_wEdges g w i j).1 (kruskalEdges_subset g _ h)

/-- the chosen edges are listed by increasing weight -/
theorem kruskalEdges_sorted (g : Graph) : g.kruskalEdges.Pairwise (fun a b => a.1 ≤ b.1) :=
  (sorted_candidates g).sublist (kruskalEdges_sublist g)

/-! ### (c), (d), (e) forest, spanning, count -/

theorem kruskalState_spec (g : Graph) :
    LabInv g.n g.kruskalLabels g.kruskalState.2 ∧ ForestR g.kruskalState.2 ∧
      ∀ e ∈ g.wEdges, Conn g.kruskalState.2 e.2.1 e.2.2 := by
  obtain ⟨h1, h2, h3⟩ := kruskalFold_spec g.n (sortBy wle g.wEdges) (candidates_bounds g)
    (List.range g.n) [] (labInv_init g.n) trivial
  exact ⟨h1, h2, fun e he => h3 e ((mem_sortBy _ _ _).2 he)⟩

/-- (c) FOREST, in order of choice: the end points of every chosen edge are not connected by the
edges chosen before it — no chosen edge closes a path -/
theorem kruskal_forest (g : Graph) : ForestOrd g.kruskalEdges :=
  (forestR_reverse_iff _).1 (kruskalState_spec g).2.1

/-- (c), spelled out -/
theorem kruskal_forest' (g : Graph) (pre post : List WEdge) (e : WEdge)
    (h : g.kruskalEdges = pre ++ e :: post) : ¬ Conn pre e.2.1 e.2.2 :=
  kruskal_forest g pre e post h

/-- (b) no edge is chosen twice -/
theorem kruskalEdges_nodup (g : Graph) : g.kruskalEdges.Nodup := (kruskal_forest g).nodup

/-- (d) SPANNING: the chosen edges connect exactly what the graph connects (for all `u`, `v`;
vertices `≥ n` are connected only to themselves on both sides) -/
theorem kruskal_spanning (g : Graph) (u v : Nat) : Conn g.wEdges u v ↔ Conn g.kruskalEdges u v := by
  constructor
  · intro h
    exact (conn_reverse _ _ _).2 (Conn.of_edges (kruskalState_spec g).2.2 h)
  · exact Conn.mono (kruskalEdges_subset g)

/-- every candidate has its end points connected by the chosen edges -/
theorem kruskal_candidate_conn (g : Graph) (e : WEdge) (he : e ∈ g.wEdges) :
    Conn g.kruskalEdges e.2.1 e.2.2 :=
  (kruskal_spanning g _ _).1 (Conn.edge' e he)

/-- the final labels: `lab[u] = lab[v]` iff the graph connects `u` and `v` -/
theorem kruskalLabels_conn (g : Graph) (u v : Nat) (hu : u < g.n) (hv : v < g.n) :
    g.kruskalLabels.getD u 0 = g.kruskalLabels.getD v 0 ↔ Conn g.wEdges u v := by
  rw [(kruskalState_spec g).1.conn u v hu hv, kruskal_spanning, Graph.kruskalEdges, conn_reverse]

theorem kruskalLabels_length (g : Graph) : g.kruskalLabels.length = g.n := (kruskalState_spec g).1.len

theorem mem_kruskalRoots (g : Graph) (r : Nat) :
    r ∈ g.kruskalRoots ↔ r < g.n ∧ g.kruskalLabels.getD r 0 = r := by
  simp [Graph.kruskalRoots]

theorem kruskalRoots_nodup (g : Graph) : g.kruskalRoots.Nodup :=
  List.Nodup.sublist List.filter_sublist List.nodup_range

/-- the label of a vertex is the root of its component -/
theorem kruskalLabel_root (g : Graph) (u : Nat) (hu : u < g.n) :
    g.kruskalLabels.getD u 0 ∈ g.kruskalRoots ∧ Conn g.wEdges u (g.kruskalLabels.getD u 0) := by
  have inv := (kruskalState_spec g).1
  refine ⟨(mem_kruskalRoots g _).2 ⟨inv.lt u hu, inv.idem u hu⟩, ?_⟩
  exact (kruskalLabels_conn g u _ hu (inv.lt u hu)).1 (inv.idem u hu).symm

/-- (e) the roots are a transversal of the components of the graph: every vertex is connected to
exactly one root, so `kruskalRoots.length` is the number of components … -/
theorem kruskalRoots_transversal (g : Graph) (u : Nat) (hu : u < g.n) :
    ∃ r, r ∈ g.kruskalRoots ∧ Conn g.wEdges u r ∧
      ∀ r', r' ∈ g.kruskalRoots → Conn g.wEdges u r' → r' = r := by
  refine ⟨_, (kruskalLabel_root g u hu).1, (kruskalLabel_root g u hu).2, ?_⟩
  intro r' hr' hc
  obtain ⟨hlt, hroot⟩ := (mem_kruskalRoots g r').1 hr'
  exact hroot.symm.trans ((kruskalLabels_conn g u r' hu hlt).2 hc).symm

/-- two different roots lie in different components -/
theorem kruskalRoots_separated (g : Graph) (r r' : Nat) (hr : r ∈ g.kruskalRoots)
    (hr' : r' ∈ g.kruskalRoots) (hc : Conn g.wEdges r r') : r = r' := by
  obtain ⟨hlt, hroot⟩ := (mem_kruskalRoots g r).1 hr
  obtain ⟨hlt', hroot'⟩ := (mem_kruskalRoots g r').1 hr'
  rw [← hroot, ← hroot']
  exact (kruskalLabels_conn g r r' hlt hlt').2 hc

/-- (e) … and (number of chosen edges) + (number of components) = n: every union removes exactly
one root -/
theorem kruskal_count (g : Graph) : g.kruskalEdges.length + g.kruskalRoots.length = g.n := by
  have := (kruskalState_spec g).1.roots
  simp only [Graph.kruskalEdges, Graph.kruskalRoots, List.length_reverse]
  rw [Nat.add_comm]; exact this

/-! ### (f) minimality -/

/-- pigeonhole: a list without duplicates that is mapped injectively into `l'` is not longer -/
theorem length_le_of_inj (f : Nat → Nat) : ∀ (l l' : List Nat), l.Nodup →
    (∀ a ∈ l, ∀ b ∈ l, f a = f b → a = b) → (∀ x ∈ l, f x ∈ l') → l.length ≤ l'.length
  | [], _, _, _, _ => Nat.zero_le _
  | a :: t, l', hn, hinj, hs => by
    rw [List.nodup_cons] at hn
    have ha : f a ∈ l' := hs a List.mem_cons_self
    have ih := length_le_of_inj f t (l'.erase (f a)) hn.2
      (fun x hx y hy => hinj x (List.mem_cons_of_mem _ hx) y (List.mem_cons_of_mem _ hy))
      (fun x hx => by
        have hne : f x ≠ f a := fun h =>
          hn.1 (hinj x (List.mem_cons_of_mem _ hx) a List.mem_cons_self h ▸ hx)
        exact (List.mem_erase_of_ne hne).2 (hs x (List.mem_cons_of_mem _ hx)))
    rw [List.length_erase_of_mem ha] at ih
    have := List.length_pos_of_mem ha
    simp only [List.length_cons]
    omega

/-- every edge-ordered forest on `0 … n-1` has a union-find labelling -/
theorem forest_labels (n : Nat) : ∀ (A : List WEdge), (∀ e ∈ A, e.2.1 < n ∧ e.2.2 < n) → ForestR A →
    ∃ lab, LabInv n lab A
  | [], _, _ => ⟨_, labInv_init n⟩
  | e :: es, hb, hf => by
    obtain ⟨lab, inv⟩ := forest_labels n es (fun x hx => hb x (List.mem_cons_of_mem _ hx)) hf.2
    have hbe := hb e List.mem_cons_self
    exact ⟨_, labInv_step inv e hbe.1 hbe.2 (fun h => hf.1 ((inv.conn _ _ hbe.1 hbe.2).1 h))⟩

/-- the rank lemma: a forest whose connectivity is contained in that of another forest has at most
as many edges (`|A| = n - #components(A)`) -/
theorem forest_length_le (n : Nat) (A B : List WEdge)
    (hA : ∀ e ∈ A, e.2.1 < n ∧ e.2.2 < n) (hB : ∀ e ∈ B, e.2.1 < n ∧ e.2.2 < n)
    (fA : ForestR A) (fB : ForestR B)
    (h : ∀ u v, u < n → v < n → Conn A u v → Conn B u v) : A.length ≤ B.length := by
  obtain ⟨la, ia⟩ := forest_labels n A hA fA
  obtain ⟨lb, ib⟩ := forest_labels n B hB fB
  have key : ((List.range n).filter fun r => lb.getD r 0 == r).length
      ≤ ((List.range n).filter fun r => la.getD r 0 == r).length := by
    apply length_le_of_inj (fun r => la.getD r 0) _ _
      (List.Nodup.sublist List.filter_sublist List.nodup_range)
    · intro a ha b hb hab
      simp only [List.mem_filter, List.mem_range, beq_iff_eq] at ha hb
      have h1 : Conn A a b := (ia.conn a b ha.1 hb.1).1 hab
      have h2 := (ib.conn a b ha.1 hb.1).2 (h a b ha.1 hb.1 h1)
      rw [ha.2, hb.2] at h2
      exact h2
    · intro x hx
      simp only [List.mem_filter, List.mem_range, beq_iff_eq] at hx ⊢
      exact ⟨ia.lt x hx.1, ia.idem x hx.1⟩
  have := ia.roots
  have := ib.roots
  omega

/-- number of entries above the threshold `t` -/
def above (t : Nat) (l : List Nat) : Nat := l.countP fun x => decide (t < x)

/-- the positive entries, each lowered by one -/
def lower (l : List Nat) : List Nat := (l.filter fun x => decide (0 < x)).map (· - 1)

theorem sum_eq_lower (l : List Nat) : l.sum = (lower l).sum + above 0 l := by
  induction l with
  | nil => rfl
  | cons a t ih =>
    by_cases h : 0 < a
    · simp only [lower, above, List.filter_cons, h, decide_true, if_true, List.map_cons, List.sum_cons,
        List.countP_cons] at ih ⊢
      omega
    · simp only [lower, above, List.filter_cons, h, decide_false, List.sum_cons,
        List.countP_cons] at ih ⊢
      simp at ih ⊢
      omega

theorem above_lower (t : Nat) (l : List Nat) : above t (lower l) = above (t + 1) l := by
  induction l with
  | nil => rfl
  | cons a s ih =>
    by_cases h : 0 < a
    · simp only [lower, above, List.filter_cons, h, decide_true, if_true, List.map_cons,
        List.countP_cons] at ih ⊢
      rw [ih]
      by_cases h2 : t + 1 < a
      · have : t < a - 1 := by omega
        simp [h2, this]
      · have : ¬ t < a - 1 := by omega
        simp [h2, this]
    · have h2 : ¬ t + 1 < a := by omega
      simp only [lower, above, List.filter_cons, h, decide_false, List.countP_cons, h2] at ih ⊢
      simpa using ih

theorem sum_eq_zero_of_le_zero (l : List Nat) (h : ∀ x ∈ l, x ≤ 0) : l.sum = 0 := by
  induction l with
  | nil => rfl
  | cons a t ih =>
    have := h a List.mem_cons_self
    have := ih fun x hx => h x (List.mem_cons_of_mem _ hx)
    simp only [List.sum_cons]; omega

theorem le_sum_of_mem (l : List Nat) (x : Nat) (h : x ∈ l) : x ≤ l.sum := by
  induction l with
  | nil => simp at h
  | cons a t ih =>
    simp only [List.sum_cons]
    rcases List.mem_cons.1 h with rfl | h
    · omega
    · have := ih h; omega

/-- layer cake: a list that has, above every threshold, at most as many entries as another has at
most its sum -/
theorem sum_le_of_above_le : ∀ (T : Nat) (K F : List Nat), (∀ x ∈ K, x ≤ T) →
    (∀ t, above t K ≤ above t F) → K.sum ≤ F.sum
  | 0, K, F, hK, _ => by rw [sum_eq_zero_of_le_zero K hK]; exact Nat.zero_le _
  | T + 1, K, F, hK, h => by
    have ih := sum_le_of_above_le T (lower K) (lower F)
      (fun x hx => by
        simp only [lower, List.mem_map, List.mem_filter, decide_eq_true_eq] at hx
        obtain ⟨y, ⟨hy, _⟩, rfl⟩ := hx
        have := hK y hy
        omega)
      (fun t => by rw [above_lower, above_lower]; exact h (t + 1))
    rw [sum_eq_lower K, sum_eq_lower F]
    have := h 0
    omega

theorem above_weights (t : Nat) (L : List WEdge) :
    above t (L.map (·.1)) + (L.filter fun c => decide (c.1 ≤ t)).length = L.length := by
  induction L with
  | nil => rfl
  | cons a s ih =>
    by_cases h : a.1 ≤ t
    · have h2 : ¬ t < a.1 := by omega
      simp only [above, List.map_cons, List.countP_cons, List.filter_cons, h, h2, decide_true,
        decide_false, if_true, List.length_cons] at ih ⊢
      simp at ih ⊢
      omega
    · have h2 : t < a.1 := by omega
      simp only [above, List.map_cons, List.countP_cons, List.filter_cons, h, h2, decide_true,
        decide_false, List.length_cons] at ih ⊢
      simp at ih ⊢
      omega

theorem sublist_sum_le {l l' : List Nat} (h : l.Sublist l') : l.sum ≤ l'.sum := by
  induction h with
  | slnil => exact Nat.le_refl _
  | cons a _ ih => simp only [List.sum_cons]; omega
  | cons_cons a _ ih => simp only [List.sum_cons]; omega

/-- Kruskal-specific: every candidate is connected by chosen edges that are not heavier than it -/
theorem kruskal_light (g : Graph) (e : WEdge) (he : e ∈ g.wEdges) :
    Conn (g.kruskalState.2.filter fun c => decide (c.1 ≤ e.1)) e.2.1 e.2.2 :=
  kruskalFold_light g.n (sortBy wle g.wEdges) (candidates_bounds g) (sorted_candidates g)
    (List.range g.n) [] (labInv_init g.n) (fun _ hc => by simp at hc) e ((mem_sortBy _ _ _).2 he)

theorem wEdges_bounds' (g : Graph) (e : WEdge) (h : e ∈ g.wEdges) : e.2.1 < g.n ∧ e.2.2 < g.n := by
  have := wEdges_bounds g e h; omega

theorem mem_kruskalState (g : Graph) (e : WEdge) : e ∈ g.kruskalState.2 ↔ e ∈ g.kruskalEdges := by
  simp [Graph.kruskalEdges]

/-- minimality against edge-ordered forests (newest first) -/
theorem kruskal_minimal_forestR (g : Graph) (F : List WEdge) (hsub : ∀ e ∈ F, e ∈ g.wEdges)
    (hF : ForestR F) (hspan : ∀ u v, u < g.n → v < g.n → Conn g.wEdges u v → Conn F u v) :
    (g.kruskalState.2.map (·.1)).sum ≤ (F.map (·.1)).sum := by
  have hKsub : ∀ e ∈ g.kruskalState.2, e ∈ g.wEdges :=
    fun e he => kruskalEdges_subset g e ((mem_kruskalState g e).1 he)
  have hKf : ForestR g.kruskalState.2 := (kruskalState_spec g).2.1
  have hKb : ∀ e ∈ g.kruskalState.2, e.2.1 < g.n ∧ e.2.2 < g.n := fun e he => wEdges_bounds' g e (hKsub e he)
  have hFb : ∀ e ∈ F, e.2.1 < g.n ∧ e.2.2 < g.n := fun e he => wEdges_bounds' g e (hsub e he)
  have hlen : g.kruskalState.2.length ≤ F.length :=
    forest_length_le g.n _ _ hKb hFb hKf hF fun u v hu hv hc => hspan u v hu hv (Conn.mono hKsub hc)
  apply sum_le_of_above_le ((g.kruskalState.2.map (·.1)).sum) _ _ (fun x hx => le_sum_of_mem _ x hx)
  intro t
  have h1 := above_weights t g.kruskalState.2
  have h2 := above_weights t F
  have h3 : (F.filter fun c => decide (c.1 ≤ t)).length
      ≤ (g.kruskalState.2.filter fun c => decide (c.1 ≤ t)).length := by
    apply forest_length_le g.n
    · exact fun e he => hFb e (List.mem_filter.1 he).1
    · exact fun e he => hKb e (List.mem_filter.1 he).1
    · exact hF.filter _
    · exact hKf.filter _
    · intro u v _ _ hc
      refine Conn.of_edges (fun e he => ?_) hc
      obtain ⟨heF, het⟩ := List.mem_filter.1 he
      have het : e.1 ≤ t := by simpa using het
      refine Conn.mono (fun c hc => ?_) (kruskal_light g e (hsub e heF))
      obtain ⟨hc1, hc2⟩ := List.mem_filter.1 hc
      have hc2 : c.1 ≤ e.1 := by simpa using hc2
      exact List.mem_filter.2 ⟨hc1, by simpa using Nat.le_trans hc2 het⟩
  omega

/-- (f) MINIMALITY, strongest form: the weight of the chosen edges is at most the weight of ANY
list of candidate edges that connects what the graph connects (no forest hypothesis, duplicates
allowed) -/
theorem kruskal_minimal (g : Graph) (F : List WEdge) (hsub : ∀ e ∈ F, e ∈ g.wEdges)
    (hspan : ∀ u v, u < g.n → v < g.n → Conn g.wEdges u v → Conn F u v) :
    (g.kruskalEdges.map (·.1)).sum ≤ (F.map (·.1)).sum := by
  -- a spanning forest inside `F`, by the same fold
  have hFb : ∀ e ∈ F, e.2.1 < g.n ∧ e.2.2 < g.n := fun e he => wEdges_bounds' g e (hsub e he)
  obtain ⟨_, hF', hconn⟩ := kruskalFold_spec g.n F hFb (List.range g.n) [] (labInv_init g.n) trivial
  obtain ⟨s, hs, hF'eq⟩ := kruskalFold_chosen F (List.range g.n) []
  rw [List.append_nil] at hF'eq
  have hsub' : ∀ e ∈ (kruskalFold F (List.range g.n, [])).2, e ∈ g.wEdges := by
    intro e he
    rw [hF'eq] at he
    exact hsub e (hs.subset (List.mem_reverse.1 he))
  have hmin := kruskal_minimal_forestR g _ hsub' hF'
    (fun u v hu hv hc => Conn.of_edges hconn (hspan u v hu hv hc))
  have h1 : (g.kruskalEdges.map (·.1)).sum = (g.kruskalState.2.map (·.1)).sum := by
    simp [Graph.kruskalEdges]
  have h2 : ((kruskalFold F (List.range g.n, [])).2.map (·.1)).sum ≤ (F.map (·.1)).sum := by
    rw [hF'eq, List.map_reverse, List.sum_reverse_nat]
    exact sublist_sum_le (hs.map _)
  omega

/-- (f) in the form asked for: every sublist of the candidates that is an edge-ordered forest
with the same connectivity as the graph weighs at least as much as Kruskal's choice -/
theorem kruskal_minimal_forest (g : Graph) (F : List WEdge) (hsub : F.Sublist g.wEdges)
    (_hF : ForestOrd F) (hspan : ∀ u v, u < g.n → v < g.n → (Conn g.wEdges u v ↔ Conn F u v)) :
    (g.kruskalEdges.map (·.1)).sum ≤ (F.map (·.1)).sum :=
  kruskal_minimal g F (fun _ he => hsub.subset he) fun u v hu hv => (hspan u v hu hv).1

/-- Kruskal's choice is itself such a spanning forest of candidates, so the bound is attained -/
theorem kruskal_is_spanning_forest (g : Graph) :
    (∀ e ∈ g.kruskalEdges, e ∈ g.wEdges) ∧ ForestOrd g.kruskalEdges ∧
      ∀ u v, Conn g.wEdges u v ↔ Conn g.kruskalEdges u v :=
  ⟨kruskalEdges_subset g, kruskal_forest g, kruskal_spanning g⟩

/-! ### cycle-free, independent of the order -/

/-- in an edge-ordered forest every edge is a bridge: its end points are not connected by the
other edges (those before AND those after it) -/
theorem ForestR.bridge : ∀ {l : List WEdge}, ForestR l → ∀ pre e post, l = pre ++ e :: post →
    ¬ Conn (pre ++ post) e.2.1 e.2.2
  | [], _, pre, e, post, heq => by simp at heq
  | a :: t, h, pre, e, post, heq => by
    cases pre with
    | nil =>
      simp only [List.nil_append, List.cons.injEq] at heq
      obtain ⟨rfl, rfl⟩ := heq
      exact h.1
    | cons b pre' =>
      simp only [List.cons_append, List.cons.injEq] at heq
      obtain ⟨rfl, rfl⟩ := heq
      have ih := ForestR.bridge h.2 pre' e post rfl
      intro hc
      rw [List.cons_append, conn_cons] at hc
      have m : ∀ {x y}, Conn (pre' ++ post) x y → Conn (pre' ++ e :: post) x y :=
        fun hxy => Conn.mono (fun z hz => by
          rcases List.mem_append.1 hz with hz | hz
          · exact List.mem_append_left _ hz
          · exact List.mem_append_right _ (List.mem_cons_of_mem _ hz)) hxy
      have he : Conn (pre' ++ e :: post) e.2.1 e.2.2 :=
        Conn.edge' e (List.mem_append_right _ List.mem_cons_self)
      rcases hc with hc | ⟨h1, h2⟩ | ⟨h1, h2⟩
      · exact ih hc
      · exact h.1 (((m h1).symm.trans he).trans (m h2).symm)
      · exact h.1 (((m h2).trans he.symm).trans (m h1))

theorem ForestOrd.bridge {l : List WEdge} (h : ForestOrd l) (pre post : List WEdge) (e : WEdge)
    (heq : l = pre ++ e :: post) : ¬ Conn (pre ++ post) e.2.1 e.2.2 := by
  have h' := (forestOrd_iff_reverse l).1 h
  have : l.reverse = post.reverse ++ e :: pre.reverse := by simp [heq]
  intro hc
  refine ForestR.bridge h' _ _ _ this (Conn.mono (fun x hx => ?_) hc)
  rcases List.mem_append.1 hx with hx | hx
  · exact List.mem_append_right _ (List.mem_reverse.2 hx)
  · exact List.mem_append_left _ (List.mem_reverse.2 hx)

/-- (c) cycle-free, order-independent form: every chosen edge is a bridge of the chosen set — its end
points are not connected by the other chosen edges (so no chosen edge lies on a cycle) -/
theorem kruskal_bridges (g : Graph) (e : WEdge) (he : e ∈ g.kruskalEdges) :
    ¬ Conn (g.kruskalEdges.filter fun x => x != e) e.2.1 e.2.2 := by
  obtain ⟨pre, post, heq⟩ := List.append_of_mem he
  intro hc
  refine (kruskal_forest g).bridge pre post e heq (Conn.mono (fun x hx => ?_) hc)
  obtain ⟨hx1, hx2⟩ := List.mem_filter.1 hx
  rw [heq] at hx1
  have hne : x ≠ e := by simpa using hx2
  rcases List.mem_append.1 hx1 with hx1 | hx1
  · exact List.mem_append_left _ hx1
  · rcases List.mem_cons.1 hx1 with hx1 | hx1
    · exact absurd hx1 hne
    · exact List.mem_append_right _ hx1

/-! ### deciding connectivity and forests (by the same label fold) -/

/-- `u`, `v` get the same label when the edges `es` are united on `0 … n-1` -/
def connB (n : Nat) (es : List WEdge) (u v : Nat) : Bool :=
  (kruskalFold es (List.range n, [])).1.getD u 0 == (kruskalFold es (List.range n, [])).1.getD v 0

theorem conn_iff_connB (n : Nat) (es : List WEdge) (hes : ∀ e ∈ es, e.2.1 < n ∧ e.2.2 < n)
    (u v : Nat) (hu : u < n) (hv : v < n) : Conn es u v ↔ connB n es u v = true := by
  obtain ⟨inv, _, hconn⟩ := kruskalFold_spec n es hes (List.range n) [] (labInv_init n) trivial
  obtain ⟨s, hs, heq⟩ := kruskalFold_chosen es (List.range n) []
  simp only [connB, beq_iff_eq]
  rw [inv.conn u v hu hv]
  constructor
  · exact Conn.of_edges hconn
  · refine Conn.mono fun x hx => ?_
    rw [heq, List.append_nil] at hx
    exact hs.subset (List.mem_reverse.1 hx)

/-- the fold takes every edge of `es` -/
def forestB (n : Nat) (es : List WEdge) : Bool := (kruskalFold es (List.range n, [])).2.length == es.length

theorem forestOrd_of_forestB (n : Nat) (es : List WEdge) (hes : ∀ e ∈ es, e.2.1 < n ∧ e.2.2 < n)
    (h : forestB n es = true) : ForestOrd es := by
  obtain ⟨_, hf, _⟩ := kruskalFold_spec n es hes (List.range n) [] (labInv_init n) trivial
  obtain ⟨s, hs, heq⟩ := kruskalFold_chosen es (List.range n) []
  rw [heq, List.append_nil] at hf
  simp only [forestB, heq, List.append_nil, List.length_reverse, beq_iff_eq] at h
  rw [hs.eq_of_length h] at hf
  exact (forestOrd_iff_reverse es).2 hf

/-! ### a concrete graph: 6 vertices, two cycles (0-1-2, 2-3-4), two equal weights, an isolated
vertex, one edge stored in one orientation only (3→2) and one with two different stored weights (0,1) -/

def exG : Graph := Graph.ofRows
  [[0, 2, 2, 0, 0, 0],
   [7, 0, 3, 0, 0, 0],
   [2, 3, 0, 0, 4, 0],
   [0, 0, 5, 0, 1, 0],
   [0, 0, 4, 1, 0, 0],
   [0, 0, 0, 0, 0, 0]]

example : exG.wEdges = [(2, 0, 1), (2, 0, 2), (3, 1, 2), (5, 2, 3), (4, 2, 4), (1, 3, 4)] := by decide
example : sortBy wle exG.wEdges = [(1, 3, 4), (2, 0, 1), (2, 0, 2), (3, 1, 2), (4, 2, 4), (5, 2, 3)] := by decide
example : exG.kruskalEdges = [(1, 3, 4), (2, 0, 1), (2, 0, 2), (4, 2, 4)] := by decide
example : exG.kruskal = (9, 4) := by decide
example : exG.kruskalLabels = [0, 0, 0, 0, 0, 5] := by decide
example : exG.kruskalRoots = [0, 5] := by decide

/-- another spanning forest of `exG` (weight 11) -/
def exF : List WEdge := [(2, 0, 1), (3, 1, 2), (5, 2, 3), (1, 3, 4)]

theorem exF_sublist : exF.Sublist exG.wEdges := by decide

theorem exF_bounds : ∀ e ∈ exF, e.2.1 < 6 ∧ e.2.2 < 6 := by decide

theorem exF_forest : ForestOrd exF := forestOrd_of_forestB 6 exF exF_bounds (by decide)

theorem exF_spanning : ∀ u v, u < exG.n → v < exG.n → (Conn exG.wEdges u v ↔ Conn exF u v) := by
  intro u v hu hv
  have hb : ∀ e ∈ exG.wEdges, e.2.1 < 6 ∧ e.2.2 < 6 := by decide
  have key : ∀ u, u < 6 → ∀ v, v < 6 → connB 6 exG.wEdges u v = connB 6 exF u v := by decide
  rw [conn_iff_connB 6 _ hb u v hu hv, conn_iff_connB 6 _ exF_bounds u v hu hv, key u hu v hv]

/-- the hypotheses of (f) are satisfiable, and the conclusion is `9 ≤ 11` here -/
example : (exG.kruskalEdges.map (·.1)).sum ≤ (exF.map (·.1)).sum :=
  kruskal_minimal_forest exG exF exF_sublist exF_forest exF_spanning

example : (exG.kruskalEdges.map (·.1)).sum = 9 ∧ (exF.map (·.1)).sum = 11 := by decide

end MenpoModel.C14
