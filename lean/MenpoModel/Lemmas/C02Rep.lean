/-
C02 helper lemmas: the representation predicates survive allocation and writes elsewhere.  Core Lean only.
-/
import MenpoModel.Lemmas.C02Basic

namespace MenpoModel.C02

theorem RepX.ext {h h' : Heap} {fs : Slots} {ex : Extra} (e : Ext h h') (r : RepX h fs ex) : RepX h' fs ex := by
  intro x xv hm
  obtain ⟨hne, hr⟩ := r x xv hm
  refine ⟨hne, ?_⟩
  cases xv with
  | imm t => exact hr
  | arr dd => obtain ⟨b, hb1, hb2⟩ := hr; exact ⟨b, hb1, e.get hb2⟩
  | dict items => trivial
  | deep toks => trivial

theorem LabelOK.ext {h h' : Heap} {c : SCls} {fs : Slots} (e : Ext h h') (r : LabelOK h c fs) :
    LabelOK h' c fs := by
  intro hc
  obtain ⟨m, ms, h1, h2, h3⟩ := r hc
  exact ⟨m, ms, h1, e.get h2, fun p hp => by obtain ⟨b, dd, hb1, hb2⟩ := h3 p hp; exact ⟨b, dd, hb1, e.get hb2⟩⟩

/- allocation does not disturb what an address represents -/
mutual
theorem Rep.ext {h h' : Heap} (e : Ext h h') : ∀ (s : Shape) (v : Val), Rep h s v → Rep h' s v
  | .mk c x gs ex, v, r => by
    unfold Rep at r ⊢
    obtain ⟨a, fs, p, hv, ha, hp, hpx, hx, hl, hg⟩ := r
    refine ⟨a, fs, p, hv, e.get ha, hp, e.get hpx, hx.ext e, hl.ext e, ?_⟩
    rcases hg with hg | ⟨l, ls, g, gvs, h1, h2, h3, h4, h5⟩
    · exact .inl hg
    · exact .inr ⟨l, ls, g, gvs, h1, e.get h2, h3, e.get h4, RepG.ext e gs gvs h5⟩
theorem RepG.ext {h h' : Heap} (e : Ext h h') : ∀ (gs : Groups) (gvs : Slots), RepG h gs gvs → RepG h' gs gvs
  | .nil, gvs, r => by unfold RepG at r ⊢; exact r
  | .cons n g rest, gvs, r => by
    unfold RepG at r ⊢
    obtain ⟨v, t, h1, h2, h3⟩ := r
    exact ⟨v, t, h1, Rep.ext e g v h2, RepG.ext e rest t h3⟩
end

theorem RepX.frame {lo hi : Nat} {h h' : Heap} {fs : Slots} {ex : Extra} (fr : Frame lo hi h h')
    (r : RepX h fs ex) : RepX h' fs ex := by
  intro x xv hm
  obtain ⟨hne, hr⟩ := r x xv hm
  refine ⟨hne, ?_⟩
  cases xv with
  | imm t => exact hr
  | arr dd =>
    obtain ⟨b, hb1, hb2⟩ := hr
    exact ⟨b, hb1, fr.keep hb2 (fun _ _ hh => by cases hh)⟩
  | dict items => trivial
  | deep toks => trivial

theorem LabelOK.frame {lo hi : Nat} {h h' : Heap} {c : SCls} {fs : Slots} (fr : Frame lo hi h h')
    (r : LabelOK h c fs) : LabelOK h' c fs := by
  intro hc
  obtain ⟨m, ms, h1, h2, h3⟩ := r hc
  exact ⟨m, ms, h1, fr.keep h2 (fun _ _ hh => by cases hh), fun p hp => by
    obtain ⟨b, dd, hb1, hb2⟩ := h3 p hp
    exact ⟨b, dd, hb1, fr.keep hb2 (fun _ _ hh => by cases hh)⟩⟩

theorem RepGIn.le {h : Heap} : ∀ (gs : Groups) (lo hi : Nat) (gvs : Slots), RepGIn h gs lo hi gvs → lo ≤ hi
  | .nil, lo, hi, gvs, r => by unfold RepGIn at r; exact r.2
  | .cons n g rest, lo, hi, gvs, r => by
    unfold RepGIn at r
    obtain ⟨v, t, m, _, h2, h3⟩ := r
    have := RepGIn.le rest m hi t h3
    cases g with
    | mk c x gs ex =>
      unfold RepIn at h2
      obtain ⟨a, fs, p, m0, m1, _, q1, q2, q3, q4, _⟩ := h2
      omega

/- writes confined to `[lo, hi)` do not disturb a tree that lives in a disjoint interval -/
mutual
theorem RepIn.frame {lo hi : Nat} {h h' : Heap} (fr : Frame lo hi h h') :
    ∀ (s : Shape) (lo2 hi2 : Nat) (v : Val), (hi ≤ lo2 ∨ hi2 ≤ lo) → RepIn h s lo2 hi2 v → RepIn h' s lo2 hi2 v
  | .mk c x gs ex, lo2, hi2, v, hd, r => by
    unfold RepIn at r ⊢
    obtain ⟨a, fs, p, m0, m, hv, q1, q2, q3, q4, ha, hp, hpx, hx, hl, hg⟩ := r
    refine ⟨a, fs, p, m0, m, hv, q1, q2, q3, q4, fr.keep_out ha (by omega), hp,
      fr.keep hpx (fun _ _ hh => by cases hh), hx.frame fr, hl.frame fr, ?_⟩
    rcases hg with hg | ⟨l, ls, g, gvs, h1, h2, h3, h4, h5⟩
    · exact .inl hg
    · exact .inr ⟨l, ls, g, gvs, h1, fr.keep h2 (fun _ _ hh => by cases hh), h3,
        fr.keep h4 (fun _ _ hh => by cases hh), RepGIn.frame fr gs m0 m gvs (by omega) h5⟩
theorem RepGIn.frame {lo hi : Nat} {h h' : Heap} (fr : Frame lo hi h h') :
    ∀ (gs : Groups) (lo2 hi2 : Nat) (gvs : Slots), (hi ≤ lo2 ∨ hi2 ≤ lo) →
      RepGIn h gs lo2 hi2 gvs → RepGIn h' gs lo2 hi2 gvs
  | .nil, lo2, hi2, gvs, _, r => by unfold RepGIn at r ⊢; exact r
  | .cons n g rest, lo2, hi2, gvs, hd, r => by
    unfold RepGIn at r ⊢
    obtain ⟨v, t, m, h1, h2, h3⟩ := r
    have hle := RepGIn.le rest m hi2 t h3
    have hle2 : lo2 ≤ m := by
      cases g with
      | mk c x gs ex =>
        unfold RepIn at h2
        obtain ⟨a, fs, p, m0, m1, _, q1, q2, q3, q4, _⟩ := h2
        omega
    exact ⟨v, t, m, h1, RepIn.frame fr g lo2 m v (by omega) h2, RepGIn.frame fr rest m hi2 t (by omega) h3⟩
end

theorem RepIn.ext {h h' : Heap} (e : Ext h h') (s : Shape) (lo hi : Nat) (v : Val) (r : RepIn h s lo hi v) :
    RepIn h' s lo hi v :=
  RepIn.frame (Frame.of_ext 0 0 e) s lo hi v (.inl (Nat.zero_le _)) r

theorem RepGIn.ext {h h' : Heap} (e : Ext h h') (gs : Groups) (lo hi : Nat) (gvs : Slots)
    (r : RepGIn h gs lo hi gvs) : RepGIn h' gs lo hi gvs :=
  RepGIn.frame (Frame.of_ext 0 0 e) gs lo hi gvs (.inl (Nat.zero_le _)) r

/-- widening the interval -/
theorem RepIn.widen {h : Heap} : ∀ (s : Shape) {lo hi lo' hi' : Nat} (v : Val), lo' ≤ lo → hi ≤ hi' →
    RepIn h s lo hi v → RepIn h s lo' hi' v
  | .mk c x gs ex, lo, hi, lo', hi', v, h1, h2, r => by
    unfold RepIn at r ⊢
    obtain ⟨a, fs, p, m0, m, hv, q1, q2, q3, q4, rest⟩ := r
    exact ⟨a, fs, p, m0, m, hv, by omega, q2, q3, by omega, rest⟩

/- forgetting where the cells live -/
mutual
theorem RepIn.rep {h : Heap} : ∀ (s : Shape) (lo hi : Nat) (v : Val),
    RepIn h s lo hi v → Rep h s v
  | .mk c x gs ex, lo, hi, v, r => by
    unfold RepIn at r; unfold Rep
    obtain ⟨a, fs, p, m0, m, hv, _, _, _, _, ha, hp, hpx, hx, hl, hg⟩ := r
    refine ⟨a, fs, p, hv, ha, hp, hpx, hx, hl, ?_⟩
    rcases hg with hg | ⟨l, ls, g, gvs, h1, h2, h3, h4, h5⟩
    · exact .inl hg
    · exact .inr ⟨l, ls, g, gvs, h1, h2, h3, h4, RepGIn.rep gs m0 m gvs h5⟩
theorem RepGIn.rep {h : Heap} : ∀ (gs : Groups) (lo hi : Nat) (gvs : Slots),
    RepGIn h gs lo hi gvs → RepG h gs gvs
  | .nil, lo, hi, gvs, r => by unfold RepGIn at r; unfold RepG; exact r.1
  | .cons n g rest, lo, hi, gvs, r => by
    unfold RepGIn at r; unfold RepG
    obtain ⟨v, t, m, h1, h2, h3⟩ := r
    exact ⟨v, t, h1, RepIn.rep g lo m v h2, RepGIn.rep rest m hi t h3⟩
end

end MenpoModel.C02
