/-
C14 — the `Tree` constructor of the model (`Graph.treeCtor`) for graphs of EVERY size:
breadth-first tree facts, soundness (accepted ⇒ arborescence rooted at the given root, ≥ 2 vertices),
depth / parent / leaves in an accepted tree, and completeness (arborescence with ≥ 2 vertices ⇒ accepted).
Core Lean only.
-/
import MenpoModel.Lemmas.C14Reach
import MenpoModel.Lemmas.C14Cycle

namespace MenpoModel.C14
open Graph

/-! ### list helpers -/

/-- pigeonhole: a duplicate-free list inside another list is not longer -/
theorem nodup_subset_length_le {α} [DecidableEq α] (l1 l2 : List α) (h1 : l1.Nodup)
    (hs : ∀ x, x ∈ l1 → x ∈ l2) : l1.length ≤ l2.length := by
  induction l1 generalizing l2 with
  | nil => simp
  | cons a t ih =>
    rw [List.nodup_cons] at h1
    have ha : a ∈ l2 := hs a (List.mem_cons_self ..)
    have hpos : 0 < l2.length := List.length_pos_of_mem ha
    have := ih (l2.erase a) h1.2 (fun x hx => by
      have hne : x ≠ a := fun h => h1.1 (h ▸ hx)
      exact (List.mem_erase_of_ne hne).2 (hs x (List.mem_cons_of_mem _ hx)))
    rw [List.length_erase_of_mem ha] at this
    simp only [List.length_cons]; omega

theorem nodup_lt_length_le (l : List Nat) (n : Nat) (h : l.Nodup) (hlt : ∀ x, x ∈ l → x < n) : l.length ≤ n := by
  simpa using nodup_subset_length_le l (List.range n) h (fun x hx => List.mem_range.2 (hlt x hx))

theorem nodup_length_eq_of_mem_iff {α} [DecidableEq α] (l1 l2 : List α) (h1 : l1.Nodup) (h2 : l2.Nodup)
    (h : ∀ x, x ∈ l1 ↔ x ∈ l2) : l1.length = l2.length :=
  Nat.le_antisymm (nodup_subset_length_le l1 l2 h1 fun x => (h x).1)
    (nodup_subset_length_le l2 l1 h2 fun x => (h x).2)

theorem nodup_map_of_inj_on {α β} (f : α → β) (l : List α) (h : l.Nodup)
    (hinj : ∀ a, a ∈ l → ∀ b, b ∈ l → f a = f b → a = b) : (l.map f).Nodup := by
  unfold List.Nodup
  rw [List.pairwise_map]
  exact List.Pairwise.imp_of_mem (fun ha hb hne heq => hne (hinj _ ha _ hb heq)) h

theorem inj_on_of_nodup_map {α β} (f : α → β) (l : List α) (h : (l.map f).Nodup)
    (a b : α) (ha : a ∈ l) (hb : b ∈ l) (hab : f a = f b) : a = b := by
  induction l with
  | nil => simp at ha
  | cons x t ih =>
    rw [List.map_cons, List.nodup_cons] at h
    rcases List.mem_cons.1 ha with rfl | hat <;> rcases List.mem_cons.1 hb with rfl | hbt
    · rfl
    · exact absurd (List.mem_map.2 ⟨b, hbt, hab.symm⟩) h.1
    · exact absurd (List.mem_map.2 ⟨a, hat, hab⟩) h.1
    · exact ih h.2 hat hbt

theorem filter_length_add {α} (l : List α) (p : α → Bool) :
    (l.filter p).length + (l.filter fun x => !p x).length = l.length := by
  induction l with
  | nil => rfl
  | cons a t ih => cases hp : p a <;> simp [hp] <;> omega

/-! ### the breadth-first tree: soundness facts, every graph, every fuel -/

/-- the vertices discovered when `u` is dequeued -/
def bfsNew (g : Graph) (u : Nat) (vis : List Nat) : List Nat := (g.row u).filter fun v => !vis.contains v

theorem mem_bfsNew (g : Graph) (u : Nat) (vis : List Nat) (x : Nat) :
    x ∈ bfsNew g u vis ↔ x ∈ g.row u ∧ x ∉ vis := by
  simp [bfsNew]

theorem bfsNew_nodup (g : Graph) (u : Nat) (vis : List Nat) : (bfsNew g u vis).Nodup :=
  List.Nodup.sublist List.filter_sublist (row_nodup g u)

theorem bfsLoop_cons (g : Graph) (f u : Nat) (q vis : List Nat) (acc : List (Nat × Nat)) :
    bfsLoop g (f + 1) (u :: q) vis acc =
      bfsLoop g f (q ++ bfsNew g u vis) (vis ++ bfsNew g u vis) (acc ++ (bfsNew g u vis).map fun v => (u, v)) := rfl

theorem bfsLoop_nil (g : Graph) (f : Nat) (vis : List Nat) (acc : List (Nat × Nat)) :
    bfsLoop g f [] vis acc = acc := by
  cases f <;> rfl

/-- the loop invariant for soundness -/
structure BfsInv (g : Graph) (root : Nat) (q vis : List Nat) (acc : List (Nat × Nat)) : Prop where
  edge : ∀ e, e ∈ acc → e.2 ∈ g.row e.1 ∧ Reach g.row root e.1
  queue : ∀ x, x ∈ q → Reach g.row root x
  root_vis : root ∈ vis
  snd_vis : ∀ e, e ∈ acc → e.2 ∈ vis
  snd_nodup : (acc.map (·.2)).Nodup
  root_not_snd : ∀ e, e ∈ acc → e.2 ≠ root

/-- what holds of the returned edge list -/
structure BfsOut (g : Graph) (root : Nat) (res : List (Nat × Nat)) : Prop where
  /-- every tree edge is a stored edge whose tail is reachable from the root -/
  edge : ∀ e, e ∈ res → e.2 ∈ g.row e.1 ∧ Reach g.row root e.1
  /-- every vertex gets at most one tree parent -/
  snd_nodup : (res.map (·.2)).Nodup
  /-- the root gets none -/
  root_not_snd : ∀ e, e ∈ res → e.2 ≠ root

theorem BfsInv.step {g : Graph} {root u : Nat} {q vis : List Nat} {acc : List (Nat × Nat)}
    (I : BfsInv g root (u :: q) vis acc) :
    BfsInv g root (q ++ bfsNew g u vis) (vis ++ bfsNew g u vis) (acc ++ (bfsNew g u vis).map fun v => (u, v)) := by
  have hu : Reach g.row root u := I.queue u (List.mem_cons_self ..)
  have hmapsnd : ((bfsNew g u vis).map fun v => (u, v)).map (·.2) = bfsNew g u vis := by
    rw [List.map_map]; exact List.map_id' _
  refine ⟨?_, ?_, ?_, ?_, ?_, ?_⟩
  · intro e he
    rcases List.mem_append.1 he with h | h
    · exact I.edge e h
    · obtain ⟨v, hv, rfl⟩ := List.mem_map.1 h
      exact ⟨((mem_bfsNew g u vis v).1 hv).1, hu⟩
  · intro x hx
    rcases List.mem_append.1 hx with h | h
    · exact I.queue x (List.mem_cons_of_mem _ h)
    · exact hu.tail ((mem_bfsNew g u vis x).1 h).1
  · exact List.mem_append_left _ I.root_vis
  · intro e he
    rcases List.mem_append.1 he with h | h
    · exact List.mem_append_left _ (I.snd_vis e h)
    · obtain ⟨v, hv, rfl⟩ := List.mem_map.1 h
      exact List.mem_append_right _ hv
  · rw [List.map_append, hmapsnd, List.nodup_append]
    refine ⟨I.snd_nodup, bfsNew_nodup g u vis, ?_⟩
    intro a ha b hb hab
    obtain ⟨e, he, rfl⟩ := List.mem_map.1 ha
    exact ((mem_bfsNew g u vis b).1 hb).2 (hab ▸ I.snd_vis e he)
  · intro e he
    rcases List.mem_append.1 he with h | h
    · exact I.root_not_snd e h
    · obtain ⟨v, hv, rfl⟩ := List.mem_map.1 h
      intro hvr
      have hvr' : v = root := hvr
      exact ((mem_bfsNew g u vis v).1 hv).2 (hvr' ▸ I.root_vis)

theorem bfsLoop_sound (g : Graph) (root : Nat) (f : Nat) (q vis : List Nat) (acc : List (Nat × Nat))
    (I : BfsInv g root q vis acc) : BfsOut g root (bfsLoop g f q vis acc) := by
  induction f generalizing q vis acc with
  | zero => exact ⟨I.edge, I.snd_nodup, I.root_not_snd⟩
  | succ f ih =>
    cases q with
    | nil => rw [bfsLoop_nil]; exact ⟨I.edge, I.snd_nodup, I.root_not_snd⟩
    | cons u q => rw [bfsLoop_cons]; exact ih _ _ _ I.step

theorem bfsInv_init (g : Graph) (root : Nat) : BfsInv g root [root] [root] [] :=
  ⟨fun _ h => by simp at h, fun x hx => by rw [List.mem_singleton.1 hx]; exact .refl _,
    List.mem_singleton.2 rfl, fun _ h => by simp at h, by simp, fun _ h => by simp at h⟩

/-- **BFS tree facts**, every graph and root -/
theorem bfsTree_out (g : Graph) (root : Nat) : BfsOut g root (g.bfsTree root) :=
  bfsLoop_sound g root _ _ _ _ (bfsInv_init g root)

theorem bfsTree_edge (g : Graph) (root u v : Nat) (h : (u, v) ∈ g.bfsTree root) :
    v ∈ g.row u ∧ Reach g.row root u ∧ Reach g.row root v ∧ v ≠ root :=
  let O := bfsTree_out g root
  ⟨(O.edge _ h).1, (O.edge _ h).2, (O.edge _ h).2.tail (O.edge _ h).1, O.root_not_snd _ h⟩

theorem bfsTree_snd_nodup (g : Graph) (root : Nat) : ((g.bfsTree root).map (·.2)).Nodup :=
  (bfsTree_out g root).snd_nodup

/-- each vertex gets at most one tree parent -/
theorem bfsTree_parent_unique (g : Graph) (root u1 u2 v : Nat)
    (h1 : (u1, v) ∈ g.bfsTree root) (h2 : (u2, v) ∈ g.bfsTree root) : u1 = u2 := by
  have := inj_on_of_nodup_map (·.2) _ (bfsTree_snd_nodup g root) (u1, v) (u2, v) h1 h2 rfl
  exact (Prod.mk.inj this).1

/-! ### arborescences -/

/-- `g` is an arborescence rooted at `r` (the `Prop` reading of `refArborescence`) -/
structure Arb (g : Graph) (r : Nat) : Prop where
  root_lt : r < g.n
  root_col : g.col r = []
  col_single : ∀ v, v < g.n → v ≠ r → ∃ p, g.col v = [p]
  reach : ∀ v, v < g.n → Reach g.row r v

theorem refArborescence_iff (g : Graph) (r : Nat) : g.refArborescence r = true ↔ Arb g r := by
  simp only [Graph.refArborescence, Bool.and_eq_true, decide_eq_true_eq, List.isEmpty_iff, List.all_eq_true,
    List.mem_range, Bool.or_eq_true, beq_iff_eq, List.contains_iff_mem, List.length_eq_one_iff]
  constructor
  · rintro ⟨⟨⟨h1, h2⟩, h3⟩, h4⟩
    refine ⟨h1, h2, fun v hv hne => (h3 v hv).resolve_left hne, fun v hv => ?_⟩
    exact (mem_reachFrom g.n g.row (row_lt g) r v h1).1 (h4 v hv)
  · intro A
    refine ⟨⟨⟨A.root_lt, A.root_col⟩, fun v hv => ?_⟩, fun v hv => ?_⟩
    · by_cases hne : v = r
      · exact .inl hne
      · exact .inr (A.col_single v hv hne)
    · exact (mem_reachFrom g.n g.row (row_lt g) r v A.root_lt).2 (A.reach v hv)

theorem mem_sameEdgeSet (a b : List (Nat × Nat)) : sameEdgeSet a b = true ↔ ∀ e, e ∈ a ↔ e ∈ b := by
  simp only [sameEdgeSet, Bool.and_eq_true, List.all_eq_true, List.contains_iff_mem]
  exact ⟨fun h e => ⟨h.1 e, h.2 e⟩, fun h => ⟨fun e => (h e).1, fun e => (h e).2⟩⟩

/-- the constructor accepts exactly when all five checks pass -/
theorem treeCtor_ok_iff (g : Graph) (r : Nat) :
    g.treeCtor r = .ok () ↔
      g.n ≠ 0 ∧ g.isolated = [] ∧ g.isTree true = true ∧ r < g.n ∧
      sameEdgeSet (g.bfsTree r) g.edgesD = true := by
  unfold Graph.treeCtor
  by_cases h1 : g.n = 0
  · simp [h1]
  by_cases h2 : g.isolated = []
  · by_cases h3 : g.isTree true = true
    · by_cases h4 : r < g.n
      · by_cases h5 : sameEdgeSet (g.bfsTree r) g.edgesD = true
        · simp [h1, h2, h3, h4, h5, Graph.checkVertex]
        · simp [h1, h2, h3, h4, h5, Graph.checkVertex]
      · simp [h1, h2, h3, h4, Graph.checkVertex]
    · simp [h1, h2, h3]
  · simp [h1, h2]

theorem mem_col_iff_mem_row (g : Graph) (u v : Nat) (hu : u < g.n) (hv : v < g.n) : u ∈ g.col v ↔ v ∈ g.row u := by
  rw [mem_col, mem_row]; simp [hu, hv]

/-- a vertex that is not isolated touches a stored edge -/
theorem exists_edge_of_not_isolated (g : Graph) (v : Nat) (hv : v < g.n) (h : v ∉ g.isolated) :
    ∃ u, u < g.n ∧ (u ∈ g.row v ∨ v ∈ g.row u) := by
  apply Classical.byContradiction
  intro hne
  apply h
  rw [mem_isolated]
  refine ⟨hv, fun u hu => ⟨?_, ?_⟩⟩
  · cases he : g.isEdge v u with
    | false => rfl
    | true => exact absurd ⟨u, hu, .inl ((mem_row g v u).2 ⟨hu, he⟩)⟩ hne
  · cases he : g.isEdge u v with
    | false => rfl
    | true => exact absurd ⟨u, hu, .inr ((mem_row g u v).2 ⟨hv, he⟩)⟩ hne

/-- a vertex reached from `r < n` lies in the graph -/
theorem reach_row_lt (g : Graph) {r v : Nat} (hr : r < g.n) (h : Reach g.row r v) : v < g.n :=
  Reach.bound (row_lt g) h hr

/-- **SOUNDNESS**, `Prop` reading: what the constructor accepts is an arborescence rooted at `r`
with at least two vertices.  (Only the checks "no isolated vertex", "root in range" and "BFS tree =
edge set" are used.) -/
theorem treeCtor_arb (g : Graph) (r : Nat) (h : g.treeCtor r = .ok ()) : Arb g r ∧ 2 ≤ g.n := by
  obtain ⟨hn0, hiso, _, hr, hsame⟩ := (treeCtor_ok_iff g r).1 h
  rw [mem_sameEdgeSet] at hsame
  -- every stored edge is a tree edge
  have hedge : ∀ u v, u < g.n → v ∈ g.row u → (u, v) ∈ g.bfsTree r := fun u v hu hv =>
    (hsame (u, v)).2 ((mem_edgesD g u v).2 ⟨hu, ((mem_row g u v).1 hv).1, ((mem_row g u v).1 hv).2⟩)
  have hcolr : g.col r = [] := by
    rw [List.eq_nil_iff_forall_not_mem]
    intro u hu
    have hul : u < g.n := ((mem_col g u r).1 hu).1
    exact (bfsTree_edge g r u r (hedge u r hul ((mem_col_iff_mem_row g u r hul hr).1 hu))).2.2.2 rfl
  have hreach : ∀ v, v < g.n → Reach g.row r v := by
    intro v hv
    have hni : v ∉ g.isolated := by rw [hiso]; simp
    obtain ⟨u, hu, hor⟩ := exists_edge_of_not_isolated g v hv hni
    rcases hor with h1 | h1
    · exact (bfsTree_edge g r v u (hedge v u hv h1)).2.1
    · exact (bfsTree_edge g r u v (hedge u v hu h1)).2.2.1
  have hsingle : ∀ v, v < g.n → v ≠ r → ∃ p, g.col v = [p] := by
    intro v hv hne
    rcases (hreach v hv).cases_tail with heq | ⟨b, hb, hvb⟩
    · exact absurd heq.symm hne
    · have hbl : b < g.n := reach_row_lt g hr hb
      have hbc : b ∈ g.col v := (mem_col_iff_mem_row g b v hbl hv).2 hvb
      cases hc : g.col v with
      | nil => rw [hc] at hbc; simp at hbc
      | cons a t =>
        cases t with
        | nil => exact ⟨a, rfl⟩
        | cons a' t' =>
          exfalso
          have hnd := col_nodup g v
          rw [hc] at hnd
          have ha : a ∈ g.col v := by rw [hc]; simp
          have ha' : a' ∈ g.col v := by rw [hc]; simp
          have hal : a < g.n := ((mem_col g a v).1 ha).1
          have hal' : a' < g.n := ((mem_col g a' v).1 ha').1
          have := bfsTree_parent_unique g r a a' v
            (hedge a v hal ((mem_col_iff_mem_row g a v hal hv).1 ha))
            (hedge a' v hal' ((mem_col_iff_mem_row g a' v hal' hv).1 ha'))
          subst this
          simp at hnd
  refine ⟨⟨hr, hcolr, hsingle, hreach⟩, ?_⟩
  -- at least two vertices: the root is not isolated and has no parent, so it has a child ≠ itself
  have hni : r ∉ g.isolated := by rw [hiso]; simp
  obtain ⟨u, hu, hor⟩ := exists_edge_of_not_isolated g r hr hni
  have hur : u ≠ r := by
    intro hur; subst hur
    have : u ∈ g.col u := (mem_col_iff_mem_row g u u hu hu).2 (hor.elim id id)
    rw [hcolr] at this; simp at this
  omega

/-- **SOUNDNESS** against the reference predicate -/
theorem treeCtor_sound (g : Graph) (r : Nat) (h : g.treeCtor r = .ok ()) : g.refArborescence r = true :=
  (refArborescence_iff g r).2 (treeCtor_arb g r h).1

/-- the `Prop`-level reading, spelled out -/
theorem treeCtor_arborescence (g : Graph) (r : Nat) (h : g.treeCtor r = .ok ()) :
    r < g.n ∧ g.col r = [] ∧ (∀ v, v < g.n → v ≠ r → ∃ p, g.col v = [p]) ∧
    (∀ v, v < g.n → Reach g.row r v) ∧ 2 ≤ g.n :=
  let ⟨A, h2⟩ := treeCtor_arb g r h
  ⟨A.root_lt, A.root_col, A.col_single, A.reach, h2⟩

/-! ### depth: facts for every graph -/

theorem parent_mem_col (g : Graph) (v p : Nat) (h : g.parent v = some p) : p ∈ g.col v :=
  List.mem_of_getLast? h

theorem parent_lt (g : Graph) (v p : Nat) (h : g.parent v = some p) : p < g.n :=
  ((mem_col g p v).1 (parent_mem_col g v p h)).1

theorem parent_isEdge (g : Graph) (v p : Nat) (h : g.parent v = some p) : g.isEdge p v = true :=
  ((mem_col g p v).1 (parent_mem_col g v p h)).2

theorem depthF_mono_le (g : Graph) (root : Nat) {f f' v d : Nat} (hle : f ≤ f')
    (h : g.depthF root f v = some d) : g.depthF root f' v = some d := by
  obtain ⟨k, rfl⟩ := Nat.exists_eq_add_of_le hle
  induction k with
  | zero => exact h
  | succ k ih => exact depthF_mono g root (f + k) v d (ih (Nat.le_add_right _ _))

/-- the depth does not depend on the fuel -/
theorem depthF_unique (g : Graph) (root : Nat) {f f' v d d' : Nat}
    (h : g.depthF root f v = some d) (h' : g.depthF root f' v = some d') : d = d' := by
  have h1 := depthF_mono_le g root (Nat.le_max_left f f') h
  have h2 := depthF_mono_le g root (Nat.le_max_right f f') h'
  rw [h1] at h2
  exact Option.some.inj h2

/-- fuel `d + 1` is enough for depth `d` -/
theorem depthF_min_fuel (g : Graph) (root : Nat) {f v d : Nat} (h : g.depthF root f v = some d) :
    g.depthF root (d + 1) v = some d := by
  induction f generalizing v d with
  | zero => simp [Graph.depthF] at h
  | succ f ih =>
    by_cases hv : v = root
    · subst hv
      rw [depthF_root] at h
      rw [← Option.some.inj h]; exact depthF_root g v 0
    · cases hp : g.parent v with
      | none => simp [Graph.depthF, hv, hp] at h
      | some p =>
        rw [depthF_step g root f v p hv hp] at h
        cases hd : g.depthF root f p with
        | none => simp [hd] at h
        | some d' =>
          simp only [hd, Option.map_some, Option.some.injEq] at h
          subst h
          rw [depthF_step g root (d' + 1) v p hv hp, ih hd]; rfl

/-- the chain of ancestors of a vertex of depth `d` : `d + 1` different vertices of the graph -/
theorem depthF_chain (g : Graph) (root : Nat) {f v d : Nat} (h : g.depthF root f v = some d) (hv : v < g.n) :
    ∃ l : List Nat, l.length = d + 1 ∧ l.Nodup ∧ (∀ x, x ∈ l → x < g.n) ∧
      (∀ x, x ∈ l → ∃ e f', e ≤ d ∧ g.depthF root f' x = some e) := by
  induction f generalizing v d with
  | zero => simp [Graph.depthF] at h
  | succ f ih =>
    by_cases hvr : v = root
    · subst hvr
      rw [depthF_root] at h
      have hd : d = 0 := (Option.some.inj h).symm
      subst hd
      refine ⟨[v], rfl, by simp, ?_, ?_⟩
      · intro x hx; rw [List.mem_singleton.1 hx]; exact hv
      · intro x hx; rw [List.mem_singleton.1 hx]; exact ⟨0, 1, Nat.le_refl _, depthF_root g v 0⟩
    · cases hp : g.parent v with
      | none => simp [Graph.depthF, hvr, hp] at h
      | some p =>
        have h0 := h
        rw [depthF_step g root f v p hvr hp] at h
        cases hd : g.depthF root f p with
        | none => simp [hd] at h
        | some d' =>
          simp only [hd, Option.map_some, Option.some.injEq] at h
          subst h
          obtain ⟨l, hlen, hnd, hlt, hdep⟩ := ih hd (parent_lt g v p hp)
          refine ⟨v :: l, by simp [hlen], ?_, ?_, ?_⟩
          · rw [List.nodup_cons]
            refine ⟨?_, hnd⟩
            intro hvl
            obtain ⟨e, f', he, hf'⟩ := hdep v hvl
            have := depthF_unique g root h0 hf'
            omega
          · intro x hx
            rcases List.mem_cons.1 hx with rfl | hxl
            · exact hv
            · exact hlt x hxl
          · intro x hx
            rcases List.mem_cons.1 hx with rfl | hxl
            · exact ⟨d' + 1, f + 1, Nat.le_refl _, h0⟩
            · obtain ⟨e, f', he, hf'⟩ := hdep x hxl
              exact ⟨e, f', by omega, hf'⟩

/-- a depth is smaller than the number of vertices (pigeonhole on the chain of ancestors) -/
theorem depthF_lt (g : Graph) (root : Nat) {f v d : Nat} (h : g.depthF root f v = some d) (hv : v < g.n) :
    d < g.n := by
  obtain ⟨l, hlen, hnd, hlt, _⟩ := depthF_chain g root h hv
  have := nodup_lt_length_le l g.n hnd hlt
  omega

/-- `depth` (fuel `n + 1`) finds every depth that any fuel finds -/
theorem depth_of_depthF (g : Graph) (root : Nat) {f v d : Nat} (h : g.depthF root f v = some d) (hv : v < g.n) :
    g.depth root v = some d := by
  have hd := depthF_lt g root h hv
  exact depthF_mono_le g root (by omega) (depthF_min_fuel g root h)

theorem depth_lt (g : Graph) (root v d : Nat) (h : g.depth root v = some d) (hv : v < g.n) : d < g.n :=
  depthF_lt g root h hv

/-- **depth and parent**, every graph: for a non-root vertex, depth `d + 1` means exactly that the
parent has depth `d` (total version: no hypothesis that the depth exists) -/
theorem depth_succ_iff (g : Graph) (root v d : Nat) (hv : v ≠ root) :
    g.depth root v = some (d + 1) ↔ ∃ p, g.parent v = some p ∧ g.depth root p = some d := by
  constructor
  · intro h
    cases hp : g.parent v with
    | none => simp [Graph.depth, Graph.depthF, hv, hp] at h
    | some p =>
      refine ⟨p, rfl, ?_⟩
      unfold Graph.depth at h
      rw [depthF_step g root g.n v p hv hp] at h
      cases hd : g.depthF root g.n p with
      | none => simp [hd] at h
      | some d' =>
        simp only [hd, Option.map_some, Option.some.injEq, Nat.add_right_cancel_iff] at h
        subst h
        exact depthF_mono g root g.n p d' hd
  · rintro ⟨p, hp, hd⟩
    have hpl := parent_lt g v p hp
    have hdl := depth_lt g root p d hd hpl
    have hmin : g.depthF root g.n p = some d :=
      depthF_mono_le g root (by omega) (depthF_min_fuel g root hd)
    unfold Graph.depth
    rw [depthF_step g root g.n v p hv hp, hmin]; rfl

theorem depth_root (g : Graph) (root : Nat) : g.depth root root = some 0 := depthF_root g root g.n

/-- a non-root vertex never has depth `0` -/
theorem depth_ne_zero (g : Graph) (root v : Nat) (hv : v ≠ root) : g.depth root v ≠ some 0 :=
  fun h => hv (depth_zero_iff g root _ v h)

/-! routes -/

theorem isRoute_append_single (g : Graph) (l : List Nat) (p v : Nat) (hl : g.isRoute l = true)
    (hlast : l.getLast? = some p) (he : g.isEdge p v = true) : g.isRoute (l ++ [v]) = true := by
  induction l with
  | nil => simp at hlast
  | cons a t ih =>
    cases t with
    | nil =>
      simp only [List.getLast?_singleton, Option.some.injEq] at hlast
      subst hlast
      simp [Graph.isRoute, he]
    | cons b rest =>
      simp only [Graph.isRoute, Bool.and_eq_true] at hl
      rw [List.getLast?_cons_cons] at hlast
      have := ih hl.2 hlast
      simp only [List.cons_append, Graph.isRoute, Bool.and_eq_true]
      exact ⟨hl.1, by simpa using this⟩

/-- **depth is the length of a walk from the root**: a vertex of depth `d` is the end of a route
`[root, …, v]` of `d + 1` vertices along stored edges -/
theorem depthF_route (g : Graph) (root : Nat) {f v d : Nat} (h : g.depthF root f v = some d) :
    ∃ route : List Nat, route.length = d + 1 ∧ route.head? = some root ∧ route.getLast? = some v ∧
      g.isRoute route = true := by
  induction f generalizing v d with
  | zero => simp [Graph.depthF] at h
  | succ f ih =>
    by_cases hvr : v = root
    · subst hvr
      rw [depthF_root] at h
      have hd : d = 0 := (Option.some.inj h).symm
      subst hd
      exact ⟨[v], rfl, rfl, rfl, rfl⟩
    · cases hp : g.parent v with
      | none => simp [Graph.depthF, hvr, hp] at h
      | some p =>
        rw [depthF_step g root f v p hvr hp] at h
        cases hd : g.depthF root f p with
        | none => simp [hd] at h
        | some d' =>
          simp only [hd, Option.map_some, Option.some.injEq] at h
          subst h
          obtain ⟨route, hlen, hhead, hlast, hroute⟩ := ih hd
          refine ⟨route ++ [v], by simp [hlen], ?_, by simp, ?_⟩
          · cases route with
            | nil => simp at hlen
            | cons a t => simpa using hhead
          · exact isRoute_append_single g route p v hroute hlast (parent_isEdge g v p hp)

theorem depth_route (g : Graph) (root v d : Nat) (h : g.depth root v = some d) :
    ∃ route : List Nat, route.length = d + 1 ∧ route.head? = some root ∧ route.getLast? = some v ∧
      g.isRoute route = true :=
  depthF_route g root h

/-! ### depth, parent, leaves in an arborescence -/

/-- `v` has depth `d` for some fuel -/
def HasDepth (g : Graph) (r v d : Nat) : Prop := ∃ f, g.depthF r f v = some d

theorem HasDepth.unique {g : Graph} {r v d d' : Nat} (h : HasDepth g r v d) (h' : HasDepth g r v d') : d = d' :=
  let ⟨_, hf⟩ := h; let ⟨_, hf'⟩ := h'; depthF_unique g r hf hf'

theorem HasDepth.depth {g : Graph} {r v d : Nat} (h : HasDepth g r v d) (hv : v < g.n) : g.depth r v = some d :=
  let ⟨_, hf⟩ := h; depth_of_depthF g r hf hv

namespace Arb

variable {g : Graph} {r : Nat}

/-- in an arborescence the tail of a stored edge is the parent of its head -/
theorem parent_of_edge (A : Arb g r) {u v : Nat} (hu : u < g.n) (hv : v ∈ g.row u) :
    v ≠ r ∧ g.parent v = some u := by
  have hvl : v < g.n := row_lt g u v hv
  have huc : u ∈ g.col v := (mem_col_iff_mem_row g u v hu hvl).2 hv
  have hne : v ≠ r := by
    intro h; subst h; rw [A.root_col] at huc; simp at huc
  obtain ⟨p, hp⟩ := A.col_single v hvl hne
  rw [hp, List.mem_singleton] at huc
  subst huc
  exact ⟨hne, by simp [Graph.parent, hp]⟩

theorem parents_le_one (A : Arb g r) (v : Nat) (hv : v < g.n) : (g.parents v).length ≤ 1 := by
  by_cases hne : v = r
  · subst hne; simp [Graph.parents, A.root_col]
  · obtain ⟨p, hp⟩ := A.col_single v hv hne
    simp [Graph.parents, hp]

theorem hasDepth_edge (A : Arb g r) {u v d : Nat} (hu : u < g.n) (hv : v ∈ g.row u) (hd : HasDepth g r u d) :
    HasDepth g r v (d + 1) := by
  obtain ⟨f, hf⟩ := hd
  obtain ⟨hne, hp⟩ := A.parent_of_edge hu hv
  exact ⟨f + 1, by rw [depthF_step g r f v u hne hp, hf]; rfl⟩

/-- depth never decreases along a walk, and increases with every step -/
theorem hasDepth_reach (A : Arb g r) {a b d : Nat} (ha : a < g.n) (hd : HasDepth g r a d) (h : Reach g.row a b) :
    ∃ e, d ≤ e ∧ HasDepth g r b e := by
  induction h with
  | refl => exact ⟨d, Nat.le_refl _, hd⟩
  | tail hab hc ih =>
    obtain ⟨e, hde, he⟩ := ih
    exact ⟨e + 1, by omega, A.hasDepth_edge (reach_row_lt g ha hab) hc he⟩

theorem hasDepth (A : Arb g r) (v : Nat) (hv : v < g.n) : ∃ d, HasDepth g r v d := by
  obtain ⟨e, _, he⟩ := A.hasDepth_reach A.root_lt ⟨1, depthF_root g r 0⟩ (A.reach v hv)
  exact ⟨e, he⟩

/-- every vertex of an arborescence has a depth, smaller than the number of vertices -/
theorem depth_total (A : Arb g r) (v : Nat) (hv : v < g.n) : ∃ d, g.depth r v = some d ∧ d < g.n := by
  obtain ⟨d, hd⟩ := A.hasDepth v hv
  exact ⟨d, hd.depth hv, depth_lt g r v d (hd.depth hv) hv⟩

/-- an arborescence has no closed walk -/
theorem acyclic (A : Arb g r) : ¬ ∃ v c, v < g.n ∧ c ∈ g.row v ∧ Reach g.row c v := by
  rintro ⟨v, c, hv, hc, hcv⟩
  obtain ⟨d, hd⟩ := A.hasDepth v hv
  have hdc := A.hasDepth_edge hv hc hd
  obtain ⟨e, hde, he⟩ := A.hasDepth_reach (row_lt g v c hc) hdc hcv
  have := hd.unique he
  omega

theorem parent_root (A : Arb g r) : g.parent r = none := by simp [Graph.parent, A.root_col]

theorem parent_exists (A : Arb g r) (v : Nat) (hv : v < g.n) (hne : v ≠ r) :
    ∃ p, g.parent v = some p ∧ p < g.n ∧ v ∈ g.children p := by
  obtain ⟨p, hp⟩ := A.col_single v hv hne
  have hpar : g.parent v = some p := by simp [Graph.parent, hp]
  exact ⟨p, hpar, parent_mem_children g v p hv hpar⟩

theorem mem_leaves (A : Arb g r) (v : Nat) :
    v ∈ g.leaves ↔ v < g.n ∧ ∀ c, c < g.n → g.parent c ≠ some v := by
  rw [MenpoModel.C14.mem_leaves]
  constructor
  · rintro ⟨hv, h⟩
    exact ⟨hv, fun c hc hpc => h c (parent_mem_children g c v hc hpc).2⟩
  · rintro ⟨hv, h⟩
    refine ⟨hv, fun c hc => ?_⟩
    have hc' : c ∈ g.row v := hc
    exact h c (row_lt g v c hc') (A.parent_of_edge hv hc').2

/-- the depth of the end of any route from the root inside the graph is its number of steps
(all walks from the root to a vertex have the same length) -/
theorem route_depth (A : Arb g r) (a : Nat) (l : List Nat) (d : Nat) (ha : a < g.n) (hd : HasDepth g r a d)
    (hl : g.isRoute (a :: l) = true) (hlt : ∀ x, x ∈ l → x < g.n) :
    HasDepth g r ((a :: l).getLast (by simp)) (d + l.length) := by
  induction l generalizing a d with
  | nil => simpa using hd
  | cons b rest ih =>
    simp only [Graph.isRoute, Bool.and_eq_true] at hl
    have hbl : b < g.n := hlt b (List.mem_cons_self ..)
    have hb : b ∈ g.row a := (mem_row g a b).2 ⟨hbl, hl.1⟩
    have := ih b (d + 1) hbl (A.hasDepth_edge ha hb hd) hl.2 (fun x hx => hlt x (List.mem_cons_of_mem _ hx))
    rw [List.getLast_cons (by simp)]
    simpa [Nat.add_assoc, Nat.add_comm 1] using this

end Arb

/-! ### the same for an accepted tree -/

/-- **every vertex of an accepted tree has a depth** (smaller than the number of vertices) -/
theorem treeCtor_depth_total (g : Graph) (r : Nat) (h : g.treeCtor r = .ok ()) :
    ∀ v, v < g.n → ∃ d, g.depth r v = some d ∧ d < g.n :=
  (treeCtor_arb g r h).1.depth_total

/-- … and the depth is the number of steps of a route from the root along stored edges -/
theorem treeCtor_depth_route (g : Graph) (r : Nat) (h : g.treeCtor r = .ok ()) (v : Nat) (hv : v < g.n) :
    ∃ d route, g.depth r v = some d ∧ route.length = d + 1 ∧ route.head? = some r ∧
      route.getLast? = some v ∧ g.isRoute route = true := by
  obtain ⟨d, hd, _⟩ := treeCtor_depth_total g r h v hv
  obtain ⟨route, h1, h2, h3, h4⟩ := depth_route g r v d hd
  exact ⟨d, route, hd, h1, h2, h3, h4⟩

/-- … of every such route: all routes from the root to `v` inside the graph have `depth v` steps -/
theorem treeCtor_route_length (g : Graph) (r : Nat) (h : g.treeCtor r = .ok ()) (l : List Nat)
    (hl : g.isRoute (r :: l) = true) (hlt : ∀ x, x ∈ l → x < g.n) :
    g.depth r ((r :: l).getLast (by simp)) = some l.length := by
  have A := (treeCtor_arb g r h).1
  have := A.route_depth r l 0 A.root_lt ⟨1, depthF_root g r 0⟩ hl hlt
  rw [Nat.zero_add] at this
  refine this.depth ?_
  cases l with
  | nil => exact A.root_lt
  | cons b rest =>
    exact hlt _ (by rw [List.getLast_cons (by simp)]; exact List.getLast_mem _)

/-- total version of the depth/parent relation in an accepted tree -/
theorem treeCtor_depth_parent (g : Graph) (r : Nat) (_h : g.treeCtor r = .ok ()) (v d : Nat) (hne : v ≠ r) :
    g.depth r v = some (d + 1) ↔ ∃ p, g.parent v = some p ∧ g.depth r p = some d :=
  depth_succ_iff g r v d hne

/-- leaves of an accepted tree: the vertices that are nobody's parent -/
theorem treeCtor_leaves (g : Graph) (r : Nat) (h : g.treeCtor r = .ok ()) (v : Nat) :
    v ∈ g.leaves ↔ v < g.n ∧ ∀ c, c < g.n → g.parent c ≠ some v :=
  (treeCtor_arb g r h).1.mem_leaves v

/-- parents in an accepted tree: none for the root, exactly one (a vertex whose child it is) otherwise -/
theorem treeCtor_parent (g : Graph) (r : Nat) (h : g.treeCtor r = .ok ()) :
    g.parent r = none ∧ ∀ v, v < g.n → v ≠ r → ∃ p, g.parent v = some p ∧ p < g.n ∧ v ∈ g.children p :=
  ⟨(treeCtor_arb g r h).1.parent_root, (treeCtor_arb g r h).1.parent_exists⟩

theorem treeCtor_parents_le_one (g : Graph) (r : Nat) (h : g.treeCtor r = .ok ()) (v : Nat) (hv : v < g.n) :
    (g.parents v).length ≤ 1 :=
  (treeCtor_arb g r h).1.parents_le_one v hv

/-! ### completeness: the breadth-first tree of an arborescence is the whole edge set -/

/-- number of vertices of the graph not yet visited -/
def unvis (n : Nat) (vis : List Nat) : Nat := ((List.range n).filter fun x => !vis.contains x).length

theorem unvis_le (n : Nat) (vis : List Nat) : unvis n vis ≤ n := by
  have := List.length_filter_le (fun x => !vis.contains x) (List.range n)
  simpa [unvis] using this

/-- every dequeue moves the discovered vertices from "unvisited" to the queue -/
theorem unvis_step (g : Graph) (u : Nat) (vis : List Nat) :
    unvis g.n (vis ++ bfsNew g u vis) + (bfsNew g u vis).length = unvis g.n vis := by
  have h1 : bfsNew g u vis = ((List.range g.n).filter fun x => !vis.contains x).filter fun x => g.w u x != 0 := by
    unfold bfsNew Graph.row
    rw [List.filter_filter, List.filter_filter]
    exact List.filter_congr (fun x _ => Bool.and_comm _ _)
  have h2 : ((List.range g.n).filter fun x => !(vis ++ bfsNew g u vis).contains x) =
      ((List.range g.n).filter fun x => !vis.contains x).filter fun x => !(g.w u x != 0) := by
    rw [List.filter_filter]
    apply List.filter_congr
    intro x hx
    have hxn : x < g.n := List.mem_range.1 hx
    by_cases hv : x ∈ vis
    · simp [hv]
    · by_cases hw : g.w u x = 0
      · have : x ∉ bfsNew g u vis := by
          rw [mem_bfsNew, mem_row]; simp [Graph.isEdge, hw]
        simp [hv, hw, this]
      · have : x ∈ bfsNew g u vis := by
          rw [mem_bfsNew, mem_row]; simp [Graph.isEdge, hw, hv, hxn]
        simp [hv, hw, this]
  unfold unvis
  rw [h2]
  conv => lhs; rhs; rw [h1]
  rw [Nat.add_comm]
  exact filter_length_add _ _

/-- the loop invariant for completeness (in an arborescence) -/
structure BfsInvC (g : Graph) (root : Nat) (q vis : List Nat) (acc : List (Nat × Nat)) : Prop where
  root_vis : root ∈ vis
  q_lt : ∀ x, x ∈ q → x < g.n
  vis_src : ∀ x, x ∈ vis → x = root ∨ ∃ u, (u, x) ∈ acc
  acc_edge : ∀ e, e ∈ acc → e.2 ∈ g.row e.1 ∧ e.1 < g.n
  acc_vis : ∀ e, e ∈ acc → e.2 ∈ vis
  /-- all children of a visited vertex that left the queue are recorded -/
  done : ∀ x, x ∈ vis → x ∉ q → ∀ y, y ∈ g.row x → (x, y) ∈ acc

theorem BfsInvC.step {g : Graph} {root u : Nat} {q vis : List Nat} {acc : List (Nat × Nat)}
    (A : Arb g root) (I : BfsInvC g root (u :: q) vis acc) :
    BfsInvC g root (q ++ bfsNew g u vis) (vis ++ bfsNew g u vis) (acc ++ (bfsNew g u vis).map fun v => (u, v)) := by
  have hu : u < g.n := I.q_lt u (List.mem_cons_self ..)
  refine ⟨List.mem_append_left _ I.root_vis, ?_, ?_, ?_, ?_, ?_⟩
  · intro x hx
    rcases List.mem_append.1 hx with h | h
    · exact I.q_lt x (List.mem_cons_of_mem _ h)
    · exact row_lt g u x ((mem_bfsNew g u vis x).1 h).1
  · intro x hx
    rcases List.mem_append.1 hx with h | h
    · rcases I.vis_src x h with h0 | ⟨u', hu'⟩
      · exact .inl h0
      · exact .inr ⟨u', List.mem_append_left _ hu'⟩
    · exact .inr ⟨u, List.mem_append_right _ (List.mem_map.2 ⟨x, h, rfl⟩)⟩
  · intro e he
    rcases List.mem_append.1 he with h | h
    · exact I.acc_edge e h
    · obtain ⟨v, hv, rfl⟩ := List.mem_map.1 h
      exact ⟨((mem_bfsNew g u vis v).1 hv).1, hu⟩
  · intro e he
    rcases List.mem_append.1 he with h | h
    · exact List.mem_append_left _ (I.acc_vis e h)
    · obtain ⟨v, hv, rfl⟩ := List.mem_map.1 h
      exact List.mem_append_right _ hv
  · intro x hx hxq y hy
    have hxnew : x ∉ bfsNew g u vis := fun h => hxq (List.mem_append_right _ h)
    have hxq' : x ∉ q := fun h => hxq (List.mem_append_left _ h)
    have hxvis : x ∈ vis := (List.mem_append.1 hx).resolve_right hxnew
    by_cases hxu : x = u
    · subst hxu
      by_cases hynew : y ∈ bfsNew g x vis
      · exact List.mem_append_right _ (List.mem_map.2 ⟨y, hynew, rfl⟩)
      · have hyvis : y ∈ vis := by
          apply Classical.byContradiction
          intro hnv
          exact hynew ((mem_bfsNew g x vis y).2 ⟨hy, hnv⟩)
        obtain ⟨hyr, hpar⟩ := A.parent_of_edge hu hy
        rcases I.vis_src y hyvis with h0 | ⟨u', hu'⟩
        · exact absurd h0 hyr
        · have he := I.acc_edge _ hu'
          have hpar' := (A.parent_of_edge he.2 he.1).2
          rw [hpar] at hpar'
          have : x = u' := Option.some.inj hpar'
          subst this
          exact List.mem_append_left _ hu'
    · have : x ∉ u :: q := by
        intro h
        rcases List.mem_cons.1 h with h | h
        · exact hxu h
        · exact hxq' h
      exact List.mem_append_left _ (I.done x hxvis this y hy)

/-- with fuel for every pending dequeue the loop records every stored edge below a reachable vertex -/
theorem bfsLoop_complete {g : Graph} {root : Nat} (A : Arb g root) (f : Nat) (q vis : List Nat)
    (acc : List (Nat × Nat)) (I : BfsInvC g root q vis acc) (hm : q.length + unvis g.n vis ≤ f) :
    ∀ x y, Reach g.row root x → y ∈ g.row x → (x, y) ∈ bfsLoop g f q vis acc := by
  have hfinal : ∀ vis acc, BfsInvC g root [] vis acc →
      ∀ x y, Reach g.row root x → y ∈ g.row x → (x, y) ∈ acc := by
    intro vis acc I x y hx hy
    have hxv : x ∈ vis :=
      Reach.closed (S := fun z => z ∈ vis)
        (fun a b ha hb => I.acc_vis _ (I.done a ha (by simp) b hb)) I.root_vis hx
    exact I.done x hxv (by simp) y hy
  induction f generalizing q vis acc with
  | zero =>
    have : q = [] := List.eq_nil_of_length_eq_zero (by omega)
    subst this
    exact hfinal vis acc I
  | succ f ih =>
    cases q with
    | nil => rw [bfsLoop_nil]; exact hfinal vis acc I
    | cons u q =>
      rw [bfsLoop_cons]
      apply ih _ _ _ (I.step A)
      have := unvis_step g u vis
      simp only [List.length_cons, List.length_append] at hm ⊢
      omega

/-- **BFS completeness in an arborescence** : every stored edge is a tree edge -/
theorem Arb.bfsTree_complete {g : Graph} {r : Nat} (A : Arb g r) (u v : Nat) (hu : u < g.n) (hv : v ∈ g.row u) :
    (u, v) ∈ g.bfsTree r := by
  apply bfsLoop_complete A (g.n + 1) [r] [r] [] ?_ ?_ u v (A.reach u hu) hv
  · refine ⟨by simp, ?_, ?_, by simp, by simp, ?_⟩
    · intro x hx; rw [List.mem_singleton.1 hx]; exact A.root_lt
    · intro x hx; exact .inl (List.mem_singleton.1 hx)
    · intro x hx hxq; exact absurd hx hxq
  · have := unvis_le g.n [r]
    simp only [List.length_singleton]; omega

theorem Arb.sameEdgeSet {g : Graph} {r : Nat} (A : Arb g r) : sameEdgeSet (g.bfsTree r) g.edgesD = true := by
  rw [mem_sameEdgeSet]
  rintro ⟨u, v⟩
  constructor
  · intro h
    obtain ⟨h1, h2, _, _⟩ := bfsTree_edge g r u v h
    exact (mem_edgesD g u v).2 ⟨reach_row_lt g A.root_lt h2, ((mem_row g u v).1 h1).1, ((mem_row g u v).1 h1).2⟩
  · intro h
    obtain ⟨hu, hv, he⟩ := (mem_edgesD g u v).1 h
    exact A.bfsTree_complete u v hu ((mem_row g u v).2 ⟨hv, he⟩)

/-! ### completeness: the other checks -/

/-- an arborescence on `n` vertices has `n - 1` edges -/
theorem Arb.edge_count {g : Graph} {r : Nat} (A : Arb g r) : g.edgesD.length + 1 = g.n := by
  have hinj : ∀ a, a ∈ g.edgesD → ∀ b, b ∈ g.edgesD → a.2 = b.2 → a = b := by
    rintro ⟨u1, v1⟩ h1 ⟨u2, v2⟩ h2 hv
    have hv' : v1 = v2 := hv
    subst hv'
    obtain ⟨hu1, hv1, he1⟩ := (mem_edgesD g u1 v1).1 h1
    obtain ⟨hu2, _, he2⟩ := (mem_edgesD g u2 v1).1 h2
    have p1 := (A.parent_of_edge hu1 ((mem_row g u1 v1).2 ⟨hv1, he1⟩)).2
    have p2 := (A.parent_of_edge hu2 ((mem_row g u2 v1).2 ⟨hv1, he2⟩)).2
    rw [p1] at p2
    rw [Option.some.inj p2]
  have hnd : (g.edgesD.map (·.2)).Nodup := nodup_map_of_inj_on _ _ (edgesD_nodup g) hinj
  have hnd2 : ((List.range g.n).erase r).Nodup := List.Nodup.erase r List.nodup_range
  have hmem : ∀ x, x ∈ g.edgesD.map (·.2) ↔ x ∈ (List.range g.n).erase r := by
    intro x
    rw [List.Nodup.mem_erase_iff List.nodup_range, List.mem_range, List.mem_map]
    constructor
    · rintro ⟨⟨u, v⟩, he, rfl⟩
      obtain ⟨hu, hv, hee⟩ := (mem_edgesD g u v).1 he
      exact ⟨(A.parent_of_edge hu ((mem_row g u v).2 ⟨hv, hee⟩)).1, hv⟩
    · rintro ⟨hne, hx⟩
      obtain ⟨p, hp, hpl, hc⟩ := A.parent_exists x hx hne
      have hc' : x ∈ g.row p := hc
      exact ⟨(p, x), (mem_edgesD g p x).2 ⟨hpl, hx, ((mem_row g p x).1 hc').2⟩, rfl⟩
  have hlen := nodup_length_eq_of_mem_iff _ _ hnd hnd2 hmem
  rw [List.length_map, List.length_erase_of_mem (List.mem_range.2 A.root_lt), List.length_range] at hlen
  have := A.root_lt
  omega

theorem row_subset_und (g : Graph) (x y : Nat) (h : y ∈ g.row x) : y ∈ g.und x := by
  rw [mem_row] at h
  rw [mem_und]
  refine ⟨h.1, .inl ?_⟩
  simpa [Graph.isEdge] using h.2

/-- an arborescence is weakly connected -/
theorem Arb.nComponents {g : Graph} {r : Nat} (A : Arb g r) : g.nComponents = 1 := by
  have hpos : 0 < g.n := Nat.lt_of_le_of_lt (Nat.zero_le _) A.root_lt
  rw [nComponents_eq_one_iff g hpos]
  intro u v hu hv
  have hru : Reach g.und r u := (A.reach u hu).mono (row_subset_und g)
  have hrv : Reach g.und r v := (A.reach v hv).mono (row_subset_und g)
  exact (reach_und_symm g A.root_lt hru).trans hrv

/-- the DFS detector finds no cycle in an arborescence -/
theorem Arb.hasCycles {g : Graph} {r : Nat} (A : Arb g r) : g.hasCycles true = false := by
  cases h : g.hasCycles true with
  | false => rfl
  | true => exact absurd ((hasCycles_directed_iff g).1 h) A.acyclic

theorem Arb.isTree {g : Graph} {r : Nat} (A : Arb g r) : g.isTree true = true := by
  simp [Graph.isTree, Graph.isTreeCoded, Graph.edges, A.edge_count, A.hasCycles, A.nComponents]

/-- an arborescence with at least two vertices has no isolated vertex -/
theorem Arb.isolated {g : Graph} {r : Nat} (A : Arb g r) (h2 : 2 ≤ g.n) : g.isolated = [] := by
  rw [List.eq_nil_iff_forall_not_mem]
  intro v hv
  rw [mem_isolated] at hv
  obtain ⟨hvl, hno⟩ := hv
  by_cases hne : v = r
  · subst hne
    -- some other vertex is reached from the root, so the root has a child
    obtain ⟨w, hw, hwv⟩ : ∃ w, w < g.n ∧ w ≠ v := by
      by_cases h0 : v = 0
      · exact ⟨1, by omega, by omega⟩
      · exact ⟨0, by omega, fun h => h0 h.symm⟩
    rcases (A.reach w hw).cases_head with heq | ⟨b, hb, _⟩
    · exact hwv heq.symm
    · have := (hno b (row_lt g v b hb)).1
      rw [((mem_row g v b).1 hb).2] at this
      cases this
  · obtain ⟨p, _, hpl, hc⟩ := A.parent_exists v hvl hne
    have hc' : v ∈ g.row p := hc
    have := (hno p hpl).2
    rw [((mem_row g p v).1 hc').2] at this
    cases this

/-- **COMPLETENESS** : an arborescence with at least two vertices is accepted -/
theorem Arb.treeCtor {g : Graph} {r : Nat} (A : Arb g r) (h2 : 2 ≤ g.n) : g.treeCtor r = .ok () :=
  (treeCtor_ok_iff g r).2 ⟨by omega, A.isolated h2, A.isTree, A.root_lt, A.sameEdgeSet⟩

theorem treeCtor_complete (g : Graph) (r : Nat) (h : g.refArborescence r = true) (h2 : 2 ≤ g.n) :
    g.treeCtor r = .ok () :=
  ((refArborescence_iff g r).1 h).treeCtor h2

/-- **the `Tree` constructor accepts exactly the arborescences with at least two vertices rooted at
the given root**, every size -/
theorem treeCtor_iff (g : Graph) (r : Nat) :
    g.treeCtor r = .ok () ↔ 2 ≤ g.n ∧ g.refArborescence r = true :=
  ⟨fun h => ⟨(treeCtor_arb g r h).2, treeCtor_sound g r h⟩, fun h => treeCtor_complete g r h.2 h.1⟩

/-- the unbounded version of `treeCtor_spec_small` -/
theorem treeCtorOk_eq (g : Graph) (r : Nat) :
    g.treeCtorOk r = (decide (2 ≤ g.n) && g.refArborescence r) := by
  by_cases h : 2 ≤ g.n ∧ g.refArborescence r = true
  · have hok := (treeCtor_iff g r).2 h
    simp [Graph.treeCtorOk, hok, h.1, h.2]
  · have hne : g.treeCtor r ≠ .ok () := fun hok => h ((treeCtor_iff g r).1 hok)
    have hrhs : (decide (2 ≤ g.n) && g.refArborescence r) = false := by
      cases hd : (decide (2 ≤ g.n) && g.refArborescence r) with
      | false => rfl
      | true =>
        simp only [Bool.and_eq_true, decide_eq_true_eq] at hd
        exact absurd hd h
    rw [hrhs]
    unfold Graph.treeCtorOk
    cases hc : g.treeCtor r with
    | error e => rfl
    | ok u => exact absurd hc hne

/-- an accepted tree passes `is_tree`, in particular it has `n - 1` edges, no cycle, one component -/
theorem treeCtor_edge_count (g : Graph) (r : Nat) (h : g.treeCtor r = .ok ()) : g.edgesD.length + 1 = g.n :=
  (treeCtor_arb g r h).1.edge_count

/-! ### a concrete instance

The tree `3 → {1, 0}`, `1 → {2, 5}`, `5 → 6`, `0 → 4` on 7 vertices, rooted at `3`. -/

def ctorExTree : Graph := Graph.ofRows
  [[0,0,0,0,1,0,0],
   [0,0,1,0,0,1,0],
   [0,0,0,0,0,0,0],
   [1,1,0,0,0,0,0],
   [0,0,0,0,0,0,0],
   [0,0,0,0,0,0,1],
   [0,0,0,0,0,0,0]]

theorem ctorExTree_ok : ctorExTree.treeCtorOk 3 = true := by decide

theorem ctorExTree_accepted : ctorExTree.treeCtor 3 = .ok () := by
  have h := ctorExTree_ok
  unfold Graph.treeCtorOk at h
  cases hc : ctorExTree.treeCtor 3 with
  | error e => rw [hc] at h; cases h
  | ok u => rfl

/-- the hypotheses are satisfiable, and only for the right root -/
example : ctorExTree.refArborescence 3 = true ∧ ctorExTree.refArborescence 1 = false ∧
    ctorExTree.treeCtorOk 1 = false ∧
    ctorExTree.bfsTree 3 = [(3, 0), (3, 1), (0, 4), (1, 2), (1, 5), (5, 6)] := by decide

example : ctorExTree.depth 3 6 = some 3 ∧ ctorExTree.parent 6 = some 5 ∧ ctorExTree.depth 3 5 = some 2 ∧
    ctorExTree.leaves = [2, 4, 6] ∧ ctorExTree.isRoute [3, 1, 5, 6] = true ∧
    ctorExTree.predList = [some 3, some 3, some 1, none, some 0, some 1, some 5] := by decide

/-- the general theorems instantiated on it -/
example : (∀ v, v < 7 → ∃ d, ctorExTree.depth 3 v = some d ∧ d < 7) ∧
    ctorExTree.depth 3 6 = some 3 ∧ ctorExTree.parent 3 = none :=
  ⟨treeCtor_depth_total ctorExTree 3 ctorExTree_accepted,
   treeCtor_route_length ctorExTree 3 ctorExTree_accepted [1, 5, 6] (by decide) (by decide),
   (treeCtor_parent ctorExTree 3 ctorExTree_accepted).1⟩

end MenpoModel.C14
