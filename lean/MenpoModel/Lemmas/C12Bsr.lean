/-
C12 — lemmas about the block-sparse-row assembly (`rows.argsort()`, the `indptr` loop, the BSR
denotation).  Main result: `bsr_sorted_denotes`.
-/
import MenpoModel.Core.C12GMRF
import Mathlib.Algebra.BigOperators.Group.List.Basic
import Mathlib.Algebra.Order.Field.Rat

set_option linter.unusedSimpArgs false
set_option linter.unusedVariables false

namespace MenpoModel.C12

/-! ### a list sorted by a key splits into `< i`, `= i`, `> i` -/

theorem sorted_split {α : Type} (f : α → Nat) (i : Nat) (l : List α)
    (h : l.Pairwise (fun a b => f a ≤ f b)) :
    l = l.filter (fun a => decide (f a < i)) ++
        (l.filter (fun a => decide (f a = i)) ++ l.filter (fun a => decide (i < f a))) := by
  induction l with
  | nil => simp
  | cons a l ih =>
    rw [List.pairwise_cons] at h
    obtain ⟨ha, hl⟩ := h
    have ih := ih hl
    rcases Nat.lt_trichotomy (f a) i with hlt | heq | hgt
    · have h1 : ¬ f a = i := by omega
      have h2 : ¬ i < f a := by omega
      simp only [List.filter_cons, hlt, h1, h2, decide_true, decide_false, if_true, if_false,
        List.cons_append, Bool.false_eq_true]
      exact congrArg _ ih
    · have h1 : ¬ f a < i := by omega
      have h2 : ¬ i < f a := by omega
      have hnil : l.filter (fun a => decide (f a < i)) = [] := by
        rw [List.filter_eq_nil_iff]; intro b hb; have := ha b hb; simp; omega
      simp only [List.filter_cons, heq, h1, h2, decide_true, decide_false, if_true, if_false,
        List.cons_append, Bool.false_eq_true, hnil, List.nil_append]
      rw [hnil] at ih; simpa using ih
    · have h1 : ¬ f a < i := by omega
      have h2 : ¬ f a = i := by omega
      have hnil : l.filter (fun a => decide (f a < i)) = [] := by
        rw [List.filter_eq_nil_iff]; intro b hb; have := ha b hb; simp; omega
      have hnil2 : l.filter (fun a => decide (f a = i)) = [] := by
        rw [List.filter_eq_nil_iff]; intro b hb; have := ha b hb; simp; omega
      simp only [List.filter_cons, hgt, h1, h2, decide_true, decide_false, if_true, if_false,
        List.cons_append, Bool.false_eq_true, hnil, hnil2, List.nil_append]
      rw [hnil, hnil2] at ih; simpa using ih

/-! ### `np.where(rows == i)` -/

theorem whereEq_append (i : Nat) (a b : List Nat) (p : Nat) :
    whereEq i (a ++ b) p = whereEq i a p ++ whereEq i b (p + a.length) := by
  induction a generalizing p with
  | nil => simp [whereEq]
  | cons r rs ih =>
    simp only [List.cons_append, whereEq, List.length_cons]
    split
    · rw [ih]; simp [Nat.add_assoc, Nat.add_comm 1]
    · rw [ih]; simp [Nat.add_assoc, Nat.add_comm 1]

theorem whereEq_none (i : Nat) (a : List Nat) (p : Nat) (h : ∀ r ∈ a, r ≠ i) : whereEq i a p = [] := by
  induction a generalizing p with
  | nil => simp [whereEq]
  | cons r rs ih =>
    have hr : r ≠ i := h r (by simp)
    simp only [whereEq, hr, if_false]
    exact ih _ (fun r hr => h r (by simp [hr]))

theorem whereEq_all (i : Nat) (a : List Nat) (p : Nat) (h : ∀ r ∈ a, r = i) :
    whereEq i a p = List.range' p a.length := by
  induction a generalizing p with
  | nil => simp [whereEq]
  | cons r rs ih =>
    have hr : r = i := h r (by simp)
    simp only [whereEq, hr, if_true, List.length_cons, List.range'_succ]
    rw [ih _ (fun r hr => h r (by simp [hr]))]

/-- number of rows below `j` -/
def cnt (rows : List Nat) (j : Nat) : Nat := (rows.filter (fun r => decide (r < j))).length

theorem cnt_succ (rows : List Nat) (i : Nat) :
    cnt rows (i + 1) = cnt rows i + (rows.filter (fun r => decide (r = i))).length := by
  unfold cnt
  induction rows with
  | nil => simp
  | cons r rs ih =>
    simp only [List.filter_cons]
    rcases Nat.lt_trichotomy r i with h | h | h
    · have h1 : r < i + 1 := by omega
      have h2 : ¬ r = i := by omega
      simp only [h, h1, h2, decide_true, decide_false, if_true, List.length_cons, Bool.false_eq_true, if_false]
      omega
    · subst h
      have h1 : r < r + 1 := by omega
      have h2 : ¬ r < r := by omega
      simp only [h1, h2, decide_true, decide_false, if_true, List.length_cons, Bool.false_eq_true, if_false]
      omega
    · have h1 : ¬ r < i + 1 := by omega
      have h2 : ¬ r < i := by omega
      have h3 : ¬ r = i := by omega
      simp only [h1, h2, h3, decide_false, Bool.false_eq_true, if_false]
      exact ih

theorem whereEq_sorted (rows : List Nat) (i : Nat) (h : rows.Pairwise (· ≤ ·)) :
    whereEq i rows 0 = List.range' (cnt rows i) (rows.filter (fun r => decide (r = i))).length := by
  have hs := sorted_split (fun r => r) i rows h
  have e : whereEq i rows 0 = whereEq i (rows.filter (fun a => decide (a < i)) ++
        (rows.filter (fun a => decide (a = i)) ++ rows.filter (fun a => decide (i < a)))) 0 := by
    rw [← hs]
  rw [e, whereEq_append, whereEq_append]
  rw [whereEq_none i (rows.filter fun a => decide (a < i)) 0 (by
        intro r hr; simp at hr; omega)]
  rw [whereEq_none i (rows.filter fun a => decide (i < a)) _ (by
        intro r hr; simp at hr; omega)]
  rw [whereEq_all i (rows.filter fun a => decide (a = i)) _ (by
        intro r hr; simp at hr; omega)]
  simp [cnt]

/-! ### the `indptr` loop computes the row counts -/

theorem getD_set (l : List Nat) (i j a : Nat) :
    (l.set i a).getD j 0 = if i = j ∧ i < l.length then a else l.getD j 0 := by
  simp only [List.getD_eq_getElem?_getD, List.getElem?_set]
  by_cases h : i = j
  · subst h
    by_cases h2 : i < l.length
    · simp [h2]
    · simp [h2]
  · simp [h]

theorem indptrStep_spec (rows : List Nat) (nrows : Nat) (hs : rows.Pairwise (· ≤ ·)) (ip : List Nat) (i : Nat)
    (hi : i < nrows) (hlen : ip.length = nrows + 1) (hinv : ∀ j, j ≤ i → ip.getD j 0 = cnt rows j) :
    (indptrStep rows ip i).length = nrows + 1 ∧
      ∀ j, j ≤ i + 1 → (indptrStep rows ip i).getD j 0 = cnt rows j := by
  have hw := whereEq_sorted rows i hs
  have hc := cnt_succ rows i
  unfold indptrStep
  cases hm : (rows.filter (fun r => decide (r = i))).length with
  | zero =>
    rw [hm] at hw hc
    simp only [List.range'_zero] at hw
    rw [hw]
    refine ⟨by simp [hlen], ?_⟩
    intro j hj
    rw [getD_set]
    by_cases hji : i + 1 = j
    · subst hji
      have : i + 1 < ip.length := by omega
      simp only [this, and_self, if_true]
      rw [hinv i (Nat.le_refl _)]; omega
    · have : j ≤ i := by omega
      simp only [hji, false_and, if_false]
      exact hinv j this
  | succ m =>
    rw [hm] at hw hc
    rw [List.range'_succ] at hw
    rw [hw]
    refine ⟨by simp [hlen], ?_⟩
    intro j hj
    have hlast : (cnt rows i :: List.range' (cnt rows i + 1) m).getLast?.getD 0 = cnt rows i + m := by
      rw [← List.range'_succ, List.getLast?_range']
      simp
    simp only [hlast]
    rw [getD_set, getD_set]
    by_cases hji : i + 1 = j
    · subst hji
      have : i + 1 < (ip.set i (cnt rows i)).length := by simp; omega
      simp only [this, and_self, if_true]; omega
    · simp only [hji, false_and, if_false]
      by_cases hji2 : i = j
      · subst hji2
        have : i < ip.length := by omega
        simp [this]
      · simp only [hji2, false_and, if_false]
        exact hinv j (by omega)

theorem indptrLoop_spec (rows : List Nat) (nrows : Nat) (hs : rows.Pairwise (· ≤ ·)) :
    ∀ j, j ≤ nrows → (indptrLoop rows nrows).getD j 0 = cnt rows j := by
  unfold indptrLoop
  have key : ∀ m, m ≤ nrows →
      ((List.range m).foldl (indptrStep rows) (List.replicate (nrows + 1) 0)).length = nrows + 1 ∧
      ∀ j, j ≤ m → ((List.range m).foldl (indptrStep rows) (List.replicate (nrows + 1) 0)).getD j 0 = cnt rows j := by
    intro m
    induction m with
    | zero =>
      intro _
      refine ⟨by simp, ?_⟩
      intro j hj
      have : j = 0 := by omega
      subst this
      simp [cnt]
    | succ m ih =>
      intro hm
      obtain ⟨h1, h2⟩ := ih (by omega)
      rw [List.range_succ, List.foldl_append]
      simp only [List.foldl_cons, List.foldl_nil]
      exact indptrStep_spec rows nrows hs _ m (by omega) h1 h2
  exact (key nrows (Nat.le_refl _)).2

/-! ### the slice owned by a block row -/

theorem sum_filter_map {α : Type} (p : α → Bool) (g : α → Rat) (l : List α) :
    ((l.filter p).map g).sum = (l.map fun t => if p t then g t else 0).sum := by
  induction l with
  | nil => simp
  | cons a l ih =>
    by_cases h : p a
    · simp [List.filter_cons, h, ih]
    · simp [List.filter_cons, h, ih]

/-- **the BSR triple built from any row-sorted permutation of the triplets denotes their sum** -/
theorem bsr_sorted_denotes (ts sorted : List Trip) (nrows : Nat)
    (hperm : sorted.Perm ts) (hsorted : sorted.Pairwise (fun a b => a.row ≤ b.row))
    (bi bj a c : Nat) (hbi : bi < nrows) :
    bsrBlockEnt (assembleSorted nrows sorted) bi bj a c = tripsEnt ts bi bj a c := by
  have hrows : (sorted.map (·.row)).Pairwise (· ≤ ·) := by
    rw [List.pairwise_map]; exact hsorted
  have hlo := indptrLoop_spec (sorted.map (·.row)) nrows hrows bi (by omega)
  have hhi := indptrLoop_spec (sorted.map (·.row)) nrows hrows (bi + 1) (by omega)
  have hsplit := sorted_split (fun t : Trip => t.row) bi sorted hsorted
  have hcl : cnt (sorted.map (·.row)) bi = (sorted.filter (fun t => decide (t.row < bi))).length := by
    simp [cnt, List.filter_map, Function.comp_def]
  have hcm : (sorted.map (·.row) |>.filter (fun r => decide (r = bi))).length =
      (sorted.filter (fun t => decide (t.row = bi))).length := by
    simp [List.filter_map, Function.comp_def]
  have hsucc := cnt_succ (sorted.map (·.row)) bi
  unfold bsrBlockEnt assembleSorted
  simp only
  rw [hlo, hhi, hsucc, hcl, hcm, Nat.add_sub_cancel_left, List.zip_map']
  have hslice : ((sorted.map fun t => (t.col, t.blk)).drop
        (sorted.filter (fun t => decide (t.row < bi))).length).take
        (sorted.filter (fun t => decide (t.row = bi))).length =
      (sorted.filter (fun t => decide (t.row = bi))).map fun t => (t.col, t.blk) := by
    have hmap : (sorted.map fun t : Trip => (t.col, t.blk)) =
        (sorted.filter (fun t => decide (t.row < bi))).map (fun t : Trip => (t.col, t.blk)) ++
        ((sorted.filter (fun t => decide (t.row = bi))).map (fun t : Trip => (t.col, t.blk)) ++
         (sorted.filter (fun t => decide (bi < t.row))).map (fun t : Trip => (t.col, t.blk))) := by
      conv_lhs => rw [hsplit]
      simp only [List.map_append]
    rw [hmap, List.drop_left' (by simp), List.take_left' (by simp)]
  rw [hslice, List.map_map, sum_filter_map]
  unfold tripsEnt
  rw [← (List.Perm.map _ hperm).sum_eq]
  congr 1
  apply List.map_congr_left
  intro t _
  by_cases h1 : t.row = bi <;> simp [h1]

theorem insertByRow_perm (t : Trip) (l : List Trip) : (insertByRow t l).Perm (t :: l) := by
  induction l with
  | nil => simp [insertByRow]
  | cons u us ih =>
    unfold insertByRow
    split
    · exact List.Perm.refl _
    · exact (List.Perm.cons u ih).trans (List.Perm.swap t u us)

theorem sortByRow_perm (ts : List Trip) : (sortByRow ts).Perm ts := by
  induction ts with
  | nil => simp [sortByRow]
  | cons t ts ih =>
    unfold sortByRow
    exact (insertByRow_perm t _).trans (List.Perm.cons t ih)

theorem insertByRow_sorted (t : Trip) (l : List Trip) (h : l.Pairwise (fun a b => a.row ≤ b.row)) :
    (insertByRow t l).Pairwise (fun a b => a.row ≤ b.row) := by
  induction l with
  | nil => simp [insertByRow]
  | cons u us ih =>
    rw [List.pairwise_cons] at h
    unfold insertByRow
    split
    · rename_i htu
      rw [List.pairwise_cons]
      refine ⟨?_, List.pairwise_cons.2 h⟩
      intro b hb
      simp at hb
      rcases hb with hb | hb
      · subst hb; exact htu
      · exact Nat.le_trans htu (h.1 b hb)
    · rename_i htu
      rw [List.pairwise_cons]
      refine ⟨?_, ih h.2⟩
      intro b hb
      have := (insertByRow_perm t us).mem_iff.1 hb
      simp at this
      rcases this with hb' | hb'
      · subst hb'; omega
      · exact h.1 b hb'

theorem sortByRow_sorted (ts : List Trip) : (sortByRow ts).Pairwise (fun a b => a.row ≤ b.row) := by
  induction ts with
  | nil => simp [sortByRow]
  | cons t ts ih => unfold sortByRow; exact insertByRow_sorted t _ ih

end MenpoModel.C12
