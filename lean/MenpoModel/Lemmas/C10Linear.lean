/-
C10 — lemmas about the linear-algebra model (`Core/C10Linear.lean`): everything is proved from the
eigen-decomposition contract over `Matrix (Fin _) (Fin _) ℚ`, for every dimension.
-/
import MenpoModel.Core.C10Linear
import Mathlib.Algebra.Order.BigOperators.Ring.Finset
import Mathlib.Tactic.Ring
import Mathlib.Tactic.Linarith
import Mathlib.Tactic.FieldSimp
import Mathlib.Tactic.Abel

namespace MenpoModel.C10
open Matrix

variable {n d k k' : ℕ}
variable {K : Type} [Field K] [LinearOrder K] [IsStrictOrderedRing K]


theorem centred_sum_zero (X : Matrix (Fin n) (Fin d) K) (hn : n ≠ 0) (j : Fin d) :
    ∑ i, centred X (mean X) i j = 0 := by
  have hn' : (n : K) ≠ 0 := by exact_mod_cast hn
  simp only [centred, mean, Matrix.of_apply, Finset.sum_sub_distrib, Finset.sum_const, Finset.card_univ,
    Fintype.card_fin, nsmul_eq_mul]
  field_simp
  ring

theorem mean_is_sample_mean (X : Matrix (Fin n) (Fin d) K) (hn : n ≠ 0) (j : Fin d) :
    (n : K) * pcaMean true X j = ∑ i, X i j := by
  have hn' : (n : K) ≠ 0 := by exact_mod_cast hn
  simp only [pcaMean, mean, if_true]
  field_simp

theorem cov_transpose (Xc : Matrix (Fin n) (Fin d) K) : (cov Xc)ᵀ = cov Xc := by
  simp [cov, transpose_smul, transpose_mul]

theorem gram_transpose (Xc : Matrix (Fin n) (Fin d) K) : (gram Xc)ᵀ = gram Xc := by
  simp [gram, transpose_smul, transpose_mul]

theorem symmetrize_of_symm {a : ℕ} (C : Matrix (Fin a) (Fin a) K) (h : Cᵀ = C) : symmetrize C = C := by
  ext i j
  simp only [symmetrize, h, smul_apply, add_apply, smul_eq_mul]
  ring

theorem symmetrize_cov (Xc : Matrix (Fin n) (Fin d) K) : symmetrize (cov Xc) = cov Xc :=
  symmetrize_of_symm _ (cov_transpose Xc)

theorem symmetrize_gram (Xc : Matrix (Fin n) (Fin d) K) : symmetrize (gram Xc) = gram Xc :=
  symmetrize_of_symm _ (gram_transpose Xc)

theorem EigContract.conj {C : Matrix (Fin d) (Fin d) K} {U : Matrix (Fin k) (Fin d) K} {l : Fin k → K}
    (h : EigContract C U l) : U * C * Uᵀ = diagonal l := by
  rw [h.eig, Matrix.mul_assoc, h.orth, Matrix.mul_one]

theorem variance_identity {Xc : Matrix (Fin n) (Fin d) K} {U : Matrix (Fin k) (Fin d) K} {l : Fin k → K}
    (h : EigContract (cov Xc) U l) (i : Fin k) : l i = sampleVariance Xc U i := by
  have h1 := h.conj
  have h2 : U * cov Xc * Uᵀ = ((n : K) - 1)⁻¹ • ((Xc * Uᵀ)ᵀ * (Xc * Uᵀ)) := by
    simp [cov, transpose_mul, Matrix.mul_assoc]
  have h3 := congrFun (congrFun (h1.symm.trans h2) i) i
  rw [diagonal_apply_eq] at h3
  rw [h3, sampleVariance]
  simp only [smul_apply, smul_eq_mul, Matrix.mul_apply (M := (Xc * Uᵀ)ᵀ), transpose_apply]
  congr 1
  apply Finset.sum_congr rfl
  intro s _
  ring



theorem gram_path_contract {Xc : Matrix (Fin n) (Fin d) K} {V : Matrix (Fin k) (Fin n) K}
    {l w : Fin k → K} (hn : 2 ≤ n) (hV : V * Vᵀ = 1) (hG : V * gram Xc = diagonal l * V)
    (hw : ∀ i, w i ^ 2 * (((n : K) - 1) * l i) = 1) :
    EigContract (cov Xc) (gramComponents w V Xc) l := by
  have hc : ((n : K) - 1) ≠ 0 := by
    have : (2 : K) ≤ n := by exact_mod_cast hn
    linarith
  have hXX : Xc * Xcᵀ = ((n : K) - 1) • gram Xc := by
    simp [gram, smul_smul, mul_inv_cancel₀ hc]
  constructor
  · -- orthonormal rows
    have e1 : gramComponents w V Xc * (gramComponents w V Xc)ᵀ
        = diagonal w * (V * (Xc * Xcᵀ) * Vᵀ) * diagonal w := by
      simp [gramComponents, transpose_mul, Matrix.mul_assoc]
    have e2 : V * (Xc * Xcᵀ) * Vᵀ = ((n : K) - 1) • diagonal l := by
      rw [hXX, Matrix.mul_smul, hG, Matrix.smul_mul, Matrix.mul_assoc, hV, Matrix.mul_one]
    rw [e1, e2, ← diagonal_smul, diagonal_mul_diagonal, diagonal_mul_diagonal, ← diagonal_one]
    congr 1
    ext i
    have := hw i
    simp only [Pi.smul_apply, smul_eq_mul]
    calc w i * (((n : K) - 1) * l i) * w i = w i ^ 2 * (((n : K) - 1) * l i) := by ring
      _ = 1 := this
  · -- eigen-rows of the covariance
    have e1 : gramComponents w V Xc * cov Xc = diagonal w * ((V * gram Xc) * Xc) := by
      simp [gramComponents, cov, gram, Matrix.mul_assoc]
    rw [e1, hG]
    simp only [gramComponents, ← Matrix.mul_assoc, diagonal_mul_diagonal]
    have : (fun i => w i * l i) = (fun i => l i * w i) := by ext i; ring
    rw [this]

theorem project_eq (U : Matrix (Fin k) (Fin d) K) (m x : Fin d → K) : project U m x = U *ᵥ (x - m) := by
  simp [project, vecMul_transpose]

theorem project_instance {U : Matrix (Fin k) (Fin d) K} (hU : U * Uᵀ = 1) (m : Fin d → K) (w : Fin k → K) :
    project U m (inst U m w) = w := by
  rw [project_eq, inst, add_sub_cancel_right, ← mulVec_transpose, mulVec_mulVec, hU, one_mulVec]

theorem reconstruct_idempotent {U : Matrix (Fin k) (Fin d) K} (hU : U * Uᵀ = 1) (m x : Fin d → K) :
    reconstruct U m (reconstruct U m x) = reconstruct U m x := by
  unfold reconstruct
  rw [project_instance hU]

/-- the matrix of the reconstruction map about the mean -/
def projector (U : Matrix (Fin k) (Fin d) K) : Matrix (Fin d) (Fin d) K := Uᵀ * U

theorem reconstruct_eq_projector (U : Matrix (Fin k) (Fin d) K) (m x : Fin d → K) :
    reconstruct U m x = projector U *ᵥ (x - m) + m := by
  rw [reconstruct, inst, project_eq, projector, ← mulVec_mulVec, mulVec_transpose]

theorem projector_idempotent {U : Matrix (Fin k) (Fin d) K} (hU : U * Uᵀ = 1) :
    projector U * projector U = projector U := by
  unfold projector
  rw [Matrix.mul_assoc, ← Matrix.mul_assoc U, hU, Matrix.one_mul]

theorem projector_symm (U : Matrix (Fin k) (Fin d) K) : (projector U)ᵀ = projector U := by
  simp [projector, transpose_mul]

theorem reconstruct_add_projectOut (U : Matrix (Fin k) (Fin d) K) (m x : Fin d → K) :
    reconstruct U m x + projectOut U m x = x := by
  unfold reconstruct inst projectOut
  ext j; simp only [Pi.add_apply, Pi.sub_apply]; ring

theorem residual_orthogonal {U : Matrix (Fin k) (Fin d) K} (hU : U * Uᵀ = 1) (m x : Fin d → K) :
    U *ᵥ projectOut U m x = 0 := by
  have h := project_instance hU 0 (project U m x)
  rw [project_eq, inst, add_zero, sub_zero] at h
  rw [projectOut, mulVec_sub, h, project_eq, sub_self]

theorem contract_prefix {C : Matrix (Fin d) (Fin d) K} {U : Matrix (Fin k) (Fin d) K} {l : Fin k → K}
    (h : EigContract C U l) (hk : k' ≤ k) :
    EigContract C (prefixRows U hk) (l ∘ Fin.castLE hk) := by
  constructor
  · ext i j
    have := congrFun (congrFun h.orth (Fin.castLE hk i)) (Fin.castLE hk j)
    simp only [Matrix.mul_apply, transpose_apply, prefixRows, submatrix_apply, id] at this ⊢
    rw [this]
    simp [Matrix.one_apply, Fin.ext_iff]
  · ext i j
    have := congrFun (congrFun h.eig (Fin.castLE hk i)) j
    rw [diagonal_mul, Matrix.mul_apply] at this
    rw [diagonal_mul, Matrix.mul_apply]
    simpa [prefixRows] using this

theorem eq_zero_of_trace_transpose_mul_self {a b : ℕ} (R : Matrix (Fin a) (Fin b) K)
    (h : trace (Rᵀ * R) = 0) : R = 0 := by
  have h1 : trace (Rᵀ * R) = ∑ j, ∑ i, R i j * R i j := by
    simp [trace, Matrix.mul_apply]
  rw [h1] at h
  have h2 := (Finset.sum_eq_zero_iff_of_nonneg (fun j _ => Finset.sum_nonneg (fun i _ => mul_self_nonneg (R i j)))).mp h
  ext i j
  have h3 := (Finset.sum_eq_zero_iff_of_nonneg (fun i _ => mul_self_nonneg (R i j))).mp (h2 j (Finset.mem_univ _)) i
    (Finset.mem_univ _)
  simpa using h3

/-- the rows of the centred data lie in the span of the components when no variance is discarded -/
theorem residual_matrix_zero {Xc : Matrix (Fin n) (Fin d) K} {U : Matrix (Fin k) (Fin d) K} {l : Fin k → K}
    (hn : 2 ≤ n) (h : EigContract (cov Xc) U l) (htr : trace (cov Xc) = ∑ i, l i) :
    Xc - Xc * projector U = 0 := by
  have hc : ((n : K) - 1) ≠ 0 := by
    have : (2 : K) ≤ n := by exact_mod_cast hn
    linarith
  apply eq_zero_of_trace_transpose_mul_self
  set P := projector U with hP
  set S := Xcᵀ * Xc with hS
  have hS' : S = ((n : K) - 1) • cov Xc := by
    simp [cov, hS, smul_smul, mul_inv_cancel₀ hc]
  have e1 : (Xc - Xc * P)ᵀ * (Xc - Xc * P) = S - S * P - P * S + P * S * P := by
    simp only [transpose_sub, transpose_mul, projector_symm, hP, Matrix.sub_mul, Matrix.mul_sub, hS,
      Matrix.mul_assoc]
    abel
  have t1 : trace (P * S) = trace (S * P) := trace_mul_comm _ _
  have t2 : trace (P * S * P) = trace (S * P) := by
    rw [trace_mul_comm, ← Matrix.mul_assoc, hP, projector_idempotent h.orth, trace_mul_comm]
  have t3 : trace (S * P) = ((n : K) - 1) * ∑ i, l i := by
    have : trace (S * P) = trace (U * S * Uᵀ) := by
      rw [hP, projector, ← Matrix.mul_assoc, trace_mul_comm, ← Matrix.mul_assoc]
    rw [this, hS', Matrix.mul_smul, Matrix.smul_mul, h.conj, trace_smul, trace_diagonal, smul_eq_mul]
  have t4 : trace S = ((n : K) - 1) * trace (cov Xc) := by
    rw [hS', trace_smul, smul_eq_mul]
  rw [e1, trace_add, trace_sub, trace_sub, t1, t2, t3, t4, htr]
  ring

theorem full_model_reconstructs_training {Xc : Matrix (Fin n) (Fin d) K} {U : Matrix (Fin k) (Fin d) K}
    {l : Fin k → K} (hn : 2 ≤ n) (h : EigContract (cov Xc) U l) (htr : trace (cov Xc) = ∑ i, l i)
    (m : Fin d → K) (s : Fin n) :
    reconstruct U m (fun j => Xc s j + m j) = fun j => Xc s j + m j := by
  have hz := residual_matrix_zero hn h htr
  rw [reconstruct_eq_projector]
  have hx : (fun j => Xc s j + m j) - m = fun j => Xc s j := by ext j; simp
  rw [hx]
  ext j
  have h1 : (projector U *ᵥ fun j => Xc s j) j = (Xc * projector U) s j := by
    have hsym : ∀ a b, projector U a b = projector U b a := fun a b => by
      have := congrFun (congrFun (projector_symm U) b) a
      simpa using this
    simp only [mulVec, dotProduct, Matrix.mul_apply]
    apply Finset.sum_congr rfl
    intro a _
    rw [hsym j a]; ring
  have h2 := congrFun (congrFun hz s) j
  simp only [sub_apply, zero_apply] at h2
  simp only [Pi.add_apply, h1]
  linarith

theorem sampleVariance_nonneg (hn : 2 ≤ n) (Xc : Matrix (Fin n) (Fin d) K) (U : Matrix (Fin k) (Fin d) K)
    (i : Fin k) : 0 ≤ sampleVariance Xc U i := by
  have hc : (0 : K) < (n : K) - 1 := by
    have : (2 : K) ≤ n := by exact_mod_cast hn
    linarith
  unfold sampleVariance
  exact mul_nonneg (le_of_lt (inv_pos.mpr hc)) (Finset.sum_nonneg (fun s _ => sq_nonneg _))

end MenpoModel.C10
