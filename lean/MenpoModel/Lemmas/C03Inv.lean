/-
C03 — class invariants ("the matrix really is one") and their closure under the matrix product.
-/
import MenpoModel.Lemmas.C03Mat

namespace MenpoModel.C03

open Matrix

variable {d : Nat}

/-- linear block as a Mathlib matrix -/
abbrev linM (M : Mat (d + 1)) : Matrix (Fin d) (Fin d) ℚ := toM (lin M)

theorem linM_mul {A B : Mat (d + 1)} (hB : IsAffine B) : linM (Mat.mul A B) = linM A * linM B := by
  simp only [linM, lin_mul hB, toM_mul]

/-- What it means for a matrix to "really be" a member of each of the seven base classes:
* Affine: bottom row `(0,…,0,1)`;
* Similarity: affine with `Lᵀ L = λ·1`, `λ > 0`;
* Rotation: affine, `Lᵀ L = 1`, no translation;
* Translation: affine with `L = 1`;
* UniformScale: affine, `L = s·1`, `s ≠ 0`, no translation;
* NonUniformScale: affine, `L` diagonal with non-zero entries, no translation. -/
def InvBase : HCls → Mat (d + 1) → Prop
  | .Homogeneous, _ => True
  | .Affine, M => IsAffine M
  | .Similarity, M => IsAffine M ∧ ∃ l : ℚ, 0 < l ∧ (linM M)ᵀ * linM M = l • (1 : Matrix (Fin d) (Fin d) ℚ)
  | .Rotation, M => IsAffine M ∧ (trans M).get = 0 ∧ (linM M)ᵀ * linM M = 1
  | .Translation, M => IsAffine M ∧ linM M = 1
  | .UniformScale, M => IsAffine M ∧ (trans M).get = 0 ∧ ∃ s : ℚ, s ≠ 0 ∧ linM M = s • (1 : Matrix (Fin d) (Fin d) ℚ)
  | .NonUniformScale, M =>
      IsAffine M ∧ (trans M).get = 0 ∧ ∃ v : Fin d → ℚ, (∀ i, v i ≠ 0) ∧ linM M = Matrix.diagonal v
  | _, _ => False

/-- class invariant of any of the twelve classes: an alignment class is its base class -/
def Inv (c : HCls) (M : Mat (d + 1)) : Prop := InvBase (baseOf c) M

theorem invBase_affine {c : HCls} {M : Mat (d + 1)} (h : InvBase c M) (hc : c ≠ .Homogeneous) :
    IsAffine M := by
  cases c <;> simp only [InvBase] at h <;> first | exact absurd rfl hc | exact h | exact h.1 

/-! ### the subclass order on the base classes, and monotonicity of the invariant -/

def baseLe : HCls → HCls → Bool
  | _, .Homogeneous => true
  | .Homogeneous, _ => false
  | .Affine, .Affine | .Similarity, .Affine | .Rotation, .Affine | .Translation, .Affine
  | .UniformScale, .Affine | .NonUniformScale, .Affine => true
  | .Similarity, .Similarity | .Rotation, .Similarity | .Translation, .Similarity
  | .UniformScale, .Similarity => true
  | .Rotation, .Rotation | .Translation, .Translation | .UniformScale, .UniformScale
  | .NonUniformScale, .NonUniformScale => true
  | _, _ => false

theorem sim_of_rot {M : Mat (d + 1)} (h : InvBase .Rotation M) : InvBase .Similarity M :=
  ⟨h.1, 1, one_pos, by rw [h.2.2, one_smul]⟩

theorem sim_of_trans {M : Mat (d + 1)} (h : InvBase .Translation M) : InvBase .Similarity M :=
  ⟨h.1, 1, one_pos, by rw [h.2]; simp⟩

theorem sim_of_uscale {M : Mat (d + 1)} (h : InvBase .UniformScale M) : InvBase .Similarity M := by
  obtain ⟨ha, _, s, hs, hl⟩ := h
  refine ⟨ha, s * s, mul_self_pos.mpr hs, ?_⟩
  rw [hl]; simp [Matrix.transpose_smul, smul_smul]

/-- a uniform scale is in particular a (diagonal) non-uniform scale matrix:
what `NonUniformScale.composes_inplace_with = (NonUniformScale, UniformScale)` relies on -/
theorem nuscale_of_uscale {M : Mat (d + 1)} (h : InvBase .UniformScale M) : InvBase .NonUniformScale M := by
  obtain ⟨ha, ht, s, hs, hl⟩ := h
  refine ⟨ha, ht, fun _ => s, fun _ => hs, ?_⟩
  rw [hl]; ext i j; by_cases hij : i = j <;> simp [Matrix.diagonal, hij]

theorem invBase_mono {x y : HCls} {M : Mat (d + 1)} (hle : baseLe x y = true) (h : InvBase x M) :
    InvBase y M := by
  cases y
  case Homogeneous => trivial
  case Affine =>
    cases x <;> first | exact absurd hle (by decide) | exact invBase_affine h (by decide) 
  case Similarity =>
    cases x <;> first
      | exact absurd hle (by decide) | exact h | exact sim_of_rot h | exact sim_of_trans h
      | exact sim_of_uscale h 
  all_goals (cases x <;> first | exact absurd hle (by decide) | exact h)

/-! ### closure under the product -/

theorem invBase_mul {c : HCls} {A B : Mat (d + 1)} (hA : InvBase c A) (hB : InvBase c B) :
    InvBase c (Mat.mul A B) := by
  cases c
  case Homogeneous => trivial
  case Affine => exact isAffine_mul hA hB
  case Similarity =>
    obtain ⟨aA, lA, plA, eA⟩ := hA
    obtain ⟨aB, lB, plB, eB⟩ := hB
    refine ⟨isAffine_mul aA aB, lA * lB, mul_pos plA plB, ?_⟩
    rw [linM_mul aB, Matrix.transpose_mul, Matrix.mul_assoc, ← Matrix.mul_assoc (linM A)ᵀ, eA,
      Matrix.smul_mul, Matrix.one_mul, Matrix.mul_smul, eB, smul_smul]
  case Rotation =>
    obtain ⟨aA, tA, eA⟩ := hA
    obtain ⟨aB, tB, eB⟩ := hB
    refine ⟨isAffine_mul aA aB, ?_, ?_⟩
    · rw [trans_mul_vec aB, tA, tB]; simp
    · rw [linM_mul aB, Matrix.transpose_mul, Matrix.mul_assoc, ← Matrix.mul_assoc (linM A)ᵀ, eA,
        Matrix.one_mul, eB]
  case Translation =>
    obtain ⟨aA, eA⟩ := hA
    obtain ⟨aB, eB⟩ := hB
    exact ⟨isAffine_mul aA aB, by rw [linM_mul aB, eA, eB, Matrix.one_mul]⟩
  case UniformScale =>
    obtain ⟨aA, tA, sA, nA, eA⟩ := hA
    obtain ⟨aB, tB, sB, nB, eB⟩ := hB
    refine ⟨isAffine_mul aA aB, ?_, sA * sB, mul_ne_zero nA nB, ?_⟩
    · rw [trans_mul_vec aB, tA, tB]; simp
    · rw [linM_mul aB, eA, eB]; simp [smul_smul, mul_comm]
  case NonUniformScale =>
    obtain ⟨aA, tA, vA, nA, eA⟩ := hA
    obtain ⟨aB, tB, vB, nB, eB⟩ := hB
    refine ⟨isAffine_mul aA aB, ?_, fun i => vA i * vB i, fun i => mul_ne_zero (nA i) (nB i), ?_⟩
    · rw [trans_mul_vec aB, tA, tB]; simp
    · rw [linM_mul aB, eA, eB, Matrix.diagonal_mul_diagonal]
  all_goals exact hA.elim

/-- proper rotations stay proper: `det` of the linear block is multiplicative -/
theorem det_lin_mul {A B : Mat (d + 1)} (hB : IsAffine B) :
    (linM (Mat.mul A B)).det = (linM A).det * (linM B).det := by
  rw [linM_mul hB, Matrix.det_mul]

/-! ### `as_non_alignment()` keeps the matrix of an honest object -/

theorem nonAlignmentMatrix_of_inv {c : HCls} {M : Mat (d + 1)} (h : Inv c M) :
    nonAlignmentMatrix c M = M := by
  cases c <;> simp only [nonAlignmentMatrix]
  case AlignmentRotation =>
    obtain ⟨a, t, _⟩ := h
    have : zeroVec d = trans M := by
      apply Vec.ext; intro i; simp [zeroVec, t]
    rw [this]; exact mkAffine_lin_trans a
  case AlignmentTranslation =>
    obtain ⟨a, e⟩ := h
    have : Mat.one d = lin M := by apply toM_inj; rw [toM_one]; exact e.symm
    rw [this]; exact mkAffine_lin_trans a
  case AlignmentUniformScale =>
    obtain ⟨a, t, s, _, e⟩ := h
    have ht : zeroVec d = trans M := by
      apply Vec.ext; intro i; simp [zeroVec, t]
    have hl : scalarMat d (M 0 0) = lin M := by
      apply toM_inj
      rw [toM_scalar]
      cases d with
      | zero => ext i; exact i.elim0
      | succ d' =>
        have : M 0 0 = s := by
          have := congrFun (congrFun e 0) 0
          simpa [lin] using this
        rw [this]; exact e.symm
    rw [ht, hl]; exact mkAffine_lin_trans a

end MenpoModel.C03
