/-
C12 — what the dense scatter computes on an arbitrary edge list (antiparallel and repeated pairs
included): diagonal blocks collect every edge (`+=`), an off-diagonal block holds what the last edge
joining its two vertices wrote (`=`).  Main results: `denseStep_general`, `dense_fold_general`,
`lastOff_symm`.
-/
import MenpoModel.Lemmas.C12Dense

set_option linter.unusedSimpArgs false
set_option linter.unusedVariables false

namespace MenpoModel.C12

theorem scatterG_concat (bi bj v1 v2 : Nat) (p x11 x22 x12 x21 : Rat) (hne : v1 ≠ v2) :
    (if bi = v2 ∧ bj = v1 then x21 else if bi = v1 ∧ bj = v2 then x12 else
      if bi = v2 ∧ bj = v2 then (if bi = v1 ∧ bj = v1 then p + x11 else p) + x22
      else (if bi = v1 ∧ bj = v1 then p + x11 else p)) =
    if bi = bj then
      p + ((if v1 = bi ∧ v1 = bj then x11 else 0) + ((if v2 = bi ∧ v2 = bj then x22 else 0) +
        ((if v1 = bi ∧ v2 = bj then x12 else 0) + (if v2 = bi ∧ v1 = bj then x21 else 0))))
    else (if v1 = bi ∧ v2 = bj then x12 else if v2 = bi ∧ v1 = bj then x21 else p) := by
  have hne' : v2 ≠ v1 := Ne.symm hne
  by_cases a1 : bi = v1
  · subst a1
    by_cases b1 : bj = bi
    · subst b1; simp [hne, hne']
    · by_cases b2 : bj = v2
      · subst b2; simp [hne, hne', b1, Ne.symm b1]
      · simp [hne, hne', b1, Ne.symm b1, b2, Ne.symm b2]
  · by_cases a2 : bi = v2
    · subst a2
      by_cases b2 : bj = bi
      · subst b2; simp [hne, hne']
      · by_cases b1 : bj = v1
        · subst b1; simp [hne, hne', b2, Ne.symm b2]
        · simp [hne, hne', b1, Ne.symm b1, b2, Ne.symm b2]
    · by_cases hb : bi = bj
      · subst hb; simp [a1, a2, Ne.symm a1, Ne.symm a2]
      · simp [a1, a2, Ne.symm a1, Ne.symm a2, hb]

theorem scatterG_sub (bi bj v1 v2 : Nat) (p x11 x22 x12 x21 : Rat) (hne : v1 ≠ v2) :
    (if bi = v2 ∧ bj = v2 then
        (if bi = v1 ∧ bj = v1 then (if bi = v2 ∧ bj = v1 then x21 else if bi = v1 ∧ bj = v2 then x12 else p) + x11
          else (if bi = v2 ∧ bj = v1 then x21 else if bi = v1 ∧ bj = v2 then x12 else p)) + x22
      else (if bi = v1 ∧ bj = v1 then (if bi = v2 ∧ bj = v1 then x21 else if bi = v1 ∧ bj = v2 then x12 else p) + x11
          else (if bi = v2 ∧ bj = v1 then x21 else if bi = v1 ∧ bj = v2 then x12 else p))) =
    if bi = bj then
      p + ((if v1 = bi ∧ v1 = bj then x11 else 0) + ((if v2 = bi ∧ v2 = bj then x22 else 0) +
        ((if v1 = bi ∧ v2 = bj then x12 else 0) + (if v2 = bi ∧ v1 = bj then x21 else 0))))
    else (if v1 = bi ∧ v2 = bj then x12 else if v2 = bi ∧ v1 = bj then x21 else p) := by
  have hne' : v2 ≠ v1 := Ne.symm hne
  by_cases a1 : bi = v1
  · subst a1
    by_cases b1 : bj = bi
    · subst b1; simp [hne, hne']
    · by_cases b2 : bj = v2
      · subst b2; simp [hne, hne', b1, Ne.symm b1]
      · simp [hne, hne', b1, Ne.symm b1, b2, Ne.symm b2]
  · by_cases a2 : bi = v2
    · subst a2
      by_cases b2 : bj = bi
      · subst b2; simp [hne, hne']
      · by_cases b1 : bj = v1
        · subst b1; simp [hne, hne', b2, Ne.symm b2]
        · simp [hne, hne', b1, Ne.symm b1, b2, Ne.symm b2]
    · by_cases hb : bi = bj
      · subst hb; simp [a1, a2, Ne.symm a1, Ne.symm a2]
      · simp [a1, a2, Ne.symm a1, Ne.symm a2, hb]

/-- one pass of the loop body on any table: the diagonal blocks gain the edge's diagonal triplets, the
two off-diagonal blocks of the edge are overwritten, everything else is untouched -/
theorem denseStep_general (m : Mode) (k n : Nat) (P : Mat) (v1 v2 : Nat) (B : Mat) (hk : 0 < k)
    (hne : v1 ≠ v2) (I J : Nat) (hI : I < n) (hJ : J < n) :
    ent (denseStep m k n P ((v1, v2), B)) I J =
      if I / k = J / k then ent P I J + tripsEntFlat k (edgeTrips m k (v1, v2) B) I J
      else offStep m k (I / k) (J / k) (I % k) (J % k) (ent P I J) ((v1, v2), B) := by
  unfold tripsEntFlat offStep
  rw [tripsEnt_edge]
  cases m with
  | concat =>
    simp only [denseStep, off12, off21]
    rw [ent_setBlock _ _ _ _ _ _ hk I J hI hJ, ent_setBlock _ _ _ _ _ _ hk I J hI hJ,
      ent_addBlock _ _ _ _ _ _ hk I J hI hJ, ent_addBlock _ _ _ _ _ _ hk I J hI hJ]
    exact scatterG_concat (I / k) (J / k) v1 v2 (ent P I J) _ _ _ _ hne
  | sub =>
    simp only [denseStep, off12, off21]
    rw [ent_addBlock _ _ _ _ _ _ hk I J hI hJ, ent_addBlock _ _ _ _ _ _ hk I J hI hJ,
      ent_setBlock _ _ _ _ _ _ hk I J hI hJ, ent_setBlock _ _ _ _ _ _ hk I J hI hJ]
    exact scatterG_sub (I / k) (J / k) v1 v2 (ent P I J) _ _ _ _ hne

/-- the loop on any edge list without self loops, from any start table -/
theorem dense_fold_general (m : Mode) (k n : Nat) (hk : 0 < k) (es : List (Nat × Nat)) :
    ∀ (Bs : List Mat) (P0 : Mat) (ts0 : List Trip) (A0 : Nat → Nat → Rat),
      (∀ e ∈ es, e.1 ≠ e.2) →
      (∀ I J, I < n → J < n →
        ent P0 I J = if I / k = J / k then tripsEntFlat k ts0 I J else A0 I J) →
      ∀ I J, I < n → J < n →
        ent ((es.zip Bs).foldl (denseStep m k n) P0) I J =
          if I / k = J / k then tripsEntFlat k (ts0 ++ allTrips m k es Bs) I J
          else (es.zip Bs).foldl (offStep m k (I / k) (J / k) (I % k) (J % k)) (A0 I J) := by
  induction es with
  | nil =>
    intro Bs P0 ts0 A0 _ h0 I J hI hJ
    simp [allTrips_nil_left, h0 I J hI hJ]
  | cons e es ih =>
    intro Bs P0 ts0 A0 hne h0 I J hI hJ
    cases Bs with
    | nil => simp [allTrips_nil_right, h0 I J hI hJ]
    | cons B Bs =>
      simp only [List.zip_cons_cons, List.foldl_cons]
      rw [allTrips_cons, ← List.append_assoc]
      have e_eq : e = (e.1, e.2) := rfl
      have := ih Bs (denseStep m k n P0 (e, B)) (ts0 ++ edgeTrips m k e B)
        (fun I J => offStep m k (I / k) (J / k) (I % k) (J % k) (A0 I J) (e, B))
        (fun e' h' => hne e' (by simp [h'])) ?_ I J hI hJ
      · exact this
      · intro I' J' hI' hJ'
        rw [e_eq, denseStep_general m k n P0 e.1 e.2 B hk (hne e (by simp)) I' J' hI' hJ', h0 I' J' hI' hJ']
        by_cases hd : I' / k = J' / k
        · simp only [hd, if_true]
          unfold tripsEntFlat; rw [tripsEnt_append]
        · simp only [hd, if_false]

/-- the two off-diagonal blocks left by the last writer are transposes of each other when the blocks
are symmetric: the dense matrix stays symmetric on any edge list -/
theorem offStep_symm (m : Mode) (k : Nat) (bi bj a c : Nat) (ha : a < k) (hc : c < k) (x y : Rat) (hxy : x = y)
    (eB : (Nat × Nat) × Mat) (hB : ∀ i j, i < m.dim k → j < m.dim k → ent eB.2 i j = ent eB.2 j i) (hne : bi ≠ bj) :
    offStep m k bi bj a c x eB = offStep m k bj bi c a y eB := by
  unfold offStep
  by_cases h1 : eB.1.1 = bi ∧ eB.1.2 = bj
  · have h2 : ¬ (eB.1.1 = bj ∧ eB.1.2 = bi) := by intro h; exact hne (h1.1.symm.trans h.1)
    have h3 : eB.1.2 = bj ∧ eB.1.1 = bi := ⟨h1.2, h1.1⟩
    rw [if_pos h1, if_neg h2, if_pos h3]
    cases m with
    | concat =>
      simp only [off12, off21, ent_blkOf, ha, hc, and_self, if_true]
      simp only [Mode.dim] at hB
      exact hB (0 + a) (k + c) (by omega) (by omega)
    | sub =>
      simp only [off12, off21, ent_negBlk, ha, hc, and_self, if_true]
      simp only [Mode.dim] at hB
      rw [hB a c ha hc]
  · rw [if_neg h1]
    have h1' : ¬ (eB.1.2 = bj ∧ eB.1.1 = bi) := fun h => h1 ⟨h.2, h.1⟩
    by_cases h2 : eB.1.2 = bi ∧ eB.1.1 = bj
    · have h3 : eB.1.1 = bj ∧ eB.1.2 = bi := ⟨h2.2, h2.1⟩
      rw [if_pos h2, if_pos h3]
      cases m with
      | concat =>
        simp only [off12, off21, ent_blkOf, ha, hc, and_self, if_true]
        simp only [Mode.dim] at hB
        exact hB (k + a) (0 + c) (by omega) (by omega)
      | sub =>
        simp only [off12, off21, ent_negBlk, ha, hc, and_self, if_true]
        simp only [Mode.dim] at hB
        rw [hB a c ha hc]
    · have h3 : ¬ (eB.1.1 = bj ∧ eB.1.2 = bi) := fun h => h2 ⟨h.2, h.1⟩
      rw [if_neg h2, if_neg h3, if_neg h1']
      exact hxy

theorem lastOff_fold_symm (m : Mode) (k : Nat) (bi bj a c : Nat) (ha : a < k) (hc : c < k) (hne : bi ≠ bj) :
    ∀ (l : List ((Nat × Nat) × Mat)) (x y : Rat), x = y →
      (∀ eB ∈ l, ∀ i j, i < m.dim k → j < m.dim k → ent eB.2 i j = ent eB.2 j i) →
      l.foldl (offStep m k bi bj a c) x = l.foldl (offStep m k bj bi c a) y := by
  intro l
  induction l with
  | nil => intro x y h _; simpa using h
  | cons eB l ih =>
    intro x y h hB
    simp only [List.foldl_cons]
    exact ih _ _ (offStep_symm m k bi bj a c ha hc x y h eB (hB eB (by simp)) hne)
      (fun eB' h' => hB eB' (by simp [h']))

end MenpoModel.C12
