/-
C13 — theorems about the public entry points modelled in Core/C13Api.lean.

  * `PointCloud.bounds`: the requested box contains every point; the box handed to `crop`
    (`⌊min − b⌋ … ⌈max + b⌉`, half open) contains the pixel of every point except, for `boundary = 0`,
    the pixels of points whose coordinate is whole and equal to the maximum — the "last row / column"
    of `crop_to_pointcloud`, `crop_to_landmarks` and `crop_to_true_mask` (`request_contains`,
    `pointcloud_axes_contain`, `true_mask_axes_contain`).  This is what the property text prescribes
    (floored minimum, ceiled maximum) and what menpo's own tests pin (a 0..50 box crops to 50 × 50).
  * `Image.extract_patches`: the slicing path is taken exactly for `order = 0 ∧ mode = constant`
    (`extractPatches_dispatch`); whichever path is taken the result has shape
    `(centres, offsets, C, ph, pw)` (`extractPatches_shape`); `extract_patches_around_landmarks` is the
    default call (`extractAroundLandmarks_eq`).
  * `as_single_array=False` followed by `_convert_patches_list_to_single_array` is the identity
    (`patch_list_roundtrip`), so `set_patches` with a list is `set_patches` with the array
    (`setPatchesApi_list`), and the round trip of the property holds through the public defaults
    (`landmarks_roundtrip_api`).
Core Lean only.
-/
import MenpoModel.Core.C13Api
import MenpoModel.Lemmas.C13Set
import MenpoModel.Lemmas.C13Sampler
namespace MenpoModel.C13

/-! ### min / max of a column -/

theorem foldl_min_le (xs : List Rat) : ∀ a, xs.foldl min a ≤ a ∧ ∀ x ∈ xs, xs.foldl min a ≤ x := by
  induction xs with
  | nil => intro a; exact ⟨Rat.le_refl, by simp⟩
  | cons y ys ih =>
    intro a
    obtain ⟨h1, h2⟩ := ih (min a y)
    simp only [List.foldl_cons, List.mem_cons]
    refine ⟨by grind, ?_⟩
    intro x hx
    rcases hx with rfl | hx
    · grind
    · exact h2 x hx

theorem foldl_max_ge (xs : List Rat) : ∀ a, a ≤ xs.foldl max a ∧ ∀ x ∈ xs, x ≤ xs.foldl max a := by
  induction xs with
  | nil => intro a; exact ⟨Rat.le_refl, by simp⟩
  | cons y ys ih =>
    intro a
    obtain ⟨h1, h2⟩ := ih (max a y)
    simp only [List.foldl_cons, List.mem_cons]
    refine ⟨by grind, ?_⟩
    intro x hx
    rcases hx with rfl | hx
    · grind
    · exact h2 x hx

theorem foldl_min_mem (xs : List Rat) : ∀ a, xs.foldl min a = a ∨ xs.foldl min a ∈ xs := by
  induction xs with
  | nil => intro a; exact Or.inl rfl
  | cons y ys ih =>
    intro a
    simp only [List.foldl_cons, List.mem_cons]
    rcases ih (min a y) with h | h
    · rw [h]; grind
    · exact Or.inr (Or.inr h)

theorem foldl_max_mem (xs : List Rat) : ∀ a, xs.foldl max a = a ∨ xs.foldl max a ∈ xs := by
  induction xs with
  | nil => intro a; exact Or.inl rfl
  | cons y ys ih =>
    intro a
    simp only [List.foldl_cons, List.mem_cons]
    rcases ih (max a y) with h | h
    · rw [h]; grind
    · exact Or.inr (Or.inr h)

theorem minL_le (xs : List Rat) (x : Rat) (hx : x ∈ xs) : minL xs ≤ x := by
  cases xs with
  | nil => simp at hx
  | cons y ys =>
    simp only [minL, List.mem_cons] at hx ⊢
    obtain ⟨h1, h2⟩ := foldl_min_le ys y
    rcases hx with rfl | hx
    · exact h1
    · exact h2 x hx

theorem le_maxL (xs : List Rat) (x : Rat) (hx : x ∈ xs) : x ≤ maxL xs := by
  cases xs with
  | nil => simp at hx
  | cons y ys =>
    simp only [maxL, List.mem_cons] at hx ⊢
    obtain ⟨h1, h2⟩ := foldl_max_ge ys y
    rcases hx with rfl | hx
    · exact h1
    · exact h2 x hx

theorem minL_mem (xs : List Rat) (h : xs ≠ []) : minL xs ∈ xs := by
  cases xs with
  | nil => exact absurd rfl h
  | cons y ys =>
    simp only [minL, List.mem_cons]
    rcases foldl_min_mem ys y with e | e
    · exact Or.inl e
    · exact Or.inr e

theorem maxL_mem (xs : List Rat) (h : xs ≠ []) : maxL xs ∈ xs := by
  cases xs with
  | nil => exact absurd rfl h
  | cons y ys =>
    simp only [maxL, List.mem_cons]
    rcases foldl_max_mem ys y with e | e
    · exact Or.inl e
    · exact Or.inr e

/-! ### the box handed to `crop` -/

/-- `⌊u⌋ < ⌈w⌉` for `u ≤ w` unless `u = w` is whole (then `crop` raises "max must exceed min") -/
theorem floor_lt_ceil_iff (u w : Rat) (h : u ≤ w) : u.floor < w.ceil ↔ ¬(u = w ∧ (u.floor : Rat) = u) := by
  rw [Rat.lt_ceil_iff]
  have h1 := Rat.floor_le u
  constructor
  · intro hlt hc
    obtain ⟨e1, e2⟩ := hc
    grind
  · intro hn
    by_cases e : (u.floor : Rat) = u
    · have : u ≠ w := fun e' => hn ⟨e', e⟩
      grind
    · grind

/-- PROPERTY (what the crop around a point set contains, one axis): for a column `xs` of coordinates
and a boundary `b ≥ 0`, the half-open pixel range `⌊min − b⌋ … ⌈max + b⌉` requested from `crop`
starts at or before the pixel of every point, ends at or after every point, and contains the pixel
`⌊x⌋` of a point **unless** `b = 0` and `x` is whole and equal to the maximum: that pixel row is the
first one *outside* the crop (the point then lies exactly on the far edge of the cropped image). -/
theorem request_contains (xs : List Rat) (b : Rat) (hb : 0 ≤ b) (x : Rat) (hx : x ∈ xs) :
    (minL xs - b).floor ≤ x.floor ∧ x ≤ (((maxL xs + b).ceil : Int) : Rat) ∧
    (x.floor < (maxL xs + b).ceil ↔ ¬(b = 0 ∧ x = maxL xs ∧ (x.floor : Rat) = x)) := by
  have h1 := minL_le xs x hx
  have h2 := le_maxL xs x hx
  have hf := Rat.floor_le x
  have hc := Rat.le_ceil (x := maxL xs + b)
  refine ⟨Rat.floor_monotone (by grind), by grind, ?_⟩
  rw [Rat.lt_ceil_iff]
  constructor
  · intro hlt hc'
    obtain ⟨e1, e2, e3⟩ := hc'
    grind
  · intro hn
    by_cases e3 : (x.floor : Rat) = x
    · by_cases e1 : b = 0
      · have : x ≠ maxL xs := fun e2 => hn ⟨e1, e2, e3⟩
        grind
      · grind
    · grind

theorem mkAxes_getElem : ∀ (shape : List Nat) (mn mx : List Rat) (k : Nat) (n : Nat) (a b : Rat),
    shape[k]? = some n → mn[k]? = some a → mx[k]? = some b →
    (mkAxes shape mn mx)[k]? = some ⟨n, a.floor, b.ceil⟩ := by
  intro shape
  induction shape with
  | nil => intro mn mx k n a b h; simp at h
  | cons n0 s ih =>
    intro mn mx k n a b h1 h2 h3
    cases mn with
    | nil => simp at h2
    | cons a0 mn =>
      cases mx with
      | nil => simp at h3
      | cons b0 mx =>
        cases k with
        | zero =>
          simp only [List.getElem?_cons_zero, Option.some.injEq] at h1 h2 h3
          subst h1 h2 h3
          simp [mkAxes]
        | succ k =>
          simp only [List.getElem?_cons_succ] at h1 h2 h3
          simp only [mkAxes, List.getElem?_cons_succ]
          exact ih mn mx k n a b h1 h2 h3

/-- the per-axis request of `crop_to_pointcloud(pointcloud, boundary)` on an image of spatial shape `shape` -/
def pcAxes (shape : List Nat) (pts : List (List Rat)) (b : Rat) : List Axis :=
  mkAxes shape (pcBounds pts b).1 (pcBounds pts b).2

theorem pcAxes_getElem (shape : List Nat) (pts : List (List Rat)) (b : Rat) (k n : Nat)
    (hk : k < pcDims pts) (hn : shape[k]? = some n) :
    (pcAxes shape pts b)[k]? =
      some ⟨n, (minL (column pts k) - b).floor, (maxL (column pts k) + b).ceil⟩ := by
  apply mkAxes_getElem shape _ _ k n _ _ hn
  · simp [pcBounds, List.getElem?_map, List.getElem?_range hk]
  · simp [pcBounds, List.getElem?_map, List.getElem?_range hk]

/-- PROPERTY (`crop_to_pointcloud` / `crop_to_landmarks`, the last row / column): on axis `k` the
request built from the cloud reaches from `⌊min_k − b⌋` to `⌈max_k + b⌉`; the pixel of every point of
the cloud lies in that half-open range, except that for `b = 0` the pixels of the points with the
(whole) maximal coordinate are cut off. -/
theorem pointcloud_axes_contain (shape : List Nat) (pts : List (List Rat)) (b : Rat) (hb : 0 ≤ b)
    (k n : Nat) (hk : k < pcDims pts) (hn : shape[k]? = some n) (p : List Rat) (hp : p ∈ pts) :
    ∃ a, (pcAxes shape pts b)[k]? = some a ∧ a.n = n ∧
      a.lo ≤ (p.getD k 0).floor ∧ p.getD k 0 ≤ ((a.hi : Int) : Rat) ∧
      ((p.getD k 0).floor < a.hi ↔
        ¬(b = 0 ∧ p.getD k 0 = maxL (column pts k) ∧ (((p.getD k 0).floor : Int) : Rat) = p.getD k 0)) := by
  refine ⟨_, pcAxes_getElem shape pts b k n hk hn, rfl, ?_⟩
  exact request_contains (column pts k) b hb (p.getD k 0) (List.mem_map.2 ⟨p, hp, rfl⟩)

theorem mem_trueIndices (mask : NDArr Bool) (p : List Nat) :
    p ∈ trueIndices mask ↔ inRange mask.shape.tail p = true ∧ mask.getD (0 :: p) false = true := by
  simp only [trueIndices, List.mem_filter, mem_indices]

theorem natCast_floor (i : Nat) : ((i : Rat)).floor = (i : Int) := by
  have : ((i : Nat) : Rat) = (((i : Int)) : Rat) := (Rat.intCast_natCast i).symm
  rw [this, Rat.floor_intCast]

theorem natPts_getD (p : List Nat) (k : Nat) :
    (p.map fun (i : Nat) => (i : Rat)).getD k 0 = ((p.getD k 0 : Nat) : Rat) := by
  simp only [List.getD_eq_getElem?_getD, List.getElem?_map]
  cases p[k]? <;> simp

/-- PROPERTY (`crop_to_true_mask`, the last row / column): the request on axis `k` reaches from
`min_k − b` to `max_k + b` over the true pixels; every true pixel is inside that half-open range except
that for `boundary = 0` the true pixels with the maximal index on some axis are cut off — the crop
keeps rows `min … max − 1`. -/
theorem true_mask_axes_contain (shape : List Nat) (mask : NDArr Bool) (b : Int) (hb : 0 ≤ b)
    (k n : Nat) (hk : k < pcDims (natPts (trueIndices mask))) (hn : shape[k]? = some n)
    (p : List Nat) (hp : p ∈ trueIndices mask) :
    ∃ a, (pcAxes shape (natPts (trueIndices mask)) (b : Rat))[k]? = some a ∧ a.n = n ∧
      a.lo ≤ (p.getD k 0 : Int) ∧ (p.getD k 0 : Int) ≤ a.hi ∧
      ((p.getD k 0 : Int) < a.hi ↔
        ¬(b = 0 ∧ ((p.getD k 0 : Nat) : Rat) = maxL (column (natPts (trueIndices mask)) k))) := by
  have hb' : (0 : Rat) ≤ (b : Rat) := by simpa using (Rat.intCast_le_intCast (a := 0) (b := b)).2 hb
  obtain ⟨a, h1, h2, h3, h4, h5⟩ := pointcloud_axes_contain shape (natPts (trueIndices mask)) (b : Rat) hb' k n hk hn
    (p.map fun (i : Nat) => (i : Rat)) (List.mem_map.2 ⟨p, hp, rfl⟩)
  rw [natPts_getD] at h3 h4 h5
  rw [natCast_floor] at h3 h5
  refine ⟨a, h1, h2, h3, ?_, ?_⟩
  · have : (((p.getD k 0 : Nat) : Int) : Rat) ≤ ((a.hi : Int) : Rat) := by
      rw [Rat.intCast_natCast]; exact h4
    exact (Rat.intCast_le_intCast).1 this
  · rw [h5]
    have hz : (b : Rat) = 0 ↔ b = 0 := by
      constructor
      · intro h
        have : ((b : Int) : Rat) = ((0 : Int) : Rat) := by simpa using h
        exact Rat.intCast_inj.1 this
      · intro h; subst h; rfl
    have hw : ((((p.getD k 0 : Nat) : Int)) : Rat) = ((p.getD k 0 : Nat) : Rat) := Rat.intCast_natCast _
    rw [hz, hw]
    constructor
    · intro h hc; exact h ⟨hc.1, hc.2, rfl⟩
    · intro h hc; exact h ⟨hc.1, hc.2.1⟩

/-- `crop_to_pointcloud` is `crop` on the bounds of the cloud (non-empty cloud) -/
theorem cropToPointcloud_eq {α : Type} (v : Variant) (pix : NDArr α) (pts : List (List Rat)) (b : Rat)
    (constrain : Bool) (zero : α) (lms : List (List Rat)) (h : pts ≠ []) :
    cropToPointcloud v pix pts b constrain zero lms =
      crop v pix (pcBounds pts b).1 (pcBounds pts b).2 constrain zero lms := by
  unfold cropToPointcloud
  rw [if_neg (by simpa using h)]

/-- PROPERTY (`crop_to_pointcloud` / `crop_to_landmarks` / `crop_to_true_mask`, whole statement): the
wrapper is refused with `ImageBoundaryError` exactly when the box around the points (`pcAxes`) leaves the
image and constraining is disabled; otherwise the result is pixel for pixel the source block
`p + clamp(⌊min − b⌋)` of extent `hiB − loB` per axis, with the landmarks shifted by the clamped minimum. -/
theorem crop_to_pointcloud_spec {α : Type} (pix : NDArr α) (C : Nat) (shape : List Nat) (pts : List (List Rat))
    (b : Rat) (constrain : Bool) (zero : α) (lms : List (List Rat)) (hne : pts ≠ [])
    (hshape : pix.shape = C :: shape) (hwf : pix.WF) (hd : pcDims pts = shape.length)
    (hpos : ∀ a ∈ pcAxes shape pts b, a.lo < a.hi) :
    (cropToPointcloud .repaired pix pts b constrain zero lms = .error .boundary ↔
      (constrain = false ∧ ¬ ∀ a ∈ pcAxes shape pts b, a.inside)) ∧
    (¬(constrain = false ∧ ¬ ∀ a ∈ pcAxes shape pts b, a.inside) →
      ∃ out, cropToPointcloud .repaired pix pts b constrain zero lms =
          .ok (out, cropLandmarks (pcAxes shape pts b) lms) ∧
        out.shape = C :: (pcAxes shape pts b).map Axis.len ∧
        ∀ c p, c < C → inRange ((pcAxes shape pts b).map Axis.len) p = true →
          out.get? (c :: p) = pix.get? (c :: shiftIdx p (pcAxes shape pts b)) ∧ (out.get? (c :: p)).isSome = true) := by
  rw [cropToPointcloud_eq .repaired pix pts b constrain zero lms hne]
  exact crop_spec pix C shape (pcBounds pts b).1 (pcBounds pts b).2 constrain zero lms hshape hwf
    (by simp [pcBounds, hd]) hpos

/-- PROPERTY (`crop_to_pointcloud_proportion`): the boundary is the proportion of the smallest
(`minimum=True`) or largest per-axis range of the cloud, and the call is `crop_to_pointcloud` with it. -/
theorem cropToPointcloudProportion_eq {α : Type} (v : Variant) (pix : NDArr α) (pts : List (List Rat))
    (proportion : Rat) (minimum constrain : Bool) (zero : α) (lms : List (List Rat))
    (h : pts ≠ []) (hd : pcDims pts ≠ 0) :
    cropToPointcloudProportion v pix pts proportion minimum constrain zero lms =
      cropToPointcloud v pix pts (proportionBoundary pts proportion minimum) constrain zero lms ∧
    (∀ k, k < pcDims pts → minimum = true →
      proportionBoundary pts proportion minimum ≤
        proportion * (maxL (column pts k) - minL (column pts k)) ∨ proportion < 0) ∧
    (∀ k, k < pcDims pts → minimum = false →
      proportion * (maxL (column pts k) - minL (column pts k)) ≤
        proportionBoundary pts proportion minimum ∨ proportion < 0) := by
  refine ⟨?_, ?_, ?_⟩
  · unfold cropToPointcloudProportion
    rw [if_neg]
    simp only [Bool.or_eq_true, List.isEmpty_iff, beq_iff_eq]
    intro hc
    rcases hc with hc | hc
    · exact h hc
    · exact hd hc
  · intro k hk hm
    by_cases hp : proportion < 0
    · exact Or.inr hp
    · left
      have hmem : maxL (column pts k) - minL (column pts k) ∈ pcRange pts :=
        List.mem_map.2 ⟨k, List.mem_range.2 hk, rfl⟩
      have := minL_le _ _ hmem
      simp only [proportionBoundary, hm, if_true]
      exact Rat.mul_le_mul_of_nonneg_left this (by grind)
  · intro k hk hm
    by_cases hp : proportion < 0
    · exact Or.inr hp
    · left
      have hmem : maxL (column pts k) - minL (column pts k) ∈ pcRange pts :=
        List.mem_map.2 ⟨k, List.mem_range.2 hk, rfl⟩
      have := le_maxL _ _ hmem
      simp only [proportionBoundary, hm]
      exact Rat.mul_le_mul_of_nonneg_left this (by grind)

/-! ### extract_patches -/

/-- PROPERTY (which path `Image.extract_patches` takes): slicing exactly for `order = 0` and
`mode = 'constant'`, sampling with the requested order and mode otherwise. -/
theorem extractPatches_dispatch {α : Type} (v : Variant) (sampler : Nat → Mode → Nat → Pt → α) (pix : NDArr α)
    (C H W : Nat) (hshape : pix.shape = [C, H, W])
    (centres : List Pt) (ph pw : Nat) (offsets : Option (List Pt)) (order : Nat) (mode : Mode) (cval : α) :
    ((order = 0 ∧ mode = .constant) →
      extractPatches v sampler pix centres ph pw offsets order mode cval = extractSlice pix centres ph pw offsets cval) ∧
    (¬(order = 0 ∧ mode = .constant) →
      extractPatches v sampler pix centres ph pw offsets order mode cval =
        extractSampling v (sampler order mode) C ph pw centres offsets cval) := by
  constructor
  · intro h; simp only [extractPatches, if_pos h]
  · intro h; simp only [extractPatches, if_neg h, hshape]

/-- PROPERTY (patch shape through the public entry point): for every channel count, interpolation
order and boundary mode, `Image.extract_patches` (repaired reshape) returns an array of shape
`(centres, offsets, channels, ph, pw)`; on the slicing path this needs the centres to avoid rounding ties. -/
theorem extractPatches_shape {α : Type} (sampler : Nat → Mode → Nat → Pt → α) (pix : NDArr α)
    (C H W : Nat) (hshape : pix.shape = [C, H, W])
    (centres : List Pt) (ph pw : Nat) (offsets : Option (List Pt)) (order : Nat) (mode : Mode) (cval : α)
    (hnt : (order = 0 ∧ mode = .constant) → ∀ i j, i < centres.length → j < (offsets.getD [(0, 0)]).length →
      NoTie ((getPt centres i).1 + halfPixel ph + (getPt (offsets.getD [(0, 0)]) j).1 + -halfExt ph) ∧
      NoTie ((getPt centres i).2 + halfPixel pw + (getPt (offsets.getD [(0, 0)]) j).2 + -halfExt pw)) :
    ∃ out, extractPatches .repaired sampler pix centres ph pw offsets order mode cval = .ok out ∧
      out.shape = [centres.length, (offsets.getD [(0, 0)]).length, C, ph, pw] := by
  obtain ⟨d1, d2⟩ := extractPatches_dispatch .repaired sampler pix C H W hshape centres ph pw offsets order mode cval
  by_cases h : order = 0 ∧ mode = .constant
  · obtain ⟨out, h1, h2, _⟩ := slicing_patch_layout pix C H W hshape centres ph pw offsets cval (hnt h)
    exact ⟨out, by rw [d1 h, h1], h2⟩
  · obtain ⟨out, h1, h2, _⟩ := sampling_patch_layout (sampler order mode) C ph pw centres offsets cval
    exact ⟨out, by rw [d2 h, h1], h2⟩

/-- PROPERTY (patch shape through the public entry point, EVERY centre, rounding ties included): for every channel
count, interpolation order and boundary mode `Image.extract_patches` returns an array of shape
`(centres, offsets, channels, ph, pw)` - no hypothesis on the centres -/
theorem extractPatches_shape_all {α : Type} (sampler : Nat → Mode → Nat → Pt → α) (pix : NDArr α)
    (C H W : Nat) (hshape : pix.shape = [C, H, W])
    (centres : List Pt) (ph pw : Nat) (offsets : Option (List Pt)) (order : Nat) (mode : Mode) (cval : α) :
    ∃ out, extractPatches .repaired sampler pix centres ph pw offsets order mode cval = .ok out ∧
      out.shape = [centres.length, (offsets.getD [(0, 0)]).length, C, ph, pw] := by
  obtain ⟨d1, d2⟩ := extractPatches_dispatch .repaired sampler pix C H W hshape centres ph pw offsets order mode cval
  by_cases h : order = 0 ∧ mode = .constant
  · obtain ⟨out, h1, h2, _⟩ := slicing_patch_layout_all pix C H W hshape centres ph pw offsets cval
    exact ⟨out, by rw [d1 h, h1], h2⟩
  · obtain ⟨out, h1, h2, _⟩ := sampling_patch_layout (sampler order mode) C ph pw centres offsets cval
    exact ⟨out, by rw [d2 h, h1], h2⟩

/-- `extract_patches_around_landmarks` is `extract_patches` with the default order, mode and fill value -/
theorem extractAroundLandmarks_eq {α : Type} (v : Variant) (sampler : Nat → Mode → Nat → Pt → α) (pix : NDArr α)
    (lms : List Pt) (ph pw : Nat) (offsets : Option (List Pt)) (zero : α) :
    extractAroundLandmarks pix lms ph pw offsets zero =
      extractPatches v sampler pix lms ph pw offsets 0 .constant zero := by
  simp only [extractAroundLandmarks, extractPatches, and_self, if_true]

/-- PROPERTY (path equivalence through the public entry point): at integer centres and offsets
`extract_patches(order=1)` and the default `extract_patches()` return the same shape and pixels. -/
theorem extractPatches_orders_agree (pix : NDArr Rat) (C H W : Nat) (hshape : pix.shape = [C, H, W]) (hwf : pix.WF)
    (cz : List (Int × Int)) (ph pw : Nat) (oz : Option (List (Int × Int))) (cval : Rat) (order : Nat)
    (horder : order ≤ 1) :
    ∃ a b, extractPatches .repaired (ratSampler pix cval) pix (cz.map toPt) ph pw (oz.map (List.map toPt))
        0 .constant cval = .ok a ∧
      extractPatches .repaired (ratSampler pix cval) pix (cz.map toPt) ph pw (oz.map (List.map toPt))
        order .constant cval = .ok b ∧
      a.shape = b.shape ∧
      ∀ i j c r q, inRange a.shape [i, j, c, r, q] = true → a.get? [i, j, c, r, q] = b.get? [i, j, c, r, q] := by
  obtain ⟨a, b, h1, h2, h3, _, h5⟩ := slice_eq_sampling_at_integers_orders order horder pix C H W hshape hwf cz ph pw oz cval
  by_cases ho : order = 0
  · subst ho
    exact ⟨a, a, by simp only [extractPatches, and_self, if_true]; exact h1,
      by simp only [extractPatches, and_self, if_true]; exact h1, rfl, fun _ _ _ _ _ _ => rfl⟩
  · refine ⟨a, b, by simp only [extractPatches, and_self, if_true]; exact h1, ?_, h3, h5⟩
    simp only [extractPatches, hshape]
    rw [if_neg (by intro h; exact ho h.1)]
    exact h2

/-! ### the list format -/

theorem offset2 (n k i j : Nat) : offset [n, k] [i, j] = i * k + j := by
  simp [offset, sz]

theorem toPatchList_length {α : Type} (a : NDArr α) (d : α) (n k : Nat) (rest : List Nat)
    (hs : a.shape = n :: k :: rest) : (toPatchList a d).length = n * k := by
  simp [toPatchList, hs, length_indices, sz]

theorem toPatchList_get {α : Type} (a : NDArr α) (d : α) (n k : Nat) (rest : List Nat)
    (hs : a.shape = n :: k :: rest) (i j : Nat) (hi : i < n) (hj : j < k) :
    (toPatchList a d)[i * k + j]? = some (patchAt a d [i, j]) := by
  have h := getElem?_indices [n, k] [i, j] (by simp [inRange, hi, hj])
  rw [offset2] at h
  simp only [toPatchList, hs, List.take_succ_cons, List.take_zero, List.getElem?_map, h, Option.map_some]

theorem patchAt_shape {α : Type} (a : NDArr α) (d : α) (n k : Nat) (rest : List Nat)
    (hs : a.shape = n :: k :: rest) (ij : List Nat) : (patchAt a d ij).shape = rest := by
  simp [patchAt, ofFn, hs]

theorem inRange_append (s1 s2 p1 p2 : List Nat) (h1 : inRange s1 p1 = true) (h2 : inRange s2 p2 = true) :
    inRange (s1 ++ s2) (p1 ++ p2) = true := by
  induction s1 generalizing p1 with
  | nil => cases p1 <;> simp_all [inRange]
  | cons n s ih =>
    cases p1 with
    | nil => simp [inRange] at h1
    | cons i p =>
      simp only [inRange, Bool.and_eq_true, decide_eq_true_eq, List.cons_append] at h1 ⊢
      exact ⟨h1.1, ih p h1.2⟩

/-- PROPERTY (list format is the same data): the list returned for `as_single_array=False`, converted
back by `_convert_patches_list_to_single_array` (what `set_patches` does with a list), is the single
array itself — for at least one centre and one offset. -/
theorem patch_list_roundtrip {α : Type} (a : NDArr α) (d : α) (n k : Nat) (rest : List Nat)
    (hs : a.shape = n :: k :: rest) (hwf : a.WF) (hn : 0 < n) (hk : 0 < k) :
    (toPatchList a d).length = n * k ∧ fromPatchList (toPatchList a d) n d = .ok a := by
  have hlen := toPatchList_length a d n k rest hs
  refine ⟨hlen, ?_⟩
  have h0 := toPatchList_get a d n k rest hs 0 0 hn hk
  simp only [Nat.zero_mul, Nat.add_zero] at h0
  unfold fromPatchList
  rw [if_neg (by omega)]
  cases hl : toPatchList a d with
  | nil => rw [hl] at h0; simp at h0
  | cons p0 tl =>
    rw [hl] at h0 hlen
    simp only [List.getElem?_cons_zero, Option.some.injEq] at h0
    have hdiv : (p0 :: tl).length / n = k := by
      rw [hlen, Nat.mul_comm]; exact Nat.mul_div_cancel k hn
    simp only [hdiv]
    have hp0 : p0.shape = rest := by rw [h0]; exact patchAt_shape a d n k rest hs _
    rw [hp0]
    congr 1
    symm
    apply NDArr.ext_get a _ hwf (ofFn_WF _ _) (by simp [ofFn, hs])
    intro idx hidx
    rw [hs] at hidx
    rw [get_ofFn _ _ _ hidx]
    match idx, hidx with
    | i :: j :: r, hidx =>
      simp only [inRange, Bool.and_eq_true, decide_eq_true_eq] at hidx
      have hg := toPatchList_get a d n k rest hs i j hidx.1 hidx.2.1
      rw [hl] at hg
      simp only [listElem, hg, Option.map_some, Option.getD_some]
      have hr : inRange (a.shape.drop 2) r = true := by simp [hs, hidx.2.2]
      simp only [patchAt, NDArr.getD]
      rw [get_ofFn _ _ _ hr]
      simp only [Option.getD_some, List.cons_append, List.nil_append]
      obtain ⟨x, hx⟩ := get?_some_of_WF a hwf (i :: j :: r) (by simp [hs, inRange, hidx.1, hidx.2.1, hidx.2.2])
      simp [hx]
    | [], hidx => simp [inRange] at hidx
    | [_], hidx => simp [inRange] at hidx

/-- `set_patches` with the list format is `set_patches` with the array the list came from -/
theorem setPatchesApi_list {α : Type} (v : Variant) (a pix : NDArr α) (centres : List Pt) (k : Nat) (rest : List Nat)
    (hs : a.shape = centres.length :: k :: rest) (hwf : a.WF) (hn : 0 < centres.length) (hk : 0 < k)
    (offset : Option (Int × Int)) (oi : Option Nat) (d : α) :
    setPatchesApi v (.list (toPatchList a d)) pix centres offset oi d =
      setPatchesApi v (.single a) pix centres offset oi d := by
  simp only [setPatchesApi, (patch_list_roundtrip a d centres.length k rest hs hwf hn hk).2]

theorem extractSlice_none {α : Type} (pix : NDArr α) (centres : List Pt) (ph pw : Nat) (cval : α) :
    extractSlice pix centres ph pw none cval =
      extractSlice pix centres ph pw (some (([(0, 0)] : List (Int × Int)).map toPt)) cval := by
  have : ([(0, 0)] : List (Int × Int)).map toPt = [((0 : Rat), (0 : Rat))] := by
    simp [toPt]
  rw [this]
  simp only [extractSlice, Option.getD_none, Option.getD_some]

theorem extractSlice_WF {α : Type} (pix : NDArr α) (centres : List Pt) (ph pw : Nat) (offsets : Option (List Pt))
    (cval : α) (out : NDArr α) (h : extractSlice pix centres ph pw offsets cval = .ok out) : out.WF := by
  unfold extractSlice at h
  split at h
  · dsimp only at h
    split at h
    · injection h with h; subst h; exact ofFn_WF _ _
    · cases h
  · cases h

/-- PROPERTY (round trip through the public defaults): patches taken by
`extract_patches_around_landmarks()` at integer landmarks whose windows lie inside the image — as a
single array or as a list of patch images — and handed to `set_patches_around_landmarks()` with all
defaults (`offset=None`, `offset_index=None`) restore the image. -/
theorem landmarks_roundtrip_api {α : Type} (v : Variant) (pix : NDArr α) (C H W : Nat) (hshape : pix.shape = [C, H, W])
    (hwf : pix.WF) (cz : List (Int × Int)) (hne : 0 < cz.length) (ph pw : Nat) (zero : α)
    (hint : ∀ c ∈ cz, Interior H W ph pw c (0, 0)) :
    ∃ patches, extractAroundLandmarks pix (cz.map toPt) ph pw none zero = .ok patches ∧
      ∃ out, setPatchesApi v (.single patches) pix (cz.map toPt) none none zero = .ok out ∧
        setPatchesApi v (.list (toPatchList patches zero)) pix (cz.map toPt) none none zero = .ok out ∧
        out.shape = pix.shape ∧ ∀ idx, inRange pix.shape idx = true → out.get? idx = pix.get? idx := by
  obtain ⟨patches, hp1, out, ho1, ho2, ho3⟩ := set_extract_roundtrip v pix C H W hshape hwf cz ph pw [(0, 0)] 0
    (by simp) zero (by simpa using hint)
  have hp1' : extractAroundLandmarks pix (cz.map toPt) ph pw none zero = .ok patches := by
    rw [extractAroundLandmarks, extractSlice_none]; exact hp1
  refine ⟨patches, hp1', out, ?_, ?_, ho2, ho3⟩
  · simpa [setPatchesApi] using ho1
  · obtain ⟨⟨p2, q1, q2, _⟩, _⟩ := patches_at_integers pix C H W hshape cz ph pw (some [(0, 0)]) zero
    have : p2 = patches := by
      have e : extractSlice pix (cz.map toPt) ph pw ((some [(0, 0)] : Option (List (Int × Int))).map (List.map toPt)) zero =
          .ok patches := hp1
      rw [q1] at e; injection e
    subst this
    have hs : p2.shape = (cz.map toPt).length :: 1 :: [C, ph, pw] := by
      rw [q2]; simp [offsZ]
    rw [setPatchesApi_list v p2 pix (cz.map toPt) 1 [C, ph, pw] hs (extractSlice_WF _ _ _ _ _ _ _ hp1)
      (by simpa using hne) (by omega)]
    simpa [setPatchesApi] using ho1

/-! ### non-vacuity -/

example : pcBounds [[1/2, 3], [4, 9/4], [2, 5]] 1 = ([-1/2, 5/4], [5, 6]) := by decide +kernel
example : pcRange [[1/2, 3], [4, 9/4], [2, 5]] = [7/2, 11/4] := by decide +kernel
example : proportionBoundary [[1/2, 3], [4, 9/4], [2, 5]] (1/2) true = 11/8 ∧
    proportionBoundary [[1/2, 3], [4, 9/4], [2, 5]] (1/2) false = 7/4 := by decide +kernel
-- the last row: landmarks (1,1) and (4,5) on the 6×7 example image, boundary 0: rows 1..3, columns 1..4;
-- the pixel (4,5) of the second landmark is not part of the crop and the landmark lands on its far corner
example : ((cropToPointcloud .repaired exImg [[1, 1], [4, 5]] 0 false 0 [[1, 1], [4, 5]]).toOption.map
    fun r => (r.1.shape, r.2)) = some ([2, 3, 4], [[0, 0], [3, 4]]) := by decide +kernel
example : ((cropToPointcloud .repaired exImg [[1, 1], [4, 5]] (1/2) false 0 [[1, 1], [4, 5]]).toOption.map
    fun r => (r.1.shape, r.2)) = some ([2, 5, 6], [[1, 1], [4, 5]]) := by decide +kernel
example : (∀ a ∈ pcAxes [6, 7] [[1, 1], [4, 5]] 0, a.lo < a.hi) ∧ (∀ a ∈ pcAxes [6, 7] [[1, 1], [4, 5]] 0, a.inside) ∧
    pcDims [[1, 1], [4, 5]] = [6, 7].length := by decide +kernel
def exMask : NDArr Bool := ofFn [1, 6, 7] fun idx => match idx with
  | [_, r, q] => decide (2 ≤ r ∧ r ≤ 4 ∧ 1 ≤ q ∧ q ≤ 3)
  | _ => false
example : trueIndices exMask = [[2, 1], [2, 2], [2, 3], [3, 1], [3, 2], [3, 3], [4, 1], [4, 2], [4, 3]] := by
  decide +kernel
-- true rows 2..4, columns 1..3: boundary 0 keeps rows 2..3 and columns 1..2 only
example : ((cropToTrueMask .repaired exImg exMask 0 true 0 []).toOption.map fun r => r.1.shape) = some [2, 2, 2] := by
  decide +kernel
example : ((cropToTrueMask .repaired exImg exMask 1 true 0 []).toOption.map fun r => r.1.shape) = some [2, 4, 4] := by
  decide +kernel
example : cropToPointcloud .repaired exImg [] 0 true 0 [] = .error .value := by decide +kernel
-- list format
example : (toPatchList (ofFn [2, 1, 1, 1, 2] fun idx => idx.foldl (· * 3 + ·) 0) 0).map (·.data) = [[0, 1], [81, 82]] := by
  decide +kernel
example : fromPatchList (toPatchList exImg 0) 2 0 = .ok exImg := by decide +kernel
example : Interior 6 7 3 2 (2, 3) (0, 0) ∧ Interior 6 7 3 2 (3, 5) (0, 0) := by unfold Interior winLo; decide

end MenpoModel.C13
