/-
C10 — the trimmed pool *as coded* (order included), and what of a model is observable.

`trim_components` appends the newly discarded eigenvalues to the pool (`np.hstack((pool, eig[nac:]))`),
so after several effective trims the pool is the concatenation, in the order the trims happened, of the
slices `eig0[new_count : old_count]` — not the tail `eig0[count:]` a single build would store.  Every
public accessor reads the pool through `sum` / `mean` / `size` only, so the two are the same model.
-/
import MenpoModel.Lemmas.C10Float

namespace MenpoModel.C10
open St

/-- the pool after effective trims from `top` components down to the counts `cuts` (in that order) -/
def poolOf (eig0 : List Rat) : Nat → List Nat → List Rat
  | _, [] => []
  | top, c :: cs => (eig0.take top).drop c ++ poolOf eig0 c cs

/-- every cut is strictly below the count before it -/
def Desc : Nat → List Nat → Prop
  | _, [] => True
  | top, c :: cs => c < top ∧ Desc c cs

def lastCut : Nat → List Nat → Nat
  | top, [] => top
  | _, c :: cs => lastCut c cs

/-- the component counts reached by the operations of a history that actually removed components -/
def cutsRun (s : St) : List Op → List Nat
  | [] => []
  | o :: t => (if (s.step o).rows < s.rows then [(s.step o).rows] else []) ++ cutsRun (s.step o) t

theorem poolOf_append (eig0 : List Rat) (top : Nat) (cs ds : List Nat) :
    poolOf eig0 top (cs ++ ds) = poolOf eig0 top cs ++ poolOf eig0 (lastCut top cs) ds := by
  induction cs generalizing top with
  | nil => simp [poolOf, lastCut]
  | cons c cs ih => simp [poolOf, lastCut, ih, List.append_assoc]

theorem lastCut_append (top : Nat) (cs ds : List Nat) :
    lastCut top (cs ++ ds) = lastCut (lastCut top cs) ds := by
  induction cs generalizing top with
  | nil => simp [lastCut]
  | cons c cs ih => simp [lastCut, ih]

theorem desc_append (top : Nat) (cs ds : List Nat) :
    Desc top (cs ++ ds) ↔ Desc top cs ∧ Desc (lastCut top cs) ds := by
  induction cs generalizing top with
  | nil => simp [Desc, lastCut]
  | cons c cs ih => simp [Desc, lastCut, ih, and_assoc]

/-- one operation either leaves component count and pool alone, or removes components and appends
exactly the removed slice of the original spectrum to the pool -/
theorem setActive_pool {s s' : St} {v : Val} (h : s.setActive v = .ok s') :
    s'.rows = s.rows ∧ s'.trimmed = s.trimmed ∧ s'.eig = s.eig := by
  obtain ⟨h1, h2, h3, _⟩ := setActive_fields h
  exact ⟨h1, h3, h2⟩

theorem trim_pool {eig0 : List Rat} {s s' : St} {v : Option Val} (hr : Reach eig0 s)
    (h : s.trim v = .ok s') :
    (s'.rows = s.rows ∧ s'.trimmed = s.trimmed) ∨
      (s'.rows < s.rows ∧ s'.trimmed = s.trimmed ++ (eig0.take s.rows).drop s'.rows) := by
  obtain ⟨s1, hs1, hc⟩ := trim_cases h
  obtain ⟨e1, e2, e3⟩ := setActive_pool hs1
  rcases hc with ⟨hlt, rfl⟩ | ⟨_, rfl⟩
  · right
    have hmin : min s1.nActive s1.rows = s1.nActive := Nat.min_eq_left (Nat.le_of_lt hlt)
    refine ⟨?_, ?_⟩
    · show min s1.nActive s1.rows < s.rows
      rw [hmin, ← e1]; exact hlt
    · show s1.trimmed ++ s1.eig.drop s1.nActive = s.trimmed ++ (eig0.take s.rows).drop (min s1.nActive s1.rows)
      rw [hmin, e2, e3, hr.eig_eq]
  · left; exact ⟨e1, e2⟩

theorem apply_pool {eig0 : List Rat} {s s' : St} {o : Op} (hr : Reach eig0 s) (h : s.apply o = .ok s') :
    (s'.rows = s.rows ∧ s'.trimmed = s.trimmed) ∨
      (s'.rows < s.rows ∧ s'.trimmed = s.trimmed ++ (eig0.take s.rows).drop s'.rows) := by
  cases o with
  | set v => left; exact ⟨(setActive_pool h).1, (setActive_pool h).2.1⟩
  | trim v => exact trim_pool hr h
  | ortho d k1 =>
    rcases ortho_cases h with rfl | ⟨s1, h1, rfl | h2⟩
    · left; exact ⟨rfl, rfl⟩
    · exact trim_pool hr h1
    · obtain ⟨e1, e2, _⟩ := setActive_pool h2
      rw [e1, e2]; exact trim_pool hr h1

theorem step_pool {eig0 : List Rat} {s : St} (hr : Reach eig0 s) (o : Op) :
    ((s.step o).rows = s.rows ∧ (s.step o).trimmed = s.trimmed) ∨
      ((s.step o).rows < s.rows ∧
        (s.step o).trimmed = s.trimmed ++ (eig0.take s.rows).drop (s.step o).rows) := by
  unfold St.step
  split
  · rename_i s' h; exact apply_pool hr h
  · left; exact ⟨rfl, rfl⟩

/-- the pool after a history, order included -/
theorem run_pool {eig0 : List Rat} {s : St} (hr : Reach eig0 s) (ops : List Op) :
    (s.run ops).trimmed = s.trimmed ++ poolOf eig0 s.rows (cutsRun s ops) ∧
    Desc s.rows (cutsRun s ops) ∧ lastCut s.rows (cutsRun s ops) = (s.run ops).rows := by
  induction ops generalizing s with
  | nil => simp [St.run, cutsRun, poolOf, Desc, lastCut]
  | cons o t ih =>
    obtain ⟨i1, i2, i3⟩ := ih (reach_step hr o)
    have hrun : s.run (o :: t) = (s.step o).run t := rfl
    rw [hrun]
    rcases step_pool hr o with ⟨e1, e2⟩ | ⟨e1, e2⟩
    · have hn : ¬ (s.step o).rows < s.rows := by omega
      simp only [cutsRun, hn, if_false, List.nil_append]
      rw [← e1, ← e2]
      exact ⟨i1, i2, i3⟩
    · simp only [cutsRun, e1, if_true, List.singleton_append, poolOf, Desc, lastCut]
      refine ⟨?_, ⟨trivial, i2⟩, i3⟩
      rw [i1, e2, List.append_assoc]

/-! ### what is observable of a model -/

/-- two models that differ at most in the *order* of the trimmed pool -/
structure Same (s t : St) : Prop where
  rows : s.rows = t.rows
  eig : s.eig = t.eig
  nActive : s.nActive = t.nActive
  pool : s.trimmed.Perm t.trimmed

theorem lmean_perm {a b : List Rat} (h : a.Perm b) : lmean a = lmean b := by
  unfold lmean; rw [h.sum_eq, h.length_eq]

theorem Same.originalVariance {s t : St} (h : Same s t) : s.originalVariance = t.originalVariance := by
  simp only [St.originalVariance, h.eig, h.pool.sum_eq]

theorem Same.noiseVariance {s t : St} (h : Same s t) : s.noiseVariance = t.noiseVariance := by
  unfold St.noiseVariance
  rw [h.rows, h.eig, h.nActive, h.pool.length_eq, lmean_perm h.pool,
    lmean_perm (List.Perm.append_left (t.eig.drop t.nActive) h.pool)]

/-- every accessor of the bookkeeping agrees on two models that differ in the order of the pool -/
theorem Same.accessors {s t : St} (h : Same s t) :
    s.originalVariance = t.originalVariance ∧ s.variance = t.variance ∧
    s.varianceRatio = t.varianceRatio ∧ s.noiseVariance = t.noiseVariance ∧
    s.noiseVarianceRatio = t.noiseVarianceRatio ∧ s.eigenvalues = t.eigenvalues ∧
    s.eigenvaluesRatio = t.eigenvaluesRatio ∧ s.eigenvaluesCumulativeRatio = t.eigenvaluesCumulativeRatio ∧
    s.activeRows = t.activeRows ∧ s.totalVarianceRatio = t.totalVarianceRatio ∧
    s.totalCumRatio = t.totalCumRatio ∧ s.inverseNoiseVariance = t.inverseNoiseVariance := by
  have ho := h.originalVariance
  have hn := h.noiseVariance
  have he : s.eigenvalues = t.eigenvalues := by simp only [St.eigenvalues, h.eig, h.nActive]
  refine ⟨ho, ?_, ?_, hn, ?_, he, ?_, ?_, ?_, ?_, ?_, ?_⟩
  · simp only [St.variance, he]
  · simp only [St.varianceRatio, St.variance, he, ho]
  · simp only [St.noiseVarianceRatio, hn, ho]
  · simp only [St.eigenvaluesRatio, he, ho]
  · simp only [St.eigenvaluesCumulativeRatio, St.eigenvaluesRatio, he, ho]
  · simp only [St.activeRows, h.nActive, h.rows]
  · simp only [St.totalVarianceRatio, St.totalVariance, h.eig, ho]
  · simp only [St.totalCumRatio, St.totalEigenvaluesRatio, h.eig, ho]
  · simp only [St.inverseNoiseVariance, hn]

/-- …and they react identically to every further operation -/
theorem Same.setActive {s t : St} (h : Same s t) (v : Val) :
    (∃ e, s.setActive v = .error e ∧ t.setActive v = .error e) ∨
    (∃ s' t', s.setActive v = .ok s' ∧ t.setActive v = .ok t' ∧ Same s' t') := by
  have hfin : ∀ w : Int, (∃ e, s.finalSet w = .error e ∧ t.finalSet w = .error e) ∨
      (∃ s' t', s.finalSet w = .ok s' ∧ t.finalSet w = .ok t' ∧ Same s' t') := by
    intro w
    unfold St.finalSet
    rw [h.rows]
    split
    · exact Or.inr ⟨_, _, rfl, rfl, ⟨rfl, h.eig, rfl, h.pool⟩⟩
    · exact Or.inl ⟨_, rfl, rfl⟩
  obtain ⟨_, _, _, _, _, _, _, _, _, a10, a11, _⟩ := h.accessors
  cases v with
  | float r =>
    simp only [St.setActive, a10, a11]
    split
    · exact hfin _
    · exact Or.inl ⟨_, rfl, rfl⟩
  | int k =>
    simp only [St.setActive, h.rows, h.nActive]
    split
    · exact Or.inl ⟨_, rfl, rfl⟩
    · split
      · split
        · exact hfin (t.rows : Int)
        · exact Or.inr ⟨_, _, rfl, rfl, h⟩
      · exact hfin _
  | npint k => simp only [St.setActive]; exact hfin _
  | floatObs r tvr cum =>
    simp only [St.setActive]
    split
    · exact hfin _
    · exact Or.inl ⟨_, rfl, rfl⟩
  | floatObsClamped r tvr cum =>
    simp only [St.setActive, h.rows]
    split
    · exact hfin _
    · exact Or.inl ⟨_, rfl, rfl⟩

end MenpoModel.C10
