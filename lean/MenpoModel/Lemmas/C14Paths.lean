/-
C14 — lemmas about simple-path enumeration (`find_all_paths`), the path reconstruction loop of
`find_path` / `find_shortest_path`, and the cost that `find_shortest_path` reports.
Core Lean only.
-/
import MenpoModel.Lemmas.C14Basic

namespace MenpoModel.C14
open Graph

/-! ### `find_all_paths` enumerates exactly the simple routes -/

theorem isRoute_cons_cons (g : Graph) (a b : Nat) (rest : List Nat) :
    g.isRoute (a :: b :: rest) = (g.isEdge a b && g.isRoute (b :: rest)) := rfl

/-- soundness: whatever `find_all_paths` returns extends the given prefix by a route from `s` to `t`
and repeats no vertex -/
theorem allPathsF_sound (g : Graph) (f s t : Nat) (pre p : List Nat)
    (hpre : (pre ++ [s]).Nodup) (hp : p ∈ g.allPathsF f s t pre) :
    ∃ q, p = pre ++ q ∧ q.head? = some s ∧ q.getLast? = some t ∧ g.isRoute q = true ∧ p.Nodup := by
  induction f generalizing s pre with
  | zero => simp [Graph.allPathsF] at hp
  | succ f ih =>
    simp only [Graph.allPathsF] at hp
    by_cases hst : s = t
    · subst hst
      simp only [if_true, List.mem_singleton] at hp
      subst hp
      exact ⟨[s], rfl, rfl, rfl, rfl, hpre⟩
    · simp only [hst, if_false] at hp
      by_cases hs : s < g.n
      · simp only [hs, not_true_eq_false, if_false, List.mem_flatMap] at hp
        obtain ⟨v, hv, hp⟩ := hp
        by_cases hc : (pre ++ [s]).contains v = true
        · rw [if_pos hc] at hp; cases hp
        · rw [if_neg hc] at hp
          have hnd : ((pre ++ [s]) ++ [v]).Nodup := by
            rw [List.nodup_append]
            refine ⟨hpre, by simp, ?_⟩
            intro a ha b hb hab
            simp only [List.mem_singleton] at hb
            subst hb; subst hab
            exact hc (by simpa using ha)
          obtain ⟨q, rfl, hh, hl, hr, hn⟩ := ih v (pre ++ [s]) hnd hp
          refine ⟨s :: q, by simp, rfl, ?_, ?_, hn⟩
          · cases q with
            | nil => simp at hh
            | cons a q' => simpa [List.getLast?_cons_cons] using hl
          · cases q with
            | nil => simp at hh
            | cons a q' =>
              simp only [List.head?_cons, Option.some.injEq] at hh
              subst hh
              rw [isRoute_cons_cons, hr, ((mem_row g s a).1 hv).2]; rfl
      · simp [hs] at hp

/-- completeness: every duplicate-free route from `s` to `t` through vertices of the graph is returned -/
theorem allPathsF_complete (g : Graph) (q : List Nat) (f s t : Nat) (pre : List Nat)
    (hh : q.head? = some s) (hl : q.getLast? = some t) (hr : g.isRoute q = true)
    (hn : (pre ++ q).Nodup) (hv : ∀ x ∈ q, x < g.n) (hf : q.length ≤ f) :
    pre ++ q ∈ g.allPathsF f s t pre := by
  induction q generalizing f s pre with
  | nil => simp at hh
  | cons a q ih =>
    simp only [List.head?_cons, Option.some.injEq] at hh
    subst hh
    cases f with
    | zero => simp at hf
    | succ f =>
      simp only [Graph.allPathsF]
      cases q with
      | nil =>
        simp only [List.getLast?_singleton, Option.some.injEq] at hl
        subst hl; simp
      | cons b q' =>
        have hat : a ≠ t := by
          intro h
          subst h
          have hmem : a ∈ b :: q' := List.mem_of_getLast? (by simpa [List.getLast?_cons_cons] using hl)
          rw [List.nodup_append] at hn
          have := hn.2.1
          rw [List.nodup_cons] at this
          exact this.1 hmem
        have han : a < g.n := hv a (by simp)
        simp only [hat, if_false, han, not_true_eq_false, List.mem_flatMap]
        rw [isRoute_cons_cons, Bool.and_eq_true] at hr
        refine ⟨b, (mem_row g a b).2 ⟨hv b (by simp), hr.1⟩, ?_⟩
        have hnc : (pre ++ [a]).contains b = false := by
          rw [Bool.eq_false_iff]
          intro hc
          have hc' : b ∈ pre ++ [a] := by simpa using hc
          rw [List.nodup_append] at hn
          rcases List.mem_append.1 hc' with hb | hb
          · exact hn.2.2 b hb b (by simp) rfl
          · simp only [List.mem_singleton] at hb
            subst hb
            have := hn.2.1
            rw [List.nodup_cons] at this
            exact this.1 (by simp)
        simp only [hnc, Bool.false_eq_true, if_false]
        have := ih f b (pre ++ [a]) rfl (by simpa [List.getLast?_cons_cons] using hl) hr.2
          (by simpa using hn) (fun x hx => hv x (by simp [List.mem_cons] at hx ⊢; right; exact hx))
          (by simp at hf ⊢; omega)
        simpa using this

/-! ### the cost accumulated by `find_shortest_path` -/

theorem codedCost_foldl (d : List (Option Nat)) (l : List Nat) (a : Nat)
    (hd : ∀ v ∈ l, (d.getD v none).isSome = true) :
    l.foldl (costStep d) (some a) = some (a + (l.map fun v => (d.getD v none).getD 0).sum) := by
  induction l generalizing a with
  | nil => simp
  | cons v t ih =>
    have hv := hd v (by simp)
    cases hdv : d.getD v none with
    | none => rw [hdv] at hv; cases hv
    | some x =>
      simp only [List.foldl_cons, costStep, hdv, List.map_cons, List.sum_cons, Option.getD_some]
      rw [ih (a + x) (fun u hu => hd u (by simp [hu]))]
      simp [Nat.add_assoc]

/-- the reported cost is the sum of the distances from `start` to every vertex of the path except
the last one — not the distance to the last one -/
theorem codedCost_eq_sum (d : List (Option Nat)) (path : List Nat)
    (hd : ∀ v ∈ path.dropLast, (d.getD v none).isSome = true) :
    codedCost d path = some ((path.dropLast.map fun v => (d.getD v none).getD 0).sum) := by
  rw [codedCost, codedCost_foldl d path.dropLast 0 hd]; simp

/-- scipy's contract for one source: the source has distance 0 and every reached vertex `v` other
than the source has a predecessor `p` with `d v = d p + w p v` along a stored edge -/
structure PredContract (g : Graph) (d pred : List (Option Nat)) (start : Nat) : Prop where
  start_zero : d.getD start none = some 0
  step : ∀ v p, v ≠ start → pred.getD v none = some p →
    g.w p v ≠ 0 ∧ ∃ dp, d.getD p none = some dp ∧ d.getD v none = some (dp + g.w p v)

theorem routeWeight_cons (g : Graph) (a b : Nat) (rest : List Nat) (h : g.w a b ≠ 0) :
    g.routeWeight (a :: b :: rest) = (g.routeWeight (b :: rest)).map (· + g.w a b) := by
  simp [Graph.routeWeight, h]

theorem walkBack_weight (g : Graph) (d pred : List (Option Nat)) (start : Nat)
    (hc : PredContract g d pred start) (f : Nat) (v : Nat) (rest path : List Nat) (dv wr : Nat)
    (hvs : v ≠ start)
    (hdv : d.getD v none = some dv) (hwr : g.routeWeight (v :: rest) = some wr)
    (h : walkBack pred start f (v :: rest) = some path) :
    g.routeWeight path = some (dv + wr) ∧ path.head? = some start ∧
      ∃ pfx, path = pfx ++ (v :: rest) := by
  induction f generalizing v rest dv wr with
  | zero => simp [walkBack] at h
  | succ f ih =>
    simp only [walkBack] at h
    cases hp : pred.getD v none with
    | none => rw [hp] at h; cases h
    | some p =>
      rw [hp] at h
      simp only at h
      obtain ⟨hw, dp, hdp, hdv'⟩ := hc.step v p hvs hp
      rw [hdv] at hdv'
      simp only [Option.some.injEq] at hdv'
      have hrw : g.routeWeight (p :: v :: rest) = some (wr + g.w p v) := by
        rw [routeWeight_cons g p v rest hw, hwr]; rfl
      by_cases hps : p = start
      · simp only [hps, if_true, Option.some.injEq] at h
        subst h
        rw [← hps, hrw]
        have h0 := hc.start_zero
        rw [← hps, hdp] at h0
        simp only [Option.some.injEq] at h0
        refine ⟨by simp; omega, by simp [hps], [p], by simp⟩
      · simp only [hps, if_false] at h
        obtain ⟨h1, h2, pfx, h3⟩ := ih p (v :: rest) dp (wr + g.w p v) hps hdp hrw h
        refine ⟨by rw [h1]; simp; omega, h2, pfx ++ [p], by simp [h3]⟩

/-- REPAIRED COST.  Under scipy's predecessor contract the route that `find_shortest_path`
reconstructs starts at `start`, ends at `end` and its weight is `distances[start, end]` — which is
therefore the cost the function should report. -/
theorem route_weight_eq_dist (g : Graph) (d pred : List (Option Nat)) (start t : Nat)
    (hc : PredContract g d pred start) (hts : t ≠ start) (dt : Nat) (hdt : d.getD t none = some dt)
    (f : Nat) (path : List Nat) (h : walkBack pred start f [t] = some path) :
    g.routeWeight path = some dt ∧ path.head? = some start ∧ path.getLast? = some t := by
  obtain ⟨h1, h2, pfx, h3⟩ := walkBack_weight g d pred start hc f t [] path dt 0 hts hdt rfl h
  refine ⟨by simpa using h1, h2, by simp [h3]⟩

/-- `find_shortest_path(v, v)`: scipy marks the diagonal of the predecessor matrix with -9999, so the
coded function answers `([], inf)` -/
theorem shortestPathCoded_self (d pred : List (Option Nat)) (s : Nat) (h : pred.getD s none = none) :
    shortestPathCoded d pred s s = some ([], none) := by
  unfold shortestPathCoded; rw [h]

theorem pathFromPred_self (pred : List (Option Nat)) (s : Nat) (h : pred.getD s none = none) :
    pathFromPred pred s s = some [] := by
  unfold pathFromPred; rw [h]

end MenpoModel.C14
