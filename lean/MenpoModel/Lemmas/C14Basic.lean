/-
C14 — general (unbounded) lemmas about the graph model: edge sets, queries, masking, tree relations.
Core Lean only.
-/
import MenpoModel.Core.C14Graph

namespace MenpoModel.C14
open Graph

/-! ### rows, columns, edges -/

theorem mem_row (g : Graph) (u v : Nat) : v ∈ g.row u ↔ v < g.n ∧ g.isEdge u v = true := by
  simp [Graph.row, Graph.isEdge]

theorem mem_col (g : Graph) (u v : Nat) : u ∈ g.col v ↔ u < g.n ∧ g.isEdge u v = true := by
  simp [Graph.col, Graph.isEdge]

theorem mem_edgesD (g : Graph) (u v : Nat) :
    (u, v) ∈ g.edgesD ↔ u < g.n ∧ v < g.n ∧ g.isEdge u v = true := by
  simp [Graph.edgesD, mem_row]

theorem mem_edgesU_raw (g : Graph) (u v : Nat) :
    (u, v) ∈ g.edgesU ↔ u < g.n ∧ v < g.n ∧ g.isEdge u v = true ∧ u ≤ v := by
  simp only [Graph.edgesU, List.mem_flatMap, List.mem_range, List.mem_map, List.mem_filter, mem_row,
    decide_eq_true_eq, Prod.mk.injEq]
  constructor
  · rintro ⟨a, ha, b, ⟨⟨hb, he⟩, hab⟩, rfl, rfl⟩
    exact ⟨ha, hb, he, hab⟩
  · rintro ⟨hu, hv, he, huv⟩
    exact ⟨u, hu, v, ⟨⟨hv, he⟩, huv⟩, rfl, rfl⟩

theorem nodup_range_filter (n : Nat) (p : Nat → Bool) : ((List.range n).filter p).Nodup :=
  List.Nodup.sublist List.filter_sublist List.nodup_range

theorem row_nodup (g : Graph) (u : Nat) : (g.row u).Nodup := nodup_range_filter _ _
theorem col_nodup (g : Graph) (v : Nat) : (g.col v).Nodup := nodup_range_filter _ _

/-- a `flatMap` over a duplicate-free list of duplicate-free, pairwise disjoint blocks is duplicate-free -/
theorem nodup_flatMap_pairs (l : List Nat) (hl : l.Nodup) (f : Nat → List Nat) (hf : ∀ i, (f i).Nodup) :
    (l.flatMap fun i => (f i).map fun j => (i, j)).Nodup := by
  induction l with
  | nil => simp
  | cons a t ih =>
    rw [List.nodup_cons] at hl
    simp only [List.flatMap_cons]
    rw [List.nodup_append]
    refine ⟨?_, ih hl.2, ?_⟩
    · exact List.Pairwise.map _ (fun _ _ h h' => h (by simpa using h')) (hf a)
    · intro x hx y hy hxy
      subst hxy
      simp only [List.mem_map] at hx
      simp only [List.mem_flatMap, List.mem_map] at hy
      obtain ⟨j, _, rfl⟩ := hx
      obtain ⟨i, hi, j', _, h⟩ := hy
      simp only [Prod.mk.injEq] at h
      exact hl.1 (h.1 ▸ hi)

theorem edgesD_nodup (g : Graph) : g.edgesD.Nodup :=
  nodup_flatMap_pairs _ List.nodup_range _ (fun i => row_nodup g i)

theorem edgesU_nodup (g : Graph) : g.edgesU.Nodup :=
  nodup_flatMap_pairs _ List.nodup_range (fun i => (g.row i).filter fun j => decide (i ≤ j))
    (fun i => List.Nodup.sublist List.filter_sublist (row_nodup g i))

/-! ### edge list → adjacency -/

theorem fromEdges_isEdge (n : Nat) (es : List (Nat × Nat)) (u v : Nat) :
    (fromEdges n es).isEdge u v = true ↔ (u, v) ∈ es := by
  simp [fromEdges, Graph.isEdge, List.count_eq_zero]

theorem fromEdgesSym_isEdge (n : Nat) (es : List (Nat × Nat)) (u v : Nat) :
    (fromEdgesSym n es).isEdge u v = true ↔ ((u, v) ∈ es ∨ (v, u) ∈ es) := by
  simp only [fromEdgesSym, Graph.isEdge]
  by_cases h1 : (u, v) ∈ es <;> by_cases h2 : (v, u) ∈ es <;>
    simp [h1, h2, List.count_eq_zero, Nat.add_eq_zero_iff]

theorem fromEdgesSym_symmetric (n : Nat) (es : List (Nat × Nat)) : (fromEdgesSym n es).Symmetric := by
  intro i j _ _
  simp only [fromEdgesSym, Nat.add_comm (List.count (i, j) es)]

theorem fromEdgesSym_weight_le_one (n : Nat) (es : List (Nat × Nat)) (i j : Nat) :
    (fromEdgesSym n es).w i j ≤ 1 := by
  simp only [fromEdgesSym]; split <;> omega

theorem edgesInRange_iff (n : Nat) (es : List (Nat × Nat)) :
    edgesInRange n es = true ↔ ∀ e ∈ es, e.1 < n ∧ e.2 < n := by
  simp [edgesInRange]

/-! ### isolated vertices, adjacency list -/

theorem mem_isolated (g : Graph) (v : Nat) :
    v ∈ g.isolated ↔ v < g.n ∧ ∀ u, u < g.n → g.isEdge v u = false ∧ g.isEdge u v = false := by
  simp only [Graph.isolated, List.mem_filter, List.mem_range, Bool.and_eq_true, List.isEmpty_iff,
    List.eq_nil_iff_forall_not_mem, mem_row, mem_col]
  constructor
  · rintro ⟨hv, h1, h2⟩
    refine ⟨hv, fun u hu => ⟨?_, ?_⟩⟩
    · have := h1 u; simp only [hu, true_and] at this; simpa using this
    · have := h2 u; simp only [hu, true_and] at this; simpa using this
  · rintro ⟨hv, h⟩
    refine ⟨hv, fun u hu => ?_, fun u hu => ?_⟩
    · have := (h u hu.1).1; simp [this] at hu
    · have := (h u hu.1).2; simp [this] at hu

theorem adjacencyList_length (g : Graph) : g.adjacencyList.length = g.n := by
  simp [Graph.adjacencyList]

theorem adjacencyList_get (g : Graph) (u : Nat) (hu : u < g.n) :
    g.adjacencyList[u]? = some (g.children u) := by
  simp [Graph.adjacencyList, Graph.children, hu]

/-! ### masking -/

theorem maskFilter_rank {α} (l : List α) (m : List Bool) (v : Nat)
    (hlen : l.length = m.length) (hv : m[v]? = some true) :
    (maskFilter l m)[rank m v]? = l[v]? := by
  induction l generalizing m v with
  | nil => cases m <;> simp_all
  | cons x xs ih =>
    cases m with
    | nil => simp at hlen
    | cons b bs =>
      simp only [List.length_cons, Nat.add_right_cancel_iff] at hlen
      cases v with
      | zero =>
        simp only [List.getElem?_cons_zero, Option.some.injEq] at hv
        subst hv
        simp [maskFilter, rank]
      | succ v =>
        simp only [List.getElem?_cons_succ] at hv
        cases b
        · simp [maskFilter, rank, ih bs v hlen hv]
        · simp [maskFilter, rank, Nat.add_comm 1, ih bs v hlen hv]

theorem maskFilter_length {α} (l : List α) (m : List Bool) (hlen : l.length = m.length) :
    (maskFilter l m).length = m.count true := by
  induction l generalizing m with
  | nil => cases m <;> simp_all [maskFilter]
  | cons x xs ih =>
    cases m with
    | nil => simp at hlen
    | cons b bs =>
      simp only [List.length_cons, Nat.add_right_cancel_iff] at hlen
      cases b <;> simp [maskFilter, ih bs hlen]

/-- a kept position gets a new index below the number of kept positions -/
theorem rank_lt_count (m : List Bool) (v : Nat) (hv : m[v]? = some true) : rank m v < m.count true := by
  induction m generalizing v with
  | nil => simp at hv
  | cons b bs ih =>
    cases v with
    | zero =>
      simp only [List.getElem?_cons_zero, Option.some.injEq] at hv
      subst hv; simp [rank]
    | succ v =>
      simp only [List.getElem?_cons_succ] at hv
      have := ih v hv
      cases b <;> simp [rank] <;> omega

theorem rank_le_of_le (m : List Bool) (u v : Nat) (h : u ≤ v) : rank m u ≤ rank m v := by
  induction m generalizing u v with
  | nil => cases u <;> cases v <;> simp [rank]
  | cons b bs ih =>
    cases u with
    | zero => simp [rank]
    | succ u =>
      cases v with
      | zero => omega
      | succ v => have := ih u v (by omega); simp only [rank]; omega

/-- renumbering preserves the order of the surviving vertices -/
theorem rank_strictMono (m : List Bool) (u v : Nat) (h : u < v) (hu : m[u]? = some true) :
    rank m u < rank m v := by
  induction m generalizing u v with
  | nil => simp at hu
  | cons b bs ih =>
    cases v with
    | zero => omega
    | succ v =>
      cases u with
      | zero =>
        simp only [List.getElem?_cons_zero, Option.some.injEq] at hu
        subst hu; simp only [rank, if_true]; omega
      | succ u =>
        simp only [List.getElem?_cons_succ] at hu
        have := ih u v (by omega) hu
        simp only [rank]; omega

/-- every new index is the rank of exactly the kept original vertex listed at that index -/
theorem maskFilter_range_spec (m : List Bool) (k : Nat) (i : Nat) (x : Nat)
    (h : (maskFilter (List.range' k m.length) m)[i]? = some x) :
    k ≤ x ∧ m[x - k]? = some true ∧ rank m (x - k) = i := by
  induction m generalizing k i with
  | nil => simp [maskFilter] at h
  | cons b bs ih =>
    simp only [List.length_cons, List.range'_succ] at h
    cases b with
    | false =>
      simp only [maskFilter, Bool.false_eq_true, if_false] at h
      obtain ⟨h1, h2, h3⟩ := ih (k + 1) i h
      have : x - k = (x - (k + 1)) + 1 := by omega
      rw [this]
      refine ⟨by omega, by simpa using h2, by simpa [rank] using h3⟩
    | true =>
      simp only [maskFilter, if_true] at h
      cases i with
      | zero =>
        simp only [List.getElem?_cons_zero, Option.some.injEq] at h
        subst h; simp [rank]
      | succ i =>
        simp only [List.getElem?_cons_succ] at h
        obtain ⟨h1, h2, h3⟩ := ih (k + 1) i h
        have : x - k = (x - (k + 1)) + 1 := by omega
        rw [this]
        refine ⟨by omega, by simpa using h2, ?_⟩
        simp only [rank, if_true]; omega

theorem keepIdx_spec (m : List Bool) (i x : Nat) (h : (keepIdx m.length m)[i]? = some x) :
    m[x]? = some true ∧ rank m x = i := by
  have := maskFilter_range_spec m 0 i x (by simpa [keepIdx, List.range_eq_range'] using h)
  simpa using this.2

theorem keepIdx_length (m : List Bool) : (keepIdx m.length m).length = m.count true := by
  simp [keepIdx, maskFilter_length]

theorem keepIdx_rank (m : List Bool) (v : Nat) (hv : m[v]? = some true) :
    (keepIdx m.length m)[rank m v]? = some v := by
  have hlt : v < m.length := by
    rcases Nat.lt_or_ge v m.length with h | h
    · exact h
    · simp [List.getElem?_eq_none h] at hv
  rw [keepIdx, maskFilter_rank _ _ _ (by simp) hv]
  simp [hlt]

theorem mask_n (g : Graph) (m : List Bool) (hlen : m.length = g.n) : (g.mask m).n = m.count true := by
  simp [Graph.mask, Graph.select, ← hlen, keepIdx_length]

/-- the stored entry between two surviving vertices is found between their new indices -/
theorem mask_weight (g : Graph) (m : List Bool) (hlen : m.length = g.n) (u v : Nat)
    (hu : m[u]? = some true) (hv : m[v]? = some true) :
    (g.mask m).w (rank m u) (rank m v) = g.w u v := by
  simp only [Graph.mask, Graph.select, ← hlen]
  rw [List.getD_eq_getElem?_getD, List.getD_eq_getElem?_getD, keepIdx_rank m u hu, keepIdx_rank m v hv]
  rfl

/-- every new index comes from a surviving vertex -/
theorem mask_surj (g : Graph) (m : List Bool) (hlen : m.length = g.n) (i : Nat) (hi : i < (g.mask m).n) :
    ∃ u, m[u]? = some true ∧ rank m u = i := by
  rw [mask_n g m hlen, ← keepIdx_length] at hi
  exact ⟨(keepIdx m.length m)[i], keepIdx_spec m i _ (List.getElem?_eq_getElem hi)⟩

theorem all_true_count (m : List Bool) (h : m.all id = true) : m.count true = m.length := by
  induction m with
  | nil => rfl
  | cons b bs ih =>
    simp only [List.all_cons, Bool.and_eq_true, id] at h
    simp [h.1, ih h.2]

theorem all_true_get (m : List Bool) (h : m.all id = true) (v : Nat) (hv : v < m.length) : m[v]? = some true := by
  simp only [List.all_eq_true, id] at h
  simp [List.getElem?_eq_getElem hv, h _ (List.getElem_mem hv)]

theorem all_true_rank (m : List Bool) (h : m.all id = true) (v : Nat) (hv : v ≤ m.length) : rank m v = v := by
  induction m generalizing v with
  | nil => cases v <;> simp [rank] at hv ⊢
  | cons b bs ih =>
    simp only [List.all_cons, Bool.and_eq_true, id] at h
    cases v with
    | zero => simp [rank]
    | succ v =>
      simp only [List.length_cons] at hv
      simp [rank, h.1, ih h.2 v (by omega)]; omega

/-! ### tree relations -/

theorem parent_mem_children (g : Graph) (v p : Nat) (hv : v < g.n) (h : g.parent v = some p) :
    p < g.n ∧ v ∈ g.children p := by
  have hp : p ∈ g.col v := List.mem_of_getLast? h
  rw [mem_col] at hp
  exact ⟨hp.1, by simpa [Graph.children, mem_row] using ⟨hv, hp.2⟩⟩

theorem children_parent_isSome (g : Graph) (c p : Nat) (hp : p < g.n) (h : c ∈ g.children p) :
    (g.parent c).isSome = true := by
  simp only [Graph.children, mem_row] at h
  have : p ∈ g.col c := (mem_col g p c).2 ⟨hp, h.2⟩
  cases hc : g.col c with
  | nil => simp [hc] at this
  | cons a t => simp [Graph.parent, hc, List.getLast?_cons]

/-- with at most one parent per vertex, `parent` is the inverse of `children` -/
theorem children_parent_unique (g : Graph) (c p : Nat) (hp : p < g.n)
    (huniq : (g.parents c).length ≤ 1) (h : c ∈ g.children p) : g.parent c = some p := by
  simp only [Graph.children, mem_row] at h
  have hm : p ∈ g.col c := (mem_col g p c).2 ⟨hp, h.2⟩
  simp only [Graph.parents] at huniq
  cases hc : g.col c with
  | nil => simp [hc] at hm
  | cons a t =>
    cases t with
    | nil => simp [hc] at hm; simp [Graph.parent, hc, hm]
    | cons b t' => simp [hc] at huniq

theorem predList_get (g : Graph) (v : Nat) (hv : v < g.n) : g.predList[v]? = some (g.parent v) := by
  simp [Graph.predList, Graph.parent, hv]

theorem depthF_root (g : Graph) (root f : Nat) : g.depthF root (f + 1) root = some 0 := by
  simp [Graph.depthF]

theorem depthF_step (g : Graph) (root f v p : Nat) (hv : v ≠ root) (hp : g.parent v = some p) :
    g.depthF root (f + 1) v = (g.depthF root f p).map (· + 1) := by
  simp [Graph.depthF, hv, hp]

theorem depthF_mono (g : Graph) (root : Nat) (f : Nat) (v d : Nat) (h : g.depthF root f v = some d) :
    g.depthF root (f + 1) v = some d := by
  induction f generalizing v d with
  | zero => simp [Graph.depthF] at h
  | succ f ih =>
    by_cases hv : v = root
    · subst hv; simp [Graph.depthF] at h ⊢; exact h
    · cases hp : g.parent v with
      | none => simp [Graph.depthF, hv, hp] at h
      | some p =>
        rw [depthF_step g root f v p hv hp] at h
        rw [depthF_step g root (f + 1) v p hv hp]
        cases hd : g.depthF root f p with
        | none => simp [hd] at h
        | some d' =>
          simp [hd] at h
          simp [ih p d' hd, h]

/-- the depth of a non-root vertex is one more than the depth of its parent -/
theorem depth_consistent (g : Graph) (root f v d : Nat) (h : g.depthF root f v = some d) (hv : v ≠ root) :
    ∃ p d', g.parent v = some p ∧ g.depthF root f p = some d' ∧ d = d' + 1 := by
  cases f with
  | zero => simp [Graph.depthF] at h
  | succ f =>
    cases hp : g.parent v with
    | none => simp [Graph.depthF, hv, hp] at h
    | some p =>
      rw [depthF_step g root f v p hv hp] at h
      cases hd : g.depthF root f p with
      | none => simp [hd] at h
      | some d' =>
        simp [hd] at h
        exact ⟨p, d', rfl, depthF_mono g root f p d' hd, h.symm⟩

theorem depth_zero_iff (g : Graph) (root f v : Nat) (h : g.depthF root f v = some 0) : v = root := by
  cases f with
  | zero => simp [Graph.depthF] at h
  | succ f =>
    by_cases hv : v = root
    · exact hv
    · cases hp : g.parent v with
      | none => simp [Graph.depthF, hv, hp] at h
      | some p =>
        rw [depthF_step g root f v p hv hp] at h
        cases hd : g.depthF root f p <;> simp [hd] at h

theorem mem_leaves (g : Graph) (v : Nat) : v ∈ g.leaves ↔ v < g.n ∧ ∀ c, c ∉ g.children v := by
  simp [Graph.leaves, Graph.isLeaf, List.eq_nil_iff_forall_not_mem]

end MenpoModel.C14
