/-
C02: `copy` only allocates, and the copy of a shape is a tree of fresh cells laid out in disjoint
intervals (so that the in-place pass on it cannot reach a cell of the original).  Core Lean only.
-/
import MenpoModel.Lemmas.C02Rep

namespace MenpoModel.C02

abbrev CopyFn := Heap → Val → Except Err (Heap × Val)

/-- the recursive call only allocates -/
def RecExt (rec : CopyFn) : Prop := ∀ h v h' v', rec h v = .ok (h', v') → Ext h h'

theorem copySlots_ext (rec : CopyFn) (hr : RecExt rec) :
    ∀ (fs : Slots) (h h1 : Heap) (fs1 : Slots), copySlots rec h fs = .ok (h1, fs1) → Ext h h1 := by
  intro fs
  induction fs with
  | nil => intro h h1 fs1 e; simp only [copySlots, Except.ok.injEq, Prod.mk.injEq] at e; rw [← e.1]; exact Ext.refl _
  | cons p t ih =>
    intro h h1 fs1 e
    obtain ⟨x, v⟩ := p
    simp only [copySlots] at e
    cases hr1 : rec h v with
    | ok r =>
      obtain ⟨h2, v2⟩ := r
      rw [hr1] at e; simp only at e
      cases hc : copySlots rec h2 t with
      | ok r2 =>
        obtain ⟨h3, t3⟩ := r2
        rw [hc] at e; simp only [Except.ok.injEq, Prod.mk.injEq] at e
        rw [← e.1]; exact (hr _ _ _ _ hr1).trans (ih _ _ _ hc)
      | error e' => rw [hc] at e; cases e
    | error e' =>
      rw [hr1] at e
      cases e' with
      | attr =>
        simp only at e
        cases hc : copySlots rec h t with
        | ok r2 =>
          obtain ⟨h3, t3⟩ := r2
          rw [hc] at e; simp only [Except.ok.injEq, Prod.mk.injEq] at e
          rw [← e.1]; exact ih _ _ _ hc
        | error e'' => rw [hc] at e; cases e
      | fuel => cases e
      | notImpl => cases e
      | unknown => cases e
      | value => cases e
      | index => cases e

theorem copyValues_ext (rec : CopyFn) (hr : RecExt rec) :
    ∀ (fs : Slots) (h h1 : Heap) (fs1 : Slots), copyValues rec h fs = .ok (h1, fs1) → Ext h h1 := by
  intro fs
  induction fs with
  | nil => intro h h1 fs1 e; simp only [copyValues, Except.ok.injEq, Prod.mk.injEq] at e; rw [← e.1]; exact Ext.refl _
  | cons p t ih =>
    intro h h1 fs1 e
    obtain ⟨x, v⟩ := p
    simp only [copyValues] at e
    cases hr1 : rec h v with
    | ok r =>
      obtain ⟨h2, v2⟩ := r
      rw [hr1] at e; simp only at e
      cases hc : copyValues rec h2 t with
      | ok r2 =>
        obtain ⟨h3, t3⟩ := r2
        rw [hc] at e; simp only [Except.ok.injEq, Prod.mk.injEq] at e
        rw [← e.1]; exact (hr _ _ _ _ hr1).trans (ih _ _ _ hc)
      | error e' => rw [hc] at e; cases e
    | error e' => rw [hr1] at e; cases e

/-- the generic phase never raises AttributeError (it catches it) -/
theorem copySlots_no_attr (rec : CopyFn) : ∀ (fs : Slots) (h : Heap), copySlots rec h fs ≠ .error .attr := by
  intro fs
  induction fs with
  | nil => intro h e; simp [copySlots] at e
  | cons p t ih =>
    intro h e
    obtain ⟨x, v⟩ := p
    simp only [copySlots] at e
    cases hr1 : rec h v with
    | ok r =>
      obtain ⟨h2, v2⟩ := r
      rw [hr1] at e; simp only at e
      cases hc : copySlots rec h2 t with
      | ok r2 => rw [hc] at e; cases e
      | error e' => rw [hc] at e; simp only [Except.error.injEq] at e; subst e; exact ih _ hc
    | error e' =>
      rw [hr1] at e
      cases e' with
      | attr =>
        simp only at e
        cases hc : copySlots rec h t with
        | ok r2 => rw [hc] at e; cases e
        | error e'' => rw [hc] at e; simp only [Except.error.injEq] at e; subst e; exact ih _ hc
      | fuel => cases e
      | notImpl => cases e
      | unknown => cases e
      | value => cases e
      | index => cases e

/-- what the generic phase leaves in attribute `x` -/
theorem copySlots_lookup (rec : CopyFn) (hr : RecExt rec) :
    ∀ (fs : Slots) (h h1 : Heap) (fs1 : Slots), copySlots rec h fs = .ok (h1, fs1) →
      ∀ x w, fs.lookup x = some w → ∃ ha hb w1, fs1.lookup x = some w1 ∧ Ext h ha ∧ Ext hb h1 ∧
        (rec ha w = .ok (hb, w1) ∨ (rec ha w = .error .attr ∧ hb = ha ∧ w1 = w)) := by
  intro fs
  induction fs with
  | nil => intro h h1 fs1 _ x w hl; simp [List.lookup] at hl
  | cons p t ih =>
    intro h h1 fs1 e x w hl
    obtain ⟨y, v⟩ := p
    simp only [copySlots] at e
    cases hr1 : rec h v with
    | ok r =>
      obtain ⟨h2, v2⟩ := r
      rw [hr1] at e; simp only at e
      cases hc : copySlots rec h2 t with
      | error e' => rw [hc] at e; cases e
      | ok r2 =>
        obtain ⟨h3, t3⟩ := r2
        rw [hc] at e; simp only [Except.ok.injEq, Prod.mk.injEq] at e
        obtain ⟨e1, e2⟩ := e
        subst e1; subst e2
        simp only [List.lookup] at hl ⊢
        cases hxy : x == y with
        | true =>
          rw [hxy] at hl; simp only [Option.some.injEq] at hl; subst hl
          exact ⟨h, h2, v2, rfl, Ext.refl _, copySlots_ext rec hr _ _ _ _ hc, .inl hr1⟩
        | false =>
          rw [hxy] at hl
          obtain ⟨ha, hb, w1, q1, q2, q3, q4⟩ := ih _ _ _ hc x w hl
          exact ⟨ha, hb, w1, q1, (hr _ _ _ _ hr1).trans q2, q3, q4⟩
    | error e' =>
      rw [hr1] at e
      cases e' with
      | attr =>
        simp only at e
        cases hc : copySlots rec h t with
        | error e'' => rw [hc] at e; cases e
        | ok r2 =>
          obtain ⟨h3, t3⟩ := r2
          rw [hc] at e; simp only [Except.ok.injEq, Prod.mk.injEq] at e
          obtain ⟨e1, e2⟩ := e
          subst e1; subst e2
          simp only [List.lookup] at hl ⊢
          cases hxy : x == y with
          | true =>
            rw [hxy] at hl; simp only [Option.some.injEq] at hl; subst hl
            exact ⟨h, h, v, rfl, Ext.refl _, copySlots_ext rec hr _ _ _ _ hc, .inr ⟨hr1, rfl, rfl⟩⟩
          | false =>
            rw [hxy] at hl
            exact ih _ _ _ hc x w hl
      | fuel => cases e
      | notImpl => cases e
      | unknown => cases e
      | value => cases e
      | index => cases e

/-! ### `copy` on leaves -/

theorem copy_imm_cases (d : Dispatch) (n : Nat) (h : Heap) (t : Int) :
    copy d n h (.imm t) = .error .fuel ∨ copy d n h (.imm t) = .error .attr := by
  cases n with
  | zero => left; simp [copy]
  | succ n => right; simp [copy]

theorem copy_arr_cases (d : Dispatch) (n : Nat) {h : Heap} {p : Nat} {x : Arr} (hp : h[p]? = some (.arr x)) :
    copy d n h (.ref p) = .error .fuel ∨ copy d n h (.ref p) = .ok (h ++ [.arr x], .ref h.length) := by
  cases n with
  | zero => left; simp [copy]
  | succ n => right; simp [copy, hp]

theorem copy_dict_cases (d : Dispatch) (n : Nat) {h : Heap} {p : Nat} {fs : Slots} (hp : h[p]? = some (.dict fs)) :
    copy d n h (.ref p) = .error .fuel ∨ copy d n h (.ref p) = .ok (h ++ [.dict fs], .ref h.length) := by
  cases n with
  | zero => left; simp [copy]
  | succ n => right; simp [copy, hp]

theorem deepen_ext (rec : CopyFn) (hr : RecExt rec) (c : Cls) (x : String) (h1 : Heap) (fs1 : Slots)
    (h' : Heap) (v' : Val) (e : deepen rec c x h1 fs1 = .ok (h', v')) : Ext h1 h' := by
  unfold deepen at e
  split at e
  · split at e
    · split at e
      · rename_i h2 gs2 hc
        simp only [Except.ok.injEq, Prod.mk.injEq] at e
        rw [← e.1]
        exact (copyValues_ext rec hr _ _ _ _ hc).trans ((Ext.append _ _).trans (Ext.append _ _))
      · cases e
    · cases e
  · cases e

theorem copy_ext (d : Dispatch) : ∀ n, RecExt (copy d n) := by
  intro n
  induction n with
  | zero => intro h v h' v' e; simp [copy] at e
  | succ n ih =>
    intro h v h' v' e
    cases v with
    | imm t => simp [copy] at e
    | ref a =>
      simp only [copy] at e
      split at e
      · cases e
      · simp only [Except.ok.injEq, Prod.mk.injEq] at e; rw [← e.1]; exact Ext.append _ _
      · simp only [Except.ok.injEq, Prod.mk.injEq] at e; rw [← e.1]; exact Ext.append _ _
      · cases e
      · split at e
        · split at e
          · rename_i h1 fs1 hc
            simp only [Except.ok.injEq, Prod.mk.injEq] at e; rw [← e.1]
            exact (copySlots_ext _ ih _ _ _ _ hc).trans (Ext.append _ _)
          · cases e
        · split at e
          · rename_i h1 fs1 hc
            exact (copySlots_ext _ ih _ _ _ _ hc).trans (deepen_ext _ ih _ _ _ _ _ _ e)
          · cases e
        · split at e
          · rename_i h1 fs1 hc
            exact (copySlots_ext _ ih _ _ _ _ hc).trans (deepen_ext _ ih _ _ _ _ _ _ e)
          · cases e
        · cases e

end MenpoModel.C02
