/-
C05 helper lemmas on the list operations of Core/Vectorize.lean (`chunks` = numpy reshape of a
C-ordered vector, `maskFilter` = boolean-mask indexing, `scatter` = masked assignment into zeros).
Core Lean only.
-/
import MenpoModel.Core.Vectorize
namespace MenpoModel.C05

/-! ### list lemmas -/

theorem chunks_length {α} (k n : Nat) (l : List α) : (chunks k n l).length = n := by
  induction n generalizing l with
  | zero => rfl
  | succ n ih => simp [chunks, ih]

theorem flatten_chunks {α} (k n : Nat) (l : List α) (h : l.length = n * k) :
    (chunks k n l).flatten = l := by
  induction n generalizing l with
  | zero => simp at h; simp [chunks, h]
  | succ n ih =>
    have : (l.drop k).length = n * k := by simp [h, Nat.succ_mul]
    simp [chunks, ih _ this]

theorem chunks_row_length {α} (k n : Nat) (l : List α) (h : l.length = n * k) :
    ∀ r ∈ chunks k n l, r.length = k := by
  induction n generalizing l with
  | zero => simp [chunks]
  | succ n ih =>
    have h2 : (l.drop k).length = n * k := by simp [h, Nat.succ_mul]
    intro r hr
    simp only [chunks, List.mem_cons] at hr
    rcases hr with rfl | hr
    · simp [h, Nat.succ_mul]
    · exact ih _ h2 r hr

theorem chunks_flatten {α} (k : Nat) (rows : List (List α)) (h : ∀ r ∈ rows, r.length = k) :
    chunks k rows.length rows.flatten = rows := by
  induction rows with
  | nil => rfl
  | cons r rs ih =>
    have hr : r.length = k := h r (by simp)
    have hrs : ∀ r ∈ rs, r.length = k := fun x hx => h x (by simp [hx])
    subst hr
    simp [chunks, ih hrs]

theorem maskFilter_scatter {α} (z : α) (m : List Bool) (xs : List α) (h : xs.length = countTrue m) :
    maskFilter (scatter z m xs) m = xs := by
  induction m generalizing xs with
  | nil => cases xs <;> simp_all [countTrue, scatter, maskFilter]
  | cons b bs ih =>
    cases b
    · simp [countTrue] at h
      simp [scatter, maskFilter, ih xs h]
    · cases xs with
      | nil => simp [countTrue] at h; omega
      | cons x xs =>
        simp [countTrue] at h
        simp [scatter, maskFilter, ih xs (by omega)]

theorem scatter_length {α} (z : α) (m : List Bool) (xs : List α) : (scatter z m xs).length = m.length := by
  induction m generalizing xs with
  | nil => simp [scatter]
  | cons b bs ih =>
    cases b
    · simp [scatter, ih]
    · cases xs <;> simp [scatter, ih]

theorem scatter_false {α} (z : α) (m : List Bool) (xs : List α) (p : Nat) (h : m[p]? = some false) :
    (scatter z m xs)[p]? = some z := by
  induction m generalizing xs p with
  | nil => simp at h
  | cons b bs ih =>
    cases p with
    | zero =>
      simp only [List.getElem?_cons_zero, Option.some.injEq] at h
      subst h; simp [scatter]
    | succ p =>
      simp only [List.getElem?_cons_succ] at h
      cases b
      · simp [scatter, ih _ p h]
      · cases xs <;> simp [scatter, ih _ p h]

theorem maskFilter_length {α} (l : List α) (m : List Bool) (h : l.length = m.length) :
    (maskFilter l m).length = countTrue m := by
  induction l generalizing m with
  | nil => cases m <;> simp_all [maskFilter, countTrue]
  | cons x xs ih =>
    cases m with
    | nil => simp at h
    | cons b bs =>
      simp only [List.length_cons, Nat.add_right_cancel_iff] at h
      cases b <;> simp [maskFilter, countTrue, ih bs h] <;> omega

theorem maskFilter_allTrue {α} (l : List α) (m : List Bool) (h : l.length = m.length) (ht : allTrue m = true) :
    maskFilter l m = l := by
  induction l generalizing m with
  | nil => cases m <;> simp [maskFilter]
  | cons x xs ih =>
    cases m with
    | nil => simp at h
    | cons b bs =>
      simp only [List.length_cons, Nat.add_right_cancel_iff] at h
      simp only [allTrue, List.all_cons, Bool.and_eq_true, id] at ht
      obtain ⟨hb, hbs⟩ := ht
      subst hb
      simp [maskFilter, ih bs h (by simpa [allTrue] using hbs)]

theorem maskFilter_rank {α} (l : List α) (m : List Bool) (v : Nat)
    (hlen : l.length = m.length) (hv : m[v]? = some true) :
    (maskFilter l m)[rank m v]? = l[v]? := by
  induction l generalizing m v with
  | nil => cases m <;> simp_all
  | cons x xs ih =>
    cases m with
    | nil => simp at hlen
    | cons b bs =>
      simp only [List.length_cons, Nat.add_right_cancel_iff] at hlen
      cases v with
      | zero =>
        simp only [List.getElem?_cons_zero, Option.some.injEq] at hv
        subst hv
        simp [maskFilter, rank]
      | succ v =>
        simp only [List.getElem?_cons_succ] at hv
        cases b
        · simp [maskFilter, rank, ih bs v hlen hv]
        · simp [maskFilter, rank, Nat.add_comm 1, ih bs v hlen hv]

theorem rank_lt_countTrue (m : List Bool) (v : Nat) (hv : m[v]? = some true) : rank m v < countTrue m := by
  induction m generalizing v with
  | nil => simp at hv
  | cons b bs ih =>
    cases v with
    | zero =>
      simp only [List.getElem?_cons_zero, Option.some.injEq] at hv
      subst hv; simp [rank, countTrue]; omega
    | succ v =>
      simp only [List.getElem?_cons_succ] at hv
      have := ih v hv
      cases b <;> simp [rank, countTrue] <;> omega

/-- C-order indexing of a ravelled `(rows, k)` array -/
theorem flatten_getElem_uniform {α} (k : Nat) (rows : List (List α)) (h : ∀ r ∈ rows, r.length = k)
    (c j : Nat) (hj : j < k) :
    rows.flatten[c * k + j]? = (rows[c]?).bind (fun r => r[j]?) := by
  induction rows generalizing c with
  | nil => simp
  | cons r rs ih =>
    have hr : r.length = k := h r (by simp)
    have hrs : ∀ r ∈ rs, r.length = k := fun x hx => h x (by simp [hx])
    cases c with
    | zero => simp [List.getElem?_append_left (by omega : j < r.length)]
    | succ c =>
      have : (c + 1) * k + j = r.length + (c * k + j) := by rw [hr, Nat.succ_mul]; omega
      simp only [List.flatten_cons, this, List.getElem?_cons_succ]
      rw [List.getElem?_append_right (by omega)]
      simp [ih hrs c]
theorem flatten_length_uniform {α} (k : Nat) (rows : List (List α)) (h : ∀ r ∈ rows, r.length = k) :
    rows.flatten.length = rows.length * k := by
  induction rows with
  | nil => simp
  | cons r rs ih =>
    have hr : r.length = k := h r (by simp)
    have hrs : ∀ r ∈ rs, r.length = k := fun x hx => h x (by simp [hx])
    simp [ih hrs, hr, Nat.succ_mul]; omega

/-! ### `overlay`: `old[mask] = xs` (the in-place assignment of `MaskedImage._from_vector_inplace`) -/

theorem overlay_length {α} (m : List Bool) (old xs : List α) (h : old.length = m.length) :
    (overlay m old xs).length = m.length := by
  induction m generalizing old xs with
  | nil => cases old <;> simp_all [overlay]
  | cons b bs ih =>
    cases old with
    | nil => simp at h
    | cons o os =>
      simp only [List.length_cons, Nat.add_right_cancel_iff] at h
      cases b
      · simp [overlay, ih os xs h]
      · cases xs <;> simp [overlay, ih os _ h]

theorem maskFilter_overlay {α} (m : List Bool) (old xs : List α) (h : old.length = m.length)
    (hx : xs.length = countTrue m) : maskFilter (overlay m old xs) m = xs := by
  induction m generalizing old xs with
  | nil => cases xs <;> cases old <;> simp_all [countTrue, overlay, maskFilter]
  | cons b bs ih =>
    cases old with
    | nil => simp at h
    | cons o os =>
      simp only [List.length_cons, Nat.add_right_cancel_iff] at h
      cases b
      · simp [countTrue] at hx
        simp [overlay, maskFilter, ih os xs h hx]
      · cases xs with
        | nil => simp [countTrue] at hx; omega
        | cons x xs =>
          simp [countTrue] at hx
          simp [overlay, maskFilter, ih os xs h (by omega)]

/-- outside the mask the old value stays -/
theorem overlay_false {α} (m : List Bool) (old xs : List α) (p : Nat) (h : old.length = m.length)
    (hp : m[p]? = some false) : (overlay m old xs)[p]? = old[p]? := by
  induction m generalizing old xs p with
  | nil => simp at hp
  | cons b bs ih =>
    cases old with
    | nil => simp at h
    | cons o os =>
      simp only [List.length_cons, Nat.add_right_cancel_iff] at h
      cases p with
      | zero =>
        simp only [List.getElem?_cons_zero, Option.some.injEq] at hp
        subst hp; simp [overlay]
      | succ p =>
        simp only [List.getElem?_cons_succ] at hp
        cases b
        · simp [overlay, ih os xs p h hp]
        · cases xs <;> simp [overlay, ih os _ p h hp]

/-- under the mask the new value arrives, in raster order -/
theorem overlay_true {α} (m : List Bool) (old xs : List α) (p : Nat) (h : old.length = m.length)
    (hx : xs.length = countTrue m) (hp : m[p]? = some true) : (overlay m old xs)[p]? = xs[rank m p]? := by
  induction m generalizing old xs p with
  | nil => simp at hp
  | cons b bs ih =>
    cases old with
    | nil => simp at h
    | cons o os =>
      simp only [List.length_cons, Nat.add_right_cancel_iff] at h
      cases p with
      | zero =>
        simp only [List.getElem?_cons_zero, Option.some.injEq] at hp
        subst hp
        cases xs with
        | nil => simp [countTrue] at hx; omega
        | cons x xs => simp [overlay, rank]
      | succ p =>
        simp only [List.getElem?_cons_succ] at hp
        cases b
        · simp [countTrue] at hx
          simp [overlay, rank, ih os xs p h hx hp]
        · cases xs with
          | nil => simp [countTrue] at hx; omega
          | cons x xs =>
            simp [countTrue] at hx
            simp [overlay, rank, Nat.add_comm 1, ih os xs p h (by omega) hp]

theorem zipWith_length_eq {α β γ} (f : α → β → γ) (l : List α) (r : List β) (h : l.length = r.length) :
    (List.zipWith f l r).length = l.length := by
  simp [List.length_zipWith, h]

end MenpoModel.C05
