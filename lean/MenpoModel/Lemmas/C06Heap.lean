/-
Helper lemmas for C06: heap extension, closedness, frame lemmas for `Reach`, `Own`, `absF`, `absO`.
Core Lean only.
-/
import MenpoModel.Core.C06Heap

namespace MenpoModel.C06

/-! ### heap extension -/

theorem Ext.refl (h : Heap) : Ext h h := ⟨[], by simp⟩

theorem Ext.trans {h1 h2 h3 : Heap} (a : Ext h1 h2) (b : Ext h2 h3) : Ext h1 h3 := by
  obtain ⟨t, rfl⟩ := a
  obtain ⟨u, rfl⟩ := b
  exact ⟨t ++ u, by simp⟩

theorem Ext.append (h t : Heap) : Ext h (h ++ t) := ⟨t, rfl⟩

theorem Ext.len {h h' : Heap} (e : Ext h h') : h.length ≤ h'.length := by
  obtain ⟨t, rfl⟩ := e
  simp

theorem Ext.get {h h' : Heap} (e : Ext h h') {a : Nat} (ha : a < h.length) : h'[a]? = h[a]? := by
  obtain ⟨t, rfl⟩ := e
  exact List.getElem?_append_left ha

theorem get_lt {h : Heap} {a : Nat} {c : Cell} (e : h[a]? = some c) : a < h.length := by
  rcases Nat.lt_or_ge a h.length with hlt | hge
  · exact hlt
  · rw [List.getElem?_eq_none hge] at e
    cases e

theorem get_last (h : Heap) (c : Cell) : (h ++ [c])[h.length]? = some c := by
  simp

/-! ### validity, closedness -/

theorem Valid.imm (h : Heap) (t : Int) : Valid h (.imm t) := by
  intro b e
  cases e

theorem Valid.mono {h h' : Heap} {v : Val} (e : Ext h h') (hv : Valid h v) : Valid h' v := by
  intro b eb
  exact Nat.lt_of_lt_of_le (hv b eb) e.len

theorem Closed.slot_valid {h : Heap} (hc : Closed h) {a : Nat} {k fs} (e : h[a]? = some (.node k fs))
    {x : String} {v : Val} (m : (x, v) ∈ fs) : Valid h v := by
  intro b eb
  subst eb
  exact hc a k fs e x b m

/-- allocating a cell whose references are valid keeps the heap closed -/
theorem Closed.alloc {h : Heap} (hc : Closed h) (c : Cell)
    (hv : ∀ k fs, c = .node k fs → ∀ x v, (x, v) ∈ fs → Valid h v) : Closed (h ++ [c]) := by
  intro a k fs e x b m
  rcases Nat.lt_or_ge a h.length with hlt | hge
  · rw [List.getElem?_append_left hlt] at e
    have hb : b < h.length := hc a k fs e x b m
    simp
    omega
  · have hl := get_lt e
    simp at hl
    have : a = h.length := by omega
    subst this
    rw [get_last] at e
    cases e
    have hb : b < h.length := hv k fs rfl x (.ref b) m b rfl
    simp
    omega

/-! ### frame lemmas: a closed heap's view of its own values is unchanged by allocation -/

theorem reach_old {h h' : Heap} (hc : Closed h) (e : Ext h h') {v : Val} {b : Nat}
    (r : Reach h' v b) : Valid h v → b < h.length := by
  induction r with
  | here => intro hv; exact hv _ rfl
  | step hcell hm _ ih =>
    intro hv
    have ha := hv _ rfl
    rw [e.get ha] at hcell
    exact ih (hc.slot_valid hcell hm)

theorem own_restrict (res : String → CopyImpl) {h h' : Heap} (hc : Closed h) (e : Ext h h')
    {lim : Lim} {v : Val} {b : Nat} (r : Own res h' lim v b) : Valid h v → Own res h lim v b := by
  induction r with
  | hereFull => intro _; exact .hereFull
  | hereShallow => intro _; exact .hereShallow
  | step hcell hm _ ih =>
    intro hv
    have ha := hv _ rfl
    rw [e.get ha] at hcell
    exact .step hcell hm (ih (hc.slot_valid hcell hm))

theorem own_reach (res : String → CopyImpl) {h : Heap} {lim : Lim} {v : Val} {b : Nat}
    (r : Own res h lim v b) : Reach h v b := by
  induction r with
  | hereFull => exact .here
  | hereShallow => exact .here
  | step hcell hm _ ih => exact .step hcell hm ih

theorem absF_ext {h h' : Heap} (hc : Closed h) (e : Ext h h') :
    ∀ (m : Nat) (v : Val), Valid h v → absF m h' v = absF m h v := by
  intro m
  induction m with
  | zero => intro v _; cases v <;> simp [absF]
  | succ m ih =>
    intro v hv
    cases v with
    | imm t => simp [absF]
    | ref a =>
      have ha := hv _ rfl
      simp only [absF, e.get ha]
      cases hcell : h[a]? with
      | none => rfl
      | some c =>
        cases c with
        | buf d => rfl
        | node k fs =>
          simp only
          congr 1
          apply List.map_congr_left
          intro p hp
          rw [ih p.2 (hc.slot_valid hcell (x := p.1) (by simpa using hp))]

/-- the own-state of a value depends only on the cells it owns -/
theorem absO_frame (res : String → CopyImpl) (h h2 : Heap) :
    ∀ (m : Nat) (lim : Lim) (v : Val), (∀ b, Own res h lim v b → h2[b]? = h[b]?) →
      absO res m lim h2 v = absO res m lim h v := by
  intro m
  induction m with
  | zero =>
    intro lim v _
    cases v <;> cases lim <;> simp [absO]
  | succ m ih =>
    intro lim v hagree
    cases v with
    | imm t => cases lim <;> simp [absO]
    | ref a =>
      cases lim with
      | stop => simp [absO]
      | shallow =>
        simp only [absO, hagree a .hereShallow]
        cases hcell : h[a]? with
        | none => rfl
        | some c =>
          cases c with
          | buf d => rfl
          | node k fs =>
            simp only
            congr 1
            apply List.map_congr_left
            intro p _
            rw [ih .stop p.2 (by intro b r; cases r)]
      | full =>
        simp only [absO, hagree a .hereFull]
        cases hcell : h[a]? with
        | none => rfl
        | some c =>
          cases c with
          | buf d => rfl
          | node k fs =>
            simp only
            congr 1
            apply List.map_congr_left
            intro p hp
            rw [ih (childLim res k p.1) p.2
              (fun b r => hagree b (.step hcell (x := p.1) (by simpa using hp) r))]

/-- the full state of a value depends only on the cells reachable from it -/
theorem absF_frame (h h2 : Heap) :
    ∀ (m : Nat) (v : Val), (∀ b, Reach h v b → h2[b]? = h[b]?) → absF m h2 v = absF m h v := by
  intro m
  induction m with
  | zero => intro v _; cases v <;> simp [absF]
  | succ m ih =>
    intro v hagree
    cases v with
    | imm t => simp [absF]
    | ref a =>
      simp only [absF, hagree a .here]
      cases hcell : h[a]? with
      | none => rfl
      | some c =>
        cases c with
        | buf d => rfl
        | node k fs =>
          simp only
          congr 1
          apply List.map_congr_left
          intro p hp
          rw [ih p.2 (fun b r => hagree b (.step hcell (x := p.1) (by simpa using hp) r))]

/-! ### small list facts about slots -/

theorem setSlot_names (fs : Slots) (x : String) (v : Val) : slotNames (setSlot fs x v) = slotNames fs := by
  induction fs with
  | nil => rfl
  | cons p t ih =>
    obtain ⟨y, w⟩ := p
    simp only [setSlot]
    split
    · simp [slotNames]
    · simp only [slotNames, List.map_cons] at ih ⊢
      rw [ih]

theorem mem_names {fs : Slots} {x : String} {v : Val} (m : (x, v) ∈ fs) : x ∈ slotNames fs := by
  simp only [slotNames, List.mem_map]
  exact ⟨(x, v), m, rfl⟩

/-- with distinct names, the slots after `setSlot` are the new one and the untouched others -/
theorem mem_setSlot {fs : Slots} {x : String} {v : Val} {y : String} {w : Val}
    (m : (y, w) ∈ setSlot fs x v) : (y = x ∧ w = v) ∨ ((y, w) ∈ fs ∧ (y ≠ x ∨ ¬ (slotNames fs).Nodup)) := by
  induction fs with
  | nil => simp [setSlot] at m
  | cons p t ih =>
    obtain ⟨z, u⟩ := p
    simp only [setSlot] at m
    split at m
    · rename_i hz
      have hz' : z = x := by simpa using hz
      simp only [List.mem_cons, Prod.mk.injEq] at m
      rcases m with ⟨rfl, rfl⟩ | m
      · exact .inl ⟨hz', rfl⟩
      · by_cases hy : y = x
        · right
          refine ⟨List.mem_cons_of_mem _ m, .inr ?_⟩
          intro nd
          simp only [slotNames, List.map_cons, List.nodup_cons] at nd
          apply nd.1
          rw [hz', ← hy]
          exact mem_names m
        · exact .inr ⟨List.mem_cons_of_mem _ m, .inl hy⟩
    · rename_i hz
      simp only [List.mem_cons, Prod.mk.injEq] at m
      rcases m with ⟨rfl, rfl⟩ | m
      · right
        refine ⟨List.mem_cons_self, .inl ?_⟩
        intro e
        apply hz
        simp [e]
      · rcases ih m with l | ⟨r1, r2⟩
        · exact .inl l
        · right
          refine ⟨List.mem_cons_of_mem _ r1, ?_⟩
          rcases r2 with r2 | r2
          · exact .inl r2
          · right
            intro nd
            simp only [slotNames, List.map_cons, List.nodup_cons] at nd
            exact r2 nd.2

theorem lookup_mem {fs : Slots} {x : String} {v : Val} (e : fs.lookup x = some v) : (x, v) ∈ fs := by
  induction fs with
  | nil => simp [List.lookup] at e
  | cons p t ih =>
    obtain ⟨y, w⟩ := p
    simp only [List.lookup] at e
    split at e
    · rename_i hxy
      have : x = y := by simpa using hxy
      cases e
      subst this
      exact List.mem_cons_self
    · exact List.mem_cons_of_mem _ (ih e)

end MenpoModel.C06
