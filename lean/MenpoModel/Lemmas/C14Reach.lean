/-
C14 — correctness of the reference closure functions of the model (`reachFrom`, `Graph.component`,
`Graph.nComponents`, `Graph.refCycleD`) against a `Prop`-level reachability relation, for graphs of
every size.  Core Lean only.
-/
import MenpoModel.Lemmas.C14Basic

namespace MenpoModel.C14
open Graph

/-! ### reachability as a relation -/

/-- `Reach nb a b` : there is a walk `a = x₀, x₁, …, x_k = b` (`k ≥ 0`) with `x_{i+1} ∈ nb x_i` -/
inductive Reach (nb : Nat → List Nat) : Nat → Nat → Prop
  | refl (v : Nat) : Reach nb v v
  | tail {a b c : Nat} : Reach nb a b → c ∈ nb b → Reach nb a c

namespace Reach

variable {nb nb' : Nat → List Nat} {a b c : Nat}

theorem single (h : b ∈ nb a) : Reach nb a b := .tail (.refl a) h

theorem trans (h1 : Reach nb a b) (h2 : Reach nb b c) : Reach nb a c := by
  induction h2 with
  | refl => exact h1
  | tail _ hc ih => exact .tail ih hc

/-- prepend a step -/
theorem head (h : b ∈ nb a) (h2 : Reach nb b c) : Reach nb a c := trans (single h) h2

/-- the last step of a walk -/
theorem cases_tail (h : Reach nb a c) : a = c ∨ ∃ b, Reach nb a b ∧ c ∈ nb b := by
  cases h with
  | refl => exact .inl rfl
  | tail h1 h2 => exact .inr ⟨_, h1, h2⟩

/-- the first step of a walk -/
theorem cases_head (h : Reach nb a c) : a = c ∨ ∃ b, b ∈ nb a ∧ Reach nb b c := by
  induction h with
  | refl => exact .inl rfl
  | tail h1 h2 ih =>
    rcases ih with rfl | ⟨b, hb, hbc⟩
    · exact .inr ⟨_, h2, .refl _⟩
    · exact .inr ⟨b, hb, .tail hbc h2⟩

/-- induction from the head -/
theorem head_induction_on {P : Nat → Prop} (h : Reach nb a c) (hrefl : P c)
    (hstep : ∀ x y, y ∈ nb x → Reach nb y c → P y → P x) : P a := by
  induction h with
  | refl => exact hrefl
  | tail _ h2 ih => exact ih (hstep _ _ h2 (.refl _) hrefl) (fun x y hxy hy => hstep x y hxy (.tail hy h2))

theorem mono (h : ∀ x y, y ∈ nb x → y ∈ nb' x) (r : Reach nb a b) : Reach nb' a b := by
  induction r with
  | refl => exact .refl _
  | tail _ hc ih => exact .tail ih (h _ _ hc)

theorem congr (h : ∀ x y, y ∈ nb x ↔ y ∈ nb' x) : Reach nb a b ↔ Reach nb' a b :=
  ⟨mono fun x y => (h x y).1, mono fun x y => (h x y).2⟩

/-- a symmetric neighbour relation gives a symmetric reachability -/
theorem symm (hs : ∀ x y, y ∈ nb x → x ∈ nb y) (r : Reach nb a b) : Reach nb b a := by
  induction r with
  | refl => exact .refl _
  | tail _ hc ih => exact head (hs _ _ hc) ih

/-- symmetry when the relation is only symmetric on a set that is closed and contains the start -/
theorem symm_on (S : Nat → Prop) (hS : ∀ x y, S x → y ∈ nb x → S y)
    (hs : ∀ x y, S x → y ∈ nb x → x ∈ nb y) (ha : S a) (r : Reach nb a b) : S b ∧ Reach nb b a := by
  induction r with
  | refl => exact ⟨ha, .refl _⟩
  | tail _ hc ih => exact ⟨hS _ _ ih.1 hc, head (hs _ _ ih.1 hc) ih.2⟩

/-- every vertex of a walk but possibly the first is a neighbour of something -/
theorem bound {n : Nat} (hnb : ∀ u, ∀ y ∈ nb u, y < n) (r : Reach nb a b) (ha : a < n) : b < n := by
  cases r with
  | refl => exact ha
  | tail _ hc => exact hnb _ _ hc

/-- a set that contains the start and is closed under `nb` contains everything reachable -/
theorem closed {S : Nat → Prop} (hS : ∀ x y, S x → y ∈ nb x → S y) (ha : S a) (r : Reach nb a b) : S b := by
  induction r with
  | refl => exact ha
  | tail _ hc ih => exact hS _ _ ih hc

end Reach

/-! ### the iterated closure -/

/-- `closeStep` iterated `k` times -/
def iterClose (nb : Nat → List Nat) : Nat → List Nat → List Nat
  | 0, s => s
  | k+1, s => iterClose nb k (closeStep nb s)

theorem foldl_range'_closeStep (nb : Nat → List Nat) (k i : Nat) (s : List Nat) :
    (List.range' i k).foldl (fun s _ => closeStep nb s) s = iterClose nb k s := by
  induction k generalizing i s with
  | zero => rfl
  | succ k ih => rw [List.range'_succ, List.foldl_cons, ih]; rfl

theorem reachFrom_eq_iterClose (n : Nat) (nb : Nat → List Nat) (v : Nat) :
    reachFrom n nb v = iterClose nb n [v] := by
  rw [reachFrom, List.range_eq_range', foldl_range'_closeStep]

theorem mem_closeStep (nb : Nat → List Nat) (s : List Nat) (v : Nat) :
    v ∈ closeStep nb s ↔ v ∈ s ∨ ∃ u, u ∈ s ∧ v ∈ nb u := by
  simp only [closeStep, List.mem_eraseDups, List.mem_append, List.mem_flatMap]

/-- `s` is closed under `nb` -/
def ClosedL (nb : Nat → List Nat) (s : List Nat) : Prop := ∀ u, u ∈ s → ∀ y, y ∈ nb u → y ∈ s

theorem closedL_congr {nb : Nat → List Nat} {s t : List Nat} (h : ∀ v, v ∈ s ↔ v ∈ t)
    (hs : ClosedL nb s) : ClosedL nb t :=
  fun u hu y hy => (h y).1 (hs u ((h u).2 hu) y hy)

theorem mem_closeStep_of_closed {nb : Nat → List Nat} {s : List Nat} (hs : ClosedL nb s) (v : Nat) :
    v ∈ closeStep nb s ↔ v ∈ s := by
  rw [mem_closeStep]
  constructor
  · rintro (h | ⟨u, hu, hv⟩)
    · exact h
    · exact hs u hu v hv
  · exact .inl

theorem mem_iterClose_of_closed {nb : Nat → List Nat} (k : Nat) {s : List Nat} (hs : ClosedL nb s) (v : Nat) :
    v ∈ iterClose nb k s ↔ v ∈ s := by
  induction k generalizing s with
  | zero => rfl
  | succ k ih =>
    have hc : ClosedL nb (closeStep nb s) :=
      closedL_congr (fun v => (mem_closeStep_of_closed hs v).symm) hs
    rw [iterClose, ih hc, mem_closeStep_of_closed hs]

theorem subset_iterClose (nb : Nat → List Nat) (k : Nat) (s : List Nat) (v : Nat) (hv : v ∈ s) :
    v ∈ iterClose nb k s := by
  induction k generalizing s with
  | zero => exact hv
  | succ k ih => exact ih _ ((mem_closeStep nb s v).2 (.inl hv))

/-- soundness: the iterated closure only contains reachable vertices -/
theorem iterClose_sound (nb : Nat → List Nat) (a : Nat) (k : Nat) (s : List Nat)
    (hs : ∀ v, v ∈ s → Reach nb a v) (v : Nat) (hv : v ∈ iterClose nb k s) : Reach nb a v := by
  induction k generalizing s with
  | zero => exact hs v hv
  | succ k ih =>
    refine ih (closeStep nb s) ?_ hv
    intro x hx
    rcases (mem_closeStep nb s x).1 hx with h | ⟨u, hu, hxu⟩
    · exact hs x h
    · exact .tail (hs u hu) hxu

theorem iterClose_lt (nb : Nat → List Nat) (n : Nat) (hnb : ∀ u, ∀ y ∈ nb u, y < n) (k : Nat) (s : List Nat)
    (hs : ∀ v, v ∈ s → v < n) (v : Nat) (hv : v ∈ iterClose nb k s) : v < n := by
  induction k generalizing s with
  | zero => exact hs v hv
  | succ k ih =>
    refine ih (closeStep nb s) ?_ hv
    intro x hx
    rcases (mem_closeStep nb s x).1 hx with h | ⟨u, _, hxu⟩
    · exact hs x h
    · exact hnb u x hxu

/-! the counting argument: how many of `0 … n-1` a list contains -/

theorem length_filter_le_of_imp {α} (l : List α) (p q : α → Bool) (h : ∀ x, x ∈ l → p x = true → q x = true) :
    (l.filter p).length ≤ (l.filter q).length := by
  induction l with
  | nil => simp
  | cons a t ih =>
    have iht := ih (fun x hx => h x (List.mem_cons_of_mem _ hx))
    have ha := h a (List.mem_cons_self ..)
    simp only [List.filter_cons]
    cases hp : p a
    · cases hq : q a <;> simp <;> omega
    · simp [ha hp]; exact iht

theorem length_filter_lt_of_imp {α} (l : List α) (p q : α → Bool) (h : ∀ x, x ∈ l → p x = true → q x = true)
    (y : α) (hy : y ∈ l) (hpy : p y = false) (hqy : q y = true) :
    (l.filter p).length < (l.filter q).length := by
  induction l with
  | nil => simp at hy
  | cons a t ih =>
    have hle := length_filter_le_of_imp t p q (fun x hx => h x (List.mem_cons_of_mem _ hx))
    have ha := h a (List.mem_cons_self ..)
    simp only [List.filter_cons]
    rcases List.mem_cons.1 hy with rfl | hyt
    · simp [hpy, hqy]; omega
    · have iht := ih (fun x hx => h x (List.mem_cons_of_mem _ hx)) hyt
      cases hp : p a
      · cases hq : q a <;> simp <;> omega
      · simp [ha hp]; exact iht

/-- number of vertices `< n` in the list -/
def cntBelow (n : Nat) (s : List Nat) : Nat := ((List.range n).filter fun x => s.contains x).length

theorem cntBelow_le (n : Nat) (s : List Nat) : cntBelow n s ≤ n := by
  have := List.length_filter_le (fun x => s.contains x) (List.range n)
  simpa [cntBelow] using this

theorem cntBelow_mono (n : Nat) (s t : List Nat) (h : ∀ v, v ∈ s → v ∈ t) : cntBelow n s ≤ cntBelow n t := by
  apply length_filter_le_of_imp
  intro x _ hx
  simp only [List.contains_iff_mem] at hx ⊢
  exact h x hx

theorem cntBelow_lt (n : Nat) (s t : List Nat) (h : ∀ v, v ∈ s → v ∈ t) (y : Nat) (hy : y < n)
    (hys : y ∉ s) (hyt : y ∈ t) : cntBelow n s < cntBelow n t := by
  apply length_filter_lt_of_imp _ _ _ _ y (List.mem_range.2 hy)
  · simpa using hys
  · simpa using hyt
  · intro x _ hx
    simp only [List.contains_iff_mem] at hx ⊢
    exact h x hx

/-- after `k` rounds the list is closed or has gained at least `k` vertices -/
theorem iterClose_closed_or_grows (nb : Nat → List Nat) (n : Nat) (hnb : ∀ u, ∀ y ∈ nb u, y < n)
    (k : Nat) (s : List Nat) :
    ClosedL nb (iterClose nb k s) ∨ cntBelow n s + k ≤ cntBelow n (iterClose nb k s) := by
  induction k generalizing s with
  | zero => exact .inr (Nat.le_refl _)
  | succ k ih =>
    by_cases hc : ClosedL nb s
    · left
      exact closedL_congr (fun v => (mem_iterClose_of_closed (k + 1) hc v).symm) hc
    · have : ∃ u, u ∈ s ∧ ∃ y, y ∈ nb u ∧ y ∉ s := by
        apply Classical.byContradiction
        intro hne
        apply hc
        intro u hu y hy
        apply Classical.byContradiction
        intro hys
        exact hne ⟨u, hu, y, hy, hys⟩
      obtain ⟨u, hu, y, hy, hys⟩ := this
      have hgrow : cntBelow n s < cntBelow n (closeStep nb s) :=
        cntBelow_lt n s _ (fun v hv => (mem_closeStep nb s v).2 (.inl hv)) y (hnb u y hy) hys
          ((mem_closeStep nb s y).2 (.inr ⟨u, hu, hy⟩))
      rcases ih (closeStep nb s) with h | h
      · exact .inl h
      · right
        show cntBelow n s + (k + 1) ≤ cntBelow n (iterClose nb k (closeStep nb s))
        omega

/-- `n` rounds always reach the fixed point (`n - 1` would do: the start is already one vertex) -/
theorem iterClose_closed (nb : Nat → List Nat) (n : Nat) (hnb : ∀ u, ∀ y ∈ nb u, y < n) (s : Nat) (hs : s < n) :
    ClosedL nb (iterClose nb n [s]) := by
  rcases iterClose_closed_or_grows nb n hnb n [s] with h | h
  · exact h
  · exfalso
    have h1 : 0 < cntBelow n [s] := by
      have := cntBelow_lt n [] [s] (fun _ h => by simp at h) s hs (by simp) (by simp)
      omega
    have := cntBelow_le n (iterClose nb n [s])
    omega

/-- **`reachFrom` is exactly reachability** (all sizes) -/
theorem mem_reachFrom (n : Nat) (nb : Nat → List Nat) (hnb : ∀ u, ∀ y ∈ nb u, y < n) (s v : Nat) (hs : s < n) :
    v ∈ reachFrom n nb s ↔ Reach nb s v := by
  rw [reachFrom_eq_iterClose]
  constructor
  · intro h
    refine iterClose_sound nb s n [s] ?_ v h
    intro x hx
    rw [List.mem_singleton.1 hx]
    exact .refl _
  · intro h
    have hc := iterClose_closed nb n hnb s hs
    exact Reach.closed (S := fun x => x ∈ iterClose nb n [s]) (fun x y hx hy => hc x hx y hy)
      (subset_iterClose nb n [s] s (List.mem_singleton.2 rfl)) h

theorem reachFrom_lt (n : Nat) (nb : Nat → List Nat) (hnb : ∀ u, ∀ y ∈ nb u, y < n) (s v : Nat) (hs : s < n)
    (hv : v ∈ reachFrom n nb s) : v < n := by
  rw [reachFrom_eq_iterClose] at hv
  refine iterClose_lt nb n hnb n [s] ?_ v hv
  intro x hx
  rw [List.mem_singleton.1 hx]; exact hs

theorem self_mem_reachFrom (n : Nat) (nb : Nat → List Nat) (s : Nat) : s ∈ reachFrom n nb s := by
  rw [reachFrom_eq_iterClose]
  exact subset_iterClose nb n [s] s (List.mem_singleton.2 rfl)

/-! ### weak components -/

theorem mem_und (g : Graph) (u v : Nat) : v ∈ g.und u ↔ v < g.n ∧ (g.w u v ≠ 0 ∨ g.w v u ≠ 0) := by
  simp [Graph.und]

theorem und_lt (g : Graph) : ∀ u, ∀ y ∈ g.und u, y < g.n := fun u y h => ((mem_und g u y).1 h).1

theorem row_lt (g : Graph) : ∀ u, ∀ y ∈ g.row u, y < g.n := fun u y h => ((mem_row g u y).1 h).1

/-- `und` is symmetric (by definition) between vertices of the graph -/
theorem und_symm (g : Graph) (u v : Nat) (hu : u < g.n) (h : v ∈ g.und u) : u ∈ g.und v := by
  rw [mem_und] at h ⊢
  exact ⟨hu, h.2.symm⟩

theorem reach_und_lt (g : Graph) {u v : Nat} (hu : u < g.n) (h : Reach g.und u v) : v < g.n :=
  Reach.bound (und_lt g) h hu

/-- reachability in the underlying undirected graph is symmetric -/
theorem reach_und_symm (g : Graph) {u v : Nat} (hu : u < g.n) (h : Reach g.und u v) : Reach g.und v u :=
  (Reach.symm_on (fun x => x < g.n) (fun x y _ hy => und_lt g x y hy)
    (fun x y hx hy => und_symm g x y hx hy) hu h).2

theorem reach_und_comm (g : Graph) {u v : Nat} (hu : u < g.n) (hv : v < g.n) :
    Reach g.und u v ↔ Reach g.und v u :=
  ⟨reach_und_symm g hu, reach_und_symm g hv⟩

/-- **`component r` is exactly the set of vertices joined to `r`** -/
theorem mem_component (g : Graph) (r v : Nat) (hr : r < g.n) : v ∈ g.component r ↔ Reach g.und r v :=
  mem_reachFrom g.n g.und (und_lt g) r v hr

theorem component_lt (g : Graph) (r v : Nat) (hr : r < g.n) (hv : v ∈ g.component r) : v < g.n :=
  reachFrom_lt g.n g.und (und_lt g) r v hr hv

theorem self_mem_component (g : Graph) (r : Nat) : r ∈ g.component r := self_mem_reachFrom _ _ _

theorem mem_component_comm (g : Graph) (u v : Nat) (hu : u < g.n) (hv : v < g.n) :
    v ∈ g.component u ↔ u ∈ g.component v := by
  rw [mem_component g u v hu, mem_component g v u hv]
  exact reach_und_comm g hu hv

/-! ### the number of components -/

theorem compsGo_ge (n : Nat) (comp : Nat → List Nat) (f : Nat) (l : List Nat) (cnt : Nat) :
    cnt ≤ compsGo n comp f l cnt := by
  induction f generalizing l cnt with
  | zero => simp [compsGo]
  | succ f ih =>
    cases l with
    | nil => simp [compsGo]
    | cons v rest =>
      simp only [compsGo]
      exact Nat.le_trans (Nat.le_succ _) (ih _ _)

theorem compsGo_nil (n : Nat) (comp : Nat → List Nat) (f : Nat) (cnt : Nat) : compsGo n comp f [] cnt = cnt := by
  cases f <;> rfl

theorem compsGo_cons_gt (n : Nat) (comp : Nat → List Nat) (f : Nat) (v : Nat) (rest : List Nat) (cnt : Nat) :
    cnt < compsGo n comp (f + 1) (v :: rest) cnt := by
  simp only [compsGo]
  exact Nat.lt_of_lt_of_le (Nat.lt_succ_self _) (compsGo_ge ..)

/-- the counter is only an offset -/
theorem compsGo_add (n : Nat) (comp : Nat → List Nat) (f : Nat) (l : List Nat) (cnt : Nat) :
    compsGo n comp f l cnt = cnt + compsGo n comp f l 0 := by
  induction f generalizing l cnt with
  | zero => simp [compsGo]
  | succ f ih =>
    cases l with
    | nil => simp [compsGo]
    | cons v rest =>
      simp only [compsGo]
      rw [ih _ (cnt + 1), ih _ (0 + 1)]
      omega

theorem nComponents_pos (g : Graph) (hn : 0 < g.n) : 0 < g.nComponents := by
  obtain ⟨k, hk⟩ : ∃ k, g.n = k + 1 := ⟨g.n - 1, by omega⟩
  unfold Graph.nComponents
  rw [hk, List.range_succ_eq_map]
  exact compsGo_cons_gt ..

/-- one component is counted exactly when peeling the component of vertex `0` leaves nothing -/
theorem nComponents_eq_one_iff_filter (g : Graph) (hn : 0 < g.n) :
    g.nComponents = 1 ↔ ∀ x, x < g.n → x ∈ g.component 0 := by
  obtain ⟨k, hk⟩ : ∃ k, g.n = k + 1 := ⟨g.n - 1, by omega⟩
  have hunf : g.nComponents = compsGo g.n g.component k
      (((List.range k).map Nat.succ).filter fun x => !(g.component 0).contains x) 1 := by
    unfold Graph.nComponents
    rw [hk, List.range_succ_eq_map]
    rfl
  rw [hunf]
  constructor
  · intro h x hx
    cases x with
    | zero => exact self_mem_component g 0
    | succ x =>
      apply Classical.byContradiction
      intro hnot
      have hmem : (x + 1) ∈ ((List.range k).map Nat.succ).filter fun x => !(g.component 0).contains x := by
        simp only [List.mem_filter, List.mem_map, List.mem_range, Bool.not_eq_eq_eq_not, Bool.not_true,
          List.contains_eq_mem, decide_eq_false_iff_not]
        exact ⟨⟨x, by omega, rfl⟩, hnot⟩
      cases hl : ((List.range k).map Nat.succ).filter fun x => !(g.component 0).contains x with
      | nil => rw [hl] at hmem; simp at hmem
      | cons a t =>
        rw [hl] at h
        cases k with
        | zero => omega
        | succ k =>
          have := compsGo_cons_gt g.n g.component k a t 1
          omega
  · intro h
    have : (((List.range k).map Nat.succ).filter fun x => !(g.component 0).contains x) = [] := by
      rw [List.filter_eq_nil_iff]
      intro x hx
      simp only [List.mem_map, List.mem_range] at hx
      obtain ⟨y, hy, rfl⟩ := hx
      simp [h (y + 1) (by omega)]
    rw [this, compsGo_nil]

/-- **`nComponents = 1` means connected** (every two vertices are joined in the underlying undirected graph) -/
theorem nComponents_eq_one_iff (g : Graph) (hn : 0 < g.n) :
    g.nComponents = 1 ↔ ∀ u v, u < g.n → v < g.n → Reach g.und u v := by
  rw [nComponents_eq_one_iff_filter g hn]
  constructor
  · intro h u v hu hv
    have h0u := (mem_component g 0 u hn).1 (h u hu)
    have h0v := (mem_component g 0 v hn).1 (h v hv)
    exact (reach_und_symm g hn h0u).trans h0v
  · intro h x hx
    exact (mem_component g 0 x hn).2 (h 0 x hn hx)

/-- more than one component is counted exactly when two vertices are not joined -/
theorem nComponents_gt_one_iff (g : Graph) (hn : 0 < g.n) :
    g.nComponents > 1 ↔ ∃ u v, u < g.n ∧ v < g.n ∧ ¬ Reach g.und u v := by
  have hpos := nComponents_pos g hn
  have hiff := nComponents_eq_one_iff g hn
  constructor
  · intro h
    apply Classical.byContradiction
    intro hne
    have : g.nComponents = 1 := hiff.2 (fun u v hu hv => Classical.byContradiction fun hr => hne ⟨u, v, hu, hv, hr⟩)
    omega
  · rintro ⟨u, v, hu, hv, hr⟩
    have : g.nComponents ≠ 1 := fun h1 => hr (hiff.1 h1 u v hu hv)
    omega

theorem nComponents_zero (g : Graph) (hn : g.n = 0) : g.nComponents = 0 := by
  unfold Graph.nComponents; rw [hn]; rfl

/-! the general count: one component per vertex that is the smallest of its component -/

/-- `v` is the smallest vertex of its weak component -/
def Graph.isCompMin (g : Graph) (v : Nat) : Bool := (List.range v).all fun u => !(g.component v).contains u

theorem isCompMin_iff (g : Graph) (v : Nat) (hv : v < g.n) :
    g.isCompMin v = true ↔ ∀ u, u < v → ¬ Reach g.und v u := by
  simp only [Graph.isCompMin, List.all_eq_true, List.mem_range, Bool.not_eq_eq_eq_not, Bool.not_true,
    List.contains_eq_mem, decide_eq_false_iff_not, mem_component g v _ hv]

theorem compsGo_count (g : Graph) (f : Nat) (l : List Nat) (hf : l.length ≤ f)
    (hsorted : l.Pairwise (· < ·)) (hlt : ∀ x, x ∈ l → x < g.n)
    (hsat : ∀ x, x ∈ l → ∀ y, Reach g.und x y → y ∈ l) :
    compsGo g.n g.component f l 0 = (l.filter g.isCompMin).length := by
  induction f generalizing l with
  | zero =>
    have : l = [] := List.eq_nil_of_length_eq_zero (by omega)
    subst this; rfl
  | succ f ih =>
    cases l with
    | nil => rfl
    | cons v rest =>
      have hv : v < g.n := hlt v (List.mem_cons_self ..)
      rw [List.pairwise_cons] at hsorted
      simp only [compsGo]
      rw [compsGo_add]
      have hsub : (rest.filter fun x => !(g.component v).contains x).Sublist rest := List.filter_sublist
      have hmemf : ∀ x, x ∈ (rest.filter fun x => !(g.component v).contains x) ↔
          x ∈ rest ∧ ¬ Reach g.und v x := by
        intro x
        simp only [List.mem_filter, Bool.not_eq_eq_eq_not, Bool.not_true, List.contains_eq_mem,
          decide_eq_false_iff_not, mem_component g v _ hv]
      rw [ih (rest.filter fun x => !(g.component v).contains x)]
      · -- the head is a minimum, the peeled vertices are not
        have hmin : g.isCompMin v = true := by
          rw [isCompMin_iff g v hv]
          intro u hu hr
          have hul := hsat v (List.mem_cons_self ..) u hr
          rcases List.mem_cons.1 hul with rfl | hur
          · omega
          · have := hsorted.1 u hur; omega
        rw [List.filter_cons, if_pos hmin, List.length_cons, List.filter_filter, Nat.add_comm]
        congr 2
        apply List.filter_congr
        intro x hx
        have hxl : x < g.n := hlt x (List.mem_cons_of_mem _ hx)
        cases hm : g.isCompMin x
        · simp
        · have := (isCompMin_iff g x hxl).1 hm v (hsorted.1 x hx)
          have hnr : ¬ Reach g.und v x := fun h => this (reach_und_symm g hv h)
          simp [mem_component g v _ hv, hnr]
      · have := hsub.length_le
        simp only [List.length_cons] at hf
        omega
      · exact hsorted.2.sublist hsub
      · intro x hx
        exact hlt x (List.mem_cons_of_mem _ ((hmemf x).1 hx).1)
      · intro x hx y hxy
        obtain ⟨hxr, hnvx⟩ := (hmemf x).1 hx
        have hnvy : ¬ Reach g.und v y := by
          intro hvy
          have hxl : x < g.n := hlt x (List.mem_cons_of_mem _ hxr)
          exact hnvx (hvy.trans (reach_und_symm g hxl hxy))
        rw [hmemf]
        refine ⟨?_, hnvy⟩
        rcases List.mem_cons.1 (hsat x (List.mem_cons_of_mem _ hxr) y hxy) with rfl | h
        · exact absurd (Reach.refl _) hnvy
        · exact h

/-- **`nComponents` counts the weak components** : one per vertex that is the smallest of its component -/
theorem nComponents_eq_count (g : Graph) :
    g.nComponents = ((List.range g.n).filter g.isCompMin).length := by
  unfold Graph.nComponents
  apply compsGo_count g g.n (List.range g.n) (by simp)
  · exact List.pairwise_lt_range
  · intro x hx; exact List.mem_range.1 hx
  · intro x hx y hxy
    exact List.mem_range.2 (reach_und_lt g (List.mem_range.1 hx) hxy)

/-! ### directed closed walks -/

/-- **the directed reference detector** : some vertex lies on a closed walk of length `≥ 1` -/
theorem refCycleD_iff (g : Graph) :
    g.refCycleD = true ↔ ∃ v c, v < g.n ∧ c ∈ g.row v ∧ Reach g.row c v := by
  simp only [Graph.refCycleD, List.any_eq_true, List.mem_range, List.contains_iff_mem]
  constructor
  · rintro ⟨v, hv, c, hc, h⟩
    exact ⟨v, c, hv, hc, (mem_reachFrom g.n g.row (row_lt g) c v (row_lt g v c hc)).1 h⟩
  · rintro ⟨v, c, hv, hc, h⟩
    exact ⟨v, hv, c, hc, (mem_reachFrom g.n g.row (row_lt g) c v (row_lt g v c hc)).2 h⟩

end MenpoModel.C14
