/-
C14 — kernel-decided table, chunk U7 (generated once by hand-run script; see Lemmas/C14Small.lean).
-/
import MenpoModel.Lemmas.C14Small

namespace MenpoModel.C14

theorem smallU_5_7 : ∀ c : Fin 128, smallOkU 5 (c.val + 128 * 7) = true := by decide +kernel

end MenpoModel.C14
