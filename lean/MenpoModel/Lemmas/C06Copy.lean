/-
C06: what `copyCall` guarantees on every closed heap (no table hypothesis):
the heap is only extended, stays closed, the result is a new cell, and the copy unfolds to the
same tree as the original (`copy_basic`).  Core Lean only.
-/
import MenpoModel.Lemmas.C06Heap

namespace MenpoModel.C06

/-- the situation of a (nested) copy call: sources live in the closed heap `h0`, the current
heap `h` is a closed extension of it -/
structure Ctx (h0 h : Heap) : Prop where
  c0 : Closed h0
  ext : Ext h0 h
  ch : Closed h

theorem Ctx.refl {h : Heap} (hc : Closed h) : Ctx h h := ⟨hc, Ext.refl h, hc⟩

theorem Ctx.get {h0 h : Heap} (c : Ctx h0 h) {v : Val} (hv : Valid h0 v) {a : Nat} (e : v = .ref a) :
    h[a]? = h0[a]? := c.ext.get (hv a e)

structure Basic (h0 h : Heap) (v : Val) (h' : Heap) (v' : Val) : Prop where
  ext : Ext h h'
  closed : Closed h'
  root : ∃ a', v' = .ref a' ∧ h.length ≤ a' ∧ a' < h'.length
  same : ∀ m, absF m h' v' = absF m h0 v

theorem Basic.ctx {h0 h h' : Heap} {v v' : Val} (c : Ctx h0 h) (b : Basic h0 h v h' v') : Ctx h0 h' :=
  ⟨c.c0, c.ext.trans b.ext, b.closed⟩

theorem Basic.valid {h0 h h' : Heap} {v v' : Val} (b : Basic h0 h v h' v') : Valid h' v' := by
  obtain ⟨a', rfl, _, hlt⟩ := b.root
  intro b e
  cases e
  exact hlt

/-! ### the trace of the attribute loop -/

inductive SlotsRel (rec : Heap → Val → Except Err (Heap × Val)) : Heap → Slots → Heap → Slots → Prop where
  | nil (h : Heap) : SlotsRel rec h [] h []
  | copied {h x v h1 v1 t h2 t2} : rec h v = .ok (h1, v1) → SlotsRel rec h1 t h2 t2 →
      SlotsRel rec h ((x, v) :: t) h2 ((x, v1) :: t2)
  | shared {h x v t h2 t2} : rec h v = .error .attr → SlotsRel rec h t h2 t2 →
      SlotsRel rec h ((x, v) :: t) h2 ((x, v) :: t2)

theorem copySlots_rel {rec : Heap → Val → Except Err (Heap × Val)} :
    ∀ (fs : Slots) (h h1 : Heap) (fs1 : Slots), copySlots rec h fs = .ok (h1, fs1) → SlotsRel rec h fs h1 fs1 := by
  intro fs
  induction fs with
  | nil =>
    intro h h1 fs1 e
    simp only [copySlots, Except.ok.injEq, Prod.mk.injEq] at e
    obtain ⟨rfl, rfl⟩ := e
    exact .nil h
  | cons p t ih =>
    obtain ⟨x, v⟩ := p
    intro h h1 fs1 e
    simp only [copySlots] at e
    split at e
    · rename_i hA vA hr
      split at e
      · rename_i h2 t2 ht
        simp only [Except.ok.injEq, Prod.mk.injEq] at e
        obtain ⟨rfl, rfl⟩ := e
        exact .copied hr (ih _ _ _ ht)
      · cases e
    · rename_i hr
      split at e
      · rename_i h2 t2 ht
        simp only [Except.ok.injEq, Prod.mk.injEq] at e
        obtain ⟨rfl, rfl⟩ := e
        exact .shared hr (ih _ _ _ ht)
      · cases e
    · cases e

theorem copyValues_rel {rec : Heap → Val → Except Err (Heap × Val)} :
    ∀ (fs : Slots) (h h1 : Heap) (fs1 : Slots), copyValues rec h fs = .ok (h1, fs1) → SlotsRel rec h fs h1 fs1 := by
  intro fs
  induction fs with
  | nil =>
    intro h h1 fs1 e
    simp only [copyValues, Except.ok.injEq, Prod.mk.injEq] at e
    obtain ⟨rfl, rfl⟩ := e
    exact .nil h
  | cons p t ih =>
    obtain ⟨x, v⟩ := p
    intro h h1 fs1 e
    simp only [copyValues] at e
    split at e
    · rename_i hA vA hr
      split at e
      · rename_i h2 t2 ht
        simp only [Except.ok.injEq, Prod.mk.injEq] at e
        obtain ⟨rfl, rfl⟩ := e
        exact .copied hr (ih _ _ _ ht)
      · cases e
    · cases e

/-- the attribute loop never raises AttributeError itself (it catches it) -/
theorem copySlots_err {rec : Heap → Val → Except Err (Heap × Val)} :
    ∀ (fs : Slots) (h : Heap) (e : Err), copySlots rec h fs = .error e → e ≠ .attr := by
  intro fs
  induction fs with
  | nil => intro h e he; simp [copySlots] at he
  | cons p t ih =>
    obtain ⟨x, v⟩ := p
    intro h e he
    simp only [copySlots] at he
    split at he
    · split at he
      · cases he
      · rename_i e' ht
        cases he
        exact ih _ _ ht
    · split at he
      · cases he
      · rename_i e' ht
        cases he
        exact ih _ _ ht
    · cases he
      assumption

structure SlotsBasic (h0 h : Heap) (fs : Slots) (h1 : Heap) (fs1 : Slots) : Prop where
  ext : Ext h h1
  closed : Closed h1
  names : slotNames fs1 = slotNames fs
  valid : ∀ x v, (x, v) ∈ fs1 → Valid h1 v
  same : ∀ m, fs1.map (fun p => (p.1, absF m h1 p.2)) = fs.map (fun p => (p.1, absF m h0 p.2))

theorem slots_basic {rec : Heap → Val → Except Err (Heap × Val)} {h0 : Heap}
    (Hrec : ∀ hs v he v1, Ctx h0 hs → Valid h0 v → rec hs v = .ok (he, v1) → Basic h0 hs v he v1)
    {h : Heap} {fs : Slots} {h1 : Heap} {fs1 : Slots} (r : SlotsRel rec h fs h1 fs1) :
    Ctx h0 h → (∀ x v, (x, v) ∈ fs → Valid h0 v) → SlotsBasic h0 h fs h1 fs1 := by
  induction r with
  | nil h =>
    intro c _
    exact ⟨Ext.refl h, c.ch, rfl, (by intro x v m; cases m), (by intro m; rfl)⟩
  | @copied h x v hA vA t h2 t2 hr _ ih =>
    intro c hv
    have bA := Hrec h v hA vA c (hv x v List.mem_cons_self) hr
    have sb := ih (bA.ctx c) (fun y w m => hv y w (List.mem_cons_of_mem _ m))
    refine ⟨bA.ext.trans sb.ext, sb.closed, ?_, ?_, ?_⟩
    · have hn := sb.names
      simp only [slotNames] at hn ⊢
      simp [hn]
    · intro y w m
      simp only [List.mem_cons, Prod.mk.injEq] at m
      rcases m with ⟨rfl, rfl⟩ | m
      · exact bA.valid.mono sb.ext
      · exact sb.valid y w m
    · intro m
      simp only [List.map_cons]
      rw [sb.same m, absF_ext bA.closed sb.ext m vA bA.valid, bA.same m]
  | @shared h x v t h2 t2 hr _ ih =>
    intro c hv
    have sb := ih c (fun y w m => hv y w (List.mem_cons_of_mem _ m))
    have hvx := hv x v List.mem_cons_self
    refine ⟨sb.ext, sb.closed, ?_, ?_, ?_⟩
    · have hn := sb.names
      simp only [slotNames] at hn ⊢
      simp [hn]
    · intro y w m
      simp only [List.mem_cons, Prod.mk.injEq] at m
      rcases m with ⟨rfl, rfl⟩ | m
      · exact hvx.mono (c.ext.trans sb.ext)
      · exact sb.valid y w m
    · intro m
      simp only [List.map_cons]
      rw [sb.same m, absF_ext c.c0 (c.ext.trans sb.ext) m v hvx]

/-- allocating a node whose slots unfold like those of the source node copies the source -/
theorem basic_alloc_node {h0 h hN : Heap} (_c : Ctx h0 h) (eN : Ext h hN) (cN : Closed hN)
    {a : Nat} {k : NodeKind} {fs fsN : Slots} (hcell : h0[a]? = some (.node k fs))
    (hval : ∀ x v, (x, v) ∈ fsN → Valid hN v)
    (hsame : ∀ m, fsN.map (fun p => (p.1, absF m hN p.2)) = fs.map (fun p => (p.1, absF m h0 p.2))) :
    Basic h0 h (.ref a) (hN ++ [.node k fsN]) (.ref hN.length) := by
  have eN' : Ext hN (hN ++ [Cell.node k fsN]) := Ext.append _ _
  refine ⟨eN.trans eN', ?_, ⟨hN.length, rfl, eN.len, by simp⟩, ?_⟩
  · apply Closed.alloc cN
    intro k' fs' e x v m
    cases e
    exact hval x v m
  · intro m
    cases m with
    | zero => simp [absF]
    | succ m =>
      simp only [absF, get_last, hcell]
      congr 1
      rw [← hsame m]
      apply List.map_congr_left
      intro p hp
      rw [absF_ext cN eN' m p.2 (hval p.1 p.2 (by simpa using hp))]

/-- replacing the first slot named `x` -/
theorem map_setSlot {F1 FN G : Val → Tree} :
    ∀ (fs1 fs : Slots) (x : String) (w vx : Val),
      fs1.map (fun p => (p.1, F1 p.2)) = fs.map (fun p => (p.1, G p.2)) →
      fs.lookup x = some vx → (∀ y u, (y, u) ∈ fs1 → FN u = F1 u) → FN w = G vx →
      (setSlot fs1 x w).map (fun p => (p.1, FN p.2)) = fs.map (fun p => (p.1, G p.2)) := by
  intro fs1
  induction fs1 with
  | nil =>
    intro fs x w vx hmap hl _ _
    cases fs with
    | nil => simp [List.lookup] at hl
    | cons q t => simp at hmap
  | cons p t1 ih =>
    obtain ⟨y, u⟩ := p
    intro fs x w vx hmap hl hF hw
    cases fs with
    | nil => simp at hmap
    | cons q t =>
      obtain ⟨z, s⟩ := q
      simp only [List.map_cons, List.cons.injEq, Prod.mk.injEq] at hmap
      obtain ⟨⟨hyz, hus⟩, htl⟩ := hmap
      subst hyz
      simp only [List.lookup] at hl
      simp only [setSlot]
      split at hl
      · rename_i hxy
        cases hl
        have hyx : (y == x) = true := by
          have : x = y := by simpa using hxy
          simp [this]
        simp only [hyx, if_true, List.map_cons, List.cons.injEq, Prod.mk.injEq, true_and]
        refine ⟨hw, ?_⟩
        rw [← htl]
        apply List.map_congr_left
        intro p hp
        rw [hF p.1 p.2 (List.mem_cons_of_mem _ (by simpa using hp))]
      · rename_i hxy
        have hyx : (y == x) = false := by
          have : ¬ x = y := by simpa using hxy
          simp only [beq_eq_false_iff_ne, ne_eq]
          exact fun e => this e.symm
        simp only [hyx, List.map_cons, Bool.false_eq_true, if_false, List.cons.injEq, Prod.mk.injEq, true_and]
        refine ⟨by rw [hF y u List.mem_cons_self, hus], ?_⟩
        exact ih t x w vx htl hl (fun y' u' m => hF y' u' (List.mem_cons_of_mem _ m)) hw

theorem valid_setSlot {hN : Heap} {fs1 : Slots} {x : String} {w : Val}
    (hv : ∀ y u, (y, u) ∈ fs1 → Valid hN u) (hw : Valid hN w) :
    ∀ y u, (y, u) ∈ setSlot fs1 x w → Valid hN u := by
  intro y u m
  rcases mem_setSlot m with ⟨_, rfl⟩ | ⟨m', _⟩
  · exact hw
  · exact hv y u m'

/-- which source slot a slot of the result came from, and how -/
theorem slots_lookup {rec : Heap → Val → Except Err (Heap × Val)} {h0 : Heap}
    (Hrec : ∀ hs v he v1, Ctx h0 hs → Valid h0 v → rec hs v = .ok (he, v1) → Basic h0 hs v he v1)
    {h : Heap} {fs : Slots} {h1 : Heap} {fs1 : Slots} (r : SlotsRel rec h fs h1 fs1) :
    Ctx h0 h → (∀ x v, (x, v) ∈ fs → Valid h0 v) → ∀ x w, fs1.lookup x = some w →
      ∃ v, fs.lookup x = some v ∧ Valid h0 v ∧
        ((w = v ∧ ∃ hs, Ctx h0 hs ∧ rec hs v = .error .attr) ∨
         (∃ hs he, Ctx h0 hs ∧ rec hs v = .ok (he, w) ∧ Ext he h1)) := by
  induction r with
  | nil h => intro _ _ x w e; simp [List.lookup] at e
  | @copied h x0 v0 hA vA t h2 t2 hr rt ih =>
    intro c hv x w e
    have bA := Hrec h v0 hA vA c (hv x0 v0 List.mem_cons_self) hr
    have hvt : ∀ y u, (y, u) ∈ t → Valid h0 u := fun y u m => hv y u (List.mem_cons_of_mem _ m)
    simp only [List.lookup] at e ⊢
    split at e
    · cases e
      exact ⟨v0, rfl, hv x0 v0 List.mem_cons_self, .inr ⟨h, hA, c, hr, (slots_basic Hrec rt (bA.ctx c) hvt).ext⟩⟩
    · exact ih (bA.ctx c) hvt x w e
  | @shared h x0 v0 t h2 t2 hr rt ih =>
    intro c hv x w e
    have hvt : ∀ y u, (y, u) ∈ t → Valid h0 u := fun y u m => hv y u (List.mem_cons_of_mem _ m)
    simp only [List.lookup] at e ⊢
    split at e
    · cases e
      exact ⟨v0, rfl, hv x0 v0 List.mem_cons_self, .inl ⟨rfl, h, c, hr⟩⟩
    · exact ih c hvt x w e

/-- `copy()` of a dict / list cell -/
theorem copyCall_container (res : String → CopyImpl) {n : Nat} {h : Heap} {a : Nat} {k : NodeKind} {fs : Slots}
    (hk : k = .dict ∨ k = .list) (hcell : h[a]? = some (.node k fs)) :
    copyCall res (n + 1) h (.ref a) = .ok (h ++ [.node k fs], .ref h.length) := by
  rcases hk with rfl | rfl <;> simp [copyCall, hcell]

theorem copyCall_zero (res : String → CopyImpl) (h : Heap) (v : Val) : copyCall res 0 h v = .error .fuel := by
  simp [copyCall]

/-- the dict that the deepening loop reads back from the new object is the shallow copy of the
dict the source object holds in the same slot (same entries) -/
theorem deepen_src (res : String → CopyImpl) {h0 : Heap} {n : Nat}
    (ih : ∀ h v h' v', Ctx h0 h → Valid h0 v → copyCall res n h v = .ok (h', v') → Basic h0 h v h' v')
    {h : Heap} {fs : Slots} {h1 : Heap} {fs1 : Slots} (c : Ctx h0 h) (hvfs : ∀ x v, (x, v) ∈ fs → Valid h0 v)
    (r : SlotsRel (copyCall res n) h fs h1 fs1) {x : String} {d' : Nat} {gs' : Slots}
    (hl : fs1.lookup x = some (.ref d')) (hd' : h1[d']? = some (.node .dict gs')) :
    ∃ d, fs.lookup x = some (.ref d) ∧ h0[d]? = some (.node .dict gs') := by
  have sb := slots_basic ih r c hvfs
  have c1 : Ctx h0 h1 := ⟨c.c0, c.ext.trans sb.ext, sb.closed⟩
  obtain ⟨vx, hlx, hvx, hcase⟩ := slots_lookup ih r c hvfs x (.ref d') hl
  rcases hcase with ⟨hw, hs, chs, hfail⟩ | ⟨hs, he, chs, hok, ehe⟩
  · -- shared: `copy()` of a dict never raises AttributeError
    subst hw
    have hd0 : h0[d']? = some (.node .dict gs') := by
      rw [← c1.ext.get (hvx d' rfl)]; exact hd'
    have hds : hs[d']? = some (.node .dict gs') := by
      rw [chs.ext.get (hvx d' rfl)]; exact hd0
    cases n with
    | zero => simp [copyCall] at hfail
    | succ n => rw [copyCall_container res (.inl rfl) hds] at hfail; cases hfail
  · have bx := ih hs vx he (.ref d') chs hvx hok
    cases vx with
    | imm t =>
      cases n with
      | zero => simp [copyCall] at hok
      | succ n => simp [copyCall] at hok
    | ref d =>
      refine ⟨d, hlx, ?_⟩
      have hdlt := hvx d rfl
      cases n with
      | zero => simp [copyCall] at hok
      | succ n =>
        -- compare the one-level unfoldings
        have h1' := bx.same 1
        have hd'e : he[d']? = some (.node .dict gs') := by
          rw [← ehe.get (bx.valid d' rfl)]; exact hd'
        simp only [absF, hd'e] at h1'
        cases hcd : h0[d]? with
        | none => simp [hcd] at h1'
        | some cd =>
          cases cd with
          | buf dd => simp [hcd] at h1'
          | node k gs =>
            simp only [hcd, Tree.node.injEq] at h1'
            obtain ⟨hk, _⟩ := h1'
            subst hk
            have hds : hs[d]? = some (.node .dict gs) := by
              rw [chs.ext.get hdlt]; exact hcd
            rw [copyCall_container res (.inl rfl) hds] at hok
            simp only [Except.ok.injEq, Prod.mk.injEq, Val.ref.injEq] at hok
            obtain ⟨rfl, rfl⟩ := hok
            rw [get_last] at hd'e
            cases hd'e
            rfl

/-- the phase of `LandmarkManager.copy` / `LabelledPointUndirectedGraph.copy` after the generic one:
the dict read back from the new object is the shallow copy of the source's dict, its values are
copied one by one, and the re-initialised dict is what the new object ends up holding -/
theorem deepen_inv (res : String → CopyImpl) {h0 : Heap} {n : Nat}
    (ih : ∀ h v h' v', Ctx h0 h → Valid h0 v → copyCall res n h v = .ok (h', v') → Basic h0 h v h' v')
    {h : Heap} {fs : Slots} {h1 : Heap} {fs1 : Slots} (c : Ctx h0 h) (hvfs : ∀ x v, (x, v) ∈ fs → Valid h0 v)
    (r : SlotsRel (copyCall res n) h fs h1 fs1) {x : String} {h2 : Heap} {d2 : Val}
    (e : deepenValues (copyCall res n) x h1 fs1 = .ok (h2, d2)) :
    ∃ d gs hv gs2, fs.lookup x = some (.ref d) ∧ h0[d]? = some (.node .dict gs) ∧
      SlotsRel (copyCall res n) h1 gs hv gs2 ∧ h2 = hv ++ [.node .dict gs2] ∧ d2 = .ref hv.length := by
  simp only [deepenValues] at e
  split at e
  · rename_i d' hl
    split at e
    · rename_i gs' hd'
      split at e
      · rename_i hv2 gs2 hcv
        simp only [Except.ok.injEq, Prod.mk.injEq] at e
        obtain ⟨rfl, rfl⟩ := e
        obtain ⟨d, hlx, hd0⟩ := deepen_src res ih c hvfs r hl hd'
        exact ⟨d, gs', hv2, gs2, hlx, hd0, copyValues_rel _ _ _ _ hcv, rfl, rfl⟩
      · cases e
    · cases e
  · cases e

theorem deepen_basic (res : String → CopyImpl) {h0 : Heap} {n : Nat}
    (ih : ∀ h v h' v', Ctx h0 h → Valid h0 v → copyCall res n h v = .ok (h', v') → Basic h0 h v h' v')
    {h : Heap} {fs : Slots} {h1 : Heap} {fs1 : Slots} (c : Ctx h0 h) (hvfs : ∀ x v, (x, v) ∈ fs → Valid h0 v)
    (r : SlotsRel (copyCall res n) h fs h1 fs1) {x : String} {h2 : Heap} {d2 : Val}
    (e : deepenValues (copyCall res n) x h1 fs1 = .ok (h2, d2)) :
    ∃ vx, fs.lookup x = some vx ∧ Basic h0 h1 vx h2 d2 := by
  obtain ⟨d, gs, hv, gs2, hlx, hd0, rv, rfl, rfl⟩ := deepen_inv res ih c hvfs r e
  have sb := slots_basic ih r c hvfs
  have c1 : Ctx h0 h1 := ⟨c.c0, c.ext.trans sb.ext, sb.closed⟩
  have hvgs : ∀ y u, (y, u) ∈ gs → Valid h0 u := fun y u m => c.c0.slot_valid hd0 m
  have sv := slots_basic ih rv c1 hvgs
  exact ⟨.ref d, hlx, basic_alloc_node c1 sv.ext sv.closed hd0 sv.valid sv.same⟩

/-- allocating the new object after an override has replaced one slot of the generically copied ones -/
theorem basic_alloc_obj_set {h0 h h1 hN : Heap} {a : Nat} {C : String} {fs fs1 : Slots} {x : String}
    {vx w : Val} (c : Ctx h0 h) (hcell : h0[a]? = some (.node (.obj C) fs))
    (sb : SlotsBasic h0 h fs h1 fs1) (hlx : fs.lookup x = some vx) (bw : Basic h0 h1 vx hN w) :
    Basic h0 h (.ref a) (hN ++ [.node (.obj C) (setSlot fs1 x w)]) (.ref hN.length) := by
  apply basic_alloc_node c (sb.ext.trans bw.ext) bw.closed hcell
  · exact valid_setSlot (fun y u m => (sb.valid y u m).mono bw.ext) bw.valid
  · intro m
    exact map_setSlot fs1 fs x w vx (sb.same m)
      hlx (fun y u mem => absF_ext sb.closed bw.ext m u (sb.valid y u mem)) (bw.same m)

/-- PROPERTY support: `copy()` extends the heap, keeps it closed, returns a new cell, and the new
object unfolds (to every depth) to the same tree as the original. -/
theorem copy_basic (res : String → CopyImpl) (h0 : Heap) :
    ∀ (n : Nat) (h : Heap) (v : Val) (h' : Heap) (v' : Val), Ctx h0 h → Valid h0 v →
      copyCall res n h v = .ok (h', v') → Basic h0 h v h' v' := by
  intro n
  induction n with
  | zero => intro h v h' v' _ _ e; simp [copyCall] at e
  | succ n ih =>
    intro h v h' v' c hv e
    cases v with
    | imm t => simp [copyCall] at e
    | ref a =>
      have halt := hv a rfl
      have hget : h[a]? = h0[a]? := c.ext.get halt
      have hslots : ∀ {k fs}, h0[a]? = some (.node k fs) → ∀ x v, (x, v) ∈ fs → Valid h0 v :=
        fun hc x v m => c.c0.slot_valid hc m
      have hshallow : ∀ {k fs}, h0[a]? = some (.node k fs) →
          Basic h0 h (.ref a) (h ++ [.node k fs]) (.ref h.length) := by
        intro k fs hc
        apply basic_alloc_node c (Ext.refl h) c.ch hc
        · intro x v m; exact (hslots hc x v m).mono c.ext
        · intro m
          apply List.map_congr_left
          intro p hp
          rw [absF_ext c.c0 c.ext m p.2 (hslots hc p.1 p.2 (by simpa using hp))]
      simp only [copyCall] at e
      split at e
      · cases e
      · -- ndarray / sparse
        rename_i d hcell
        simp only [Except.ok.injEq, Prod.mk.injEq] at e
        obtain ⟨rfl, rfl⟩ := e
        rw [hget] at hcell
        refine ⟨Ext.append _ _, ?_, ⟨h.length, rfl, Nat.le_refl _, by simp⟩, ?_⟩
        · apply Closed.alloc c.ch
          intro k fs e; cases e
        · intro m
          cases m with
          | zero => simp [absF]
          | succ m => simp [absF, hcell]
      · rename_i fs hcell
        simp only [Except.ok.injEq, Prod.mk.injEq] at e
        obtain ⟨rfl, rfl⟩ := e
        rw [hget] at hcell
        exact hshallow hcell
      · rename_i fs hcell
        simp only [Except.ok.injEq, Prod.mk.injEq] at e
        obtain ⟨rfl, rfl⟩ := e
        rw [hget] at hcell
        exact hshallow hcell
      · cases e
      · -- a menpo object
        rename_i C fs hcell
        rw [hget] at hcell
        have hvfs := hslots hcell
        split at e
        · -- Copyable.copy
          split at e
          · rename_i h1 fs1 hcs
            simp only [Except.ok.injEq, Prod.mk.injEq] at e
            obtain ⟨rfl, rfl⟩ := e
            have sb := slots_basic ih (copySlots_rel _ _ _ _ hcs) c hvfs
            exact basic_alloc_node c sb.ext sb.closed hcell sb.valid sb.same
          · cases e
        · -- LandmarkManager.copy
          split at e
          · rename_i h1 fs1 hcs
            split at e
            · rename_i h2 d2 hde
              simp only [Except.ok.injEq, Prod.mk.injEq] at e
              obtain ⟨rfl, rfl⟩ := e
              have r := copySlots_rel _ _ _ _ hcs
              obtain ⟨vx, hlx, bw⟩ := deepen_basic res ih c hvfs r hde
              exact basic_alloc_obj_set c hcell (slots_basic ih r c hvfs) hlx bw
            · cases e
          · cases e
        · -- LabelledPointUndirectedGraph.copy
          split at e
          · rename_i h1 fs1 hcs
            split at e
            · rename_i h2 d2 hde
              simp only [Except.ok.injEq, Prod.mk.injEq] at e
              obtain ⟨rfl, rfl⟩ := e
              have r := copySlots_rel _ _ _ _ hcs
              obtain ⟨vx, hlx, bw⟩ := deepen_basic res ih c hvfs r hde
              exact basic_alloc_obj_set c hcell (slots_basic ih r c hvfs) hlx bw
            · cases e
          · cases e
        · -- LazyList.copy
          split at e
          · rename_i h1 fs1 hcs
            split at e
            · rename_i l hll
              split at e
              · rename_i items hitems
                simp only [Except.ok.injEq, Prod.mk.injEq] at e
                obtain ⟨rfl, rfl⟩ := e
                have sb := slots_basic ih (copySlots_rel _ _ _ _ hcs) c hvfs
                have c1 : Ctx h0 h1 := ⟨c.c0, c.ext.trans sb.ext, sb.closed⟩
                have hvl : Valid h0 (.ref l) := hvfs _ _ (lookup_mem hll)
                have hl0 : h0[l]? = some (.node .list items) := by
                  rw [← c.ext.get (hvl l rfl)]; exact hitems
                have bw : Basic h0 h1 (.ref l) (h1 ++ [.node .list items]) (.ref h1.length) := by
                  apply basic_alloc_node c1 (Ext.refl h1) sb.closed hl0
                  · intro x v m; exact (c.c0.slot_valid hl0 m).mono c1.ext
                  · intro m
                    apply List.map_congr_left
                    intro p hp
                    rw [absF_ext c.c0 c1.ext m p.2 (c.c0.slot_valid hl0 (x := p.1) (by simpa using hp))]
                have := basic_alloc_obj_set c hcell sb hll bw
                simpa using this
              · cases e
            · cases e
          · cases e
        · -- HomogFamilyAlignment.copy
          split at e
          · rename_i m hlm
            split at e
            · rename_i h1 m1 hcm
              simp only [Except.ok.injEq, Prod.mk.injEq] at e
              obtain ⟨rfl, rfl⟩ := e
              have hvm : Valid h0 m := hvfs _ _ (lookup_mem hlm)
              have bm := ih h m h1 m1 c hvm hcm
              -- no slot was copied: the generic phase is the identity here
              have sb : SlotsBasic h0 h fs h fs := by
                refine ⟨Ext.refl h, c.ch, rfl, fun x v mem => (hvfs x v mem).mono c.ext, ?_⟩
                intro k
                apply List.map_congr_left
                intro p hp
                rw [absF_ext c.c0 c.ext k p.2 (hvfs p.1 p.2 (by simpa using hp))]
              exact basic_alloc_obj_set c hcell sb hlm bm
            · cases e
          · cases e
        · cases e

end MenpoModel.C06
