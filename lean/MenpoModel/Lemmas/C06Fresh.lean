/-
C06: on heaps that conform to a well-formed attribute-kind table (`DeepHeap`), nested copies never
fail silently (`copy_no_attr`) and every cell the copy owns is new (`copy_fresh`).
Core Lean only.
-/
import MenpoModel.Lemmas.C06Copy

namespace MenpoModel.C06

/-! ### kinds -/

/-- the value has a `.copy` -/
def hasCopyK : Kind → Bool
  | .elem .buf => true
  | .elem .obj => true
  | .dictOf _ => true
  | .listOf _ => true
  | _ => false

/-- `v.copy()` on its own (no override around it) is deep -/
def standaloneK : Kind → Bool
  | .elem .buf => true
  | .elem .obj => true
  | .dictOf e => e == .none || e == .imm
  | .listOf e => e == .none || e == .imm
  | _ => false

theorem standalone_hasCopy {k : Kind} (h : standaloneK k = true) : hasCopyK k = true := by
  cases k with
  | elem e => cases e <;> simp_all [standaloneK, hasCopyK]
  | dictOf e => rfl
  | listOf e => rfl

theorem kindOf_imm {h : Heap} {v : Val} (e : kindOf h v = .elem .imm) : ∃ t, v = .imm t := by
  cases v with
  | imm t => exact ⟨t, rfl⟩
  | ref a =>
    simp only [kindOf] at e
    split at e <;> cases e

theorem elemOf_imm {h : Heap} {v : Val} (e : elemOf h v = .imm) : ∃ t, v = .imm t := by
  cases v with
  | imm t => exact ⟨t, rfl⟩
  | ref a =>
    simp only [elemOf] at e
    split at e <;> cases e

theorem elemOf_ne_none (h : Heap) (v : Val) : elemOf h v ≠ .none := by
  cases v with
  | imm t => simp [elemOf]
  | ref a =>
    simp only [elemOf]
    split <;> simp

theorem elemOf_kindOf {h : Heap} {v : Val} {e : Elem} (he : elemOf h v = e) (hb : e = .buf ∨ e = .obj) :
    kindOf h v = .elem e := by
  cases v with
  | imm t => simp only [elemOf] at he; subst he; rcases hb with hb | hb <;> cases hb
  | ref a =>
    simp only [elemOf] at he
    simp only [kindOf]
    split at he
    · rename_i d hc; simp [hc, ← he]
    · rename_i C fs hc; simp [hc, ← he]
    · subst he; rcases hb with hb | hb <;> cases hb

theorem joinElems_all {l : List Elem} {e : Elem} (hj : joinElems l = e) (hne : e ≠ .other) :
    ∀ e' ∈ l, e' = e := by
  cases l with
  | nil => intro e' m; cases m
  | cons a t =>
    simp only [joinElems] at hj
    split at hj
    · rename_i hall
      subst hj
      intro e' m
      simp only [List.mem_cons] at m
      rcases m with rfl | m
      · rfl
      · have := List.all_eq_true.mp hall e' m
        simpa using this
    · exact absurd hj.symm hne

/-- members of a dict / list cell whose joined element kind is `e` -/
theorem container_elems {h : Heap} {a : Nat} {k : NodeKind} {fs : Slots} (hk : k = .dict ∨ k = .list)
    (hc : h[a]? = some (.node k fs)) {e : Elem}
    (hkind : kindOf h (.ref a) = .dictOf e ∨ kindOf h (.ref a) = .listOf e) (hne : e ≠ .other) :
    ∀ x v, (x, v) ∈ fs → elemOf h v = e := by
  have hj : joinElems (fs.map fun p => elemOf h p.2) = e := by
    rcases hk with rfl | rfl <;> simp only [kindOf, hc] at hkind <;> rcases hkind with hkind | hkind <;>
      first | (cases hkind; rfl) | cases hkind
  intro x v m
  apply joinElems_all hj hne
  simp only [List.mem_map]
  exact ⟨(x, v), m, rfl⟩

/-- a value of container kind is a reference to a dict / list cell -/
theorem kindOf_dict {h : Heap} {v : Val} {e : Elem} (hk : kindOf h v = .dictOf e) :
    ∃ d gs, v = .ref d ∧ h[d]? = some (.node .dict gs) := by
  cases v with
  | imm t => cases hk
  | ref a =>
    simp only [kindOf] at hk
    split at hk <;> first | cases hk | skip
    rename_i fs hc
    exact ⟨a, fs, rfl, hc⟩

theorem kindOf_list {h : Heap} {v : Val} {e : Elem} (hk : kindOf h v = .listOf e) :
    ∃ d gs, v = .ref d ∧ h[d]? = some (.node .list gs) := by
  cases v with
  | imm t => cases hk
  | ref a =>
    simp only [kindOf] at hk
    split at hk <;> first | cases hk | skip
    rename_i fs hc
    exact ⟨a, fs, rfl, hc⟩

theorem lookup_isSome_of_mem_names {fs : Slots} {x : String} (m : x ∈ slotNames fs) :
    ∃ v, fs.lookup x = some v := by
  induction fs with
  | nil => simp [slotNames] at m
  | cons p t ih =>
    obtain ⟨y, w⟩ := p
    simp only [List.lookup]
    by_cases hxy : x = y
    · subst hxy; simp
    · have : (x == y) = false := by simpa using hxy
      simp only [this]
      apply ih
      simp only [slotNames, List.map_cons, List.mem_cons] at m
      rcases m with m | m
      · exact absurd m hxy
      · exact m

/-! ### nested copies never raise AttributeError on conforming heaps
(so `Copyable.copy`'s `except AttributeError` never silently shares a copyable attribute) -/

theorem copyValues_no_attr {rec : Heap → Val → Except Err (Heap × Val)} {h0 : Heap}
    (Hb : ∀ hs v he v1, Ctx h0 hs → Valid h0 v → rec hs v = .ok (he, v1) → Basic h0 hs v he v1) :
    ∀ (gs : Slots) (h : Heap), Ctx h0 h → (∀ x v, (x, v) ∈ gs → Valid h0 v) →
      (∀ x v hs, (x, v) ∈ gs → Ctx h0 hs → rec hs v ≠ .error .attr) →
      ∀ e, copyValues rec h gs = .error e → e ≠ .attr := by
  intro gs
  induction gs with
  | nil => intro h _ _ _ e he; simp [copyValues] at he
  | cons p t ih =>
    obtain ⟨x, v⟩ := p
    intro h c hv hna e he
    simp only [copyValues] at he
    split at he
    · rename_i hA vA hr
      split at he
      · cases he
      · rename_i e' ht
        cases he
        have bA := Hb h v hA vA c (hv x v List.mem_cons_self) hr
        exact ih hA (bA.ctx c) (fun y u m => hv y u (List.mem_cons_of_mem _ m))
          (fun y u hs m => hna y u hs (List.mem_cons_of_mem _ m)) _ ht
    · rename_i e' hr
      cases he
      intro hE
      subst hE
      exact hna x v h List.mem_cons_self c hr

theorem copy_no_attr (res : String → CopyImpl) (h0 : Heap) (dh : DeepHeap res h0) :
    ∀ (n : Nat) (h : Heap) (v : Val), Ctx h0 h → Valid h0 v → hasCopyK (kindOf h0 v) = true →
      copyCall res n h v ≠ .error .attr := by
  intro n
  induction n with
  | zero => intro h v _ _ _; simp [copyCall]
  | succ n ih =>
    intro h v c hv hk
    have Hb := copy_basic res h0 n
    cases v with
    | imm t => simp [kindOf, hasCopyK] at hk
    | ref a =>
      have halt := hv a rfl
      have hget : h[a]? = h0[a]? := c.ext.get halt
      simp only [copyCall, hget]
      cases hcell : h0[a]? with
      | none => simp [kindOf, hcell, hasCopyK] at hk
      | some cell =>
        cases cell with
        | buf d => simp
        | node k fs =>
          cases k with
          | dict => simp
          | list => simp
          | frozen => simp [kindOf, hcell, hasCopyK] at hk
          | obj C =>
            obtain ⟨hnd, hspec, hok⟩ := dh a C fs hcell
            have hvfs : ∀ x v, (x, v) ∈ fs → Valid h0 v := fun x v m => c.c0.slot_valid hcell m
            -- the deepening phase cannot raise AttributeError
            have hdeep : ∀ (x : String) (e : Elem) (h1 : Heap) (fs1 : Slots), specialSlot (res C) = some x →
                (e = .obj ∨ e = .buf) →
                (∀ k, specialOK (res C) k = true → k = .dictOf .none ∨ k = .dictOf e) →
                SlotsRel (copyCall res n) h fs h1 fs1 →
                ∀ er, deepenValues (copyCall res n) x h1 fs1 = .error er → er ≠ .attr := by
              intro x e h1 fs1 hsp he hso r er hde
              obtain ⟨vx, hlx⟩ := Option.isSome_iff_exists.mp (hspec x hsp)
              have hmem := lookup_mem hlx
              have hokx := hok x vx hmem
              simp only [okKind, hsp, beq_self_eq_true, if_true] at hokx
              have hkx := hso _ hokx
              have hvx := hvfs x vx hmem
              obtain ⟨d, gs, rfl, hd0⟩ : ∃ d gs, vx = .ref d ∧ h0[d]? = some (.node .dict gs) := by
                rcases hkx with hkx | hkx <;> exact kindOf_dict hkx
              have sb := slots_basic Hb r c hvfs
              have c1 : Ctx h0 h1 := ⟨c.c0, c.ext.trans sb.ext, sb.closed⟩
              have hx1 : x ∈ slotNames fs1 := by rw [sb.names]; exact mem_names hmem
              obtain ⟨w, hl1⟩ := lookup_isSome_of_mem_names hx1
              obtain ⟨v', hlx', _, hcase⟩ := slots_lookup Hb r c hvfs x w hl1
              rw [hlx] at hlx'
              cases hlx'
              have hcpk : hasCopyK (kindOf h0 (.ref d)) = true := by
                rcases hkx with hkx | hkx <;> rw [hkx] <;> rfl
              rcases hcase with ⟨_, hs, chs, hfail⟩ | ⟨hs, he', chs, hokc, ehe⟩
              · exact absurd hfail (ih hs (.ref d) chs hvx hcpk)
              · cases n with
                | zero => simp [copyCall] at hokc
                | succ n =>
                  have hds : hs[d]? = some (.node .dict gs) := by rw [chs.ext.get (hvx d rfl)]; exact hd0
                  rw [copyCall_container res (.inl rfl) hds] at hokc
                  simp only [Except.ok.injEq, Prod.mk.injEq] at hokc
                  obtain ⟨rfl, rfl⟩ := hokc
                  have hd1 : h1[hs.length]? = some (.node .dict gs) := by
                    rw [ehe.get (by simp)]; exact get_last hs _
                  simp only [deepenValues, hl1, hd1] at hde
                  split at hde
                  · cases hde
                  · rename_i er' hcv
                    cases hde
                    refine copyValues_no_attr (copy_basic res h0 (n + 1)) gs h1 c1
                      (fun y u m => c.c0.slot_valid hd0 m) ?_ _ hcv
                    intro y u hs' m chs'
                    apply ih hs' u chs' (c.c0.slot_valid hd0 m)
                    have hne : e ≠ .other := by rcases he with rfl | rfl <;> simp
                    rcases hkx with hkx | hkx
                    · have := container_elems (.inl rfl) hd0 (.inl hkx) (by simp) y u m
                      exact absurd this (elemOf_ne_none h0 u)
                    · have := container_elems (.inl rfl) hd0 (.inl hkx) hne y u m
                      rw [elemOf_kindOf this (by rcases he with rfl | rfl <;> simp)]
                      rcases he with rfl | rfl <;> rfl
            cases himpl : res C with
            | generic =>
              simp only [himpl]
              split
              · simp
              · rename_i e hcs
                simp only [ne_eq, Except.error.injEq]
                exact copySlots_err _ _ _ hcs
            | landmarkManager =>
              simp only [himpl]
              split
              · rename_i h1 fs1 hcs
                split
                · simp
                · rename_i e hde
                  simp only [ne_eq, Except.error.injEq]
                  refine hdeep "_landmark_groups" .obj h1 fs1 (by rw [himpl]; rfl) (.inl rfl) ?_
                    (copySlots_rel _ _ _ _ hcs) e hde
                  intro k hk
                  rw [himpl] at hk
                  cases k with
                  | dictOf e => cases e <;> simp_all [specialOK]
                  | _ => simp [specialOK] at hk
              · rename_i e hcs
                simp only [ne_eq, Except.error.injEq]
                exact copySlots_err _ _ _ hcs
            | labelled =>
              simp only [himpl]
              split
              · rename_i h1 fs1 hcs
                split
                · simp
                · rename_i e hde
                  simp only [ne_eq, Except.error.injEq]
                  refine hdeep "_labels_to_masks" .buf h1 fs1 (by rw [himpl]; rfl) (.inr rfl) ?_
                    (copySlots_rel _ _ _ _ hcs) e hde
                  intro k hk
                  rw [himpl] at hk
                  cases k with
                  | dictOf e => cases e <;> simp_all [specialOK]
                  | _ => simp [specialOK] at hk
              · rename_i e hcs
                simp only [ne_eq, Except.error.injEq]
                exact copySlots_err _ _ _ hcs
            | lazyList =>
              simp only [himpl]
              split
              · rename_i h1 fs1 hcs
                obtain ⟨vx, hlx⟩ := Option.isSome_iff_exists.mp (hspec "_callables" (by rw [himpl]; rfl))
                have hokx := hok _ vx (lookup_mem hlx)
                rw [himpl] at hokx
                simp only [okKind, specialSlot, beq_self_eq_true, if_true] at hokx
                have : ∃ e, kindOf h0 vx = .listOf e := by
                  cases hk' : kindOf h0 vx with
                  | listOf e => exact ⟨e, rfl⟩
                  | _ => simp [hk', specialOK] at hokx
                obtain ⟨e, hke⟩ := this
                obtain ⟨l, items, rfl, hl0⟩ := kindOf_list hke
                have hl : h[l]? = some (.node .list items) := by
                  rw [c.ext.get (hvfs _ _ (lookup_mem hlx) l rfl)]; exact hl0
                simp [hlx, hl]
              · rename_i e hcs
                simp only [ne_eq, Except.error.injEq]
                exact copySlots_err _ _ _ hcs
            | homogAlign =>
              simp only [himpl]
              obtain ⟨vx, hlx⟩ := Option.isSome_iff_exists.mp (hspec "_h_matrix" (by rw [himpl]; rfl))
              have hokx := hok _ vx (lookup_mem hlx)
              rw [himpl] at hokx
              simp only [okKind, specialSlot, beq_self_eq_true, if_true] at hokx
              have hkb : kindOf h0 vx = .elem .buf := by
                cases hk' : kindOf h0 vx with
                | elem e => cases e <;> simp [hk', specialOK] at hokx; rfl
                | _ => simp [hk', specialOK] at hokx
              simp only [hlx]
              split
              · simp
              · rename_i e hcm
                simp only [ne_eq, Except.error.injEq]
                intro hE
                subst hE
                exact ih h vx c (hvfs _ _ (lookup_mem hlx)) (by rw [hkb]; rfl) hcm
            | unknown => simp [himpl]

/-! ### every owned cell of the copy is new -/

def slotFine : Lim → Kind → Bool
  | .stop, _ => true
  | .shallow, k => hasCopyK k || k == .elem .imm
  | .full, k => standaloneK k || k == .elem .imm

theorem okKind_fine {impl : CopyImpl} {C x : String} {k : Kind} (hok : okKind impl C x k = true)
    (hsp : specialSlot impl ≠ some x) : slotFine (slotLim impl C x) k = true := by
  have hsp' : (specialSlot impl == some x) = false := by simpa using hsp
  simp only [okKind, hsp', Bool.false_eq_true, if_false] at hok
  cases hl : slotLim impl C x with
  | stop => rfl
  | shallow =>
    cases impl <;> cases k <;> rename_i e <;> cases e <;> simp_all [slotFine, hasCopyK]
  | full =>
    cases impl <;> cases k <;> rename_i e <;> cases e <;> simp_all [slotFine, standaloneK]

theorem own_imm_absurd {res : String → CopyImpl} {h : Heap} {lim : Lim} {t : Int} {b : Nat}
    (o : Own res h lim (.imm t) b) : False := by
  cases o

theorem own_stop_absurd {res : String → CopyImpl} {h : Heap} {v : Val} {b : Nat}
    (o : Own res h .stop v b) : False := by
  cases o

theorem own_shallow_eq {res : String → CopyImpl} {h : Heap} {a b : Nat}
    (o : Own res h .shallow (.ref a) b) : b = a := by
  cases o
  rfl

/-- a successful copy of an immutable value does not exist -/
theorem basic_imm_absurd {h0 h h' : Heap} {t : Int} {v' : Val} (b : Basic h0 h (.imm t) h' v') : False := by
  obtain ⟨a', rfl, _, _⟩ := b.root
  have := b.same 0
  simp [absF] at this

theorem slots_fresh {res : String → CopyImpl} {rec : Heap → Val → Except Err (Heap × Val)} {h0 : Heap}
    (Hb : ∀ hs v he v1, Ctx h0 hs → Valid h0 v → rec hs v = .ok (he, v1) → Basic h0 hs v he v1)
    (Hf : ∀ hs v he v1, Ctx h0 hs → Valid h0 v → standaloneK (kindOf h0 v) = true → rec hs v = .ok (he, v1) →
      ∀ b, Own res he .full v1 b → hs.length ≤ b)
    (Hna : ∀ hs v, Ctx h0 hs → Valid h0 v → hasCopyK (kindOf h0 v) = true → rec hs v ≠ .error .attr)
    (lim : String → Lim)
    {h : Heap} {fs : Slots} {h1 : Heap} {fs1 : Slots} (r : SlotsRel rec h fs h1 fs1) :
    Ctx h0 h → (∀ x v, (x, v) ∈ fs → Valid h0 v) →
      (∀ x v, (x, v) ∈ fs → slotFine (lim x) (kindOf h0 v) = true) →
      ∀ x v1, (x, v1) ∈ fs1 → ∀ b, Own res h1 (lim x) v1 b → h.length ≤ b := by
  induction r with
  | nil h => intro _ _ _ x v1 m; cases m
  | @copied h x0 v0 hA vA t h2 t2 hr rt ih =>
    intro c hv hfine x v1 m b o
    have hv0 := hv x0 v0 List.mem_cons_self
    have bA := Hb h v0 hA vA c hv0 hr
    have hvt : ∀ y u, (y, u) ∈ t → Valid h0 u := fun y u m => hv y u (List.mem_cons_of_mem _ m)
    have sbt := slots_basic Hb rt (bA.ctx c) hvt
    simp only [List.mem_cons, Prod.mk.injEq] at m
    rcases m with ⟨rfl, rfl⟩ | m
    · have oA := own_restrict res bA.closed sbt.ext o bA.valid
      have hf := hfine x v0 List.mem_cons_self
      cases hl : lim x with
      | stop => rw [hl] at oA; exact (own_stop_absurd oA).elim
      | shallow =>
        rw [hl] at oA
        obtain ⟨a', rfl, hge, _⟩ := bA.root
        rw [own_shallow_eq oA]; exact hge
      | full =>
        rw [hl] at oA hf
        simp only [slotFine, Bool.or_eq_true, beq_iff_eq] at hf
        rcases hf with hf | hf
        · exact Hf h v0 hA v1 c hv0 hf hr b oA
        · obtain ⟨t', rfl⟩ := kindOf_imm hf
          exact (basic_imm_absurd bA).elim
    · have := ih (bA.ctx c) hvt (fun y u m => hfine y u (List.mem_cons_of_mem _ m)) x v1 m b o
      exact Nat.le_trans bA.ext.len this
  | @shared h x0 v0 t h2 t2 hr rt ih =>
    intro c hv hfine x v1 m b o
    have hv0 := hv x0 v0 List.mem_cons_self
    have hvt : ∀ y u, (y, u) ∈ t → Valid h0 u := fun y u m => hv y u (List.mem_cons_of_mem _ m)
    simp only [List.mem_cons, Prod.mk.injEq] at m
    rcases m with ⟨rfl, rfl⟩ | m
    · have hf := hfine x v1 List.mem_cons_self
      have hnc : hasCopyK (kindOf h0 v1) ≠ true := fun hc => Hna h v1 c hv0 hc hr
      cases hl : lim x with
      | stop => rw [hl] at o; exact (own_stop_absurd o).elim
      | shallow =>
        rw [hl] at o hf
        simp only [slotFine, Bool.or_eq_true, beq_iff_eq] at hf
        rcases hf with hf | hf
        · exact absurd hf hnc
        · obtain ⟨t', rfl⟩ := kindOf_imm hf
          exact (own_imm_absurd o).elim
      | full =>
        rw [hl] at o hf
        simp only [slotFine, Bool.or_eq_true, beq_iff_eq] at hf
        rcases hf with hf | hf
        · exact absurd (standalone_hasCopy hf) hnc
        · obtain ⟨t', rfl⟩ := kindOf_imm hf
          exact (own_imm_absurd o).elim
    · exact ih c hvt (fun y u m => hfine y u (List.mem_cons_of_mem _ m)) x v1 m b o


theorem own_alloc {res : String → CopyImpl} {hN : Heap} (cN : Closed hN) {k : NodeKind} {fsN : Slots}
    (hval : ∀ x v, (x, v) ∈ fsN → Valid hN v) {b : Nat}
    (o : Own res (hN ++ [.node k fsN]) .full (.ref hN.length) b) :
    b = hN.length ∨ ∃ x w, (x, w) ∈ fsN ∧ Own res hN (childLim res k x) w b := by
  cases o with
  | hereFull => exact .inl rfl
  | step hc hm o' =>
    rw [get_last] at hc
    cases hc
    exact .inr ⟨_, _, hm, own_restrict res cN (Ext.append _ _) o' (hval _ _ hm)⟩

theorem own_alloc_buf {res : String → CopyImpl} {h : Heap} {d : List Int} {b : Nat}
    (o : Own res (h ++ [.buf d]) .full (.ref h.length) b) : b = h.length := by
  cases o with
  | hereFull => rfl
  | step hc _ _ => rw [get_last] at hc; cases hc

/-- PROPERTY support (independence): on a heap conforming to a well-formed table, every cell the
copy owns — everything reachable from it except through the documented shared slots — is a cell
that did not exist before the call. -/
theorem copy_fresh (res : String → CopyImpl) (h0 : Heap) (dh : DeepHeap res h0) :
    ∀ (n : Nat) (h : Heap) (v : Val) (h' : Heap) (v' : Val), Ctx h0 h → Valid h0 v →
      standaloneK (kindOf h0 v) = true → copyCall res n h v = .ok (h', v') →
      ∀ b, Own res h' .full v' b → h.length ≤ b := by
  intro n
  induction n with
  | zero => intro h v h' v' _ _ _ e; simp [copyCall] at e
  | succ n ih =>
    intro h v h' v' c hv hk e b o
    have Hb := copy_basic res h0 n
    have Hna := copy_no_attr res h0 dh n
    cases v with
    | imm t => simp [copyCall] at e
    | ref a =>
      have halt := hv a rfl
      have hget : h[a]? = h0[a]? := c.ext.get halt
      simp only [copyCall, hget] at e
      cases hcell : h0[a]? with
      | none => simp [hcell] at e
      | some cell =>
        cases cell with
        | buf d =>
          simp only [hcell, Except.ok.injEq, Prod.mk.injEq] at e
          obtain ⟨rfl, rfl⟩ := e
          rw [own_alloc_buf o]
          exact Nat.le_refl _
        | node k fs =>
          have hvfs : ∀ x v, (x, v) ∈ fs → Valid h0 v := fun x v m => c.c0.slot_valid hcell m
          -- a container all of whose members are immutable
          have hcont : (k = .dict ∨ k = .list) →
              Own res (h ++ [.node k fs]) .full (.ref h.length) b → h.length ≤ b := by
            intro hkk o
            rcases own_alloc c.ch (fun x v m => (hvfs x v m).mono c.ext) o with rfl | ⟨x, w, m, o'⟩
            · exact Nat.le_refl _
            · have hke : ∃ e, (kindOf h0 (.ref a) = .dictOf e ∨ kindOf h0 (.ref a) = .listOf e) ∧
                  (e = .none ∨ e = .imm) := by
                rcases hkk with rfl | rfl <;> simp only [kindOf, hcell, standaloneK, Bool.or_eq_true,
                  beq_iff_eq] at hk ⊢
                · exact ⟨_, .inl rfl, hk⟩
                · exact ⟨_, .inr rfl, hk⟩
              obtain ⟨e', hke, he'⟩ := hke
              have hel := container_elems hkk hcell hke (by rcases he' with rfl | rfl <;> simp) x w m
              rcases he' with rfl | rfl
              · exact absurd hel (elemOf_ne_none h0 w)
              · obtain ⟨t, rfl⟩ := elemOf_imm hel
                exact (own_imm_absurd o').elim
          cases k with
          | dict =>
            simp only [hcell, Except.ok.injEq, Prod.mk.injEq] at e
            obtain ⟨rfl, rfl⟩ := e
            exact hcont (.inl rfl) o
          | list =>
            simp only [hcell, Except.ok.injEq, Prod.mk.injEq] at e
            obtain ⟨rfl, rfl⟩ := e
            exact hcont (.inr rfl) o
          | frozen => simp [hcell] at e
          | obj C =>
            simp only [hcell] at e
            obtain ⟨hnd, hspec, hok⟩ := dh a C fs hcell
            -- slots that the override does not touch
            have hplain : ∀ {h1 fs1}, SlotsRel (copyCall res n) h fs h1 fs1 →
                ∀ x w, (x, w) ∈ fs1 → specialSlot (res C) ≠ some x →
                ∀ b, Own res h1 (slotLim (res C) C x) w b → h.length ≤ b := by
              intro h1 fs1 r x w m hsp b o
              let lim : String → Lim := fun y => if specialSlot (res C) = some y then .stop else slotLim (res C) C y
              have hfine : ∀ y u, (y, u) ∈ fs → slotFine (lim y) (kindOf h0 u) = true := by
                intro y u mu
                simp only [lim]
                split
                · rfl
                · rename_i hne
                  exact okKind_fine (hok y u mu) hne
              have := slots_fresh (res := res) Hb (ih) Hna lim r c hvfs hfine x w m b
              simp only [lim, if_neg hsp] at this
              exact this o
            -- the two overrides that deepen a dict
            have hdeepen : ∀ (x : String) (e : Elem) {h1 fs1 h2 d2}, specialSlot (res C) = some x →
                slotLim (res C) C x = .full → (e = .obj ∨ e = .buf) →
                (∀ k, specialOK (res C) k = true → k = .dictOf .none ∨ k = .dictOf e) →
                SlotsRel (copyCall res n) h fs h1 fs1 →
                deepenValues (copyCall res n) x h1 fs1 = .ok (h2, d2) →
                Own res (h2 ++ [.node (.obj C) (setSlot fs1 x d2)]) .full (.ref h2.length) b → h.length ≤ b := by
              intro x e h1 fs1 h2 d2 hsp hlimx he hso r hde o
              have sb := slots_basic Hb r c hvfs
              have c1 : Ctx h0 h1 := ⟨c.c0, c.ext.trans sb.ext, sb.closed⟩
              obtain ⟨vx, hlx0, bw⟩ := deepen_basic res Hb c hvfs r hde
              obtain ⟨d, gs, hv, gs2, hlx, hd0, rv, rfl, rfl⟩ := deepen_inv res Hb c hvfs r hde
              have hvgs : ∀ y u, (y, u) ∈ gs → Valid h0 u := fun y u m => c.c0.slot_valid hd0 m
              have sv := slots_basic Hb rv c1 hvgs
              have hvalN := valid_setSlot (x := x) (fun y u m => (sb.valid y u m).mono bw.ext) bw.valid
              rcases own_alloc bw.closed hvalN o with rfl | ⟨y, w, m, o'⟩
              · exact Nat.le_trans sb.ext.len bw.ext.len
              · simp only [childLim] at o'
                rcases mem_setSlot m with ⟨rfl, rfl⟩ | ⟨m', hyx⟩
                · -- the re-initialised dict and the copies it holds
                  rw [hlimx] at o'
                  rcases own_alloc sv.closed sv.valid o' with rfl | ⟨z, u, mz, oz⟩
                  · exact Nat.le_trans sb.ext.len sv.ext.len
                  · simp only [childLim] at oz
                    have hkx := hok y (.ref d) (lookup_mem hlx)
                    simp only [okKind, hsp, beq_self_eq_true, if_true] at hkx
                    have hkd := hso _ hkx
                    have hfine : ∀ z u, (z, u) ∈ gs → slotFine .full (kindOf h0 u) = true := by
                      intro z u mz
                      rcases hkd with hkd | hkd
                      · have := container_elems (.inl rfl) hd0 (.inl hkd) (by simp) z u mz
                        exact absurd this (elemOf_ne_none h0 u)
                      · have hne : e ≠ .other := by rcases he with rfl | rfl <;> simp
                        have := container_elems (.inl rfl) hd0 (.inl hkd) hne z u mz
                        rw [elemOf_kindOf this (by rcases he with rfl | rfl <;> simp)]
                        rcases he with rfl | rfl <;> rfl
                    have := slots_fresh (res := res) Hb ih Hna (fun _ => .full) rv c1 hvgs hfine z u mz b oz
                    exact Nat.le_trans sb.ext.len this
                · have hnd1 : (slotNames fs1).Nodup := by rw [sb.names]; exact hnd
                  have hyx' : y ≠ x := by
                    rcases hyx with hyx | hyx
                    · exact hyx
                    · exact absurd hnd1 hyx
                  have o1 := own_restrict res sb.closed bw.ext o' (sb.valid y w m')
                  exact hplain r y w m' (by rw [hsp]; intro hE; cases hE; exact hyx' rfl) b o1
            cases himpl : res C with
            | generic =>
              simp only [himpl] at e
              split at e
              · rename_i h1 fs1 hcs
                simp only [Except.ok.injEq, Prod.mk.injEq] at e
                obtain ⟨rfl, rfl⟩ := e
                have r := copySlots_rel _ _ _ _ hcs
                have sb := slots_basic Hb r c hvfs
                rcases own_alloc sb.closed sb.valid o with rfl | ⟨x, w, m, o'⟩
                · exact sb.ext.len
                · exact hplain r x w m (by rw [himpl]; simp [specialSlot]) b o'
              · cases e
            | landmarkManager =>
              simp only [himpl] at e
              split at e
              · rename_i h1 fs1 hcs
                split at e
                · rename_i h2 d2 hde
                  simp only [Except.ok.injEq, Prod.mk.injEq] at e
                  obtain ⟨rfl, rfl⟩ := e
                  refine hdeepen "_landmark_groups" .obj (by rw [himpl]; rfl) (by rw [himpl]; rfl) (.inl rfl) ?_
                    (copySlots_rel _ _ _ _ hcs) hde o
                  intro k hk
                  rw [himpl] at hk
                  cases k with
                  | dictOf e => cases e <;> simp_all [specialOK]
                  | _ => simp [specialOK] at hk
                · cases e
              · cases e
            | labelled =>
              simp only [himpl] at e
              split at e
              · rename_i h1 fs1 hcs
                split at e
                · rename_i h2 d2 hde
                  simp only [Except.ok.injEq, Prod.mk.injEq] at e
                  obtain ⟨rfl, rfl⟩ := e
                  refine hdeepen "_labels_to_masks" .buf (by rw [himpl]; rfl) (by rw [himpl]; rfl) (.inr rfl) ?_
                    (copySlots_rel _ _ _ _ hcs) hde o
                  intro k hk
                  rw [himpl] at hk
                  cases k with
                  | dictOf e => cases e <;> simp_all [specialOK]
                  | _ => simp [specialOK] at hk
                · cases e
              · cases e
            | lazyList =>
              simp only [himpl] at e
              split at e
              · rename_i h1 fs1 hcs
                split at e
                · rename_i l hll
                  split at e
                  · rename_i items hitems
                    simp only [Except.ok.injEq, Prod.mk.injEq] at e
                    obtain ⟨rfl, rfl⟩ := e
                    have r := copySlots_rel _ _ _ _ hcs
                    have sb := slots_basic Hb r c hvfs
                    have hvl : Valid h0 (.ref l) := hvfs _ _ (lookup_mem hll)
                    have hl0 : h0[l]? = some (.node .list items) := by
                      rw [← c.ext.get (hvl l rfl)]; exact hitems
                    have hvit : ∀ z u, (z, u) ∈ items → Valid h1 u :=
                      fun z u m => (c.c0.slot_valid hl0 m).mono (c.ext.trans sb.ext)
                    have cL : Closed (h1 ++ [Cell.node .list items]) := by
                      apply Closed.alloc sb.closed
                      intro k' fs' e' z u m; cases e'; exact hvit z u m
                    have eL : Ext h1 (h1 ++ [Cell.node .list items]) := Ext.append _ _
                    have hlen : (h1 ++ [Cell.node .list items]).length = h1.length + 1 := by simp
                    rw [← hlen] at o
                    have hvalN := valid_setSlot (hN := h1 ++ [Cell.node .list items]) (x := "_callables")
                      (w := .ref h1.length) (fun y u m => (sb.valid y u m).mono eL)
                      (by intro b' e'; cases e'; simp)
                    rcases own_alloc cL hvalN o with rfl | ⟨y, w, m, o'⟩
                    · rw [hlen]; exact Nat.le_trans sb.ext.len (Nat.le_succ _)
                    · simp only [childLim] at o'
                      rcases mem_setSlot m with ⟨rfl, rfl⟩ | ⟨m', hyx⟩
                      · rw [himpl] at o'
                        simp only [slotLim] at o'
                        rcases own_alloc sb.closed hvit o' with rfl | ⟨z, u, mz, oz⟩
                        · exact sb.ext.len
                        · have hkx := hok _ (.ref l) (lookup_mem hll)
                          rw [himpl] at hkx
                          simp only [okKind, specialSlot, beq_self_eq_true, if_true] at hkx
                          have : ∃ e', kindOf h0 (.ref l) = .listOf e' ∧ (e' = .none ∨ e' = .imm) := by
                            simp only [kindOf, hl0, specialOK, Bool.or_eq_true, beq_iff_eq] at hkx ⊢
                            exact ⟨_, rfl, hkx⟩
                          obtain ⟨e', hke, he'⟩ := this
                          have hel := container_elems (.inr rfl) hl0 (.inr hke)
                            (by rcases he' with rfl | rfl <;> simp) z u mz
                          rcases he' with rfl | rfl
                          · exact absurd hel (elemOf_ne_none h0 u)
                          · obtain ⟨t, rfl⟩ := elemOf_imm hel
                            exact (own_imm_absurd oz).elim
                      · have hnd1 : (slotNames fs1).Nodup := by rw [sb.names]; exact hnd
                        have hyx' : y ≠ "_callables" := by
                          rcases hyx with hyx | hyx
                          · exact hyx
                          · exact absurd hnd1 hyx
                        have o1 := own_restrict res sb.closed eL o' (sb.valid y w m')
                        exact hplain r y w m' (by rw [himpl]; simp only [specialSlot]; intro hE; cases hE; exact hyx' rfl) b o1
                  · cases e
                · cases e
              · cases e
            | homogAlign =>
              simp only [himpl] at e
              split at e
              · rename_i m hlm
                split at e
                · rename_i h1 m1 hcm
                  simp only [Except.ok.injEq, Prod.mk.injEq] at e
                  obtain ⟨rfl, rfl⟩ := e
                  have hvm : Valid h0 m := hvfs _ _ (lookup_mem hlm)
                  have bm := Hb h m h1 m1 c hvm hcm
                  have hvalN := valid_setSlot (hN := h1) (x := "_h_matrix") (w := m1)
                    (fun y u mu => (hvfs y u mu).mono (c.ext.trans bm.ext)) bm.valid
                  rcases own_alloc bm.closed hvalN o with rfl | ⟨y, w, mw, o'⟩
                  · exact bm.ext.len
                  · simp only [childLim, himpl] at o'
                    rcases mem_setSlot mw with ⟨rfl, rfl⟩ | ⟨m', hyx⟩
                    · simp only [slotLim] at o'
                      have hkm := hok _ m (lookup_mem hlm)
                      rw [himpl] at hkm
                      simp only [okKind, specialSlot, beq_self_eq_true, if_true] at hkm
                      have hkb : kindOf h0 m = .elem .buf := by
                        cases hk' : kindOf h0 m with
                        | elem e' => cases e' <;> simp [hk', specialOK] at hkm; rfl
                        | _ => simp [hk', specialOK] at hkm
                      exact ih h m h1 w c hvm (by rw [hkb]; rfl) hcm b (by simpa using o')
                    · have hyx' : y ≠ "_h_matrix" := by
                        rcases hyx with hyx | hyx
                        · exact hyx
                        · exact absurd hnd hyx
                      have hky := hok y w m'
                      rw [himpl] at hky
                      have hsp' : (specialSlot CopyImpl.homogAlign == some y) = false := by
                        simp only [specialSlot, beq_eq_false_iff_ne, ne_eq, Option.some.injEq]
                        exact fun hE => hyx' hE.symm
                      simp only [okKind, hsp', Bool.false_eq_true, if_false, Bool.or_eq_true,
                        beq_iff_eq] at hky
                      rcases hky with hky | hky
                      · rw [hky] at o'
                        exact (own_stop_absurd o').elim
                      · obtain ⟨t, rfl⟩ := kindOf_imm hky
                        exact (own_imm_absurd o').elim
                · cases e
              · cases e
            | unknown => simp [himpl] at e

end MenpoModel.C06
