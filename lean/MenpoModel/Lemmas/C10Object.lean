/-
C10 — lemmas for the object layer (`Core/C10Object.lean`): the two concrete Vectorizable classes are lawful,
the object-level operations of `PCAModel` are the vector-level ones conjugated by `as_vector` / `from_vector`,
and the remaining vector-level entry points reduce to `project` / `inst`.
-/
import MenpoModel.Core.C10Object
import MenpoModel.Lemmas.C10Linear

namespace MenpoModel.C10
open Matrix

variable {n d k : ℕ}

/-! ### the concrete classes satisfy the round-trip law -/

theorem vecOps_lawful (d : ℕ) : Lawful (vecOps d) (fun _ => ()) :=
  ⟨fun _ _ => rfl, fun _ _ => rfl, fun _ _ h _ => h⟩

theorem pcOps_lawful (p dims : ℕ) : Lawful (pcOps p dims) PC.tag := by
  refine ⟨?_, fun _ _ => rfl, ?_⟩
  · intro t v
    funext x
    simp only [pcOps, Matrix.of_apply, Prod.mk.eta, Equiv.apply_symm_apply]
  · intro a b h ht
    ext i j
    · have := congrFun h (finProdFinEquiv (i, j))
      simpa only [pcOps, Equiv.symm_apply_apply] using this
    · exact ht

theorem imgOps_lawful (c h w : ℕ) : Lawful (imgOps c h w) Img.tag := by
  refine ⟨?_, fun _ _ => rfl, ?_⟩
  · intro t v
    funext x
    simp only [imgOps, Prod.mk.eta, Equiv.apply_symm_apply]
  · intro a b hab ht
    ext ch y x
    · have := congrFun hab (finProdFinEquiv (finProdFinEquiv (ch, y), x))
      simpa only [imgOps, Equiv.symm_apply_apply] using this
    · exact ht

theorem freezePC_eq {p dims : ℕ} (o : PC p dims) : freezePC o = o := by
  cases o
  simp [freezePC, materialize_eq]

namespace Lawful
variable {α ρ : Type} {ops : VecOps α d} {rest : α → ρ}

theorem from_as (h : Lawful ops rest) (t : α) : ops.fromVec t (ops.asVec t) = t :=
  h.ext _ _ (h.as_from _ _) (h.rest_from _ _)

theorem from_from (h : Lawful ops rest) (t : α) (v v' : Fin d → ℚ) :
    ops.fromVec (ops.fromVec t v) v' = ops.fromVec t v' :=
  h.ext _ _ (by rw [h.as_from, h.as_from]) (by rw [h.rest_from, h.rest_from, h.rest_from])

end Lawful

/-! ### remaining vector-level entry points -/

theorem linProject_eq (U : Matrix (Fin k) (Fin d) ℚ) (x : Fin d → ℚ) : linProject U x = project U 0 x := by
  simp [linProject, project]

theorem linInstance_eq (U : Matrix (Fin k) (Fin d) ℚ) (w : Fin k → ℚ) : linInstance U w = inst U 0 w := by
  simp [linInstance, inst]

theorem linReconstruct_eq (U : Matrix (Fin k) (Fin d) ℚ) (x : Fin d → ℚ) :
    linReconstruct U x = reconstruct U 0 x := by
  simp [linReconstruct, reconstruct, linProject_eq, linInstance_eq]

theorem linProjectOut_eq (U : Matrix (Fin k) (Fin d) ℚ) (x : Fin d → ℚ) :
    linProjectOut U x = projectOut U 0 x := by
  simp [linProjectOut, projectOut, linProject_eq, linInstance]

theorem padWeights_spec {w : List ℚ} {f : Fin k → ℚ} (h : padWeights k w = some f) :
    w.length ≤ k ∧ ∀ i : Fin k, f i = w.getD i.val 0 := by
  unfold padWeights at h
  split at h
  · cases h
  · rename_i hle
    cases h
    exact ⟨by omega, fun _ => rfl⟩

theorem padWeights_isSome {w : List ℚ} : (padWeights k w).isSome ↔ w.length ≤ k := by
  unfold padWeights
  split <;> simp <;> omega

theorem exactWeights_eq_pad {w : List ℚ} {f : Fin k → ℚ} (h : exactWeights k w = some f) :
    padWeights k w = some f := by
  unfold exactWeights at h
  split at h
  · rename_i hl
    cases h
    simp [padWeights, hl]
  · cases h

theorem project_component {U : Matrix (Fin k) (Fin d) ℚ} (hU : U * Uᵀ = 1) (m : Fin d → ℚ) (sd : Fin k → ℚ)
    (i : Fin k) (scale : ℚ) :
    project U m (component U m sd i true scale) = fun j => if j = i then scale * sd i else 0 := by
  have h : component U m sd i true scale = inst U m (fun j => if j = i then scale * sd i else 0) := by
    funext j
    simp [component, inst, vecMul, dotProduct, Finset.sum_ite_eq', ite_mul]
  rw [h, project_instance hU]

theorem whitened_eq (U : Matrix (Fin k) (Fin d) ℚ) (σ : Fin k → ℚ) :
    whitened U σ = diagonal (fun i => (σ i)⁻¹) * U := by
  ext i j
  simp [whitened, diagonal_mul, div_eq_inv_mul]

/-- the whitened rows are mutually orthogonal with squared length `1 / σ²` -/
theorem whitened_gram {U : Matrix (Fin k) (Fin d) ℚ} (hU : U * Uᵀ = 1) (σ : Fin k → ℚ) :
    whitened U σ * (whitened U σ)ᵀ = diagonal (fun i => ((σ i) ^ 2)⁻¹) := by
  rw [whitened_eq, transpose_mul, diagonal_transpose, Matrix.mul_assoc, ← Matrix.mul_assoc U, hU,
    Matrix.one_mul, diagonal_mul_diagonal]
  congr 1
  funext i
  rw [pow_two, mul_inv]

theorem projectWhitened_apply (U : Matrix (Fin k) (Fin d) ℚ) (σ : Fin k → ℚ) (x : Fin d → ℚ) (i : Fin k) :
    projectWhitened U σ x i = (U *ᵥ x) i / σ i := by
  simp only [projectWhitened, whitened, vecMul, dotProduct, transpose_apply, of_apply, mulVec]
  rw [div_eq_mul_inv, Finset.sum_mul]
  apply Finset.sum_congr rfl
  intro j _
  ring

/-- QR contract (`Q` has orthonormal rows) ⇒ after `orthonormalize_against_inplace` both models have
orthonormal components and every component of one is orthogonal to every component of the other -/
theorem ortho_against_rows {k1 k2 : ℕ} {Q : Matrix (Fin (k1 + k2)) (Fin d) ℚ} (hQ : Q * Qᵀ = 1) :
    qTop Q * (qTop Q)ᵀ = 1 ∧ qBot Q * (qBot Q)ᵀ = 1 ∧ qBot Q * (qTop Q)ᵀ = 0 := by
  refine ⟨?_, ?_, ?_⟩
  · ext i j
    have := congrFun (congrFun hQ (Fin.castAdd k2 i)) (Fin.castAdd k2 j)
    simp only [Matrix.mul_apply, transpose_apply, qTop, submatrix_apply, id] at this ⊢
    rw [this]
    simp [Matrix.one_apply, Fin.ext_iff]
  · ext i j
    have := congrFun (congrFun hQ (Fin.natAdd k1 i)) (Fin.natAdd k1 j)
    simp only [Matrix.mul_apply, transpose_apply, qBot, submatrix_apply, id] at this ⊢
    rw [this]
    simp [Matrix.one_apply, Fin.ext_iff]
  · ext i j
    have := congrFun (congrFun hQ (Fin.natAdd k1 i)) (Fin.castAdd k2 j)
    simp only [Matrix.mul_apply, transpose_apply, qBot, qTop, submatrix_apply, id] at this ⊢
    rw [this]
    have hne : ¬ (k1 + i.val = j.val) := by have := j.isLt; omega
    simp [Fin.ext_iff, hne]

/-! ### object level = vector level -/

namespace ObjModel
variable {α ρ : Type} (M : ObjModel α d k) {rest : α → ρ}

theorem asVec_mean (h : Lawful M.ops rest) : M.ops.asVec M.mean = M.m := h.as_from _ _

theorem asVec_inst (h : Lawful M.ops rest) (w : Fin k → ℚ) :
    M.ops.asVec (M.inst w) = C10.inst M.U M.m w := h.as_from _ _

theorem asVec_reconstruct (h : Lawful M.ops rest) (o : α) :
    M.ops.asVec (M.reconstruct o) = C10.reconstruct M.U M.m (M.ops.asVec o) := h.as_from _ _

theorem asVec_projectOut (h : Lawful M.ops rest) (o : α) :
    M.ops.asVec (M.projectOut o) = C10.projectOut M.U M.m (M.ops.asVec o) := h.as_from _ _

theorem asVec_component (h : Lawful M.ops rest) (sd : Fin k → ℚ) (i : Fin k) (b : Bool) (scale : ℚ) :
    M.ops.asVec (M.component sd i b scale) = C10.component M.U M.m sd i b scale := h.as_from _ _

theorem project_inst (h : Lawful M.ops rest) (hU : M.U * M.Uᵀ = 1) (w : Fin k → ℚ) :
    M.project (M.inst w) = w := by
  rw [project, asVec_inst M h, project_instance hU]

theorem reconstruct_idem (h : Lawful M.ops rest) (hU : M.U * M.Uᵀ = 1) (o : α) :
    M.reconstruct (M.reconstruct o) = M.reconstruct o := by
  have h1 : M.ops.asVec (M.reconstruct o) = C10.reconstruct M.U M.m (M.ops.asVec o) := asVec_reconstruct M h o
  unfold reconstruct at h1 ⊢
  rw [h1, reconstruct_idempotent hU, h.from_from]

theorem reconstruct_eq_inst_project (h : Lawful M.ops rest) (o : α) :
    M.ops.asVec (M.reconstruct o) = M.ops.asVec (M.inst (M.project o)) := by
  rw [asVec_reconstruct M h, asVec_inst M h]; rfl

end ObjModel

end MenpoModel.C10
