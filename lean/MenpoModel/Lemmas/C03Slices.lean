/-
C03 — lemmas on numpy's column selection as `WithDims` uses it: index lists with negative entries,
Python slices.  (The slice bounds lemmas restate, for this property's own use, what
`Props/C19Base.lean` proves about `PyData.sliceIndices`; core tactics only.)
-/
import MenpoModel.Lemmas.C03Store

namespace MenpoModel.C03
open MenpoModel.PyData

theorem arith_bounds (s st : Int) (n : Nat) (lo hi : Int)
    (h0 : lo ≤ s ∧ s ≤ hi) (hlast : n ≠ 0 → lo ≤ s + st * ((n : Int) - 1) ∧ s + st * ((n : Int) - 1) ≤ hi) :
    ∀ x ∈ arith s st n, lo ≤ x ∧ x ≤ hi := by
  induction n generalizing s with
  | zero => simp [arith]
  | succ k ih =>
    intro x hx
    simp only [arith, List.mem_cons] at hx
    rcases hx with rfl | hx
    · exact h0
    · cases k with
      | zero => simp [arith] at hx
      | succ m =>
        have hl := hlast (by omega)
        have e1 : s + st * (((m + 1 + 1 : Nat) : Int) - 1) = s + st + st * (((m + 1 : Nat) : Int) - 1) := by
          push_cast; rw [Int.mul_sub, Int.mul_add, Int.mul_sub]; omega
        rw [e1] at hl
        refine ih (s + st) ?_ (fun _ => hl) x hx
        rcases Int.le_total 0 st with hst | hst
        · have : 0 ≤ st * (((m + 1 : Nat) : Int) - 1) := Int.mul_nonneg hst (by omega)
          omega
        · have : st * (((m + 1 : Nat) : Int) - 1) ≤ 0 := Int.mul_nonpos_of_nonpos_of_nonneg hst (by omega)
          omega

theorem adjBound_range (len : Nat) (neg : Bool) (v : Int) :
    (if neg then -1 else 0) ≤ adjBound len neg v ∧ adjBound len neg v ≤ (if neg then (len:Int) - 1 else len) := by
  unfold adjBound
  cases neg <;> simp <;> split <;> (try split) <;> (try split) <;> omega

theorem sliceStart_range (a : Option Int) (len : Nat) (neg : Bool) :
    (if neg then -1 else 0) ≤ sliceStart a len neg ∧ sliceStart a len neg ≤ (if neg then (len:Int) - 1 else len) := by
  cases a with
  | none => cases neg <;> simp [sliceStart] <;> omega
  | some v => exact adjBound_range len neg v

theorem sliceStop_range (a : Option Int) (len : Nat) (neg : Bool) :
    (if neg then -1 else 0) ≤ sliceStop a len neg ∧ sliceStop a len neg ≤ (if neg then (len:Int) - 1 else len) := by
  cases a with
  | none => cases neg <;> simp [sliceStop] <;> omega
  | some v => exact adjBound_range len neg v

theorem arith_slice_bounds (s e st : Int) (len : Nat) (hst : st ≠ 0)
    (hs : (if st < 0 then -1 else 0) ≤ s ∧ s ≤ (if st < 0 then (len:Int) - 1 else len))
    (he : (if st < 0 then -1 else 0) ≤ e ∧ e ≤ (if st < 0 then (len:Int) - 1 else len)) :
    ∀ x ∈ arith s st (sliceCount s e st), 0 ≤ x ∧ x ≤ (len:Int) - 1 := by
  unfold sliceCount
  by_cases hn : st < 0
  · simp only [hn, if_true] at hs he ⊢
    by_cases hlt : e < s
    · simp only [hlt, if_true]
      have hq : (-st) * ((s - e - 1) / (-st)) ≤ s - e - 1 := Int.mul_ediv_self_le (by omega)
      have hq0 : 0 ≤ (s - e - 1) / (-st) := Int.ediv_nonneg (by omega) (by omega)
      apply arith_bounds s st _ 0 ((len:Int) - 1) (by omega)
      intro _
      have e1 : (((((s - e - 1) / (-st)).toNat + 1 : Nat) : Int) - 1) = (s - e - 1) / (-st) := by
        push_cast; omega
      rw [e1]
      have e2 : st * ((s - e - 1) / (-st)) = - ((-st) * ((s - e - 1) / (-st))) := by
        rw [Int.neg_mul, Int.neg_neg]
      rw [e2]
      have : 0 ≤ (-st) * ((s - e - 1) / (-st)) := Int.mul_nonneg (by omega) hq0
      omega
    · simp [hlt, arith]
  · have hpos : 0 < st := by omega
    simp only [hn, if_false] at hs he ⊢
    by_cases hlt : s < e
    · simp only [hlt, if_true]
      have hq : st * ((e - s - 1) / st) ≤ e - s - 1 := Int.mul_ediv_self_le (by omega)
      have hq0 : 0 ≤ (e - s - 1) / st := Int.ediv_nonneg (by omega) (by omega)
      apply arith_bounds s st _ 0 ((len:Int) - 1) (by omega)
      intro _
      have e1 : (((((e - s - 1) / st).toNat + 1 : Nat) : Int) - 1) = (e - s - 1) / st := by
        push_cast; omega
      rw [e1]
      have : 0 ≤ st * ((e - s - 1) / st) := Int.mul_nonneg (by omega) hq0
      omega
    · simp [hlt, arith]

/-- the columns a slice selects exist: a slice never raises `IndexError` -/
theorem sliceIndices_in_range (a b c : Option Int) (len : Nat) (l : List Nat)
    (h : sliceIndices a b c len = some l) : ∀ i ∈ l, i < len := by
  unfold sliceIndices at h
  simp only at h
  split at h
  · simp at h
  · rename_i hst
    simp only [Option.some.injEq] at h
    subst h
    intro i hi
    simp only [List.mem_map] at hi
    obtain ⟨x, hx, rfl⟩ := hi
    have hs := sliceStart_range a len (decide (c.getD 1 < 0))
    have he := sliceStop_range b len (decide (c.getD 1 < 0))
    have := arith_slice_bounds _ _ _ len hst (by simpa using hs) (by simpa using he) x hx
    omega

theorem normIndex_lt {n : Nat} {i : Int} {j : Nat} (h : normIndex n i = some j) : j < n := by
  unfold normIndex at h
  by_cases hr : 0 ≤ (if i < 0 then i + (n : Int) else i) ∧ (if i < 0 then i + (n : Int) else i) < n
  · simp only [hr, and_self, if_true, Option.some.injEq] at h
    omega
  · simp only [hr, if_false] at h
    cases h

/-- the positions `normAll` resolves exist, one per index -/
theorem normAll_spec {n : Nat} : ∀ {ds : List Int} {js : List Nat}, normAll n ds = some js →
    js.length = ds.length ∧ ∀ j ∈ js, j < n
  | [], js, h => by simp only [normAll, Option.some.injEq] at h; subst h; simp
  | i :: is, js, h => by
    simp only [normAll] at h
    cases h1 : normIndex n i with
    | none => simp [h1] at h
    | some j =>
      cases h2 : normAll n is with
      | none => simp [h1, h2] at h
      | some js' =>
        simp only [h1, h2, Option.some.injEq] at h
        subst h
        obtain ⟨hl, hb⟩ := normAll_spec h2
        refine ⟨by simp [hl], ?_⟩
        intro j' hj'
        simp only [List.mem_cons] at hj'
        rcases hj' with rfl | hj'
        · exact normIndex_lt h1
        · exact hb j' hj'

theorem pick_of_lt {is : List Nat} {x : Pt} (h : ∀ i ∈ is, i < x.length) :
    ∃ y, pick is x = some y ∧ y.length = is.length := by
  have hall : is.all (· < x.length) = true := by simpa using h
  obtain ⟨y, hy⟩ := pick_some_iff.mpr hall
  exact ⟨y, hy, pick_length hy⟩

end MenpoModel.C03
