/-
C01 — helper lemmas about the one-axis sampler `axis1` and the 2-D / 3-D samplers built from it.
-/
import MenpoModel.Core.C01Warp
import Mathlib.Algebra.Order.Field.Rat
import Mathlib.Tactic.Ring
import Mathlib.Tactic.Linarith
import Mathlib.Tactic.FieldSimp
import Mathlib.Tactic.LinearCombination
import Mathlib.Tactic.NormNum

namespace MenpoModel.C01

/-! ### floor / clamp facts -/

theorem top_eq (n : Nat) : top n = (n : Rat) - 1 := by
  unfold top; push_cast; ring

theorem clampR_of_inR {n : Nat} {x : Rat} (h : inR n x) : clampR n x = x := by
  unfold clampR
  obtain ⟨h0, h1⟩ := h
  rw [if_neg (not_lt.mpr h0), if_neg (not_lt.mpr h1)]

theorem clampI_of_range {n : Nat} {i : Int} (h0 : 0 ≤ i) (h1 : i ≤ (n : Int) - 1) : clampI n i = i := by
  unfold clampI
  rw [if_neg (not_lt.mpr h0), if_neg (not_lt.mpr h1)]

theorem floor_nonneg_of {x : Rat} (h : 0 ≤ x) : 0 ≤ x.floor := by
  rw [Rat.le_floor_iff]; exact_mod_cast h

theorem floor_le_top {n : Nat} {x : Rat} (h : x ≤ top n) : x.floor ≤ (n : Int) - 1 := by
  have h1 : (x.floor : Rat) ≤ top n := le_trans (Rat.floor_le x) h
  unfold top at h1
  exact_mod_cast h1

theorem inR_intCast {n : Nat} {i : Int} (h0 : 0 ≤ i) (h1 : i ≤ (n : Int) - 1) : inR n (i : Rat) := by
  refine ⟨by exact_mod_cast h0, ?_⟩
  unfold top; exact_mod_cast h1

theorem floor_half_intCast (i : Int) : ((i : Rat) + 1 / 2).floor = i := by
  have h : ((i : Rat) + 1 / 2) = (1 / 2 : Rat) + (i : Rat) := by ring
  rw [h, Rat.floor_add_intCast]
  have : ((1 : Rat) / 2).floor = 0 := by decide +kernel
  rw [this]; ring

/-- rounding half up of a coordinate inside the axis stays inside the axis -/
theorem round_in_range {n : Nat} {x : Rat} (h : inR n x) :
    0 ≤ (x + 1 / 2).floor ∧ (x + 1 / 2).floor ≤ (n : Int) - 1 := by
  obtain ⟨h0, h1⟩ := h
  constructor
  · rw [Rat.le_floor_iff]; push_cast; linarith
  · have : (x + 1 / 2).floor < (n : Int) := by
      rw [Rat.floor_lt_iff]
      rw [top_eq] at h1
      push_cast; linarith
    omega

/-! ### the one-axis sampler -/

/-- at a grid point inside the axis both orders return the table entry -/
theorem axis1_grid (o : Interp) {n : Nat} (f : Int → Rat) {i : Int} (h0 : 0 ≤ i) (h1 : i ≤ (n : Int) - 1) :
    axis1 o n f (i : Rat) = f i := by
  unfold axis1
  rw [clampR_of_inR (inR_intCast h0 h1)]
  cases o with
  | nearest => simp only [floor_half_intCast, clampI_of_range h0 h1]
  | linear => simp only [Rat.floor_intCast, clampI_of_range h0 h1]; ring

/-- order 0 inside the axis: the entry at the coordinate rounded half up -/
theorem axis1_nearest_inside {n : Nat} (f : Int → Rat) {x : Rat} (h : inR n x) :
    axis1 .nearest n f x = f (x + 1 / 2).floor := by
  unfold axis1
  rw [clampR_of_inR h]
  obtain ⟨a, b⟩ := round_in_range h
  simp only [clampI_of_range a b]

/-- order 1 reproduces a function that is affine on the (at most two) grid points strictly closer than one
pixel to the coordinate -/
theorem axis1_linear_local {n : Nat} {f : Int → Rat} {x a b : Rat} (hx : inR n x)
    (hf : ∀ i : Int, 0 ≤ i → i ≤ (n : Int) - 1 → x - 1 < (i : Rat) → (i : Rat) < x + 1 → f i = a + b * (i : Rat)) :
    axis1 .linear n f x = a + b * x := by
  unfold axis1
  rw [clampR_of_inR hx]
  obtain ⟨h0, h1⟩ := hx
  have hi0 : 0 ≤ x.floor := floor_nonneg_of h0
  have hi1 : x.floor ≤ (n : Int) - 1 := floor_le_top h1
  have hfl : (x.floor : Rat) ≤ x := Rat.floor_le x
  have hfl2 : x - 1 < (x.floor : Rat) := Rat.lt_floor
  simp only [clampI_of_range hi0 hi1]
  have e0 : f x.floor = a + b * (x.floor : Rat) := hf _ hi0 hi1 hfl2 (by linarith)
  rw [e0]
  by_cases ht : x = (x.floor : Rat)
  · have : x - (x.floor : Rat) = 0 := by linarith
    rw [this]; rw [← ht]; ring
  · have hlt : (x.floor : Rat) < x := lt_of_le_of_ne hfl (fun h => ht h.symm)
    have hi2 : x.floor + 1 ≤ (n : Int) - 1 := by
      have : (x.floor : Rat) < top n := lt_of_lt_of_le hlt h1
      unfold top at this
      have : x.floor < (n : Int) - 1 := by exact_mod_cast this
      omega
    have hi2' : 0 ≤ x.floor + 1 := by omega
    simp only [clampI_of_range hi2' hi2]
    have e1 : f (x.floor + 1) = a + b * ((x.floor + 1 : Int) : Rat) :=
      hf _ hi2' hi2 (by push_cast; linarith) (by push_cast; linarith)
    rw [e1]; push_cast; ring

/-! ### 2-D -/

theorem core2_grid (o : Interp) (im : Img2) {i j : Int} (hi0 : 0 ≤ i) (hi1 : i ≤ (im.h : Int) - 1)
    (hj0 : 0 ≤ j) (hj1 : j ≤ (im.w : Int) - 1) : im.core o (gridPt2 i j) = im.px i j := by
  unfold Img2.core gridPt2
  simp only [axis1_grid o _ hi0 hi1, axis1_grid o _ hj0 hj1]

theorem inside_grid2 (im : Img2) {i j : Int} (hi0 : 0 ≤ i) (hi1 : i ≤ (im.h : Int) - 1)
    (hj0 : 0 ≤ j) (hj1 : j ≤ (im.w : Int) - 1) : im.inside (gridPt2 i j) :=
  ⟨inR_intCast hi0 hi1, inR_intCast hj0 hj1⟩

theorem sample2_of_inside (o : Interp) (m : Mode) (im : Img2) {p : V2} (h : im.inside p) :
    im.sample o m p = im.core o p := by
  unfold Img2.sample
  cases m with
  | nearest => rfl
  | constant cv => simp only [if_pos h]

/-- sampling at a grid point inside the image returns that pixel, for both orders and both modes -/
theorem sample2_grid (o : Interp) (m : Mode) (im : Img2) {i j : Int} (hi0 : 0 ≤ i) (hi1 : i ≤ (im.h : Int) - 1)
    (hj0 : 0 ≤ j) (hj1 : j ≤ (im.w : Int) - 1) : im.sample o m (gridPt2 i j) = im.px i j := by
  rw [sample2_of_inside o m im (inside_grid2 im hi0 hi1 hj0 hj1), core2_grid o im hi0 hi1 hj0 hj1]

theorem core2_nearest_inside (im : Img2) {p : V2} (h : im.inside p) :
    im.core .nearest p = im.px (p.x + 1 / 2).floor (p.y + 1 / 2).floor := by
  unfold Img2.core
  rw [axis1_nearest_inside _ h.1, axis1_nearest_inside _ h.2]

/-- bilinear interpolation reproduces content that is affine on the grid points of the cell of `p` -/
theorem core2_linear_local {im : Img2} {p : V2} {a b c : Rat} (hp : im.inside p)
    (hf : ∀ i j : Int, 0 ≤ i → i ≤ (im.h : Int) - 1 → 0 ≤ j → j ≤ (im.w : Int) - 1 →
      p.x - 1 < (i : Rat) → (i : Rat) < p.x + 1 → p.y - 1 < (j : Rat) → (j : Rat) < p.y + 1 →
      im.px i j = a + b * (i : Rat) + c * (j : Rat)) :
    im.core .linear p = a + b * p.x + c * p.y := by
  unfold Img2.core
  have : a + b * p.x + c * p.y = (a + c * p.y) + b * p.x := by ring
  rw [this]
  apply axis1_linear_local hp.1
  intro i hi0 hi1 hi2 hi3
  have : a + c * p.y + b * (i : Rat) = (a + b * (i : Rat)) + c * p.y := by ring
  rw [this]
  apply axis1_linear_local hp.2
  intro j hj0 hj1 hj2 hj3
  exact hf i j hi0 hi1 hj0 hj1 hi2 hi3 hj2 hj3

/-! ### 3-D -/

theorem sample3_of_inside (o : Interp) (m : Mode) (im : Img3) {p : V3} (h : im.inside p) :
    im.sample o m p = im.core o p := by
  unfold Img3.sample
  cases m with
  | nearest => rfl
  | constant cv => simp only [if_pos h]

theorem core3_grid (o : Interp) (im : Img3) {i j k : Int} (hi0 : 0 ≤ i) (hi1 : i ≤ (im.n0 : Int) - 1)
    (hj0 : 0 ≤ j) (hj1 : j ≤ (im.n1 : Int) - 1) (hk0 : 0 ≤ k) (hk1 : k ≤ (im.n2 : Int) - 1) :
    im.core o (gridPt3 i j k) = im.px i j k := by
  unfold Img3.core gridPt3
  simp only [axis1_grid o _ hi0 hi1, axis1_grid o _ hj0 hj1, axis1_grid o _ hk0 hk1]

theorem inside_grid3 (im : Img3) {i j k : Int} (hi0 : 0 ≤ i) (hi1 : i ≤ (im.n0 : Int) - 1)
    (hj0 : 0 ≤ j) (hj1 : j ≤ (im.n1 : Int) - 1) (hk0 : 0 ≤ k) (hk1 : k ≤ (im.n2 : Int) - 1) :
    im.inside (gridPt3 i j k) :=
  ⟨inR_intCast hi0 hi1, inR_intCast hj0 hj1, inR_intCast hk0 hk1⟩

theorem sample3_grid (o : Interp) (m : Mode) (im : Img3) {i j k : Int} (hi0 : 0 ≤ i) (hi1 : i ≤ (im.n0 : Int) - 1)
    (hj0 : 0 ≤ j) (hj1 : j ≤ (im.n1 : Int) - 1) (hk0 : 0 ≤ k) (hk1 : k ≤ (im.n2 : Int) - 1) :
    im.sample o m (gridPt3 i j k) = im.px i j k := by
  rw [sample3_of_inside o m im (inside_grid3 im hi0 hi1 hj0 hj1 hk0 hk1), core3_grid o im hi0 hi1 hj0 hj1 hk0 hk1]

theorem core3_linear_local {im : Img3} {p : V3} {a b c d : Rat} (hp : im.inside p)
    (hf : ∀ i j k : Int, 0 ≤ i → i ≤ (im.n0 : Int) - 1 → 0 ≤ j → j ≤ (im.n1 : Int) - 1 →
      0 ≤ k → k ≤ (im.n2 : Int) - 1 →
      p.x - 1 < (i : Rat) → (i : Rat) < p.x + 1 → p.y - 1 < (j : Rat) → (j : Rat) < p.y + 1 →
      p.z - 1 < (k : Rat) → (k : Rat) < p.z + 1 →
      im.px i j k = a + b * (i : Rat) + c * (j : Rat) + d * (k : Rat)) :
    im.core .linear p = a + b * p.x + c * p.y + d * p.z := by
  unfold Img3.core
  have : a + b * p.x + c * p.y + d * p.z = (a + c * p.y + d * p.z) + b * p.x := by ring
  rw [this]
  apply axis1_linear_local hp.1
  intro i hi0 hi1 hi2 hi3
  have : a + c * p.y + d * p.z + b * (i : Rat) = (a + b * (i : Rat) + d * p.z) + c * p.y := by ring
  rw [this]
  apply axis1_linear_local hp.2.1
  intro j hj0 hj1 hj2 hj3
  have : a + b * (i : Rat) + d * p.z + c * (j : Rat) = (a + b * (i : Rat) + c * (j : Rat)) + d * p.z := by ring
  rw [this]
  apply axis1_linear_local hp.2.2
  intro k hk0 hk1 hk2 hk3
  exact hf i j k hi0 hi1 hj0 hj1 hk0 hk1 hi2 hi3 hj2 hj3 hk2 hk3

/-! ### affine maps -/

theorem Aff2.apply_inv_apply {T : Aff2} (h : T.det ≠ 0) (l : V2) : T.apply (T.inv.apply l) = l := by
  obtain ⟨a, b, tx, c, d, ty⟩ := T
  obtain ⟨D, hD⟩ : ∃ D, D = a * d - b * c := ⟨_, rfl⟩
  have h' : D ≠ 0 := by rw [hD]; exact h
  ext <;> simp only [Aff2.apply, Aff2.inv, Aff2.det] <;> rw [← hD] <;> field_simp <;> subst hD <;> ring

theorem Aff2.inv_apply_apply {T : Aff2} (h : T.det ≠ 0) (q : V2) : T.inv.apply (T.apply q) = q := by
  obtain ⟨a, b, tx, c, d, ty⟩ := T
  obtain ⟨D, hD⟩ : ∃ D, D = a * d - b * c := ⟨_, rfl⟩
  have h' : D ≠ 0 := by rw [hD]; exact h
  ext <;> simp only [Aff2.apply, Aff2.inv, Aff2.det] <;> rw [← hD] <;> field_simp <;> subst hD <;> ring

theorem Aff2.det_inv {T : Aff2} (h : T.det ≠ 0) : T.inv.det = 1 / T.det := by
  obtain ⟨a, b, tx, c, d, ty⟩ := T
  obtain ⟨D, hD⟩ : ∃ D, D = a * d - b * c := ⟨_, rfl⟩
  have h' : D ≠ 0 := by rw [hD]; exact h
  simp only [Aff2.inv, Aff2.det]; rw [← hD]; field_simp; subst hD; ring

theorem Aff2.det_inv_ne {T : Aff2} (h : T.det ≠ 0) : T.inv.det ≠ 0 := by
  rw [Aff2.det_inv h]; exact one_div_ne_zero h

theorem Aff2.det_comp (g f : Aff2) : (g.comp f).det = g.det * f.det := by
  simp only [Aff2.comp, Aff2.det]; ring

theorem Aff2.comp_apply (g f : Aff2) (p : V2) : (g.comp f).apply p = g.apply (f.apply p) := by
  ext <;> simp only [Aff2.comp, Aff2.apply] <;> ring

/-- `pseudoinverse` twice is the map itself -/
theorem Aff2.inv_inv {T : Aff2} (h : T.det ≠ 0) : T.inv.inv = T := by
  obtain ⟨a, b, tx, c, d, ty⟩ := T
  obtain ⟨D, hD⟩ : ∃ D, D = a * d - b * c := ⟨_, rfl⟩
  have h' : D ≠ 0 := by rw [hD]; exact h
  have e : d / D * (a / D) - -b / D * (-c / D) = 1 / D := by
    field_simp; subst hD; ring
  ext <;> simp only [Aff2.inv, Aff2.det] <;> rw [← hD] <;> rw [e] <;> field_simp <;> subst hD <;> ring

theorem Aff3.apply_inv_apply {T : Aff3} (h : T.det ≠ 0) (l : V3) : T.apply (T.inv.apply l) = l := by
  obtain ⟨a00, a01, a02, t0, a10, a11, a12, t1, a20, a21, a22, t2⟩ := T
  obtain ⟨D, hD⟩ : ∃ D, D = a00 * (a11 * a22 - a12 * a21) - a01 * (a10 * a22 - a12 * a20)
      + a02 * (a10 * a21 - a11 * a20) := ⟨_, rfl⟩
  have h' : D ≠ 0 := by rw [hD]; exact h
  ext <;> simp only [Aff3.apply, Aff3.inv, Aff3.det] <;> rw [← hD] <;> field_simp <;> subst hD <;> ring

theorem Aff3.inv_apply_apply {T : Aff3} (h : T.det ≠ 0) (q : V3) : T.inv.apply (T.apply q) = q := by
  obtain ⟨a00, a01, a02, t0, a10, a11, a12, t1, a20, a21, a22, t2⟩ := T
  obtain ⟨D, hD⟩ : ∃ D, D = a00 * (a11 * a22 - a12 * a21) - a01 * (a10 * a22 - a12 * a20)
      + a02 * (a10 * a21 - a11 * a20) := ⟨_, rfl⟩
  have h' : D ≠ 0 := by rw [hD]; exact h
  ext <;> simp only [Aff3.apply, Aff3.inv, Aff3.det] <;> rw [← hD] <;> field_simp <;> subst hD <;> ring

theorem Aff3.det_inv {T : Aff3} (h : T.det ≠ 0) : T.inv.det = 1 / T.det := by
  obtain ⟨a00, a01, a02, t0, a10, a11, a12, t1, a20, a21, a22, t2⟩ := T
  obtain ⟨D, hD⟩ : ∃ D, D = a00 * (a11 * a22 - a12 * a21) - a01 * (a10 * a22 - a12 * a20)
      + a02 * (a10 * a21 - a11 * a20) := ⟨_, rfl⟩
  have h' : D ≠ 0 := by rw [hD]; exact h
  simp only [Aff3.inv, Aff3.det]; rw [← hD]; field_simp; subst hD; ring

theorem Aff3.det_inv_ne {T : Aff3} (h : T.det ≠ 0) : T.inv.det ≠ 0 := by
  rw [Aff3.det_inv h]; exact one_div_ne_zero h

theorem Aff3.det_comp (g f : Aff3) : (g.comp f).det = g.det * f.det := by
  simp only [Aff3.comp, Aff3.det]; ring

theorem Aff3.comp_apply (g f : Aff3) (p : V3) : (g.comp f).apply p = g.apply (f.apply p) := by
  ext <;> simp only [Aff3.comp, Aff3.apply] <;> ring

end MenpoModel.C01
