/-
C18 helper lemmas for the numerical kernels: tables (`tab`, `elem`), the 1-D difference stencil `gradAt`.
-/
import MenpoModel.Core.C18Kernels
import Mathlib.Algebra.Order.Field.Rat
import Mathlib.Tactic.Ring
import Mathlib.Tactic.Linarith
import Mathlib.Tactic.FieldSimp

namespace MenpoModel.C18

/-! ### tables -/

theorem tab_length (h w : Nat) (f : Nat → Nat → Rat) : (tab h w f).length = h := by simp [tab]

theorem tab_getD (h w : Nat) (f : Nat → Nat → Rat) (i : Nat) (hi : i < h) :
    (tab h w f).getD i [] = (List.range w).map fun j => f i j := by
  simp [tab, List.getD, hi]

theorem elem_tab (h w : Nat) (f : Nat → Nat → Rat) (i j : Nat) (hi : i < h) (hj : j < w) :
    elem (tab h w f) i j = f i j := by
  unfold elem
  rw [tab_getD h w f i hi]
  simp [List.getD, hj]

theorem nRows_tab (h w : Nat) (f : Nat → Nat → Rat) : nRows (tab h w f) = h := tab_length h w f

theorem nCols_tab (h w : Nat) (f : Nat → Nat → Rat) (hh : 0 < h) : nCols (tab h w f) = w := by
  unfold nCols
  have : (tab h w f).headD [] = (tab h w f).getD 0 [] := by
    cases htab : tab h w f <;> simp
  rw [this, tab_getD h w f 0 hh]; simp

theorem tab_congr (h w : Nat) (f g : Nat → Nat → Rat) (hfg : ∀ i j, i < h → j < w → f i j = g i j) :
    tab h w f = tab h w g := by
  unfold tab
  apply List.map_congr_left
  intro i hi
  apply List.map_congr_left
  intro j hj
  exact hfg i j (List.mem_range.mp hi) (List.mem_range.mp hj)

theorem tab_rows (h w : Nat) (f : Nat → Nat → Rat) : ∀ row ∈ tab h w f, row.length = w := by
  intro row hrow
  simp only [tab, List.mem_map] at hrow
  obtain ⟨i, _, rfl⟩ := hrow
  simp

/-- a rectangular channel is the table of its elements -/
theorem tab_elem_self (M : Chan2) (w : Nat) (hrect : ∀ row ∈ M, row.length = w) :
    tab M.length w (elem M) = M := by
  apply List.ext_getElem
  · simp [tab]
  · intro i h1 h2
    simp only [tab, List.getElem_map, List.getElem_range]
    have hi : i < M.length := h2
    apply List.ext_getElem
    · simp [hrect (M[i]) (List.getElem_mem h2)]
    · intro j h3 h4
      simp only [List.getElem_map, List.getElem_range]
      unfold elem
      simp [List.getD, hi, h4]

/-! ### the difference stencil -/

theorem gradAt_congr (x y : Nat → Rat) (n i : Nat) (hn : 2 ≤ n) (hi : i < n) (h : ∀ k, k < n → x k = y k) :
    gradAt x n i = gradAt y n i := by
  unfold gradAt
  split
  · rw [h 1 (by omega), h 0 (by omega)]
  · split
    · rw [h (n - 1) (by omega), h (n - 2) (by omega)]
    · rw [h (i + 1) (by omega), h (i - 1) (by omega)]

/-- the three branches, spelled out: forward difference, backward difference, central difference -/
theorem gradAt_first (x : Nat → Rat) (n : Nat) : gradAt x n 0 = x 1 - x 0 := by simp [gradAt]

theorem gradAt_last (x : Nat → Rat) (n : Nat) (hn : 2 ≤ n) : gradAt x n (n - 1) = x (n - 1) - x (n - 2) := by
  unfold gradAt
  have h0 : ¬ (n - 1 = 0) := by omega
  have h1 : n - 1 + 1 = n := by omega
  simp [h0, h1]

theorem gradAt_interior (x : Nat → Rat) (n i : Nat) (h0 : 0 < i) (h1 : i + 1 < n) :
    gradAt x n i = (x (i + 1) - x (i - 1)) / 2 := by
  unfold gradAt
  have a : ¬ (i = 0) := by omega
  have b : ¬ (i + 1 = n) := by omega
  simp [a, b]

/-- the gradient of an affine sequence is its slope, at the borders too -/
theorem gradAt_affine (a b : Rat) (n i : Nat) (hn : 2 ≤ n) (hi : i < n) :
    gradAt (fun k => a + b * (k : Rat)) n i = b := by
  unfold gradAt
  split
  · push_cast; ring
  · split
    · rename_i h0 h1
      obtain ⟨m, rfl⟩ : ∃ m, n = m + 2 := ⟨n - 2, by omega⟩
      have e1 : m + 2 - 1 = m + 1 := by omega
      have e2 : m + 2 - 2 = m := by omega
      rw [e1, e2]; push_cast; ring
    · rename_i h0 h1
      obtain ⟨m, rfl⟩ : ∃ m, i = m + 1 := ⟨i - 1, by omega⟩
      have e1 : m + 1 - 1 = m := by omega
      rw [e1]; push_cast; ring

theorem gradAt_const (c : Rat) (n i : Nat) : gradAt (fun _ => c) n i = 0 := by
  unfold gradAt; split
  · ring
  · split <;> ring

/-- linearity of the stencil -/
theorem gradAt_linear (α β : Rat) (x y : Nat → Rat) (n i : Nat) :
    gradAt (fun k => α * x k + β * y k) n i = α * gradAt x n i + β * gradAt y n i := by
  unfold gradAt
  split
  · ring
  · split <;> ring

end MenpoModel.C18
