/-
C02: deep digests.  What `digest` returns depends only on the cells `reads` lists; allocation and writes
elsewhere leave it alone; and `copy` — for EVERY method-resolution table, every heap, every kind of value —
returns a value with the same deep digest whose reachable cells are cells the original reached or fresh
cells.  Core Lean only.
-/
import MenpoModel.Lemmas.C02Copy

namespace MenpoModel.C02

/-! ### slots -/

theorem digestSlots_congr {rec rec' : Val → Option (List Tok)} :
    ∀ (fs : Slots), (∀ p, p ∈ fs → rec' p.2 = rec p.2) → digestSlots rec' fs = digestSlots rec fs
  | [], _ => rfl
  | (x, v) :: t, hh => by
    simp only [digestSlots]
    rw [hh (x, v) (List.mem_cons_self ..), digestSlots_congr t (fun p hp => hh p (List.mem_cons_of_mem _ hp))]

theorem readsSlots_congr {rec rec' : Val → List Nat} :
    ∀ (fs : Slots), (∀ p, p ∈ fs → rec' p.2 = rec p.2) → readsSlots rec' fs = readsSlots rec fs
  | [], _ => rfl
  | (x, v) :: t, hh => by
    simp only [readsSlots]
    rw [hh (x, v) (List.mem_cons_self ..), readsSlots_congr t (fun p hp => hh p (List.mem_cons_of_mem _ hp))]

theorem mem_readsSlots {rec : Val → List Nat} {b : Nat} :
    ∀ {fs : Slots}, b ∈ readsSlots rec fs ↔ ∃ p, p ∈ fs ∧ b ∈ rec p.2
  | [] => by simp [readsSlots]
  | (x, v) :: t => by
    simp only [readsSlots, List.mem_append, List.mem_cons, mem_readsSlots (fs := t)]
    constructor
    · rintro (hb | ⟨p, hp, hb⟩)
      · exact ⟨(x, v), .inl rfl, hb⟩
      · exact ⟨p, .inr hp, hb⟩
    · rintro ⟨p, rfl | hp, hb⟩
      · exact .inl hb
      · exact .inr ⟨p, hp, hb⟩

theorem digestSlots_cons_some {rec : Val → Option (List Tok)} {x : String} {v : Val} {t : Slots} {ts : List Tok}
    (e : digestSlots rec ((x, v) :: t) = some ts) :
    ∃ a b, rec v = some a ∧ digestSlots rec t = some b ∧ ts = Tok.key x :: (a ++ b) := by
  simp only [digestSlots] at e
  cases h1 : rec v with
  | none => rw [h1] at e; cases e
  | some a =>
    cases h2 : digestSlots rec t with
    | none => rw [h1, h2] at e; cases e
    | some b => rw [h1, h2] at e; injection e with e; exact ⟨a, b, rfl, rfl, e.symm⟩

theorem digestSlots_cons_of {rec : Val → Option (List Tok)} {x : String} {v : Val} {t : Slots} {a b : List Tok}
    (h1 : rec v = some a) (h2 : digestSlots rec t = some b) :
    digestSlots rec ((x, v) :: t) = some (Tok.key x :: (a ++ b)) := by
  simp only [digestSlots, h1, h2]

theorem digestSlots_some_mem {rec : Val → Option (List Tok)} :
    ∀ {fs : Slots} {ts : List Tok}, digestSlots rec fs = some ts → ∀ p, p ∈ fs → ∃ t, rec p.2 = some t
  | [], _, _, p, hp => by cases hp
  | (x, v) :: t, ts, e, p, hp => by
    obtain ⟨a, b, h1, h2, _⟩ := digestSlots_cons_some e
    rcases List.mem_cons.mp hp with rfl | hp
    · exact ⟨a, h1⟩
    · exact digestSlots_some_mem h2 p hp

theorem digestSlots_append {rec : Val → Option (List Tok)} :
    ∀ (a b : Slots), digestSlots rec (a ++ b) =
      match digestSlots rec a, digestSlots rec b with
      | some x, some y => some (x ++ y)
      | _, _ => none
  | [], b => by
    simp only [List.nil_append, digestSlots]
    cases digestSlots rec b <;> simp
  | (x, v) :: t, b => by
    simp only [List.cons_append, digestSlots, digestSlots_append t b]
    cases rec v <;> cases digestSlots rec t <;> cases digestSlots rec b <;> simp

theorem readsSlots_append {rec : Val → List Nat} :
    ∀ (a b : Slots), readsSlots rec (a ++ b) = readsSlots rec a ++ readsSlots rec b
  | [], b => by simp [readsSlots]
  | (x, v) :: t, b => by simp [readsSlots, readsSlots_append t b]

/-! ### locality -/

theorem self_mem_reads (j : Nat) (h : Heap) (a : Nat) : a ∈ reads (j + 1) h (.ref a) := by
  simp only [reads]
  split <;> simp

/-- `digest` and `reads` depend only on the cells `reads` lists -/
theorem digest_local : ∀ (j : Nat) (h h' : Heap) (v : Val), (∀ b, b ∈ reads j h v → h'[b]? = h[b]?) →
    digest j h' v = digest j h v ∧ reads j h' v = reads j h v
  | 0, _, _, _, _ => ⟨rfl, rfl⟩
  | _ + 1, _, _, .imm _, _ => ⟨rfl, rfl⟩
  | j + 1, h, h', .ref a, hl => by
    have ha : h'[a]? = h[a]? := hl a (self_mem_reads j h a)
    have key : ∀ fs : Slots, (∀ b, b ∈ readsSlots (reads j h) fs → h'[b]? = h[b]?) →
        digestSlots (digest j h') fs = digestSlots (digest j h) fs ∧
        readsSlots (reads j h') fs = readsSlots (reads j h) fs := fun fs hfs =>
      ⟨digestSlots_congr fs (fun p hp =>
          (digest_local j h h' p.2 (fun b hb => hfs b (mem_readsSlots.mpr ⟨p, hp, hb⟩))).1),
        readsSlots_congr fs (fun p hp =>
          (digest_local j h h' p.2 (fun b hb => hfs b (mem_readsSlots.mpr ⟨p, hp, hb⟩))).2)⟩
    simp only [digest, reads, ha]
    cases hc : h[a]? with
    | none => exact ⟨rfl, rfl⟩
    | some cell =>
      have hl' : ∀ b, b ∈ reads (j + 1) h (.ref a) → h'[b]? = h[b]? := hl
      simp only [reads, hc] at hl'
      cases cell with
      | arr x => exact ⟨rfl, rfl⟩
      | dict fs =>
        obtain ⟨k1, k2⟩ := key fs (fun b hb => hl' b (List.mem_cons_of_mem _ hb))
        simp only [k1, k2, and_self]
      | frozen fs =>
        obtain ⟨k1, k2⟩ := key fs (fun b hb => hl' b (List.mem_cons_of_mem _ hb))
        simp only [k1, k2, and_self]
      | obj c fs =>
        obtain ⟨k1, k2⟩ := key fs (fun b hb => hl' b (List.mem_cons_of_mem _ hb))
        simp only [k1, k2, and_self]

theorem wrapTok_some {o : Tok} {r : Option (List Tok)} {t : List Tok} (e : wrapTok o r = some t) :
    ∃ ts, r = some ts ∧ t = o :: (ts ++ [Tok.close]) := by
  cases r with
  | none => cases e
  | some ts => simp only [wrapTok, Option.map_some, Option.some.injEq] at e; exact ⟨ts, rfl, e.symm⟩

/-- a digest that exists read existing cells only -/
theorem digest_reads_lt : ∀ (j : Nat) (h : Heap) (v : Val) (t : List Tok), digest j h v = some t →
    ∀ b, b ∈ reads j h v → b < h.length
  | 0, _, _, _, e, _, _ => by cases e
  | _ + 1, _, .imm _, _, _, b, hb => by simp [reads] at hb
  | j + 1, h, .ref a, t, e, b, hb => by
    have key : ∀ (fs : Slots) (ts : List Tok), digestSlots (digest j h) fs = some ts →
        ∀ b, b ∈ readsSlots (reads j h) fs → b < h.length := fun fs ts hs b hb => by
      obtain ⟨p, hp, hb⟩ := mem_readsSlots.mp hb
      obtain ⟨t', ht'⟩ := digestSlots_some_mem hs p hp
      exact digest_reads_lt j h p.2 t' ht' b hb
    simp only [digest] at e
    simp only [reads] at hb
    cases hc : h[a]? with
    | none => rw [hc] at e; cases e
    | some cell =>
      rw [hc] at e hb
      have hal : a < h.length := get_lt hc
      cases cell with
      | arr x => simp only [List.mem_singleton] at hb; subst hb; exact hal
      | dict fs =>
        obtain ⟨ts, hts, _⟩ := wrapTok_some e
        rcases List.mem_cons.mp hb with rfl | hb
        · exact hal
        · exact key fs ts hts b hb
      | frozen fs =>
        obtain ⟨ts, hts, _⟩ := wrapTok_some e
        rcases List.mem_cons.mp hb with rfl | hb
        · exact hal
        · exact key fs ts hts b hb
      | obj c fs =>
        obtain ⟨ts, hts, _⟩ := wrapTok_some e
        rcases List.mem_cons.mp hb with rfl | hb
        · exact hal
        · exact key fs ts hts b hb

/-- allocation leaves digests alone -/
theorem digest_ext {h h' : Heap} (e : Ext h h') {j : Nat} {v : Val} {t : List Tok} (hd : digest j h v = some t) :
    digest j h' v = some t ∧ reads j h' v = reads j h v := by
  obtain ⟨k1, k2⟩ := digest_local j h h' v (fun b hb => e.get_lt (digest_reads_lt j h v t hd b hb))
  exact ⟨k1.trans hd, k2⟩

theorem digestSlots_local {j : Nat} {h h' : Heap} (fs : Slots)
    (hl : ∀ b, b ∈ readsSlots (reads j h) fs → h'[b]? = h[b]?) :
    digestSlots (digest j h') fs = digestSlots (digest j h) fs ∧
    readsSlots (reads j h') fs = readsSlots (reads j h) fs :=
  ⟨digestSlots_congr fs (fun p hp =>
      (digest_local j h h' p.2 (fun b hb => hl b (mem_readsSlots.mpr ⟨p, hp, hb⟩))).1),
    readsSlots_congr fs (fun p hp =>
      (digest_local j h h' p.2 (fun b hb => hl b (mem_readsSlots.mpr ⟨p, hp, hb⟩))).2)⟩

theorem digestSlots_reads_lt {j : Nat} {h : Heap} {fs : Slots} {ts : List Tok}
    (hs : digestSlots (digest j h) fs = some ts) : ∀ b, b ∈ readsSlots (reads j h) fs → b < h.length := by
  intro b hb
  obtain ⟨p, hp, hb⟩ := mem_readsSlots.mp hb
  obtain ⟨t', ht'⟩ := digestSlots_some_mem hs p hp
  exact digest_reads_lt j h p.2 t' ht' b hb

theorem digestSlots_ext {h h' : Heap} (e : Ext h h') {j : Nat} {fs : Slots} {ts : List Tok}
    (hs : digestSlots (digest j h) fs = some ts) :
    digestSlots (digest j h') fs = some ts ∧ readsSlots (reads j h') fs = readsSlots (reads j h) fs := by
  obtain ⟨k1, k2⟩ := digestSlots_local (h' := h') fs (fun b hb => e.get_lt (digestSlots_reads_lt hs b hb))
  exact ⟨k1.trans hs, k2⟩

/-! ### the generic copy phases, inverted once -/

theorem copySlots_cons {rec : CopyFn} {h h1 : Heap} {x : String} {v : Val} {t fs1 : Slots}
    (e : copySlots rec h ((x, v) :: t) = .ok (h1, fs1)) :
    ∃ hA v1 t1, (rec h v = .ok (hA, v1) ∨ (rec h v = .error .attr ∧ hA = h ∧ v1 = v)) ∧
      copySlots rec hA t = .ok (h1, t1) ∧ fs1 = (x, v1) :: t1 := by
  simp only [copySlots] at e
  cases hr1 : rec h v with
  | ok r =>
    obtain ⟨h2, v2⟩ := r
    rw [hr1] at e; simp only at e
    cases hc : copySlots rec h2 t with
    | ok r2 =>
      obtain ⟨h3, t3⟩ := r2
      rw [hc] at e; simp only [Except.ok.injEq, Prod.mk.injEq] at e
      exact ⟨h2, v2, t3, .inl rfl, by rw [← e.1]; exact hc, e.2.symm⟩
    | error e' => rw [hc] at e; cases e
  | error e' =>
    rw [hr1] at e
    cases e' with
    | attr =>
      simp only at e
      cases hc : copySlots rec h t with
      | ok r2 =>
        obtain ⟨h3, t3⟩ := r2
        rw [hc] at e; simp only [Except.ok.injEq, Prod.mk.injEq] at e
        exact ⟨h, v, t3, .inr ⟨rfl, rfl, rfl⟩, by rw [hc, ← e.1], e.2.symm⟩
      | error e'' => rw [hc] at e; cases e
    | fuel => cases e
    | notImpl => cases e
    | unknown => cases e
    | value => cases e
    | index => cases e

theorem copyValues_cons {rec : CopyFn} {h h1 : Heap} {x : String} {v : Val} {t fs1 : Slots}
    (e : copyValues rec h ((x, v) :: t) = .ok (h1, fs1)) :
    ∃ hA v1 t1, rec h v = .ok (hA, v1) ∧ copyValues rec hA t = .ok (h1, t1) ∧ fs1 = (x, v1) :: t1 := by
  simp only [copyValues] at e
  cases hr1 : rec h v with
  | ok r =>
    obtain ⟨h2, v2⟩ := r
    rw [hr1] at e; simp only at e
    cases hc : copyValues rec h2 t with
    | ok r2 =>
      obtain ⟨h3, t3⟩ := r2
      rw [hc] at e; simp only [Except.ok.injEq, Prod.mk.injEq] at e
      exact ⟨h2, v2, t3, rfl, by rw [← e.1]; exact hc, e.2.symm⟩
    | error e' => rw [hc] at e; cases e
  | error e' => rw [hr1] at e; cases e

/-- the generic phase keeps the attribute names, in order -/
theorem copySlots_names (rec : CopyFn) :
    ∀ (fs : Slots) (h h1 : Heap) (fs1 : Slots), copySlots rec h fs = .ok (h1, fs1) →
      fs1.map Prod.fst = fs.map Prod.fst
  | [], h, h1, fs1, e => by
    simp only [copySlots, Except.ok.injEq, Prod.mk.injEq] at e; rw [← e.2]
  | (x, v) :: t, h, h1, fs1, e => by
    obtain ⟨hA, v1, t1, _, hc, rfl⟩ := copySlots_cons e
    simp only [List.map_cons, copySlots_names rec t hA h1 t1 hc]

/-! ### `copy` preserves the deep digest -/

/-- the recursive call returns a value with the digest of its argument that reaches only cells the argument
reached or new cells -/
def DeepRec (rec : CopyFn) : Prop :=
  ∀ h v h1 v1, rec h v = .ok (h1, v1) → ∀ j t, digest j h v = some t →
    digest j h1 v1 = some t ∧ ∀ b, b ∈ reads j h1 v1 → b ∈ reads j h v ∨ h.length ≤ b

theorem copySlots_deep (rec : CopyFn) (hx : RecExt rec) (hd : DeepRec rec) (q : String → Bool) :
    ∀ (fs : Slots) (h h1 : Heap) (fs1 : Slots), copySlots rec h fs = .ok (h1, fs1) →
      ∀ j ts, digestSlots (digest j h) (fs.filter fun p => q p.1) = some ts →
        digestSlots (digest j h1) (fs1.filter fun p => q p.1) = some ts ∧
        ∀ b, b ∈ readsSlots (reads j h1) (fs1.filter fun p => q p.1) →
          b ∈ readsSlots (reads j h) (fs.filter fun p => q p.1) ∨ h.length ≤ b
  | [], h, h1, fs1, e, j, ts, hs => by
    simp only [copySlots, Except.ok.injEq, Prod.mk.injEq] at e
    obtain ⟨rfl, rfl⟩ := e
    exact ⟨hs, fun b hb => .inl hb⟩
  | (x, v) :: t, h, h1, fs1, e, j, ts, hs => by
    obtain ⟨hA, v1, t1, hstep, hc, rfl⟩ := copySlots_cons e
    have eA : Ext h hA := by
      rcases hstep with hs1 | ⟨_, rfl, _⟩
      · exact hx _ _ _ _ hs1
      · exact Ext.refl _
    have e1 : Ext hA h1 := copySlots_ext rec hx _ _ _ _ hc
    by_cases hq : q x = true
    · simp only [List.filter_cons, hq, if_true] at hs ⊢
      obtain ⟨a, b, h1a, h2b, rfl⟩ := digestSlots_cons_some hs
      -- the tail, first moved to the heap the tail is copied on
      obtain ⟨t2, r2⟩ := digestSlots_ext eA h2b
      obtain ⟨ih1, ih2⟩ := copySlots_deep rec hx hd q t hA h1 t1 hc j b t2
      -- the head
      have hhead : digest j hA v1 = some a ∧ ∀ b', b' ∈ reads j hA v1 → b' ∈ reads j h v ∨ h.length ≤ b' := by
        rcases hstep with hs1 | ⟨_, rfl, rfl⟩
        · exact hd _ _ _ _ hs1 j a h1a
        · exact ⟨h1a, fun b' hb' => .inl hb'⟩
      obtain ⟨d1, d2⟩ := digest_ext e1 hhead.1
      refine ⟨digestSlots_cons_of d1 ih1, fun b' hb' => ?_⟩
      simp only [readsSlots, List.mem_append] at hb' ⊢
      rcases hb' with hb' | hb'
      · rw [d2] at hb'
        rcases hhead.2 b' hb' with k | k
        · exact .inl (.inl k)
        · exact .inr k
      · rcases ih2 b' hb' with k | k
        · rw [r2] at k; exact .inl (.inr k)
        · exact .inr (Nat.le_trans eA.len k)
    · simp only [List.filter_cons, hq] at hs ⊢
      simp only [Bool.false_eq_true, if_false] at hs ⊢
      obtain ⟨t2, r2⟩ := digestSlots_ext eA hs
      obtain ⟨ih1, ih2⟩ := copySlots_deep rec hx hd q t hA h1 t1 hc j ts t2
      refine ⟨ih1, fun b' hb' => ?_⟩
      rcases ih2 b' hb' with k | k
      · rw [r2] at k; exact .inl k
      · exact .inr (Nat.le_trans eA.len k)

theorem copyValues_deep (rec : CopyFn) (hx : RecExt rec) (hd : DeepRec rec) :
    ∀ (fs : Slots) (h h1 : Heap) (fs1 : Slots), copyValues rec h fs = .ok (h1, fs1) →
      ∀ j ts, digestSlots (digest j h) fs = some ts →
        digestSlots (digest j h1) fs1 = some ts ∧
        ∀ b, b ∈ readsSlots (reads j h1) fs1 → b ∈ readsSlots (reads j h) fs ∨ h.length ≤ b
  | [], h, h1, fs1, e, j, ts, hs => by
    simp only [copyValues, Except.ok.injEq, Prod.mk.injEq] at e
    obtain ⟨rfl, rfl⟩ := e
    exact ⟨hs, fun b hb => .inl hb⟩
  | (x, v) :: t, h, h1, fs1, e, j, ts, hs => by
    obtain ⟨hA, v1, t1, hs1, hc, rfl⟩ := copyValues_cons e
    have eA : Ext h hA := hx _ _ _ _ hs1
    have e1 : Ext hA h1 := copyValues_ext rec hx _ _ _ _ hc
    obtain ⟨a, b, h1a, h2b, rfl⟩ := digestSlots_cons_some hs
    obtain ⟨t2, r2⟩ := digestSlots_ext eA h2b
    obtain ⟨ih1, ih2⟩ := copyValues_deep rec hx hd t hA h1 t1 hc j b t2
    obtain ⟨hh1, hh2⟩ := hd _ _ _ _ hs1 j a h1a
    obtain ⟨d1, d2⟩ := digest_ext e1 hh1
    refine ⟨digestSlots_cons_of d1 ih1, fun b' hb' => ?_⟩
    simp only [readsSlots, List.mem_append] at hb' ⊢
    rcases hb' with hb' | hb'
    · rw [d2] at hb'
      rcases hh2 b' hb' with k | k
      · exact .inl (.inl k)
      · exact .inr k
    · rcases ih2 b' hb' with k | k
      · rw [r2] at k; exact .inl (.inr k)
      · exact .inr (Nat.le_trans eA.len k)

end MenpoModel.C02
