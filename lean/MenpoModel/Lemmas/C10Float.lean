/-
C10 — the variance-fraction (python `float`) form of the `n_active_components` setter and of
`trim_components`: what count it selects, and that trimming by a fraction equals building with
that fraction.
-/
import MenpoModel.Lemmas.C10Book
import Mathlib.Algebra.Order.BigOperators.Group.List

namespace MenpoModel.C10
open St

theorem cumsumFrom_gt {l : List Rat} (hpos : ∀ x ∈ l, 0 < x) (a : Rat) : ∀ c ∈ cumsumFrom a l, a < c := by
  induction l generalizing a with
  | nil => intro c hc; simp [cumsumFrom] at hc
  | cons x t ih =>
    intro c hc
    have hx : 0 < x := hpos x List.mem_cons_self
    simp only [cumsumFrom, List.mem_cons] at hc
    rcases hc with rfl | hc
    · linarith
    · have := ih (fun y hy => hpos y (List.mem_cons_of_mem _ hy)) (a + x) c hc
      linarith

/-- how many running sums lie below `r`: a prefix, and the next one reaches `r` -/
theorem count_spec (L : List Rat) (hpos : ∀ x ∈ L, 0 < x) (acc r : Rat) :
    ((cumsumFrom acc L).filter (fun c => decide (c < r))).length ≤ L.length ∧
    (acc < r → acc + (L.take ((cumsumFrom acc L).filter (fun c => decide (c < r))).length).sum < r) ∧
    (((cumsumFrom acc L).filter (fun c => decide (c < r))).length < L.length →
      r ≤ acc + (L.take (((cumsumFrom acc L).filter (fun c => decide (c < r))).length + 1)).sum) := by
  induction L generalizing acc with
  | nil => simp [cumsumFrom]
  | cons x t ih =>
    have hpt : ∀ y ∈ t, 0 < y := fun y hy => hpos y (List.mem_cons_of_mem _ hy)
    by_cases hx : acc + x < r
    · obtain ⟨i1, i2, i3⟩ := ih hpt (acc + x)
      have hf : ((cumsumFrom acc (x :: t)).filter (fun c => decide (c < r))).length
          = ((cumsumFrom (acc + x) t).filter (fun c => decide (c < r))).length + 1 := by
        simp [cumsumFrom, hx]
      rw [hf]
      refine ⟨by simpa using i1, fun _ => ?_, fun hlt => ?_⟩
      · have := i2 hx
        simp only [List.take_succ_cons, List.sum_cons]
        linarith
      · have := i3 (by simpa using hlt)
        simp only [List.take_succ_cons, List.sum_cons] at this ⊢
        linarith
    · have hnil : (cumsumFrom (acc + x) t).filter (fun c => decide (c < r)) = [] := by
        rw [List.filter_eq_nil_iff]
        intro c hc
        have := cumsumFrom_gt hpt (acc + x) c hc
        simp only [decide_eq_true_eq, not_lt]
        linarith [not_lt.mp hx]
      have hf : ((cumsumFrom acc (x :: t)).filter (fun c => decide (c < r))).length = 0 := by
        simp [cumsumFrom, hx, hnil]
      rw [hf]
      refine ⟨Nat.zero_le _, fun h => by simpa using h, fun _ => ?_⟩
      simp only [Nat.zero_add, List.take_succ_cons, List.take_zero, List.sum_cons, List.sum_nil, add_zero]
      exact not_lt.mp hx

theorem sum_map_div (l : List Rat) (c : Rat) : (l.map (· / c)).sum = l.sum / c := by
  induction l with
  | nil => simp
  | cons a t ih => simp [ih, add_div]

theorem sum_take_mono {l : List Rat} (hpos : ∀ x ∈ l, 0 < x) {i j : Nat} (hij : i ≤ j) :
    (l.take i).sum ≤ (l.take j).sum := by
  have h := sum_take_drop (l.take j) i
  rw [List.take_take, Nat.min_eq_left hij] at h
  have h2 : 0 ≤ ((l.take j).drop i).sum := by
    apply List.sum_nonneg
    intro x hx
    exact le_of_lt (hpos x ((List.take_sublist _ _).subset ((List.drop_sublist _ _).subset hx)))
  linarith

theorem sum_take_le {l : List Rat} (hpos : ∀ x ∈ l, 0 < x) (i : Nat) : (l.take i).sum ≤ l.sum := by
  have h := sum_take_drop l i
  have h2 : 0 ≤ (l.drop i).sum := by
    apply List.sum_nonneg
    intro x hx
    exact le_of_lt (hpos x ((List.drop_sublist _ _).subset hx))
  linarith

/-- `k` is the count the variance fraction `r` selects on the spectrum `e` with original variance `O` -/
def Sel (e : List Rat) (O r : Rat) (k : Nat) : Prop :=
  1 ≤ k ∧ k ≤ e.length ∧ (e.take (k - 1)).sum / O < r ∧ r ≤ (e.take k).sum / O

theorem sel_unique {e : List Rat} (hpos : ∀ x ∈ e, 0 < x) {O r : Rat} (hO : 0 < O) {k k' : Nat}
    (h : Sel e O r k) (h' : Sel e O r k') : k = k' := by
  obtain ⟨a1, _, a3, a4⟩ := h
  obtain ⟨b1, _, b3, b4⟩ := h'
  by_contra hne
  rcases Nat.lt_or_gt_of_ne hne with hlt | hgt
  · have := sum_take_mono hpos (show k ≤ k' - 1 by omega)
    have := div_le_div_of_nonneg_right this (le_of_lt hO)
    linarith
  · have := sum_take_mono hpos (show k' ≤ k - 1 by omega)
    have := div_le_div_of_nonneg_right this (le_of_lt hO)
    linarith

theorem Reach.originalVariance_eq {eig0 : List Rat} {s : St} (hr : Reach eig0 s) :
    s.originalVariance = eig0.sum := by
  rw [St.originalVariance, hr.eig_eq, hr.trimmed_perm.sum_eq]
  exact sum_take_drop eig0 s.rows

theorem sum_pos_of_pos {l : List Rat} (hne : l ≠ []) (hpos : ∀ x ∈ l, 0 < x) : 0 < l.sum := by
  cases l with
  | nil => exact absurd rfl hne
  | cons a t =>
    have h1 : 0 < a := hpos a List.mem_cons_self
    have h2 : 0 ≤ t.sum := List.sum_nonneg (fun x hx => le_of_lt (hpos x (List.mem_cons_of_mem _ hx)))
    simp only [List.sum_cons]; linarith

/-- the float form of the setter on a reachable state of a positive spectrum -/
theorem setActive_float_sel {eig0 : List Rat} {s : St} (hr : Reach eig0 s) (hp : ∀ x ∈ eig0, 0 < x)
    {r : Rat} (hr0 : 0 < r) (hr1 : r ≤ s.totalVarianceRatio) :
    ∃ k, Sel s.eig eig0.sum r k ∧ s.setActive (.float r) = .ok { s with nActive := k } := by
  have hne : eig0 ≠ [] := by
    intro h; have := hr.rows_le; have := hr.rows_pos; simp [h] at *; omega
  have hO : 0 < eig0.sum := sum_pos_of_pos hne hp
  have hOv := hr.originalVariance_eq
  have hpe : ∀ x ∈ s.eig, 0 < x := by
    intro x hx; rw [hr.eig_eq] at hx; exact hp x ((List.take_sublist _ _).subset hx)
  set L := s.totalEigenvaluesRatio with hL
  have hLdef : L = s.eig.map (· / eig0.sum) := by rw [hL, St.totalEigenvaluesRatio, hOv]
  have hLpos : ∀ x ∈ L, 0 < x := by
    intro x hx
    rw [hLdef] at hx
    obtain ⟨y, hy, rfl⟩ := List.mem_map.mp hx
    exact div_pos (hpe y hy) hO
  have hLlen : L.length = s.rows := by rw [hLdef, List.length_map, hr.eig_length]
  have htake : ∀ i, (L.take i).sum = (s.eig.take i).sum / eig0.sum := by
    intro i; rw [hLdef, ← List.map_take, sum_map_div]
  obtain ⟨c1, c2, c3⟩ := count_spec L hLpos 0 r
  set j := ((cumsumFrom 0 L).filter (fun c => decide (c < r))).length with hj
  have hratio : s.totalVarianceRatio = L.sum := by
    rw [St.totalVarianceRatio, St.totalVariance, hOv, hLdef, sum_map_div]
  have hjlt : j < L.length := by
    rcases Nat.lt_or_eq_of_le c1 with h | h
    · exact h
    · exfalso
      have := c2 hr0
      rw [h, List.take_length, zero_add] at this
      rw [hratio] at hr1
      linarith
  refine ⟨j + 1, ⟨Nat.le_add_left _ _, by rw [hr.eig_length, ← hLlen]; exact hjlt, ?_, ?_⟩, ?_⟩
  · have := c2 hr0
    rw [zero_add, htake] at this
    simpa using this
  · have := c3 hjlt
    rw [zero_add, htake] at this
    exact this
  · have hcond : 0 < r ∧ r ≤ s.totalVarianceRatio := ⟨hr0, hr1⟩
    have hfin : (0 : Int) < (j : Int) + 1 ∧ (j : Int) + 1 ≤ (s.rows : Int) := by
      rw [← hLlen]; omega
    simp only [St.setActive, hcond, and_self, if_true, St.totalCumRatio, cumsum, ← hL, ← hj, St.finalSet, hfin]
    congr 2

theorem sel_take {eig0 : List Rat} {m k : Nat} {O r : Rat} (hm : m ≤ eig0.length)
    (h : Sel (eig0.take m) O r k) : Sel eig0 O r k := by
  obtain ⟨a1, a2, a3, a4⟩ := h
  rw [List.length_take, Nat.min_eq_left hm] at a2
  refine ⟨a1, le_trans a2 hm, ?_, ?_⟩
  · rwa [List.take_take, Nat.min_eq_left (by omega)] at a3
  · rwa [List.take_take, Nat.min_eq_left a2] at a4

/-- PROPERTY helper: the float form of the setter on a reachable state -/
theorem setActive_float_spec {eig0 : List Rat} {s : St} (hr : Reach eig0 s) (hp : ∀ x ∈ eig0, 0 < x)
    {r : Rat} (hr0 : 0 < r) (hr1 : r ≤ s.totalVarianceRatio) :
    ∃ s', s.setActive (.float r) = .ok s' ∧ r ≤ s'.varianceRatio ∧
      (s'.eig.take (s'.nActive - 1)).sum / s'.originalVariance < r := by
  obtain ⟨k, ⟨_, _, a3, a4⟩, hk⟩ := setActive_float_sel hr hp hr0 hr1
  refine ⟨_, hk, ?_, ?_⟩
  · have : ({ s with nActive := k } : St).originalVariance = eig0.sum := hr.originalVariance_eq
    simp only [St.varianceRatio, St.variance, St.eigenvalues, this]
    exact a4
  · have : ({ s with nActive := k } : St).originalVariance = eig0.sum := hr.originalVariance_eq
    rw [this]; exact a3

/-- trimming by a fraction: result has exactly the selected number of rows -/
theorem trim_float_result {eig0 : List Rat} {s : St} (hr : Reach eig0 s) (hp : ∀ x ∈ eig0, 0 < x)
    {r : Rat} (hr0 : 0 < r) (hr1 : r ≤ s.totalVarianceRatio) :
    ∃ s' k, s.trim (some (.float r)) = .ok s' ∧ Reach eig0 s' ∧ s'.rows = k ∧ s'.nActive = k ∧
      Sel eig0 eig0.sum r k := by
  obtain ⟨k, hsel, hk⟩ := setActive_float_sel hr hp hr0 hr1
  have hsel0 : Sel eig0 eig0.sum r k := by
    rw [hr.eig_eq] at hsel; exact sel_take hr.rows_le hsel
  have hkrows : k ≤ s.rows := by have := hsel.2.1; rwa [hr.eig_length] at this
  have key : ∃ s', s.trim (some (.float r)) = .ok s' ∧ s'.rows = k ∧ s'.nActive = k := by
    by_cases hlt : k < s.rows
    · exact ⟨_, by simp only [St.trim, hk, hlt, if_true]; rfl, Nat.min_eq_left hkrows, rfl⟩
    · have hkeq : k = s.rows := by omega
      exact ⟨{ s with nActive := k }, by simp only [St.trim, hk, hlt, if_false], hkeq.symm, rfl⟩
  obtain ⟨s', ht, h1, h2⟩ := key
  exact ⟨s', k, ht, reach_trim hr ht, h1, h2, hsel0⟩

theorem trim_float_of_reach {eig0 : List Rat} {s : St} (h0 : eig0 ≠ []) (hp : ∀ x ∈ eig0, 0 < x)
    (hr : Reach eig0 s) {r : Rat} (hr0 : 0 < r) (hr1 : r ≤ s.totalVarianceRatio) :
    ∃ s' b, s.trim (some (.float r)) = .ok s' ∧ build eig0.length eig0 (some (.float r)) = .ok b ∧
      s'.rows = b.rows ∧ s'.eig = b.eig ∧ s'.nActive = b.nActive ∧ s'.trimmed.Perm b.trimmed := by
  have hO : 0 < eig0.sum := sum_pos_of_pos h0 hp
  have hi := reach_init h0
  have hr1' : r ≤ (init eig0.length eig0).totalVarianceRatio := by
    refine le_trans hr1 ?_
    rw [St.totalVarianceRatio, St.totalVarianceRatio, hr.originalVariance_eq, hi.originalVariance_eq,
      St.totalVariance, St.totalVariance, hr.eig_eq]
    exact div_le_div_of_nonneg_right (sum_take_le hp _) (le_of_lt hO)
  obtain ⟨s', k, t1, r1, a1, a2, a3⟩ := trim_float_result hr hp hr0 hr1
  obtain ⟨b, kb, t2, r2, b1, b2, b3⟩ := trim_float_result hi hp hr0 hr1'
  have hk : k = kb := sel_unique hp hO a3 b3
  subst hk
  refine ⟨s', b, t1, by simpa [build] using t2, by rw [a1, b1], ?_, by rw [a2, b2], ?_⟩
  · rw [r1.eig_eq, r2.eig_eq, a1, b1]
  · refine r1.trimmed_perm.trans ?_
    rw [a1, ← b1]
    exact r2.trimmed_perm.symm

end MenpoModel.C10
