/- TRANSLATED by harness/trans_c10.py (harness/py2lean2.py) from the SOURCE TEXT of menpo/math/decomposition.py
   (eigenvalue_decomposition, pca, pcacov) of the current working tree on every run of `./check C10`; do not edit.
   GenProps/C10SrcDec.lean proves every definition equal to the Core definition the C10 theorems are about. -/
import MenpoModel.Core.C10SrcDec

set_option linter.unusedVariables false

namespace MenpoModel.C10.Generated
open MenpoModel.C10 MenpoModel.C10.Src

def genEigenvalueDecomposition {α : Type} (sparse : Bool) (n : Nat) (macheps : Rat) (evals sevals : List Rat) (evecs sevecs : List α) (isinverse : Bool) (eps : Rat) : List α × List Rat :=
  if sparse then
    let p0 := (sevals, sevecs)
    let eigenvalues0 := p0.1
    let eigenvectors0 := p0.2
    let index0 := (argsortDesc eigenvalues0)
    let eigenvalues1 := (PyIdx.idx eigenvalues0 index0)
    let eigenvectors1 := (PyIdx.idx eigenvectors0 index0)
    let eps0 := (max eps ((n : Rat) * macheps))
    let limit0 := ((maxAbs eigenvalues1) * eps0)
    let posindex0 := (List.map (fun x => decide (x > (0 : Rat))) eigenvalues1)
    let poseigenvalues0 := (PyIdx.idx eigenvalues1 posindex0)
    let poseigenvectors0 := (PyIdx.idx eigenvectors1 posindex0)
    let index1 := (List.map (fun x => decide (x > limit0)) poseigenvalues0)
    let poseigenvalues1 := (PyIdx.idx poseigenvalues0 index1)
    let poseigenvectors1 := (PyIdx.idx poseigenvectors0 index1)
    if isinverse then
      let poseigenvalues0 := (List.map (fun x => x⁻¹) (List.reverse poseigenvalues1))
      let poseigenvectors0 := (List.reverse poseigenvectors1)
      (poseigenvectors0, poseigenvalues0)
    else
      (poseigenvectors1, poseigenvalues1)
  else
    let p0 := (evals, evecs)
    let eigenvalues0 := p0.1
    let eigenvectors0 := p0.2
    let index0 := (argsortDesc eigenvalues0)
    let eigenvalues1 := (PyIdx.idx eigenvalues0 index0)
    let eigenvectors1 := (PyIdx.idx eigenvectors0 index0)
    let eps0 := (max eps ((n : Rat) * macheps))
    let limit0 := ((maxAbs eigenvalues1) * eps0)
    let posindex0 := (List.map (fun x => decide (x > (0 : Rat))) eigenvalues1)
    let poseigenvalues0 := (PyIdx.idx eigenvalues1 posindex0)
    let poseigenvectors0 := (PyIdx.idx eigenvectors1 posindex0)
    let index1 := (List.map (fun x => decide (x > limit0)) poseigenvalues0)
    let poseigenvalues1 := (PyIdx.idx poseigenvalues0 index1)
    let poseigenvectors1 := (PyIdx.idx poseigenvectors0 index1)
    if isinverse then
      let poseigenvalues0 := (List.map (fun x => x⁻¹) (List.reverse poseigenvalues1))
      let poseigenvectors0 := (List.reverse poseigenvectors1)
      (poseigenvectors0, poseigenvalues0)
    else
      (poseigenvectors1, poseigenvalues1)

def genPca {A : Type} (np : ND A) (inexact writeable : Bool) (X : A) (centre inplace : Bool) (eps : Rat) : A × A × A :=
  let p0 := (np.shape X)
  let n0 := p0.1
  let d0 := p0.2
  if centre then
    let m0 := (np.meanRows X)
    if (inplace && (!inexact)) then
      let inplace0 := false
      if (inplace0 && (!writeable)) then
        let inplace1 := false
        if inplace1 then
          let X0 := (np.sub X m0)
          if (decide (d0 < n0)) then
            let C0 := (np.divS (np.dot (np.T X0) X0) ((n0 : Rat) - 1))
            let C1 := (np.divS (np.add C0 (np.T C0)) 2)
            let p1 := (np.eigDec C1 false eps)
            let U0 := p1.1
            let l0 := p1.2
            let U1 := (np.T U0)
            (U1, l0, m0)
          else
            let C0 := (np.divS (np.dot X0 (np.T X0)) ((n0 : Rat) - 1))
            let C1 := (np.divS (np.add C0 (np.T C0)) 2)
            let p1 := (np.eigDec C1 false eps)
            let V0 := p1.1
            let l0 := p1.2
            let w0 := (np.rsqrtScaled n0 l0)
            let dot0 := (if inplace1 then np.dot else np.dot)
            let U0 := (dot0 (np.T V0) X0)
            let U1 := (np.scaleRows U0 w0)
            (U1, l0, m0)
        else
          let X0 := (np.sub X m0)
          if (decide (d0 < n0)) then
            let C0 := (np.divS (np.dot (np.T X0) X0) ((n0 : Rat) - 1))
            let C1 := (np.divS (np.add C0 (np.T C0)) 2)
            let p1 := (np.eigDec C1 false eps)
            let U0 := p1.1
            let l0 := p1.2
            let U1 := (np.T U0)
            (U1, l0, m0)
          else
            let C0 := (np.divS (np.dot X0 (np.T X0)) ((n0 : Rat) - 1))
            let C1 := (np.divS (np.add C0 (np.T C0)) 2)
            let p1 := (np.eigDec C1 false eps)
            let V0 := p1.1
            let l0 := p1.2
            let w0 := (np.rsqrtScaled n0 l0)
            let dot0 := (if inplace1 then np.dot else np.dot)
            let U0 := (dot0 (np.T V0) X0)
            let U1 := (np.scaleRows U0 w0)
            (U1, l0, m0)
      else
        if inplace0 then
          let X0 := (np.sub X m0)
          if (decide (d0 < n0)) then
            let C0 := (np.divS (np.dot (np.T X0) X0) ((n0 : Rat) - 1))
            let C1 := (np.divS (np.add C0 (np.T C0)) 2)
            let p1 := (np.eigDec C1 false eps)
            let U0 := p1.1
            let l0 := p1.2
            let U1 := (np.T U0)
            (U1, l0, m0)
          else
            let C0 := (np.divS (np.dot X0 (np.T X0)) ((n0 : Rat) - 1))
            let C1 := (np.divS (np.add C0 (np.T C0)) 2)
            let p1 := (np.eigDec C1 false eps)
            let V0 := p1.1
            let l0 := p1.2
            let w0 := (np.rsqrtScaled n0 l0)
            let dot0 := (if inplace0 then np.dot else np.dot)
            let U0 := (dot0 (np.T V0) X0)
            let U1 := (np.scaleRows U0 w0)
            (U1, l0, m0)
        else
          let X0 := (np.sub X m0)
          if (decide (d0 < n0)) then
            let C0 := (np.divS (np.dot (np.T X0) X0) ((n0 : Rat) - 1))
            let C1 := (np.divS (np.add C0 (np.T C0)) 2)
            let p1 := (np.eigDec C1 false eps)
            let U0 := p1.1
            let l0 := p1.2
            let U1 := (np.T U0)
            (U1, l0, m0)
          else
            let C0 := (np.divS (np.dot X0 (np.T X0)) ((n0 : Rat) - 1))
            let C1 := (np.divS (np.add C0 (np.T C0)) 2)
            let p1 := (np.eigDec C1 false eps)
            let V0 := p1.1
            let l0 := p1.2
            let w0 := (np.rsqrtScaled n0 l0)
            let dot0 := (if inplace0 then np.dot else np.dot)
            let U0 := (dot0 (np.T V0) X0)
            let U1 := (np.scaleRows U0 w0)
            (U1, l0, m0)
    else
      if (inplace && (!writeable)) then
        let inplace0 := false
        if inplace0 then
          let X0 := (np.sub X m0)
          if (decide (d0 < n0)) then
            let C0 := (np.divS (np.dot (np.T X0) X0) ((n0 : Rat) - 1))
            let C1 := (np.divS (np.add C0 (np.T C0)) 2)
            let p1 := (np.eigDec C1 false eps)
            let U0 := p1.1
            let l0 := p1.2
            let U1 := (np.T U0)
            (U1, l0, m0)
          else
            let C0 := (np.divS (np.dot X0 (np.T X0)) ((n0 : Rat) - 1))
            let C1 := (np.divS (np.add C0 (np.T C0)) 2)
            let p1 := (np.eigDec C1 false eps)
            let V0 := p1.1
            let l0 := p1.2
            let w0 := (np.rsqrtScaled n0 l0)
            let dot0 := (if inplace0 then np.dot else np.dot)
            let U0 := (dot0 (np.T V0) X0)
            let U1 := (np.scaleRows U0 w0)
            (U1, l0, m0)
        else
          let X0 := (np.sub X m0)
          if (decide (d0 < n0)) then
            let C0 := (np.divS (np.dot (np.T X0) X0) ((n0 : Rat) - 1))
            let C1 := (np.divS (np.add C0 (np.T C0)) 2)
            let p1 := (np.eigDec C1 false eps)
            let U0 := p1.1
            let l0 := p1.2
            let U1 := (np.T U0)
            (U1, l0, m0)
          else
            let C0 := (np.divS (np.dot X0 (np.T X0)) ((n0 : Rat) - 1))
            let C1 := (np.divS (np.add C0 (np.T C0)) 2)
            let p1 := (np.eigDec C1 false eps)
            let V0 := p1.1
            let l0 := p1.2
            let w0 := (np.rsqrtScaled n0 l0)
            let dot0 := (if inplace0 then np.dot else np.dot)
            let U0 := (dot0 (np.T V0) X0)
            let U1 := (np.scaleRows U0 w0)
            (U1, l0, m0)
      else
        if inplace then
          let X0 := (np.sub X m0)
          if (decide (d0 < n0)) then
            let C0 := (np.divS (np.dot (np.T X0) X0) ((n0 : Rat) - 1))
            let C1 := (np.divS (np.add C0 (np.T C0)) 2)
            let p1 := (np.eigDec C1 false eps)
            let U0 := p1.1
            let l0 := p1.2
            let U1 := (np.T U0)
            (U1, l0, m0)
          else
            let C0 := (np.divS (np.dot X0 (np.T X0)) ((n0 : Rat) - 1))
            let C1 := (np.divS (np.add C0 (np.T C0)) 2)
            let p1 := (np.eigDec C1 false eps)
            let V0 := p1.1
            let l0 := p1.2
            let w0 := (np.rsqrtScaled n0 l0)
            let dot0 := (if inplace then np.dot else np.dot)
            let U0 := (dot0 (np.T V0) X0)
            let U1 := (np.scaleRows U0 w0)
            (U1, l0, m0)
        else
          let X0 := (np.sub X m0)
          if (decide (d0 < n0)) then
            let C0 := (np.divS (np.dot (np.T X0) X0) ((n0 : Rat) - 1))
            let C1 := (np.divS (np.add C0 (np.T C0)) 2)
            let p1 := (np.eigDec C1 false eps)
            let U0 := p1.1
            let l0 := p1.2
            let U1 := (np.T U0)
            (U1, l0, m0)
          else
            let C0 := (np.divS (np.dot X0 (np.T X0)) ((n0 : Rat) - 1))
            let C1 := (np.divS (np.add C0 (np.T C0)) 2)
            let p1 := (np.eigDec C1 false eps)
            let V0 := p1.1
            let l0 := p1.2
            let w0 := (np.rsqrtScaled n0 l0)
            let dot0 := (if inplace then np.dot else np.dot)
            let U0 := (dot0 (np.T V0) X0)
            let U1 := (np.scaleRows U0 w0)
            (U1, l0, m0)
  else
    let m0 := (np.zeros d0)
    if (inplace && (!inexact)) then
      let inplace0 := false
      if (inplace0 && (!writeable)) then
        let inplace1 := false
        if inplace1 then
          let X0 := (np.sub X m0)
          if (decide (d0 < n0)) then
            let C0 := (np.divS (np.dot (np.T X0) X0) ((n0 : Rat) - 1))
            let C1 := (np.divS (np.add C0 (np.T C0)) 2)
            let p1 := (np.eigDec C1 false eps)
            let U0 := p1.1
            let l0 := p1.2
            let U1 := (np.T U0)
            (U1, l0, m0)
          else
            let C0 := (np.divS (np.dot X0 (np.T X0)) ((n0 : Rat) - 1))
            let C1 := (np.divS (np.add C0 (np.T C0)) 2)
            let p1 := (np.eigDec C1 false eps)
            let V0 := p1.1
            let l0 := p1.2
            let w0 := (np.rsqrtScaled n0 l0)
            let dot0 := (if inplace1 then np.dot else np.dot)
            let U0 := (dot0 (np.T V0) X0)
            let U1 := (np.scaleRows U0 w0)
            (U1, l0, m0)
        else
          let X0 := (np.sub X m0)
          if (decide (d0 < n0)) then
            let C0 := (np.divS (np.dot (np.T X0) X0) ((n0 : Rat) - 1))
            let C1 := (np.divS (np.add C0 (np.T C0)) 2)
            let p1 := (np.eigDec C1 false eps)
            let U0 := p1.1
            let l0 := p1.2
            let U1 := (np.T U0)
            (U1, l0, m0)
          else
            let C0 := (np.divS (np.dot X0 (np.T X0)) ((n0 : Rat) - 1))
            let C1 := (np.divS (np.add C0 (np.T C0)) 2)
            let p1 := (np.eigDec C1 false eps)
            let V0 := p1.1
            let l0 := p1.2
            let w0 := (np.rsqrtScaled n0 l0)
            let dot0 := (if inplace1 then np.dot else np.dot)
            let U0 := (dot0 (np.T V0) X0)
            let U1 := (np.scaleRows U0 w0)
            (U1, l0, m0)
      else
        if inplace0 then
          let X0 := (np.sub X m0)
          if (decide (d0 < n0)) then
            let C0 := (np.divS (np.dot (np.T X0) X0) ((n0 : Rat) - 1))
            let C1 := (np.divS (np.add C0 (np.T C0)) 2)
            let p1 := (np.eigDec C1 false eps)
            let U0 := p1.1
            let l0 := p1.2
            let U1 := (np.T U0)
            (U1, l0, m0)
          else
            let C0 := (np.divS (np.dot X0 (np.T X0)) ((n0 : Rat) - 1))
            let C1 := (np.divS (np.add C0 (np.T C0)) 2)
            let p1 := (np.eigDec C1 false eps)
            let V0 := p1.1
            let l0 := p1.2
            let w0 := (np.rsqrtScaled n0 l0)
            let dot0 := (if inplace0 then np.dot else np.dot)
            let U0 := (dot0 (np.T V0) X0)
            let U1 := (np.scaleRows U0 w0)
            (U1, l0, m0)
        else
          let X0 := (np.sub X m0)
          if (decide (d0 < n0)) then
            let C0 := (np.divS (np.dot (np.T X0) X0) ((n0 : Rat) - 1))
            let C1 := (np.divS (np.add C0 (np.T C0)) 2)
            let p1 := (np.eigDec C1 false eps)
            let U0 := p1.1
            let l0 := p1.2
            let U1 := (np.T U0)
            (U1, l0, m0)
          else
            let C0 := (np.divS (np.dot X0 (np.T X0)) ((n0 : Rat) - 1))
            let C1 := (np.divS (np.add C0 (np.T C0)) 2)
            let p1 := (np.eigDec C1 false eps)
            let V0 := p1.1
            let l0 := p1.2
            let w0 := (np.rsqrtScaled n0 l0)
            let dot0 := (if inplace0 then np.dot else np.dot)
            let U0 := (dot0 (np.T V0) X0)
            let U1 := (np.scaleRows U0 w0)
            (U1, l0, m0)
    else
      if (inplace && (!writeable)) then
        let inplace0 := false
        if inplace0 then
          let X0 := (np.sub X m0)
          if (decide (d0 < n0)) then
            let C0 := (np.divS (np.dot (np.T X0) X0) ((n0 : Rat) - 1))
            let C1 := (np.divS (np.add C0 (np.T C0)) 2)
            let p1 := (np.eigDec C1 false eps)
            let U0 := p1.1
            let l0 := p1.2
            let U1 := (np.T U0)
            (U1, l0, m0)
          else
            let C0 := (np.divS (np.dot X0 (np.T X0)) ((n0 : Rat) - 1))
            let C1 := (np.divS (np.add C0 (np.T C0)) 2)
            let p1 := (np.eigDec C1 false eps)
            let V0 := p1.1
            let l0 := p1.2
            let w0 := (np.rsqrtScaled n0 l0)
            let dot0 := (if inplace0 then np.dot else np.dot)
            let U0 := (dot0 (np.T V0) X0)
            let U1 := (np.scaleRows U0 w0)
            (U1, l0, m0)
        else
          let X0 := (np.sub X m0)
          if (decide (d0 < n0)) then
            let C0 := (np.divS (np.dot (np.T X0) X0) ((n0 : Rat) - 1))
            let C1 := (np.divS (np.add C0 (np.T C0)) 2)
            let p1 := (np.eigDec C1 false eps)
            let U0 := p1.1
            let l0 := p1.2
            let U1 := (np.T U0)
            (U1, l0, m0)
          else
            let C0 := (np.divS (np.dot X0 (np.T X0)) ((n0 : Rat) - 1))
            let C1 := (np.divS (np.add C0 (np.T C0)) 2)
            let p1 := (np.eigDec C1 false eps)
            let V0 := p1.1
            let l0 := p1.2
            let w0 := (np.rsqrtScaled n0 l0)
            let dot0 := (if inplace0 then np.dot else np.dot)
            let U0 := (dot0 (np.T V0) X0)
            let U1 := (np.scaleRows U0 w0)
            (U1, l0, m0)
      else
        if inplace then
          let X0 := (np.sub X m0)
          if (decide (d0 < n0)) then
            let C0 := (np.divS (np.dot (np.T X0) X0) ((n0 : Rat) - 1))
            let C1 := (np.divS (np.add C0 (np.T C0)) 2)
            let p1 := (np.eigDec C1 false eps)
            let U0 := p1.1
            let l0 := p1.2
            let U1 := (np.T U0)
            (U1, l0, m0)
          else
            let C0 := (np.divS (np.dot X0 (np.T X0)) ((n0 : Rat) - 1))
            let C1 := (np.divS (np.add C0 (np.T C0)) 2)
            let p1 := (np.eigDec C1 false eps)
            let V0 := p1.1
            let l0 := p1.2
            let w0 := (np.rsqrtScaled n0 l0)
            let dot0 := (if inplace then np.dot else np.dot)
            let U0 := (dot0 (np.T V0) X0)
            let U1 := (np.scaleRows U0 w0)
            (U1, l0, m0)
        else
          let X0 := (np.sub X m0)
          if (decide (d0 < n0)) then
            let C0 := (np.divS (np.dot (np.T X0) X0) ((n0 : Rat) - 1))
            let C1 := (np.divS (np.add C0 (np.T C0)) 2)
            let p1 := (np.eigDec C1 false eps)
            let U0 := p1.1
            let l0 := p1.2
            let U1 := (np.T U0)
            (U1, l0, m0)
          else
            let C0 := (np.divS (np.dot X0 (np.T X0)) ((n0 : Rat) - 1))
            let C1 := (np.divS (np.add C0 (np.T C0)) 2)
            let p1 := (np.eigDec C1 false eps)
            let V0 := p1.1
            let l0 := p1.2
            let w0 := (np.rsqrtScaled n0 l0)
            let dot0 := (if inplace then np.dot else np.dot)
            let U0 := (dot0 (np.T V0) X0)
            let U1 := (np.scaleRows U0 w0)
            (U1, l0, m0)

def genPcacov {A : Type} (np : ND A) (C : A) (isinverse : Bool) (eps : Rat) : Except Err (A × A) :=
  if (np.notSquare C) then
    .error .value
  else
    let C0 := (np.divS (np.add C (np.T C)) 2)
    let p0 := (np.eigDec C0 isinverse eps)
    let U0 := p0.1
    let l0 := p0.2
    let U1 := (np.T U0)
    .ok ((U1, l0))


end MenpoModel.C10.Generated
