/- TRANSLATED by harness/trans_c02.py (harness/py2lean2.py, harness/py2lean2x.py) from the SOURCE TEXT of the menpo
   working tree on every run of `./check C02`; do not edit.  One definition per Python method (value level: objects
   are values, an in-place method returns the new state of its receiver and its return value; calls of other methods
   are parameters).  GenProps/C02SrcV.lean proves `srcMethods = coreMethods` and the `_apply` plumbing equalities. -/
import MenpoModel.Core.C02Src

set_option linter.unusedVariables false

namespace MenpoModel.C02.Generated
open MenpoModel.C02

/-- a returned `self` / `None` as a Python value -/
class ToPV (α : Type) where
  toPV : α → PV
export ToPV (toPV)
instance : ToPV Shape := ⟨PV.shape⟩
instance : ToPV Groups := ⟨PV.manager⟩
instance : ToPV PV := ⟨id⟩

def srcLandmarkManager_n_groups (self : Groups) : Int :=
  (Groups.len self)

def srcLandmarkable_landmarks (self : Shape) : Groups :=
  if ((Shape.lmAttr self)).isNone then
    let self0 := (Shape.setLmAttr self (some Groups.nil))
    (((Shape.lmAttr self0)).getD Groups.nil)
  else
    (((Shape.lmAttr self)).getD Groups.nil)

def srcLandmarkable_has_landmarks (self : Shape) : Bool :=
  (((Shape.lmAttr self)).isSome && (((srcLandmarkManager_n_groups (srcLandmarkable_landmarks self)) != (0))))

def srcShape_transform_inplace (callM : Groups → Fn → Except Err (Groups × PV))
    (callSelf : Shape → Fn → Except Err (Shape × PV)) (self : Shape) (transform : Fn) : Except Err (Shape × PV) :=
  if (srcLandmarkable_has_landmarks self) then
    (callM (srcLandmarkable_landmarks self) transform).bind fun r_0 =>
    let self0 := (Shape.withLandmarks self r_0.1)
    callSelf self0 transform
  else
    callSelf self transform

def srcShape_transform_self_inplace (self : Shape) (transform : Fn) : Except Err (Shape × PV) :=
  .ok (self, PV.none)

def srcPointCloud_transform_self_inplace (self : Shape) (transform : Fn) : Except Err (Shape × PV) :=
  ((transform (Shape.points self))).bind fun h_0 =>
  let self0 := (Shape.setPoints self h_0)
  .ok (self0, toPV self0)

def srcLandmarkManager_transform_inplace (callS : Shape → Fn → Except Err (Shape × PV)) (self : Groups)
    (transform : Fn) : Except Err (Groups × PV) :=
  (forLoopE self (List.zipIdx (Groups.values self)) (fun acc0 it0 =>
      let self0 := acc0
      let group0 := it0.1
      (callS group0 transform).bind fun r_0 =>
      let group1 := r_0.1
      let self1 := (Groups.setValueAt self0 it0.2 group1)
      .ok (self1))).bind fun r_1 =>
  let self0 := r_1
  .ok (self0, toPV self0)

def srcTransformable_transform_inplace (self : PV) (transform : Fn) : Except Err (PV × PV) :=
  .error Err.notImpl

def srcTransformable_transform (callCopy : PV → Except Err PV) (callI : PV → Fn → Except Err (PV × PV))
    (self : PV) (transform : Fn) : Except Err PV :=
  (callCopy self).bind fun copyofself0 =>
    (callI copyofself0 transform).bind fun r_0 =>
    let copyofself1 := r_0.1
    .ok (copyofself1)

def srcTransform_apply_batched (self : Fn) (x : Arr) (batch_size : Option Int) : Except Err Arr :=
  if (batch_size).isNone then
    (self x)
  else
    let outputs0 := ([] : List Arr)
    let npoints0 := ((x).length : Int)
    if ((npoints0 == (0))) then
      (self x)
    else
      ((pyRange (0) npoints0 batch_size)).bind fun h_0 =>
      (forLoopE outputs0 h_0 (fun acc0 it0 =>
          let outputs1 := acc0
          let loind0 := it0
          let hiind0 := (loind0 + batch_size)
          ((self (pySlice x loind0 hiind0))).bind fun h_1 =>
          let outputs0 := (outputs1 ++ [h_1])
          .ok (outputs0))).bind fun r_2 =>
      let outputs1 := r_2
      (npVstack outputs1)

def srcTransform_apply (callT : PV → Fn → Except Err PV) (self : Fn) (x : PV) (batch_size : Option Int) :
    Except Err PV :=
  let transform0 : Fn := fun x0 =>
      BatchArg.run (srcTransform_apply_batched self) x0 batch_size
  tryExcept (
      callT x transform0
    ) (· == Err.attr) (
      BatchArg.run (srcTransform_apply_batched self) x batch_size
    )

def srcTransform_apply_default_batch_size : Option Int :=
  none

def srcTransformChain_apply (self : List Fn) (x : Arr) : Except Err Arr :=
  (reduceE (fun xi0 tr0 => (tr0 xi0)) self x)

def srcWithDims_apply (self : Dims) (x : Arr) : Except Err Arr :=
  ((colIndex x self)).bind fun y0 =>
    if (((NdArr.ndim y0) == (1))) then
      let y1 := (NdArr.newAxis y0)
      (NdArr.asArr y1)
    else
      (NdArr.asArr y0)

def srcHomogeneous_apply (self : Arr) (x : Arr) : Arr :=
  let hx0 := (hstackOnes x)
  let hy0 := (dotT hx0 self)
  (normLast hy0)

def srcAffine_linear_component (self : Arr) : Arr :=
  (sliceLinear self)

def srcAffine_translation_component (self : Arr) : List Rat :=
  (sliceTranslation self)

def srcAffine_apply (self : Arr) (x : Arr) : Arr :=
  (addRow (dotT x (srcAffine_linear_component self)) (srcAffine_translation_component self))


/-- the translated methods, as the record method resolution (`vApply` …) runs over -/
def srcMethods : VMethods where
  hasLandmarks := srcLandmarkable_has_landmarks
  landmarks := srcLandmarkable_landmarks
  nGroups := srcLandmarkManager_n_groups
  shapeInplace := srcShape_transform_inplace
  shapeSelf := srcShape_transform_self_inplace
  pcSelf := srcPointCloud_transform_self_inplace
  lmInplace := srcLandmarkManager_transform_inplace
  tInplace := srcTransformable_transform_inplace
  transform := srcTransformable_transform
  applyBatched := srcTransform_apply_batched
  apply := srcTransform_apply

end MenpoModel.C02.Generated
