/- TRANSLATED by harness/trans_c03.py (harness/py2lean.py) from the SOURCE TEXT of
   menpo.transform.homogeneous.base.Homogeneous._compose_before / _compose_after of the current working tree
   on every run of `./check C03`; do not edit.  GenProps/C03Ladder.lean proves it equal to `ladder`. -/
import MenpoModel.Core.C03Compose

namespace MenpoModel.Generated.C03
open MenpoModel.C03

variable {d : Nat}

def genLadder (tbl : ClassTable) : Nat → Dir → HT d → HT d → Option (HT d)
  | 0, _, _, _ => none
  | fuel + 1, .before, s, t =>
      if isSub tbl t.cls s.cls then
        if isAlign tbl s.cls then
          let newself0 := (⟨stripCls tbl s.cls, nonAlignmentMatrix s.cls s.M⟩ : HT d)
          let newself1 := (⟨newself0.cls, rawCompose .before newself0.M t.M⟩ : HT d)
          some newself1
        else
          let newself0 := s
          let newself1 := (⟨newself0.cls, rawCompose .before newself0.M t.M⟩ : HT d)
          some newself1
      else
        if isSub tbl s.cls t.cls then
          (genLadder tbl fuel .after t s).bind fun newself0 =>
            some newself0
        else
          if (isSub tbl s.cls .Similarity && isSub tbl t.cls .Similarity) then
            let newself0 := (⟨.Similarity, s.M⟩ : HT d)
            let newself1 := (⟨newself0.cls, rawCompose .before newself0.M t.M⟩ : HT d)
            some newself1
          else
            if (isSub tbl s.cls .Affine && isSub tbl t.cls .Affine) then
              let newself0 := (⟨.Affine, s.M⟩ : HT d)
              let newself1 := (⟨newself0.cls, rawCompose .before newself0.M t.M⟩ : HT d)
              some newself1
            else
              let newself0 := (⟨.Homogeneous, s.M⟩ : HT d)
              let newself1 := (⟨newself0.cls, rawCompose .before newself0.M t.M⟩ : HT d)
              some newself1
  | fuel + 1, .after, s, t =>
      if isSub tbl t.cls s.cls then
        if isAlign tbl s.cls then
          let newself0 := (⟨stripCls tbl s.cls, nonAlignmentMatrix s.cls s.M⟩ : HT d)
          let newself1 := (⟨newself0.cls, rawCompose .after newself0.M t.M⟩ : HT d)
          some newself1
        else
          let newself0 := s
          let newself1 := (⟨newself0.cls, rawCompose .after newself0.M t.M⟩ : HT d)
          some newself1
      else
        if isSub tbl s.cls t.cls then
          (genLadder tbl fuel .before t s).bind fun newself0 =>
            some newself0
        else
          if (isSub tbl s.cls .Similarity && isSub tbl t.cls .Similarity) then
            let newself0 := (⟨.Similarity, s.M⟩ : HT d)
            let newself1 := (⟨newself0.cls, rawCompose .after newself0.M t.M⟩ : HT d)
            some newself1
          else
            if (isSub tbl s.cls .Affine && isSub tbl t.cls .Affine) then
              let newself0 := (⟨.Affine, s.M⟩ : HT d)
              let newself1 := (⟨newself0.cls, rawCompose .after newself0.M t.M⟩ : HT d)
              some newself1
            else
              let newself0 := (⟨.Homogeneous, s.M⟩ : HT d)
              let newself1 := (⟨newself0.cls, rawCompose .after newself0.M t.M⟩ : HT d)
              some newself1

end MenpoModel.Generated.C03
