/- TRANSLATED by harness/trans_c12.py (harness/py2lean2.py, py2lean2w.py, py2lean2t.py) from the SOURCE TEXT of
   menpo/model/gmrf.py of the current working tree on every run of `./check C12`; do not edit.
   GenProps/C12Src.lean proves every definition equal to the Core definition the C12 theorems are about. -/
import MenpoModel.Core.C12Src

set_option linter.unusedVariables false

namespace MenpoModel.Generated.C12Src
open MenpoModel.C12 MenpoModel.C12.Src MenpoModel.Py

def genCovInverse (svd : Mat → Option (Mat × List Rat × Mat)) (covmat : Arr) (ncomponents : Option Nat) : Except PyErr Mat :=
  let covmat0 := (atleast2d covmat)
  if (ncomponents).isNone then
    npInv covmat0
  else
    (match npSvd svd covmat0 with
    | .error err =>
      npInv covmat0
    | .ok tmp0 =>
    let p0 := tmp0
    let s0 := p0.1
    let v0 := p0.2.1
    let d0 := p0.2.2
    let s1 := (colsTo s0 ncomponents)
    let v1 := (takeTo v0 ncomponents)
    let d1 := (rowsTo d0 ncomponents)
    .ok ((matDot (matDot s1 (diagRecip v1)) d1)))

def genCreateDense (cinv : Arr → Option Nat → Except PyErr Mat) (X : Mat) (graph : GraphS) (nfeatures nfpv : Nat) (mode : ModeS) (dtype : DType) (ncomponents : Option Nat) (bias : Bool) : Except PyErr Mat :=
  if (!(List.contains [ModeS.concatenation, ModeS.subtraction] mode)) then
    .error .valueError
  else
    let precision0 := (asDtype dtype (zerosRC nfeatures nfeatures))
    let edges0 := (List.range (GraphS.nEdges graph))
    let r0 := MenpoModel.Py.forLoop (none, precision0) (edges0) (fun acc0 it0 =>
        if (acc0.1).isSome then acc0 else
        let precision1 := acc0.2
        let e0 := it0
        let v10 := (GraphS.edgeAt graph e0).1
        let v20 := (GraphS.edgeAt graph e0).2
        let v1from0 := (v10 * nfpv)
        let v1to0 := ((v10 + (1)) * nfpv)
        let v2from0 := (v20 * nfpv)
        let v2to0 := ((v20 + (1)) * nfpv)
        if ((mode == ModeS.concatenation)) then
          let edgedata0 := (takeCols X ((pyRange v1from0 v1to0) ++ (pyRange v2from0 v2to0)))
          let covmat0 := (npCov edgedata0 bias)
          (match cinv covmat0 ncomponents with
          | .error err => (some (.error err), precision1)
          | .ok covmat1 =>
            if ((mode == ModeS.concatenation)) then
              let precision0 := (addSlice precision1 v1from0 v1to0 v1from0 v1to0 (slice2 covmat1 0 (some nfpv) 0 (some nfpv)))
              let precision1 := (addSlice precision0 v2from0 v2to0 v2from0 v2to0 (slice2 covmat1 nfpv none nfpv none))
              let precision0 := (setSlice precision1 v1from0 v1to0 v2from0 v2to0 (slice2 covmat1 0 (some nfpv) nfpv none))
              let precision1 := (setSlice precision0 v2from0 v2to0 v1from0 v1to0 (slice2 covmat1 nfpv none 0 (some nfpv)))
              (none, precision1)
            else
              if ((mode == ModeS.subtraction)) then
                let precision0 := (setSlice precision1 v1from0 v1to0 v2from0 v2to0 (-covmat1))
                let precision1 := (setSlice precision0 v2from0 v2to0 v1from0 v1to0 (-covmat1))
                let precision0 := (addSlice precision1 v1from0 v1to0 v1from0 v1to0 covmat1)
                let precision1 := (addSlice precision0 v2from0 v2to0 v2from0 v2to0 covmat1)
                (none, precision1)
              else
                (none, precision1))
        else
          let edgedata0 := ((sliceCols X v1from0 v1to0) - (sliceCols X v2from0 v2to0))
          let covmat0 := (npCov edgedata0 bias)
          (match cinv covmat0 ncomponents with
          | .error err => (some (.error err), precision1)
          | .ok covmat1 =>
            if ((mode == ModeS.concatenation)) then
              let precision0 := (addSlice precision1 v1from0 v1to0 v1from0 v1to0 (slice2 covmat1 0 (some nfpv) 0 (some nfpv)))
              let precision1 := (addSlice precision0 v2from0 v2to0 v2from0 v2to0 (slice2 covmat1 nfpv none nfpv none))
              let precision0 := (setSlice precision1 v1from0 v1to0 v2from0 v2to0 (slice2 covmat1 0 (some nfpv) nfpv none))
              let precision1 := (setSlice precision0 v2from0 v2to0 v1from0 v1to0 (slice2 covmat1 nfpv none 0 (some nfpv)))
              (none, precision1)
            else
              if ((mode == ModeS.subtraction)) then
                let precision0 := (setSlice precision1 v1from0 v1to0 v2from0 v2to0 (-covmat1))
                let precision1 := (setSlice precision0 v2from0 v2to0 v1from0 v1to0 (-covmat1))
                let precision0 := (addSlice precision1 v1from0 v1to0 v1from0 v1to0 covmat1)
                let precision1 := (addSlice precision0 v2from0 v2to0 v2from0 v2to0 covmat1)
                (none, precision1)
              else
                (none, precision1)))
    let precision1 := r0.2
    match r0.1 with
    | some v0 =>
        v0
    | none =>
      .ok (precision1)

def genCreateSparse (cinv : Arr → Option Nat → Except PyErr Mat) (argsort : List Nat → List Nat) (X : Mat) (graph : GraphS) (nfeatures nfpv : Nat) (mode : ModeS) (dtype : DType) (ncomponents : Option Nat) (bias : Bool) : Except PyErr BSR :=
  if (!(List.contains [ModeS.concatenation, ModeS.subtraction] mode)) then
    .error .valueError
  else
    let allblocks0 := (asDtype dtype (zerosN ((GraphS.nEdges graph) * (4)) nfpv nfpv))
    let columns0 := (List.replicate ((GraphS.nEdges graph) * (4)) (0 : Nat))
    let rows0 := (List.replicate ((GraphS.nEdges graph) * (4)) (0 : Nat))
    let edges0 := (List.range (GraphS.nEdges graph))
    let count0 := (-(1))
    let r0 := MenpoModel.Py.forLoop (none, allblocks0, columns0, rows0, count0) (edges0) (fun acc0 it0 =>
        if (acc0.1).isSome then acc0 else
        let allblocks1 := acc0.2.1
        let columns1 := acc0.2.2.1
        let rows1 := acc0.2.2.2.1
        let count1 := acc0.2.2.2.2
        let e0 := it0
        let v10 := (GraphS.edgeAt graph e0).1
        let v20 := (GraphS.edgeAt graph e0).2
        let v1from0 := (v10 * nfpv)
        let v1to0 := ((v10 + (1)) * nfpv)
        let v2from0 := (v20 * nfpv)
        let v2to0 := ((v20 + (1)) * nfpv)
        if ((mode == ModeS.concatenation)) then
          let edgedata0 := (takeCols X ((pyRange v1from0 v1to0) ++ (pyRange v2from0 v2to0)))
          let covmat0 := (npCov edgedata0 bias)
          (match cinv covmat0 ncomponents with
          | .error err => (some (.error err), allblocks1, columns1, rows1, count1)
          | .ok covmat1 =>
            if ((mode == ModeS.concatenation)) then
              let count0 := (count1 + (1))
              let allblocks0 := (pySet allblocks1 count0 (slice2 covmat1 0 (some nfpv) 0 (some nfpv)))
              let rows0 := (pySet rows1 count0 v10)
              let columns0 := (pySet columns1 count0 v10)
              let count1 := (count0 + (1))
              let allblocks1 := (pySet allblocks0 count1 (slice2 covmat1 nfpv none nfpv none))
              let rows1 := (pySet rows0 count1 v20)
              let columns1 := (pySet columns0 count1 v20)
              let count0 := (count1 + (1))
              let allblocks0 := (pySet allblocks1 count0 (slice2 covmat1 0 (some nfpv) nfpv none))
              let rows0 := (pySet rows1 count0 v10)
              let columns0 := (pySet columns1 count0 v20)
              let count1 := (count0 + (1))
              let allblocks1 := (pySet allblocks0 count1 (slice2 covmat1 nfpv none 0 (some nfpv)))
              let rows1 := (pySet rows0 count1 v20)
              let columns1 := (pySet columns0 count1 v10)
              (none, allblocks1, columns1, rows1, count1)
            else
              let count0 := (count1 + (1))
              let allblocks0 := (pySet allblocks1 count0 covmat1)
              let rows0 := (pySet rows1 count0 v10)
              let columns0 := (pySet columns1 count0 v10)
              let count1 := (count0 + (1))
              let allblocks1 := (pySet allblocks0 count1 covmat1)
              let rows1 := (pySet rows0 count1 v20)
              let columns1 := (pySet columns0 count1 v20)
              let count0 := (count1 + (1))
              let allblocks0 := (pySet allblocks1 count0 (-covmat1))
              let rows0 := (pySet rows1 count0 v10)
              let columns0 := (pySet columns1 count0 v20)
              let count1 := (count0 + (1))
              let allblocks1 := (pySet allblocks0 count1 (-covmat1))
              let rows1 := (pySet rows0 count1 v20)
              let columns1 := (pySet columns0 count1 v10)
              (none, allblocks1, columns1, rows1, count1))
        else
          let edgedata0 := ((sliceCols X v1from0 v1to0) - (sliceCols X v2from0 v2to0))
          let covmat0 := (npCov edgedata0 bias)
          (match cinv covmat0 ncomponents with
          | .error err => (some (.error err), allblocks1, columns1, rows1, count1)
          | .ok covmat1 =>
            if ((mode == ModeS.concatenation)) then
              let count0 := (count1 + (1))
              let allblocks0 := (pySet allblocks1 count0 (slice2 covmat1 0 (some nfpv) 0 (some nfpv)))
              let rows0 := (pySet rows1 count0 v10)
              let columns0 := (pySet columns1 count0 v10)
              let count1 := (count0 + (1))
              let allblocks1 := (pySet allblocks0 count1 (slice2 covmat1 nfpv none nfpv none))
              let rows1 := (pySet rows0 count1 v20)
              let columns1 := (pySet columns0 count1 v20)
              let count0 := (count1 + (1))
              let allblocks0 := (pySet allblocks1 count0 (slice2 covmat1 0 (some nfpv) nfpv none))
              let rows0 := (pySet rows1 count0 v10)
              let columns0 := (pySet columns1 count0 v20)
              let count1 := (count0 + (1))
              let allblocks1 := (pySet allblocks0 count1 (slice2 covmat1 nfpv none 0 (some nfpv)))
              let rows1 := (pySet rows0 count1 v20)
              let columns1 := (pySet columns0 count1 v10)
              (none, allblocks1, columns1, rows1, count1)
            else
              let count0 := (count1 + (1))
              let allblocks0 := (pySet allblocks1 count0 covmat1)
              let rows0 := (pySet rows1 count0 v10)
              let columns0 := (pySet columns1 count0 v10)
              let count1 := (count0 + (1))
              let allblocks1 := (pySet allblocks0 count1 covmat1)
              let rows1 := (pySet rows0 count1 v20)
              let columns1 := (pySet columns0 count1 v20)
              let count0 := (count1 + (1))
              let allblocks0 := (pySet allblocks1 count0 (-covmat1))
              let rows0 := (pySet rows1 count0 v10)
              let columns0 := (pySet columns1 count0 v20)
              let count1 := (count0 + (1))
              let allblocks1 := (pySet allblocks0 count1 (-covmat1))
              let rows1 := (pySet rows0 count1 v20)
              let columns1 := (pySet columns0 count1 v10)
              (none, allblocks1, columns1, rows1, count1)))
    let allblocks1 := r0.2.1
    let columns1 := r0.2.2.1
    let rows1 := r0.2.2.2.1
    let count1 := r0.2.2.2.2
    match r0.1 with
    | some v0 =>
        v0
    | none =>
      let rowsargsort0 := (argsort rows1)
      let columns0 := (pyIdx columns1 rowsargsort0)
      let allblocks0 := (pyIdx allblocks1 rowsargsort0)
      let rows0 := (pyIdx rows1 rowsargsort0)
      let nrows0 := (GraphS.nVertices graph)
      let indptr0 := (List.replicate (nrows0 + (1)) (0 : Nat))
      let r1 := MenpoModel.Py.forLoop indptr0 ((List.range nrows0)) (fun acc0 it0 =>
          let indptr1 := acc0
          let i0 := it0
          let p0 := (npWhereEq rows0 i0)
          let inds0 := p0
          if (((List.length inds0) == (0))) then
            let indptr0 := (pySet indptr1 (i0 + (1)) (pyIdx indptr1 i0))
            indptr0
          else
            let indptr0 := (pySet indptr1 i0 (pyIdx inds0 (0)))
            let indptr1 := (pySet indptr0 (i0 + (1)) ((pyIdx inds0 (-(1))) + (1)))
            indptr1)
      let indptr1 := r1
      .ok ((withShape nfeatures nfeatures (asDtype dtype (mkBsr allblocks0 columns0 indptr1))))

def genCreateDenseDiag (cinv : Arr → Option Nat → Except PyErr Mat) (X : Mat) (graph : GraphS) (nfeatures nfpv : Nat) (dtype : DType) (ncomponents : Option Nat) (bias : Bool) : Except PyErr Mat :=
  let precision0 := (asDtype dtype (zerosRC nfeatures nfeatures))
  let vertices0 := (List.range (GraphS.nVertices graph))
  let r0 := MenpoModel.Py.forLoop (none, precision0) (vertices0) (fun acc0 it0 =>
      if (acc0.1).isSome then acc0 else
      let precision1 := acc0.2
      let v0 := it0
      let ifrom0 := (v0 * nfpv)
      let ito0 := ((v0 + (1)) * nfpv)
      let covmat0 := (npCov (sliceCols X ifrom0 ito0) bias)
      (match cinv covmat0 ncomponents with
      | .error err => (some (.error err), precision1)
      | .ok covmat1 =>
        let precision0 := (setSlice precision1 ifrom0 ito0 ifrom0 ito0 covmat1)
        (none, precision0)))
  let precision1 := r0.2
  match r0.1 with
  | some v0 =>
      v0
  | none =>
    .ok (precision1)

def genCreateSparseDiag (cinv : Arr → Option Nat → Except PyErr Mat) (argsort : List Nat → List Nat) (X : Mat) (graph : GraphS) (nfeatures nfpv : Nat) (dtype : DType) (ncomponents : Option Nat) (bias : Bool) : Except PyErr BSR :=
  let allblocks0 := (asDtype dtype (zerosN (GraphS.nVertices graph) nfpv nfpv))
  let columns0 := (List.replicate (GraphS.nVertices graph) (0 : Nat))
  let rows0 := (List.replicate (GraphS.nVertices graph) (0 : Nat))
  let vertices0 := (List.range (GraphS.nVertices graph))
  let r0 := MenpoModel.Py.forLoop (none, allblocks0, columns0, rows0) (vertices0) (fun acc0 it0 =>
      if (acc0.1).isSome then acc0 else
      let allblocks1 := acc0.2.1
      let columns1 := acc0.2.2.1
      let rows1 := acc0.2.2.2
      let v0 := it0
      let ifrom0 := (v0 * nfpv)
      let ito0 := ((v0 + (1)) * nfpv)
      let covmat0 := (npCov (sliceCols X ifrom0 ito0) bias)
      (match cinv covmat0 ncomponents with
      | .error err => (some (.error err), allblocks1, columns1, rows1)
      | .ok tmp0 =>
      let allblocks0 := (pySet allblocks1 v0 tmp0)
      let rows0 := (pySet rows1 v0 v0)
      let columns0 := (pySet columns1 v0 v0)
      (none, allblocks0, columns0, rows0)))
  let allblocks1 := r0.2.1
  let columns1 := r0.2.2.1
  let rows1 := r0.2.2.2
  match r0.1 with
  | some v0 =>
      v0
  | none =>
    let rowsargsort0 := (argsort rows1)
    let columns0 := (pyIdx columns1 rowsargsort0)
    let allblocks0 := (pyIdx allblocks1 rowsargsort0)
    let rows0 := (pyIdx rows1 rowsargsort0)
    let nrows0 := (GraphS.nVertices graph)
    let indptr0 := (List.replicate (nrows0 + (1)) (0 : Nat))
    let r1 := MenpoModel.Py.forLoop indptr0 ((List.range nrows0)) (fun acc0 it0 =>
        let indptr1 := acc0
        let i0 := it0
        let p0 := (npWhereEq rows0 i0)
        let inds0 := p0
        if (((List.length inds0) == (0))) then
          let indptr0 := (pySet indptr1 (i0 + (1)) (pyIdx indptr1 i0))
          indptr0
        else
          let indptr0 := (pySet indptr1 i0 (pyIdx inds0 (0)))
          let indptr1 := (pySet indptr0 (i0 + (1)) ((pyIdx inds0 (-(1))) + (1)))
          indptr1)
    let indptr1 := r1
    .ok ((withShape nfeatures nfeatures (asDtype dtype (mkBsr allblocks0 columns0 indptr1))))

def genCreateDenseRC (cinv : Arr → Option Nat → Except PyErr Mat) (X : Mat) (graph : GraphS) (nfeatures nfpv : Nat) (mode : ModeS) (dtype : DType) (ncomponents : Option Nat) (bias : Bool) : Except PyErr (Mat × List Arr) :=
  if (!(List.contains [ModeS.concatenation, ModeS.subtraction] mode)) then
    .error .valueError
  else
    let precision0 := (asDtype dtype (zerosRC nfeatures nfeatures))
    if ((mode == ModeS.concatenation)) then
      let covshape0 := ((GraphS.nEdges graph), ((2) * nfpv), ((2) * nfpv))
      let allcovariances0 := (asDtype dtype (zeros3 covshape0))
      let edges0 := (List.range (GraphS.nEdges graph))
      let r0 := MenpoModel.Py.forLoop (none, precision0, allcovariances0) (edges0) (fun acc0 it0 =>
          if (acc0.1).isSome then acc0 else
          let precision1 := acc0.2.1
          let allcovariances1 := acc0.2.2
          let e0 := it0
          let v10 := (GraphS.edgeAt graph e0).1
          let v20 := (GraphS.edgeAt graph e0).2
          let v1from0 := (v10 * nfpv)
          let v1to0 := ((v10 + (1)) * nfpv)
          let v2from0 := (v20 * nfpv)
          let v2to0 := ((v20 + (1)) * nfpv)
          if ((mode == ModeS.concatenation)) then
            let edgedata0 := (takeCols X ((pyRange v1from0 v1to0) ++ (pyRange v2from0 v2to0)))
            let covmat0 := (npCov edgedata0 bias)
            let allcovariances0 := (pySet allcovariances1 e0 covmat0)
            (match cinv covmat0 ncomponents with
            | .error err => (some (.error err), precision1, allcovariances0)
            | .ok covmat1 =>
              if ((mode == ModeS.concatenation)) then
                let precision0 := (addSlice precision1 v1from0 v1to0 v1from0 v1to0 (slice2 covmat1 0 (some nfpv) 0 (some nfpv)))
                let precision1 := (addSlice precision0 v2from0 v2to0 v2from0 v2to0 (slice2 covmat1 nfpv none nfpv none))
                let precision0 := (setSlice precision1 v1from0 v1to0 v2from0 v2to0 (slice2 covmat1 0 (some nfpv) nfpv none))
                let precision1 := (setSlice precision0 v2from0 v2to0 v1from0 v1to0 (slice2 covmat1 nfpv none 0 (some nfpv)))
                (none, precision1, allcovariances0)
              else
                if ((mode == ModeS.subtraction)) then
                  let precision0 := (setSlice precision1 v1from0 v1to0 v2from0 v2to0 (-covmat1))
                  let precision1 := (setSlice precision0 v2from0 v2to0 v1from0 v1to0 (-covmat1))
                  let precision0 := (addSlice precision1 v1from0 v1to0 v1from0 v1to0 covmat1)
                  let precision1 := (addSlice precision0 v2from0 v2to0 v2from0 v2to0 covmat1)
                  (none, precision1, allcovariances0)
                else
                  (none, precision1, allcovariances0))
          else
            let edgedata0 := ((sliceCols X v1from0 v1to0) - (sliceCols X v2from0 v2to0))
            let covmat0 := (npCov edgedata0 bias)
            let allcovariances0 := (pySet allcovariances1 e0 covmat0)
            (match cinv covmat0 ncomponents with
            | .error err => (some (.error err), precision1, allcovariances0)
            | .ok covmat1 =>
              if ((mode == ModeS.concatenation)) then
                let precision0 := (addSlice precision1 v1from0 v1to0 v1from0 v1to0 (slice2 covmat1 0 (some nfpv) 0 (some nfpv)))
                let precision1 := (addSlice precision0 v2from0 v2to0 v2from0 v2to0 (slice2 covmat1 nfpv none nfpv none))
                let precision0 := (setSlice precision1 v1from0 v1to0 v2from0 v2to0 (slice2 covmat1 0 (some nfpv) nfpv none))
                let precision1 := (setSlice precision0 v2from0 v2to0 v1from0 v1to0 (slice2 covmat1 nfpv none 0 (some nfpv)))
                (none, precision1, allcovariances0)
              else
                if ((mode == ModeS.subtraction)) then
                  let precision0 := (setSlice precision1 v1from0 v1to0 v2from0 v2to0 (-covmat1))
                  let precision1 := (setSlice precision0 v2from0 v2to0 v1from0 v1to0 (-covmat1))
                  let precision0 := (addSlice precision1 v1from0 v1to0 v1from0 v1to0 covmat1)
                  let precision1 := (addSlice precision0 v2from0 v2to0 v2from0 v2to0 covmat1)
                  (none, precision1, allcovariances0)
                else
                  (none, precision1, allcovariances0)))
      let precision1 := r0.2.1
      let allcovariances1 := r0.2.2
      match r0.1 with
      | some v0 =>
          v0
      | none =>
        .ok ((precision1, allcovariances1))
    else
      let covshape0 := ((GraphS.nEdges graph), nfpv, nfpv)
      let allcovariances0 := (asDtype dtype (zeros3 covshape0))
      let edges0 := (List.range (GraphS.nEdges graph))
      let r0 := MenpoModel.Py.forLoop (none, precision0, allcovariances0) (edges0) (fun acc0 it0 =>
          if (acc0.1).isSome then acc0 else
          let precision1 := acc0.2.1
          let allcovariances1 := acc0.2.2
          let e0 := it0
          let v10 := (GraphS.edgeAt graph e0).1
          let v20 := (GraphS.edgeAt graph e0).2
          let v1from0 := (v10 * nfpv)
          let v1to0 := ((v10 + (1)) * nfpv)
          let v2from0 := (v20 * nfpv)
          let v2to0 := ((v20 + (1)) * nfpv)
          if ((mode == ModeS.concatenation)) then
            let edgedata0 := (takeCols X ((pyRange v1from0 v1to0) ++ (pyRange v2from0 v2to0)))
            let covmat0 := (npCov edgedata0 bias)
            let allcovariances0 := (pySet allcovariances1 e0 covmat0)
            (match cinv covmat0 ncomponents with
            | .error err => (some (.error err), precision1, allcovariances0)
            | .ok covmat1 =>
              if ((mode == ModeS.concatenation)) then
                let precision0 := (addSlice precision1 v1from0 v1to0 v1from0 v1to0 (slice2 covmat1 0 (some nfpv) 0 (some nfpv)))
                let precision1 := (addSlice precision0 v2from0 v2to0 v2from0 v2to0 (slice2 covmat1 nfpv none nfpv none))
                let precision0 := (setSlice precision1 v1from0 v1to0 v2from0 v2to0 (slice2 covmat1 0 (some nfpv) nfpv none))
                let precision1 := (setSlice precision0 v2from0 v2to0 v1from0 v1to0 (slice2 covmat1 nfpv none 0 (some nfpv)))
                (none, precision1, allcovariances0)
              else
                if ((mode == ModeS.subtraction)) then
                  let precision0 := (setSlice precision1 v1from0 v1to0 v2from0 v2to0 (-covmat1))
                  let precision1 := (setSlice precision0 v2from0 v2to0 v1from0 v1to0 (-covmat1))
                  let precision0 := (addSlice precision1 v1from0 v1to0 v1from0 v1to0 covmat1)
                  let precision1 := (addSlice precision0 v2from0 v2to0 v2from0 v2to0 covmat1)
                  (none, precision1, allcovariances0)
                else
                  (none, precision1, allcovariances0))
          else
            let edgedata0 := ((sliceCols X v1from0 v1to0) - (sliceCols X v2from0 v2to0))
            let covmat0 := (npCov edgedata0 bias)
            let allcovariances0 := (pySet allcovariances1 e0 covmat0)
            (match cinv covmat0 ncomponents with
            | .error err => (some (.error err), precision1, allcovariances0)
            | .ok covmat1 =>
              if ((mode == ModeS.concatenation)) then
                let precision0 := (addSlice precision1 v1from0 v1to0 v1from0 v1to0 (slice2 covmat1 0 (some nfpv) 0 (some nfpv)))
                let precision1 := (addSlice precision0 v2from0 v2to0 v2from0 v2to0 (slice2 covmat1 nfpv none nfpv none))
                let precision0 := (setSlice precision1 v1from0 v1to0 v2from0 v2to0 (slice2 covmat1 0 (some nfpv) nfpv none))
                let precision1 := (setSlice precision0 v2from0 v2to0 v1from0 v1to0 (slice2 covmat1 nfpv none 0 (some nfpv)))
                (none, precision1, allcovariances0)
              else
                if ((mode == ModeS.subtraction)) then
                  let precision0 := (setSlice precision1 v1from0 v1to0 v2from0 v2to0 (-covmat1))
                  let precision1 := (setSlice precision0 v2from0 v2to0 v1from0 v1to0 (-covmat1))
                  let precision0 := (addSlice precision1 v1from0 v1to0 v1from0 v1to0 covmat1)
                  let precision1 := (addSlice precision0 v2from0 v2to0 v2from0 v2to0 covmat1)
                  (none, precision1, allcovariances0)
                else
                  (none, precision1, allcovariances0)))
      let precision1 := r0.2.1
      let allcovariances1 := r0.2.2
      match r0.1 with
      | some v0 =>
          v0
      | none =>
        .ok ((precision1, allcovariances1))

def genCreateSparseRC (cinv : Arr → Option Nat → Except PyErr Mat) (argsort : List Nat → List Nat) (X : Mat) (graph : GraphS) (nfeatures nfpv : Nat) (mode : ModeS) (dtype : DType) (ncomponents : Option Nat) (bias : Bool) : Except PyErr (BSR × List Arr) :=
  if (!(List.contains [ModeS.concatenation, ModeS.subtraction] mode)) then
    .error .valueError
  else
    let allblocks0 := (asDtype dtype (zerosN ((GraphS.nEdges graph) * (4)) nfpv nfpv))
    if ((mode == ModeS.concatenation)) then
      let covshape0 := ((GraphS.nEdges graph), ((2) * nfpv), ((2) * nfpv))
      let allcovariances0 := (asDtype dtype (zeros3 covshape0))
      let columns0 := (List.replicate ((GraphS.nEdges graph) * (4)) (0 : Nat))
      let rows0 := (List.replicate ((GraphS.nEdges graph) * (4)) (0 : Nat))
      let edges0 := (List.range (GraphS.nEdges graph))
      let count0 := (-(1))
      let r0 := MenpoModel.Py.forLoop (none, allblocks0, allcovariances0, columns0, rows0, count0) (edges0) (fun acc0 it0 =>
          if (acc0.1).isSome then acc0 else
          let allblocks1 := acc0.2.1
          let allcovariances1 := acc0.2.2.1
          let columns1 := acc0.2.2.2.1
          let rows1 := acc0.2.2.2.2.1
          let count1 := acc0.2.2.2.2.2
          let e0 := it0
          let v10 := (GraphS.edgeAt graph e0).1
          let v20 := (GraphS.edgeAt graph e0).2
          let v1from0 := (v10 * nfpv)
          let v1to0 := ((v10 + (1)) * nfpv)
          let v2from0 := (v20 * nfpv)
          let v2to0 := ((v20 + (1)) * nfpv)
          if ((mode == ModeS.concatenation)) then
            let edgedata0 := (takeCols X ((pyRange v1from0 v1to0) ++ (pyRange v2from0 v2to0)))
            let covmat0 := (npCov edgedata0 bias)
            let allcovariances0 := (pySet allcovariances1 e0 covmat0)
            (match cinv covmat0 ncomponents with
            | .error err => (some (.error err), allblocks1, allcovariances0, columns1, rows1, count1)
            | .ok covmat1 =>
              if ((mode == ModeS.concatenation)) then
                let count0 := (count1 + (1))
                let allblocks0 := (pySet allblocks1 count0 (slice2 covmat1 0 (some nfpv) 0 (some nfpv)))
                let rows0 := (pySet rows1 count0 v10)
                let columns0 := (pySet columns1 count0 v10)
                let count1 := (count0 + (1))
                let allblocks1 := (pySet allblocks0 count1 (slice2 covmat1 nfpv none nfpv none))
                let rows1 := (pySet rows0 count1 v20)
                let columns1 := (pySet columns0 count1 v20)
                let count0 := (count1 + (1))
                let allblocks0 := (pySet allblocks1 count0 (slice2 covmat1 0 (some nfpv) nfpv none))
                let rows0 := (pySet rows1 count0 v10)
                let columns0 := (pySet columns1 count0 v20)
                let count1 := (count0 + (1))
                let allblocks1 := (pySet allblocks0 count1 (slice2 covmat1 nfpv none 0 (some nfpv)))
                let rows1 := (pySet rows0 count1 v20)
                let columns1 := (pySet columns0 count1 v10)
                (none, allblocks1, allcovariances0, columns1, rows1, count1)
              else
                let count0 := (count1 + (1))
                let allblocks0 := (pySet allblocks1 count0 covmat1)
                let rows0 := (pySet rows1 count0 v10)
                let columns0 := (pySet columns1 count0 v10)
                let count1 := (count0 + (1))
                let allblocks1 := (pySet allblocks0 count1 covmat1)
                let rows1 := (pySet rows0 count1 v20)
                let columns1 := (pySet columns0 count1 v20)
                let count0 := (count1 + (1))
                let allblocks0 := (pySet allblocks1 count0 (-covmat1))
                let rows0 := (pySet rows1 count0 v10)
                let columns0 := (pySet columns1 count0 v20)
                let count1 := (count0 + (1))
                let allblocks1 := (pySet allblocks0 count1 (-covmat1))
                let rows1 := (pySet rows0 count1 v20)
                let columns1 := (pySet columns0 count1 v10)
                (none, allblocks1, allcovariances0, columns1, rows1, count1))
          else
            let edgedata0 := ((sliceCols X v1from0 v1to0) - (sliceCols X v2from0 v2to0))
            let covmat0 := (npCov edgedata0 bias)
            let allcovariances0 := (pySet allcovariances1 e0 covmat0)
            (match cinv covmat0 ncomponents with
            | .error err => (some (.error err), allblocks1, allcovariances0, columns1, rows1, count1)
            | .ok covmat1 =>
              if ((mode == ModeS.concatenation)) then
                let count0 := (count1 + (1))
                let allblocks0 := (pySet allblocks1 count0 (slice2 covmat1 0 (some nfpv) 0 (some nfpv)))
                let rows0 := (pySet rows1 count0 v10)
                let columns0 := (pySet columns1 count0 v10)
                let count1 := (count0 + (1))
                let allblocks1 := (pySet allblocks0 count1 (slice2 covmat1 nfpv none nfpv none))
                let rows1 := (pySet rows0 count1 v20)
                let columns1 := (pySet columns0 count1 v20)
                let count0 := (count1 + (1))
                let allblocks0 := (pySet allblocks1 count0 (slice2 covmat1 0 (some nfpv) nfpv none))
                let rows0 := (pySet rows1 count0 v10)
                let columns0 := (pySet columns1 count0 v20)
                let count1 := (count0 + (1))
                let allblocks1 := (pySet allblocks0 count1 (slice2 covmat1 nfpv none 0 (some nfpv)))
                let rows1 := (pySet rows0 count1 v20)
                let columns1 := (pySet columns0 count1 v10)
                (none, allblocks1, allcovariances0, columns1, rows1, count1)
              else
                let count0 := (count1 + (1))
                let allblocks0 := (pySet allblocks1 count0 covmat1)
                let rows0 := (pySet rows1 count0 v10)
                let columns0 := (pySet columns1 count0 v10)
                let count1 := (count0 + (1))
                let allblocks1 := (pySet allblocks0 count1 covmat1)
                let rows1 := (pySet rows0 count1 v20)
                let columns1 := (pySet columns0 count1 v20)
                let count0 := (count1 + (1))
                let allblocks0 := (pySet allblocks1 count0 (-covmat1))
                let rows0 := (pySet rows1 count0 v10)
                let columns0 := (pySet columns1 count0 v20)
                let count1 := (count0 + (1))
                let allblocks1 := (pySet allblocks0 count1 (-covmat1))
                let rows1 := (pySet rows0 count1 v20)
                let columns1 := (pySet columns0 count1 v10)
                (none, allblocks1, allcovariances0, columns1, rows1, count1)))
      let allblocks1 := r0.2.1
      let allcovariances1 := r0.2.2.1
      let columns1 := r0.2.2.2.1
      let rows1 := r0.2.2.2.2.1
      let count1 := r0.2.2.2.2.2
      match r0.1 with
      | some v0 =>
          v0
      | none =>
        let rowsargsort0 := (argsort rows1)
        let columns0 := (pyIdx columns1 rowsargsort0)
        let allblocks0 := (pyIdx allblocks1 rowsargsort0)
        let rows0 := (pyIdx rows1 rowsargsort0)
        let nrows0 := (GraphS.nVertices graph)
        let indptr0 := (List.replicate (nrows0 + (1)) (0 : Nat))
        let r1 := MenpoModel.Py.forLoop indptr0 ((List.range nrows0)) (fun acc0 it0 =>
            let indptr1 := acc0
            let i0 := it0
            let p0 := (npWhereEq rows0 i0)
            let inds0 := p0
            if (((List.length inds0) == (0))) then
              let indptr0 := (pySet indptr1 (i0 + (1)) (pyIdx indptr1 i0))
              indptr0
            else
              let indptr0 := (pySet indptr1 i0 (pyIdx inds0 (0)))
              let indptr1 := (pySet indptr0 (i0 + (1)) ((pyIdx inds0 (-(1))) + (1)))
              indptr1)
        let indptr1 := r1
        .ok (((withShape nfeatures nfeatures (asDtype dtype (mkBsr allblocks0 columns0 indptr1))), allcovariances1))
    else
      let covshape0 := ((GraphS.nEdges graph), nfpv, nfpv)
      let allcovariances0 := (asDtype dtype (zeros3 covshape0))
      let columns0 := (List.replicate ((GraphS.nEdges graph) * (4)) (0 : Nat))
      let rows0 := (List.replicate ((GraphS.nEdges graph) * (4)) (0 : Nat))
      let edges0 := (List.range (GraphS.nEdges graph))
      let count0 := (-(1))
      let r0 := MenpoModel.Py.forLoop (none, allblocks0, allcovariances0, columns0, rows0, count0) (edges0) (fun acc0 it0 =>
          if (acc0.1).isSome then acc0 else
          let allblocks1 := acc0.2.1
          let allcovariances1 := acc0.2.2.1
          let columns1 := acc0.2.2.2.1
          let rows1 := acc0.2.2.2.2.1
          let count1 := acc0.2.2.2.2.2
          let e0 := it0
          let v10 := (GraphS.edgeAt graph e0).1
          let v20 := (GraphS.edgeAt graph e0).2
          let v1from0 := (v10 * nfpv)
          let v1to0 := ((v10 + (1)) * nfpv)
          let v2from0 := (v20 * nfpv)
          let v2to0 := ((v20 + (1)) * nfpv)
          if ((mode == ModeS.concatenation)) then
            let edgedata0 := (takeCols X ((pyRange v1from0 v1to0) ++ (pyRange v2from0 v2to0)))
            let covmat0 := (npCov edgedata0 bias)
            let allcovariances0 := (pySet allcovariances1 e0 covmat0)
            (match cinv covmat0 ncomponents with
            | .error err => (some (.error err), allblocks1, allcovariances0, columns1, rows1, count1)
            | .ok covmat1 =>
              if ((mode == ModeS.concatenation)) then
                let count0 := (count1 + (1))
                let allblocks0 := (pySet allblocks1 count0 (slice2 covmat1 0 (some nfpv) 0 (some nfpv)))
                let rows0 := (pySet rows1 count0 v10)
                let columns0 := (pySet columns1 count0 v10)
                let count1 := (count0 + (1))
                let allblocks1 := (pySet allblocks0 count1 (slice2 covmat1 nfpv none nfpv none))
                let rows1 := (pySet rows0 count1 v20)
                let columns1 := (pySet columns0 count1 v20)
                let count0 := (count1 + (1))
                let allblocks0 := (pySet allblocks1 count0 (slice2 covmat1 0 (some nfpv) nfpv none))
                let rows0 := (pySet rows1 count0 v10)
                let columns0 := (pySet columns1 count0 v20)
                let count1 := (count0 + (1))
                let allblocks1 := (pySet allblocks0 count1 (slice2 covmat1 nfpv none 0 (some nfpv)))
                let rows1 := (pySet rows0 count1 v20)
                let columns1 := (pySet columns0 count1 v10)
                (none, allblocks1, allcovariances0, columns1, rows1, count1)
              else
                let count0 := (count1 + (1))
                let allblocks0 := (pySet allblocks1 count0 covmat1)
                let rows0 := (pySet rows1 count0 v10)
                let columns0 := (pySet columns1 count0 v10)
                let count1 := (count0 + (1))
                let allblocks1 := (pySet allblocks0 count1 covmat1)
                let rows1 := (pySet rows0 count1 v20)
                let columns1 := (pySet columns0 count1 v20)
                let count0 := (count1 + (1))
                let allblocks0 := (pySet allblocks1 count0 (-covmat1))
                let rows0 := (pySet rows1 count0 v10)
                let columns0 := (pySet columns1 count0 v20)
                let count1 := (count0 + (1))
                let allblocks1 := (pySet allblocks0 count1 (-covmat1))
                let rows1 := (pySet rows0 count1 v20)
                let columns1 := (pySet columns0 count1 v10)
                (none, allblocks1, allcovariances0, columns1, rows1, count1))
          else
            let edgedata0 := ((sliceCols X v1from0 v1to0) - (sliceCols X v2from0 v2to0))
            let covmat0 := (npCov edgedata0 bias)
            let allcovariances0 := (pySet allcovariances1 e0 covmat0)
            (match cinv covmat0 ncomponents with
            | .error err => (some (.error err), allblocks1, allcovariances0, columns1, rows1, count1)
            | .ok covmat1 =>
              if ((mode == ModeS.concatenation)) then
                let count0 := (count1 + (1))
                let allblocks0 := (pySet allblocks1 count0 (slice2 covmat1 0 (some nfpv) 0 (some nfpv)))
                let rows0 := (pySet rows1 count0 v10)
                let columns0 := (pySet columns1 count0 v10)
                let count1 := (count0 + (1))
                let allblocks1 := (pySet allblocks0 count1 (slice2 covmat1 nfpv none nfpv none))
                let rows1 := (pySet rows0 count1 v20)
                let columns1 := (pySet columns0 count1 v20)
                let count0 := (count1 + (1))
                let allblocks0 := (pySet allblocks1 count0 (slice2 covmat1 0 (some nfpv) nfpv none))
                let rows0 := (pySet rows1 count0 v10)
                let columns0 := (pySet columns1 count0 v20)
                let count1 := (count0 + (1))
                let allblocks1 := (pySet allblocks0 count1 (slice2 covmat1 nfpv none 0 (some nfpv)))
                let rows1 := (pySet rows0 count1 v20)
                let columns1 := (pySet columns0 count1 v10)
                (none, allblocks1, allcovariances0, columns1, rows1, count1)
              else
                let count0 := (count1 + (1))
                let allblocks0 := (pySet allblocks1 count0 covmat1)
                let rows0 := (pySet rows1 count0 v10)
                let columns0 := (pySet columns1 count0 v10)
                let count1 := (count0 + (1))
                let allblocks1 := (pySet allblocks0 count1 covmat1)
                let rows1 := (pySet rows0 count1 v20)
                let columns1 := (pySet columns0 count1 v20)
                let count0 := (count1 + (1))
                let allblocks0 := (pySet allblocks1 count0 (-covmat1))
                let rows0 := (pySet rows1 count0 v10)
                let columns0 := (pySet columns1 count0 v20)
                let count1 := (count0 + (1))
                let allblocks1 := (pySet allblocks0 count1 (-covmat1))
                let rows1 := (pySet rows0 count1 v20)
                let columns1 := (pySet columns0 count1 v10)
                (none, allblocks1, allcovariances0, columns1, rows1, count1)))
      let allblocks1 := r0.2.1
      let allcovariances1 := r0.2.2.1
      let columns1 := r0.2.2.2.1
      let rows1 := r0.2.2.2.2.1
      let count1 := r0.2.2.2.2.2
      match r0.1 with
      | some v0 =>
          v0
      | none =>
        let rowsargsort0 := (argsort rows1)
        let columns0 := (pyIdx columns1 rowsargsort0)
        let allblocks0 := (pyIdx allblocks1 rowsargsort0)
        let rows0 := (pyIdx rows1 rowsargsort0)
        let nrows0 := (GraphS.nVertices graph)
        let indptr0 := (List.replicate (nrows0 + (1)) (0 : Nat))
        let r1 := MenpoModel.Py.forLoop indptr0 ((List.range nrows0)) (fun acc0 it0 =>
            let indptr1 := acc0
            let i0 := it0
            let p0 := (npWhereEq rows0 i0)
            let inds0 := p0
            if (((List.length inds0) == (0))) then
              let indptr0 := (pySet indptr1 (i0 + (1)) (pyIdx indptr1 i0))
              indptr0
            else
              let indptr0 := (pySet indptr1 i0 (pyIdx inds0 (0)))
              let indptr1 := (pySet indptr0 (i0 + (1)) ((pyIdx inds0 (-(1))) + (1)))
              indptr1)
        let indptr1 := r1
        .ok (((withShape nfeatures nfeatures (asDtype dtype (mkBsr allblocks0 columns0 indptr1))), allcovariances1))

def genCreateDenseDiagRC (cinv : Arr → Option Nat → Except PyErr Mat) (X : Mat) (graph : GraphS) (nfeatures nfpv : Nat) (dtype : DType) (ncomponents : Option Nat) (bias : Bool) : Except PyErr (Mat × List Arr) :=
  let precision0 := (asDtype dtype (zerosRC nfeatures nfeatures))
  let allcovariances0 := (asDtype dtype (zerosN (GraphS.nVertices graph) nfpv nfpv))
  let vertices0 := (List.range (GraphS.nVertices graph))
  let r0 := MenpoModel.Py.forLoop (none, precision0, allcovariances0) (vertices0) (fun acc0 it0 =>
      if (acc0.1).isSome then acc0 else
      let precision1 := acc0.2.1
      let allcovariances1 := acc0.2.2
      let v0 := it0
      let ifrom0 := (v0 * nfpv)
      let ito0 := ((v0 + (1)) * nfpv)
      let covmat0 := (npCov (sliceCols X ifrom0 ito0) bias)
      let allcovariances0 := (pySet allcovariances1 v0 covmat0)
      (match cinv covmat0 ncomponents with
      | .error err => (some (.error err), precision1, allcovariances0)
      | .ok covmat1 =>
        let precision0 := (setSlice precision1 ifrom0 ito0 ifrom0 ito0 covmat1)
        (none, precision0, allcovariances0)))
  let precision1 := r0.2.1
  let allcovariances1 := r0.2.2
  match r0.1 with
  | some v0 =>
      v0
  | none =>
    .ok ((precision1, allcovariances1))

def genCreateSparseDiagRC (cinv : Arr → Option Nat → Except PyErr Mat) (argsort : List Nat → List Nat) (X : Mat) (graph : GraphS) (nfeatures nfpv : Nat) (dtype : DType) (ncomponents : Option Nat) (bias : Bool) : Except PyErr (BSR × List Arr) :=
  let allblocks0 := (asDtype dtype (zerosN (GraphS.nVertices graph) nfpv nfpv))
  let allcovariances0 := (asDtype dtype (zerosN (GraphS.nVertices graph) nfpv nfpv))
  let columns0 := (List.replicate (GraphS.nVertices graph) (0 : Nat))
  let rows0 := (List.replicate (GraphS.nVertices graph) (0 : Nat))
  let vertices0 := (List.range (GraphS.nVertices graph))
  let r0 := MenpoModel.Py.forLoop (none, allblocks0, allcovariances0, columns0, rows0) (vertices0) (fun acc0 it0 =>
      if (acc0.1).isSome then acc0 else
      let allblocks1 := acc0.2.1
      let allcovariances1 := acc0.2.2.1
      let columns1 := acc0.2.2.2.1
      let rows1 := acc0.2.2.2.2
      let v0 := it0
      let ifrom0 := (v0 * nfpv)
      let ito0 := ((v0 + (1)) * nfpv)
      let covmat0 := (npCov (sliceCols X ifrom0 ito0) bias)
      let allcovariances0 := (pySet allcovariances1 v0 covmat0)
      (match cinv covmat0 ncomponents with
      | .error err => (some (.error err), allblocks1, allcovariances0, columns1, rows1)
      | .ok tmp0 =>
      let allblocks0 := (pySet allblocks1 v0 tmp0)
      let rows0 := (pySet rows1 v0 v0)
      let columns0 := (pySet columns1 v0 v0)
      (none, allblocks0, allcovariances0, columns0, rows0)))
  let allblocks1 := r0.2.1
  let allcovariances1 := r0.2.2.1
  let columns1 := r0.2.2.2.1
  let rows1 := r0.2.2.2.2
  match r0.1 with
  | some v0 =>
      v0
  | none =>
    let rowsargsort0 := (argsort rows1)
    let columns0 := (pyIdx columns1 rowsargsort0)
    let allblocks0 := (pyIdx allblocks1 rowsargsort0)
    let rows0 := (pyIdx rows1 rowsargsort0)
    let nrows0 := (GraphS.nVertices graph)
    let indptr0 := (List.replicate (nrows0 + (1)) (0 : Nat))
    let r1 := MenpoModel.Py.forLoop indptr0 ((List.range nrows0)) (fun acc0 it0 =>
        let indptr1 := acc0
        let i0 := it0
        let p0 := (npWhereEq rows0 i0)
        let inds0 := p0
        if (((List.length inds0) == (0))) then
          let indptr0 := (pySet indptr1 (i0 + (1)) (pyIdx indptr1 i0))
          indptr0
        else
          let indptr0 := (pySet indptr1 i0 (pyIdx inds0 (0)))
          let indptr1 := (pySet indptr0 (i0 + (1)) ((pyIdx inds0 (-(1))) + (1)))
          indptr1)
    let indptr1 := r1
    .ok (((withShape nfeatures nfeatures (asDtype dtype (mkBsr allblocks0 columns0 indptr1))), allcovariances1))

def callCtor (cinv : Arr → Option Nat → Except PyErr Mat) (argsort : List Nat → List Nat) (c : CtorS) (rc : Bool) (X : Mat) (graph : GraphS) (nfeatures nfpv : Nat) (dtype : DType) (ncomponents : Option Nat) (bias : Bool) : Except PyErr CtorOut :=
  match c, rc with
  | .sparseDiag, false => (genCreateSparseDiag cinv argsort X graph nfeatures nfpv  dtype ncomponents bias).map fun r => ⟨.bsr nfeatures nfpv r, none⟩
  | .sparseDiag, true => (genCreateSparseDiagRC cinv argsort X graph nfeatures nfpv  dtype ncomponents bias).map fun r => ⟨.bsr nfeatures nfpv r.1, some r.2⟩
  | .denseDiag, false => (genCreateDenseDiag cinv  X graph nfeatures nfpv  dtype ncomponents bias).map fun r => ⟨.dense r, none⟩
  | .denseDiag, true => (genCreateDenseDiagRC cinv  X graph nfeatures nfpv  dtype ncomponents bias).map fun r => ⟨.dense r.1, some r.2⟩
  | .sparseEdges m, false => (genCreateSparse cinv argsort X graph nfeatures nfpv m dtype ncomponents bias).map fun r => ⟨.bsr nfeatures nfpv r, none⟩
  | .sparseEdges m, true => (genCreateSparseRC cinv argsort X graph nfeatures nfpv m dtype ncomponents bias).map fun r => ⟨.bsr nfeatures nfpv r.1, some r.2⟩
  | .denseEdges m, false => (genCreateDense cinv  X graph nfeatures nfpv m dtype ncomponents bias).map fun r => ⟨.dense r, none⟩
  | .denseEdges m, true => (genCreateDenseRC cinv  X graph nfeatures nfpv m dtype ncomponents bias).map fun r => ⟨.dense r.1, some r.2⟩

def genDataToMatrix (data : PyData) (nsamples : Option Nat) : PyData × Option Nat :=
  if (nsamples).isNone then
    let nsamples0 := (some (PyData.len data))
    if (!(PyData.isArray data)) then
      let data0 := (PyData.arrayTake data nsamples0)
      ((data0, nsamples0))
    else
      ((data, nsamples0))
  else
    if (!(PyData.isArray data)) then
      let data0 := (PyData.arrayTake data nsamples)
      ((data0, nsamples))
    else
      ((data, nsamples))

def genVecInit (cinv : Arr → Option Nat → Except PyErr Mat) (argsort : List Nat → List Nat) (samples : PyData) (graph : GraphS) (nsamples : Option Nat) (mode : ModeS) (ncomponents : Option Nat) (dtype : DType) (sparse bias incremental : Bool) : Except PyErr VecModel :=
  let p0 := (genDataToMatrix samples nsamples)
  let data0 := p0.1
  let nsamplesattr0 := p0.2
  let nfeaturesattr0 := (PyData.shape1 data0)
  let nfeaturespervertexattr0 := (nfeaturesattr0 / (GraphS.nVertices graph))
  let graphattr0 := graph
  let modeattr0 := mode
  let ncomponentsattr0 := ncomponents
  let sparseattr0 := sparse
  let dtypeattr0 := dtype
  let biasattr0 := bias
  let isincrementalattr0 := incremental
  let meanvectorattr0 := (PyData.mean0 data0)
  if (((GraphS.nEdges graphattr0) == (0))) then
    if sparseattr0 then
      let constructor0 := CtorS.sparseDiag
      if isincrementalattr0 then
        (match (callCtor cinv argsort constructor0 isincrementalattr0 (PyData.toMat data0) graphattr0 nfeaturesattr0 nfeaturespervertexattr0 dtypeattr0 ncomponentsattr0 biasattr0).bind CtorOut.unpack with
        | .error err => .error err
        | .ok p1 =>
          let precisionattr0 := p1.1
          let covariancematricesattr0 := p1.2
          .ok ⟨nsamplesattr0, nfeaturesattr0, nfeaturespervertexattr0, graphattr0, modeattr0, ncomponentsattr0, sparseattr0, dtypeattr0, biasattr0, isincrementalattr0, meanvectorattr0, precisionattr0, covariancematricesattr0⟩)
      else
        let covariancematricesattr0 := none
        (match (callCtor cinv argsort constructor0 isincrementalattr0 (PyData.toMat data0) graphattr0 nfeaturesattr0 nfeaturespervertexattr0 dtypeattr0 ncomponentsattr0 biasattr0).bind CtorOut.asMatrix with
        | .error err => .error err
        | .ok p1 =>
          let precisionattr0 := p1
          .ok ⟨nsamplesattr0, nfeaturesattr0, nfeaturespervertexattr0, graphattr0, modeattr0, ncomponentsattr0, sparseattr0, dtypeattr0, biasattr0, isincrementalattr0, meanvectorattr0, precisionattr0, covariancematricesattr0⟩)
    else
      let constructor0 := CtorS.denseDiag
      if isincrementalattr0 then
        (match (callCtor cinv argsort constructor0 isincrementalattr0 (PyData.toMat data0) graphattr0 nfeaturesattr0 nfeaturespervertexattr0 dtypeattr0 ncomponentsattr0 biasattr0).bind CtorOut.unpack with
        | .error err => .error err
        | .ok p1 =>
          let precisionattr0 := p1.1
          let covariancematricesattr0 := p1.2
          .ok ⟨nsamplesattr0, nfeaturesattr0, nfeaturespervertexattr0, graphattr0, modeattr0, ncomponentsattr0, sparseattr0, dtypeattr0, biasattr0, isincrementalattr0, meanvectorattr0, precisionattr0, covariancematricesattr0⟩)
      else
        let covariancematricesattr0 := none
        (match (callCtor cinv argsort constructor0 isincrementalattr0 (PyData.toMat data0) graphattr0 nfeaturesattr0 nfeaturespervertexattr0 dtypeattr0 ncomponentsattr0 biasattr0).bind CtorOut.asMatrix with
        | .error err => .error err
        | .ok p1 =>
          let precisionattr0 := p1
          .ok ⟨nsamplesattr0, nfeaturesattr0, nfeaturespervertexattr0, graphattr0, modeattr0, ncomponentsattr0, sparseattr0, dtypeattr0, biasattr0, isincrementalattr0, meanvectorattr0, precisionattr0, covariancematricesattr0⟩)
  else
    if sparseattr0 then
      let constructor0 := (CtorS.sparseEdges modeattr0)
      if isincrementalattr0 then
        (match (callCtor cinv argsort constructor0 isincrementalattr0 (PyData.toMat data0) graphattr0 nfeaturesattr0 nfeaturespervertexattr0 dtypeattr0 ncomponentsattr0 biasattr0).bind CtorOut.unpack with
        | .error err => .error err
        | .ok p1 =>
          let precisionattr0 := p1.1
          let covariancematricesattr0 := p1.2
          .ok ⟨nsamplesattr0, nfeaturesattr0, nfeaturespervertexattr0, graphattr0, modeattr0, ncomponentsattr0, sparseattr0, dtypeattr0, biasattr0, isincrementalattr0, meanvectorattr0, precisionattr0, covariancematricesattr0⟩)
      else
        let covariancematricesattr0 := none
        (match (callCtor cinv argsort constructor0 isincrementalattr0 (PyData.toMat data0) graphattr0 nfeaturesattr0 nfeaturespervertexattr0 dtypeattr0 ncomponentsattr0 biasattr0).bind CtorOut.asMatrix with
        | .error err => .error err
        | .ok p1 =>
          let precisionattr0 := p1
          .ok ⟨nsamplesattr0, nfeaturesattr0, nfeaturespervertexattr0, graphattr0, modeattr0, ncomponentsattr0, sparseattr0, dtypeattr0, biasattr0, isincrementalattr0, meanvectorattr0, precisionattr0, covariancematricesattr0⟩)
    else
      let constructor0 := (CtorS.denseEdges modeattr0)
      if isincrementalattr0 then
        (match (callCtor cinv argsort constructor0 isincrementalattr0 (PyData.toMat data0) graphattr0 nfeaturesattr0 nfeaturespervertexattr0 dtypeattr0 ncomponentsattr0 biasattr0).bind CtorOut.unpack with
        | .error err => .error err
        | .ok p1 =>
          let precisionattr0 := p1.1
          let covariancematricesattr0 := p1.2
          .ok ⟨nsamplesattr0, nfeaturesattr0, nfeaturespervertexattr0, graphattr0, modeattr0, ncomponentsattr0, sparseattr0, dtypeattr0, biasattr0, isincrementalattr0, meanvectorattr0, precisionattr0, covariancematricesattr0⟩)
      else
        let covariancematricesattr0 := none
        (match (callCtor cinv argsort constructor0 isincrementalattr0 (PyData.toMat data0) graphattr0 nfeaturesattr0 nfeaturespervertexattr0 dtypeattr0 ncomponentsattr0 biasattr0).bind CtorOut.asMatrix with
        | .error err => .error err
        | .ok p1 =>
          let precisionattr0 := p1
          .ok ⟨nsamplesattr0, nfeaturesattr0, nfeaturespervertexattr0, graphattr0, modeattr0, ncomponentsattr0, sparseattr0, dtypeattr0, biasattr0, isincrementalattr0, meanvectorattr0, precisionattr0, covariancematricesattr0⟩)

def genObjInit (cinv : Arr → Option Nat → Except PyErr Mat) (argsort : List Nat → List Nat) (samples : List Mat) (graph : GraphS) (mode : ModeS) (ncomponents : Option Nat) (dtype : DType) (sparse : Bool) (nsamples : Option Nat) (bias incremental : Bool) : Except PyErr (Mat × VecModel) :=
  (match asMatrixT samples nsamples with
  | .error err => .error err
  | .ok tmp0 =>
  let p0 := tmp0
  let data0 := p0.1
  let templateattr0 := p0.2
  let nsamples0 := (some (PyData.len data0))
  (match genVecInit cinv argsort data0 graph nsamples0 mode ncomponents dtype sparse bias incremental with
  | .error err => .error err
  | .ok p1 =>
    let vecattr0 := p1
    .ok (templateattr0, vecattr0)))

def genVecDefaults : Option Nat × ModeS × Option Nat × DType × Bool × Bool × Bool :=
  (none, ModeS.concatenation, none, DType.float64, true, false, false)

def genObjDefaults : Option Nat × ModeS × Option Nat × DType × Bool × Bool × Bool :=
  (none, ModeS.concatenation, none, DType.float64, true, false, false)

def genVecMean (M : VecModel) : List Rat :=
  M.mean_vector

def genObjMean (template : Mat) (M : VecModel) : Mat :=
  (fromVectorLike template M.mean_vector)

def genMahalanobisCore (sqrt : Rat → Rat) (M : VecModel) (samples : Mat) (subtractmean squareroot : Bool) : MahalOut :=
  if subtractmean then
    let nsamples0 := (List.length samples)
    let samples0 := (samples - (tileRows M.mean_vector nsamples0))
    if M.sparse then
      let tmp0 := (pyDot M.precision (transposeM samples0))
      let d0 := (pyDot samples0 tmp0)
      let d1 := (diagOf d0)
      if (((List.length d1) == (1))) then
        let d0 := (pyIdx d1 (0))
        if squareroot then
          (toOut (npSqrt sqrt d0))
        else
          (toOut d0)
      else
        if squareroot then
          (toOut (npSqrt sqrt d1))
        else
          (toOut d1)
    else
      let d0 := (rowDots (pyDot samples0 M.precision) samples0)
      if (((List.length d0) == (1))) then
        let d1 := (pyIdx d0 (0))
        if squareroot then
          (toOut (npSqrt sqrt d1))
        else
          (toOut d1)
      else
        if squareroot then
          (toOut (npSqrt sqrt d0))
        else
          (toOut d0)
  else
    if M.sparse then
      let tmp0 := (pyDot M.precision (transposeM samples))
      let d0 := (pyDot samples tmp0)
      let d1 := (diagOf d0)
      if (((List.length d1) == (1))) then
        let d0 := (pyIdx d1 (0))
        if squareroot then
          (toOut (npSqrt sqrt d0))
        else
          (toOut d0)
      else
        if squareroot then
          (toOut (npSqrt sqrt d1))
        else
          (toOut d1)
    else
      let d0 := (rowDots (pyDot samples M.precision) samples)
      if (((List.length d0) == (1))) then
        let d1 := (pyIdx d0 (0))
        if squareroot then
          (toOut (npSqrt sqrt d1))
        else
          (toOut d1)
      else
        if squareroot then
          (toOut (npSqrt sqrt d0))
        else
          (toOut d0)

def genVecMahalanobis (sqrt : Rat → Rat) (M : VecModel) (samples : PyData) (subtractmean squareroot : Bool) : MahalOut :=
  let p0 := (genDataToMatrix samples none)
  let samples0 := p0.1
  let u0 := p0.2
  if (((PyData.ndim samples0) == (1))) then
    let samples1 := (PyData.rowVec samples0)
    (genMahalanobisCore sqrt M (PyData.toMat samples1) subtractmean squareroot)
  else
    (genMahalanobisCore sqrt M (PyData.toMat samples0) subtractmean squareroot)

def genObjMahalanobis (sqrt : Rat → Rat) (M : VecModel) (samples : ObjQuery) (subtractmean squareroot : Bool) : MahalOut :=
  if (ObjQuery.isList samples) then
    let samples0 := (ObjQuery.asMatrix samples)
    (genMahalanobisCore sqrt M (PyData.toMat samples0) subtractmean squareroot)
  else
    let samples0 := (ObjQuery.rowVec samples)
    (genMahalanobisCore sqrt M (PyData.toMat samples0) subtractmean squareroot)

def genVecPca (M : VecModel) (maxncomponents : Option Nat) : PcaCall (List Rat) :=
  (PcaCall.mk M.precision M.mean_vector M.n_samples true true maxncomponents)

def genObjPca (template : Mat) (M : VecModel) (maxncomponents : Option Nat) : PcaCall Mat :=
  (PcaCall.mk M.precision (genObjMean template M) M.n_samples true true maxncomponents)


end MenpoModel.Generated.C12Src
