/- TRANSLATED by harness/trans_c03.py (harness/py2lean2.py) from the SOURCE TEXT of menpo/transform/homogeneous/*.py of
   the current working tree on every run of `./check C03`: the properties, `_set_h_matrix` / `set_rotation_matrix`,
   the constructors with their checks, `init_identity` and `_from_vector_inplace` of the homogeneous family, the method
   resolution of `__init__` / `set_rotation_matrix` / `init_identity` / the properties, the defaults of `copy` and
   `skip_checks`.  Do not edit.  GenProps/C03Src.lean proves the definitions equal to the model. -/
import MenpoModel.Core.C03Src
import MenpoModel.Core.C03Dtype
set_option linter.unusedVariables false

namespace MenpoModel.Generated.C03
open MenpoModel.C03 MenpoModel.C03.Src

def genNDims (self : DObj) : Int :=
  ((pyItem (pyShape self.hm) (1)) - (1))

def nDimsBodies : List (Sup × (DObj → Int)) :=
  [(.Homogeneous, genNDims), (.Targetable, targetNDims)]

def genLinearComponent (self : DObj) : Arr2 :=
  (Arr2.initInit self.hm)

def genTranslationComponent (self : DObj) : List Rat :=
  (Arr2.lastColInit self.hm)

def genRotationMatrix (self : DObj) : Arr2 :=
  (genLinearComponent self)

def genUScale (self : DObj) : Rat :=
  (Arr2.at self.hm (0) (0))

def genNUScale (self : DObj) : List Rat :=
  (List.dropLast (Arr2.diagonal self.hm))

def genSetHFull_Homogeneous (mt : MethodTable) (t2 : MethodTable2) (self : DObj) (value : Arr2) (copy skipchecks : Bool) : Except Err DObj :=
  if copy then
    let value0 := value
    let self0 := (self.setH value0)
    .ok self0
  else
    let self0 := (self.setH value)
    .ok self0

def genSetHFull_Affine (mt : MethodTable) (t2 : MethodTable2) (self : DObj) (value : Arr2) (copy skipchecks : Bool) : Except Err DObj :=
  if (!skipchecks) then
    let shape0 := (pyShape value)
    if ((((pyLen shape0) != (2))) || (((pyItem shape0 (0)) != (pyItem shape0 (1))))) then
      .error .shape
    else
      if (self.h.isSome) then
        if (((callNDims t2 nDimsBodies self) != ((pyItem shape0 (0)) - (1)))) then
          .error .shape
        else
          if (!(pyIn ((pyItem shape0 (0)) - (1)) [(2), (3)])) then
            .error .shape
          else
            if (!((npAllclose (Arr2.lastRowInit value) (0)) && (npAllclose (Arr2.at value (-(1)) (-(1))) (1)))) then
              .error .shape
            else
              if copy then
                let value0 := value
                let self0 := (self.setH value0)
                .ok self0
              else
                let self0 := (self.setH value)
                .ok self0
      else
        if (!(pyIn ((pyItem shape0 (0)) - (1)) [(2), (3)])) then
          .error .shape
        else
          if (!((npAllclose (Arr2.lastRowInit value) (0)) && (npAllclose (Arr2.at value (-(1)) (-(1))) (1)))) then
            .error .shape
          else
            if copy then
              let value0 := value
              let self0 := (self.setH value0)
              .ok self0
            else
              let self0 := (self.setH value)
              .ok self0
  else
    if copy then
      let value0 := value
      let self0 := (self.setH value0)
      .ok self0
    else
      let self0 := (self.setH value)
      .ok self0

def genSetHFull_AlignmentAffine (mt : MethodTable) (t2 : MethodTable2) (self : DObj) (value : Arr2) (copy skipchecks : Bool) : Except Err DObj :=
  ((genSetHFull_Affine mt t2 self value copy skipchecks)).bind fun self0 =>
    let self1 := self0
    .ok self1

def setHFullBodies (mt : MethodTable) (t2 : MethodTable2) : List (Sup × (DObj → Arr2 → Bool → Bool → Except Err DObj)) :=
  [(.Homogeneous, genSetHFull_Homogeneous mt t2), (.Affine, genSetHFull_Affine mt t2), (.AlignmentAffine, genSetHFull_AlignmentAffine mt t2)]

def genSetRot_Rotation (mt : MethodTable) (t2 : MethodTable2) (self : DObj) (value : Arr2) (skipchecks : Bool) : Except Err DObj :=
  if (!skipchecks) then
    let shape0 := (pyShape value)
    if ((((pyLen shape0) != (2))) && (((pyItem shape0 (0)) != (pyItem shape0 (1))))) then
      .error .shape
    else
      if (((callNDims t2 nDimsBodies self) != (pyItem shape0 (0)))) then
        .error .shape
      else
        ((self.setLinBlock value)).bind fun self0 =>
          .ok self0
  else
    ((self.setLinBlock value)).bind fun self0 =>
      .ok self0

def genSetRot_AlignmentRotation (mt : MethodTable) (t2 : MethodTable2) (self : DObj) (value : Arr2) (skipchecks : Bool) : Except Err DObj :=
  ((genSetRot_Rotation mt t2 self value skipchecks)).bind fun self0 =>
    let self1 := self0
    .ok self1

def setRotBodies (mt : MethodTable) (t2 : MethodTable2) : List (Sup × (DObj → Arr2 → Bool → Except Err DObj)) :=
  [(.Rotation, genSetRot_Rotation mt t2), (.AlignmentRotation, genSetRot_AlignmentRotation mt t2)]

def genInit_Homogeneous (mt : MethodTable) (t2 : MethodTable2) (self : DObj) (hmatrix : Arr2) (copy skipchecks : Bool) : Except Err DObj :=
  let self0 := (self.clearH)
  ((callSetH mt (setHFullBodies mt t2) self0 hmatrix copy skipchecks)).bind fun self1 =>
    .ok self1

def genInit_Affine (mt : MethodTable) (t2 : MethodTable2) (self : DObj) (hmatrix : Arr2) (copy skipchecks : Bool) : Except Err DObj :=
  ((genInit_Homogeneous mt t2 self hmatrix copy skipchecks)).bind fun self0 =>
    .ok self0

def genInit_Similarity (mt : MethodTable) (t2 : MethodTable2) (self : DObj) (hmatrix : Arr2) (copy skipchecks : Bool) : Except Err DObj :=
  ((genInit_Affine mt t2 self hmatrix copy skipchecks)).bind fun self0 =>
    .ok self0

def initMatBodies (mt : MethodTable) (t2 : MethodTable2) : List (Sup × (DObj → Arr2 → Bool → Bool → Except Err DObj)) :=
  [(.Homogeneous, genInit_Homogeneous mt t2), (.Affine, genInit_Affine mt t2), (.Similarity, genInit_Similarity mt t2)]

def genInit_Rotation (mt : MethodTable) (t2 : MethodTable2) (self : DObj) (rotationmatrix : Arr2) (skipchecks : Bool) : Except Err DObj :=
  let hmatrix0 := (Arr2.eye ((pyItem (pyShape rotationmatrix) (0)) + (1)))
  ((genInit_Similarity mt t2 self hmatrix0 false true)).bind fun self0 =>
    ((callSetRot t2 (setRotBodies mt t2) self0 rotationmatrix skipchecks)).bind fun self1 =>
      .ok self1

def genInit_Translation (mt : MethodTable) (t2 : MethodTable2) (self : DObj) (translation : List Rat) (skipchecks : Bool) : Except Err DObj :=
  let translation0 := translation
  let hmatrix0 := (Arr2.eye ((pyItem (pyShape translation0) (0)) + (1)))
  ((Arr2.setLastColInit hmatrix0 translation0)).bind fun hmatrix1 =>
    ((genInit_Similarity mt t2 self hmatrix1 false skipchecks)).bind fun self0 =>
      .ok self0

def genInit_UniformScale (mt : MethodTable) (t2 : MethodTable2) (self : DObj) (scale : Rat) (ndims : Int) (skipchecks : Bool) : Except Err DObj :=
  if (!skipchecks) then
    if ((decide (ndims > (3))) || (decide (ndims < (2)))) then
      .error .shape
    else
      let hmatrix0 := (Arr2.eye (ndims + (1)))
      let hmatrix1 := (Arr2.fillDiagonal hmatrix0 scale)
      let hmatrix0 := (Arr2.set hmatrix1 (-(1)) (-(1)) (1))
      ((genInit_Similarity mt t2 self hmatrix0 false true)).bind fun self0 =>
        .ok self0
  else
    let hmatrix0 := (Arr2.eye (ndims + (1)))
    let hmatrix1 := (Arr2.fillDiagonal hmatrix0 scale)
    let hmatrix0 := (Arr2.set hmatrix1 (-(1)) (-(1)) (1))
    ((genInit_Similarity mt t2 self hmatrix0 false true)).bind fun self0 =>
      .ok self0

def genInit_NonUniformScale (mt : MethodTable) (t2 : MethodTable2) (self : DObj) (scale : List Rat) (skipchecks : Bool) : Except Err DObj :=
  let scale0 := scale
  if (!skipchecks) then
    if ((decide ((pySize scale0) > (3))) || (decide ((pySize scale0) < (2)))) then
      .error .shape
    else
      let hmatrix0 := (Arr2.eye ((pySize scale0) + (1)))
      let hmatrix1 := (Arr2.fillDiagonal hmatrix0 scale0)
      let hmatrix0 := (Arr2.set hmatrix1 (-(1)) (-(1)) (1))
      ((genInit_Affine mt t2 self hmatrix0 false true)).bind fun self0 =>
        .ok self0
  else
    let hmatrix0 := (Arr2.eye ((pySize scale0) + (1)))
    let hmatrix1 := (Arr2.fillDiagonal hmatrix0 scale0)
    let hmatrix0 := (Arr2.set hmatrix1 (-(1)) (-(1)) (1))
    ((genInit_Affine mt t2 self hmatrix0 false true)).bind fun self0 =>
      .ok self0

def genIdentity_Homogeneous (mt : MethodTable) (t2 : MethodTable2) (cls : HCls) (ndims : Int) : Except Err DObj :=
  (callInitMat t2 (initMatBodies mt t2) .Homogeneous (Arr2.eye (ndims + (1))) true false)

def genIdentity_Affine (mt : MethodTable) (t2 : MethodTable2) (cls : HCls) (ndims : Int) : Except Err DObj :=
  (callInitMat t2 (initMatBodies mt t2) cls (Arr2.eye (ndims + (1))) false true)

def genIdentity_Similarity (mt : MethodTable) (t2 : MethodTable2) (cls : HCls) (ndims : Int) : Except Err DObj :=
  (callInitMat t2 (initMatBodies mt t2) cls (Arr2.eye (ndims + (1))) false true)

def genIdentity_Rotation (mt : MethodTable) (t2 : MethodTable2) (cls : HCls) (ndims : Int) : Except Err DObj :=
  (genInit_Rotation mt t2 (DObj.new .Rotation) (Arr2.eye ndims) false)

def genIdentity_Translation (mt : MethodTable) (t2 : MethodTable2) (cls : HCls) (ndims : Int) : Except Err DObj :=
  (genInit_Translation mt t2 (DObj.new .Translation) (npZeros ndims) false)

def genIdentity_UniformScale (mt : MethodTable) (t2 : MethodTable2) (cls : HCls) (ndims : Int) : Except Err DObj :=
  (genInit_UniformScale mt t2 (DObj.new .UniformScale) (1) ndims false)

def genIdentity_NonUniformScale (mt : MethodTable) (t2 : MethodTable2) (cls : HCls) (ndims : Int) : Except Err DObj :=
  (genInit_NonUniformScale mt t2 (DObj.new .NonUniformScale) (npOnes ndims) false)

def identityBodies (mt : MethodTable) (t2 : MethodTable2) : List (Sup × (HCls → Int → Except Err DObj)) :=
  [(.Homogeneous, genIdentity_Homogeneous mt t2), (.Affine, genIdentity_Affine mt t2), (.Similarity, genIdentity_Similarity mt t2), (.Rotation, genIdentity_Rotation mt t2), (.Translation, genIdentity_Translation mt t2), (.UniformScale, genIdentity_UniformScale mt t2), (.NonUniformScale, genIdentity_NonUniformScale mt t2)]

def genANA2_AlignmentAffine (mt : MethodTable) (t2 : MethodTable2) (self : DObj) : Except Err DObj :=
  (callInitMat t2 (initMatBodies mt t2) .Affine self.hm true true)

def genANA2_AlignmentSimilarity (mt : MethodTable) (t2 : MethodTable2) (self : DObj) : Except Err DObj :=
  (callInitMat t2 (initMatBodies mt t2) .Similarity self.hm true true)

def genANA2_AlignmentRotation (mt : MethodTable) (t2 : MethodTable2) (self : DObj) : Except Err DObj :=
  (genInit_Rotation mt t2 (DObj.new .Rotation) (genRotationMatrix self) true)

def genANA2_AlignmentTranslation (mt : MethodTable) (t2 : MethodTable2) (self : DObj) : Except Err DObj :=
  (genInit_Translation mt t2 (DObj.new .Translation) (genTranslationComponent self) false)

def genANA2_AlignmentUniformScale (mt : MethodTable) (t2 : MethodTable2) (self : DObj) : Except Err DObj :=
  (genInit_UniformScale mt t2 (DObj.new .UniformScale) (genUScale self) (callNDims t2 nDimsBodies self) false)

def ana2Bodies (mt : MethodTable) (t2 : MethodTable2) : List (Sup × (DObj → Except Err DObj)) :=
  [(.AlignmentAffine, genANA2_AlignmentAffine mt t2), (.AlignmentSimilarity, genANA2_AlignmentSimilarity mt t2), (.AlignmentRotation, genANA2_AlignmentRotation mt t2), (.AlignmentTranslation, genANA2_AlignmentTranslation mt t2), (.AlignmentUniformScale, genANA2_AlignmentUniformScale mt t2)]

def genFVI_Translation (mt : MethodTable) (t2 : MethodTable2) (self : DObj) (p : List Rat) : Except Err DObj :=
  ((self.setTransCol p)).bind fun self0 =>
    .ok self0

def genFVI_UniformScale (mt : MethodTable) (t2 : MethodTable2) (self : DObj) (p : List Rat) : Except Err DObj :=
  if (((pySize p) != (1))) then
    .error .shape
  else
    ((self.fillDiag p)).bind fun self0 =>
      ((self0.setEntry (-(1)) (-(1)) (1))).bind fun self1 =>
        .ok self1

def genFVI_NonUniformScale (mt : MethodTable) (t2 : MethodTable2) (self : DObj) (p : List Rat) : Except Err DObj :=
  ((self.fillDiag p)).bind fun self0 =>
    ((self0.setEntry (-(1)) (-(1)) (1))).bind fun self1 =>
      .ok self1

def genFVI_Homogeneous (mt : MethodTable) (t2 : MethodTable2) (self : DObj) (p : List Rat) : Except Err DObj :=
  ((npReshape p (pyShape self.hm))).bind fun h_0 =>
  ((callSetH mt (setHFullBodies mt t2) self h_0 true true)).bind fun self0 =>
    .ok self0

def genFVI_Affine (mt : MethodTable) (t2 : MethodTable2) (self : DObj) (p : List Rat) : Except Err DObj :=
  let hmatrix0 := pyNone
  if (((pyItem (pyShape p) (0)) == (6))) then
    let hmatrix1 := (Arr2.eye (3))
    ((npReshapeF p (2) (3))).bind fun h_0 =>
    ((Arr2.addTopRows hmatrix1 (2) h_0)).bind fun hmatrix0 =>
      ((callSetH mt (setHFullBodies mt t2) self hmatrix0 false true)).bind fun self0 =>
        .ok self0
  else
    if (((pyItem (pyShape p) (0)) == (12))) then
      let hmatrix1 := (Arr2.eye (4))
      ((npReshapeF p (3) (4))).bind fun h_1 =>
      ((Arr2.addTopRows hmatrix1 (3) h_1)).bind fun hmatrix0 =>
        ((callSetH mt (setHFullBodies mt t2) self hmatrix0 false true)).bind fun self0 =>
          .ok self0
    else
      .error .shape

def genFVI_Similarity (mt : MethodTable) (t2 : MethodTable2) (self : DObj) (p : List Rat) : Except Err DObj :=
  if (((pyItem (pyShape p) (0)) == (4))) then
    let homog0 := (Arr2.eye (3))
    let homog1 := (Arr2.set homog0 (0) (0) (Arr2.at homog0 (0) (0) + (pyItem p (0))))
    let homog0 := (Arr2.set homog1 (1) (1) (Arr2.at homog1 (1) (1) + (pyItem p (0))))
    let homog1 := (Arr2.set homog0 (0) (1) (-(pyItem p (1))))
    let homog0 := (Arr2.set homog1 (1) (0) (pyItem p (1)))
    ((Arr2.setColTop homog0 (2) (2) (pyDrop p (2)))).bind fun homog1 =>
      ((callSetH mt (setHFullBodies mt t2) self homog1 false true)).bind fun self0 =>
        .ok self0
  else
    if (((pyItem (pyShape p) (0)) == (7))) then
      .error .notImplemented
    else
      .error .shape

def genFVI_Rotation (mt : MethodTable) (t2 : MethodTable2) (self : DObj) (p : List Rat) : Except Err DObj :=
  if (((callNDims t2 nDimsBodies self) == (3))) then
    if (((pyLen p) == (4))) then
      let n0 := (vdot p p)
      if (decide (n0 < (((1 : Rat) / 4503599627370496) * (4 : Rat)))) then
        .ok self
      else
        let p0 := (SVec.mk ((2 : Rat) / n0) p)
        let p1 := (SVec.outerSelf p0)
        let rotation0 := (Arr2.ofRows [[(((1 : Rat) - (Arr2.at p1 (2) (2))) - (Arr2.at p1 (3) (3))), ((Arr2.at p1 (1) (2)) - (Arr2.at p1 (3) (0))), ((Arr2.at p1 (1) (3)) + (Arr2.at p1 (2) (0)))], [((Arr2.at p1 (1) (2)) + (Arr2.at p1 (3) (0))), (((1 : Rat) - (Arr2.at p1 (1) (1))) - (Arr2.at p1 (3) (3))), ((Arr2.at p1 (2) (3)) - (Arr2.at p1 (1) (0)))], [((Arr2.at p1 (1) (3)) - (Arr2.at p1 (2) (0))), ((Arr2.at p1 (2) (3)) + (Arr2.at p1 (1) (0))), (((1 : Rat) - (Arr2.at p1 (1) (1))) - (Arr2.at p1 (2) (2)))]])
        ((callSetRot t2 (setRotBodies mt t2) self rotation0 true)).bind fun self0 =>
          .ok self0
    else
      .error .shape
  else
    .error .notImplemented

def genFVI_AlignmentSimilarity (mt : MethodTable) (t2 : MethodTable2) (self : DObj) (p : List Rat) : Except Err DObj :=
  ((genFVI_Similarity mt t2 self p)).bind fun self0 =>
    let self1 := self0
    .ok self1

def genFVI_AlignmentTranslation (mt : MethodTable) (t2 : MethodTable2) (self : DObj) (p : List Rat) : Except Err DObj :=
  ((genFVI_Translation mt t2 self p)).bind fun self0 =>
    let self1 := self0
    .ok self1

def genFVI_AlignmentUniformScale (mt : MethodTable) (t2 : MethodTable2) (self : DObj) (p : List Rat) : Except Err DObj :=
  ((genFVI_UniformScale mt t2 self p)).bind fun self0 =>
    let self1 := self0
    .ok self1

def fviBodies (mt : MethodTable) (t2 : MethodTable2) : List (Sup × (DObj → List Rat → Except Err DObj)) :=
  [(.Translation, genFVI_Translation mt t2), (.UniformScale, genFVI_UniformScale mt t2), (.NonUniformScale, genFVI_NonUniformScale mt t2), (.Homogeneous, genFVI_Homogeneous mt t2), (.Affine, genFVI_Affine mt t2), (.Similarity, genFVI_Similarity mt t2), (.Rotation, genFVI_Rotation mt t2), (.AlignmentSimilarity, genFVI_AlignmentSimilarity mt t2), (.AlignmentTranslation, genFVI_AlignmentTranslation mt t2), (.AlignmentUniformScale, genFVI_AlignmentUniformScale mt t2)]

def genInplaceT {d : Nat} : Dir → TMat (d + 1) → TMat (d + 1) → TMat (d + 1)
  | .before, self, transform =>
    let self0 := (TMat.dot transform self)
    self0
  | .after, self, transform =>
    let self0 := (TMat.dot self transform)
    self0

def methodTable2 : MethodTable2 :=
  [
  (.Homogeneous, [some .Homogeneous, none, some .Homogeneous, some .Homogeneous, none, none, none, none]),
  (.Affine, [some .Affine, none, some .Affine, some .Homogeneous, some .Affine, some .Affine, none, none]),
  (.Similarity, [some .Similarity, none, some .Similarity, some .Homogeneous, some .Affine, some .Affine, none, none]),
  (.Rotation, [some .Rotation, some .Rotation, some .Rotation, some .Homogeneous, some .Affine, some .Affine, some .Rotation, none]),
  (.Translation, [some .Translation, none, some .Translation, some .Homogeneous, some .Affine, some .Affine, none, none]),
  (.UniformScale, [some .UniformScale, none, some .UniformScale, some .Homogeneous, some .Affine, some .Affine, none, some .UniformScale]),
  (.NonUniformScale, [some .NonUniformScale, none, some .NonUniformScale, some .Homogeneous, some .Affine, some .Affine, none, some .NonUniformScale]),
  (.AlignmentAffine, [some .AlignmentAffine, none, some .Affine, some .Targetable, some .Affine, some .Affine, none, none]),
  (.AlignmentSimilarity, [some .AlignmentSimilarity, none, some .Similarity, some .Targetable, some .Affine, some .Affine, none, none]),
  (.AlignmentRotation, [some .AlignmentRotation, some .AlignmentRotation, some .Rotation, some .Targetable, some .Affine, some .Affine, some .Rotation, none]),
  (.AlignmentTranslation, [some .AlignmentTranslation, none, some .Translation, some .Targetable, some .Affine, some .Affine, none, none]),
  (.AlignmentUniformScale, [some .AlignmentUniformScale, none, some .UniformScale, some .Targetable, some .Affine, some .Affine, none, some .UniformScale])]

def ctorDefaults : List (String × Bool × Bool) :=
  [("Homogeneous.__init__", true, false),
   ("Affine.__init__", true, false),
   ("Similarity.__init__", true, false),
   ("Homogeneous._set_h_matrix", true, false),
   ("Affine._set_h_matrix", true, false),
   ("AlignmentAffine._set_h_matrix", true, false),
   ("Rotation.__init__", true, false),
   ("Translation.__init__", true, false),
   ("UniformScale.__init__", true, false),
   ("NonUniformScale.__init__", true, false),
   ("Rotation.set_rotation_matrix", true, false),
   ("AlignmentRotation.set_rotation_matrix", true, false)]

end MenpoModel.Generated.C03
