/- TRANSLATED by harness/trans_c16.py (harness/py2lean2.py) from the SOURCE TEXT of menpo.io.output.base._validate_filepath / _extension_to_export_function /
   _validate_and_get_export_func (once per value of return_extension) / _export / _export_paths_only /
   export_pickle / export_landmark_file / export_image / export_video
   of the current working tree on every run of `./check C16`; do not edit.
   GenProps/C16SrcIO.lean proves every definition equal to its specification in Core/C16Src*.lean. -/
import MenpoModel.Core.C16SrcIO
import MenpoModel.Generated.C16SrcPure
set_option linter.unusedVariables false

namespace MenpoModel.Generated.C16
open MenpoModel.C16 MenpoModel.C16.PyX


def genValidateFilepath (env : Env) (cwd : Path) (fp : Fp) (overwrite : Bool) : IOx Fp :=
  let pathfilepath0 := (genNormPath env cwd fp)
  W.bind ((fpExists cwd pathfilepath0)) fun tmp0 =>
  if (tmp0 && (!(PyX.truthy overwrite))) then
    W.throw Exc.overwriteError
  else
    W.pure (pathfilepath0)

def genExtToFunc (extension : OStr) (extensionsmap : List (String × String)) : Except Exc (Option String) :=
  PyX.tryE (
      Except.bind ((mapIndex extensionsmap extension)) fun r_ =>
.ok (PyX.TryOut.ret r_))
    (fun (o_ : PyX.TryOut _ Unit) =>
      match o_ with
      | .ret r_ => (
        .ok (r_))
      | .fell s0 =>
      .ok none)
    (fun e_ =>
      if e_ == Exc.keyError then
        .error Exc.valueError
      else
        .error e_)

def genValidateAndGetT (env : Env) (cwd : Path) (filepath : Fp) (extensionsmap : List (String × String)) (extension : OStr) (overwrite : Bool) : IOx (Option String × OStr) :=
  if (Fp.isStr filepath) then
    let filepath0 := (Fp.toPath filepath)
    W.bind ((genValidateFilepath env cwd filepath0 overwrite)) fun filepath1 =>
      W.bind ((W.lift (genParseAndValidate filepath1 extension extensionsmap))) fun extension0 =>
        W.bind ((W.lift (genExtToFunc extension0 extensionsmap))) fun exportcallable0 =>
          W.pure ((exportcallable0, extension0))
  else
    W.bind ((genValidateFilepath env cwd filepath overwrite)) fun filepath0 =>
      W.bind ((W.lift (genParseAndValidate filepath0 extension extensionsmap))) fun extension0 =>
        W.bind ((W.lift (genExtToFunc extension0 extensionsmap))) fun exportcallable0 =>
          W.pure ((exportcallable0, extension0))

def genValidateAndGetF (env : Env) (cwd : Path) (filepath : Fp) (extensionsmap : List (String × String)) (extension : OStr) (overwrite : Bool) : IOx (Option String) :=
  if (Fp.isStr filepath) then
    let filepath0 := (Fp.toPath filepath)
    W.bind ((genValidateFilepath env cwd filepath0 overwrite)) fun filepath1 =>
      W.bind ((W.lift (genParseAndValidate filepath1 extension extensionsmap))) fun extension0 =>
        W.bind ((W.lift (genExtToFunc extension0 extensionsmap))) fun exportcallable0 =>
          W.pure (exportcallable0)
  else
    W.bind ((genValidateFilepath env cwd filepath overwrite)) fun filepath0 =>
      W.bind ((W.lift (genParseAndValidate filepath0 extension extensionsmap))) fun extension0 =>
        W.bind ((W.lift (genExtToFunc extension0 extensionsmap))) fun exportcallable0 =>
          W.pure (exportcallable0)

def genExport (env : Env) (cwd : Path) (obj : ExObj) (fp : Fp) (extensionsmap : List (String × String)) (extension : OStr) (overwrite : Bool) (exporterkwargs : Option Kw) : IOx Unit :=
  if (exporterkwargs).isNone then
    let exporterkwargs0 := (some [])
    if (Fp.isStr fp) then
      let fp0 := (Fp.toPath fp)
      if (Fp.isPath fp0) then
        W.bind ((genValidateAndGetT env cwd fp0 extensionsmap extension overwrite)) fun tmp0 =>
          let p0 := tmp0
          let exportfunction0 := p0.1
          let extension0 := p0.2
          W.bind ((fpOpenWb cwd (genNormPath env cwd fp0))) fun filehandle0 =>
            W.bind ((callExporter exportfunction0 obj filehandle0 extension0 ((exporterkwargs0).getD []))) fun _ =>
              W.pure ()
      else
        if (extension).isNone then
          W.throw Exc.valueError
        else
          W.bind ((W.lift (genNormalizeExtension extension))) fun extension0 =>
            W.tryW (
                W.bind ((W.lift (Fp.getName fp0))) fun tmp1 =>
                W.bind ((genValidateAndGetF env cwd (Fp.toPath tmp1) extensionsmap extension0 overwrite)) fun exportfunction0 =>
                  W.pure (exportfunction0))
              (fun s0 =>
                let exportfunction0 := s0
                W.bind ((callExporter exportfunction0 obj fp0 extension0 ((exporterkwargs0).getD []))) fun _ =>
                  W.pure ())
              (fun e_ =>
                if e_ == Exc.attributeError then
                  W.bind ((W.lift (genExtToFunc extension0 extensionsmap))) fun exportfunction0 =>
                    W.bind ((callExporter exportfunction0 obj fp0 extension0 ((exporterkwargs0).getD []))) fun _ =>
                      W.pure ()
                else
                  W.throw e_)
    else
      if (Fp.isPath fp) then
        W.bind ((genValidateAndGetT env cwd fp extensionsmap extension overwrite)) fun tmp2 =>
          let p0 := tmp2
          let exportfunction0 := p0.1
          let extension0 := p0.2
          W.bind ((fpOpenWb cwd (genNormPath env cwd fp))) fun filehandle0 =>
            W.bind ((callExporter exportfunction0 obj filehandle0 extension0 ((exporterkwargs0).getD []))) fun _ =>
              W.pure ()
      else
        if (extension).isNone then
          W.throw Exc.valueError
        else
          W.bind ((W.lift (genNormalizeExtension extension))) fun extension0 =>
            W.tryW (
                W.bind ((W.lift (Fp.getName fp))) fun tmp3 =>
                W.bind ((genValidateAndGetF env cwd (Fp.toPath tmp3) extensionsmap extension0 overwrite)) fun exportfunction0 =>
                  W.pure (exportfunction0))
              (fun s0 =>
                let exportfunction0 := s0
                W.bind ((callExporter exportfunction0 obj fp extension0 ((exporterkwargs0).getD []))) fun _ =>
                  W.pure ())
              (fun e_ =>
                if e_ == Exc.attributeError then
                  W.bind ((W.lift (genExtToFunc extension0 extensionsmap))) fun exportfunction0 =>
                    W.bind ((callExporter exportfunction0 obj fp extension0 ((exporterkwargs0).getD []))) fun _ =>
                      W.pure ()
                else
                  W.throw e_)
  else
    if (Fp.isStr fp) then
      let fp0 := (Fp.toPath fp)
      if (Fp.isPath fp0) then
        W.bind ((genValidateAndGetT env cwd fp0 extensionsmap extension overwrite)) fun tmp4 =>
          let p0 := tmp4
          let exportfunction0 := p0.1
          let extension0 := p0.2
          W.bind ((fpOpenWb cwd (genNormPath env cwd fp0))) fun filehandle0 =>
            W.bind ((callExporter exportfunction0 obj filehandle0 extension0 ((exporterkwargs).getD []))) fun _ =>
              W.pure ()
      else
        if (extension).isNone then
          W.throw Exc.valueError
        else
          W.bind ((W.lift (genNormalizeExtension extension))) fun extension0 =>
            W.tryW (
                W.bind ((W.lift (Fp.getName fp0))) fun tmp5 =>
                W.bind ((genValidateAndGetF env cwd (Fp.toPath tmp5) extensionsmap extension0 overwrite)) fun exportfunction0 =>
                  W.pure (exportfunction0))
              (fun s0 =>
                let exportfunction0 := s0
                W.bind ((callExporter exportfunction0 obj fp0 extension0 ((exporterkwargs).getD []))) fun _ =>
                  W.pure ())
              (fun e_ =>
                if e_ == Exc.attributeError then
                  W.bind ((W.lift (genExtToFunc extension0 extensionsmap))) fun exportfunction0 =>
                    W.bind ((callExporter exportfunction0 obj fp0 extension0 ((exporterkwargs).getD []))) fun _ =>
                      W.pure ()
                else
                  W.throw e_)
    else
      if (Fp.isPath fp) then
        W.bind ((genValidateAndGetT env cwd fp extensionsmap extension overwrite)) fun tmp6 =>
          let p0 := tmp6
          let exportfunction0 := p0.1
          let extension0 := p0.2
          W.bind ((fpOpenWb cwd (genNormPath env cwd fp))) fun filehandle0 =>
            W.bind ((callExporter exportfunction0 obj filehandle0 extension0 ((exporterkwargs).getD []))) fun _ =>
              W.pure ()
      else
        if (extension).isNone then
          W.throw Exc.valueError
        else
          W.bind ((W.lift (genNormalizeExtension extension))) fun extension0 =>
            W.tryW (
                W.bind ((W.lift (Fp.getName fp))) fun tmp7 =>
                W.bind ((genValidateAndGetF env cwd (Fp.toPath tmp7) extensionsmap extension0 overwrite)) fun exportfunction0 =>
                  W.pure (exportfunction0))
              (fun s0 =>
                let exportfunction0 := s0
                W.bind ((callExporter exportfunction0 obj fp extension0 ((exporterkwargs).getD []))) fun _ =>
                  W.pure ())
              (fun e_ =>
                if e_ == Exc.attributeError then
                  W.bind ((W.lift (genExtToFunc extension0 extensionsmap))) fun exportfunction0 =>
                    W.bind ((callExporter exportfunction0 obj fp extension0 ((exporterkwargs).getD []))) fun _ =>
                      W.pure ()
                else
                  W.throw e_)

def genExportPathsOnly (env : Env) (cwd : Path) (obj : ExObj) (fp : Fp) (extensionsmap : List (String × String)) (extension : OStr) (overwrite : Bool) (exporterkwargs : Option Kw) : IOx Unit :=
  if (exporterkwargs).isNone then
    let exporterkwargs0 := (some [])
    if (Fp.isStr fp) then
      let filepath0 := (Fp.toPath fp)
      W.bind ((genValidateAndGetF env cwd filepath0 extensionsmap extension overwrite)) fun exportfunction0 =>
        W.bind ((callExporterAt cwd exportfunction0 obj (genNormPath env cwd filepath0) ((exporterkwargs0).getD []))) fun _ =>
          W.pure ()
    else
      W.bind ((genValidateAndGetF env cwd fp extensionsmap extension overwrite)) fun exportfunction0 =>
        W.bind ((callExporterAt cwd exportfunction0 obj (genNormPath env cwd fp) ((exporterkwargs0).getD []))) fun _ =>
          W.pure ()
  else
    if (Fp.isStr fp) then
      let filepath0 := (Fp.toPath fp)
      W.bind ((genValidateAndGetF env cwd filepath0 extensionsmap extension overwrite)) fun exportfunction0 =>
        W.bind ((callExporterAt cwd exportfunction0 obj (genNormPath env cwd filepath0) ((exporterkwargs).getD []))) fun _ =>
          W.pure ()
    else
      W.bind ((genValidateAndGetF env cwd fp extensionsmap extension overwrite)) fun exportfunction0 =>
        W.bind ((callExporterAt cwd exportfunction0 obj (genNormPath env cwd fp) ((exporterkwargs).getD []))) fun _ =>
          W.pure ()

def genExportPickle (env : Env) (cwd : Path) (pickleTypes : List (String × String)) (obj : ExObj) (fp : Fp) (overwrite : Bool) (protocol : Nat) : IOx Unit :=
  let exporterkwargs0 := [("protocol", protocol)]
  if (Fp.isStr fp) then
    let fp0 := (Fp.toPath fp)
    if (Fp.isPath fp0) then
      W.bind ((genValidateFilepath env cwd fp0 overwrite)) fun pathfilepath0 =>
        W.bind ((W.lift (genParseAndValidate pathfilepath0 none pickleTypes))) fun extension0 =>
          let o0 := (if (((strLast3 extension0) == (ostr ".gz"))) then Opener.gzip else Opener.plain)
          W.bind ((openWith cwd o0 pathfilepath0)) fun f0 =>
            W.bind ((genExport env cwd obj f0 pickleTypes extension0 true (some exporterkwargs0))) fun _ =>
              W.pure ()
    else
      W.bind ((genExport env cwd obj fp0 pickleTypes (ostr ".pkl") overwrite (some exporterkwargs0))) fun _ =>
        W.pure ()
  else
    if (Fp.isPath fp) then
      W.bind ((genValidateFilepath env cwd fp overwrite)) fun pathfilepath0 =>
        W.bind ((W.lift (genParseAndValidate pathfilepath0 none pickleTypes))) fun extension0 =>
          let o0 := (if (((strLast3 extension0) == (ostr ".gz"))) then Opener.gzip else Opener.plain)
          W.bind ((openWith cwd o0 pathfilepath0)) fun f0 =>
            W.bind ((genExport env cwd obj f0 pickleTypes extension0 true (some exporterkwargs0))) fun _ =>
              W.pure ()
    else
      W.bind ((genExport env cwd obj fp pickleTypes (ostr ".pkl") overwrite (some exporterkwargs0))) fun _ =>
        W.pure ()

def genExportLandmarkFile (env : Env) (cwd : Path) (landmarkTypes : List (String × String)) (landmarksobject : ExObj) (fp : Fp) (extension : OStr) (overwrite : Bool) : IOx Unit :=
  if (Fp.isStrOrPath fp) then
    W.bind ((genValidateFilepath env cwd (Fp.toPath fp) overwrite)) fun _ =>
      W.bind ((W.lift (genNormalizeExtension extension))) fun extension0 =>
        W.tryW (
            W.bind ((W.lift (ExObj.nPoints landmarksobject))) fun _ =>
              W.pure (()))
          (fun s0 =>
            W.bind ((genExport env cwd landmarksobject fp landmarkTypes extension0 overwrite none)) fun _ =>
              W.pure ())
          (fun e_ =>
            if e_ == Exc.attributeError then
              let fpispath0 := (Fp.isStrOrPath fp)
              if (((extension0).isSome && ((extension0 != (ostr ".ljson")))) || ((PyX.truthy fpispath0) && (((Fp.suffix (Fp.toPath fp)) != (ostr ".ljson"))))) then
                let m10 := ()
                W.throw Exc.valueError
              else
                W.bind ((genExport env cwd landmarksobject fp landmarkTypes extension0 overwrite none)) fun _ =>
                  W.pure ()
            else
              W.throw e_)
  else
    W.bind ((W.lift (genNormalizeExtension extension))) fun extension0 =>
      W.tryW (
          W.bind ((W.lift (ExObj.nPoints landmarksobject))) fun _ =>
            W.pure (()))
        (fun s0 =>
          W.bind ((genExport env cwd landmarksobject fp landmarkTypes extension0 overwrite none)) fun _ =>
            W.pure ())
        (fun e_ =>
          if e_ == Exc.attributeError then
            let fpispath0 := (Fp.isStrOrPath fp)
            if (((extension0).isSome && ((extension0 != (ostr ".ljson")))) || ((PyX.truthy fpispath0) && (((Fp.suffix (Fp.toPath fp)) != (ostr ".ljson"))))) then
              let m10 := ()
              W.throw Exc.valueError
            else
              W.bind ((genExport env cwd landmarksobject fp landmarkTypes extension0 overwrite none)) fun _ =>
                W.pure ()
          else
            W.throw e_)

def genExportImage (env : Env) (cwd : Path) (imageTypes : List (String × String)) (image : ExObj) (fp : Fp) (extension : OStr) (overwrite : Bool) : IOx Unit :=
  W.bind ((genExport env cwd image fp imageTypes extension overwrite none)) fun _ =>
    W.pure ()

def genExportVideo (env : Env) (cwd : Path) (videoTypes : List (String × String)) (images : ExObj) (filepath : Fp) (overwrite : Bool) (fps : Nat) (kwargs : Kw) : IOx Unit :=
  let exporterkwargs0 := [("fps", fps)]
  let exporterkwargs1 := (exporterkwargs0 ++ kwargs)
  W.bind ((W.lift (genEnforcePaths filepath))) fun filepath0 =>
    W.bind ((genExportPathsOnly env cwd images filepath0 videoTypes none overwrite (some exporterkwargs1))) fun _ =>
      W.pure ()

end MenpoModel.Generated.C16
